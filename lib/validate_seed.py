#!/usr/bin/env python3
"""Validate a seeded breaking change produced by an independent sub-agent, then run our check on it.

usage: lib/validate_seed.py <worktree> <seed dir under worktree/seeds> <property id>
Steps (all in the scratch worktree, never in /repo):
  1. demo passes on the unchanged tree;  2. patch applies, workspace builds, the existing suite passes
  (except the known always-failing tls golden test), the demo FAILS;  3. ./check <id> with VERIF_REPO=<worktree>
  reports a VIOLATION. Copies the seed into /verif/seeded/<name>/ with what was run.
"""
import json, os, re, shutil, subprocess, sys

wt, seed, pid = sys.argv[1], sys.argv[2], sys.argv[3]
sd = os.path.join(wt, "seeds", seed)
env = dict(os.environ, CARGO_NET_OFFLINE="true")

def sh(cmd, cwd=wt, timeout=3000, extra=None):
    e = dict(env); e.update(extra or {})
    p = subprocess.run(cmd, shell=True, cwd=cwd, env=e, stdout=subprocess.PIPE, stderr=subprocess.STDOUT, text=True, timeout=timeout)
    return p.returncode, p.stdout

demo = open(os.path.join(sd, "demo.rs")).read()
m = re.search(r"(huginn-net(?:-[a-z]+)?)", demo.split("\n")[0])
crate = m.group(1) if m else "huginn-net"
tname = "seed_demo_" + seed.replace("-", "_").lower()
tpath = os.path.join(wt, crate, "tests", tname + ".rs")
log = {}
sh("git checkout -- . && git clean -fdq -- '*/tests/seed_demo_*'")
sh("git checkout -q --detach $(git -C /repo rev-parse HEAD)")   # validate against the current /repo HEAD
shutil.copy(os.path.join(sd, "demo.rs"), tpath)
feat = " --features verif-hooks" if "verif-hooks" in demo else ""
rc, out = sh(f"cargo test --offline -p {crate}{feat} --test {tname} 2>&1 | tail -15")
log["demo_on_unchanged"] = out[-600:]
ok_unchanged = "test result: ok" in out and " 0 passed" not in out
rc, out = sh(f"git apply {sd}/patch.diff")
log["apply"] = out
rc, out = sh("cargo nextest run --workspace --no-fail-fast --offline 2>&1 | tail -12")
log["suite_with_patch"] = out[-900:]
fails = re.findall(r"FAIL \[[^\]]*\] (?:\([^)]*\) )?(\S+) (\S+)", out)
other = sorted({f"{a} {b}" for a, b in fails if tname not in a and "test_golden_pcap_snapshots" not in b})
# timing-sensitive pool tests can flake while other builds load the machine: re-run each once on its own
still = []
for t in other:
    crate_bin, test = t.split(" ", 1)
    rc2, o2 = sh(f"cargo nextest run --workspace --offline -E 'test(={test})' 2>&1 | tail -5")
    if " 1 passed" not in o2 and "1 passed" not in o2:
        still.append(t)
    else:
        log.setdefault("flaky_rerun_passed", []).append(t)
other = still
rc, out2 = sh(f"cargo test --offline -p {crate}{feat} --test {tname} 2>&1 | tail -25")
log["demo_with_patch"] = out2[-900:]
demo_fails = "test result: FAILED" in out2 or "error: test failed" in out2
os.remove(tpath)
# our check on the patched tree
rc, out = sh(f"./check {pid} --tier quick", cwd="/verif", extra={"VERIF_REPO": wt}, timeout=3000)
log["check"] = out[-1500:]
caught = "VIOLATION property=" + pid in out
concrete = caught and "no-failing-input-found" not in out
sh("git checkout -- .")
sh(f"./check {pid} --tier quick >/dev/null", cwd="/verif")
subprocess.run("rm -f /verif/replays/*.json", shell=True)
res = {"seed": seed, "property": pid, "demo_passes_unchanged": ok_unchanged, "demo_fails_with_patch": demo_fails,
       "other_suite_failures_with_patch": other, "valid": ok_unchanged and demo_fails and not other,
       "caught_by_check": caught, "concrete_failing_input": concrete}
print(json.dumps(res, indent=1))
if res["valid"]:
    dst = os.path.join("/verif/seeded", seed)
    os.makedirs(dst, exist_ok=True)
    for f in ("patch.diff", "demo.rs"):
        shutil.copy(os.path.join(sd, f), dst)
    meta = json.load(open(os.path.join(sd, "meta.json")))
    meta["validated_by_main_session"] = res
    meta["validation_log"] = log
    json.dump(meta, open(os.path.join(dst, "meta.json"), "w"), indent=1)
