#!/usr/bin/env python3
"""Regression over seeded/: apply every stored patch to a scratch worktree of /repo at HEAD and run the
property's quick check against it; every one must be reported as a VIOLATION. (The demos / suite were
validated when the seed was recorded; this re-confirms detection with the checks as they are now.)
usage: lib/recheck_seeds.py [names...]   → writes seeded/RECHECK.json"""
import json, os, re, subprocess, sys, time
WT = "/tmp/seed-recheck"
def sh(cmd, cwd=None, env=None, timeout=3000):
    e = dict(os.environ, CARGO_NET_OFFLINE="true"); e.update(env or {})
    p = subprocess.run(cmd, shell=True, cwd=cwd, env=e, stdout=subprocess.PIPE, stderr=subprocess.STDOUT, text=True, timeout=timeout)
    return p.returncode, p.stdout
names = sys.argv[1:] or sorted(d for d in os.listdir("/verif/seeded") if os.path.isdir(f"/verif/seeded/{d}"))
if not os.path.isdir(WT):
    sh(f"git -C /repo worktree add --detach {WT} HEAD")
sh("git checkout -q --detach $(git -C /repo rev-parse HEAD) && git checkout -- .", cwd=WT)
head = sh("git rev-parse --short HEAD", cwd=WT)[1].strip()
out = {"repo_head": head, "results": {}}
for n in names:
    meta = json.load(open(f"/verif/seeded/{n}/meta.json"))
    if meta.get("superseded"):
        out["results"][n] = "superseded"; print(n, "superseded", flush=True); continue
    pid = re.match(r"(C\d\d)", n).group(1)
    rc, o = sh(f"git apply /verif/seeded/{n}/patch.diff", cwd=WT)
    if rc != 0:
        out["results"][n] = "patch-does-not-apply"; print(n, "NOAPPLY", flush=True); continue
    t0 = time.time()
    rc, o = sh(f"./check {pid} --tier quick", cwd="/verif", env={"VERIF_REPO": WT})
    caught = f"VIOLATION property={pid}" in o
    concrete = caught and "no-failing-input-found" not in o
    out["results"][n] = "caught-concrete" if concrete else ("caught" if caught else "MISSED")
    print(n, out["results"][n], f"{time.time()-t0:.0f}s", flush=True)
    sh("git checkout -- .", cwd=WT)
    json.dump(out, open("/verif/seeded/RECHECK.json", "w"), indent=1)
sh(f"git -C /repo worktree remove --force {WT}")
# leave harness/Cargo.toml pointing at /repo again and remove scratch replays
sh("./check C14 --tier quick >/dev/null", cwd="/verif")
subprocess.run("rm -f /verif/replays/*.json", shell=True)
json.dump(out, open("/verif/seeded/RECHECK.json", "w"), indent=1)
