#!/usr/bin/env python3
"""Regenerate MANIFEST.json from lib/props.py + lib/manifest_meta.py (run by hand after editing)."""
import json, os, sys
V = os.path.dirname(os.path.dirname(os.path.abspath(__file__)))
sys.path.insert(0, os.path.join(V, "lib"))
from props import PROPS
from manifest_meta import META, NOT_APPLICABLE, HOOK_COMMITS

ALL = [f"C{i:02d}" for i in range(1, 21)]
checks = []
for pid in ALL:
    if pid not in PROPS or pid not in META:
        continue
    m = META[pid]
    checks.append({
        "property_id": pid,
        "quick_cmd": f"./check {pid} --tier quick",
        "thorough_cmd": f"./check {pid} --tier thorough",
        "evidence_file": f"/verif/evidence/{pid}.json",
        "replay_cmd_template": f"./check {pid} --replay {{path}}",
        "engine": "lean4-proof+correspondence",
        "level_claimed": {"category": "proof", "text": m["text"], "design_ref": m["design_ref"]},
        "level_note": m["note"],
        "technique": m["technique"],
    })
na = [{"property_id": p, "reason": NOT_APPLICABLE.get(p, "not yet claimed: the Lean model and correspondence harness for this property are still being built (see DESIGN.md §7); no other technique is substituted")}
      for p in ALL if p not in {c["property_id"] for c in checks}]
man = {
    "version": 1,
    "setup_cmd": "./check --setup",
    "hooks": {
        "guard": "cargo feature `verif-hooks` (default off) on huginn-net-tcp/http/tls",
        "enable": "harness/Cargo.toml enables features=[\"verif-hooks\"] on its path dependencies huginn-net and huginn-net-tcp (cargo build --release --offline in /verif/harness)",
        "baseline_off_cmd": "cd /repo && cargo nextest run --workspace --no-fail-fast --tool-config-file pb:/w/lib/nextest.toml --profile pb --test-threads 8 --offline",
        "source_commits": HOOK_COMMITS,
        "add_only": True,
    },
    "engines": [{
        "name": "lean4-proof+correspondence",
        "path": "/verif/check",
        "serves_properties": [c["property_id"] for c in checks],
        "kind_free_text": "Lean 4 theorems about an executable model (lean/Huginn), tied to /repo on every run by (T) tables regenerated from the Rust source and (C) a differential correspondence run of the real crates (harness/) against the compiled model driver (hdrv)",
    }],
    "checks": checks,
    "not_applicable": na,
    "notes": "See DESIGN.md. known_findings.json lists open/fixed findings; seeded/ holds validated breaking changes.",
}
json.dump(man, open(os.path.join(V, "MANIFEST.json"), "w"), indent=1)
print("claimed:", [c["property_id"] for c in checks])
