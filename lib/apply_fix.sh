#!/bin/bash
# usage: lib/apply_fix.sh <patch file with "# fix: subject" + "# body" comment header>
# applies to /repo, runs the unedited suite, commits with the message from the header
set -e
p="$1"
subj=$(grep -m1 '^# fix:' "$p" | sed 's/^# //')
body=$(awk '/^# fix:/{f=1;next} /^#/{if(f){sub(/^# ?/,"");print}} !/^#/{exit}' "$p")
cd /repo
git apply "$p"
out=$(CARGO_NET_OFFLINE=true cargo nextest run --workspace --no-fail-fast --tool-config-file pb:/w/lib/nextest.toml --profile pb --test-threads 8 --offline 2>&1 | grep "Summary" )
echo "$subj :: $out"
if echo "$out" | grep -q "464 passed, 1 failed"; then
  git commit -qam "$subj

$body"
  git log --oneline | head -1
else
  echo "SUITE NOT GREEN — reverting"; git checkout -- .; exit 1
fi
