#!/usr/bin/env python3
"""Render the seeded-change prompt for one property: only the property text and a scratch worktree path.
usage: lib/gen_seed_prompt.py C05 [suffix]   (suffix e.g. 'b' -> worktree /tmp/seed-C05b, seeds C05b-i)"""
import json,sys
pid=sys.argv[1]; suf=sys.argv[2] if len(sys.argv)>2 else ''
for l in open('/verif/properties.jsonl'):
    p=json.loads(l)
    if p['id']==pid: break
else: sys.exit('no such property')
anch=p.get('anchor') or p.get('anchors') or {}
if isinstance(anch,dict): anch=', '.join(anch.get('files',[]))
q=p.get('quantifier',{}); q=q.get('text','') if isinstance(q,dict) else str(q)
txt=f"  Title: {p.get('title','')}\n  Statement: {p.get('statement','')}\n  Quantified over: {q}\n  Code it is anchored in: {anch}"
t=open('/verif/lib/seed_prompt.tmpl').read().replace('@PROPERTY@',txt)
t=t.replace('seed-@ID@','seed-'+pid+suf).replace('seeds/@ID@-i','seeds/'+pid+suf+'-i').replace('@ID@',pid)
print(t)
