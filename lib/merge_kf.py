#!/usr/bin/env python3
"""Resolve a merge conflict in known_findings.json by taking the union of entries (by id; ours wins on equal id)."""
import json, subprocess
def show(stage):
    return json.loads(subprocess.check_output(["git", "show", f":{stage}:known_findings.json"]))
ours, theirs = show(2), show(3)
idx = {e["id"]: i for i, e in enumerate(ours["findings"])}
for e in theirs["findings"]:
    if e["id"] not in idx:
        ours["findings"].append(e)
    elif ours["findings"][idx[e["id"]]]["status"] == "open" and e["status"] != "open":
        ours["findings"][idx[e["id"]]] = e
json.dump(ours, open("known_findings.json", "w"), indent=1)
print(len(ours["findings"]), "findings")
