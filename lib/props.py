"""Per-property configuration of ./check (what is proved, what is run, what is trusted)."""

COMMON_TB = [
    "Lean 4.33.0 kernel (theorems in lean/Huginn/Props/<id>.lean; axioms limited to propext, Classical.choice, Quot.sound, enforced by #print axioms on every run)",
    "extract/extract.py (regenerates lean/Huginn/Gen/*.lean from /repo sources on every run)",
    "harness/ (Rust crate hvh with path dependencies on /repo, rebuilt from the working tree) + lean/Main.lean driver hdrv + ./check (diff and classification)",
    "specifications in lean/Huginn/Spec/* are a reading of the property statement and the public formats it cites",
]

PROPS = {
    "C14": {
        "trusted_base": COMMON_TB + [
            "ipnetwork::Ipv{4,6}Network::contains and the address/CIDR string parsers of std/ipnetwork are third-party: modelled (Net.contains), exercised for every prefix length, not proved",
        ],
        "assumptions": [
            "ports are u16, addresses are 32/128-bit (AddrWF, SubnetWF hypotheses of the theorem; the Rust types guarantee them)",
            "a side whose only constraints are empty ranges is left unspecified by the statement and is not compared against the specification (still compared against the model)",
        ],
        "rule": "cases = corpus witnesses + exhaustive mode x sub-filter presence x side selection x per-sub-filter hit/miss grid + PRNG-generated configurations (boundary ports 0/1/65534/65535, empty and reversed ranges, IPv4/IPv6 lists, CIDR prefixes 0..32/128 with endpoints at the first bit outside / last bit inside each prefix) evaluated on all three crates' FilterConfig; distinct = distinct case line (blake2b of the input tokens); non-trivial = the model did not take the 'no sub-filter configured' early exit",
        "trivial_tags": [r"(allow|deny):T"],
        "required_tags": {"quick": [r"allow\+port.*:T", r"allow\+port.*:F", r"deny\+port.*:T", r"deny\+port.*:F", r".*\+ip.*:T", r".*\+subnet.*:T", r".*\+any:T", r"pm-any:T", r"pm-sides:F", r"cidr32/0:T", r"cidr32/full:F", r"cidr128/mid:T", r"cidr128/mid:F"]},
        "timeout": {"quick": 600, "thorough": 3000},
    },
}
