"""Per-property configuration of ./check, loaded from /verif/props/Cnn.json.

Each file: {"check": {rule, trivial_tags, required_tags, timeout, assumptions, extra_trusted_base, ...},
            "manifest": {text, design_ref, note, technique}}
"""
import glob, json, os

V = os.path.dirname(os.path.dirname(os.path.abspath(__file__)))

COMMON_TB = [
    "Lean 4.33.0 kernel (theorems in lean/Huginn/Props/<id>.lean; axioms limited to propext, Classical.choice, Quot.sound, enforced by #print axioms on every run)",
    "extract/extract.py (regenerates lean/Huginn/Gen/*.lean from /repo sources on every run)",
    "harness/ (Rust crate hvh with path dependencies on /repo, rebuilt from the working tree) + lean/Main.lean driver hdrv + ./check (diff and classification)",
    "specifications in lean/Huginn/Spec/* are a reading of the property statement and the public formats it cites",
]

PROPS = {}
META = {}
for f in sorted(glob.glob(os.path.join(V, "props", "C*.json"))):
    pid = os.path.basename(f)[:-5]
    d = json.load(open(f))
    c = d["check"]
    c["trusted_base"] = COMMON_TB + c.get("extra_trusted_base", [])
    PROPS[pid] = c
    META[pid] = d["manifest"]
