#!/usr/bin/env python3
"""Robustness against harmless rewrites: apply behaviour-preserving refactors (produced by independent sub-agents
that saw only the property text) to a scratch worktree of /repo and run the property's quick check against it.
A green run is the wanted outcome; an alarm here is by construction NOT a property violation — it tells how brittle
the tie (extractors / site inventory) is. Records everything in /verif/refactors/<id>/ and /verif/refactors/RESULTS.json.

usage: lib/try_refactors.py <worktree> <property id>      (refactors under <worktree>/refac/<id>-r<i>/)
"""
import json, os, re, shutil, subprocess, sys
wt, pid = sys.argv[1], sys.argv[2]
def sh(cmd, cwd=None, env=None, timeout=3000):
    e = dict(os.environ, CARGO_NET_OFFLINE="true"); e.update(env or {})
    p = subprocess.run(cmd, shell=True, cwd=cwd, env=e, stdout=subprocess.PIPE, stderr=subprocess.STDOUT, text=True, timeout=timeout)
    return p.returncode, p.stdout
resp = "/verif/refactors/RESULTS.json"
results = json.load(open(resp)) if os.path.exists(resp) else {}
sh("git checkout -- .", cwd=wt)
sh("git checkout -q --detach $(git -C /repo rev-parse HEAD)", cwd=wt)
for d in sorted(os.listdir(os.path.join(wt, "refac"))):
    sd = os.path.join(wt, "refac", d)
    if not os.path.isfile(os.path.join(sd, "patch.diff")):
        continue
    rc, o = sh(f"git apply {sd}/patch.diff", cwd=wt)
    if rc != 0:
        results[d] = {"outcome": "patch-does-not-apply"}; print(d, "NOAPPLY"); continue
    # the suite must pass (it is the agent's claim; re-checked here)
    rc, o = sh("cargo nextest run --workspace --no-fail-fast --offline 2>&1 | grep -E 'Summary|FAIL ' | sort -u", cwd=wt)
    fails = sorted(set(re.findall(r"FAIL \[[^\]]*\] (?:\(\S+\) )?(\S+ \S+)", o)))
    other = [f for f in fails if "test_golden_pcap_snapshots" not in f]
    rc, o = sh(f"./check {pid} --tier quick", cwd="/verif", env={"VERIF_REPO": wt})
    alarm = "VIOLATION property=" in o
    lines = [l for l in o.splitlines() if l.startswith(f"[{pid}] broken") or l.startswith("VIOLATION")]
    results[d] = {"property": pid, "suite_other_failures": other,
                  "outcome": ("alarm-with-input" if alarm and "no-failing-input-found" not in o else "alarm-no-input" if alarm else "green"),
                  "lines": [l[:400] for l in lines][:4]}
    print(d, results[d]["outcome"], flush=True)
    os.makedirs(f"/verif/refactors/{d}", exist_ok=True)
    shutil.copy(f"{sd}/patch.diff", f"/verif/refactors/{d}/patch.diff")
    if os.path.exists(f"{sd}/meta.json"):
        shutil.copy(f"{sd}/meta.json", f"/verif/refactors/{d}/meta.json")
    sh("git checkout -- . && git clean -fdq -- '*.rs'", cwd=wt)
    json.dump(results, open(resp, "w"), indent=1)
sh(f"./check {pid} --tier quick >/dev/null", cwd="/verif")   # harness/Cargo.toml back to /repo
subprocess.run("rm -f /verif/replays/*.json", shell=True)
json.dump(results, open(resp, "w"), indent=1)
