from props import META  # noqa: F401
HOOK_COMMITS = ["4a3c34b"]
NOT_APPLICABLE = {}
