HOOK_COMMITS = []
NOT_APPLICABLE = {}
META = {
    "C14": {
        "text": "Theorem should_process_eq_spec: for every configuration the builder API can produce and every endpoint 4-tuple, the model of FilterConfig::should_process decides exactly the documented rule (allow/deny/no-filter; port sides, any-port union, half-open ranges incl. 0 and 65535; address lists; CIDR blocks for every prefix 0..32/128), proved in Lean with no bound. The model is tied to the three filter.rs copies by a differential run of all three crates (and the unified re-export) on ~5*10^4 (quick) / ~10^6 (thorough) structured cases including an exhaustive mode x presence x side x hit grid.",
        "design_ref": "DESIGN.md §7 C14",
        "note": "Trusted: Lean kernel; harness/driver/diff; my reading of the statement (Spec/Filter.lean). ipnetwork's contains and the std/ipnetwork string parsers are modelled and exercised, not proved. A side constrained only by empty ranges is treated as unspecified.",
        "technique": "Lean 4 theorem (iff between model and declarative spec) + differential correspondence against the three crates",
    },
}
