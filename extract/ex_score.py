"""C02/C12/C13: regenerate lean/Huginn/Gen/Score.lean from huginn-net-db:

  tcp.rs / http.rs   `as_score` arms, `MAX_DISTANCE`, `distance_to_score` arms
  observable_http_signals_matching.rs   the error bands at the end of `distance_header`

A match on a `u32` scrutinee becomes a first-match list of rows `(lo, hi, value)`:
  `N => v`            -> (N, N, v)
  `A..=B => v`        -> (A, B, v)          (`A..B` -> (A, B-1, v))
  `x if x <= K => v`  -> (0, K, v)          (`<` -> K-1; K a literal or `Self::MAX_DISTANCE`)
  `_ => v`            -> (0, 4294967295, v)
Score values are f32 literals, emitted in hundredths (an item is not ok when a literal is not a
whole number of hundredths).
"""
import os, re
from fractions import Fraction

PROPS = ["C02", "C12", "C13"]
U32MAX = 4294967295


def strip_comments(src):
    src = re.sub(r"/\*.*?\*/", " ", src, flags=re.S)
    return re.sub(r"//[^\n]*", "", src)


def body_after(src, pat):
    """Text between the braces that follow the first match of regex `pat` (brace-aware)."""
    m = re.search(pat, src)
    if not m:
        return None
    i = src.find("{", m.end() - 1)
    if i < 0:
        return None
    depth, j = 0, i
    while j < len(src):
        if src[j] == "{":
            depth += 1
        elif src[j] == "}":
            depth -= 1
            if depth == 0:
                return src[i + 1:j]
        j += 1
    return None


def split_arms(body):
    """Split a match body into (pattern, expr) at top-level commas."""
    arms, depth, cur = [], 0, ""
    for ch in body:
        if ch in "([{":
            depth += 1
        elif ch in ")]}":
            depth -= 1
        if ch == "," and depth == 0:
            arms.append(cur)
            cur = ""
        else:
            cur += ch
    if cur.strip():
        arms.append(cur)
    out = []
    for a in arms:
        if "=>" not in a:
            if a.strip():
                raise ValueError(f"arm without =>: {a.strip()!r}")
            continue
        p, e = a.split("=>", 1)
        out.append((p.strip(), e.strip()))
    return out


def pat_range(p, consts):
    p = p.strip()
    if p == "_":
        return 0, U32MAX
    if re.fullmatch(r"\d+", p):
        return int(p), int(p)
    m = re.fullmatch(r"(\d+)\s*\.\.=\s*(\d+)", p)
    if m:
        return int(m.group(1)), int(m.group(2))
    m = re.fullmatch(r"(\d+)\s*\.\.\s*(\d+)", p)
    if m:
        return int(m.group(1)), int(m.group(2)) - 1
    m = re.fullmatch(r"(\w+)\s+if\s+(\w+)\s*(<=|<)\s*([\w:]+)", p)
    if m and m.group(1) == m.group(2):
        k = m.group(4)
        if re.fullmatch(r"\d+", k):
            kv = int(k)
        elif k.split("::")[-1] in consts:
            kv = consts[k.split("::")[-1]]
        else:
            raise ValueError(f"unknown bound {k!r}")
        return 0, kv if m.group(3) == "<=" else kv - 1
    raise ValueError(f"unsupported pattern {p!r}")


def centi(e):
    m = re.fullmatch(r"(\d+(?:\.\d*)?)(?:_?f32)?", e.strip())
    if not m:
        raise ValueError(f"not an f32 literal: {e!r}")
    v = Fraction(m.group(1)) * 100
    if v.denominator != 1:
        raise ValueError(f"{e!r} is not a whole number of hundredths")
    return int(v)


def as_score(src, enum):
    body = body_after(src, r"pub\s+fn\s+as_score\s*\(\s*self\s*\)\s*->\s*u32\s*\{")
    mb = body_after(body or "", r"match\s+self\s*\{")
    rows = []
    for p, e in split_arms(mb):
        m = re.fullmatch(rf"{enum}::(\w+)", p)
        if not m or not re.fullmatch(r"\d+", e):
            raise ValueError(f"unsupported as_score arm {p!r} => {e!r}")
        rows.append((m.group(1), int(e)))
    if not rows:
        raise ValueError("no arms")
    return rows


def score_table(src, consts):
    body = body_after(src, r"fn\s+distance_to_score\s*\(\s*distance\s*:\s*u32\s*\)\s*->\s*f32\s*\{")
    mb = body_after(body or "", r"match\s+distance\s*\{")
    rows = []
    for p, e in split_arms(mb):
        lo, hi = pat_range(p, consts)
        rows.append((lo, hi, centi(e)))
    if not rows:
        raise ValueError("no arms")
    return rows


def max_distance(src):
    m = re.search(r"const\s+MAX_DISTANCE\s*:\s*u32\s*=\s*(\d+)\s*;", src)
    if not m:
        raise ValueError("MAX_DISTANCE not found")
    return int(m.group(1))


def header_bands(src):
    body = body_after(src, r"fn\s+distance_header\s*\(")
    mb = body_after(body or "", r"match\s+errors\s*\{")
    rows = []
    for p, e in split_arms(mb):
        lo, hi = pat_range(p, {})
        if e == "None":
            rows.append((lo, hi, None))
        else:
            m = re.fullmatch(r"Some\(\s*HttpMatchQuality::(\w+)\.as_score\(\)\s*\)", e)
            if not m:
                raise ValueError(f"unsupported band value {e!r}")
            rows.append((lo, hi, m.group(1)))
    if not rows:
        raise ValueError("no arms")
    return rows


def lean_rows(rows):
    return "[" + ", ".join(f"({a}, {b}, {c})" for a, b, c in rows) + "]"


def run(repo, gen_dir):
    from extract import write_if_changed
    items = []
    vals = {"tcpAsScore": [], "httpAsScore": [], "tcpMaxDistance": 0, "httpMaxDistance": 0,
            "tcpScoreTable": [], "httpScoreTable": [], "headerErrorBands": []}

    def item(name, fn):
        try:
            v = fn()
            items.append({"name": name, "props": PROPS, "ok": True, "detail": ""})
            return v
        except Exception as ex:  # noqa: BLE001
            items.append({"name": name, "props": PROPS, "ok": False, "detail": f"{type(ex).__name__}: {ex}"})
            return None

    def read(rel):
        p = os.path.join(repo, rel)
        return strip_comments(open(p).read()) if os.path.exists(p) else ""

    tcp = read("huginn-net-db/src/tcp.rs")
    http = read("huginn-net-db/src/http.rs")
    hm = read("huginn-net-db/src/observable_http_signals_matching.rs")

    for key, src, enum, f in (("tcp", tcp, "TcpMatchQuality", "tcp.rs"), ("http", http, "HttpMatchQuality", "http.rs")):
        v = item(f"{f} {enum}::as_score arms", lambda: as_score(src, enum))
        if v is not None:
            vals[key + "AsScore"] = v
        md = item(f"{f} MAX_DISTANCE", lambda: max_distance(src))
        if md is not None:
            vals[key + "MaxDistance"] = md
        t = item(f"{f} distance_to_score arms", lambda: score_table(src, {"MAX_DISTANCE": max_distance(src)}))
        if t is not None:
            vals[key + "ScoreTable"] = t
    b = item("observable_http_signals_matching.rs distance_header error bands", lambda: header_bands(hm))
    if b is not None:
        vals["headerErrorBands"] = b

    def names(rows):
        return "[" + ", ".join(f'("{n}", {v})' for n, v in rows) + "]"

    bands = "[" + ", ".join(
        f"({lo}, {hi}, " + ("none" if q is None else f'some "{q}"') + ")" for lo, hi, q in vals["headerErrorBands"]) + "]"
    out = f"""/- GENERATED by extract/ex_score.py from huginn-net-db/src/{{tcp,http,observable_http_signals_matching}}.rs — do not edit. -/
namespace Huginn.Gen.Score

/-- `TcpMatchQuality::as_score` arms. -/
def tcpAsScore : List (String × Nat) := {names(vals["tcpAsScore"])}
/-- `HttpMatchQuality::as_score` arms. -/
def httpAsScore : List (String × Nat) := {names(vals["httpAsScore"])}

def tcpMaxDistance : Nat := {vals["tcpMaxDistance"]}
def httpMaxDistance : Nat := {vals["httpMaxDistance"]}

/-- `TcpMatchQuality::distance_to_score`: first-match rows `(lo, hi, score in hundredths)`. -/
def tcpScoreTable : List (Nat × Nat × Nat) := {lean_rows(vals["tcpScoreTable"])}
/-- `HttpMatchQuality::distance_to_score`: first-match rows `(lo, hi, score in hundredths)`. -/
def httpScoreTable : List (Nat × Nat × Nat) := {lean_rows(vals["httpScoreTable"])}

/-- `match errors` at the end of `distance_header`: first-match rows `(lo, hi, quality name | none)`. -/
def headerErrorBands : List (Nat × Nat × Option String) := {bands}

end Huginn.Gen.Score
"""
    write_if_changed(os.path.join(gen_dir, "Score.lean"), out)
    return items
