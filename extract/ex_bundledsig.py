"""C13: regenerate lean/Huginn/Gen/BundledSig.lean — every TCP and HTTP signature of the bundled
huginn-net-db/config/p0f.fp as a Lean *value* of `Sig.TcpSig` / `Sig.HttpSig`, grouped by label in
file order, with p0f.fp line numbers. Also the optional / skip-value / common header lists of
huginn-net-db/src/http.rs (used by the HTTP observation model).

The grammar follows db_parse.rs (`parse_tcp_signature`, `parse_http_signature`); the transcription is
cross-checked on every run by the harness, which sends the entries of the real
`Database::load_default()` for comparison with these tables (op `C13.db`).
"""
import os, re

PROPS = ["C13"]

QUIRKS = {"df": "df", "id+": "nonZeroID", "id-": "zeroID", "ecn": "ecn", "0+": "mustBeZero", "flow": "flowID",
          "seq-": "seqNumZero", "ack+": "ackNumNonZero", "ack-": "ackNumZero", "uptr+": "nonZeroURG",
          "urgf+": "urg", "pushf+": "push", "ts1-": "ownTimestampZero", "ts2+": "peerTimestampNonZero",
          "opt+": "trailingNonZero", "exws": "excessiveWindowScaling", "bad": "optBad"}


def lstr(s):
    return '"' + s.replace("\\", "\\\\").replace('"', '\\"') + '"'


def rng(v, hi):
    v = int(v)
    if not 0 <= v <= hi:
        raise ValueError(f"{v} out of range 0..{hi}")
    return v


def p_ttl(t):
    if re.fullmatch(r"\d+-", t):
        return f".bad {rng(t[:-1], 255)}"
    if re.fullmatch(r"\d+\+\?", t):
        return f".guess {rng(t[:-2], 255)}"
    m = re.fullmatch(r"(\d+)\+(\d+)", t)
    if m:
        return f".distance {rng(m.group(1), 255)} {rng(m.group(2), 255)}"
    if re.fullmatch(r"\d+", t):
        return f".value {rng(t, 255)}"
    raise ValueError(f"ttl {t!r}")


def p_win(w):
    if w == "*":
        return ".any"
    m = re.fullmatch(r"mss\*(\d+)", w)
    if m:
        return f".mss {rng(m.group(1), 255)}"
    m = re.fullmatch(r"mtu\*(\d+)", w)
    if m:
        return f".mtu {rng(m.group(1), 255)}"
    m = re.fullmatch(r"%(\d+)", w)
    if m:
        return f".mod {rng(m.group(1), 65535)}"
    if re.fullmatch(r"\d+", w):
        return f".value {rng(w, 65535)}"
    raise ValueError(f"window {w!r}")


def p_opt(o):
    m = re.fullmatch(r"eol\+(\d+)", o)
    if m:
        return f".eol {rng(m.group(1), 255)}"
    if o in ("nop", "mss", "ws", "sok", "sack", "ts"):
        return "." + o
    m = re.fullmatch(r"\?(\d+)", o)
    if m:
        return f".unknown {rng(m.group(1), 255)}"
    raise ValueError(f"option {o!r}")


def p_tcp(text):
    f = text.split(":")
    if len(f) != 8:
        raise ValueError(f"{len(f)} fields")
    ver, ttl, olen, mss, win, lay, qk, pc = f
    w, sc = win.split(",")
    version = {"4": ".v4", "6": ".v6", "*": ".any"}[ver]
    pclass = {"0": ".zero", "+": ".nonZero", "*": ".any"}[pc]
    layout = [p_opt(o) for o in lay.split(",")] if lay else []
    quirks = ["." + QUIRKS[q] for q in qk.split(",")] if qk else []
    return ("{ version := %s, ittl := %s, olen := %d, mss := %s, wsize := %s, wscale := %s, "
            "olayout := [%s], quirks := [%s], pclass := %s }") % (
        version, p_ttl(ttl), rng(olen, 255), "none" if mss == "*" else f"some {rng(mss, 65535)}", p_win(w),
        "none" if sc == "*" else f"some {rng(sc, 255)}", ", ".join(layout), ", ".join(quirks), pclass)


def p_header(s, i):
    """parse_http_header at s[i:] -> (lean text, new index)"""
    opt = False
    if i < len(s) and s[i] == "?":
        opt = True
        i += 1
    j = i
    while j < len(s) and (s[j].isalnum() and s[j].isascii() or s[j] == "-"):
        j += 1
    name = s[i:j]
    value = None
    if s.startswith("=[", j):
        k = s.find("]", j + 2)
        if k < 0:
            raise ValueError("unterminated [")
        value = s[j + 2:k]
        j = k + 1
    return (name, "⟨%s, %s, %s⟩" % ("true" if opt else "false", lstr(name), "none" if value is None else "some " + lstr(value))), j


def p_hlist(s, i, at_least_one):
    out = []
    (name, h), i = p_header(s, i)
    out.append((name, h))
    while i < len(s) and s[i] == ",":
        (name, h), i = p_header(s, i + 1)
        out.append((name, h))
    if not at_least_one:
        out = [x for x in out if x[0] != ""]
    return [h for _, h in out], i


def p_http(text):
    if not text or text[0] not in "01*":
        raise ValueError("version")
    version = {"0": ".v10", "1": ".v11", "*": ".any"}[text[0]]
    if text[1:2] != ":":
        raise ValueError("':' after version")
    horder, i = p_hlist(text, 2, True)
    if text[i:i + 1] != ":":
        raise ValueError("':' after horder")
    habsent, i = p_hlist(text, i + 1, False)
    if text[i:i + 1] != ":":
        raise ValueError("':' after habsent")
    expsw = text[i + 1:]
    return "{ version := %s, horder := [%s], habsent := [%s], expsw := %s }" % (
        version, ", ".join(horder), ", ".join(habsent), lstr(expsw))


def str_list(src, fn):
    m = re.search(r"pub fn " + fn + r"\(\)\s*->\s*Vec<&'static str>\s*\{\s*vec!\[(.*?)\]", src, re.S)
    if not m:
        raise ValueError(fn + " not found")
    return re.findall(r'"([^"]*)"', m.group(1))


def run(repo, gen_dir):
    from extract import write_if_changed
    items = []
    colls = {"tcp:request": [], "tcp:response": [], "http:request": [], "http:response": []}
    ok, detail = True, ""
    try:
        sec = None
        for no, line in enumerate(open(os.path.join(repo, "huginn-net-db/config/p0f.fp"), encoding="utf-8"), 1):
            line = line.strip()
            if not line or line.startswith(";"):
                continue
            if line.startswith("[") and line.endswith("]"):
                sec = line[1:-1]
                continue
            m = re.fullmatch(r"(\w+)\s*=\s*(.*)", line)
            if not m or sec not in colls:
                continue
            key, val = m.group(1), m.group(2)
            if key == "label":
                colls[sec].append((no, val, []))
            elif key == "sig":
                try:
                    v = p_tcp(val) if sec.startswith("tcp") else p_http(val)
                except Exception as ex:  # noqa: BLE001
                    raise ValueError(f"p0f.fp:{no}: {ex}") from ex
                colls[sec][-1][2].append((no, v))
    except Exception as ex:  # noqa: BLE001
        ok, detail = False, f"{type(ex).__name__}: {ex}"
        colls = {k: [] for k in colls}
    items.append({"name": "p0f.fp bundled TCP/HTTP signatures as values", "props": PROPS, "ok": ok, "detail": detail})

    lists = {}
    ok2, detail2 = True, ""
    try:
        src = open(os.path.join(repo, "huginn-net-db/src/http.rs")).read()
        for fn in ("request_optional_headers", "response_optional_headers", "request_skip_value_headers",
                   "response_skip_value_headers", "request_common_headers", "response_common_headers"):
            lists[fn] = str_list(src, fn)
    except Exception as ex:  # noqa: BLE001
        ok2, detail2 = False, f"{type(ex).__name__}: {ex}"
        lists = {fn: [] for fn in ("request_optional_headers", "response_optional_headers",
                                   "request_skip_value_headers", "response_skip_value_headers",
                                   "request_common_headers", "response_common_headers")}
    items.append({"name": "http.rs optional / skip-value / common header lists", "props": PROPS, "ok": ok2, "detail": detail2})

    def coll(name, ty, entries):
        out = [f"def {name} : List (Nat × String × List (Nat × {ty})) := ["]
        rows = []
        for no, lab, sigs in entries:
            body = ",\n     ".join(f"({n}, {v})" for n, v in sigs)
            rows.append(f"  ({no}, {lstr(lab)}, [\n     {body}])" if sigs else f"  ({no}, {lstr(lab)}, [])")
        out.append(",\n".join(rows))
        out.append("]")
        return "\n".join(out)

    def camel(fn):
        p = fn.split("_")
        return p[0] + "".join(x.capitalize() for x in p[1:])

    text = "/- GENERATED by extract/ex_bundledsig.py from huginn-net-db/config/p0f.fp and src/http.rs — do not edit. -/\n"
    text += "import Huginn.Model.Sig\nset_option maxRecDepth 100000\nnamespace Huginn.Gen.BundledSig\nopen Huginn.Sig\n\n"
    text += "/-! `(line of the label, label text, [(line of the sig, signature)])` in file order -/\n\n"
    text += coll("tcpRequest", "TcpSig", colls["tcp:request"]) + "\n\n"
    text += coll("tcpResponse", "TcpSig", colls["tcp:response"]) + "\n\n"
    text += coll("httpRequest", "HttpSig", colls["http:request"]) + "\n\n"
    text += coll("httpResponse", "HttpSig", colls["http:response"]) + "\n\n"
    for fn, v in lists.items():
        text += f"def {camel(fn)} : List String := [" + ", ".join(lstr(x) for x in v) + "]\n"
    text += "\nend Huginn.Gen.BundledSig\n"
    write_if_changed(os.path.join(gen_dir, "BundledSig.lean"), text)
    return items
