"""C04/C08/C11: literals of the TLS crate -> lean/Huginn/Gen/TlsConst.lean.

tls.rs           TLS_GREASE_VALUES, Display arms of TlsVersion, `.min(N)` of the two counts, `[..N]` of hash12,
                 the SNI/ALPN ids removed from the sorted extension list, the `{:04x}` / `{:02}` widths
tls_process.rs   `(LO..=HI).contains(&version)` and the handshake byte of is_tls_traffic, the arms of
                 determine_tls_version (legacy version -> TlsVersion, the default arm, the supported_versions arm)
tls_client_hello_reader.rs   `< 5`, `saturating_add(5)`, `!= 0x16`, `> 64 * 1024`
process.rs       `Duration::new(20, 0)`

Every item that cannot be found is reported ok=False and a *neutral* value is written so that the
driver still builds (the theorems that depend on the value then fail or the correspondence does).
"""
import os, re

PROPS = ["C04", "C08"]


def _read(repo, rel):
    p = os.path.join(repo, rel)
    return open(p).read() if os.path.exists(p) else ""


def _fn_body(src, name):
    """Text of `fn name(...) {...}` (brace matched); '' if absent."""
    m = re.search(r"\bfn\s+" + re.escape(name) + r"\b", src)
    if not m:
        return ""
    i = src.find("{", m.end())
    if i < 0:
        return ""
    depth, j = 0, i
    while j < len(src):
        if src[j] == "{":
            depth += 1
        elif src[j] == "}":
            depth -= 1
            if depth == 0:
                return src[i:j + 1]
        j += 1
    return ""


def _strip_comments(s):
    return re.sub(r"//[^\n]*", "", s)


def _int(tok):
    tok = tok.replace("_", "").strip()
    return int(tok, 16) if tok.lower().startswith("0x") else int(tok)


def _prod(expr):
    """'64 * 1024' -> 65536"""
    v = 1
    for t in expr.split("*"):
        v *= _int(t)
    return v


def run(repo, gen_dir):
    from extract import write_if_changed
    items = []
    out = []

    def item(name, ok, detail="", props=None):
        items.append({"name": name, "props": props or PROPS, "ok": bool(ok), "detail": "" if ok else detail})

    tls = _read(repo, "huginn-net-tls/src/tls.rs")
    tp = _read(repo, "huginn-net-tls/src/tls_process.rs")
    rd = _read(repo, "huginn-net-tls/src/tls_client_hello_reader.rs")
    pr = _read(repo, "huginn-net-tls/src/process.rs")

    # --- TLS_GREASE_VALUES
    m = re.search(r"pub const TLS_GREASE_VALUES\s*:\s*\[u16;\s*(\d+)\]\s*=\s*\[(.*?)\];", tls, re.S)
    grease = []
    if m:
        grease = [_int(t) for t in _strip_comments(m.group(2)).replace("\n", " ").split(",") if t.strip()]
    item("tls.rs TLS_GREASE_VALUES", m and len(grease) == int(m.group(1)), "constant not found", ["C04"])
    out.append("/-- `TLS_GREASE_VALUES` -/\ndef greaseValues : List Nat := [" + ", ".join(str(g) for g in grease) + "]")

    # --- Display for TlsVersion
    arms = []
    m = re.search(r"impl fmt::Display for TlsVersion\s*\{(.*?)\n\}", tls, re.S)
    if m:
        arms = re.findall(r"TlsVersion::(\w+)(?:\([^)]*\))?\s*=>\s*write!\(f,\s*\"([^\"]*)\"\)", m.group(1))
    item("tls.rs Display for TlsVersion arms", len(arms) >= 1, "Display arms not found", ["C04"])
    out.append("/-- arms of `impl Display for TlsVersion` (variant, text) -/\ndef versionDisplay : List (String × String) := ["
               + ", ".join(f'("{a}", "{b}")' for a, b in arms) + "]")

    # --- generate_ja4_with_order literals
    g = _strip_comments(_fn_body(tls, "generate_ja4_with_order"))
    mc = re.search(r"cipher_suites\.len\(\)\.min\((\d+)\)", g)
    me = re.search(r"extensions\.len\(\)\.min\((\d+)\)", g)
    item("tls.rs cipher count .min(N)", mc, "cipher_suites.len().min(N) not found", ["C04"])
    item("tls.rs extension count .min(N)", me, "extensions.len().min(N) not found", ["C04"])
    out.append(f"/-- `self.cipher_suites.len().min(N)` -/\ndef cipherCountCap : Nat := {mc.group(1) if mc else 0}")
    out.append(f"/-- `self.extensions.len().min(N)` -/\ndef extCountCap : Nat := {me.group(1) if me else 0}")
    mw = re.findall(r'format!\("\{:0(\d)\}"', g)
    item("tls.rs count width {:02}", len(mw) == 2 and len(set(mw)) == 1, "two `{:0N}` count formats expected", ["C04"])
    out.append(f"/-- width of the two `{{:0N}}` count formats -/\ndef countWidth : Nat := {mw[0] if mw else 0}")
    mh = re.findall(r'format!\("\{\w:0(\d)x\}"\)', g)
    item("tls.rs hex width {:04x}", len(mh) == 3 and len(set(mh)) == 1, "three `{x:0Nx}` formats expected", ["C04"])
    out.append(f"/-- width of the `{{:0Nx}}` formats of ciphers, extensions, signature algorithms -/\ndef hexWidth : Nat := {mh[0] if mh else 0}")
    mr = re.search(r"retain\(\|&ext\|\s*ext\s*!=\s*(0x[0-9a-fA-F]+)\s*&&\s*ext\s*!=\s*(0x[0-9a-fA-F]+)\)", g)
    item("tls.rs sorted variant drops SNI/ALPN ids", mr, "retain(|&ext| ext != A && ext != B) not found", ["C04"])
    drop_ids = [_int(mr.group(1)), _int(mr.group(2))] if mr else []
    out.append("/-- extension ids removed from the sorted variant (`retain`) -/\ndef sortedDropIds : List Nat := ["
               + ", ".join(str(x) for x in drop_ids) + "]")
    # the four order-dependent steps must be guarded by `if !original_order`
    guards = len(re.findall(r"if\s*!original_order\s*\{", g))
    item("tls.rs sort/retain guarded by !original_order", guards == 2, f"expected 2 `if !original_order` blocks, found {guards}", ["C04"])

    mz = re.search(r'const EMPTY_LIST_HASH: &str = "([^"]*)";', g)
    mzb = re.search(r"let ja4_b_hash = if ciphers_for_b\.is_empty\(\)\s*\{\s*EMPTY_LIST_HASH\.to_string\(\)\s*\}\s*else\s*\{\s*hash12\(&ja4_b_raw\)\s*\};", g)
    mzc = re.search(r"let ja4_c_hash = if extensions_for_c\.is_empty\(\)\s*\{\s*EMPTY_LIST_HASH\.to_string\(\)\s*\}\s*else\s*\{\s*hash12\(&ja4_c_raw\)\s*\};", g)
    item("tls.rs empty list hash constant and its two guards", mz and mzb and mzc,
         "EMPTY_LIST_HASH / `if ciphers_for_b.is_empty()` / `if extensions_for_c.is_empty()` not found", ["C04"])
    out.append(f'/-- `EMPTY_LIST_HASH` -/\ndef emptyListHash : String := "{mz.group(1) if mz else ""}"')

    h = _strip_comments(_fn_body(tls, "hash12"))
    mh12 = re.search(r"\[\.\.(\d+)\]", h)
    item("tls.rs hash12 [..N]", mh12, "[..N] not found in hash12", ["C04"])
    out.append(f"/-- `[..N]` of `hash12` -/\ndef hashLen : Nat := {mh12.group(1) if mh12 else 0}")

    # --- is_tls_traffic
    t = _strip_comments(_fn_body(tp, "is_tls_traffic"))
    mv = re.search(r"\((0x[0-9a-fA-F]+)\.\.=(0x[0-9a-fA-F]+)\)\.contains\(&version\)", t)
    item("tls_process.rs is_tls_traffic version range", mv, "(LO..=HI).contains(&version) not found", ["C08"])
    out.append(f"/-- `(LO..=HI).contains(&version)` in `is_tls_traffic` -/\ndef recVersionLo : Nat := {_int(mv.group(1)) if mv else 1}")
    out.append(f"def recVersionHi : Nat := {_int(mv.group(2)) if mv else 0}")
    ml = re.search(r"payload\.len\(\)\s*<\s*(\d+)", t)
    mt = re.search(r"content_type\s*==\s*(0x[0-9a-fA-F]+)", t)
    item("tls_process.rs is_tls_traffic length guard", ml, "payload.len() < N not found", ["C08"])
    item("tls_process.rs is_tls_traffic handshake byte", mt, "content_type == 0x.. not found", ["C08"])
    out.append(f"/-- `payload.len() < N` in `is_tls_traffic` -/\ndef trafficMinLen : Nat := {ml.group(1) if ml else 0}")
    out.append(f"/-- `content_type == 0x..` in `is_tls_traffic` -/\ndef trafficHandshake : Nat := {_int(mt.group(1)) if mt else 256}")

    # --- determine_tls_version
    d = _strip_comments(_fn_body(tp, "determine_tls_version"))
    msv = re.search(r"extensions\.contains\(&TlsExtensionType::(\w+)\.into\(\)\)\s*\{\s*return\s+TlsVersion::(\w+);", d)
    item("tls_process.rs determine_tls_version supported_versions arm", msv, "`if extensions.contains(&TlsExtensionType::X.into()) { return TlsVersion::Y; }` not found", ["C04"])
    out.append(f'/-- `if extensions.contains(&TlsExtensionType::X.into()) {{ return TlsVersion::Y; }}` -/\ndef svExtName : String := "{msv.group(1) if msv else ""}"')
    out.append(f'def svForces : String := "{msv.group(2) if msv else ""}"')
    larms = re.findall(r"tls_parser::TlsVersion::(\w+)\s*=>\s*TlsVersion::(\w+)", d)
    mdef = re.search(r"\b_\s*=>\s*\{", d)
    dflt = ""
    if mdef:
        # brace-matched block of the default arm; its value is the last expression
        depth, j = 0, mdef.end() - 1
        while j < len(d):
            if d[j] == "{":
                depth += 1
            elif d[j] == "}":
                depth -= 1
                if depth == 0:
                    break
            j += 1
        x = re.findall(r"TlsVersion::(\w+)(\(legacy_version\.0\))?\s*$", d[mdef.end():j].strip())
        dflt = x[0][0] if x else ""
        dflt_code = bool(x and x[0][1])
    else:
        dflt_code = False
    carms = re.findall(r"tls_parser::TlsVersion\((0x[0-9a-fA-F]+|\d+)\)\s*=>\s*TlsVersion::(\w+)", d)
    item("tls_process.rs determine_tls_version legacy arms", len(larms) >= 1 and dflt, "legacy arms / default arm not found", ["C04"])
    out.append("/-- arms `tls_parser::TlsVersion::A => TlsVersion::B` -/\ndef legacyArms : List (String × String) := ["
               + ", ".join(f'("{a}", "{b}")' for a, b in larms) + "]")
    out.append("/-- arms `tls_parser::TlsVersion(code) => TlsVersion::B` -/\ndef legacyCodeArms : List (Nat × String) := ["
               + ", ".join(f'({_int(a)}, "{b}")' for a, b in carms) + "]")
    out.append(f'/-- the `_ =>` arm: the variant, and whether it carries `legacy_version.0` -/\ndef legacyDefault : String := "{dflt}"')
    out.append(f"def legacyDefaultCarriesCode : Bool := {'true' if dflt_code else 'false'}")

    # --- extract_tls_signature_from_client_hello: GREASE wire type, version from supported_versions
    e = _strip_comments(_fn_body(tp, "extract_tls_signature_from_client_hello"))
    mg = re.search(r"TlsExtension::Grease\((\w+),\s*_\)\s*=>\s*\*\1\s*,\s*_\s*=>\s*TlsExtensionType::from\(extension\)\.into\(\)", e)
    item("tls_process.rs extension type of a Grease extension is its wire type", mg,
         "`match extension { TlsExtension::Grease(t, _) => *t, _ => TlsExtensionType::from(extension).into() }` not found", ["C04"])
    msv1 = re.search(r"TlsExtension::SupportedVersions\((\w+)\)\s*=>\s*\{\s*supported_versions\s*=\s*Some\(\1\.iter\(\)\.map\(\|v\|\s*v\.0\)\.collect\(\)\);", e)
    msv2 = re.search(r"let highest_supported = supported_versions\.as_deref\(\)\.and_then\(\|versions\|\s*\{\s*versions\s*\.iter\(\)\s*\.copied\(\)\s*"
                     r"\.filter\(\|v\|\s*!TLS_GREASE_VALUES\.contains\(v\)\)\s*\.max\(\)\s*\}\);", e)
    msv3 = re.search(r"let version = match highest_supported \{\s*Some\(highest\) => determine_tls_version\(&tls_parser::TlsVersion\(highest\), &\[\]\),\s*"
                     r"None => determine_tls_version\(&client_hello\.version, &extensions\),\s*\};", e)
    item("tls_process.rs version = highest non-GREASE supported_versions entry, else legacy", msv1 and msv2 and msv3,
         "the supported_versions capture / `highest_supported` / `let version = match highest_supported` shape was not found", ["C04"])
    mcf = re.search(r"\.filter\(\|&cipher\|\s*!TLS_GREASE_VALUES\.contains\(&cipher\)\)", e)
    mef = re.search(r"if\s*!TLS_GREASE_VALUES\.contains\(&ext_type\)\s*\{\s*extensions\.push\(ext_type\);", e)
    item("tls_process.rs GREASE filtered from cipher suites and extension types at extraction", mcf and mef,
         "the two TLS_GREASE_VALUES filters of extract_tls_signature_from_client_hello were not found", ["C04"])

    # --- reader
    a = _strip_comments(_fn_body(rd, "add_bytes"))
    m1 = re.search(r"self\.buffer\.len\(\)\s*<\s*(\d+)\s*\{", a)
    m2 = re.search(r"record_len\.saturating_add\((\d+)\)", a)
    m3 = re.search(r"content_type\s*!=\s*(0x[0-9a-fA-F]+)", a)
    m4 = re.search(r"needed\s*>\s*([0-9_ *x a-fA-F]+?)\s*\{", a)
    m5 = re.search(r"from_be_bytes\(\[self\.buffer\[(\d+)\],\s*self\.buffer\[(\d+)\]\]\)", a)
    m6 = re.search(r"self\.buffer\.len\(\)\s*<\s*needed", a)
    m7 = re.search(r"parse_tls_client_hello\(&self\.buffer\[\.\.needed\]\)", a)
    item("reader header length guard", m1, "self.buffer.len() < N not found", ["C08"])
    item("reader saturating_add(N)", m2, "record_len.saturating_add(N) not found", ["C08"])
    item("reader handshake byte", m3, "content_type != 0x.. not found", ["C08"])
    item("reader size bound", m4, "needed > N not found", ["C08"])
    item("reader length field offsets", m5, "u16::from_be_bytes([self.buffer[i], self.buffer[j]]) not found", ["C08"])
    item("reader completeness test `buffer.len() < needed`", m6, "not found", ["C08"])
    item("reader parses exactly the prefix `&self.buffer[..needed]`", m7, "not found", ["C08"])
    out.append(f"/-- `self.buffer.len() < N` -/\ndef readerHdrLen : Nat := {m1.group(1) if m1 else 0}")
    out.append(f"/-- `record_len.saturating_add(N)` -/\ndef readerLenAdd : Nat := {m2.group(1) if m2 else 0}")
    out.append(f"/-- `content_type != 0x..` -/\ndef readerHandshake : Nat := {_int(m3.group(1)) if m3 else 256}")
    out.append(f"/-- `needed > N` -/\ndef readerMaxNeeded : Nat := {_prod(m4.group(1)) if m4 else 0}")
    out.append(f"/-- offsets of the big-endian record length -/\ndef readerLenHi : Nat := {m5.group(1) if m5 else 0}")
    out.append(f"def readerLenLo : Nat := {m5.group(2) if m5 else 0}")

    # --- process.rs
    p = _strip_comments(_fn_body(pr, "process_tcp_packet"))
    mt = re.search(r"Duration::new\((\d+),\s*0\)", p)
    item("process.rs flow TTL", mt, "Duration::new(N, 0) not found", ["C08"])
    out.append(f"/-- `Duration::new(N, 0)` of a new flow -/\ndef flowTtlSecs : Nat := {mt.group(1) if mt else 0}")

    body = ("/- GENERATED by extract/ex_tls.py from huginn-net-tls/src/{tls,tls_process,tls_client_hello_reader,process}.rs"
            " — do not edit. -/\nnamespace Huginn.Gen.Tls\n\n" + "\n".join(out) + "\n\nend Huginn.Gen.Tls\n")
    write_if_changed(os.path.join(gen_dir, "TlsConst.lean"), body)
    return items
