"""C06 (also C02): token tables of the p0f text vocabulary.

From huginn-net-db/src/db_parse.rs: every `alt((…))` list (arms in order: kind, token, numeric width,
Rust variant) of parse_ip_version / parse_ttl / parse_window_size / parse_tcp_option / parse_quirk /
parse_payload_size / parse_http_version / parse_type, and the field sequence ("shape") of
parse_tcp_signature / parse_http_signature.
From huginn-net-db/src/display.rs: the `Display` arms (variant, template) of the same types and the
sequence of write!/write_str literals of format_tcp_display / format_http_display / Header / Label.

Writes lean/Huginn/Gen/Tokens.lean.  An item that cannot be found/parsed gets an empty table and ok=False.
"""
import os, re

PROPS = ["C06"]


# ------------------------------------------------------------------ a small brace-aware scanner

def strip_comments(src):
    out, i, n = [], 0, len(src)
    while i < n:
        c = src[i]
        if c == '"':
            j = i + 1
            while j < n and src[j] != '"':
                j += 2 if src[j] == "\\" else 1
            out.append(src[i:j + 1])
            i = j + 1
        elif c == "'" and i + 2 < n and (src[i + 2] == "'" or (src[i + 1] == "\\" and i + 3 < n and src[i + 3] == "'")):
            j = i + (3 if src[i + 1] == "\\" else 2)
            out.append(src[i:j + 1])
            i = j + 1
        elif src.startswith("//", i):
            while i < n and src[i] != "\n":
                i += 1
        elif src.startswith("/*", i):
            j = src.find("*/", i + 2)
            i = n if j < 0 else j + 2
        else:
            out.append(c)
            i += 1
    return "".join(out)


def match_close(src, i):
    """src[i] is an opening bracket; return index of the matching closing one (string aware)."""
    pairs = {"(": ")", "[": "]", "{": "}"}
    stack = []
    n = len(src)
    while i < n:
        c = src[i]
        if c == '"':
            i += 1
            while i < n and src[i] != '"':
                i += 2 if src[i] == "\\" else 1
        elif c == "'" and i + 2 < n and src[i + 2] == "'":
            i += 2
        elif c in pairs:
            stack.append(pairs[c])
        elif stack and c == stack[-1]:
            stack.pop()
            if not stack:
                return i
        i += 1
    return -1


def split_top(s):
    """Split on top-level commas (bracket, closure-bar and string aware)."""
    parts, depth, cur, i, n = [], 0, [], 0, len(s)
    while i < n:
        c = s[i]
        if c == '"':
            j = i + 1
            while j < n and s[j] != '"':
                j += 2 if s[j] == "\\" else 1
            cur.append(s[i:j + 1])
            i = j + 1
            continue
        if c in "([{":
            depth += 1
        elif c in ")]}":
            depth -= 1
        if c == "," and depth == 0:
            parts.append("".join(cur))
            cur = []
        else:
            cur.append(c)
        i += 1
    if "".join(cur).strip():
        parts.append("".join(cur))
    return [norm(p) for p in parts]


def norm(s):
    s = re.sub(r"\s+", " ", s).strip()
    s = re.sub(r"\( ", "(", s)
    s = re.sub(r",? \)", ")", s)
    s = re.sub(r",\)", ")", s)
    return s


def fn_body(src, name):
    m = re.search(r"\bfn\s+" + re.escape(name) + r"\s*[<(]", src)
    if not m:
        return None
    i = src.find("{", m.end())
    if i < 0:
        return None
    j = match_close(src, i)
    return src[i + 1:j] if j > 0 else None


def block_after(src, header_re, start=0):
    m = re.compile(header_re).search(src, start)
    if not m:
        return None
    i = src.find("{", m.end() - 1)
    j = match_close(src, i)
    return src[i + 1:j] if j > 0 else None


def unescape(s):
    return s.replace('\\"', '"').replace("\\\\", "\\")


# ------------------------------------------------------------------ parser arms

ARM_PATTERNS = [
    # kind, regex  -> groups (token, width, variant) by name
    ("tag", r'^map\(tag\("(?P<tok>(?:[^"\\]|\\.)*)"\), \|_\| (?:\w+::)*(?P<var>\w+)\)$'),
    ("tag", r'^tag\("(?P<tok>(?:[^"\\]|\\.)*)"\)\.map\(\|_\| (?:\w+::)*(?P<var>\w+)\)$'),
    ("prefix-num", r'^map_res\(preceded\(tag\("(?P<tok>(?:[^"\\]|\\.)*)"\), digit1\), \|s: &str\| s\.parse::<u(?P<w>\d+)>\(\)\.map\((?:\w+::)*(?P<var>\w+)\)\)$'),
    ("num-suffix", r'^map_res\(terminated\(digit1, tag\("(?P<tok>(?:[^"\\]|\\.)*)"\)\), \|s: &str\| s\.parse::<u(?P<w>\d+)>\(\)\.map\((?:\w+::)*(?P<var>\w+)\)\)$'),
    ("num", r'^map_res\(digit1, \|s: &str\| s\.parse::<u(?P<w>\d+)>\(\)\.map\((?:\w+::)*(?P<var>\w+)\)\)$'),
    ("prefix-num-or0", r'^preceded\(tag\("(?P<tok>(?:[^"\\]|\\.)*)"\), map\(digit1, \|s: &str\| s\.parse::<u(?P<w>\d+)>\(\)\.unwrap_or\(0\)\)\) ?\.map\((?:\w+::)*(?P<var>\w+)\)$'),
    ("num-sep-num", r'^map_res\(separated_pair\(digit1, tag\("(?P<tok>(?:[^"\\]|\\.)*)"\), digit1\), \|\((?P<a>\w+), (?P<b>\w+)\): \(&str, &str\)\| match \((?P=a)\.parse::<u(?P<w>\d+)>\(\), (?P=b)\.parse::<u(?P<w2>\d+)>\(\)\) \{ \(Ok\((?P<x>\w+)\), Ok\((?P<y>\w+)\)\) => Ok\((?:\w+::)*(?P<var>\w+)\((?P=x), (?P=y)\)\), \(Err\(_\), _\) => Err\("[^"]*"\), \(_, Err\(_\)\) => Err\("[^"]*"\),? ?\}\)$'),
]


def alt_arms(body):
    """-> list of (kind, token, width, variant) or None"""
    if body is None:
        return None
    i = body.find("alt((")
    if i < 0:
        return None
    j = match_close(body, i + 4)
    if j < 0:
        return None
    arms = []
    for a in split_top(body[i + 5:j]):
        for kind, pat in ARM_PATTERNS:
            m = re.match(pat, a)
            if m:
                d = m.groupdict()
                w = int(d.get("w") or 0)
                if kind == "num-sep-num" and d.get("w2") != d.get("w"):
                    return None
                arms.append((kind, unescape(d["tok"]) if "tok" in d and d["tok"] is not None else "", w, d["var"]))
                break
        else:
            return None
    return arms


FIELD_PATTERNS = [
    (r'^(parse_\w+)$', lambda m: m.group(1)),
    (r'^tag\("((?:[^"\\]|\\.)*)"\)$', lambda m: "tag " + unescape(m.group(1))),
    (r'^map_res\(digit1, \|s: &str\| s\.parse::<u(\d+)>\(\)\)$', lambda m: "num " + m.group(1)),
    (r'^alt\(\(tag\("((?:[^"\\]|\\.)*)"\)\.map\(\|_\| None\), map_res\(digit1, \|s: &str\| s\.parse::<u(\d+)>\(\)\.map\(Some\)\)\)\)$',
     lambda m: "optnum " + unescape(m.group(1)) + " " + m.group(2)),
    (r'^separated_list([01])\(tag\("((?:[^"\\]|\\.)*)"\), (parse_\w+)\)$',
     lambda m: "list" + m.group(1) + " " + unescape(m.group(2)) + " " + m.group(3)),
    (r'^opt\(separated_list([01])\(tag\("((?:[^"\\]|\\.)*)"\), (parse_\w+)\)\)$',
     lambda m: "optlist" + m.group(1) + " " + unescape(m.group(2)) + " " + m.group(3)),
    (r'^rest$', lambda m: "rest"),
]


def seq_shape(body):
    """The tuple of field parsers `( … ).parse(input)` of a signature parser."""
    if body is None:
        return None
    m = re.search(r"\)\s*=\s*\(", body)
    if not m:
        return None
    i = m.end() - 1
    j = match_close(body, i)
    if j < 0 or not body[j + 1:].lstrip().startswith(".parse(input)"):
        return None
    out = []
    for f in split_top(body[i + 1:j]):
        for pat, mk in FIELD_PATTERNS:
            mm = re.match(pat, f)
            if mm:
                out.append(mk(mm))
                break
        else:
            return None
    return out


# ------------------------------------------------------------------ Display arms

def display_arms(mod_src, ty):
    """-> list of (variant, template) with `{name}` normalised to `{}`; None if not found."""
    body = block_after(mod_src, r"impl fmt::Display for " + re.escape(ty) + r"\s*\{")
    if body is None:
        return None
    arms = []
    pat = re.compile(
        r'(?:\w+::)?(?P<var>[A-Z]\w*)\s*(?P<args>\([^)]*\))?\s*=>\s*'
        r'(?:f\.write_str\("(?P<a>(?:[^"\\]|\\.)*)"\)|write!\(f,\s*"(?P<b>(?:[^"\\]|\\.)*)"\)|"(?P<c>(?:[^"\\]|\\.)*)")')
    for m in pat.finditer(body):
        t = m.group("a") if m.group("a") is not None else m.group("b") if m.group("b") is not None else m.group("c")
        t = unescape(t)
        if m.group("b") is not None:
            t = re.sub(r"\{\w*\}", "{}", t)
        else:
            t = t.replace("{", "{{").replace("}", "}}") if "{" in t else t
        arms.append((m.group("var"), t))
    return arms or None


def write_seq(body):
    """Sequence of the string literals written by write!/write_str in source order."""
    if body is None:
        return None
    out = []
    for m in re.finditer(r'(?:f\.write_str\(\s*"((?:[^"\\]|\\.)*)"\s*\)|write!\(\s*f,\s*"((?:[^"\\]|\\.)*)")', body):
        out.append(unescape(m.group(1) if m.group(1) is not None else m.group(2)))
    return out or None


# ------------------------------------------------------------------ Lean output

def lstr(s):
    return '"' + s.replace("\\", "\\\\").replace('"', '\\"') + '"'


def lean_arms(name, doc, arms):
    rows = ",\n   ".join(f"({lstr(k)}, {lstr(t)}, {w}, {lstr(v)})" for k, t, w, v in (arms or []))
    return f"/-- {doc} -/\ndef {name} : List Arm :=\n  [{rows}]\n\n"


def lean_pairs(name, doc, rows):
    body = ",\n   ".join(f"({lstr(a)}, {lstr(b)})" for a, b in (rows or []))
    return f"/-- {doc} -/\ndef {name} : List (String × String) :=\n  [{body}]\n\n"


def lean_strs(name, doc, rows):
    body = ", ".join(lstr(a) for a in (rows or []))
    return f"/-- {doc} -/\ndef {name} : List String :=\n  [{body}]\n\n"


def run(repo, gen_dir):
    from extract import write_if_changed
    items = []
    out = ["/- GENERATED by extract/ex_tokens.py from huginn-net-db/src/{db_parse,display}.rs — do not edit. -/\n",
           "namespace Huginn.Gen.Tokens\n\n",
           "/-- one `alt` arm: (kind, token, numeric width in bits (0: none), Rust variant) -/\n",
           "abbrev Arm := String × String × Nat × String\n\n"]

    def rd(p):
        p = os.path.join(repo, p)
        return strip_comments(open(p).read()) if os.path.exists(p) else ""

    parse_src = rd("huginn-net-db/src/db_parse.rs")
    disp_src = rd("huginn-net-db/src/display.rs")

    def item(name, val, detail):
        ok = val is not None
        items.append({"name": name, "props": PROPS, "ok": ok, "detail": "" if ok else detail})
        return val

    for lean, fn in [("ipVersionParse", "parse_ip_version"), ("ttlParse", "parse_ttl"),
                     ("windowParse", "parse_window_size"), ("tcpOptionParse", "parse_tcp_option"),
                     ("quirkParse", "parse_quirk"), ("payloadParse", "parse_payload_size"),
                     ("httpVersionParse", "parse_http_version"), ("labelTypeParse", "parse_type")]:
        arms = item(f"db_parse.rs {fn} alt arms", alt_arms(fn_body(parse_src, fn)),
                    f"`alt((…))` of {fn} not found or an arm has an unknown shape")
        out.append(lean_arms(lean, f"`alt` arms of `{fn}` in order", arms))

    for lean, fn in [("tcpSigShape", "parse_tcp_signature"), ("httpSigShape", "parse_http_signature")]:
        sh = item(f"db_parse.rs {fn} field sequence", seq_shape(fn_body(parse_src, fn)),
                  f"field tuple of {fn} not found or a field has an unknown shape")
        out.append(lean_strs(lean, f"field sequence of `{fn}`", sh))

    tcp_mod = block_after(disp_src, r"\bmod tcp\s*\{") or ""
    http_mod = block_after(disp_src, r"\bmod http\s*\{") or ""
    for lean, mod, ty in [("ipVersionPrint", tcp_mod, "IpVersion"), ("ttlPrint", tcp_mod, "Ttl"),
                          ("windowPrint", tcp_mod, "WindowSize"), ("tcpOptionPrint", tcp_mod, "TcpOption"),
                          ("quirkPrint", tcp_mod, "Quirk"), ("payloadPrint", tcp_mod, "PayloadSize"),
                          ("httpVersionPrint", http_mod, "Version")]:
        arms = item(f"display.rs Display for {ty}", display_arms(mod, ty), f"Display arms of {ty} not found")
        out.append(lean_pairs(lean, f"`Display` arms of `{ty}`: (variant, template)", arms))

    for lean, src, fn in [("tcpSigWrites", tcp_mod, "format_tcp_display"), ("httpSigWrites", http_mod, "format_http_display")]:
        ws = item(f"display.rs {fn} writes", write_seq(fn_body(src, fn)), f"{fn} not found")
        out.append(lean_strs(lean, f"literals written by `{fn}` in source order", ws))
    ws = item("display.rs Display for Header writes",
              write_seq(block_after(http_mod, r"impl fmt::Display for Header\s*\{")), "Display for Header not found")
    out.append(lean_strs("headerWrites", "literals written by `Display for Header`", ws))
    ws = item("display.rs Display for Label writes",
              write_seq(block_after(disp_src, r"impl fmt::Display for Label\s*\{")), "Display for Label not found")
    out.append(lean_strs("labelWrites", "literals written by `Display for Label`", ws))

    out.append("end Huginn.Gen.Tokens\n")
    write_if_changed(os.path.join(gen_dir, "Tokens.lean"), "".join(out))
    return items
