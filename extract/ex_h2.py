"""C16/C17: constants and tables of the HTTP/2 code.

Gen/H2Const.lean      from huginn-net-http/src/{http2_parser,akamai}.rs: connection preface, Http2Config::default
                      max_frame_size, frame-type arms, SettingId from/as_u16 arms, PseudoHeader from/Display arms,
                      the "00"/"0" defaults of the fingerprint string, the take(32) of the hash.
Gen/HpackTables.lean  from the hpack-patched crate the workspace locks (third-party, modelled at its interface):
                      STATIC_TABLE, HUFFMAN_CODE_TABLE, default dynamic table size, integer octet limit.
Gen/H2Lists.lean      from huginn-net-db/src/http.rs: optional / skip-value / common header lists (request, response).
"""
import glob, os, re
from extract import write_if_changed

PROPS = ["C16", "C17"]


def rd(p):
    try:
        return open(p, encoding="utf-8").read()
    except OSError:
        return None


def rust_bytes(lit):
    """bytes of a Rust (byte-)string literal body"""
    out = bytearray()
    i = 0
    while i < len(lit):
        c = lit[i]
        if c == "\\":
            n = lit[i + 1]
            if n == "r":
                out.append(13); i += 2
            elif n == "n":
                out.append(10); i += 2
            elif n == "t":
                out.append(9); i += 2
            elif n == "0":
                out.append(0); i += 2
            elif n == "\\":
                out.append(92); i += 2
            elif n == '"':
                out.append(34); i += 2
            elif n == "x":
                out.append(int(lit[i + 2:i + 4], 16)); i += 4
            else:
                raise ValueError("escape " + n)
        else:
            out.extend(c.encode("utf-8")); i += 1
    return bytes(out)


def lean_bytes(b):
    return "[" + ", ".join(str(x) for x in b) + "]"


def lean_str(s):
    return '"' + s.replace("\\", "\\\\").replace('"', '\\"') + '"'


def body_of(src, header_re):
    """text of the brace block following the first match of header_re"""
    m = re.search(header_re, src)
    if not m:
        return None
    i = src.find("{", m.end() - 1)
    if i < 0:
        return None
    depth = 0
    for j in range(i, len(src)):
        if src[j] == "{":
            depth += 1
        elif src[j] == "}":
            depth -= 1
            if depth == 0:
                return src[i + 1:j]
    return None


def vec_of_strs(src, fn):
    b = body_of(src, r"pub fn " + fn + r"\(\)\s*->\s*Vec<&'static str>\s*\{")
    if b is None:
        return None
    m = re.search(r"vec!\[(.*?)\]", b, re.S)
    if not m:
        return None
    return re.findall(r'"([^"]*)"', m.group(1))


def run(repo, gen_dir):
    items = []

    def item(name, ok, detail="", props=PROPS):
        items.append({"name": name, "props": props, "ok": bool(ok), "detail": detail})

    # ------------------------------------------------------------------ H2Const
    p2 = rd(os.path.join(repo, "huginn-net-http/src/http2_parser.rs")) or ""
    ak = rd(os.path.join(repo, "huginn-net-http/src/akamai.rs")) or ""

    preface = None
    m = re.search(r'pub const HTTP2_CONNECTION_PREFACE:\s*&\[u8\]\s*=\s*b"((?:[^"\\]|\\.)*)";', p2)
    if m:
        try:
            preface = rust_bytes(m.group(1))
        except Exception:
            preface = None
    item("http2_parser.rs HTTP2_CONNECTION_PREFACE", preface is not None)

    max_frame = None
    b = body_of(p2, r"impl Default for Http2Config\s*\{")
    if b:
        m = re.search(r"max_frame_size:\s*([0-9_]+)", b)
        if m:
            max_frame = int(m.group(1).replace("_", ""))
    item("http2_parser.rs Http2Config::default max_frame_size", max_frame is not None)

    ft_arms = None
    b = body_of(p2, r"impl From<u8> for Http2FrameType\s*\{")
    if b:
        ft_arms = [(int(a, 16), n) for a, n in re.findall(r"0x([0-9a-fA-F]+)\s*=>\s*Http2FrameType::(\w+),", b)]
        if "other => Http2FrameType::Unknown(other)" not in b:
            ft_arms = None
    item("http2_parser.rs Http2FrameType::from arms", bool(ft_arms))

    sid_mask = re.search(r"&\s*0x7FFF_FFFF", p2) is not None
    item("http2_parser.rs stream id mask 0x7FFF_FFFF", sid_mask)

    s_from = s_as = None
    b = body_of(ak, r"impl From<u16> for SettingId\s*\{")
    if b:
        s_from = [(int(a), n) for a, n in re.findall(r"(\d+)\s*=>\s*Self::(\w+),", b)]
        if "other => Self::Unknown(other)" not in b:
            s_from = None
    b = body_of(ak, r"pub const fn as_u16\(self\)\s*->\s*u16\s*\{")
    if b:
        s_as = [(n, int(a)) for n, a in re.findall(r"Self::(\w+)\s*=>\s*(\d+),", b)]
        if "Self::Unknown(id) => id" not in b:
            s_as = None
    item("akamai.rs SettingId::from arms", bool(s_from), props=["C17"])
    item("akamai.rs SettingId::as_u16 arms", bool(s_as), props=["C17"])

    ph_from = ph_disp = None
    b = body_of(ak, r"impl From<&str> for PseudoHeader\s*\{")
    if b:
        ph_from = re.findall(r'"([^"]+)"\s*=>\s*Self::(\w+),', b)
        if "other => Self::Unknown(other.to_string())" not in b:
            ph_from = None
    b = body_of(ak, r"impl fmt::Display for PseudoHeader\s*\{")
    unknown_prefix = None
    if b:
        ph_disp = re.findall(r'Self::(\w+)\s*=>\s*write!\(f,\s*"([^"{}]*)"\)', b)
        m = re.search(r'Self::Unknown\(name\)\s*=>\s*write!\(f,\s*"([^"{}]*)\{name\}"\)', b)
        unknown_prefix = m.group(1) if m else None
    item("akamai.rs PseudoHeader::from arms", bool(ph_from), props=["C17"])
    item("akamai.rs PseudoHeader Display arms", bool(ph_disp) and unknown_prefix is not None, props=["C17"])

    gfs = body_of(ak, r"pub fn generate_fingerprint_string\(") or ""
    # the function signature has a brace-free parameter list; body_of finds the body
    m_w = re.search(r'if window_update == 0\s*\{\s*"([^"]*)"\.to_string\(\)', gfs)
    m_p = re.search(r'if priority_frames\.is_empty\(\)\s*\{\s*"([^"]*)"\.to_string\(\)', gfs)
    seps = re.findall(r'\.join\("([^"]*)"\)', gfs)
    m_fmt = re.search(r'format!\("\{settings_str\}(.)\{window_str\}(.)\{priority_str\}(.)\{pseudo_str\}"\)', gfs)
    m_set = re.search(r'format!\("\{\}:\{\}",\s*s\.id\.as_u16\(\),\s*s\.value\)', gfs)
    m_pri = re.search(r'"\{\}:\{\}:\{\}:\{\}"', gfs) and "saturating_add(1)" in gfs
    item("akamai.rs fingerprint string defaults and separators",
         bool(m_w and m_p and seps == [";", ",", ","] and m_fmt and m_set and m_pri), props=["C17"])
    hf = body_of(ak, r"pub fn hash_fingerprint\(") or ""
    m_take = re.search(r"\.take\((\d+)\)", hf)
    item("akamai.rs hash take(n)", bool(m_take) and "Sha256" in hf, props=["C17"])

    L = ["/- GENERATED by extract/ex_h2.py from huginn-net-http/src/{http2_parser,akamai}.rs - do not edit -/",
         "namespace Huginn.Gen.H2", ""]
    L.append(f"def preface : List UInt8 := {lean_bytes(preface or b'')}")
    L.append(f"def maxFrameSize : Nat := {max_frame if max_frame is not None else 0}")
    L.append("def frameTypeArms : List (Nat × String) := [" +
             ", ".join(f"({a}, {lean_str(n)})" for a, n in (ft_arms or [])) + "]")
    L.append(f"def sidMasked : Bool := {'true' if sid_mask else 'false'}")
    L.append("def settingFromArms : List (Nat × String) := [" +
             ", ".join(f"({a}, {lean_str(n)})" for a, n in (s_from or [])) + "]")
    L.append("def settingAsArms : List (String × Nat) := [" +
             ", ".join(f"({lean_str(n)}, {a})" for n, a in (s_as or [])) + "]")
    L.append("/-- `PseudoHeader::from` arms: name bytes ↦ variant -/")
    L.append("def pseudoFromArms : List (List UInt8 × String) := [" +
             ", ".join(f"({lean_bytes(a.encode())}, {lean_str(n)})" for a, n in (ph_from or [])) + "]")
    L.append("/-- `Display for PseudoHeader` arms: variant ↦ printed bytes -/")
    L.append("def pseudoDisplayArms : List (String × List UInt8) := [" +
             ", ".join(f"({lean_str(n)}, {lean_bytes(a.encode())})" for n, a in (ph_disp or [])) + "]")
    L.append(f"def pseudoUnknownPrefix : List UInt8 := {lean_bytes((unknown_prefix or '').encode())}")
    L.append(f"def windowAbsent : List UInt8 := {lean_bytes((m_w.group(1) if m_w else '').encode())}")
    L.append(f"def priorityAbsent : List UInt8 := {lean_bytes((m_p.group(1) if m_p else '').encode())}")
    fs = (m_fmt.group(1) if m_fmt else "|")
    L.append(f"def fieldSep : UInt8 := {ord(fs)}")
    L.append(f"def hashTake : Nat := {int(m_take.group(1)) if m_take else 0}")
    L += ["", "end Huginn.Gen.H2", ""]
    write_if_changed(os.path.join(gen_dir, "H2Const.lean"), "\n".join(L))

    # ------------------------------------------------------------------ HpackTables
    lock = rd(os.path.join(repo, "Cargo.lock")) or ""
    m = re.search(r'name = "hpack-patched"\s*\nversion = "([^"]+)"', lock)
    ver = m.group(1) if m else None
    cargo_home = os.environ.get("CARGO_HOME", os.path.expanduser("~/.cargo"))
    dirs = sorted(glob.glob(os.path.join(cargo_home, "registry/src/*/hpack-patched-" + (ver or "*"))))
    lib = rd(os.path.join(dirs[0], "src/lib.rs")) if dirs else None
    huf = rd(os.path.join(dirs[0], "src/huffman.rs")) if dirs else None
    dec = rd(os.path.join(dirs[0], "src/decoder.rs")) if dirs else None

    static = None
    if lib:
        m = re.search(r"static STATIC_TABLE:[^=]*=\s*&\[(.*?)\n\];", lib, re.S)
        if m:
            static = [(rust_bytes(a), rust_bytes(b)) for a, b in
                      re.findall(r'\(b"((?:[^"\\]|\\.)*)",\s*b"((?:[^"\\]|\\.)*)"\)', m.group(1))]
    item("hpack-patched STATIC_TABLE", bool(static), "" if static else "crate source not found under CARGO_HOME/registry/src")

    huff = None
    if huf:
        m = re.search(r"static HUFFMAN_CODE_TABLE:[^=]*=\s*&\[(.*?)\n\];", huf, re.S)
        if m:
            huff = [(int(a, 16), int(b)) for a, b in re.findall(r"\(0x([0-9a-fA-F]+),\s*(\d+)\)", m.group(1))]
    item("hpack-patched HUFFMAN_CODE_TABLE", bool(huff) and len(huff) == 257)

    dyn = None
    if lib:
        m = re.search(r"DynamicTable::with_size\((\d+)\)", lib)
        dyn = int(m.group(1)) if m else None
    olimit = None
    if dec:
        m = re.search(r"let octet_limit = (\d+);", dec)
        olimit = int(m.group(1)) if m else None
    item("hpack-patched default dynamic size / octet_limit", dyn is not None and olimit is not None)

    L = ["/- GENERATED by extract/ex_h2.py from the hpack-patched crate source (third-party) - do not edit -/",
         "namespace Huginn.Gen.Hpack", "",
         f"def crateVersion : String := {lean_str(ver or '?')}",
         f"def defaultDynSize : Nat := {dyn if dyn is not None else 0}",
         f"def octetLimit : Nat := {olimit if olimit is not None else 0}",
         "/-- `STATIC_TABLE` (1-based in HPACK; entry `i` here is index `i+1`) -/",
         "def staticTable : List (List UInt8 × List UInt8) := ["]
    for k, (a, b) in enumerate(static or []):
        L.append(f"  ({lean_bytes(a)}, {lean_bytes(b)}){',' if k + 1 < len(static) else ''}  -- {k + 1} {a.decode('latin-1')}: {b.decode('latin-1')}")
    L.append("]")
    L.append("/-- `HUFFMAN_CODE_TABLE`: entry `s` is `(code, bit length)` of symbol `s` (256 = EOS) -/")
    L.append("def huffman : List (Nat × Nat) := [")
    hs = huff or []
    for k in range(0, len(hs), 8):
        L.append("  " + ", ".join(f"({c}, {l})" for c, l in hs[k:k + 8]) + ("," if k + 8 < len(hs) else ""))
    L.append("]")
    L += ["", "end Huginn.Gen.Hpack", ""]
    write_if_changed(os.path.join(gen_dir, "HpackTables.lean"), "\n".join(L))

    # ------------------------------------------------------------------ H2Lists
    hs = rd(os.path.join(repo, "huginn-net-db/src/http.rs")) or ""
    names = ["request_optional_headers", "response_optional_headers", "request_skip_value_headers",
             "response_skip_value_headers", "request_common_headers", "response_common_headers"]
    L = ["/- GENERATED by extract/ex_h2.py from huginn-net-db/src/http.rs - do not edit -/",
         "namespace Huginn.Gen.H2Lists", ""]
    for n in names:
        v = vec_of_strs(hs, n)
        item(f"http.rs {n}", v is not None, props=["C16"])
        camel = re.sub(r"_(\w)", lambda m: m.group(1).upper(), n)
        L.append(f"def {camel} : List (List UInt8) := [" + ", ".join(lean_bytes(x.encode()) for x in (v or [])) + "]"
                 + "  -- " + ", ".join(v or []))
    # language table of http_languages.rs (LANGUAGES: code -> name)
    hl = rd(os.path.join(repo, "huginn-net-http/src/http_languages.rs")) or ""
    langs = re.findall(r'map\.insert\("([^"]+)"\.to_string\(\),\s*"([^"]+)"\.to_string\(\)\);', hl)
    item("http_languages.rs LANGUAGES", len(langs) > 100, props=["C16"])
    L.append("/-- `LANGUAGES` (a HashMap in the code: a later insert of the same key would win; keys are checked distinct below) -/")
    L.append("def languages : List (List UInt8 × List UInt8) := [")
    for k, (a, b) in enumerate(langs):
        L.append(f"  ({lean_bytes(a.encode())}, {lean_bytes(b.encode())}){',' if k + 1 < len(langs) else ''}  -- {a} {b}")
    L.append("]")
    item("http_languages.rs LANGUAGES keys distinct", len(set(a for a, _ in langs)) == len(langs), props=["C16"])
    L += ["", "end Huginn.Gen.H2Lists", ""]
    write_if_changed(os.path.join(gen_dir, "H2Lists.lean"), "\n".join(L))
    return items
