"""C01: inventory of panic-capable expressions in the files C01 anchors.

A *site* is (file, enclosing fn, normalised expression) for every
  index/slice expression `x[...]`, `.unwrap()`, `.expect(…)`, `unreachable!`, `panic!`, `assert!`,
  integer division / remainder, and unguarded `+ - * <<` on what look like integer operands
in non-test code. The committed baseline extract/sites_baseline.json lists every site with the
justification class it was reviewed under. A site that is not in the baseline (new or changed
expression, or moved to another function) is a broken obligation of C01: the totality argument no
longer covers the code as written.
"""
import json, os, re

PROPS = ["C01"]

def anchored_files(verif):
    for l in open(os.path.join(verif, "properties.jsonl")):
        p = json.loads(l)
        if p["id"] == "C01":
            return [f for f in p["anchors"]["files"] if f.endswith(".rs")]
    return []

STRING = re.compile(r'"(?:\\.|[^"\\])*"')
CHARLIT = re.compile(r"'(?:\\.|[^'\\])'")

def strip_noise(line):
    line = STRING.sub('""', line)
    line = CHARLIT.sub("' '", line)
    i = line.find("//")
    if i >= 0:
        line = line[:i]
    return line

INDEX = re.compile(r"[A-Za-z_0-9\)\]]\[[^\[\]]*\]")
CALLS = re.compile(r"\.unwrap\(\)|\.expect\(|unreachable!|panic!|\bassert!|\bassert_eq!")
DIVMOD = re.compile(r"[A-Za-z_0-9\)\]]\s*[/%]\s*[A-Za-z_\(]")          # division by a non-literal
ARITH = re.compile(r"[A-Za-z_0-9\)\]]\s*(?:\+|\*|<<|-)\s*[A-Za-z_0-9\(]")
SAFE_ARITH = re.compile(r"saturating_|checked_|wrapping_|overflowing_")

def sites_of(path, rel):
    out = []
    if not os.path.exists(path):
        return None
    fn = "<top>"
    depth = 0
    fn_stack = []
    in_block_comment = False
    for raw in open(path, encoding="utf-8", errors="replace"):
        if "#[cfg(test)]" in raw:
            break
        line = raw
        if in_block_comment:
            j = line.find("*/")
            if j < 0:
                continue
            line = line[j + 2:]
            in_block_comment = False
        if "/*" in line and "*/" not in line:
            in_block_comment = True
            line = line[:line.find("/*")]
        line = strip_noise(line)
        s = line.strip()
        if not s or s.startswith("#[") or s.startswith("///") or s.startswith("use "):
            pass
        m = re.search(r"\bfn\s+([A-Za-z_0-9]+)", line)
        if m:
            fn_stack.append((m.group(1), depth))
            fn = m.group(1)
        # sites
        norm = re.sub(r"\s+", "", s)
        if s and not s.startswith("#[") and not s.startswith("use ") and not s.startswith("pub use "):
            for m in INDEX.finditer(s):
                e = re.sub(r"\s+", "", m.group(0))
                # skip type positions like Vec<[u8; 4]> / array types / attribute-ish
                if re.match(r".\[(u8|u16|u32|u64|usize|i32);", e):
                    continue
                out.append((rel, fn, "index:" + norm))
                break
            if CALLS.search(s):
                out.append((rel, fn, "call:" + norm))
            if DIVMOD.search(s) and not SAFE_ARITH.search(s):
                out.append((rel, fn, "divmod:" + norm))
            elif ARITH.search(s) and not SAFE_ARITH.search(s) and not s.startswith("fn ") and "->" not in s \
                    and not s.startswith("pub fn") and not s.startswith("impl") and not s.startswith("where") \
                    and not re.search(r"\b(as|for|in)\b.*\.\.", s) and "'" not in s and "&'" not in s:
                # every arithmetic operator between operands counts (an earlier version required a digit, `len()`
                # or an `as` cast on the line and so missed `mss + min_headers`, seeded change C01d-3); the only
                # thing excluded is a dereference after a keyword (`match *x`, `return *x`)
                real = [m for m in ARITH.finditer(s)
                        if not ("*" in m.group(0) and
                                re.search(r"\b(match|return|if|in|while|else)$", s[:m.start() + 1]))]
                if real:
                    out.append((rel, fn, "arith:" + norm))
        depth += line.count("{") - line.count("}")
        while fn_stack and depth <= fn_stack[-1][1] and "{" not in line:
            fn_stack.pop()
            fn = fn_stack[-1][0] if fn_stack else "<top>"
    return out

def run(repo, gen_dir):
    verif = os.path.dirname(os.path.dirname(os.path.abspath(__file__)))
    files = anchored_files(verif)
    base_p = os.path.join(verif, "extract", "sites_baseline.json")
    baseline = json.load(open(base_p)) if os.path.exists(base_p) else None
    cur = []
    missing_files = []
    for rel in files:
        s = sites_of(os.path.join(repo, rel), rel)
        if s is None:
            missing_files.append(rel)
        else:
            cur.extend(s)
    keys = sorted(set("|".join(k) for k in cur))
    with open(os.path.join(verif, "extract", "sites_current.json"), "w") as f:
        json.dump(keys, f, indent=0)
    items = []
    if baseline is None:
        items.append({"name": "panic-site inventory baseline", "props": PROPS, "ok": False, "detail": "extract/sites_baseline.json missing"})
        return items
    known = set(baseline["sites"].keys())
    new = [k for k in keys if k not in known]
    items.append({"name": f"panic-site inventory ({len(keys)} sites in {len(files)} files, {len(known)} reviewed)", "props": PROPS,
                  "ok": not new and not missing_files,
                  "detail": "" if not new and not missing_files else
                  ("new or changed panic-capable sites not covered by the reviewed inventory: " + " ;; ".join(new[:8]) +
                   (f" (+{len(new) - 8} more)" if len(new) > 8 else "") +
                   (f"; files missing: {missing_files}" if missing_files else ""))})
    return items
