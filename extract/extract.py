#!/usr/bin/env python3
"""Mechanism T: regenerate lean/Huginn/Gen/*.lean from /repo's current sources.

Runs every extract/ex_*.py module. Each module exposes
    run(repo: str, gen_dir: str) -> list[dict]
and returns items {"name": str, "props": ["C06", ...], "ok": bool, "detail": str}.
An item that cannot be found / parsed is reported ok=False (a broken obligation for the listed
properties) — the module must still write a syntactically valid Gen file (e.g. an empty table) so
that the driver keeps building.
Writes extract/report.json. Exit code 0 unless a module crashes.
"""
import importlib.util, json, os, sys, traceback

V = os.path.dirname(os.path.dirname(os.path.abspath(__file__)))
REPO = os.environ.get("VERIF_REPO", "/repo")
GEN = os.path.join(V, "lean", "Huginn", "Gen")


def write_if_changed(path, content):
    if os.path.exists(path) and open(path).read() == content:
        return False
    os.makedirs(os.path.dirname(path), exist_ok=True)
    with open(path, "w") as f:
        f.write(content)
    return True


def main():
    items = []
    rc = 0
    here = os.path.dirname(os.path.abspath(__file__))
    for fn in sorted(os.listdir(here)):
        if not (fn.startswith("ex_") and fn.endswith(".py")):
            continue
        spec = importlib.util.spec_from_file_location(fn[:-3], os.path.join(here, fn))
        mod = importlib.util.module_from_spec(spec)
        try:
            spec.loader.exec_module(mod)
            items.extend(mod.run(REPO, GEN))
        except Exception:
            rc = 1
            items.append({"name": fn, "props": getattr(mod, "PROPS", []), "ok": False,
                          "detail": traceback.format_exc()[-1500:]})
    with open(os.path.join(here, "report.json"), "w") as f:
        json.dump({"repo": REPO, "items": items}, f, indent=1)
    bad = [i for i in items if not i["ok"]]
    print(f"extract: {len(items)} items, {len(bad)} not found/parsed")
    for i in bad:
        print("  MISSING", i["name"], i["detail"][:200])
    return rc


if __name__ == "__main__":
    sys.path.insert(0, os.path.dirname(os.path.abspath(__file__)))
    sys.exit(main())
