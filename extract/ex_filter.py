"""C14: the three filter.rs copies must be identical modulo the crate name in doc comments."""
import os, re

PROPS = ["C14"]


def norm(src):
    src = re.sub(r"huginn_net_(tcp|http|tls)", "huginn_net_X", src)
    return src


def run(repo, gen_dir):
    texts = {}
    for c in ("tcp", "http", "tls"):
        p = os.path.join(repo, f"huginn-net-{c}/src/filter.rs")
        texts[c] = norm(open(p).read()) if os.path.exists(p) else None
    ok = all(t is not None for t in texts.values()) and texts["tcp"] == texts["http"] == texts["tls"]
    return [{"name": "filter.rs x3 identical", "props": PROPS, "ok": ok,
             "detail": "" if ok else "the three filter.rs copies differ (or one is missing): one model no longer describes all three"}]
