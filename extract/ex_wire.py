"""C15 / C18: the copies of the three decoders must be what Model/Wire.lean mirrors.

* packet_parser.rs x3 (tcp/http/tls) identical modulo crate names; the unified crate's copy identical
  after mapping its slice-returning arms (`Ipv4Packet::new(x).is_some()` / `IpPacket::Ipv4(x)`) back.
* raw_filter.rs x3 identical modulo crate names.
* packet_hash.rs x3 (after fixes/C18-hashers-locate-ip-like-parser.patch): `locate_ip` is textually the same
  in all three and has exactly the shape Model/Wire.lean `locEth / locRaw / locNull / locateIp` mirrors (three
  guarded `match`es with early returns, then `None`); every literal in it, the way each hasher consumes its
  result, and the byte offsets / constants of the flow hashers are regenerated into lean/Huginn/Gen/Wire.lean.
"""
import os, re

try:
    from extract import write_if_changed
except Exception:  # pragma: no cover
    def write_if_changed(path, content):
        os.makedirs(os.path.dirname(path), exist_ok=True)
        open(path, "w").write(content)

PROPS = ["C15", "C18"]


def rd(repo, rel):
    p = os.path.join(repo, rel)
    return open(p).read() if os.path.exists(p) else None


def norm(src):
    return re.sub(r"huginn[_-]net[_-](tcp|http|tls)", "huginn_net_X", src)


def strip_comments(src):
    src = re.sub(r"//[^\n]*", "", src)
    return re.sub(r"\s+", " ", src).strip()


def unified_to_crate(src):
    """map the unified crate's packet_parser.rs (returns slices) onto the per-crate text"""
    s = src
    s = re.sub(r"if (Ipv[46]Packet)::new\((\w+)\)\.is_some\(\) \{", lambda m: f"if let Some({m.group(1)[:4].lower()}) = {m.group(1)}::new({m.group(2)}) {{", s)
    s = re.sub(r"IpPacket::Ipv4\((ip_data|packet)\)", "IpPacket::Ipv4(ipv4)", s)
    s = re.sub(r"IpPacket::Ipv6\((ip_data|packet)\)", "IpPacket::Ipv6(ipv6)", s)
    s = s.replace("Ipv4(&'a [u8])", "Ipv4(Ipv4Packet<'a>)").replace("Ipv6(&'a [u8])", "Ipv6(Ipv6Packet<'a>)")
    return s


def const(pattern, text, name, items, props):
    m = re.search(pattern, text or "", re.S)
    ok = m is not None
    items.append({"name": name, "props": props, "ok": ok, "detail": "" if ok else f"pattern not found: {pattern[:80]}"})
    return m


def run(repo, gen_dir):
    items = []
    crates = ("tcp", "http", "tls")
    # --- packet_parser.rs
    pp = {c: rd(repo, f"huginn-net-{c}/src/packet_parser.rs") for c in crates}
    ok = all(pp.values()) and len({norm(v) for v in pp.values()}) == 1
    items.append({"name": "packet_parser.rs x3 identical", "props": PROPS, "ok": bool(ok),
                  "detail": "" if ok else "the three packet_parser.rs copies differ (or one is missing)"})
    uni = rd(repo, "huginn-net/src/packet_parser.rs")
    ok_u = bool(uni and pp["tcp"]) and strip_comments(unified_to_crate(uni)) == strip_comments(pp["tcp"])
    items.append({"name": "huginn-net/packet_parser.rs = per-crate parser modulo slice return", "props": ["C15"], "ok": ok_u,
                  "detail": "" if ok_u else "the unified crate's parse_packet no longer matches the per-crate one"})
    # --- raw_filter.rs
    rf = {c: rd(repo, f"huginn-net-{c}/src/raw_filter.rs") for c in crates}
    ok = all(rf.values()) and len({norm(v) for v in rf.values()}) == 1
    items.append({"name": "raw_filter.rs x3 identical", "props": ["C15"], "ok": bool(ok),
                  "detail": "" if ok else "the three raw_filter.rs copies differ (or one is missing)"})
    # --- packet_hash.rs: shared locate_ip
    ph = {c: rd(repo, f"huginn-net-{c}/src/packet_hash.rs") for c in crates}
    bodies = set()
    for c in crates:
        m = re.search(r"\nfn locate_ip\(.*?\n\}\n", ph[c] or "", re.S)
        bodies.add(strip_comments(m.group(0)) if m else f"missing-{c}")
    ok = len(bodies) == 1 and not any(t.startswith("missing") for t in bodies)
    items.append({"name": "packet_hash.rs x3 share locate_ip", "props": ["C18", "C01"], "ok": ok,
                  "detail": "" if ok else f"locate_ip differs between the hashers or is missing: {sorted(bodies)[:3]}"})
    locate_src = sorted(bodies)[0] if ok else ""

    # --- constants the model mirrors
    p = pp["tcp"] or ""
    r = rf["tcp"] or ""
    vals = {}
    m = const(r"fn try_ethernet_format.*?packet\.len\(\) < (\d+).*?&packet\[(\d+)\.\.\]", p, "parser: ethernet header 14", items, PROPS)
    vals["ppEthMin"], vals["ppEthOff"] = (m.group(1), m.group(2)) if m else (0, 0)
    m = const(r"fn try_raw_ip_format.*?packet\.len\(\) < (\d+)", p, "parser: raw min 20", items, PROPS)
    vals["ppRawMin"] = m.group(1) if m else 0
    m = const(r"fn try_null_datalink_format.*?packet\.len\(\) < (\d+) \|\| packet\[0\] != (0x[0-9a-fA-F]+) \|\| packet\[1\] != (0x[0-9a-fA-F]+).*?&packet\[(\d+)\.\.\]", p,
              "parser: null signature 1e 00, min 24, skip 4", items, PROPS)
    vals["ppNullMin"], vals["ppNull0"], vals["ppNull1"], vals["ppNullOff"] = (m.group(1), m.group(2), m.group(3), m.group(4)) if m else (0, 0, 0, 0)
    m = const(r"fn try_null_datalink.*?match family \{\s*(\d+) => extract_ipv4_info\(&packet\[(\d+)\.\.\]\),[^\n]*\n\s*(\d+) \| (\d+) => extract_ipv6_info", r,
              "filter: null families 2 / 30|28", items, ["C15"])
    vals["rfFam4"], vals["rfNullOff"], vals["rfFam6a"], vals["rfFam6b"] = (m.group(1), m.group(2), m.group(3), m.group(4)) if m else (0, 0, 0, 0)
    m = const(r"fn try_null_datalink.*?u32::from_ne_bytes", r, "filter: native-endian family", items, ["C15"])
    m = const(r"fn extract_ipv4_info.*?packet\.len\(\) < (\d+).*?packet\[(\d+)\] != (\d+).*?packet\[0\] & 0x0F.*?saturating_mul\((\d+)\)\.max\((\d+)\).*?tcp_offset\.saturating_add\((\d+)\)", r,
              "filter: ipv4 min 20, proto at 9 = 6, max(ihl*4, 20), +4", items, ["C15"])
    vals["rfV4Min"], vals["rfV4ProtoOff"], vals["rfProto"], vals["rfIhlMul"], vals["rfIhlMin"], vals["rfPortBytes"] = m.groups() if m else (0, 0, 0, 0, 0, 0)
    m = const(r"fn try_null_datalink.*?if packet\[0\] == (0x[0-9a-fA-F]+) && packet\[1\] == (0x[0-9a-fA-F]+) && packet\.len\(\) > (\d+) \{\s*return match packet\[4\] >> 4 \{\s*4 => extract_ipv4_info\(&packet\[4\.\.\]\),\s*6 => extract_ipv6_info\(&packet\[4\.\.\]\),", r,
              "filter: loopback header 1e 00 by version nibble (before the family match)", items, ["C15"])
    vals["rfNullSig0"], vals["rfNullSig1"], vals["rfNullSigGt"] = m.groups() if m else (0, 0, 0)
    m = const(r"fn extract_ipv6_info.*?packet\.len\(\) < (\d+).*?packet\[(\d+)\] != (\d+).*?packet\.len\(\) < (\d+)", r,
              "filter: ipv6 min 40, next header at 6 = 6, 44", items, ["C15"])
    vals["rfV6Min"], vals["rfV6NhOff"], vals["rfV6Proto"], vals["rfV6Need"] = m.groups() if m else (0, 0, 0, 0)
    HEX = r"(0x[0-9a-fA-F]+)"
    RET = r"return Some\(\((\d+), (\d+)\)\)"
    LOCATE = (
        r"fn locate_ip\(packet: &\[u8\]\) -> Option<\(usize, u8\)> \{ "
        r"if packet\.len\(\) >= (\d+) \{ match u16::from_be_bytes\(\[packet\[(\d+)\], packet\[(\d+)\]\]\) \{ "
        + HEX + r" if packet\.len\(\) >= (\d+) => " + RET + r", "
        + HEX + r" if packet\.len\(\) >= (\d+) => " + RET + r", _ => \{\} \} \} "
        r"if packet\.len\(\) >= (\d+) \{ match packet\[(\d+)\] >> (\d+) \{ "
        r"(\d+) => " + RET + r", (\d+) if packet\.len\(\) >= (\d+) => " + RET + r", _ => \{\} \} \} "
        r"if packet\.len\(\) >= (\d+) && packet\[0\] == " + HEX + r" && packet\[1\] == " + HEX + r" \{ "
        r"match packet\[(\d+)\] >> (\d+) \{ "
        r"(\d+) => " + RET + r", (\d+) if packet\.len\(\) >= (\d+) => " + RET + r", _ => \{\} \} \} "
        r"None \}$"
    )
    names = ["liEthMin", "liEthB0", "liEthB1",
             "liEthType4", "liEth4Need", "liEth4Off", "liEth4Ver",
             "liEthType6", "liEth6Need", "liEth6Off", "liEth6Ver",
             "liRawMin", "liRawIdx", "liRawShift",
             "liRaw4Nib", "liRaw4Off", "liRaw4Ver", "liRaw6Nib", "liRaw6Need", "liRaw6Off", "liRaw6Ver",
             "liNullMin", "liNull0", "liNull1", "liNullIdx", "liNullShift",
             "liNull4Nib", "liNull4Off", "liNull4Ver", "liNull6Nib", "liNull6Need", "liNull6Off", "liNull6Ver"]
    m = const(LOCATE, locate_src, "hash: locate_ip = Ethernet by ethertype / raw by nibble / loopback 1e 00, shape and literals",
              items, ["C18", "C01"])
    for i, nm in enumerate(names):
        vals[nm] = m.group(i + 1) if m else 0
    # how each hasher consumes the result (after comment stripping / whitespace normalisation)
    use = {
        "tcp": r"pub fn hash_source_ip\(packet: &\[u8\]\) -> usize \{ let \(ip_start, version\) = match locate_ip\(packet\) \{ Some\(located\) => located, None => return fallback_hash\(packet\), \}; let ip_packet = &packet\[ip_start\.\.\]; match version \{ 4 => \{ if ip_packet\.len\(\) >= (\d+) \{ let src_ip = &ip_packet\[(\d+)\.\.(\d+)\]; hash_bytes\(src_ip\) \} else \{ fallback_hash\(packet\) \} \} 6 => \{ if ip_packet\.len\(\) >= (\d+) \{ let src_ip = &ip_packet\[(\d+)\.\.(\d+)\]; hash_bytes\(src_ip\) \} else \{ fallback_hash\(packet\) \} \} _ => fallback_hash\(packet\), \} \}",
        "http": r"pub fn hash_flow\(packet: &\[u8\], num_workers: usize\) -> usize \{ let \(ip_start, version\) = match locate_ip\(packet\) \{ Some\(located\) => located, None => return fallback_hash\(packet, num_workers\), \}; let min_length = ip_start\.saturating_add\((\d+)\); if packet\.len\(\) < min_length \{ return fallback_hash\(packet, num_workers\); \} let ip_packet = &packet\[ip_start\.\.\]; match version \{ 4 => hash_ipv4_flow\(ip_packet, num_workers\), 6 => hash_ipv6_flow\(ip_packet, num_workers\), _ => fallback_hash\(packet, num_workers\), \} \}",
        "tls": r"pub fn hash_flow\(packet: &\[u8\], num_workers: usize\) -> Option<usize> \{ let \(ip_start, version\) = locate_ip\(packet\)\?; let min_length = ip_start\.saturating_add\((\d+)\); if packet\.len\(\) < min_length \{ return None; \} let ip_packet = &packet\[ip_start\.\.\]; match version \{ 4 => hash_ipv4_flow\(ip_packet, num_workers\), 6 => hash_ipv6_flow\(ip_packet, num_workers\), _ => None, \} \}",
    }
    m = const(use["tcp"], strip_comments(ph["tcp"] or ""), "hash(tcp): hash_source_ip = locate_ip, then source address bytes by version", items, ["C18", "C01"])
    (vals["phTcpV4Need"], vals["phTcpV4From"], vals["phTcpV4To"], vals["phTcpV6Need"], vals["phTcpV6From"], vals["phTcpV6To"]) = m.groups() if m else (0, 0, 0, 0, 0, 0)
    for c in ("http", "tls"):
        m = const(use[c], strip_comments(ph[c] or ""), f"hash({c}): hash_flow = locate_ip, min length ip_start + 40, flow hash by version", items, ["C18", "C01"])
        vals[f"ph{c.capitalize()}Min"] = m.group(1) if m else 0
    for c in ("http", "tls"):
        m = const(r"let ip_header_len = ihl\.saturating_mul\((\d+)\)\.max\((\d+)\);", ph[c] or "", f"hash({c}): ports at max(ihl*4, 20)", items, ["C18"])
        vals[f"ph{c.capitalize()}IhlMul"], vals[f"ph{c.capitalize()}IhlMin"] = m.groups() if m else (0, 0)
    m = const(r"let \(lo, hi\) = if \(src_ip, src_port\) <= \(dst_ip, dst_port\)", ph["http"] or "", "hash(http): canonical endpoint order", items, ["C18"])

    def n(x):
        return int(str(x), 0)
    lines = ["/- generated by extract/ex_wire.py from /repo — do not edit -/", "namespace Huginn.Gen.Wire", ""]
    for k in sorted(vals):
        lines.append(f"def {k} : Nat := {n(vals[k])}")
    lines += ["", "end Huginn.Gen.Wire", ""]
    write_if_changed(os.path.join(gen_dir, "Wire.lean"), "\n".join(lines))
    return items
