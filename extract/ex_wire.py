"""C15 / C18: the copies of the three decoders must be what Model/Wire.lean mirrors.

* packet_parser.rs x3 (tcp/http/tls) identical modulo crate names; the unified crate's copy identical
  after mapping its slice-returning arms (`Ipv4Packet::new(x).is_some()` / `IpPacket::Ipv4(x)`) back.
* raw_filter.rs x3 identical modulo crate names.
* packet_hash.rs x3: the shared "Ethernet header present" test is textually the same in all three, and the
  byte offsets / constants the model mirrors are regenerated into lean/Huginn/Gen/Wire.lean.
"""
import os, re

try:
    from extract import write_if_changed
except Exception:  # pragma: no cover
    def write_if_changed(path, content):
        os.makedirs(os.path.dirname(path), exist_ok=True)
        open(path, "w").write(content)

PROPS = ["C15", "C18"]


def rd(repo, rel):
    p = os.path.join(repo, rel)
    return open(p).read() if os.path.exists(p) else None


def norm(src):
    return re.sub(r"huginn[_-]net[_-](tcp|http|tls)", "huginn_net_X", src)


def strip_comments(src):
    src = re.sub(r"//[^\n]*", "", src)
    return re.sub(r"\s+", " ", src).strip()


def unified_to_crate(src):
    """map the unified crate's packet_parser.rs (returns slices) onto the per-crate text"""
    s = src
    s = re.sub(r"if (Ipv[46]Packet)::new\((\w+)\)\.is_some\(\) \{", lambda m: f"if let Some({m.group(1)[:4].lower()}) = {m.group(1)}::new({m.group(2)}) {{", s)
    s = re.sub(r"IpPacket::Ipv4\((ip_data|packet)\)", "IpPacket::Ipv4(ipv4)", s)
    s = re.sub(r"IpPacket::Ipv6\((ip_data|packet)\)", "IpPacket::Ipv6(ipv6)", s)
    s = s.replace("Ipv4(&'a [u8])", "Ipv4(Ipv4Packet<'a>)").replace("Ipv6(&'a [u8])", "Ipv6(Ipv6Packet<'a>)")
    return s


def const(pattern, text, name, items, props):
    m = re.search(pattern, text or "", re.S)
    ok = m is not None
    items.append({"name": name, "props": props, "ok": ok, "detail": "" if ok else f"pattern not found: {pattern[:80]}"})
    return m


def run(repo, gen_dir):
    items = []
    crates = ("tcp", "http", "tls")
    # --- packet_parser.rs
    pp = {c: rd(repo, f"huginn-net-{c}/src/packet_parser.rs") for c in crates}
    ok = all(pp.values()) and len({norm(v) for v in pp.values()}) == 1
    items.append({"name": "packet_parser.rs x3 identical", "props": PROPS, "ok": bool(ok),
                  "detail": "" if ok else "the three packet_parser.rs copies differ (or one is missing)"})
    uni = rd(repo, "huginn-net/src/packet_parser.rs")
    ok_u = bool(uni and pp["tcp"]) and strip_comments(unified_to_crate(uni)) == strip_comments(pp["tcp"])
    items.append({"name": "huginn-net/packet_parser.rs = per-crate parser modulo slice return", "props": ["C15"], "ok": ok_u,
                  "detail": "" if ok_u else "the unified crate's parse_packet no longer matches the per-crate one"})
    # --- raw_filter.rs
    rf = {c: rd(repo, f"huginn-net-{c}/src/raw_filter.rs") for c in crates}
    ok = all(rf.values()) and len({norm(v) for v in rf.values()}) == 1
    items.append({"name": "raw_filter.rs x3 identical", "props": ["C15"], "ok": bool(ok),
                  "detail": "" if ok else "the three raw_filter.rs copies differ (or one is missing)"})
    # --- packet_hash.rs: shared Ethernet test
    ph = {c: rd(repo, f"huginn-net-{c}/src/packet_hash.rs") for c in crates}
    tests = set()
    for c in crates:
        m = re.search(r"let ip_start: usize = (if .*?\{\s*14\s*\} else \{\s*0[^}]*\});", ph[c] or "", re.S)
        tests.add(strip_comments(m.group(1)) if m else f"missing-{c}")
    ok = len(tests) == 1 and not any(t.startswith("missing") for t in tests)
    items.append({"name": "packet_hash.rs x3 share the Ethernet test", "props": ["C18"], "ok": ok,
                  "detail": "" if ok else f"ip_start computation differs between the hashers: {sorted(tests)[:3]}"})

    # --- constants the model mirrors
    p = pp["tcp"] or ""
    r = rf["tcp"] or ""
    vals = {}
    m = const(r"fn try_ethernet_format.*?packet\.len\(\) < (\d+).*?&packet\[(\d+)\.\.\]", p, "parser: ethernet header 14", items, PROPS)
    vals["ppEthMin"], vals["ppEthOff"] = (m.group(1), m.group(2)) if m else (0, 0)
    m = const(r"fn try_raw_ip_format.*?packet\.len\(\) < (\d+)", p, "parser: raw min 20", items, PROPS)
    vals["ppRawMin"] = m.group(1) if m else 0
    m = const(r"fn try_null_datalink_format.*?packet\.len\(\) < (\d+) \|\| packet\[0\] != (0x[0-9a-fA-F]+) \|\| packet\[1\] != (0x[0-9a-fA-F]+).*?&packet\[(\d+)\.\.\]", p,
              "parser: null signature 1e 00, min 24, skip 4", items, PROPS)
    vals["ppNullMin"], vals["ppNull0"], vals["ppNull1"], vals["ppNullOff"] = (m.group(1), m.group(2), m.group(3), m.group(4)) if m else (0, 0, 0, 0)
    m = const(r"fn try_null_datalink.*?match family \{\s*(\d+) => extract_ipv4_info\(&packet\[(\d+)\.\.\]\),[^\n]*\n\s*(\d+) \| (\d+) => extract_ipv6_info", r,
              "filter: null families 2 / 30|28", items, ["C15"])
    vals["rfFam4"], vals["rfNullOff"], vals["rfFam6a"], vals["rfFam6b"] = (m.group(1), m.group(2), m.group(3), m.group(4)) if m else (0, 0, 0, 0)
    m = const(r"fn try_null_datalink.*?u32::from_ne_bytes", r, "filter: native-endian family", items, ["C15"])
    m = const(r"fn extract_ipv4_info.*?packet\.len\(\) < (\d+).*?packet\[(\d+)\] != (\d+).*?packet\[0\] & 0x0F.*?saturating_mul\((\d+)\)\.max\((\d+)\).*?tcp_offset\.saturating_add\((\d+)\)", r,
              "filter: ipv4 min 20, proto at 9 = 6, max(ihl*4, 20), +4", items, ["C15"])
    vals["rfV4Min"], vals["rfV4ProtoOff"], vals["rfProto"], vals["rfIhlMul"], vals["rfIhlMin"], vals["rfPortBytes"] = m.groups() if m else (0, 0, 0, 0, 0, 0)
    m = const(r"fn try_null_datalink.*?if packet\[0\] == (0x[0-9a-fA-F]+) && packet\[1\] == (0x[0-9a-fA-F]+) && packet\.len\(\) > (\d+) \{\s*return match packet\[4\] >> 4 \{\s*4 => extract_ipv4_info\(&packet\[4\.\.\]\),\s*6 => extract_ipv6_info\(&packet\[4\.\.\]\),", r,
              "filter: loopback header 1e 00 by version nibble (before the family match)", items, ["C15"])
    vals["rfNullSig0"], vals["rfNullSig1"], vals["rfNullSigGt"] = m.groups() if m else (0, 0, 0)
    m = const(r"fn extract_ipv6_info.*?packet\.len\(\) < (\d+).*?packet\[(\d+)\] != (\d+).*?packet\.len\(\) < (\d+)", r,
              "filter: ipv6 min 40, next header at 6 = 6, 44", items, ["C15"])
    vals["rfV6Min"], vals["rfV6NhOff"], vals["rfV6Proto"], vals["rfV6Need"] = m.groups() if m else (0, 0, 0, 0)
    h = ph["tcp"] or ""
    m = const(r"packet\.len\(\) > (\d+)\s*&& \(\(packet\[(\d+)\] == (0x[0-9a-fA-F]+) && packet\[(\d+)\] == (0x[0-9a-fA-F]+)\)\s*\|\| \(packet\[\d+\] == (0x[0-9a-fA-F]+) && packet\[\d+\] == (0x[0-9a-fA-F]+)\)\)", h,
              "hash: ethernet test len > 14, bytes 12/13 in {0800, 86DD}", items, ["C18"])
    vals["phEthGt"] = m.group(1) if m else 0
    vals["phEthType4"] = (int(m.group(3), 16) * 256 + int(m.group(5), 16)) if m else 0
    vals["phEthType6"] = (int(m.group(6), 16) * 256 + int(m.group(7), 16)) if m else 0
    m = const(r"ip_start\.saturating_add\((\d+)\)", h, "hash(tcp): min length ip_start + 20", items, ["C18"])
    vals["phTcpMin"] = m.group(1) if m else 0
    for c in ("http", "tls"):
        m = const(r"ip_start\.saturating_add\((\d+)\)", ph[c] or "", f"hash({c}): min length ip_start + 40", items, ["C18"])
        vals[f"ph{c.capitalize()}Min"] = m.group(1) if m else 0
    for c in ("http", "tls"):
        m = const(r"let ip_header_len = ihl\.saturating_mul\((\d+)\)\.max\((\d+)\);", ph[c] or "", f"hash({c}): ports at max(ihl*4, 20)", items, ["C18"])
        vals[f"ph{c.capitalize()}IhlMul"], vals[f"ph{c.capitalize()}IhlMin"] = m.groups() if m else (0, 0)
    m = const(r"let \(lo, hi\) = if \(src_ip, src_port\) <= \(dst_ip, dst_port\)", ph["http"] or "", "hash(http): canonical endpoint order", items, ["C18"])

    def n(x):
        return int(str(x), 0)
    lines = ["/- generated by extract/ex_wire.py from /repo — do not edit -/", "namespace Huginn.Gen.Wire", ""]
    for k in sorted(vals):
        lines.append(f"def {k} : Nat := {n(vals[k])}")
    lines += ["", "end Huginn.Gen.Wire", ""]
    write_if_changed(os.path.join(gen_dir, "Wire.lean"), "\n".join(lines))
    return items
