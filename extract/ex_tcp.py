"""C03 (also C13): constants and small tables of the TCP signature extractor -> Gen/TcpConst.lean.

ttl.rs            MAX_HOPS_ACCEPTABLE, the `ttl > N { M.saturating_sub(ttl) }` bands of guess_distance
window_size.rs    MIN_TCP4/6, ETH_MTU, TS_SIZE, MAX_MULTIPLIER, `modulos`, the `mss < N` guard
tcp_process.rs    IP_TOS_CE/ECT, IP4_MBZ, the `shift > N` guard, the port heuristic bound, option-kind arms,
                  the size table of options_malformed and the place of the `bad` push
mtu.rs            the `> 20` / `saturating_sub(20)` / `saturating_mul(4)` literals (both functions)
ip_options.rs     `ihl > 5`, `saturating_sub(5)`, `saturating_mul(4)`
p0f.fp            the [mtu] section as (label, [values]) in file order
"""
import os, re
from extract import write_if_changed

PROPS = ["C03"]


def rd(repo, rel):
    p = os.path.join(repo, rel)
    return open(p).read() if os.path.exists(p) else ""


def const(src, name):
    m = re.search(r"const\s+%s\s*:\s*\w+\s*=\s*(0b[01_]+|0x[0-9a-fA-F_]+|\d[\d_]*)\s*;" % re.escape(name), src)
    if not m:
        return None
    return int(m.group(1).replace("_", ""), 0)


def fn_body(src, name):
    m = re.search(r"fn\s+%s\s*(<[^>]*>)?\s*\(" % re.escape(name), src)
    if not m:
        return None
    i = src.find("{", m.end())
    if i < 0:
        return None
    depth, j = 0, i
    while j < len(src):
        if src[j] == "{":
            depth += 1
        elif src[j] == "}":
            depth -= 1
            if depth == 0:
                return src[i:j + 1]
        j += 1
    return None


def run(repo, gen_dir):
    items = []
    defs = []

    def item(name, val, detail=""):
        ok = val is not None
        items.append({"name": name, "props": PROPS, "ok": ok, "detail": "" if ok else (detail or "not found")})
        return ok

    # ---- ttl.rs
    ttl = rd(repo, "huginn-net-tcp/src/ttl.rs")
    v = const(ttl, "MAX_HOPS_ACCEPTABLE")
    item("ttl.rs MAX_HOPS_ACCEPTABLE", v)
    defs.append(f"def maxHops : Nat := {v if v is not None else 0}")
    gd = fn_body(ttl, "guess_distance") or ""
    bands = re.findall(r"ttl\s*>\s*(\d+)\s*\{\s*(\d+)u8\.saturating_sub\(ttl\)", gd)
    last = re.search(r"else\s*\{\s*(\d+)u8\.saturating_sub\(ttl\)\s*\}", gd)
    ok = len(bands) >= 1 and last is not None
    item("ttl.rs guess_distance bands", True if ok else None)
    defs.append("/-- `(lower, initial)`: `ttl > lower` selects `initial`, tried in this order. -/")
    defs.append("def ttlBands : List (Nat × Nat) := [" + ", ".join(f"({a}, {b})" for a, b in bands) + "]")
    defs.append(f"def ttlLastInit : Nat := {last.group(1) if last else 0}")

    # ---- window_size.rs
    ws = rd(repo, "huginn-net-tcp/src/window_size.rs")
    for rust, lean in [("MIN_TCP4", "minTcp4"), ("MIN_TCP6", "minTcp6"), ("ETH_MTU", "ethMtu"),
                       ("TS_SIZE", "tsSize"), ("MAX_MULTIPLIER", "maxMultiplier")]:
        v = const(ws, rust)
        item(f"window_size.rs {rust}", v)
        defs.append(f"def {lean} : Nat := {v if v is not None else 0}")
    m = re.search(r"let\s+modulos\s*=\s*\[([^\]]*)\]", ws)
    mods = [int(x) for x in re.findall(r"\d+", m.group(1))] if m else None
    item("window_size.rs modulos", mods)
    rev = ".iter().rev()" in ws
    item("window_size.rs modulos iterated in reverse", True if rev else None)
    defs.append("/-- in the order the code tries them (the array reversed) -/")
    defs.append("def modulos : List Nat := [" + ", ".join(str(x) for x in (list(reversed(mods)) if (mods and rev) else (mods or []))) + "]")
    m = re.search(r"window_size\s*==\s*0\s*\|\|\s*mss\s*<\s*(\d+)", ws)
    item("window_size.rs mss guard", m)
    defs.append(f"def minMss : Nat := {m.group(1) if m else 0}")

    # ---- tcp_process.rs
    tp = rd(repo, "huginn-net-tcp/src/tcp_process.rs")
    for rust, lean in [("IP_TOS_CE", "ipTosCe"), ("IP_TOS_ECT", "ipTosEct"), ("IP4_MBZ", "ip4Mbz")]:
        v = const(tp, rust)
        item(f"tcp_process.rs {rust}", v)
        defs.append(f"def {lean} : Nat := {v if v is not None else 0}")
    m = re.search(r"shift\s*>\s*(\d+)", tp)
    item("tcp_process.rs excessive window scaling guard", m)
    defs.append(f"def maxWscale : Nat := {m.group(1) if m else 0}")
    m = re.search(r"src_port\s*>\s*(\d+)\s*&&\s*dst_port\s*<=\s*(\d+)", tp)
    item("tcp_process.rs port heuristic", m)
    defs.append(f"def portHeurSrcGt : Nat := {m.group(1) if m else 0}")
    defs.append(f"def portHeurDstLe : Nat := {m.group(2) if m else 0}")
    # option-kind arms of visit_tcp, in source order: pnet constant name -> TcpOption variant pushed
    vt = fn_body(tp, "visit_tcp") or ""
    arms = re.findall(r"\b([A-Z_]+)\s*=>\s*\{\s*olayout\.push\(TcpOption::(\w+)", vt)
    item("tcp_process.rs option-kind arms", arms if arms else None)
    pn = {"EOL": 0, "NOP": 1, "MSS": 2, "WSCALE": 3, "SACK_PERMITTED": 4, "SACK": 5, "TIMESTAMPS": 8}
    defs.append("/-- `(option kind number, variant name)` of the named arms of the option `match` -/")
    defs.append("def optionArms : List (Nat × String) := [" +
                ", ".join(f'({pn.get(a, 999)}, "{b}")' for a, b in arms) + "]")
    # options_malformed: the size each fixed-format option must have (`MSS => len == 4`, `SACK => matches!(len, 10 | ..)`),
    # the minimum for every other kind (`_ => len >= 2`), and where visit_tcp pushes the quirk (after the option loop)
    om = fn_body(tp, "options_malformed") or ""
    sizes = []
    for name, rhs in re.findall(r"\b([A-Z_]+)\s*=>\s*(len\s*==\s*\d+|matches!\(len,[^)]*\))\s*,", om):
        sizes.append((pn.get(name, 999), [int(x) for x in re.findall(r"\d+", rhs)]))
    mn = re.search(r"_\s*=>\s*len\s*>=\s*(\d+)", om)
    shape = all(x in om for x in ["EOL => return false", "NOP => buf = rest", "rest.first()", "buf.get(len..)"])
    item("tcp_process.rs options_malformed size table", sizes if (sizes and mn and shape) else None)
    defs.append("/-- `(option kind, admissible values of the length byte)` of `options_malformed` -/")
    defs.append("def optionSizes : List (Nat × List Nat) := [" +
                ", ".join("(%d, [%s])" % (k, ", ".join(map(str, v))) for k, v in sizes) + "]")
    defs.append(f"def optionMinLen : Nat := {mn.group(1) if mn else 0}")
    loop_end = vt.find("olayout.push(TcpOption::Unknown")
    push = vt.find("if options_malformed(tcp.get_options_raw()) {\n        quirks.push(Quirk::OptBad);")
    item("tcp_process.rs bad quirk pushed once, after the option loop",
         True if (loop_end >= 0 and push > loop_end and vt.count("Quirk::OptBad") == 1) else None)
    # quirk conditions use these pnet flag constants; record the flag masks used by is_valid / roles
    flags_ok = all(x in tp for x in ["tcp_flags & SYN != 0 && tcp_flags & ACK == 0",
                                     "tcp_flags & SYN != 0 && tcp_flags & ACK != 0"])
    item("tcp_process.rs from_client/from_server shape", True if flags_ok else None)

    # ---- mtu.rs
    mt = rd(repo, "huginn-net-tcp/src/mtu.rs")
    for fn, lean in [("extract_from_ipv4", "mtu4"), ("extract_from_ipv6", "mtu6")]:
        b = fn_body(mt, fn) or ""
        g = re.search(r"tcp_header_len\s*>\s*(\d+)", b)
        s = re.search(r"tcp_header_len\.saturating_sub\((\d+)\)", b)
        mul = re.search(r"get_data_offset\(\)\s*as\s*u16\)\.saturating_mul\((\d+)\)", b)
        ipmul = re.search(r"ipv4_header_len\s*as\s*u16\)\.saturating_mul\((\d+)\)", b)
        ok = g and s and mul and (ipmul or fn.endswith("6"))
        item(f"mtu.rs {fn} literals", True if ok else None)
        defs.append(f"def {lean}TcpGuard : Nat := {g.group(1) if g else 0}")
        defs.append(f"def {lean}TcpSub : Nat := {s.group(1) if s else 0}")
        defs.append(f"def {lean}DoffMul : Nat := {mul.group(1) if mul else 0}")
        if fn.endswith("4"):
            defs.append(f"def {lean}IhlMul : Nat := {ipmul.group(1) if ipmul else 0}")
    m = re.search(r"ip_package_header_length:\s*u8\s*=\s*(\d+)\s*;", tp)
    item("tcp_process.rs IPv6 header length literal", m)
    defs.append(f"def ipv6HdrLen : Nat := {m.group(1) if m else 0}")

    # ---- ip_options.rs
    io = rd(repo, "huginn-net-tcp/src/ip_options.rs")
    b = fn_body(io, "calculate_ipv4_length") or ""
    g = re.search(r"ihl\s*>\s*(\d+)", b)
    s = re.search(r"ihl\.saturating_sub\((\d+)\)\.saturating_mul\((\d+)\)", b)
    item("ip_options.rs calculate_ipv4_length literals", True if (g and s) else None)
    defs.append(f"def ihlGuard : Nat := {g.group(1) if g else 0}")
    defs.append(f"def ihlSub : Nat := {s.group(1) if s else 0}")
    defs.append(f"def ihlMul : Nat := {s.group(2) if s else 0}")

    # ---- p0f.fp [mtu]
    fp = rd(repo, "huginn-net-db/config/p0f.fp")
    table, cur, insec = [], None, False
    for line in fp.split("\n"):
        t = line.strip()
        if t.startswith("["):
            insec = t.startswith("[mtu]")
            continue
        if not insec or not t or t.startswith(";"):
            continue
        m1 = re.match(r"label\s*=\s*(.*)$", t)
        m2 = re.match(r"sig\s*=\s*(\d+)\s*$", t)
        if m1:
            cur = [m1.group(1).strip(), []]
            table.append(cur)
        elif m2 and cur is not None:
            cur[1].append(int(m2.group(1)))
    item("p0f.fp [mtu] section", table if table else None)
    defs.append("/-- the `[mtu]` section of the bundled database, in file order -/")
    defs.append("def mtuTable : List (String × List Nat) := [\n  " +
                ",\n  ".join('("%s", [%s])' % (l.replace('"', '\\"'), ", ".join(map(str, vs))) for l, vs in table) + "]")

    src = "/- GENERATED by extract/ex_tcp.py from the Rust sources — do not edit. -/\nnamespace Huginn.Gen.TcpConst\n\n"
    src += "\n".join(defs) + "\n\nend Huginn.Gen.TcpConst\n"
    write_if_changed(os.path.join(gen_dir, "TcpConst.lean"), src)
    return items
