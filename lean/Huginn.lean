import Huginn.Model.Filter
import Huginn.Spec.Filter
