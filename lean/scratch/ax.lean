import Huginn.Props.C15
#print axioms Huginn.Props.C15.agree_iff
#print axioms Huginn.Props.C15.filter_commutes_partial
#print axioms Huginn.Props.C15.kf_ihlBelow5_witness
#print axioms Huginn.Props.C15.full_statement_fails
#print axioms Huginn.Props.C15.no_result_for_rejected
