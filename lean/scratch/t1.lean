import Huginn.Spec.Wire
namespace Huginn.Props.C15
open Huginn.Wire Huginn.Wire.Spec Huginn.Filter

theorem filter_commutes_of_agreeFor {σ ρ} (a : Analyzer) (step : σ → Bytes → σ × Option ρ)
    (hI : Inert a step) (c : Config) (s₀ : σ) (tr : List Bytes)
    (h : ∀ p ∈ tr, AgreeFor a c p) : Commutes a step c s₀ tr := by
  unfold Commutes
  induction tr generalizing s₀ with
  | nil => simp [run, results]
  | cons p tr ih =>
    have hp := h p (by simp)
    have ih' := fun s => ih s (fun q hq => h q (by simp [hq]))
    cases hep : analyzerEndpoints a p with
    | none =>
      have hs := hI s₀ p hep
      have hadm : ownAdmits a c p = true := by simp [ownAdmits, hep]
      simp only [List.filter_cons, hadm, if_true, run, stepFiltered]
      by_cases hap : rawFilterApply c p = true
      · simp [hap, hs, results] at *
        exact ih' s₀
      · simp [hap, hs, results] at *
        exact ih' s₀
    | some e =>
      have hag : rawFilterApply c p = ownAdmits a c p := by
        rcases hp with hp | hp
        · simp [hep] at hp
        · exact hp
      by_cases hadm : ownAdmits a c p = true
      · simp only [List.filter_cons, hadm, if_true, run, stepFiltered, hag]
        have := ih' (step s₀ p).1
        simp only [results] at this ⊢
        cases (step s₀ p).2 <;> simp [this]
      · have hadm' : ownAdmits a c p = false := by simpa using hadm
        simp only [List.filter_cons, hadm', run, stepFiltered, hag]
        have := ih' s₀
        simp only [results] at this ⊢
        simp [this]
end Huginn.Props.C15
