import Huginn.Spec.Wire
namespace Huginn.Wire
open Huginn.Wire.Spec

theorem byte_lt (b : Bytes) (i : Nat) : byte b i < 256 := by
  unfold byte; exact UInt8.toNat_lt _

theorem byte_drop (b : Bytes) (k i : Nat) : byte (b.drop k) i = byte b (k + i) := by
  unfold byte
  simp [List.getD_eq_getElem?_getD, List.getElem?_drop]

theorem byte_take_drop (b : Bytes) (e s i : Nat) (h : s + i < e) :
    byte ((b.take e).drop s) i = byte b (s + i) := by
  unfold byte
  simp [List.getD_eq_getElem?_getD, List.getElem?_drop, List.getElem?_take, h]

theorem be16_drop (b : Bytes) (k i : Nat) : be16 (b.drop k) i = be16 b (k + i) := by
  unfold be16; rw [byte_drop, byte_drop]; rfl

theorem be16_take_drop (b : Bytes) (e s i : Nat) (h : s + i + 1 < e) :
    be16 ((b.take e).drop s) i = be16 b (s + i) := by
  unfold be16
  rw [byte_take_drop _ _ _ _ (by omega), byte_take_drop _ _ _ _ (by omega)]; rfl

theorem v4Payload_length (ip : Bytes) :
    (v4Payload ip).length =
      min (v4PayloadStart ip + (v4TotalLen ip - v4Ihl ip * 4)) ip.length - v4PayloadStart ip := by
  unfold v4Payload
  split
  · simp; omega
  · simp

theorem v4Payload_be16 (ip : Bytes) (i : Nat) (h : i + 1 < (v4Payload ip).length) :
    be16 (v4Payload ip) i = be16 ip (v4PayloadStart ip + i) := by
  have hl := v4Payload_length ip
  unfold v4Payload at h ⊢
  split
  · rename_i hle; simp [hle] at h
  · rename_i hle
    simp [hle] at h
    apply be16_take_drop
    omega

theorem v6Payload_length (ip : Bytes) :
    (v6Payload ip).length = min (40 + v6PayloadLen ip) ip.length - 40 := by
  unfold v6Payload
  split
  · simp; omega
  · simp

theorem v6Payload_be16 (ip : Bytes) (i : Nat) (h : i + 1 < (v6Payload ip).length) :
    be16 (v6Payload ip) i = be16 ip (40 + i) := by
  unfold v6Payload at h ⊢
  split
  · rename_i hle; simp [hle] at h
  · rename_i hle
    simp [hle] at h
    apply be16_take_drop
    omega

theorem v4Ihl_lt (ip : Bytes) : v4Ihl ip < 16 := by unfold v4Ihl; omega

/-- What the quick decoder finds in an IPv4 packet the analyzer accepts. -/
theorem extractV4_of_view (ip : Bytes) (hproto : v4Proto ip = 6) (hpl : 20 ≤ (v4Payload ip).length) :
    extractV4 ip = some ⟨.v4, slice ip 12 4, slice ip 16 4,
      be16 ip (v4Ihl ip * 4), be16 ip (v4Ihl ip * 4 + 2)⟩ := by
  have hl := v4Payload_length ip
  have := v4Ihl_lt ip
  unfold v4PayloadStart at hl
  unfold v4Proto at hproto
  unfold extractV4
  rw [if_neg (by omega), if_neg (by omega), if_neg (by omega)]

theorem extractV6_of_view (ip : Bytes) (hproto : v6NextHeader ip = 6) (hpl : 20 ≤ (v6Payload ip).length) :
    extractV6 ip = some ⟨.v6, slice ip 8 16, slice ip 24 16, be16 ip 40, be16 ip 42⟩ := by
  have hl := v6Payload_length ip
  unfold v6NextHeader at hproto
  unfold extractV6
  rw [if_neg (by omega), if_neg (by omega), if_neg (by omega)]

theorem extractV4_ver (ip : Bytes) (e : Ep) (h : extractV4 ip = some e) : e.ver = .v4 := by
  unfold extractV4 at h
  split at h; · simp at h
  split at h; · simp at h
  split at h; · simp at h
  simp at h; rw [← h]

theorem extractV6_ver (ip : Bytes) (e : Ep) (h : extractV6 ip = some e) : e.ver = .v6 := by
  unfold extractV6 at h
  split at h; · simp at h
  split at h; · simp at h
  split at h; · simp at h
  simp at h; rw [← h]

/-- If the parser does not take the Ethernet strategy, neither does the filter. -/
theorem rfEthernet_none (p : Bytes) (h : tryEthernet p = none) : rfEthernet p = none := by
  unfold tryEthernet at h
  unfold rfEthernet
  split at h
  · rename_i h14; simp [h14]
  · rename_i h14
    rw [if_neg h14]
    split at h
    · rename_i h8
      rw [if_pos h8]
      split at h
      · simp at h
      · rename_i hlen; unfold extractV4; rw [if_pos (by omega)]
    · rename_i h8
      rw [if_neg h8]
      split at h
      · rename_i h6
        rw [if_pos h6]
        split at h
        · simp at h
        · rename_i hlen; unfold extractV6; rw [if_pos (by omega)]
      · rename_i h6; rw [if_neg h6]

theorem parse_cases (p : Bytes) (l : Located) (h : parsePacket p = some l) :
    tryEthernet p = some l ∨ (tryEthernet p = none ∧ tryRawIp p = some l) ∨
    (tryEthernet p = none ∧ tryRawIp p = none ∧ tryNull p = some l) := by
  unfold parsePacket at h
  split at h
  · left; simp_all
  · split at h
    · right; left; simp_all
    · right; right; simp_all

theorem tryEthernet_some (p : Bytes) (l : Located) (h : tryEthernet p = some l) :
    14 ≤ p.length ∧
    ((l = ⟨.eth, .v4, p.drop 14⟩ ∧ be16 p 12 = 0x0800) ∨
     (l = ⟨.eth, .v6, p.drop 14⟩ ∧ be16 p 12 ≠ 0x0800 ∧ be16 p 12 = 0x86DD)) := by
  unfold tryEthernet at h
  split at h; · simp at h
  rename_i h14
  refine ⟨by omega, ?_⟩
  split at h
  · rename_i h8
    split at h
    · left; simp at h; exact ⟨h.symm, h8⟩
    · simp at h
  · rename_i h8
    split at h
    · rename_i h6
      split at h
      · right; simp at h; exact ⟨h.symm, h8, h6⟩
      · simp at h
    · simp at h

theorem tryRawIp_some (p : Bytes) (l : Located) (h : tryRawIp p = some l) :
    20 ≤ p.length ∧
    ((l = ⟨.raw, .v4, p⟩ ∧ byte p 0 / 16 = 4) ∨
     (l = ⟨.raw, .v6, p⟩ ∧ byte p 0 / 16 ≠ 4 ∧ byte p 0 / 16 = 6)) := by
  unfold tryRawIp at h
  split at h; · simp at h
  rename_i h20
  refine ⟨by omega, ?_⟩
  split at h
  · rename_i h4; left; simp at h; exact ⟨h.symm, h4⟩
  · rename_i h4
    split at h
    · rename_i h6
      split at h
      · right; simp at h; exact ⟨h.symm, h4, h6⟩
      · simp at h
    · simp at h

theorem tryNull_some (p : Bytes) (l : Located) (h : tryNull p = some l) :
    24 ≤ p.length ∧ byte p 0 = 0x1e ∧ byte p 1 = 0 ∧
    (l = ⟨.null, .v4, p.drop 4⟩ ∨ l = ⟨.null, .v6, p.drop 4⟩) := by
  unfold tryNull at h
  split at h; · simp at h
  rename_i hc
  refine ⟨by omega, by omega, by omega, ?_⟩
  split at h
  · left; simp at h; exact h.symm
  · split at h
    · split at h
      · right; simp at h; exact h.symm
      · simp at h
    · simp at h

theorem View.ep_v4 (ip : Bytes) (fr : Framing) (hpl : 20 ≤ (v4Payload ip).length) :
    (View.mk ⟨fr, .v4, ip⟩ (v4Payload ip)).ep =
      ⟨.v4, slice ip 12 4, slice ip 16 4, be16 ip (v4PayloadStart ip), be16 ip (v4PayloadStart ip + 2)⟩ := by
  simp [View.ep, Located.src, Located.dst, tcpSrcPort, tcpDstPort,
    v4Payload_be16 ip 0 (by omega), v4Payload_be16 ip 2 (by omega)]

theorem View.ep_v6 (ip : Bytes) (fr : Framing) (hpl : 20 ≤ (v6Payload ip).length) :
    (View.mk ⟨fr, .v6, ip⟩ (v6Payload ip)).ep =
      ⟨.v6, slice ip 8 16, slice ip 24 16, be16 ip 40, be16 ip 42⟩ := by
  simp [View.ep, Located.src, Located.dst, tcpSrcPort, tcpDstPort,
    v6Payload_be16 ip 0 (by omega), v6Payload_be16 ip 2 (by omega)]

/-- ports found by the two decoders in an accepted IPv4 packet coincide iff … -/
theorem v4_ports_iff (ip : Bytes) :
    ((⟨.v4, slice ip 12 4, slice ip 16 4, be16 ip (v4Ihl ip * 4), be16 ip (v4Ihl ip * 4 + 2)⟩ : Ep) =
      ⟨.v4, slice ip 12 4, slice ip 16 4, be16 ip (v4PayloadStart ip), be16 ip (v4PayloadStart ip + 2)⟩) ↔
    (5 ≤ v4Ihl ip ∨ portsAt ip (v4Ihl ip * 4) = portsAt ip 20) := by
  unfold v4PayloadStart portsAt
  by_cases h : 5 ≤ v4Ihl ip
  · have : 20 + (v4Ihl ip * 4 - 20) = v4Ihl ip * 4 := by omega
    simp [h, this]
  · have : 20 + (v4Ihl ip * 4 - 20) = 20 := by omega
    simp [h, this]

theorem baseView_some (p : Bytes) (v : View) (h : baseView p = some v) :
    ∃ l, parsePacket p = some l ∧ l.proto = 6 ∧ 20 ≤ l.payload.length ∧ v = ⟨l, l.payload⟩ := by
  unfold baseView at h
  split at h; · simp at h
  rename_i l hl
  split at h; · simp at h
  split at h; · simp at h
  simp at h
  exact ⟨l, hl, by omega, by omega, h.symm⟩

/-- **Core of C15**: on a frame the analyzers accept, the filter's quick decoder finds the
analyzer's endpoints exactly in the cases listed by `AgreesView`. -/
theorem extract_eq_iff (p : Bytes) (v : View) (hb : baseView p = some v) :
    rawFilterExtract p = some v.ep ↔ AgreesView p v := by
  obtain ⟨l, hl, hproto, hpl, rfl⟩ := baseView_some p v hb
  rcases parse_cases p l hl with he | ⟨he, hr⟩ | ⟨he, hr, hn⟩
  · -- Ethernet
    obtain ⟨h14, ⟨rfl, h8⟩ | ⟨rfl, h8, h6⟩⟩ := tryEthernet_some p l he
    · simp only [Located.proto, Located.payload] at hproto hpl
      have hx := extractV4_of_view _ hproto hpl
      have : rawFilterExtract p = extractV4 (p.drop 14) := by
        unfold rawFilterExtract rfEthernet
        rw [if_neg (by omega), if_pos h8, hx]
      rw [this, hx]
      simp only [Located.payload, View.ep_v4 _ _ hpl, AgreesView]
      rw [Option.some.injEq, v4_ports_iff]
    · simp only [Located.proto, Located.payload] at hproto hpl
      have hx := extractV6_of_view _ hproto hpl
      have : rawFilterExtract p = extractV6 (p.drop 14) := by
        unfold rawFilterExtract rfEthernet
        rw [if_neg (by omega), if_neg h8, if_pos h6, hx]
      rw [this, hx]
      simp [Located.payload, View.ep_v6 _ _ hpl, AgreesView]
  · -- raw IP
    have hre := rfEthernet_none p he
    obtain ⟨h20, ⟨rfl, h4⟩ | ⟨rfl, h4, h6⟩⟩ := tryRawIp_some p l hr
    · simp only [Located.proto, Located.payload] at hproto hpl
      have hx := extractV4_of_view _ hproto hpl
      have : rawFilterExtract p = extractV4 p := by
        unfold rawFilterExtract rfRawIp
        rw [hre]; simp only []
        rw [if_neg (by omega), if_pos h4, hx]
      rw [this, hx]
      simp only [Located.payload, View.ep_v4 _ _ hpl, AgreesView]
      rw [Option.some.injEq, v4_ports_iff]
    · simp only [Located.proto, Located.payload] at hproto hpl
      have hx := extractV6_of_view _ hproto hpl
      have : rawFilterExtract p = extractV6 p := by
        unfold rawFilterExtract rfRawIp
        rw [hre]; simp only []
        rw [if_neg (by omega), if_neg h4, if_pos h6, hx]
      rw [this, hx]
      simp [Located.payload, View.ep_v6 _ _ hpl, AgreesView]
  · -- NULL / loopback
    have hre := rfEthernet_none p he
    obtain ⟨h24, hb0, hb1, hl⟩ := tryNull_some p l hn
    have hrr : rfRawIp p = none := by
      unfold rfRawIp
      rw [if_neg (by omega), if_neg (by omega), if_neg (by omega)]
    have hrf : rawFilterExtract p = rfNull p := by
      unfold rawFilterExtract; rw [hre, hrr]
    have b2 := byte_lt p 2
    have b3 := byte_lt p 3
    rcases hl with rfl | rfl
    · -- IPv4 behind `1e 00`: the filter can only come up with IPv6 endpoints, or nothing
      simp only [AgreesView, iff_false]
      rw [hrf]
      unfold rfNull nullFamily
      rw [if_neg (by omega), if_neg (by omega)]
      split
      · intro h
        have := extractV6_ver _ _ h
        simp [View.ep] at this
      · simp
    · simp only [Located.proto, Located.payload] at hproto hpl
      have hx := extractV6_of_view _ hproto hpl
      simp only [AgreesView, Located.payload, View.ep_v6 _ _ hpl]
      rw [hrf]
      unfold rfNull nullFamily
      rw [if_neg (by omega), if_neg (by omega)]
      by_cases hz : byte p 2 = 0 ∧ byte p 3 = 0
      · rw [if_pos (by omega), hx]; simp [hz]
      · rw [if_neg (by omega)]; simp [hz]
end Huginn.Wire
