import Huginn.Spec.Wire
namespace Huginn.Wire
open Huginn.Wire.Spec

theorem byte_lt (b : Bytes) (i : Nat) : byte b i < 256 := by
  unfold byte; exact UInt8.toNat_lt _

theorem byte_drop (b : Bytes) (k i : Nat) : byte (b.drop k) i = byte b (k + i) := by
  unfold byte
  simp [List.getD_eq_getElem?_getD, List.getElem?_drop]

theorem byte_take_drop (b : Bytes) (e s i : Nat) (h : s + i < e) :
    byte ((b.take e).drop s) i = byte b (s + i) := by
  unfold byte
  simp [List.getD_eq_getElem?_getD, List.getElem?_drop, List.getElem?_take, h]

theorem be16_drop (b : Bytes) (k i : Nat) : be16 (b.drop k) i = be16 b (k + i) := by
  unfold be16; rw [byte_drop, byte_drop]; rfl

theorem be16_take_drop (b : Bytes) (e s i : Nat) (h : s + i + 1 < e) :
    be16 ((b.take e).drop s) i = be16 b (s + i) := by
  unfold be16
  rw [byte_take_drop _ _ _ _ (by omega), byte_take_drop _ _ _ _ (by omega)]; rfl

theorem v4Payload_length (ip : Bytes) :
    (v4Payload ip).length =
      min (v4PayloadStart ip + (v4TotalLen ip - v4Ihl ip * 4)) ip.length - v4PayloadStart ip := by
  unfold v4Payload
  split
  · simp; omega
  · simp

theorem v4Payload_be16 (ip : Bytes) (i : Nat) (h : i + 1 < (v4Payload ip).length) :
    be16 (v4Payload ip) i = be16 ip (v4PayloadStart ip + i) := by
  have hl := v4Payload_length ip
  unfold v4Payload at h ⊢
  split
  · rename_i hle; simp [hle] at h
  · rename_i hle
    simp [hle] at h
    apply be16_take_drop
    omega
end Huginn.Wire
