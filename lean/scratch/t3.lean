import Huginn.Spec.Wire
namespace Huginn.Wire
open Huginn.Wire.Spec

theorem byte_lt (b : Bytes) (i : Nat) : byte b i < 256 := by
  unfold byte; exact UInt8.toNat_lt _

theorem byte_drop (b : Bytes) (k i : Nat) : byte (b.drop k) i = byte b (k + i) := by
  unfold byte
  simp [List.getD_eq_getElem?_getD, List.getElem?_drop]

theorem byte_take_drop (b : Bytes) (e s i : Nat) (h : s + i < e) :
    byte ((b.take e).drop s) i = byte b (s + i) := by
  unfold byte
  simp [List.getD_eq_getElem?_getD, List.getElem?_drop, List.getElem?_take, h]

theorem be16_drop (b : Bytes) (k i : Nat) : be16 (b.drop k) i = be16 b (k + i) := by
  unfold be16; rw [byte_drop, byte_drop]; rfl

theorem be16_take_drop (b : Bytes) (e s i : Nat) (h : s + i + 1 < e) :
    be16 ((b.take e).drop s) i = be16 b (s + i) := by
  unfold be16
  rw [byte_take_drop _ _ _ _ (by omega), byte_take_drop _ _ _ _ (by omega)]; rfl

theorem v4Payload_length (ip : Bytes) :
    (v4Payload ip).length =
      min (v4PayloadStart ip + (v4TotalLen ip - v4Ihl ip * 4)) ip.length - v4PayloadStart ip := by
  unfold v4Payload
  split
  · simp; omega
  · simp

theorem v4Payload_be16 (ip : Bytes) (i : Nat) (h : i + 1 < (v4Payload ip).length) :
    be16 (v4Payload ip) i = be16 ip (v4PayloadStart ip + i) := by
  have hl := v4Payload_length ip
  unfold v4Payload at h ⊢
  split
  · rename_i hle; simp [hle] at h
  · rename_i hle
    simp [hle] at h
    apply be16_take_drop
    omega

theorem v6Payload_length (ip : Bytes) :
    (v6Payload ip).length = min (40 + v6PayloadLen ip) ip.length - 40 := by
  unfold v6Payload
  split
  · simp; omega
  · simp

theorem v6Payload_be16 (ip : Bytes) (i : Nat) (h : i + 1 < (v6Payload ip).length) :
    be16 (v6Payload ip) i = be16 ip (40 + i) := by
  unfold v6Payload at h ⊢
  split
  · rename_i hle; simp [hle] at h
  · rename_i hle
    simp [hle] at h
    apply be16_take_drop
    omega

theorem v4Ihl_lt (ip : Bytes) : v4Ihl ip < 16 := by unfold v4Ihl; omega

/-- What the quick decoder finds in an IPv4 packet the analyzer accepts. -/
theorem extractV4_of_view (ip : Bytes) (hproto : v4Proto ip = 6) (hpl : 20 ≤ (v4Payload ip).length) :
    extractV4 ip = some ⟨.v4, slice ip 12 4, slice ip 16 4,
      be16 ip (v4Ihl ip * 4), be16 ip (v4Ihl ip * 4 + 2)⟩ := by
  have hl := v4Payload_length ip
  have := v4Ihl_lt ip
  unfold v4PayloadStart at hl
  unfold v4Proto at hproto
  unfold extractV4
  rw [if_neg (by omega), if_neg (by omega), if_neg (by omega)]

theorem extractV6_of_view (ip : Bytes) (hproto : v6NextHeader ip = 6) (hpl : 20 ≤ (v6Payload ip).length) :
    extractV6 ip = some ⟨.v6, slice ip 8 16, slice ip 24 16, be16 ip 40, be16 ip 42⟩ := by
  have hl := v6Payload_length ip
  unfold v6NextHeader at hproto
  unfold extractV6
  rw [if_neg (by omega), if_neg (by omega), if_neg (by omega)]

theorem extractV4_ver (ip : Bytes) (e : Ep) (h : extractV4 ip = some e) : e.ver = .v4 := by
  unfold extractV4 at h
  split at h; · simp at h
  split at h; · simp at h
  split at h; · simp at h
  simp at h; rw [← h]

theorem extractV6_ver (ip : Bytes) (e : Ep) (h : extractV6 ip = some e) : e.ver = .v6 := by
  unfold extractV6 at h
  split at h; · simp at h
  split at h; · simp at h
  split at h; · simp at h
  simp at h; rw [← h]

/-- If the parser does not take the Ethernet strategy, neither does the filter. -/
theorem rfEthernet_none (p : Bytes) (h : tryEthernet p = none) : rfEthernet p = none := by
  unfold tryEthernet at h
  unfold rfEthernet
  split at h
  · rename_i h14; simp [h14]
  · rename_i h14
    rw [if_neg h14]
    split at h
    · rename_i h8
      rw [if_pos h8]
      split at h
      · simp at h
      · rename_i hlen; unfold extractV4; rw [if_pos (by omega)]
    · rename_i h8
      rw [if_neg h8]
      split at h
      · rename_i h6
        rw [if_pos h6]
        split at h
        · simp at h
        · rename_i hlen; unfold extractV6; rw [if_pos (by omega)]
      · rename_i h6; rw [if_neg h6]
end Huginn.Wire
