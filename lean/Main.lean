import Huginn.Drv.Proto
import Huginn.Drv.All
open Huginn.Drv

def handleLine (line : String) : String :=
  match line.splitOn " => " with
  | [lhs, impl] =>
    match lhs.splitOn " " with
    | op :: toks =>
      match allHandlers.lookup op with
      | some h =>
        match (h impl).run toks with
        | some (v, []) => v.render
        | _ => badCase
      | none => badCase
    | _ => badCase
  | _ => badCase

partial def loop (hin : IO.FS.Stream) (hout : IO.FS.Stream) : IO Unit := do
  let line ← hin.getLine
  if line.isEmpty then return ()
  let l := if line.endsWith "\n" then (line.dropEnd 1).toString else line
  hout.putStrLn (handleLine l)
  loop hin hout

def main : IO Unit := do
  let hin ← IO.getStdin
  let hout ← IO.getStdout
  loop hin hout
