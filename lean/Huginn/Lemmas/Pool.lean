import Huginn.Model.Pool
set_option linter.unusedSimpArgs false
set_option linter.unusedSectionVars false
/-
Invariants of the pool semantics, for every reachable state (every schedule).
-/
namespace Huginn.Pool
variable {S Pkt Out : Type}

/-! ### sequential run over `ps ++ [p]` -/

theorem seqFinal_append (W : Worker S Pkt Out) (st : S) (ps : List Pkt) (p : Pkt) :
    seqFinal W st (ps ++ [p]) = (W.step (seqFinal W st ps) p).1 := by
  induction ps generalizing st with
  | nil => rfl
  | cons q ps ih => simp only [List.cons_append, seqFinal]; exact ih _

theorem seqOuts_append (W : Worker S Pkt Out) (st : S) (ps : List Pkt) (p : Pkt) :
    seqOuts W st (ps ++ [p]) =
      seqOuts W st ps ++ (match (W.step (seqFinal W st ps) p).2 with | some o => [(p, o)] | none => []) := by
  induction ps generalizing st with
  | nil =>
    simp only [List.nil_append, seqOuts, seqFinal]
    cases (W.step st p).2 <;> rfl
  | cons q ps ih =>
    simp only [List.cons_append, seqOuts, seqFinal]
    cases (W.step st q).2 <;> simp [ih]

theorem seqErrs_append (W : Worker S Pkt Out) (st : S) (ps : List Pkt) (p : Pkt) :
    seqErrs W st (ps ++ [p]) = seqErrs W st ps + errOf (W.step (seqFinal W st ps) p).2 := by
  induction ps generalizing st with
  | nil => simp [seqErrs, seqFinal]
  | cons q ps ih => simp only [List.cons_append, seqErrs, seqFinal, ih, Nat.add_assoc]

/-! ### the step function, case by case -/

theorem step_dispatch_none (C : Cfg Pkt) (W : Worker S Pkt Out) (s : State S Pkt Out) (p : Pkt)
    (hr : C.route p = none) :
    step C W s (.dispatch p) =
      { s with pendX := s.pendX + 1, outcomes := s.outcomes ++ [(p, .droppedUnroutable)] } := by
  simp only [step, hr]

theorem step_dispatch_queued (C : Cfg Pkt) (W : Worker S Pkt Out) (s : State S Pkt Out) (p : Pkt) (w : Nat)
    (hr : C.route p = some w) (hq : (s.queue w).length < C.qcap) :
    step C W s (.dispatch p) =
      { s with pendD := s.pendD + 1, queue := upd s.queue w (s.queue w ++ [p]),
               outcomes := s.outcomes ++ [(p, .queued w)] } := by
  simp only [step, hr, hq, if_true]

theorem step_dispatch_full (C : Cfg Pkt) (W : Worker S Pkt Out) (s : State S Pkt Out) (p : Pkt) (w : Nat)
    (hr : C.route p = some w) (hq : ¬ (s.queue w).length < C.qcap) :
    step C W s (.dispatch p) =
      { s with pendD := s.pendD + (if C.attemptCounted then 1 else 0),
               pendX := s.pendX + 1, pendW := upd s.pendW w (s.pendW w + 1),
               outcomes := s.outcomes ++ [(p, .droppedFull w)] } := by
  simp only [step, hr, hq, if_false]

theorem step_incD (C : Cfg Pkt) (W : Worker S Pkt Out) (s : State S Pkt Out) :
    step C W s .incD =
      if s.pendD = 0 then s else { s with pendD := s.pendD - 1, dispatched := s.dispatched + 1 } := rfl

theorem step_incX (C : Cfg Pkt) (W : Worker S Pkt Out) (s : State S Pkt Out) :
    step C W s .incX =
      if s.pendX = 0 then s else { s with pendX := s.pendX - 1, dropped := s.dropped + 1 } := rfl

theorem step_incW (C : Cfg Pkt) (W : Worker S Pkt Out) (s : State S Pkt Out) (w : Nat) :
    step C W s (.incW w) =
      if s.pendW w = 0 then s else
        { s with pendW := upd s.pendW w (s.pendW w - 1), wdropped := upd s.wdropped w (s.wdropped w + 1) } := rfl

theorem step_work_nil (C : Cfg Pkt) (W : Worker S Pkt Out) (s : State S Pkt Out) (w : Nat)
    (hq : s.queue w = []) : step C W s (.work w) = s := by
  simp only [step, hq]

theorem step_work_some (C : Cfg Pkt) (W : Worker S Pkt Out) (s : State S Pkt Out) (w : Nat) (p : Pkt)
    (rest : List Pkt) (o : Out) (hq : s.queue w = p :: rest) (hr : (W.step (s.wst w) p).2 = some o) :
    step C W s (.work w) =
      { s with queue := upd s.queue w rest, wst := upd s.wst w (W.step (s.wst w) p).1,
               processed := upd s.processed w (s.processed w ++ [p]),
               results := s.results ++ [(w, p, o)] } := by
  simp only [step, hq, hr]

theorem step_work_err (C : Cfg Pkt) (W : Worker S Pkt Out) (s : State S Pkt Out) (w : Nat) (p : Pkt)
    (rest : List Pkt) (hq : s.queue w = p :: rest) (hr : (W.step (s.wst w) p).2 = none) :
    step C W s (.work w) =
      { s with queue := upd s.queue w rest, wst := upd s.wst w (W.step (s.wst w) p).1,
               processed := upd s.processed w (s.processed w ++ [p]),
               wdropped := upd s.wdropped w (s.wdropped w + (if C.errCountsWorkerDropped then 1 else 0)),
               werrs := upd s.werrs w (s.werrs w + 1) } := by
  simp only [step, hq, hr]

/-! ### counting outcomes -/

/-! ### the three invariants -/

/-- Counters + owed increments account for exactly the outcomes returned. -/
def InvCount (C : Cfg Pkt) (s : State S Pkt Out) : Prop :=
  s.dispatched + s.pendD = nQueued s + (if C.attemptCounted then nFull s else 0) ∧
  s.dropped + s.pendX = nFull s + nUnroutable s ∧
  ∀ w, s.wdropped w + s.pendW w = nFullAt s w + (if C.errCountsWorkerDropped then s.werrs w else 0)

/-- FIFO: what a worker has processed followed by what is still queued is exactly what was
reported queued for it, in dispatch order. -/
def InvQueue (s : State S Pkt Out) : Prop :=
  ∀ w, s.processed w ++ s.queue w = queuedAt s w

/-- Each worker is a sequential analyzer over the packets it has processed. -/
def InvWorker (W : Worker S Pkt Out) (s : State S Pkt Out) : Prop :=
  ∀ w, ((s.results.filter (fun r => decide (r.1 = w))).map (·.2) = seqOuts W W.init (s.processed w)) ∧
       s.wst w = seqFinal W W.init (s.processed w) ∧
       s.werrs w = seqErrs W W.init (s.processed w)

theorem invCount_init (C : Cfg Pkt) (W : Worker S Pkt Out) : InvCount C (init W) := by
  simp [InvCount, init, nQueued, nFull, nFullAt, nUnroutable]

theorem invQueue_init (W : Worker S Pkt Out) : InvQueue (init W) := by
  simp [InvQueue, init, queuedAt]

theorem invWorker_init (W : Worker S Pkt Out) : InvWorker W (init W) := by
  simp [InvWorker, init, seqOuts, seqFinal, seqErrs]

theorem invCount_step (C : Cfg Pkt) (W : Worker S Pkt Out) (s : State S Pkt Out) (a : Step Pkt)
    (h : InvCount C s) : InvCount C (step C W s a) := by
  obtain ⟨h1, h2, h3⟩ := h
  unfold InvCount nQueued nFull nFullAt nUnroutable at *
  cases a with
  | dispatch p =>
    cases hr : C.route p with
    | none =>
      rw [step_dispatch_none C W s p hr]
      simp only [List.countP_append, List.countP_cons, List.countP_nil]
      refine ⟨by simpa using h1, by simp; omega, fun w => by simpa using h3 w⟩
    | some w =>
      by_cases hq : (s.queue w).length < C.qcap
      · rw [step_dispatch_queued C W s p w hr hq]
        simp only [List.countP_append, List.countP_cons, List.countP_nil]
        refine ⟨by simp; omega, by simpa using h2, fun w' => by simpa using h3 w'⟩
      · rw [step_dispatch_full C W s p w hr hq]
        simp only [List.countP_append, List.countP_cons, List.countP_nil]
        refine ⟨by cases hc : C.attemptCounted <;> simp [hc] at h1 ⊢ <;> omega, by simp; omega, fun w' => ?_⟩
        by_cases hw : w' = w
        · subst hw; have := h3 w'; simp [upd]; omega
        · have := h3 w'
          have hne : ¬ (Outcome.droppedFull w = Outcome.droppedFull w') := by
            intro h; injection h with h; exact hw h.symm
          simp [upd, hw, hne]; omega
  | incD =>
    rw [step_incD]
    by_cases hp : s.pendD = 0
    · rw [if_pos hp]; exact ⟨h1, h2, h3⟩
    · rw [if_neg hp]; dsimp only; exact ⟨by omega, h2, h3⟩
  | incX =>
    rw [step_incX]
    by_cases hp : s.pendX = 0
    · rw [if_pos hp]; exact ⟨h1, h2, h3⟩
    · rw [if_neg hp]; dsimp only; exact ⟨h1, by omega, h3⟩
  | incW w =>
    rw [step_incW]
    by_cases hp : s.pendW w = 0
    · rw [if_pos hp]; exact ⟨h1, h2, h3⟩
    · rw [if_neg hp]; dsimp only
      refine ⟨h1, h2, fun w' => ?_⟩
      by_cases hw : w' = w
      · subst hw; have := h3 w'; simp [upd]; omega
      · simpa [upd, hw] using h3 w'
  | work w =>
    cases hq : s.queue w with
    | nil => rw [step_work_nil C W s w hq]; exact ⟨h1, h2, h3⟩
    | cons p rest =>
      cases hr : (W.step (s.wst w) p).2 with
      | some o => rw [step_work_some C W s w p rest o hq hr]; exact ⟨h1, h2, h3⟩
      | none =>
        rw [step_work_err C W s w p rest hq hr]
        refine ⟨h1, h2, fun w' => ?_⟩
        by_cases hw : w' = w
        · subst hw; have := h3 w'; cases hc : C.errCountsWorkerDropped <;> simp [upd, hc] at this ⊢ <;> omega
        · simpa [upd, hw] using h3 w'

theorem invQueue_step (C : Cfg Pkt) (W : Worker S Pkt Out) (s : State S Pkt Out) (a : Step Pkt)
    (h : InvQueue s) : InvQueue (step C W s a) := by
  unfold InvQueue queuedAt at *
  cases a with
  | dispatch p =>
    cases hr : C.route p with
    | none =>
      rw [step_dispatch_none C W s p hr]
      intro w
      simpa [List.filterMap_append] using h w
    | some w =>
      by_cases hq : (s.queue w).length < C.qcap
      · rw [step_dispatch_queued C W s p w hr hq]
        intro w'
        have := h w'
        by_cases hw : w' = w
        · subst hw; simp [upd, ← this, List.filterMap_append, List.append_assoc]
        · have hne : ¬ (Outcome.queued w = Outcome.queued w') := by
            intro h; injection h with h; exact hw h.symm
          simp [upd, hw, hne, this, List.filterMap_append]
      · rw [step_dispatch_full C W s p w hr hq]
        intro w'
        simpa [List.filterMap_append] using h w'
  | incD =>
    rw [step_incD]
    by_cases hp : s.pendD = 0
    · rw [if_pos hp]; exact h
    · rw [if_neg hp]; exact h
  | incX =>
    rw [step_incX]
    by_cases hp : s.pendX = 0
    · rw [if_pos hp]; exact h
    · rw [if_neg hp]; exact h
  | incW w =>
    rw [step_incW]
    by_cases hp : s.pendW w = 0
    · rw [if_pos hp]; exact h
    · rw [if_neg hp]; exact h
  | work w =>
    cases hq : s.queue w with
    | nil => rw [step_work_nil C W s w hq]; exact h
    | cons p rest =>
      have key : ∀ w', (upd s.processed w (s.processed w ++ [p])) w' ++ (upd s.queue w rest) w' =
          s.outcomes.filterMap (fun x => if x.2 = .queued w' then some x.1 else none) := by
        intro w'
        by_cases hw : w' = w
        · subst hw; have := h w'; rw [hq] at this; simp [upd, ← this]
        · simpa [upd, hw] using h w'
      cases hr : (W.step (s.wst w) p).2 with
      | some o => rw [step_work_some C W s w p rest o hq hr]; exact key
      | none => rw [step_work_err C W s w p rest hq hr]; exact key

theorem invWorker_step (C : Cfg Pkt) (W : Worker S Pkt Out) (s : State S Pkt Out) (a : Step Pkt)
    (h : InvWorker W s) : InvWorker W (step C W s a) := by
  cases a with
  | dispatch p =>
    cases hr : C.route p with
    | none => rw [step_dispatch_none C W s p hr]; exact h
    | some w =>
      by_cases hq : (s.queue w).length < C.qcap
      · rw [step_dispatch_queued C W s p w hr hq]; exact h
      · rw [step_dispatch_full C W s p w hr hq]; exact h
  | incD =>
    rw [step_incD]
    by_cases hp : s.pendD = 0
    · rw [if_pos hp]; exact h
    · rw [if_neg hp]; exact h
  | incX =>
    rw [step_incX]
    by_cases hp : s.pendX = 0
    · rw [if_pos hp]; exact h
    · rw [if_neg hp]; exact h
  | incW w =>
    rw [step_incW]
    by_cases hp : s.pendW w = 0
    · rw [if_pos hp]; exact h
    · rw [if_neg hp]; exact h
  | work w =>
    cases hq : s.queue w with
    | nil => rw [step_work_nil C W s w hq]; exact h
    | cons p rest =>
      obtain ⟨hw1, hw2, hw3⟩ := h w
      cases hr : (W.step (s.wst w) p).2 with
      | some o =>
        rw [step_work_some C W s w p rest o hq hr]
        intro w'
        by_cases hw : w' = w
        · subst hw
          simp only [upd, if_true, List.filter_append, List.map_append]
          rw [seqOuts_append, seqFinal_append, seqErrs_append, ← hw2, hr, hw1, hw3]
          simp [errOf]
        · have := h w'
          have hne : ¬ w = w' := fun e => hw e.symm
          simpa [upd, hw, hne, List.filter_append] using this
      | none =>
        rw [step_work_err C W s w p rest hq hr]
        intro w'
        by_cases hw : w' = w
        · subst hw
          simp only [upd, if_true]
          rw [seqOuts_append, seqFinal_append, seqErrs_append, ← hw2, hr, hw1, hw3]
          simp [errOf]
        · simpa [upd, hw] using h w'

/-- All three invariants hold in every reachable state, i.e. under every schedule. -/
theorem inv_run (C : Cfg Pkt) (W : Worker S Pkt Out) (sched : List (Step Pkt)) (s : State S Pkt Out)
    (h : InvCount C s ∧ InvQueue s ∧ InvWorker W s) :
    InvCount C (run C W s sched) ∧ InvQueue (run C W s sched) ∧ InvWorker W (run C W s sched) := by
  induction sched generalizing s with
  | nil => exact h
  | cons a as ih =>
    exact ih _ ⟨invCount_step C W s a h.1, invQueue_step C W s a h.2.1, invWorker_step C W s a h.2.2⟩

theorem inv_reachable (C : Cfg Pkt) (W : Worker S Pkt Out) (sched : List (Step Pkt)) :
    InvCount C (run C W (init W) sched) ∧ InvQueue (run C W (init W) sched) ∧
      InvWorker W (run C W (init W) sched) :=
  inv_run C W sched _ ⟨invCount_init C W, invQueue_init W, invWorker_init W⟩

end Huginn.Pool

namespace Huginn.Pool
variable {S Pkt Out : Type}

/-- Every outcome is consistent with the routing function. -/
def InvRoute (C : Cfg Pkt) (s : State S Pkt Out) : Prop :=
  ∀ x ∈ s.outcomes, match x.2 with
    | .queued w => C.route x.1 = some w
    | .droppedFull w => C.route x.1 = some w
    | .droppedUnroutable => C.route x.1 = none

theorem invRoute_step (C : Cfg Pkt) (W : Worker S Pkt Out) (s : State S Pkt Out) (a : Step Pkt)
    (h : InvRoute C s) : InvRoute C (step C W s a) := by
  cases a with
  | dispatch p =>
    cases hr : C.route p with
    | none =>
      rw [step_dispatch_none C W s p hr]
      intro x hx
      rcases List.mem_append.1 hx with hx | hx
      · exact h x hx
      · simp at hx; subst hx; simpa using hr
    | some w =>
      by_cases hq : (s.queue w).length < C.qcap
      · rw [step_dispatch_queued C W s p w hr hq]
        intro x hx
        rcases List.mem_append.1 hx with hx | hx
        · exact h x hx
        · simp at hx; subst hx; simpa using hr
      · rw [step_dispatch_full C W s p w hr hq]
        intro x hx
        rcases List.mem_append.1 hx with hx | hx
        · exact h x hx
        · simp at hx; subst hx; simpa using hr
  | incD =>
    rw [step_incD]
    by_cases hp : s.pendD = 0
    · rw [if_pos hp]; exact h
    · rw [if_neg hp]; exact h
  | incX =>
    rw [step_incX]
    by_cases hp : s.pendX = 0
    · rw [if_pos hp]; exact h
    · rw [if_neg hp]; exact h
  | incW w =>
    rw [step_incW]
    by_cases hp : s.pendW w = 0
    · rw [if_pos hp]; exact h
    · rw [if_neg hp]; exact h
  | work w =>
    cases hq : s.queue w with
    | nil => rw [step_work_nil C W s w hq]; exact h
    | cons p rest =>
      cases hr : (W.step (s.wst w) p).2 with
      | some o => rw [step_work_some C W s w p rest o hq hr]; exact h
      | none => rw [step_work_err C W s w p rest hq hr]; exact h

theorem invRoute_reachable (C : Cfg Pkt) (W : Worker S Pkt Out) (sched : List (Step Pkt)) :
    InvRoute C (run C W (init W) sched) := by
  suffices ∀ s, InvRoute C s → InvRoute C (run C W s sched) from
    this _ (by intro x hx; simp [init] at hx)
  induction sched with
  | nil => intro s h; exact h
  | cons a as ih => intro s h; exact ih _ (invRoute_step C W s a h)

end Huginn.Pool

namespace Huginn.Pool
variable {S Pkt Out : Type}

/-! ### counting through a partition into classes `0..n-1` -/

theorem sum_zero (n : Nat) : ((List.range n).map (fun _ => (0 : Nat))).sum = 0 := by
  induction n with
  | zero => simp
  | succ n ih => simp [List.range_succ, List.sum_append, ih]

theorem sum_add (n : Nat) (A B : Nat → Nat) :
    ((List.range n).map (fun w => A w + B w)).sum = ((List.range n).map A).sum + ((List.range n).map B).sum := by
  induction n with
  | zero => simp
  | succ n ih => simp [List.range_succ, List.sum_append, ih]; omega

theorem sum_indicator (n h c : Nat) (hh : h < n) :
    ((List.range n).map (fun w => if h = w then c else 0)).sum = c := by
  induction n with
  | zero => omega
  | succ n ih =>
    simp only [List.range_succ, List.map_append, List.sum_append, List.map_cons, List.map_nil, List.sum_cons, List.sum_nil]
    by_cases hn : h = n
    · subst hn
      have : ∀ m, m ≤ h → ((List.range m).map (fun w => if h = w then c else 0)).sum = 0 := by
        intro m hm
        induction m with
        | zero => simp
        | succ m ih2 =>
          have : h ≠ m := by omega
          simp [List.range_succ, List.sum_append, ih2 (by omega), this]
      simp [this h (Nat.le_refl _)]
    · have : h < n := by omega
      simp [ih this, hn]

theorem count_partition {α β : Type} [BEq β] [LawfulBEq β] (l : List α) (f : α → Nat) (g : α → β) (n : Nat)
    (hf : ∀ x ∈ l, f x < n) (a : β) :
    (l.map g).count a =
      ((List.range n).map (fun w => ((l.filter (fun x => decide (f x = w))).map g).count a)).sum := by
  induction l with
  | nil => simp [sum_zero]
  | cons x l ih =>
    have ih' := ih (fun y hy => hf y (List.mem_cons_of_mem _ hy))
    have hx := hf x (List.mem_cons_self ..)
    have e : ∀ w, (((x :: l).filter (fun x => decide (f x = w))).map g).count a =
        (if f x = w then (if (g x == a) = true then 1 else 0) else 0) +
          ((l.filter (fun x => decide (f x = w))).map g).count a := by
      intro w
      by_cases hw : f x = w
      · by_cases hg : (g x == a) = true <;> simp [List.filter_cons, hw, hg, List.count_cons]; omega
      · simp [List.filter_cons, hw]
    simp only [e, sum_add, sum_indicator n (f x) _ hx, ← ih']
    by_cases hg : (g x == a) = true <;> simp [List.count_cons, hg]; omega

/-- Every result on the channel was produced by the worker its packet is routed to. -/
def InvTag (C : Cfg Pkt) (s : State S Pkt Out) : Prop :=
  ∀ r ∈ s.results, C.route r.2.1 = some r.1

theorem invTag_step (C : Cfg Pkt) (W : Worker S Pkt Out) (s : State S Pkt Out) (a : Step Pkt)
    (hq : InvQueue s) (hr : InvRoute C s) (h : InvTag C s) : InvTag C (step C W s a) := by
  cases a with
  | dispatch p =>
    cases hrp : C.route p with
    | none => rw [step_dispatch_none C W s p hrp]; exact h
    | some w =>
      by_cases hl : (s.queue w).length < C.qcap
      · rw [step_dispatch_queued C W s p w hrp hl]; exact h
      · rw [step_dispatch_full C W s p w hrp hl]; exact h
  | incD =>
    rw [step_incD]
    by_cases hp : s.pendD = 0
    · rw [if_pos hp]; exact h
    · rw [if_neg hp]; exact h
  | incX =>
    rw [step_incX]
    by_cases hp : s.pendX = 0
    · rw [if_pos hp]; exact h
    · rw [if_neg hp]; exact h
  | incW w =>
    rw [step_incW]
    by_cases hp : s.pendW w = 0
    · rw [if_pos hp]; exact h
    · rw [if_neg hp]; exact h
  | work w =>
    cases hqw : s.queue w with
    | nil => rw [step_work_nil C W s w hqw]; exact h
    | cons p rest =>
      cases hro : (W.step (s.wst w) p).2 with
      | none => rw [step_work_err C W s w p rest hqw hro]; exact h
      | some o =>
        rw [step_work_some C W s w p rest o hqw hro]
        intro r hmem
        rcases List.mem_append.1 hmem with hmem | hmem
        · exact h r hmem
        · simp at hmem; subst hmem
          -- p is in the queue of w, hence was reported queued at w, hence is routed to w
          have hin : p ∈ queuedAt s w := by
            rw [← hq w, hqw]; simp
          unfold queuedAt at hin
          obtain ⟨x, hx, hxe⟩ := List.mem_filterMap.1 hin
          by_cases hxq : x.2 = .queued w
          · simp [hxq] at hxe
            have := hr x hx
            rw [hxq] at this
            simpa [← hxe] using this
          · simp [hxq] at hxe

theorem invTag_reachable (C : Cfg Pkt) (W : Worker S Pkt Out) (sched : List (Step Pkt)) :
    InvTag C (run C W (init W) sched) := by
  suffices ∀ s, InvQueue s → InvRoute C s → InvTag C s →
      InvTag C (run C W s sched) from
    this _ (invQueue_init W) (by intro x hx; simp [init] at hx) (by intro r hr; simp [init] at hr)
  induction sched with
  | nil => intro s _ _ h; exact h
  | cons a as ih =>
    intro s h1 h2 h3
    exact ih _ (invQueue_step C W s a h1) (invRoute_step C W s a h2) (invTag_step C W s a h1 h2 h3)

end Huginn.Pool
