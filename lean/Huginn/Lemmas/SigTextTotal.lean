import Huginn.Model.SigTextChecked
import Huginn.Lemmas.SigTextGrammar
import Huginn.Lemmas.SigTextLoad
/-
C01 for the database text side: every parser only consumes (its rest is a suffix of its input), the
`separated_list` loops terminate without the model's fuel, numbers never wrap, the loader's loop is
bounded by the number of lines.
-/
namespace Huginn.SigText
open Huginn.Sig Huginn.SigText.Spec
set_option linter.unusedSimpArgs false

/-! ### parsers only consume -/

/-- what a parser hands on is a suffix of what it was given (nom: `&input[n..]` with `n ≤ len`) -/
def Suffix {α} (p : Parser α) : Prop := ∀ s x r, p s = some (x, r) → r <:+ s

/-- … and a proper one: at least one character was consumed -/
def Strict {α} (p : Parser α) : Prop := ∀ s x r, p s = some (x, r) → r <:+ s ∧ r.length < s.length

theorem suffix_of_eq {s t r : Str} (h : s = t ++ r) : r <:+ s := ⟨t, h.symm⟩

theorem suffix_tag (t : Str) : Suffix (tag t) := fun _ _ _ h => suffix_of_eq (tag_inv h)

theorem strict_tag {t : Str} (ht : t ≠ []) : Strict (tag t) := fun s _ r h => by
  have e := tag_inv h
  refine ⟨suffix_of_eq e, ?_⟩
  rw [e]; cases t with
  | nil => exact absurd rfl ht
  | cons a t' => simp; omega

theorem strict_comma : Strict comma := strict_tag (by simp)

theorem suffix_altTags {α} (T : List (Str × α)) : Suffix (altTags T) := fun _ _ _ h => by
  obtain ⟨t, _, e⟩ := altTags_inv h; exact suffix_of_eq e

theorem suffix_many1 (q : Char → Bool) : Suffix (many1 q) := fun _ _ _ h => suffix_of_eq (many1_inv h).1
theorem suffix_many0 (q : Char → Bool) : Suffix (many0 q) := fun _ _ _ h => suffix_of_eq (many0_inv h).1
theorem suffix_number (max : Nat) : Suffix (number max) := fun _ _ _ h => by
  obtain ⟨d, e, _⟩ := number_inv h; exact suffix_of_eq e
theorem suffix_takeUntil (c : Char) : Suffix (takeUntil c) := fun _ _ _ h => suffix_of_eq (takeUntil_inv h).1
theorem suffix_rest : Suffix rest := fun s _ r h => by
  simp only [rest, Option.some.injEq, Prod.mk.injEq] at h; rw [← h.2]; exact List.nil_suffix
theorem suffix_space0 : Suffix space0 := fun s _ r h => by
  simp only [space0, Option.some.injEq, Prod.mk.injEq] at h; rw [← h.2]; exact List.dropWhile_suffix _

theorem suffix_opt {α} {p : Parser α} (hp : Suffix p) : Suffix (opt p) := fun s o r h => by
  rcases opt_inv h with ⟨a, _, hs⟩ | ⟨_, rfl⟩
  · exact hp _ _ _ hs
  · exact List.suffix_refl _

theorem suffix_alt {α} {ps : List (Parser α)} (h : ∀ p ∈ ps, Suffix p) : Suffix (alt ps) := fun s x r ha => by
  obtain ⟨p, hp, e⟩ := alt_inv (x := (x, r)) ha
  exact h p hp _ _ _ e

theorem suffix_map {α β} {p : Parser α} (hp : Suffix p) (f : α × Str → β × Str) (hf : ∀ y, (f y).2 = y.2) :
    Suffix (fun s => (p s).map f) := fun s x r h => by
  simp only [Option.map_eq_some_iff] at h
  obtain ⟨⟨a, r'⟩, hs, e⟩ := h
  have := hf (a, r'); rw [e] at this; simp only at this; subst this
  exact hp _ _ _ hs

/-- the loop of `separated_list` hands on a suffix -/
theorem suffix_sepLoop {α} {sep : Parser Unit} {p : Parser α} (hs : Suffix sep) (hp : Suffix p) (fuel : Nat) :
    Suffix (sepLoop sep p fuel) := by
  induction fuel with
  | zero => intro s x r h; simp [sepLoop] at h; rw [← h.2]; exact List.suffix_refl _
  | succ f ih =>
    intro s x r h
    unfold sepLoop at h
    cases hc : sep s with
    | none => simp [hc] at h; rw [← h.2]; exact List.suffix_refl _
    | some y =>
      obtain ⟨u, s1⟩ := y
      simp only [hc] at h
      cases hq : p s1 with
      | none => simp [hq] at h; rw [← h.2]; exact List.suffix_refl _
      | some z =>
        obtain ⟨o, s2⟩ := z
        simp only [hq] at h
        split at h
        · cases h
        · cases hl : sepLoop sep p f s2 with
          | none => simp [hl] at h
          | some w =>
            obtain ⟨os, r'⟩ := w
            simp [hl] at h
            obtain ⟨_, rfl⟩ := h
            exact (ih _ _ _ hl).trans ((hp _ _ _ hq).trans (hs _ _ _ hc))

theorem suffix_sepList0 {α} {sep : Parser Unit} {p : Parser α} (hs : Suffix sep) (hp : Suffix p) :
    Suffix (sepList0 sep p) := fun s x r h => by
  unfold sepList0 at h
  cases hq : p s with
  | none => simp [hq] at h; rw [← h.2]; exact List.suffix_refl _
  | some z =>
    obtain ⟨o, s1⟩ := z
    simp only [hq] at h
    cases hl : sepLoop sep p (s1.length + 1) s1 with
    | none => simp [hl] at h
    | some w =>
      obtain ⟨os, r'⟩ := w
      simp [hl] at h
      obtain ⟨_, rfl⟩ := h
      exact (suffix_sepLoop hs hp _ _ _ _ hl).trans (hp _ _ _ hq)

/-! ### the element parsers of the five `separated_list` uses -/

theorem suffix_parseOpt : Suffix parseOpt := fun _ _ _ h => by
  obtain ⟨t, e, _⟩ := parseOpt_line h; exact suffix_of_eq e
theorem suffix_parseQuirk : Suffix parseQuirk := suffix_altTags _
theorem suffix_parseHeaderL : Suffix parseHeaderL := fun _ _ _ h => suffix_of_eq (parseHeaderL_inv h)
theorem suffix_alphanumeric1 : Suffix alphanumeric1 := suffix_many1 _

theorem suffix_bracketValue : Suffix bracketValue := fun s v r h => by
  have e : s = ('=' :: '[' :: v ++ [']']) ++ r := by rw [bracketValue_inv h]; simp
  exact suffix_of_eq e

theorem suffix_parseKeyValue : Suffix parseKeyValue := fun s x r h => by
  unfold parseKeyValue at h
  cases h1 : many1 isRuleNameChar s with
  | none => simp [h1] at h
  | some y =>
    obtain ⟨n, s1⟩ := y
    simp only [h1] at h
    cases h2 : opt bracketValue s1 with
    | none => simp [h2] at h
    | some z =>
      obtain ⟨v, s2⟩ := z
      simp [h2] at h
      obtain ⟨_, rfl⟩ := h
      exact (suffix_opt suffix_bracketValue _ _ _ h2).trans (suffix_many1 _ _ _ _ h1)

/-! ### the loop terminates on its own -/

/-- With a separator that consumes and an element parser that does not give text back, every round of
the `separated_list` loop shortens the input: `fuel > input length` is never used up, and the checked
loop returns what the model's loop returns. -/
theorem sepLoopC_eq {α} {sep : Parser Unit} {p : Parser α} (hs : Strict sep) (hp : Suffix p)
    (fuel : Nat) (i : Str) (hf : i.length < fuel) :
    sepLoopC sep p fuel i = .ok (sepLoop sep p fuel i) := by
  induction fuel generalizing i with
  | zero => omega
  | succ f ih =>
    cases hc : sep i with
    | none => simp only [sepLoopC, sepLoop, hc]
    | some y =>
      obtain ⟨u, i1⟩ := y
      cases hq : p i1 with
      | none => simp only [sepLoopC, sepLoop, hc, hq]
      | some z =>
        obtain ⟨o, i2⟩ := z
        by_cases hlen : i2.length = i.length
        · simp only [sepLoopC, sepLoop, hc, hq, hlen, if_true]
        · have h1 := (hs _ _ _ hc).2
          have h2 := (hp _ _ _ hq).length_le
          simp only [sepLoopC, sepLoop, hc, hq, hlen, if_false, ih i2 (by omega)]
          cases sepLoop sep p f i2 with
          | none => rfl
          | some w => rfl

/-- nom's infinite-loop check of `separated_list` never fires for these parsers: the loop always returns
a list (so this `Err` path, too, is not a way to lose input) -/
theorem sepLoop_isSome {α} {sep : Parser Unit} {p : Parser α} (hs : Strict sep) (hp : Suffix p)
    (fuel : Nat) (i : Str) : ∃ xs r, sepLoop sep p fuel i = some (xs, r) := by
  induction fuel generalizing i with
  | zero => exact ⟨[], i, rfl⟩
  | succ f ih =>
    cases hc : sep i with
    | none => exact ⟨[], i, by simp only [sepLoop, hc]⟩
    | some y =>
      obtain ⟨u, i1⟩ := y
      cases hq : p i1 with
      | none => exact ⟨[], i, by simp only [sepLoop, hc, hq]⟩
      | some z =>
        obtain ⟨o, i2⟩ := z
        have h1 := (hs _ _ _ hc).2
        have h2 := (hp _ _ _ hq).length_le
        have hlen : i2.length ≠ i.length := by omega
        obtain ⟨xs, r, e⟩ := ih i2
        exact ⟨o :: xs, r, by simp only [sepLoop, hc, hq, hlen, if_false, e]⟩

/-- the result does not depend on the fuel once it exceeds the input length: the model's
`input length + 1` is not a bound on the list, only a termination argument -/
theorem sepLoop_fuel_irrelevant {α} {sep : Parser Unit} {p : Parser α} (hs : Strict sep) (hp : Suffix p)
    (f1 f2 : Nat) (i : Str) (h1 : i.length < f1) (h2 : i.length < f2) :
    sepLoop sep p f1 i = sepLoop sep p f2 i := by
  induction f1 generalizing f2 i with
  | zero => omega
  | succ f ih =>
    cases f2 with
    | zero => omega
    | succ g =>
      cases hc : sep i with
      | none => simp only [sepLoop, hc]
      | some y =>
        obtain ⟨u, i1⟩ := y
        cases hq : p i1 with
        | none => simp only [sepLoop, hc, hq]
        | some z =>
          obtain ⟨o, i2⟩ := z
          have a1 := (hs _ _ _ hc).2
          have a2 := (hp _ _ _ hq).length_le
          simp only [sepLoop, hc, hq, ih g i2 (by omega) (by omega)]

/-! ### numbers never wrap -/

theorem parseMax_exact (max : Nat) (d : Str) (v : Nat) : parseMax max d = some v ↔ decVal d = v ∧ v ≤ max := by
  unfold parseMax
  constructor
  · intro h; split at h
    · simp at h; subst h; exact ⟨rfl, by assumption⟩
    · cases h
  · rintro ⟨rfl, hle⟩; simp [hle]

theorem parseMax_overflow (max : Nat) (d : Str) (h : max < decVal d) : parseMax max d = none := by
  unfold parseMax; simp; omega

/-! ### the loader's loop -/

theorem splitNl_length_le (t : Str) : (splitNl t).length ≤ t.length := by
  induction t with
  | nil => simp [splitNl]
  | cons c cs ih =>
    unfold splitNl
    by_cases hc : c = '\n'
    · simp [hc]; omega
    · simp only [hc, if_false]
      cases h : splitNl cs with
      | nil => simp
      | cons l ls => rw [h] at ih; simp at ih ⊢; omega

theorem lines_length_le (t : Str) : (lines t).length ≤ t.length := by
  simp only [lines, List.length_map]; exact splitNl_length_le t

theorem loadSteps_le (st : LoadState) (ls : List Str) : loadSteps st ls ≤ ls.length := by
  induction ls generalizing st with
  | nil => simp [loadSteps]
  | cons l ls ih =>
    unfold loadSteps
    cases loadLine st l with
    | ok st' => have := ih st'; simp; omega
    | error e => simp

theorem trim_length_le (l : Str) : (trim l).length ≤ l.length := by
  unfold trim
  have h1 := (List.dropWhile_suffix (l := l) isWs).length_le
  have h2 := (List.dropWhile_suffix (l := (l.dropWhile isWs).reverse) isWs).length_le
  simp at h2 ⊢; omega

end Huginn.SigText

namespace Huginn.SigText
open Huginn.Sig Huginn.SigText.Spec
set_option linter.unusedSimpArgs false

/-! ### every parser of db_parse.rs only consumes -/

theorem suffix_parseTtl : Suffix parseTtl := fun _ _ _ h => by
  obtain ⟨t, e, _⟩ := parseTtl_line h; exact suffix_of_eq e
theorem suffix_parseWSize : Suffix parseWSize := fun _ _ _ h => by
  obtain ⟨t, e, _⟩ := parseWSize_line h; exact suffix_of_eq e
theorem suffix_optNum (max : Nat) : Suffix (optNum max) := fun _ _ _ h => by
  obtain ⟨t, e, _⟩ := optNum_line h; exact suffix_of_eq e
theorem suffix_colon : Suffix colon := suffix_tag _
theorem suffix_comma : Suffix comma := suffix_tag _

theorem suffix_parseTcpSig : Suffix parseTcpSig := fun s x r h => by
  simp only [parseTcpSig, Option.bind_eq_bind, Option.bind_eq_some_iff, Option.pure_def,
    Option.some.injEq, Prod.mk.injEq, Prod.exists] at h
  obtain ⟨ver, s1, h1, u1, s2, h2, ttl, s3, h3, u2, s4, h4, olen, s5, h5, u3, s6, h6, mss, s7, h7,
    u4, s8, h8, ws, s9, h9, u5, s10, h10, sc, s11, h11, u6, s12, h12, ol, s13, h13, u7, s14, h14,
    qs, s15, h15, u8, s16, h16, pc, s17, h17, _, rfl⟩ := h
  exact (suffix_altTags _ _ _ _ h17).trans <| (suffix_colon _ _ _ h16).trans <|
    (suffix_sepList0 suffix_comma suffix_parseQuirk _ _ _ h15).trans <| (suffix_colon _ _ _ h14).trans <|
    (suffix_sepList0 suffix_comma suffix_parseOpt _ _ _ h13).trans <| (suffix_colon _ _ _ h12).trans <|
    (suffix_optNum _ _ _ _ h11).trans <| (suffix_comma _ _ _ h10).trans <| (suffix_parseWSize _ _ _ h9).trans <|
    (suffix_colon _ _ _ h8).trans <| (suffix_optNum _ _ _ _ h7).trans <| (suffix_colon _ _ _ h6).trans <|
    (suffix_number _ _ _ _ h5).trans <| (suffix_colon _ _ _ h4).trans <| (suffix_parseTtl _ _ _ h3).trans <|
    (suffix_colon _ _ _ h2).trans <| suffix_altTags _ _ _ _ h1

theorem suffix_parseHttpSigL : Suffix parseHttpSigL := fun s x r h => by
  unfold parseHttpSigL at h
  cases hp : parseHttpSigRawL s with
  | none => simp [hp] at h
  | some y =>
    obtain ⟨raw, r'⟩ := y
    simp [hp] at h
    obtain ⟨_, rfl⟩ := h
    rw [(parseHttpSigRawL_inv hp).1]; exact List.nil_suffix

theorem suffix_parseLabelL : Suffix parseLabelL := fun s x r h => by
  simp only [parseLabelL, Option.bind_eq_bind, Option.bind_eq_some_iff, Option.pure_def,
    Option.some.injEq, Prod.mk.injEq, Prod.exists] at h
  obtain ⟨ty, s1, h1, u1, s2, h2, cls, s3, h3, u2, s4, h4, name, s5, h5, fl, s6, h6, _, rfl⟩ := h
  have hcls : Suffix parseLabelClass := suffix_alt (by
    intro p hp
    simp only [List.mem_cons, List.mem_nil_iff, or_false] at hp
    rcases hp with rfl | rfl
    · exact suffix_map (suffix_tag _) _ (fun _ => rfl)
    · exact suffix_map (suffix_takeUntil _) _ (fun _ => rfl))
  have hfl : Suffix parseLabelFlavor := suffix_opt (fun s x r h => by
    cases hc : colon s with
    | none => simp [hc] at h
    | some y =>
      obtain ⟨u, r1⟩ := y
      simp only [hc] at h
      exact (suffix_rest _ _ _ h).trans (suffix_colon _ _ _ hc))
  exact (hfl _ _ _ h6).trans <| (suffix_takeUntil _ _ _ _ h5).trans <| (suffix_colon _ _ _ h4).trans <|
    (hcls _ _ _ h3).trans <| (suffix_colon _ _ _ h2).trans <| suffix_altTags _ _ _ _ h1

theorem suffix_parseNamedValue : Suffix parseNamedValue := fun s x r h => by
  simp only [parseNamedValue, Option.bind_eq_bind, Option.bind_eq_some_iff, Option.pure_def,
    Option.some.injEq, Prod.mk.injEq, Prod.exists] at h
  obtain ⟨n, s1, h1, u1, s2, h2, u2, s3, h3, u3, s4, h4, v, s5, h5, _, rfl⟩ := h
  exact (suffix_rest _ _ _ h5).trans <| (suffix_space0 _ _ _ h4).trans <| (suffix_tag _ _ _ _ h3).trans <|
    (suffix_space0 _ _ _ h2).trans <| suffix_alphanumeric1 _ _ _ h1

theorem suffix_parseClasses : Suffix parseClasses := fun s x r h => by
  simp only [parseClasses, Option.bind_eq_bind, Option.bind_eq_some_iff, Prod.exists] at h
  obtain ⟨u1, s1, h1, u2, s2, h2, u3, s3, h3, u4, s4, h4, h5⟩ := h
  exact (suffix_sepList0 suffix_comma suffix_alphanumeric1 _ _ _ h5).trans <| (suffix_space0 _ _ _ h4).trans <|
    (suffix_tag _ _ _ _ h3).trans <| (suffix_space0 _ _ _ h2).trans <| suffix_tag _ _ _ _ h1

theorem suffix_parseUaOs : Suffix parseUaOs := fun s x r h => by
  simp only [parseUaOs, Option.bind_eq_bind, Option.bind_eq_some_iff, Prod.exists] at h
  obtain ⟨u1, s1, h1, u2, s2, h2, u3, s3, h3, u4, s4, h4, h5⟩ := h
  exact (suffix_sepList0 suffix_comma suffix_parseKeyValue _ _ _ h5).trans <| (suffix_space0 _ _ _ h4).trans <|
    (suffix_tag _ _ _ _ h3).trans <| (suffix_space0 _ _ _ h2).trans <| suffix_tag _ _ _ _ h1

theorem suffix_parseModule : Suffix parseModule := fun s x r h => by
  simp only [parseModule, Option.bind_eq_bind, Option.bind_eq_some_iff, Option.pure_def,
    Option.some.injEq, Prod.mk.injEq, Prod.exists] at h
  obtain ⟨u1, s1, h1, m, s2, h2, d, s3, h3, u2, s4, h4, _, rfl⟩ := h
  have hd : Suffix (opt (fun s => match colon s with | some (_, r) => alpha1 r | none => none)) :=
    suffix_opt (fun s x r h => by
      cases hc : colon s with
      | none => simp [hc] at h
      | some y =>
        obtain ⟨u, r1⟩ := y
        simp only [hc] at h
        exact (suffix_many1 _ _ _ _ h).trans (suffix_colon _ _ _ hc))
  exact (suffix_tag _ _ _ _ h4).trans <| (hd _ _ _ h3).trans <| (suffix_many1 _ _ _ _ h2).trans <|
    suffix_tag _ _ _ _ h1

end Huginn.SigText
