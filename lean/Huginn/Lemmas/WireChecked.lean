import Huginn.Model.WireChecked
import Huginn.Lemmas.Wire
set_option linter.unusedSimpArgs false
/-
Refinement lemmas: each checked-access mirror of Model/WireChecked.lean returns `.ok` of the total
function of Model/Wire.lean (so it never faults, and the `getD` defaults of Model/Wire are never
observed). Used by Props/C01Wire.lean.
-/
namespace Huginn.WireChecked
open Huginn.Wire

@[simp] theorem ok_bind {α β} (a : α) (f : α → M β) : (Except.ok a >>= f) = f a := rfl
@[simp] theorem pure_eq {α} (a : α) : (pure a : M α) = Except.ok a := rfl

theorem idx_ok (b : Bytes) (i : Nat) (h : i < b.length) : idx b i = .ok (byte b i) := by
  unfold idx byte
  simp [h, List.getD_eq_getElem?_getD]

theorem idx8_ok (b : Bytes) (i : Nat) (h : i < b.length) : idx8 b i = .ok (b.getD i 0) := by
  unfold idx8
  simp [h, List.getD_eq_getElem?_getD]

theorem from_ok (b : Bytes) (i : Nat) (h : i ≤ b.length) : from_ b i = .ok (b.drop i) := by
  unfold from_; simp [h]

theorem range_ok (b : Bytes) (i j : Nat) (h1 : i ≤ j) (h2 : j ≤ b.length) :
    range b i j = .ok (slice b i (j - i)) := by
  unfold range slice; simp [h1, h2, List.drop_take]

theorem be16At_ok (b : Bytes) (i j : Nat) (hi : i < b.length) (hj : j < b.length) :
    be16At b i j = .ok (byte b i * 256 + byte b j) := by
  unfold be16At; simp [idx_ok b i hi, idx_ok b j hj]

theorem readN_ok (b : Bytes) (i n : Nat) (h : i + n ≤ b.length) : readN b i n = .ok (slice b i n) := by
  induction n generalizing i with
  | zero => simp [readN, slice]
  | succ n ih =>
    have hi : i < b.length := by omega
    simp only [readN, idx8_ok b i hi, ok_bind, ih (i + 1) (by omega), pure_eq]
    simp only [slice, List.getD_eq_getElem?_getD, List.getElem?_eq_getElem hi, Option.getD_some]
    rw [List.drop_eq_getElem_cons hi, List.take_succ_cons]

theorem tryEthernetC_eq (p : Bytes) : tryEthernetC p = .ok (tryEthernet p) := by
  unfold tryEthernetC tryEthernet
  by_cases h : p.length < 14
  · simp [h]
  · simp only [h, if_false, from_ok p 14 (by omega), be16At_ok p 12 13 (by omega) (by omega), ok_bind, be16]
    simp only [Nat.reduceAdd]
    split <;> simp_all
    split <;> simp_all

theorem tryRawIpC_eq (p : Bytes) : tryRawIpC p = .ok (tryRawIp p) := by
  unfold tryRawIpC tryRawIp
  by_cases h : p.length < 20
  · simp [h]
  · simp only [h, if_false, idx_ok p 0 (by omega), ok_bind]
    split <;> simp_all
    split <;> simp_all

theorem tryNullC_eq (p : Bytes) : tryNullC p = .ok (tryNull p) := by
  unfold tryNullC tryNull
  by_cases h : p.length < 24
  · simp [h]
  · simp only [h, if_false, idx_ok p 0 (by omega), idx_ok p 1 (by omega), ok_bind, false_or]
    by_cases h0 : byte p 0 = 0x1e
    · by_cases h1 : byte p 1 = 0
      · have hd : 0 < (p.drop 4).length := by simp; omega
        simp only [h0, h1, ne_eq, not_true_eq_false, if_false, from_ok p 4 (by omega), ok_bind,
          idx_ok (p.drop 4) 0 hd, or_self]
        split <;> simp_all
        split <;> simp_all
      · simp [h0, h1]
    · simp [h0]

theorem parsePacketC_eq (p : Bytes) : parsePacketC p = .ok (parsePacket p) := by
  unfold parsePacketC parsePacket
  rw [tryEthernetC_eq]
  simp only [ok_bind]
  cases tryEthernet p with
  | some l => rfl
  | none =>
    simp only [tryRawIpC_eq, ok_bind]
    cases tryRawIp p with
    | some l => rfl
    | none => exact tryNullC_eq p

theorem detectDatalinkC_total (p : Bytes) : ∃ r, detectDatalinkC p = .ok r := by
  unfold detectDatalinkC
  -- first block
  have h1 : ∃ b, (if 24 ≤ p.length then do
      let b0 ← idx p 0
      if b0 = 0x1e then do
        let b1 ← idx p 1
        if b1 = 0 then do
          let ip ← from_ p 4
          let v ← idx ip 0
          pure (decide (v / 16 = 4 ∨ v / 16 = 6))
        else pure false
      else pure false
    else pure false : M Bool) = .ok b := by
    by_cases h : 24 ≤ p.length
    · have hd : 0 < (p.drop 4).length := by simp; omega
      simp only [h, if_true, idx_ok p 0 (by omega), idx_ok p 1 (by omega), ok_bind,
        from_ok p 4 (by omega), idx_ok (p.drop 4) 0 hd, pure_eq]
      split
      · split <;> exact ⟨_, rfl⟩
      · exact ⟨_, rfl⟩
    · simp only [h, if_false, pure_eq]; exact ⟨_, rfl⟩
  obtain ⟨b1, hb1⟩ := h1
  rw [hb1]
  simp only [ok_bind]
  cases b1 with
  | true => exact ⟨_, rfl⟩
  | false =>
    simp only [Bool.false_eq_true, if_false]
    have h2 : ∃ b, (if 20 ≤ p.length then do
        let b0 ← idx p 0
        if b0 / 16 = 4 then do
          let b0' ← idx p 0
          let ihl := min (b0' % 16 * 4) 255
          pure (decide (20 ≤ ihl ∧ ihl ≤ p.length))
        else if b0 / 16 = 6 then pure (decide (40 ≤ p.length))
        else pure false
      else pure false : M Bool) = .ok b := by
      by_cases h : 20 ≤ p.length
      · simp only [h, if_true, idx_ok p 0 (by omega), ok_bind, pure_eq]
        split
        · exact ⟨_, rfl⟩
        · split <;> exact ⟨_, rfl⟩
      · simp only [h, if_false, pure_eq]; exact ⟨_, rfl⟩
    obtain ⟨b2, hb2⟩ := h2
    rw [hb2]
    simp only [ok_bind]
    cases b2 with
    | true => exact ⟨_, rfl⟩
    | false =>
      simp only [Bool.false_eq_true, if_false]
      by_cases h : 14 ≤ p.length
      · simp only [h, if_true, be16At_ok p 12 13 (by omega) (by omega), ok_bind, from_ok p 14 h]
        split
        · by_cases he : (p.drop 14).isEmpty = true
          · simp only [he, if_true]; exact ⟨_, rfl⟩
          · have hd : 0 < (p.drop 14).length := by
              cases hx : p.drop 14 with
              | nil => simp [hx] at he
              | cons _ _ => simp
            simp only [he, Bool.false_eq_true, if_false, idx_ok (p.drop 14) 0 hd, ok_bind]
            exact ⟨_, rfl⟩
        · exact ⟨_, rfl⟩
      · simp only [h, if_false]; exact ⟨_, rfl⟩

theorem extractV4C_eq (ip : Bytes) : extractV4C ip = .ok (extractV4 ip) := by
  unfold extractV4C extractV4
  by_cases h : ip.length < 20
  · simp [h]
  · simp only [h, if_false, idx_ok ip 9 (by omega), idx_ok ip 0 (by omega), ok_bind,
      readN_ok ip 12 4 (by omega), readN_ok ip 16 4 (by omega)]
    by_cases h6 : byte ip 9 ≠ 6
    · simp [h6]
    · simp only [h6, if_false, v4PortOff, v4Ihl]
      by_cases hl : ip.length < max (byte ip 0 % 16 * 4) 20 + 4
      · simp [hl]
      · simp only [hl, if_false, be16At_ok ip _ _ (show max (byte ip 0 % 16 * 4) 20 < ip.length by omega)
            (show max (byte ip 0 % 16 * 4) 20 + 1 < ip.length by omega),
          be16At_ok ip _ _ (show max (byte ip 0 % 16 * 4) 20 + 2 < ip.length by omega)
            (show max (byte ip 0 % 16 * 4) 20 + 3 < ip.length by omega), ok_bind, pure_eq, be16]

theorem extractV6C_eq (ip : Bytes) : extractV6C ip = .ok (extractV6 ip) := by
  unfold extractV6C extractV6
  by_cases h : ip.length < 40
  · simp [h]
  · simp only [h, if_false, idx_ok ip 6 (by omega), ok_bind,
      readN_ok ip 8 16 (by omega), readN_ok ip 24 16 (by omega)]
    by_cases h6 : byte ip 6 ≠ 6
    · simp [h6]
    · simp only [h6, if_false]
      by_cases hl : ip.length < 44
      · simp [hl]
      · simp only [hl, if_false, be16At_ok ip 40 41 (by omega) (by omega),
          be16At_ok ip 42 43 (by omega) (by omega), ok_bind, pure_eq, be16]

theorem rfEthernetC_eq (p : Bytes) : rfEthernetC p = .ok (rfEthernet p) := by
  unfold rfEthernetC rfEthernet
  by_cases h : p.length < 14
  · simp [h]
  · simp only [h, if_false, be16At_ok p 12 13 (by omega) (by omega), ok_bind, be16,
      from_ok p 14 (by omega), extractV4C_eq, extractV6C_eq]
    split <;> simp_all
    split <;> simp_all

theorem rfRawIpC_eq (p : Bytes) : rfRawIpC p = .ok (rfRawIp p) := by
  unfold rfRawIpC rfRawIp
  by_cases h : p.length = 0
  · simp [h]
  · simp only [h, if_false, idx_ok p 0 (by omega), ok_bind, extractV4C_eq, extractV6C_eq]
    split <;> simp_all
    split <;> simp_all

theorem rfNullC_eq (p : Bytes) : rfNullC p = .ok (rfNull p) := by
  unfold rfNullC rfNull nullFamily
  by_cases h : p.length < 4
  · simp [h]
  · simp only [h, if_false, idx_ok p 0 (by omega), idx_ok p 1 (by omega), idx_ok p 2 (by omega),
      idx_ok p 3 (by omega), ok_bind]
    by_cases h0 : byte p 0 = 0x1e
    · simp only [h0, if_true, ok_bind, pure_eq, true_and]
      by_cases hs : byte p 1 = 0 ∧ 4 < p.length
      · simp only [hs, and_self, decide_true, if_true, idx_ok p 4 hs.2, ok_bind,
          from_ok p 4 (by omega), extractV4C_eq, extractV6C_eq]
        split <;> simp_all
        split <;> simp_all
      · simp only [hs, decide_false, Bool.false_eq_true, if_false, ok_bind,
          from_ok p 4 (by omega), extractV4C_eq, extractV6C_eq]
        split <;> simp_all
        split <;> simp_all
    · simp only [h0, if_false, ok_bind, pure_eq, Bool.false_eq_true, false_and,
        from_ok p 4 (by omega), extractV4C_eq, extractV6C_eq]
      split <;> simp_all
      split <;> simp_all

theorem rawFilterExtractC_eq (p : Bytes) : rawFilterExtractC p = .ok (rawFilterExtract p) := by
  unfold rawFilterExtractC rawFilterExtract
  rw [rfEthernetC_eq]
  simp only [ok_bind]
  cases rfEthernet p with
  | some l => rfl
  | none =>
    simp only [rfRawIpC_eq, ok_bind]
    cases rfRawIp p with
    | some l => rfl
    | none => exact rfNullC_eq p

theorem locateIpC_eq (p : Bytes) : locateIpC p = .ok (locateIp p) := by
  unfold locateIpC locateIp locEth locRaw locNull
  by_cases h14 : 14 ≤ p.length
  · simp only [h14, if_true, be16At_ok p 12 13 (by omega) (by omega), ok_bind, pure_eq,
      show ¬ p.length < 14 by omega, if_false, be16, Nat.reduceAdd]
    by_cases e4 : byte p 12 * 256 + byte p 13 = 0x0800 ∧ 34 ≤ p.length
    · simp [e4]
    · by_cases e6 : byte p 12 * 256 + byte p 13 = 0x86DD ∧ 54 ≤ p.length
      · simp [e4, e6]
      · simp only [e4, e6, if_false, ok_bind]
        by_cases h20 : 20 ≤ p.length
        · simp only [h20, if_true, idx_ok p 0 (by omega), ok_bind, pure_eq,
            show ¬ p.length < 20 by omega, if_false]
          by_cases r4 : byte p 0 / 16 = 4
          · simp [r4]
          · by_cases r6 : byte p 0 / 16 = 6 ∧ 40 ≤ p.length
            · simp [r4, r6]
            · simp only [r4, r6, if_false, ok_bind]
              by_cases h24 : 24 ≤ p.length
              · simp only [h24, if_true, idx_ok p 0 (by omega), idx_ok p 1 (by omega),
                  idx_ok p 4 (by omega), ok_bind, pure_eq]
                by_cases h0 : byte p 0 = 0x1e
                · by_cases h1 : byte p 1 = 0
                  · simp only [h0, h1, if_true, ok_bind, show ¬ p.length < 24 by omega, ne_eq,
                      not_true_eq_false, or_self, if_false]
                    split <;> simp_all
                    split <;> simp_all
                  · simp [h0, h1]
                · simp [h0]
              · have : p.length < 24 := by omega
                simp [h24, this]
        · have h20' : p.length < 20 := by omega
          have h24 : ¬ 24 ≤ p.length := by omega
          have : p.length < 24 := by omega
          simp [h20, h20', h24, this]
  · have a : p.length < 14 := by omega
    have b : p.length < 20 := by omega
    have c : p.length < 24 := by omega
    have b' : ¬ 20 ≤ p.length := by omega
    have c' : ¬ 24 ≤ p.length := by omega
    simp [h14, a, b, c, b', c']

/-- what `locate_ip` guarantees about the frame's length (so `&packet[ip_start..]` cannot fault) -/
theorem locateIp_len (p : Bytes) (off : Nat) (ver : IpVer) (h : locateIp p = some (off, ver)) :
    off + 20 ≤ p.length ∧ (ver = .v6 → off + 40 ≤ p.length) := by
  have key : ∀ r : Option (Nat × IpVer), r = some (off, ver) →
      (r = locEth p ∨ r = locRaw p ∨ r = locNull p) →
      off + 20 ≤ p.length ∧ (ver = .v6 → off + 40 ≤ p.length) := by
    intro r hr hc
    subst hr
    rcases hc with hc | hc | hc
    · unfold locEth at hc
      split at hc; · simp at hc
      split at hc
      · simp only [Option.some.injEq, Prod.mk.injEq] at hc; obtain ⟨rfl, rfl⟩ := hc
        exact ⟨by omega, by simp⟩
      · split at hc
        · simp only [Option.some.injEq, Prod.mk.injEq] at hc; obtain ⟨rfl, rfl⟩ := hc
          exact ⟨by omega, fun _ => by omega⟩
        · simp at hc
    · unfold locRaw at hc
      split at hc; · simp at hc
      split at hc
      · simp only [Option.some.injEq, Prod.mk.injEq] at hc; obtain ⟨rfl, rfl⟩ := hc
        exact ⟨by omega, by simp⟩
      · split at hc
        · simp only [Option.some.injEq, Prod.mk.injEq] at hc; obtain ⟨rfl, rfl⟩ := hc
          exact ⟨by omega, fun _ => by omega⟩
        · simp at hc
    · unfold locNull at hc
      split at hc; · simp at hc
      split at hc
      · simp only [Option.some.injEq, Prod.mk.injEq] at hc; obtain ⟨rfl, rfl⟩ := hc
        exact ⟨by omega, by simp⟩
      · split at hc
        · simp only [Option.some.injEq, Prod.mk.injEq] at hc; obtain ⟨rfl, rfl⟩ := hc
          exact ⟨by omega, fun _ => by omega⟩
        · simp at hc
  unfold locateIp at h
  split at h
  · rename_i r hr; exact key _ h (Or.inl (by rw [hr, h]))
  · split at h
    · rename_i r hr; exact key _ h (Or.inr (Or.inl (by rw [hr, h])))
    · exact key _ rfl (Or.inr (Or.inr h.symm))

theorem hashInputTcpC_eq (p : Bytes) : hashInputTcpC p = .ok (hashInputTcp p) := by
  unfold hashInputTcpC hashInputTcp
  simp only [locateIpC_eq, ok_bind]
  cases hl : locateIp p with
  | none => rfl
  | some r =>
    obtain ⟨off, ver⟩ := r
    obtain ⟨hlen, hlen6⟩ := locateIp_len p off ver hl
    have hd : (p.drop off).length = p.length - off := by simp
    cases ver with
    | v4 =>
      simp only [from_ok p off (by omega), ok_bind]
      split
      · simp [range_ok (p.drop off) 12 16 (by omega) (by omega)]
      · rfl
    | v6 =>
      have hlen6 := hlen6 rfl
      simp only [from_ok p off (by omega), ok_bind]
      split
      · simp [range_ok (p.drop off) 8 24 (by omega) (by omega)]
      · rfl

/-- total counterpart of `v4FlowC` -/
def v4FlowT (ip : Bytes) : Option (Option (Bytes × Bytes × Nat × Nat)) :=
  if ip.length < 20 then none
  else if byte ip 9 ≠ 6 then some none
  else if ip.length < v4PortOff ip + 4 then some none
  else some (some (slice ip 12 4, slice ip 16 4, be16 ip (v4PortOff ip), be16 ip (v4PortOff ip + 2)))

def v6FlowT (ip : Bytes) : Option (Option (Bytes × Bytes × Nat × Nat)) :=
  if ip.length < 40 then none
  else if byte ip 6 ≠ 6 then some none
  else if ip.length < 44 then some none
  else some (some (slice ip 8 16, slice ip 24 16, be16 ip 40, be16 ip 42))

theorem v4FlowC_eq (ip : Bytes) : v4FlowC ip = .ok (v4FlowT ip) := by
  unfold v4FlowC v4FlowT
  by_cases h : ip.length < 20
  · simp [h]
  · simp only [h, if_false, idx_ok ip 9 (by omega), idx_ok ip 0 (by omega), ok_bind]
    by_cases h6 : byte ip 9 ≠ 6
    · simp [h6]
    · simp only [h6, if_false, v4PortOff, v4Ihl]
      by_cases hl : ip.length < max (byte ip 0 % 16 * 4) 20 + 4
      · simp [hl]
      · have hd : (ip.drop (max (byte ip 0 % 16 * 4) 20)).length = ip.length - max (byte ip 0 % 16 * 4) 20 := by simp
        simp only [hl, if_false, range_ok ip 12 16 (by omega) (by omega),
          range_ok ip 16 20 (by omega) (by omega), from_ok ip _ (show max (byte ip 0 % 16 * 4) 20 ≤ ip.length by omega),
          be16At_ok _ 0 1 (show 0 < (ip.drop (max (byte ip 0 % 16 * 4) 20)).length by omega)
            (show 1 < (ip.drop (max (byte ip 0 % 16 * 4) 20)).length by omega),
          be16At_ok _ 2 3 (show 2 < (ip.drop (max (byte ip 0 % 16 * 4) 20)).length by omega)
            (show 3 < (ip.drop (max (byte ip 0 % 16 * 4) 20)).length by omega),
          ok_bind, pure_eq, be16, byte_drop]
        simp

theorem v6FlowC_eq (ip : Bytes) : v6FlowC ip = .ok (v6FlowT ip) := by
  unfold v6FlowC v6FlowT
  by_cases h : ip.length < 40
  · simp [h]
  · simp only [h, if_false, idx_ok ip 6 (by omega), ok_bind]
    by_cases h6 : byte ip 6 ≠ 6
    · simp [h6]
    · simp only [h6, if_false]
      by_cases hl : ip.length < 44
      · simp [hl]
      · have hd : (ip.drop 40).length = ip.length - 40 := by simp
        simp only [hl, if_false, range_ok ip 8 24 (by omega) (by omega),
          range_ok ip 24 40 (by omega) (by omega), from_ok ip 40 (by omega),
          be16At_ok _ 0 1 (show 0 < (ip.drop 40).length by omega) (show 1 < (ip.drop 40).length by omega),
          be16At_ok _ 2 3 (show 2 < (ip.drop 40).length by omega) (show 3 < (ip.drop 40).length by omega),
          ok_bind, pure_eq, be16, byte_drop]

theorem hashV4FlowHttpC_eq (ip : Bytes) : hashV4FlowHttpC ip = .ok (hashV4FlowHttp ip) := by
  unfold hashV4FlowHttpC hashV4FlowHttp
  rw [v4FlowC_eq]; simp only [ok_bind]
  unfold v4FlowT
  by_cases h : ip.length < 20
  · simp [h]
  · by_cases h6 : byte ip 9 ≠ 6
    · simp [h, h6, range_ok ip 12 16 (by omega) (by omega)]
    · by_cases hl : ip.length < v4PortOff ip + 4
      · simp [h, h6, hl, range_ok ip 12 16 (by omega) (by omega)]
      · simp [h, h6, hl]

theorem hashV6FlowHttpC_eq (ip : Bytes) : hashV6FlowHttpC ip = .ok (hashV6FlowHttp ip) := by
  unfold hashV6FlowHttpC hashV6FlowHttp
  rw [v6FlowC_eq]; simp only [ok_bind]
  unfold v6FlowT
  by_cases h : ip.length < 40
  · simp [h]
  · by_cases h6 : byte ip 6 ≠ 6
    · simp [h, h6, range_ok ip 8 24 (by omega) (by omega)]
    · by_cases hl : ip.length < 44
      · simp [h, h6, hl, range_ok ip 8 24 (by omega) (by omega)]
      · simp [h, h6, hl]

theorem hashInputHttpC_eq (p : Bytes) : hashInputHttpC p = .ok (hashInputHttp p) := by
  unfold hashInputHttpC hashInputHttp
  simp only [locateIpC_eq, ok_bind]
  cases hl : locateIp p with
  | none => rfl
  | some r =>
    obtain ⟨off, ver⟩ := r
    simp only
    by_cases h : p.length < off + 40
    · simp [h]
    · simp only [h, if_false, from_ok p off (by omega), ok_bind]
      cases ver with
      | v4 => exact hashV4FlowHttpC_eq _
      | v6 => exact hashV6FlowHttpC_eq _

theorem hashInputTlsC_eq (p : Bytes) : hashInputTlsC p = .ok (hashInputTls p) := by
  unfold hashInputTlsC hashInputTls
  simp only [locateIpC_eq, ok_bind]
  cases hl : locateIp p with
  | none => rfl
  | some r =>
    obtain ⟨off, ver⟩ := r
    simp only
    by_cases h : p.length < off + 40
    · simp [h]
    · simp only [h, if_false, from_ok p off (by omega), ok_bind, v4FlowC_eq, v6FlowC_eq]
      generalize p.drop off = ip
      cases ver with
      | v4 =>
        simp only
        unfold v4FlowT hashV4FlowTls
        by_cases a : ip.length < 20
        · simp [a]
        · by_cases b : byte ip 9 ≠ 6
          · simp [a, b]
          · by_cases c : ip.length < v4PortOff ip + 4
            · simp [a, b, c]
            · simp [a, b, c]
      | v6 =>
        simp only
        unfold v6FlowT hashV6FlowTls
        by_cases a : ip.length < 40
        · simp [a]
        · by_cases b : byte ip 6 ≠ 6
          · simp [a, b]
          · by_cases c : ip.length < 44
            · simp [a, b, c]
            · simp [a, b, c]
end Huginn.WireChecked
