import Huginn.Model.H2Message
import Huginn.Spec.H2Message
import Huginn.Lemmas.Akamai
set_option linter.unusedSimpArgs false
set_option linter.unusedVariables false
/-
Helper lemmas for Props/C16.
-/
namespace Huginn.Lemmas.H2Message
open Huginn.H2 Huginn.Spec.H2 Huginn.Spec.H2Message Huginn.Lemmas.Akamai

theorem ty_eq9 : ∀ t : UInt8, (t == tyContinuation) = (t.toNat == 9) := by apply all_u8; decide +kernel

/-! ### the message's frames -/

theorem mem_takeWhile {α} (p : α → Bool) : ∀ (l : List α) (x : α), x ∈ l.takeWhile p → p x = true := by
  intro l
  induction l with
  | nil => intro x h; simp at h
  | cons a l ih =>
    intro x h
    simp only [List.takeWhile] at h
    by_cases hp : p a = true
    · simp only [hp] at h
      cases h with
      | head => exact hp
      | tail _ h => exact ih x h
    · have : p a = false := by simpa using hp
      simp [this] at h

theorem firstWithRest_split (p : Frame → Bool) : ∀ (l : List Frame) (f : Frame) (r : List Frame),
    firstWithRest p l = some (f, r) → l = l.takeWhile (fun g => !p g) ++ f :: r ∧ p f = true := by
  intro l
  induction l with
  | nil => intro f r h; simp [firstWithRest] at h
  | cons g gs ih =>
    intro f r h
    simp only [firstWithRest] at h
    by_cases hp : p g = true
    · simp only [hp, if_true, Option.some.injEq, Prod.mk.injEq] at h
      obtain ⟨h1, h2⟩ := h
      subst h1; subst h2
      simp [List.takeWhile, hp]
    · have hp' : p g = false := by simpa using hp
      simp only [hp', Bool.false_eq_true, if_false] at h
      obtain ⟨h1, h2⟩ := ih f r h
      refine ⟨?_, h2⟩
      simp only [List.takeWhile, hp', Bool.not_false, List.cons_append]
      rw [← h1]

theorem find_of_firstWithRest (p : Frame → Bool) (l : List Frame) (f : Frame) (r : List Frame)
    (h : firstWithRest p l = some (f, r)) : l.find? p = some f := by
  rw [← firstWithRest_find, h]; rfl

theorem pred_msgHeaders : (fun f : Frame => decide (f.sid > 0) && f.ty == tyHeaders) = isMsgHeaders := by
  funext f
  simp only [isMsgHeaders, isHeaders, ty_eq1]
  by_cases h : f.sid = 0
  · simp [h]
  · have h' : 0 < f.sid := by omega
    simp [h, h', Bool.and_comm]

/-- frames the loop of `build_stream` passes over without decoding -/
def skipped (f : Frame) : Bool := !(f.ty == tyHeaders || f.ty == tyContinuation)

theorem buildLoop_skip (H : Hpack) : ∀ (l rest : List Frame) (st : H.σ) (a : StreamAcc),
    l.all skipped = true → buildLoop H st (l ++ rest) a = buildLoop H st rest a := by
  intro l
  induction l with
  | nil => intro rest st a _; rfl
  | cons g gs ih =>
    intro rest st a h
    simp only [List.all_cons, Bool.and_eq_true] at h
    have hg : (g.ty == tyHeaders || g.ty == tyContinuation) = false := by
      have := h.1; simpa [skipped] using this
    simp only [List.cons_append, buildLoop, hg, Bool.false_eq_true, if_false]
    exact ih rest st a h.2

theorem buildLoop_skip_all (H : Hpack) (l : List Frame) (st : H.σ) (a : StreamAcc)
    (h : l.all skipped = true) : buildLoop H st l a = some a := by
  have := buildLoop_skip H l [] st a h
  rw [List.append_nil] at this
  rw [this]; rfl

theorem skipped_iff (g : Frame) : skipped g = (!isHeaders g && !isContinuation g) := by
  simp only [skipped, isHeaders, isContinuation, ty_eq1, ty_eq9, Bool.not_or]

theorem fragment_plain (f : Frame) (h1 : padded f = false) (h2 : hasPriority f = false) :
    headersFragment f = some f.payload := by
  simp [headersFragment, h1, h2]

/-- the message's HEADERS frame carries the whole block, unpadded: the loop of `build_stream`
decodes exactly that block, once, with a fresh decoder -/
theorem buildStream_plain (H : Hpack) (frames : List Frame) (f : Frame) (after : List Frame) (b : Bytes)
    (hs : List Field) (σ' : H.σ)
    (hblk : primaryBlock frames = some (f, after, .complete b))
    (hdec : H.dec H.init b = (some hs, σ'))
    (hlater : noLaterBlocks f after = true) (hstray : noStrayContinuation f frames = true)
    (k1 : KF.C16.headersPaddedOrPriority frames = false) (k2 : KF.C16.headersContinued frames = false) :
    findPrimary frames = some f.sid ∧
    buildStream H f.sid frames = some ((toHdrs hs).foldl StreamAcc.add {}) := by
  unfold primaryBlock at hblk
  cases hfw : firstWithRest isMsgHeaders frames with
  | none => rw [hfw] at hblk; simp at hblk
  | some p =>
    obtain ⟨f', after'⟩ := p
    rw [hfw] at hblk
    simp only [Option.map_some, Option.some.injEq, Prod.mk.injEq] at hblk
    obtain ⟨e1, e2, hb⟩ := hblk
    subst e1; subst e2
    unfold KF.C16.headersPaddedOrPriority at k1
    unfold KF.C16.headersContinued at k2
    rw [hfw] at k1 k2
    simp only [Bool.or_eq_false_iff, Bool.not_eq_false'] at k1 k2
    have hbp : headerBlock f' after' = .complete f'.payload := by
      simp [headerBlock, fragment_plain f' k1.1 k1.2, k2]
    rw [hbp] at hb
    have hbe : b = f'.payload := by cases hb; rfl
    subst hbe
    obtain ⟨hsplit, hpf⟩ := firstWithRest_split isMsgHeaders frames f' after' hfw
    have hsid : f'.sid ≠ 0 := by
      simp only [isMsgHeaders, Bool.and_eq_true, bne_iff_ne] at hpf
      exact hpf.2
    have hhd : isHeaders f' = true := by
      simp only [isMsgHeaders, Bool.and_eq_true] at hpf
      exact hpf.1
    refine ⟨?_, ?_⟩
    · unfold findPrimary
      rw [pred_msgHeaders, find_of_firstWithRest _ _ _ _ hfw]; rfl
    · unfold buildStream
      -- split the filtered frame list around f'
      have hfilter : frames.filter (fun g => g.sid == f'.sid) =
          (beforePrimary frames).filter (fun g => g.sid == f'.sid) ++ f' :: after'.filter (fun g => g.sid == f'.sid) := by
        conv => lhs; rw [hsplit]
        rw [List.filter_append, List.filter_cons]
        simp [beforePrimary]
      rw [hfilter]
      have hpre : ((beforePrimary frames).filter (fun g => g.sid == f'.sid)).all skipped = true := by
        rw [List.all_eq_true]
        intro g hg
        rw [List.mem_filter] at hg
        obtain ⟨hg1, hg2⟩ := hg
        have hgs : g.sid = f'.sid := by simpa using hg2
        have hnot : isMsgHeaders g = false := by
          have := mem_takeWhile _ _ _ hg1
          simpa using this
        have hnh : isHeaders g = false := by
          simp only [isMsgHeaders, Bool.and_eq_false_iff] at hnot
          rcases hnot with h | h
          · exact h
          · exfalso
            have : g.sid = 0 := by simpa using h
            exact hsid (hgs ▸ this)
        have hnc : isContinuation g = false := by
          unfold noStrayContinuation at hstray
          rw [List.all_eq_true] at hstray
          have := hstray g hg1
          simp only [Bool.not_eq_true', Bool.and_eq_false_iff] at this
          rcases this with h | h
          · exact h
          · exfalso; simp [hgs] at h
        rw [skipped_iff]; simp [hnh, hnc]
      have hpost : (after'.filter (fun g => g.sid == f'.sid)).all skipped = true := by
        unfold noLaterBlocks contCount at hlater
        simp only [k2, if_true, List.drop_zero] at hlater
        rw [List.all_eq_true] at hlater ⊢
        intro g hg
        have := hlater g hg
        rw [skipped_iff]; exact this
      rw [buildLoop_skip H _ _ _ _ hpre]
      have hty : (f'.ty == tyHeaders || f'.ty == tyContinuation) = true := by
        have : (f'.ty == tyHeaders) = true := by rw [ty_eq1]; exact hhd
        simp [this]
      simp only [buildLoop, hty, if_true, hdec]
      exact buildLoop_skip_all H _ _ _ hpost

/-! ### the accumulator of `build_stream` -/

def special (n : Bytes) : Bool := n == nMethod || n == nPath || n == nAuthority || n == nScheme || n == nStatus

theorem getLast?_filter_cons {α} (p : α → Bool) (h : α) (t : List α) :
    ((h :: t).filter p).getLast? = ((t.filter p).getLast?).or (if p h then some h else none) := by
  by_cases hp : p h = true
  · simp only [List.filter_cons, hp, if_true, List.getLast?_cons]
    cases (t.filter p).getLast? <;> simp
  · have hp' : p h = false := by simpa using hp
    simp only [List.filter_cons, hp', Bool.false_eq_true, if_false]
    cases (t.filter p).getLast? <;> simp

private theorem names_distinct :
    nMethod ≠ nPath ∧ nMethod ≠ nAuthority ∧ nMethod ≠ nScheme ∧ nMethod ≠ nStatus ∧ nPath ≠ nAuthority ∧
    nPath ≠ nScheme ∧ nPath ≠ nStatus ∧ nAuthority ≠ nScheme ∧ nAuthority ≠ nStatus ∧ nScheme ≠ nStatus := by decide

def gv (h : Hdr) : Bytes := h.value.getD []

theorem add_method (a : StreamAcc) (h : Hdr) :
    (a.add h).method = if h.name = nMethod then some (gv h) else a.method := by
  obtain ⟨d1, d2, d3, d4, _⟩ := names_distinct
  unfold StreamAcc.add gv
  by_cases h1 : h.name = nMethod
  · simp [h1]
  · simp only [h1, if_false]
    split <;> (try split) <;> (try split) <;> (try split) <;> rfl

theorem add_path (a : StreamAcc) (h : Hdr) :
    (a.add h).path = if h.name = nPath then some (gv h) else a.path := by
  obtain ⟨d1, d2, d3, d4, d5, d6, d7, _⟩ := names_distinct
  unfold StreamAcc.add gv
  by_cases h1 : h.name = nPath
  · simp [h1, d1.symm]
  · simp only [h1, if_false]
    split <;> (try split) <;> (try split) <;> (try split) <;> rfl

theorem add_authority (a : StreamAcc) (h : Hdr) :
    (a.add h).authority = if h.name = nAuthority then some (gv h) else a.authority := by
  obtain ⟨d1, d2, d3, d4, d5, d6, d7, d8, d9, d10⟩ := names_distinct
  unfold StreamAcc.add gv
  by_cases h1 : h.name = nAuthority
  · simp [h1, d2.symm, d5.symm]
  · simp only [h1, if_false]
    split <;> (try split) <;> (try split) <;> (try split) <;> rfl

theorem add_scheme (a : StreamAcc) (h : Hdr) :
    (a.add h).scheme = if h.name = nScheme then some (gv h) else a.scheme := by
  obtain ⟨d1, d2, d3, d4, d5, d6, d7, d8, d9, d10⟩ := names_distinct
  unfold StreamAcc.add gv
  by_cases h1 : h.name = nScheme
  · simp [h1, d3.symm, d6.symm, d8.symm]
  · simp only [h1, if_false]
    split <;> (try split) <;> (try split) <;> (try split) <;> rfl

theorem add_status (a : StreamAcc) (h : Hdr) :
    (a.add h).status = if h.name = nStatus then h.value.bind parseU16 else a.status := by
  obtain ⟨d1, d2, d3, d4, d5, d6, d7, d8, d9, d10⟩ := names_distinct
  unfold StreamAcc.add
  by_cases h1 : h.name = nStatus
  · simp [h1, d4.symm, d7.symm, d9.symm, d10.symm]
  · simp only [h1, if_false]
    split <;> (try split) <;> (try split) <;> (try split) <;> rfl

theorem add_headers (a : StreamAcc) (h : Hdr) :
    (a.add h).headers = if special h.name then a.headers else a.headers ++ [h] := by
  obtain ⟨d1, d2, d3, d4, d5, d6, d7, d8, d9, d10⟩ := names_distinct
  unfold StreamAcc.add special
  by_cases h1 : h.name = nMethod
  · simp [h1]
  · by_cases h2 : h.name = nPath
    · simp [h2, d1.symm]
    · by_cases h3 : h.name = nAuthority
      · simp [h3, d2.symm, d5.symm]
      · by_cases h4 : h.name = nScheme
        · simp [h4, d3.symm, d6.symm, d8.symm]
        · by_cases h5 : h.name = nStatus
          · simp [h5, d4.symm, d7.symm, d9.symm, d10.symm]
          · simp [h1, h2, h3, h4, h5]

/-- a slot of the accumulator that `add` overwrites when the name is `n` -/
theorem fold_slot {β} (get : StreamAcc → Option β) (n : Bytes) (val : Hdr → Option β)
    (hadd : ∀ a h, get (a.add h) = if h.name = n then val h else get a)
    (hval : ∀ h, h.name = n → (val h).isSome = true ∨ True) :
    ∀ (l : List Hdr) (a : StreamAcc),
      get (l.foldl StreamAcc.add a) =
        match (l.filter (fun h => h.name == n)).getLast? with
        | some h => val h
        | none => get a := by
  intro l
  induction l with
  | nil => intro a; rfl
  | cons h t ih =>
    intro a
    rw [List.foldl_cons, ih (a.add h), getLast?_filter_cons, hadd]
    by_cases hn : h.name = n
    · have : (h.name == n) = true := by simpa using hn
      simp only [hn, this, if_true]
      cases (t.filter (fun h => h.name == n)).getLast? <;> simp
    · have : (h.name == n) = false := by simpa using hn
      simp only [hn, this, if_false, Bool.false_eq_true]
      cases (t.filter (fun h => h.name == n)).getLast? <;> simp

theorem fold_headers : ∀ (l : List Hdr) (a : StreamAcc),
    (l.foldl StreamAcc.add a).headers = a.headers ++ l.filter (fun h => !special h.name) := by
  intro l
  induction l with
  | nil => intro a; simp
  | cons h t ih =>
    intro a
    rw [List.foldl_cons, ih, add_headers]
    by_cases hs : special h.name = true
    · simp [hs]
    · have : special h.name = false := by simpa using hs
      simp [this]

/-! ### from the decoded field list to the reported headers -/

/-- `HttpHeader` as the code builds it / as the specification reports it -/
def mk (p : Field × Nat) : Hdr :=
  { name := p.1.1, value := if p.1.2.isEmpty then none else some p.1.2, position := p.2 }
def mk' (p : Field × Nat) : Hdr := { name := p.1.1, value := some p.1.2, position := p.2 }

theorem toHdrs_eq (hs : List Field) : toHdrs hs = ((textFields hs).zipIdx).map mk := by
  unfold toHdrs textFields
  rw [List.zipIdx_map, List.map_map]
  apply List.map_congr_left
  intro p _
  rfl

theorem regular_eq (ts : List Field) :
    regular ts = (ts.zipIdx.filter (fun p => !isPseudoField p.1)).map mk' := rfl

theorem filter_zipIdx_fst {α} (q : α → Bool) (l : List α) :
    (l.zipIdx.filter (fun p => q p.1)).map Prod.fst = l.filter q := by
  have := List.filter_map (f := Prod.fst) (p := q) (l := l.zipIdx)
  rw [List.zipIdx_map_fst] at this
  rw [this]; rfl

theorem mem_of_mem_zipIdx {α} (l : List α) (p : α × Nat) (h : p ∈ l.zipIdx) : p.1 ∈ l := by
  have : p.1 ∈ (l.zipIdx).map Prod.fst := List.mem_map_of_mem h
  rwa [List.zipIdx_map_fst] at this

theorem last_eq_find {α} (p : α → Bool) (l : List α) (h : (l.filter p).length ≤ 1) :
    (l.filter p).getLast? = l.find? p := by
  rw [← List.head?_filter]
  rcases hf : l.filter p with _ | ⟨x, _ | ⟨y, r⟩⟩
  · rfl
  · rfl
  · rw [hf] at h; simp at h

/-- value the accumulator holds for pseudo-header `n` -/
theorem slot_value (ts : List Field) (n : Bytes) :
    (((ts.zipIdx.map mk).filter (fun h => h.name == n)).getLast?).map gv =
      ((ts.filter (fun f => f.1 == n)).getLast?).map (·.2) := by
  rw [List.filter_map, List.getLast?_map, Option.map_map]
  have h1 : (ts.zipIdx.filter ((fun h => h.name == n) ∘ mk)) = ts.zipIdx.filter (fun p => (fun f : Field => f.1 == n) p.1) := rfl
  rw [h1, ← filter_zipIdx_fst (fun f : Field => f.1 == n) ts, List.getLast?_map, Option.map_map]
  congr 1
  funext p
  simp only [Function.comp, gv, mk]
  by_cases he : p.1.2.isEmpty = true
  · simp [he, List.isEmpty_iff.mp he]
  · simp [he]

theorem special_pseudo (n : Bytes) (h : special n = true) : n.head? = some 58 := by
  simp only [special, Bool.or_eq_true, beq_iff_eq] at h
  rcases h with (((h | h) | h) | h) | h <;> subst h <;> decide

theorem lower_fixed : lowerAscii nCookie = nCookie ∧ lowerAscii nReferer = nReferer ∧
    lowerAscii nUserAgent = nUserAgent ∧ lowerAscii nAcceptLanguage = nAcceptLanguage ∧
    lowerAscii nServer = nServer := by decide

theorem lowerByte_idem : ∀ b : UInt8, lowerByte (lowerByte b) = lowerByte b := by
  apply all_u8; decide +kernel

theorem lower_idem (s : Bytes) : lowerAscii (lowerAscii s) = lowerAscii s := by
  unfold lowerAscii
  rw [List.map_map]
  apply List.map_congr_left
  intro b _
  exact lowerByte_idem b

/-! ### cookies -/

theorem findIdx_eq (s : Bytes) :
    match s.findIdx? (· == 61) with
    | some i => s.contains 61 = true ∧ s.takeWhile (· != 61) = s.take i ∧ s.dropWhile (· != 61) = s.drop i
    | none => s.contains 61 = false := by
  induction s with
  | nil => simp
  | cons b r ih =>
    rw [List.findIdx?_cons]
    by_cases hb : (b == 61) = true
    · have hb' : b = 61 := by simpa using hb
      subst hb'
      simp
    · have hb' : (b == 61) = false := by simpa using hb
      have hne : b ≠ 61 := by simpa using hb
      have hne' : (b != 61) = true := by simpa using hne
      simp only [hb', Bool.false_eq_true, if_false]
      cases hf : r.findIdx? (· == 61) with
      | none =>
        rw [hf] at ih
        simp only [Option.map_none]
        have hnm : ¬ (61 : UInt8) ∈ r := by simpa using ih
        simp only [List.contains_cons]
        simp [hnm]
        exact fun h => hne h.symm
      | some i =>
        rw [hf] at ih
        obtain ⟨h1, h2, h3⟩ := ih
        have hm : (61 : UInt8) ∈ r := by simpa using h1
        simp only [Option.map_some]
        refine ⟨by simp [hm], ?_, ?_⟩
        · simp only [List.takeWhile, hne', List.take_succ_cons, h2]
        · simp only [List.dropWhile, hne', List.drop_succ_cons, h3]

theorem cookie_eq (c : Bytes) (i : Nat) : cookieOf c i = cookieOfCrumb c i := by
  have := findIdx_eq c
  unfold cookieOf cookieOfCrumb
  cases hf : c.findIdx? (· == 61) with
  | none =>
    rw [hf] at this
    simp only at this
    simp only [this, Bool.false_eq_true, if_false]
  | some k =>
    rw [hf] at this
    obtain ⟨h1, h2, h3⟩ := this
    simp only [h1, if_true, h2, h3, List.drop_drop]

theorem nonempty_pred : (fun p : Bytes => !p.isEmpty) = (fun p : Bytes => decide (p ≠ [])) := by
  funext p; cases p <;> simp

/-- the cookie crumbs the code extracts from the headers it built = the crumbs of the specification -/
theorem flatMap_congr' {α β} {f g : α → List β} : ∀ (l : List α), (∀ a ∈ l, f a = g a) → l.flatMap f = l.flatMap g := by
  intro l
  induction l with
  | nil => intro _; rfl
  | cons a l ih =>
    intro h
    simp only [List.flatMap_cons]
    rw [h a (by simp), ih (fun x hx => h x (List.mem_cons_of_mem _ hx))]

theorem cookies_eq (R : List (Field × Nat)) :
    parseCookies ((((R.map mk).filter (fun h => lowerAscii h.name == nCookie))).map (·.value))
      = cookies (R.map mk') := by
  have hpieces :
      ((((R.map mk).filter (fun h => lowerAscii h.name == nCookie))).map (·.value)).flatMap piecesOf
      = (((((R.map mk').filter isCookie).flatMap (fun h => splitOn 59 (h.value.getD []))).map trimAscii).filter (· ≠ [])) := by
    conv => lhs; rw [List.filter_map, List.map_map, List.flatMap_map]
    conv => rhs; rw [List.filter_map, List.filter_map, List.flatMap_map, List.filter_flatMap, List.map_flatMap]
    have hp : ((fun h : Hdr => lowerAscii h.name == nCookie) ∘ mk) = (isCookie ∘ mk') := by
      funext p
      simp only [Function.comp, mk, mk', isCookie, eqIgnoreCase, lower_fixed.1]
    rw [hp]
    apply flatMap_congr'
    intro p _
    simp only [Function.comp, mk, mk', Option.getD_some]
    by_cases he : p.1.2.isEmpty = true
    · have : p.1.2 = [] := List.isEmpty_iff.mp he
      simp [he, this, splitOn, trimAscii, piecesOf]
    · simp only [he, Bool.false_eq_true, if_false, nonempty_pred, piecesOf]
      rw [List.filter_map]
  simp only [parseCookies, cookies, crumbs]
  rw [hpieces]
  apply List.map_congr_left
  intro p _
  exact cookie_eq p.1 p.2

/-! ### user agent, language, server; the p0f signature -/

theorem lastValue_eq_valueOf (Hs : List Hdr) (key : Bytes) (hk : lowerAscii key = key)
    (hsome : ∀ h ∈ Hs, eqIgnoreCase h.name key = true → h.value.isSome = true)
    (hc : countHdr Hs key ≤ 1) : lastValue Hs key = valueOf Hs key := by
  unfold lastValue valueOf
  have hpred : Hs.filter (fun h => lowerAscii h.name == key && h.value.isSome)
      = Hs.filter (fun h => eqIgnoreCase h.name key) := by
    apply List.filter_congr
    intro h hh
    simp only [eqIgnoreCase, hk]
    by_cases he : (lowerAscii h.name == key) = true
    · have := hsome h hh (by simp only [eqIgnoreCase, hk]; exact he)
      simp [he, this]
    · have : (lowerAscii h.name == key) = false := by simpa using he
      simp [this]
  rw [hpred, last_eq_find _ _ hc]

theorem contains_lower_false (l : List Bytes) (n : Bytes) (h : inListIgnoreCase l n = false) :
    l.contains (lowerAscii n) = false := by
  unfold inListIgnoreCase at h
  rw [List.any_eq_false] at h
  rw [Bool.eq_false_iff]
  intro hc
  rw [List.contains_iff_mem] at hc
  have := h (lowerAscii n) hc
  simp [eqIgnoreCase, lower_idem] at this

theorem toSig_eq (ol sl : List Bytes) (Hs : List Hdr) (h : KF.C16.listCase ol sl Hs = false) :
    toSigHeaders ol sl Hs = Hs.map (sigOf ol sl) := by
  unfold toSigHeaders
  apply List.map_congr_left
  intro x hx
  unfold KF.C16.listCase at h
  rw [List.any_eq_false] at h
  have := h x hx
  simp only [Bool.or_eq_true, not_or, Bool.not_eq_true] at this
  unfold sigOf
  simp only [contains_lower_false _ _ this.1, contains_lower_false _ _ this.2, this.1, this.2,
    Bool.false_eq_true, if_false]

theorem absent_eq (cl : List Bytes) (Hs : List Hdr) : absentHeaders cl Hs = absent cl Hs := by
  simp only [absentHeaders, absent]
  congr 1
  apply List.filter_congr
  intro c _
  congr 1
  rw [Bool.eq_iff_iff]
  simp only [List.contains_iff_mem, List.mem_map, List.any_eq_true, eqIgnoreCase, beq_iff_eq]

end Huginn.Lemmas.H2Message
