import Huginn.Model.H2Message
import Huginn.Spec.H2Message
import Huginn.Lemmas.Akamai
set_option linter.unusedSimpArgs false
set_option linter.unusedVariables false
/-
Helper lemmas for Props/C16.
-/
namespace Huginn.Lemmas.H2Message
open Huginn.H2 Huginn.Spec.H2 Huginn.Spec.H2Message Huginn.Lemmas.Akamai

theorem ty_eq9 : ∀ t : UInt8, (t == tyContinuation) = (t.toNat == 9) := by apply all_u8; decide +kernel

/-! ### the message's frames -/

theorem mem_takeWhile {α} (p : α → Bool) : ∀ (l : List α) (x : α), x ∈ l.takeWhile p → p x = true := by
  intro l
  induction l with
  | nil => intro x h; simp at h
  | cons a l ih =>
    intro x h
    simp only [List.takeWhile] at h
    by_cases hp : p a = true
    · simp only [hp] at h
      cases h with
      | head => exact hp
      | tail _ h => exact ih x h
    · have : p a = false := by simpa using hp
      simp [this] at h

theorem firstWithRest_split (p : Frame → Bool) : ∀ (l : List Frame) (f : Frame) (r : List Frame),
    firstWithRest p l = some (f, r) → l = l.takeWhile (fun g => !p g) ++ f :: r ∧ p f = true := by
  intro l
  induction l with
  | nil => intro f r h; simp [firstWithRest] at h
  | cons g gs ih =>
    intro f r h
    simp only [firstWithRest] at h
    by_cases hp : p g = true
    · simp only [hp, if_true, Option.some.injEq, Prod.mk.injEq] at h
      obtain ⟨h1, h2⟩ := h
      subst h1; subst h2
      simp [List.takeWhile, hp]
    · have hp' : p g = false := by simpa using hp
      simp only [hp', Bool.false_eq_true, if_false] at h
      obtain ⟨h1, h2⟩ := ih f r h
      refine ⟨?_, h2⟩
      simp only [List.takeWhile, hp', Bool.not_false, List.cons_append]
      rw [← h1]

theorem find_of_firstWithRest (p : Frame → Bool) (l : List Frame) (f : Frame) (r : List Frame)
    (h : firstWithRest p l = some (f, r)) : l.find? p = some f := by
  rw [← firstWithRest_find, h]; rfl

theorem pred_msgHeaders : (fun f : Frame => decide (f.sid > 0) && f.ty == tyHeaders) = isMsgHeaders := by
  funext f
  simp only [isMsgHeaders, isHeaders, ty_eq1]
  by_cases h : f.sid = 0
  · simp [h]
  · have h' : 0 < f.sid := by omega
    simp [h, h', Bool.and_comm]

/-- with no block pending, frames that are not HEADERS change nothing -/
theorem assemble_skip : ∀ (l rest : List Frame) (acc : List Bytes),
    (∀ g ∈ l, isHeaders g = false) → assembleLoop (l ++ rest) none acc = assembleLoop rest none acc := by
  intro l
  induction l with
  | nil => intro rest acc _; rfl
  | cons g gs ih =>
    intro rest acc h
    have hg : (g.ty == tyHeaders) = false := by rw [ty_eq1]; exact h g (by simp)
    simp only [List.cons_append, assembleLoop, hg, Bool.false_eq_true, if_false]
    by_cases hc : (g.ty == tyContinuation) = true
    · simp only [hc, if_true]
      exact ih rest acc (fun x hx => h x (List.mem_cons_of_mem _ hx))
    · simp only [hc, if_false]
      exact ih rest acc (fun x hx => h x (List.mem_cons_of_mem _ hx))

theorem assemble_skip_all (l : List Frame) (acc : List Bytes) (h : ∀ g ∈ l, isHeaders g = false) :
    assembleLoop l none acc = some acc := by
  have := assemble_skip l [] acc h
  rw [List.append_nil] at this
  rw [this]; simp [assembleLoop]

/-- the CONTINUATION frames that complete a block (RFC 7540 §6.10) are joined to the pending
fragment; `k` of them are consumed -/
theorem assemble_conts (sid : Nat) : ∀ (after : List Frame) (p : Bytes) (acc : List Bytes) (b' : Bytes),
    continuations sid after = .complete b' →
    assembleLoop (after.filter (fun g => g.sid == sid)) (some p) acc =
      assembleLoop ((after.drop ((after.takeWhile (fun g => !endHeaders g)).length + 1)).filter (fun g => g.sid == sid))
        none (acc ++ [p ++ b']) := by
  intro after
  induction after with
  | nil => intro p acc b' h; simp [continuations] at h
  | cons g r ih =>
    intro p acc b' h
    simp only [continuations] at h
    by_cases hc : (isContinuation g && g.sid == sid) = true
    · simp only [hc, if_true] at h
      simp only [Bool.and_eq_true] at hc
      have hty1 : (g.ty == tyHeaders) = false := by
        rw [ty_eq1]; have := hc.1; simp only [isContinuation, beq_iff_eq] at this; simp [this]
      have hty9 : (g.ty == tyContinuation) = true := by rw [ty_eq9]; exact hc.1
      simp only [List.filter_cons, hc.2, if_true, assembleLoop, hty1, hty9, Bool.false_eq_true, if_false, flag4]
      by_cases he : endHeaders g = true
      · have he' : flagSet g.flags 4 = true := he
        simp only [he, if_true] at h
        cases h
        simp [he', List.takeWhile, he]
      · have he0 : endHeaders g = false := by simpa using he
        have he' : flagSet g.flags 4 = false := he0
        simp only [he0, Bool.false_eq_true, if_false] at h
        cases hr : continuations sid r with
        | complete b'' =>
          rw [hr] at h
          simp only at h
          cases h
          simp only [he', Bool.false_eq_true, if_false]
          rw [ih (p ++ g.payload) acc b'' hr]
          simp [List.takeWhile, he0, List.append_assoc]
        | incomplete => rw [hr] at h; simp at h
        | malformed => rw [hr] at h; simp at h
    · have hc' : (isContinuation g && g.sid == sid) = false := by simpa using hc
      simp only [hc', Bool.false_eq_true, if_false] at h
      cases h

/-- a complete header block for the message (RFC 7540 §6.2/§6.10), nothing header-bearing on the
stream after it: the first loop of `build_stream` produces exactly that one block, and it is decoded
once with a fresh decoder -/
theorem buildStream_block (H : Hpack) (frames : List Frame) (f : Frame) (after : List Frame) (b : Bytes)
    (hs : List Field) (σ' : H.σ)
    (hblk : primaryBlock frames = some (f, after, .complete b))
    (hdec : H.dec H.init b = (some hs, σ'))
    (hlater : noLaterBlocks f after = true) :
    findPrimary frames = some f.sid ∧
    buildStream H f.sid frames = some ((toHdrs hs).foldl StreamAcc.add {}) := by
  unfold primaryBlock at hblk
  cases hfw : firstWithRest isMsgHeaders frames with
  | none => rw [hfw] at hblk; simp at hblk
  | some p =>
    obtain ⟨f', after'⟩ := p
    rw [hfw] at hblk
    simp only [Option.map_some, Option.some.injEq, Prod.mk.injEq] at hblk
    obtain ⟨e1, e2, hb⟩ := hblk
    subst e1; subst e2
    obtain ⟨hsplit, hpf⟩ := firstWithRest_split isMsgHeaders frames f' after' hfw
    have hsid : f'.sid ≠ 0 := by
      simp only [isMsgHeaders, Bool.and_eq_true, bne_iff_ne] at hpf
      exact hpf.2
    have hhd : isHeaders f' = true := by
      simp only [isMsgHeaders, Bool.and_eq_true] at hpf
      exact hpf.1
    refine ⟨?_, ?_⟩
    · unfold findPrimary
      rw [pred_msgHeaders, find_of_firstWithRest _ _ _ _ hfw]; rfl
    · have hfilter : frames.filter (fun g => g.sid == f'.sid) =
          (frames.takeWhile (fun g => !isMsgHeaders g)).filter (fun g => g.sid == f'.sid) ++
            f' :: after'.filter (fun g => g.sid == f'.sid) := by
        conv => lhs; rw [hsplit]
        rw [List.filter_append, List.filter_cons]
        simp
      have hpre : ∀ g ∈ (frames.takeWhile (fun g => !isMsgHeaders g)).filter (fun g => g.sid == f'.sid),
          isHeaders g = false := by
        intro g hg
        rw [List.mem_filter] at hg
        obtain ⟨hg1, hg2⟩ := hg
        have hgs : g.sid = f'.sid := by simpa using hg2
        have hnot : isMsgHeaders g = false := by
          have := mem_takeWhile _ _ _ hg1
          simpa using this
        simp only [isMsgHeaders, Bool.and_eq_false_iff] at hnot
        rcases hnot with h | h
        · exact h
        · exfalso
          have : g.sid = 0 := by simpa using h
          exact hsid (hgs ▸ this)
      -- the block
      have hassemble : assembleLoop (f' :: after'.filter (fun g => g.sid == f'.sid)) none [] = some [b] := by
        have hty : (f'.ty == tyHeaders) = true := by rw [ty_eq1]; exact hhd
        unfold headerBlock at hb
        simp only [assembleLoop, hty, if_true, fragmentOf_eq, flag4]
        cases hfrag : headersFragment f' with
        | none => rw [hfrag] at hb; simp at hb
        | some frag =>
          rw [hfrag] at hb
          simp only at hb ⊢
          unfold noLaterBlocks contCount at hlater
          by_cases he : endHeaders f' = true
          · have he' : flagSet f'.flags 4 = true := he
            simp only [he, if_true] at hb hlater
            cases hb
            simp only [he', if_true, List.drop_zero] at hlater ⊢
            rw [List.all_eq_true] at hlater
            rw [assemble_skip_all]
            · simp
            · intro g hg
              have := hlater g hg
              simp only [Bool.and_eq_true, Bool.not_eq_true'] at this
              exact this.1
          · have he0 : endHeaders f' = false := by simpa using he
            have he' : flagSet f'.flags 4 = false := he0
            simp only [he0, Bool.false_eq_true, if_false] at hb hlater
            simp only [he', Bool.false_eq_true, if_false]
            cases hr : continuations f'.sid after' with
            | complete b' =>
              rw [hr] at hb
              simp only at hb
              cases hb
              rw [assemble_conts f'.sid after' frag _ b' hr]
              rw [List.all_eq_true] at hlater
              rw [assemble_skip_all]
              · simp
              · intro g hg
                have := hlater g hg
                simp only [Bool.and_eq_true, Bool.not_eq_true'] at this
                exact this.1
            | incomplete => rw [hr] at hb; simp at hb
            | malformed => rw [hr] at hb; simp at hb
      unfold buildStream
      rw [hfilter, assemble_skip _ _ _ hpre, hassemble]
      simp only [decodeBlocks, hdec]

/-! ### the accumulator of `build_stream` -/

def special (n : Bytes) : Bool := n == nMethod || n == nPath || n == nAuthority || n == nScheme || n == nStatus

theorem getLast?_filter_cons {α} (p : α → Bool) (h : α) (t : List α) :
    ((h :: t).filter p).getLast? = ((t.filter p).getLast?).or (if p h then some h else none) := by
  by_cases hp : p h = true
  · simp only [List.filter_cons, hp, if_true, List.getLast?_cons]
    cases (t.filter p).getLast? <;> simp
  · have hp' : p h = false := by simpa using hp
    simp only [List.filter_cons, hp', Bool.false_eq_true, if_false]
    cases (t.filter p).getLast? <;> simp

private theorem names_distinct :
    nMethod ≠ nPath ∧ nMethod ≠ nAuthority ∧ nMethod ≠ nScheme ∧ nMethod ≠ nStatus ∧ nPath ≠ nAuthority ∧
    nPath ≠ nScheme ∧ nPath ≠ nStatus ∧ nAuthority ≠ nScheme ∧ nAuthority ≠ nStatus ∧ nScheme ≠ nStatus := by decide

def gv (h : Hdr) : Bytes := h.value.getD []

theorem add_method (a : StreamAcc) (h : Hdr) :
    (a.add h).method = if h.name = nMethod then some (gv h) else a.method := by
  obtain ⟨d1, d2, d3, d4, _⟩ := names_distinct
  unfold StreamAcc.add gv
  by_cases h1 : h.name = nMethod
  · simp [h1]
  · simp only [h1, if_false]
    split <;> (try split) <;> (try split) <;> (try split) <;> rfl

theorem add_path (a : StreamAcc) (h : Hdr) :
    (a.add h).path = if h.name = nPath then some (gv h) else a.path := by
  obtain ⟨d1, d2, d3, d4, d5, d6, d7, _⟩ := names_distinct
  unfold StreamAcc.add gv
  by_cases h1 : h.name = nPath
  · simp [h1, d1.symm]
  · simp only [h1, if_false]
    split <;> (try split) <;> (try split) <;> (try split) <;> rfl

theorem add_authority (a : StreamAcc) (h : Hdr) :
    (a.add h).authority = if h.name = nAuthority then some (gv h) else a.authority := by
  obtain ⟨d1, d2, d3, d4, d5, d6, d7, d8, d9, d10⟩ := names_distinct
  unfold StreamAcc.add gv
  by_cases h1 : h.name = nAuthority
  · simp [h1, d2.symm, d5.symm]
  · simp only [h1, if_false]
    split <;> (try split) <;> (try split) <;> (try split) <;> rfl

theorem add_scheme (a : StreamAcc) (h : Hdr) :
    (a.add h).scheme = if h.name = nScheme then some (gv h) else a.scheme := by
  obtain ⟨d1, d2, d3, d4, d5, d6, d7, d8, d9, d10⟩ := names_distinct
  unfold StreamAcc.add gv
  by_cases h1 : h.name = nScheme
  · simp [h1, d3.symm, d6.symm, d8.symm]
  · simp only [h1, if_false]
    split <;> (try split) <;> (try split) <;> (try split) <;> rfl

theorem add_status (a : StreamAcc) (h : Hdr) :
    (a.add h).status = if h.name = nStatus then h.value.bind parseU16 else a.status := by
  obtain ⟨d1, d2, d3, d4, d5, d6, d7, d8, d9, d10⟩ := names_distinct
  unfold StreamAcc.add
  by_cases h1 : h.name = nStatus
  · simp [h1, d4.symm, d7.symm, d9.symm, d10.symm]
  · simp only [h1, if_false]
    split <;> (try split) <;> (try split) <;> (try split) <;> rfl

theorem add_headers (a : StreamAcc) (h : Hdr) :
    (a.add h).headers = if special h.name then a.headers else a.headers ++ [h] := by
  obtain ⟨d1, d2, d3, d4, d5, d6, d7, d8, d9, d10⟩ := names_distinct
  unfold StreamAcc.add special
  by_cases h1 : h.name = nMethod
  · simp [h1]
  · by_cases h2 : h.name = nPath
    · simp [h2, d1.symm]
    · by_cases h3 : h.name = nAuthority
      · simp [h3, d2.symm, d5.symm]
      · by_cases h4 : h.name = nScheme
        · simp [h4, d3.symm, d6.symm, d8.symm]
        · by_cases h5 : h.name = nStatus
          · simp [h5, d4.symm, d7.symm, d9.symm, d10.symm]
          · simp [h1, h2, h3, h4, h5]

/-- a slot of the accumulator that `add` overwrites when the name is `n` -/
theorem fold_slot {β} (get : StreamAcc → Option β) (n : Bytes) (val : Hdr → Option β)
    (hadd : ∀ a h, get (a.add h) = if h.name = n then val h else get a)
    (hval : ∀ h, h.name = n → (val h).isSome = true ∨ True) :
    ∀ (l : List Hdr) (a : StreamAcc),
      get (l.foldl StreamAcc.add a) =
        match (l.filter (fun h => h.name == n)).getLast? with
        | some h => val h
        | none => get a := by
  intro l
  induction l with
  | nil => intro a; rfl
  | cons h t ih =>
    intro a
    rw [List.foldl_cons, ih (a.add h), getLast?_filter_cons, hadd]
    by_cases hn : h.name = n
    · have : (h.name == n) = true := by simpa using hn
      simp only [hn, this, if_true]
      cases (t.filter (fun h => h.name == n)).getLast? <;> simp
    · have : (h.name == n) = false := by simpa using hn
      simp only [hn, this, if_false, Bool.false_eq_true]
      cases (t.filter (fun h => h.name == n)).getLast? <;> simp

theorem fold_headers : ∀ (l : List Hdr) (a : StreamAcc),
    (l.foldl StreamAcc.add a).headers = a.headers ++ l.filter (fun h => !special h.name) := by
  intro l
  induction l with
  | nil => intro a; simp
  | cons h t ih =>
    intro a
    rw [List.foldl_cons, ih, add_headers]
    by_cases hs : special h.name = true
    · simp [hs]
    · have : special h.name = false := by simpa using hs
      simp [this]

/-! ### from the decoded field list to the reported headers -/

/-- `HttpHeader` as the code builds it / as the specification reports it -/
def mk (p : Field × Nat) : Hdr := { name := p.1.1, value := some p.1.2, position := p.2 }
def mk' (p : Field × Nat) : Hdr := { name := p.1.1, value := some p.1.2, position := p.2 }

theorem toHdrs_eq (hs : List Field) : toHdrs hs = ((textFields hs).zipIdx).map mk := by
  unfold toHdrs textFields
  rw [List.zipIdx_map, List.map_map]
  apply List.map_congr_left
  intro p _
  rfl

theorem regular_eq (ts : List Field) :
    regular ts = (ts.zipIdx.filter (fun p => !isPseudoField p.1)).map mk' := rfl

theorem filter_zipIdx_fst {α} (q : α → Bool) (l : List α) :
    (l.zipIdx.filter (fun p => q p.1)).map Prod.fst = l.filter q := by
  have := List.filter_map (f := Prod.fst) (p := q) (l := l.zipIdx)
  rw [List.zipIdx_map_fst] at this
  rw [this]; rfl

theorem mem_of_mem_zipIdx {α} (l : List α) (p : α × Nat) (h : p ∈ l.zipIdx) : p.1 ∈ l := by
  have : p.1 ∈ (l.zipIdx).map Prod.fst := List.mem_map_of_mem h
  rwa [List.zipIdx_map_fst] at this

theorem last_eq_find {α} (p : α → Bool) (l : List α) (h : (l.filter p).length ≤ 1) :
    (l.filter p).getLast? = l.find? p := by
  rw [← List.head?_filter]
  rcases hf : l.filter p with _ | ⟨x, _ | ⟨y, r⟩⟩
  · rfl
  · rfl
  · rw [hf] at h; simp at h

/-- value the accumulator holds for pseudo-header `n` -/
theorem slot_value (ts : List Field) (n : Bytes) :
    (((ts.zipIdx.map mk).filter (fun h => h.name == n)).getLast?).map gv =
      ((ts.filter (fun f => f.1 == n)).getLast?).map (·.2) := by
  rw [List.filter_map, List.getLast?_map, Option.map_map]
  have h1 : (ts.zipIdx.filter ((fun h => h.name == n) ∘ mk)) = ts.zipIdx.filter (fun p => (fun f : Field => f.1 == n) p.1) := rfl
  rw [h1, ← filter_zipIdx_fst (fun f : Field => f.1 == n) ts, List.getLast?_map, Option.map_map]
  rfl

theorem special_pseudo (n : Bytes) (h : special n = true) : n.head? = some 58 := by
  simp only [special, Bool.or_eq_true, beq_iff_eq] at h
  rcases h with (((h | h) | h) | h) | h <;> subst h <;> decide

theorem lower_fixed : lowerAscii nCookie = nCookie ∧ lowerAscii nReferer = nReferer ∧
    lowerAscii nUserAgent = nUserAgent ∧ lowerAscii nAcceptLanguage = nAcceptLanguage ∧
    lowerAscii nServer = nServer := by decide

theorem lowerByte_idem : ∀ b : UInt8, lowerByte (lowerByte b) = lowerByte b := by
  apply all_u8; decide +kernel

theorem lower_idem (s : Bytes) : lowerAscii (lowerAscii s) = lowerAscii s := by
  unfold lowerAscii
  rw [List.map_map]
  apply List.map_congr_left
  intro b _
  exact lowerByte_idem b

/-! ### cookies -/

theorem findIdx_eq (s : Bytes) :
    match s.findIdx? (· == 61) with
    | some i => s.contains 61 = true ∧ s.takeWhile (· != 61) = s.take i ∧ s.dropWhile (· != 61) = s.drop i
    | none => s.contains 61 = false := by
  induction s with
  | nil => simp
  | cons b r ih =>
    rw [List.findIdx?_cons]
    by_cases hb : (b == 61) = true
    · have hb' : b = 61 := by simpa using hb
      subst hb'
      simp
    · have hb' : (b == 61) = false := by simpa using hb
      have hne : b ≠ 61 := by simpa using hb
      have hne' : (b != 61) = true := by simpa using hne
      simp only [hb', Bool.false_eq_true, if_false]
      cases hf : r.findIdx? (· == 61) with
      | none =>
        rw [hf] at ih
        simp only [Option.map_none]
        have hnm : ¬ (61 : UInt8) ∈ r := by simpa using ih
        simp only [List.contains_cons]
        simp [hnm]
        exact fun h => hne h.symm
      | some i =>
        rw [hf] at ih
        obtain ⟨h1, h2, h3⟩ := ih
        have hm : (61 : UInt8) ∈ r := by simpa using h1
        simp only [Option.map_some]
        refine ⟨by simp [hm], ?_, ?_⟩
        · simp only [List.takeWhile, hne', List.take_succ_cons, h2]
        · simp only [List.dropWhile, hne', List.drop_succ_cons, h3]

theorem cookie_eq (c : Bytes) (i : Nat) : cookieOf c i = cookieOfCrumb c i := by
  have := findIdx_eq c
  unfold cookieOf cookieOfCrumb
  cases hf : c.findIdx? (· == 61) with
  | none =>
    rw [hf] at this
    simp only at this
    simp only [this, Bool.false_eq_true, if_false]
  | some k =>
    rw [hf] at this
    obtain ⟨h1, h2, h3⟩ := this
    simp only [h1, if_true, h2, h3, List.drop_drop]

theorem nonempty_pred : (fun p : Bytes => !p.isEmpty) = (fun p : Bytes => decide (p ≠ [])) := by
  funext p; cases p <;> simp

/-- the cookie crumbs the code extracts from the headers it built = the crumbs of the specification -/
theorem flatMap_congr' {α β} {f g : α → List β} : ∀ (l : List α), (∀ a ∈ l, f a = g a) → l.flatMap f = l.flatMap g := by
  intro l
  induction l with
  | nil => intro _; rfl
  | cons a l ih =>
    intro h
    simp only [List.flatMap_cons]
    rw [h a (by simp), ih (fun x hx => h x (List.mem_cons_of_mem _ hx))]

theorem cookies_eq (R : List (Field × Nat)) :
    parseCookies ((((R.map mk).filter (fun h => lowerAscii h.name == nCookie))).map (·.value))
      = cookies (R.map mk') := by
  have hpieces :
      ((((R.map mk).filter (fun h => lowerAscii h.name == nCookie))).map (·.value)).flatMap piecesOf
      = (((((R.map mk').filter isCookie).flatMap (fun h => splitOn 59 (h.value.getD []))).map trimAscii).filter (· ≠ [])) := by
    conv => lhs; rw [List.filter_map, List.map_map, List.flatMap_map]
    conv => rhs; rw [List.filter_map, List.filter_map, List.flatMap_map, List.filter_flatMap, List.map_flatMap]
    have hp : ((fun h : Hdr => lowerAscii h.name == nCookie) ∘ mk) = (isCookie ∘ mk') := by
      funext p
      simp only [Function.comp, mk, mk', isCookie, eqIgnoreCase, lower_fixed.1]
    rw [hp]
    apply flatMap_congr'
    intro p _
    simp only [Function.comp, mk, mk', Option.getD_some]
    by_cases he : p.1.2.isEmpty = true
    · have : p.1.2 = [] := List.isEmpty_iff.mp he
      simp [he, this, splitOn, trimAscii, piecesOf]
    · simp only [he, Bool.false_eq_true, if_false, nonempty_pred, piecesOf]
      rw [List.filter_map]
  simp only [parseCookies, cookies, crumbs]
  rw [hpieces]
  apply List.map_congr_left
  intro p _
  exact cookie_eq p.1 p.2

/-! ### user agent, language, server; the p0f signature -/

theorem lastValue_eq_valueOf (Hs : List Hdr) (key : Bytes) (hk : lowerAscii key = key)
    (hsome : ∀ h ∈ Hs, eqIgnoreCase h.name key = true → h.value.isSome = true)
    (hc : countHdr Hs key ≤ 1) : lastValue Hs key = valueOf Hs key := by
  unfold lastValue valueOf
  have hpred : Hs.filter (fun h => lowerAscii h.name == key && h.value.isSome)
      = Hs.filter (fun h => eqIgnoreCase h.name key) := by
    apply List.filter_congr
    intro h hh
    simp only [eqIgnoreCase, hk]
    by_cases he : (lowerAscii h.name == key) = true
    · have := hsome h hh (by simp only [eqIgnoreCase, hk]; exact he)
      simp [he, this]
    · have : (lowerAscii h.name == key) = false := by simpa using he
      simp [this]
  rw [hpred, last_eq_find _ _ hc]

theorem listedIn_eq (l : List Bytes) (n : Bytes) : listedIn l n = inListIgnoreCase l n := by
  unfold listedIn inListIgnoreCase eqIgnoreCase
  congr 1
  funext e
  rw [Bool.eq_iff_iff]
  simp only [beq_iff_eq]
  exact eq_comm

/-- the code's list lookup is the specification's, for every header list -/
theorem toSig_eq (ol sl : List Bytes) (Hs : List Hdr) : toSigHeaders ol sl Hs = Hs.map (sigOf ol sl) := by
  unfold toSigHeaders
  apply List.map_congr_left
  intro x _
  unfold sigOf
  simp only [listedIn_eq]

theorem absent_eq (cl : List Bytes) (Hs : List Hdr) : absentHeaders cl Hs = absent cl Hs := by
  simp only [absentHeaders, absent]
  congr 1
  apply List.filter_congr
  intro c _
  congr 1
  rw [Bool.eq_iff_iff]
  simp only [List.contains_iff_mem, List.mem_map, List.any_eq_true, eqIgnoreCase, beq_iff_eq]

end Huginn.Lemmas.H2Message
