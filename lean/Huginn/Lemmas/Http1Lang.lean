import Huginn.Lemmas.Http1Parse
/-
Helper lemmas for C05: `get_highest_quality_language` on a rendered RFC 7231 Accept-Language list
against `Spec.preferredLang`.
-/
namespace Huginn.Http1
open Huginn.Http1.Spec Huginn.Gen
set_option linter.unusedSimpArgs false

/-! ### bytes of an element -/

theorem alnum_facts : ∀ b, (!(isAlpha b || isDigitB b) || (isVchar b && b != 44 && b != 59 && b != 45)) = true :=
  forall_uint8 _ (by decide +kernel)

theorem ows_facts : ∀ b, (!isOws b || (b != 44 && b != 59 && b != 45)) = true :=
  forall_uint8 _ (by decide +kernel)

theorem digitB_facts : ∀ b, (!isDigitB b || (isDigit b && b != 44 && b != 59 && b != 113 && b != 43 && b != 45 && b != 46)) = true :=
  forall_uint8 _ (by decide +kernel)

theorem mem_splitByte (c : UInt8) : ∀ (t : Bytes) (b : UInt8), b ∈ t → b = c ∨ ∃ p ∈ splitByte c t, b ∈ p
  | [], b, h => by simp at h
  | a :: r, b, h => by
    simp at h
    unfold splitByte
    by_cases hac : a = c
    · simp only [hac, if_true]
      rcases h with rfl | h
      · left; exact hac
      · rcases mem_splitByte c r b h with h' | ⟨p, hp, hb⟩
        · left; exact h'
        · right; exact ⟨p, by simp [hp], hb⟩
    · simp only [hac, if_false]
      cases hs : splitByte c r with
      | nil =>
        rcases h with rfl | h
        · right; exact ⟨[b], by simp [consHead], by simp⟩
        · rcases mem_splitByte c r b h with h' | ⟨p, hp, hb⟩
          · left; exact h'
          · rw [hs] at hp; simp at hp
      | cons l ls =>
        rcases h with rfl | h
        · right; exact ⟨b :: l, by simp [consHead], by simp⟩
        · rcases mem_splitByte c r b h with h' | ⟨p, hp, hb⟩
          · left; exact h'
          · rw [hs] at hp; simp at hp
            rcases hp with rfl | hp
            · right; exact ⟨a :: p, by simp [consHead], by simp [hb]⟩
            · right; exact ⟨p, by simp [consHead, hp], hb⟩

/-- the bytes a language-range is made of -/
def tagByte (b : UInt8) : Bool := isAlpha b || isDigitB b || b == 45 || b == 42

theorem tagByte_facts : ∀ b, (!tagByte b || (isVchar b && b != 44 && b != 59)) = true :=
  forall_uint8 _ (by decide +kernel)

theorem langRange_bytes (t : Bytes) (h : LangRange t) : t.all tagByte = true ∧ t ≠ [] := by
  rcases h with rfl | h
  · exact ⟨by decide, by simp⟩
  · constructor
    · rw [List.all_eq_true]
      intro b hb
      rcases mem_splitByte 45 t b hb with rfl | ⟨p, hp, hbp⟩
      · decide
      · cases hs : splitByte 45 t with
        | nil => rw [hs] at hp; simp at hp
        | cons p0 subs =>
          rw [hs] at h hp
          unfold LangRangeParts at h
          simp at hp
          rcases hp with rfl | hp
          · have := List.all_eq_true.mp h.1.2.2 b hbp
            unfold tagByte; simp [this]
          · have := List.all_eq_true.mp (h.2 p hp).2.2 b hbp
            unfold isAlnum at this
            unfold tagByte
            simp only [Bool.or_eq_true] at this ⊢
            rcases this with h' | h'
            · left; left; left; exact h'
            · left; left; right; exact h'
    · intro e; subst e
      simp [splitByte, LangRangeParts] at h

/-- the quality the code reads off a well-formed `;q=` weight -/
def qOfWeight (w : Weight) : Q :=
  if w.dot then ⟨false, digitsVal (UInt8.ofNat (48 + w.whole) :: w.frac) 0, w.frac.length⟩
  else ⟨false, w.whole, 0⟩

def qOf (i : LangItem) : Q := match i.weight with | none => Q.one | some w => qOfWeight w

/-! ### parsing one weight -/

theorem takeWhile_digits_append (ds rest : Bytes) (h : ds.all isDigit = true)
    (hr : ∀ b, rest.head? = some b → isDigit b = false) :
    (ds ++ rest).takeWhile isDigit = ds ∧ (ds ++ rest).dropWhile isDigit = rest := by
  induction ds with
  | nil =>
    match rest, hr with
    | [], _ => simp
    | b :: r, hr => simp [List.takeWhile_cons, List.dropWhile_cons, hr b rfl]
  | cons a ds ih =>
    simp at h
    have := ih (by simpa using h.2)
    simp [List.takeWhile_cons, List.dropWhile_cons, h.1, this.1, this.2]

theorem digit_lower_facts : ∀ b, (!isDigit b || (lowerByte b != 105 && lowerByte b != 110 && b != 43 && b != 45 && b != 113 && b != 46 && b != 101 && b != 69)) = true :=
  forall_uint8 _ (by decide +kernel)

theorem not_inf_nan (d : UInt8) (r : Bytes) (hd : isDigit d = true) :
    (lower (d :: r) == ascii "inf" || lower (d :: r) == ascii "infinity" || lower (d :: r) == ascii "nan") = false := by
  have hf := digit_lower_facts d
  simp [hd] at hf
  have e1 : ascii "inf" = 105 :: [110, 102] := by decide
  have e2 : ascii "infinity" = 105 :: [110, 102, 105, 110, 105, 116, 121] := by decide
  have e3 : ascii "nan" = 110 :: [97, 110] := by decide
  have hne : ∀ (x : UInt8) (t : Bytes), lowerByte d ≠ x → (lower (d :: r) == x :: t) = false := by
    intro x t hx
    cases hq : (lower (d :: r) == x :: t) with
    | false => rfl
    | true =>
      have := eq_of_beq hq
      simp [lower] at this
      exact absurd this.1 hx
  rw [e1, e2, e3, hne 105 [110, 102] hf.1.1.1.1.1.1.1, hne 105 [110, 102, 105, 110, 105, 116, 121] hf.1.1.1.1.1.1.1,
    hne 110 [97, 110] hf.1.1.1.1.1.1.2]
  rfl

/-- the digit of `whole` -/
def wholeByte (w : Weight) : UInt8 := UInt8.ofNat (48 + w.whole)

theorem wholeByte_facts (w : Weight) (h : w.whole ≤ 1) :
    isDigit (wholeByte w) = true ∧ (wholeByte w).toNat - 48 = w.whole := by
  unfold wholeByte
  have : w.whole = 0 ∨ w.whole = 1 := by omega
  rcases this with e | e <;> rw [e] <;> decide

theorem qText_eq (w : Weight) : qText w = wholeByte w :: (if w.dot then 46 :: w.frac else []) := by
  unfold qText wholeByte; cases w.dot <;> simp

theorem parseQ_digits (d : UInt8) (hd : isDigit d = true) :
    parseQ [d] = some (some ⟨false, d.toNat - 48, 0⟩) := by
  have hf := digit_lower_facts d
  simp [hd] at hf
  unfold parseQ
  simp only [hf.1.1.1.1.1.2, hf.1.1.1.1.2, if_false, not_inf_nan d [] hd, Bool.false_eq_true]
  simp [List.takeWhile_cons, List.dropWhile_cons, hd, digitsVal]

theorem parseQ_frac (d : UInt8) (hd : isDigit d = true) (frac : Bytes) (hfrac : frac.all isDigit = true) :
    parseQ (d :: 46 :: frac) = some (some ⟨false, digitsVal (d :: frac) 0, frac.length⟩) := by
  have hf := digit_lower_facts d
  simp [hd] at hf
  unfold parseQ
  simp only [hf.1.1.1.1.1.2, hf.1.1.1.1.2, if_false, not_inf_nan d _ hd, Bool.false_eq_true]
  have e1 := takeWhile_digits_append [d] (46 :: frac) (by simp [hd])
    (by intro b hb; simp at hb; subst hb; decide)
  simp only [List.singleton_append] at e1
  have e2 := takeWhile_digits_append frac [] hfrac (by simp)
  simp only [List.append_nil] at e2
  simp only [e1.1, e1.2, e2.1, e2.2]
  simp

theorem parseQ_qText (w : Weight) (h : WeightWF w) : parseQ (qText w) = some (some (qOfWeight w)) := by
  obtain ⟨_, _, hw, hfl, hfd, hdot, _⟩ := h
  obtain ⟨d1, d5⟩ := wholeByte_facts w hw
  have hfrac : w.frac.all isDigit = true := by
    rw [List.all_eq_true] at hfd ⊢; intro b hb
    have := digitB_facts b; simp [hfd b hb] at this; exact this.1.1.1.1.1.1
  rw [qText_eq]
  unfold qOfWeight
  cases hd : w.dot with
  | false =>
    simp only [Bool.false_eq_true, if_false]
    rw [parseQ_digits _ d1, d5]
  | true =>
    simp only [if_true]
    rw [parseQ_frac _ d1 _ hfrac]
    rfl

theorem stripQPrefix_lower (r : Bytes) : stripQPrefix (113 :: 61 :: r) = r := by simp [stripQPrefix]
theorem stripQPrefix_upper (r : Bytes) : stripQPrefix (81 :: 61 :: r) = r := by simp [stripQPrefix]

end Huginn.Http1
