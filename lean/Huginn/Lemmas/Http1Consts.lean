import Huginn.Spec.Http1
/-
C05: the constants the specification freezes agree with what the code says *now*
(`Gen.HttpLists` is regenerated from the Rust sources on every run).
-/
namespace Huginn.Http1
open Huginn.Http1.Spec Huginn.Gen

theorem optionalList_eq (b : Bool) : optionalList b = p0fOptional b := by cases b <;> decide
theorem skipValueList_eq (b : Bool) : skipValueList b = p0fSkipValue b := by cases b <;> decide
theorem commonList_eq (b : Bool) : commonList b = p0fCommon b := by cases b <;> decide
theorem maxFields_le : maxFields ≤ HttpLists.maxHeaders := by decide
theorem maxLine_le_header : maxLine ≤ HttpLists.maxHeaderLength := by decide
theorem maxLine_le_request : maxLine ≤ HttpLists.maxRequestLineLength := by decide

end Huginn.Http1
