import Huginn.Model.Akamai
import Huginn.Spec.Akamai
import Huginn.Lemmas.H2Frames
/-
Helper lemmas for Props/C17: byte-level facts, the two list renderers, settings payload chunking,
frame predicates of model and specification.
-/
set_option linter.unusedSimpArgs false
namespace Huginn.Lemmas.Akamai
open Huginn.H2 Huginn.Spec.H2 Huginn.Spec.Akamai

theorem all_u8 {P : UInt8 → Prop} (h : ∀ n, n < 256 → P (UInt8.ofNat n)) : ∀ a, P a := by
  intro a
  have := h a.toNat (UInt8.toNat_lt a)
  rwa [UInt8.ofNat_toNat] at this

theorem and80 : ∀ a : UInt8, (a &&& 0x80 != 0) = decide (a.toNat ≥ 128) := by
  apply all_u8; decide +kernel

theorem ty_eq1 : ∀ t : UInt8, (t == tyHeaders) = (t.toNat == 1) := by apply all_u8; decide +kernel
theorem ty_eq2 : ∀ t : UInt8, (t == tyPriority) = (t.toNat == 2) := by apply all_u8; decide +kernel
theorem ty_eq4 : ∀ t : UInt8, (t == tySettings) = (t.toNat == 4) := by apply all_u8; decide +kernel
theorem ty_eq8 : ∀ t : UInt8, (t == tyWindowUpdate) = (t.toNat == 8) := by apply all_u8; decide +kernel

theorem pred_settings : (fun f : Frame => f.ty == tySettings && f.sid == 0) = isSettings := by
  funext f; simp only [isSettings, ty_eq4]
theorem pred_wu : (fun f : Frame => f.ty == tyWindowUpdate && f.sid == 0) = isConnWindowUpdate := by
  funext f; simp only [isConnWindowUpdate, ty_eq8]
theorem pred_prio : (fun f : Frame => f.ty == tyPriority) = isPriority := by
  funext f; simp only [isPriority, ty_eq2]
theorem pred_headers : (fun f : Frame => f.ty == tyHeaders && decide (f.sid > 0)) = isRequestHeaders := by
  funext f; simp only [isRequestHeaders, ty_eq1]
  by_cases h : f.sid = 0
  · simp [h]
  · have h' : 0 < f.sid := by omega
    simp [h, h']

theorem val32_eq (a b c d : UInt8) : val32 a b c d = be32 a b c d := by
  unfold val32 be32; omega

/-! ### joiners -/

theorem foldl_join (sep : UInt8) : ∀ (r : List Bytes) (acc : Bytes),
    r.foldl (fun acc y => acc ++ [sep] ++ y) acc = acc ++ (r.map (fun y => sep :: y)).flatten := by
  intro r
  induction r with
  | nil => intro acc; simp
  | cons y r ih => intro acc; simp [ih, List.append_assoc]

theorem sepJoin_cons (sep : UInt8) : ∀ (r : List Bytes) (x : Bytes),
    sepJoin sep (x :: r) = x ++ (r.map (fun y => sep :: y)).flatten := by
  intro r
  induction r with
  | nil => intro x; simp [sepJoin]
  | cons y r ih => intro x; simp [sepJoin, ih]

theorem sepJoin_eq_joinWith (sep : UInt8) (xs : List Bytes) : sepJoin sep xs = joinWith sep xs := by
  cases xs with
  | nil => simp [sepJoin, joinWith]
  | cons x r => rw [sepJoin_cons]; simp [joinWith, foldl_join]

/-! ### settings -/

theorem lookup_mem {α β} [BEq α] [LawfulBEq α] {l : List (α × β)} {a : α} {b : β}
    (h : l.lookup a = some b) : (a, b) ∈ l := by
  induction l with
  | nil => simp at h
  | cons p l ih =>
    obtain ⟨k, v⟩ := p
    simp only [List.lookup_cons] at h
    by_cases hk : a == k
    · simp only [hk] at h
      cases h
      have : a = k := by simpa using hk
      subst this; simp
    · simp only [hk] at h
      exact List.mem_cons_of_mem _ (ih h)

/-- `SettingId::from(id).as_u16() = id` for every id, from the regenerated arms -/
theorem settingId_roundtrip (id : Nat) : settingIdRoundTrip id = id := by
  unfold settingIdRoundTrip
  have key : ∀ p ∈ Gen.H2.settingFromArms, Gen.H2.settingAsArms.lookup p.2 = some p.1 := by decide
  cases h : Gen.H2.settingFromArms.lookup id with
  | none => rfl
  | some name =>
    have hm := lookup_mem h
    simp [key _ hm]

theorem settingAt_shift (a b c d e f : UInt8) (rest : Bytes) (i : Nat) :
    settingAt (a :: b :: c :: d :: e :: f :: rest) (i + 1) = settingAt rest i := by
  have h : ∀ k, (a :: b :: c :: d :: e :: f :: rest).getD (6 * (i + 1) + k) 0 = rest.getD (6 * i + k) 0 := by
    intro k
    have : 6 * (i + 1) + k = (6 * i + k) + 1 + 1 + 1 + 1 + 1 + 1 := by omega
    rw [this]; simp only [List.getD_cons_succ]
  simp only [settingAt, h]

theorem settingsOf_eq (p : Bytes) : settingsOf p = parseSettingsPayload p := by
  generalize hn : p.length = n
  induction n using Nat.strongRecOn generalizing p with
  | _ n ih =>
    rcases p with _ | ⟨a, _ | ⟨b, _ | ⟨c, _ | ⟨d, _ | ⟨e, _ | ⟨f, rest⟩⟩⟩⟩⟩⟩
    · simp [settingsOf, parseSettingsPayload]
    · simp [settingsOf, parseSettingsPayload]
    · simp [settingsOf, parseSettingsPayload]
    · simp [settingsOf, parseSettingsPayload]
    · simp [settingsOf, parseSettingsPayload]
    · simp [settingsOf, parseSettingsPayload]
    · have hl : (a :: b :: c :: d :: e :: f :: rest).length / 6 = rest.length / 6 + 1 := by
        simp only [List.length_cons]; omega
      have ihr := ih rest.length (by simp only [List.length_cons] at hn; omega) rest rfl
      have h0 : settingAt (a :: b :: c :: d :: e :: f :: rest) 0 = (be16 a b, be32 c d e f) := by
        simp only [settingAt, Nat.mul_zero, Nat.zero_add, List.getD_cons_zero, List.getD_cons_succ, be16, val32_eq]
      have h1 : List.map (settingAt (a :: b :: c :: d :: e :: f :: rest) ∘ Nat.succ) (List.range (rest.length / 6))
          = parseSettingsPayload rest := by
        rw [← ihr]
        unfold settingsOf
        apply List.map_congr_left
        intro i _
        simp only [Function.comp, settingAt_shift]
      unfold settingsOf
      rw [hl, List.range_succ_eq_map, List.map_cons, List.map_map, h0, h1]
      simp only [parseSettingsPayload]

theorem parseSettings_nonempty (p : Bytes) (h : 6 ≤ p.length) : (parseSettingsPayload p).isEmpty = false := by
  rcases p with _ | ⟨a, _ | ⟨b, _ | ⟨c, _ | ⟨d, _ | ⟨e, _ | ⟨f, rest⟩⟩⟩⟩⟩⟩ <;>
    simp [parseSettingsPayload] at h ⊢

/-! ### first frame satisfying a predicate -/

theorem firstWithRest_find (p : Frame → Bool) : ∀ l : List Frame,
    (firstWithRest p l).map (·.1) = l.find? p := by
  intro l
  induction l with
  | nil => simp [firstWithRest]
  | cons f r ih =>
    simp only [firstWithRest, List.find?_cons]
    by_cases h : p f <;> simp [h, ih]

/-! ### header block assembly (code) against RFC 7540 §6.2/§6.10 (specification) -/

theorem flag4 : ∀ fl : UInt8, (fl &&& 4 != 0) = flagSet fl 4 := by apply all_u8; decide +kernel
theorem flag8 : ∀ fl : UInt8, (fl &&& 8 != 0) = flagSet fl 8 := by apply all_u8; decide +kernel
theorem flag32 : ∀ fl : UInt8, (fl &&& 0x20 != 0) = flagSet fl 32 := by apply all_u8; decide +kernel
theorem ty_ne9 : ∀ t : UInt8, (t != tyContinuation) = !(t.toNat == 9) := by apply all_u8; decide +kernel

/-- `header_block_fragment` is the header block fragment of RFC 7540 §6.2 -/
theorem fragmentOf_eq (f : Frame) : fragmentOf f = headersFragment f := by
  unfold fragmentOf headersFragment padded hasPriority
  simp only [flag8, flag32, ge_iff_le]
  by_cases h8 : flagSet f.flags 8 = true <;> by_cases h32 : flagSet f.flags 32 = true <;>
    rcases hp : f.payload with _ | ⟨pl, r⟩ <;> simp [h8, h32]
  · by_cases h5 : 5 ≤ r.length <;> simp [h5]
  · by_cases h4 : 4 ≤ r.length <;> simp [h4]

theorem contLoop_complete (sid : Nat) : ∀ (rest : List Frame) (b : Bytes),
    continuations sid rest = .complete b → contLoop (rest.filter (fun f => f.sid == sid)) = b := by
  intro rest
  induction rest with
  | nil => intro b h; simp [continuations] at h
  | cons f r ih =>
    intro b h
    simp only [continuations] at h
    by_cases hc : (isContinuation f && f.sid == sid) = true
    · simp only [hc, if_true] at h
      simp only [Bool.and_eq_true] at hc
      have hty : (f.ty != tyContinuation) = false := by
        rw [ty_ne9]; have := hc.1; simp only [isContinuation] at this; simp [this]
      simp only [List.filter_cons, hc.2, if_true, contLoop, hty, Bool.false_eq_true, if_false, flag4]
      by_cases he : endHeaders f = true
      · simp only [he, if_true] at h
        have he' : flagSet f.flags 4 = true := he
        simp only [he', if_true]
        cases h; rfl
      · have he0 : endHeaders f = false := by simpa using he
        have he' : flagSet f.flags 4 = false := he0
        simp only [he0, Bool.false_eq_true, if_false] at h
        simp only [he', Bool.false_eq_true, if_false]
        cases hr : continuations sid r with
        | complete b' =>
          rw [hr] at h
          simp only at h
          cases h
          rw [ih b' hr]
        | incomplete => rw [hr] at h; simp at h
        | malformed => rw [hr] at h; simp at h
    · have hc' : (isContinuation f && f.sid == sid) = false := by simpa using hc
      simp only [hc', Bool.false_eq_true, if_false] at h
      cases h

/-- a complete header block in the sense of the RFC is what `header_block` assembles -/
theorem headerBlockOf_complete (f : Frame) (rest : List Frame) (b : Bytes)
    (h : headerBlock f rest = .complete b) : headerBlockOf (f :: rest) = some b := by
  unfold headerBlock at h
  simp only [headerBlockOf]
  rw [fragmentOf_eq]
  cases hf : headersFragment f with
  | none => rw [hf] at h; simp at h
  | some frag =>
    rw [hf] at h
    simp only at h ⊢
    rw [flag4]
    by_cases he : endHeaders f = true
    · have he' : flagSet f.flags 4 = true := he
      simp only [he, if_true] at h
      simp only [he', if_true]
      cases h; rfl
    · have he0 : endHeaders f = false := by simpa using he
      have he' : flagSet f.flags 4 = false := he0
      simp only [he0, Bool.false_eq_true, if_false] at h
      simp only [he', Bool.false_eq_true, if_false]
      cases hr : continuations f.sid rest with
      | complete b' =>
        rw [hr] at h
        simp only at h
        cases h
        rw [contLoop_complete f.sid rest b' hr]
      | incomplete => rw [hr] at h; simp at h
      | malformed => rw [hr] at h; simp at h

theorem dropWhile_firstWithRest (p : Frame → Bool) : ∀ l : List Frame,
    l.dropWhile (fun f => !p f) = match firstWithRest p l with | some (f, r) => f :: r | none => [] := by
  intro l
  induction l with
  | nil => rfl
  | cons g gs ih =>
    simp only [List.dropWhile, firstWithRest]
    by_cases h : p g = true
    · simp [h]
    · have h' : p g = false := by simpa using h
      simp [h', ih]

end Huginn.Lemmas.Akamai
