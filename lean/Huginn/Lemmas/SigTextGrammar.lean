import Huginn.Lemmas.SigTextCanon
/-
C06: the nom parser of TCP signatures accepts exactly the declarative language `Spec.TcpLine`
(and with the same value); the HTTP parser accepts exactly the printed forms.
-/
namespace Huginn.SigText
open Huginn.Sig Huginn.SigText.Spec
set_option linter.unusedSimpArgs false

/-! ### from the grammar to the parser (every spelling, not only the printed one) -/

theorem digit1_text {max v : Nat} {t r : Str} (h : NumT max t v) (hr : NoDigit r) :
    digit1 (t ++ r) = some (t, r) := digit1_append h.1 h.2.1 hr

theorem parseMax_text {max v : Nat} {t : Str} (h : NumT max t v) : parseMax max t = some v := by
  obtain ⟨_, _, hv, hle⟩ := h
  simp [parseMax, hv, hle]

theorem number_text {max v : Nat} {t r : Str} (h : NumT max t v) (hr : NoDigit r) :
    number max (t ++ r) = some (v, r) := by
  simp [number, digit1_text h hr, parseMax_text h]

theorem tag_text_none {a : Char} (x : Str) (ha : a.isDigit = false) {max v : Nat} {t : Str} (h : NumT max t v)
    (r : Str) : tag (a :: x) (t ++ r) = none := by
  obtain ⟨hne, hd, _, _⟩ := h
  cases t with
  | nil => exact absurd rfl hne
  | cons c t' =>
    exact tag_cons_ne _ _ (fun e => by
      have := hd c List.mem_cons_self; rw [← e, ha] at this; cases this)

theorem parseTtl_text {t : Str} {x : Ttl} (h : TtlT t x) {r : Str} (hr : Delim r) :
    parseTtl (t ++ r) = some (x, r) := by
  have hnd := hr.noDigit
  have b1 : tag ['-'] r = none := tag_delim_none [] (by decide) (by decide) hr
  have b2 : tag ['+', '?'] r = none := tag_delim_none ['?'] (by decide) (by decide) hr
  have b3 : tag ['+'] r = none := tag_delim_none [] (by decide) (by decide) hr
  cases x with
  | value n =>
    have h' : NumT u8Max t n := h
    simp [parseTtl, alt, ttlBad, ttlGuess, ttlDistance, ttlValue, digit1_text h' hnd, number_text h' hnd, b1, b2, b3]
  | distance n d =>
    obtain ⟨ta, tb, rfl, ha, hb⟩ := h
    have ha' : NumT u8Max ta n := ha
    have hb' : NumT u8Max tb d := hb
    have hp : NoDigit ('+' :: (tb ++ r)) := NoDigit.cons (by decide) _
    have q : tag ['?'] (tb ++ r) = none := tag_text_none [] (by decide) hb' r
    have e : ta ++ '+' :: tb ++ r = ta ++ '+' :: (tb ++ r) := by simp
    rw [e]
    simp [parseTtl, alt, ttlBad, ttlGuess, ttlDistance, digit1_text ha' hp, digit1_text hb' hnd,
      tag_cons_ne, parseMax_text ha', parseMax_text hb', tag_cons_cons_self, q]
  | guess n =>
    obtain ⟨tv, rfl, hv⟩ := h
    have hv' : NumT u8Max tv n := hv
    have hp : NoDigit ('+' :: '?' :: r) := NoDigit.cons (by decide) _
    have e : tv ++ ['+', '?'] ++ r = tv ++ '+' :: '?' :: r := by simp
    rw [e]
    simp [parseTtl, alt, ttlBad, ttlGuess, digit1_text hv' hp, tag_cons_ne, parseMax_text hv', tag_cons_cons_self]
  | bad n =>
    obtain ⟨tv, rfl, hv⟩ := h
    have hv' : NumT u8Max tv n := hv
    have hp : NoDigit ('-' :: r) := NoDigit.cons (by decide) _
    have e : tv ++ ['-'] ++ r = tv ++ '-' :: r := by simp
    rw [e]
    simp [parseTtl, alt, ttlBad, digit1_text hv' hp, parseMax_text hv']

theorem parseWSize_text {t : Str} {w : WindowSize} (h : WsT t w) {r : Str} (hr : Delim r) :
    parseWSize (t ++ r) = some (w, r) := by
  have hnd := hr.noDigit
  cases w with
  | any => have : t = ['*'] := h; subst this; simp [parseWSize, alt]
  | mss n =>
    obtain ⟨tv, rfl, hv⟩ := h
    have hv' : NumT u8Max tv n := hv
    simp [parseWSize, alt, prefixNum, tag_cons_ne, tag_cons_cons_self, number_text hv' hnd]
  | mtu n =>
    obtain ⟨tv, rfl, hv⟩ := h
    have hv' : NumT u8Max tv n := hv
    simp [parseWSize, alt, prefixNum, tag_cons_ne, tag_cons_cons_self, number_text hv' hnd]
  | mod n =>
    obtain ⟨tv, rfl, hv⟩ := h
    have hv' : NumT u16Max tv n := hv
    simp [parseWSize, alt, prefixNum, tag_cons_ne, tag_cons_cons_self, number_text hv' hnd]
  | value n =>
    have h' : NumT u16Max t n := h
    simp [parseWSize, alt, prefixNum, number_text h' hnd,
      tag_text_none _ (by decide : '*'.isDigit = false) h', tag_text_none _ (by decide : 'm'.isDigit = false) h',
      tag_text_none _ (by decide : '%'.isDigit = false) h']

theorem optNum_text {max : Nat} {t : Str} {v : Option Nat} (h : OptNumT max t v) {r : Str} (hr : Delim r) :
    optNum max (t ++ r) = some (v, r) := by
  cases v with
  | none => have : t = ['*'] := h; subst this; simp [optNum, alt]
  | some n =>
    have h' : NumT max t n := h
    simp [optNum, alt, number_text h' hr.noDigit, tag_text_none _ (by decide : '*'.isDigit = false) h']

/-- the regenerated `Display` tables print the documented names -/
theorem printQuirk_eq (q : Quirk) : printQuirk q = quirkText q := by cases q <;> decide +kernel
theorem printOpt_plain_eq :
    printOpt .nop = "nop".toList ∧ printOpt .mss = "mss".toList ∧ printOpt .ws = "ws".toList ∧
    printOpt .sok = "sok".toList ∧ printOpt .sack = "sack".toList ∧ printOpt .ts = "ts".toList := by
  decide +kernel
theorem printIpVersion_eq {t : Str} {v : IpVersion} (h : VerT t v) : t = printIpVersion v := by
  cases v <;> (have : t = _ := h; subst this; decide +kernel)
theorem printPayload_eq {t : Str} {p : PayloadSize} (h : PayT t p) : t = printPayload p := by
  cases p <;> (have : t = _ := h; subst this; decide +kernel)

theorem parseOpt_text {t : Str} {o : TcpOption} (h : OptT t o) {r : Str} (hr : Delim r) :
    parseOpt (t ++ r) = some (o, r) := by
  have hnd := hr.noDigit
  obtain ⟨p1, p2, p3, p4, p5, p6⟩ := printOpt_plain_eq
  cases o with
  | eol n =>
    obtain ⟨tv, rfl, hv⟩ := h
    have hv' : NumT u8Max tv n := hv
    simp [parseOpt, alt, prefixNum, tag_cons_cons_self, number_text hv' hnd]
  | unknown n =>
    obtain ⟨tv, rfl, hv⟩ := h
    have hv' : NumT u8Max tv n := hv
    simp [parseOpt, alt, prefixNum, tag_cons_ne, altTags_none_of_head plainOptTable_noQuestion,
      number_text hv' hnd]
  | nop => have : t = _ := h; subst this; rw [← p1]; exact parseOpt_print_plain _ (fun n => ⟨by simp, by simp⟩) r
  | mss => have : t = _ := h; subst this; rw [← p2]; exact parseOpt_print_plain _ (fun n => ⟨by simp, by simp⟩) r
  | ws => have : t = _ := h; subst this; rw [← p3]; exact parseOpt_print_plain _ (fun n => ⟨by simp, by simp⟩) r
  | sok => have : t = _ := h; subst this; rw [← p4]; exact parseOpt_print_plain _ (fun n => ⟨by simp, by simp⟩) r
  | sack => have : t = _ := h; subst this; rw [← p5]; exact parseOpt_print_plain _ (fun n => ⟨by simp, by simp⟩) r
  | ts => have : t = _ := h; subst this; rw [← p6]; exact parseOpt_print_plain _ (fun n => ⟨by simp, by simp⟩) r

/-! ### lists of texts -/

theorem delim_tailTexts (ts : List Str) {r : Str} (hr : ListEnd r) : Delim (tailTexts ts ++ r) := by
  cases ts with
  | nil => simpa [tailTexts] using hr.delim
  | cons t ts => exact Delim.comma _

theorem length_tailTexts (ts : List Str) : ts.length ≤ (tailTexts ts).length := by
  induction ts with
  | nil => simp [tailTexts]
  | cons t ts ih => simp [tailTexts]; omega

theorem sepLoop_texts {α} {p : Parser α} {R : Str → α → Prop} {ts : List Str} {xs : List α}
    (h : Texts R ts xs) {r : Str} (hr : ListEnd r)
    (hp : ∀ t x, R t x → ∀ r', Delim r' → p (t ++ r') = some (x, r'))
    (fuel : Nat) (hf : ts.length ≤ fuel) :
    sepLoop comma p fuel (tailTexts ts ++ r) = some (xs, r) := by
  induction h generalizing fuel with
  | nil =>
    cases fuel with
    | zero => simp [sepLoop, tailTexts]
    | succ f => simp [sepLoop, tailTexts, comma_listEnd hr]
  | @cons t x ts xs hx _ ih =>
    cases fuel with
    | zero => simp at hf
    | succ f =>
      have hx' := hp t x hx _ (delim_tailTexts ts hr)
      have ih' := ih f (by simpa using hf)
      have hlen : (tailTexts ts ++ r).length ≠ (',' :: (t ++ (tailTexts ts ++ r))).length := by
        simp; omega
      simp only [tailTexts, List.cons_append, List.append_assoc, sepLoop, comma_cons, hx']
      rw [if_neg hlen, ih']

theorem sepList0_texts {α} {p : Parser α} {R : Str → α → Prop} {ts : List Str} {xs : List α}
    (h : Texts R ts xs) {r : Str} (hr : ListEnd r)
    (hp : ∀ t x, R t x → ∀ r', Delim r' → p (t ++ r') = some (x, r'))
    (hnil : p r = none) :
    sepList0 comma p (joinWith ',' ts ++ r) = some (xs, r) := by
  cases h with
  | nil => simp [sepList0, joinWith, hnil]
  | @cons t x ts xs hx hrest =>
    have hx' := hp t x hx _ (delim_tailTexts ts hr)
    have hl := sepLoop_texts hrest hr hp ((tailTexts ts ++ r).length + 1)
      (by have := length_tailTexts ts; simp; omega)
    simp only [joinWith_cons, List.append_assoc, sepList0, hx', hl]

/-- **every line of the TCP signature language is accepted, with the value it denotes** -/
theorem parseTcpSigFull_of_line {l : Str} {s : TcpSig} (h : TcpLine l s) : parseTcpSigFull l = some s := by
  obtain ⟨tv, tt, to, tm, tw, tsc, tol, tqs, tp, rfl, hv, ht, ho, hm, hw, hsc, hol, hqs, hp⟩ := h
  obtain ⟨ver, ittl, olen, mss, wsize, wscale, olayout, quirks, pclass⟩ := s
  simp only at hv ht ho hm hw hsc hol hqs hp
  have e1 := printIpVersion_eq hv
  have e2 := printPayload_eq hp
  subst e1 e2
  have hol' : ∀ r, sepList0 comma parseOpt (joinWith ',' tol ++ ':' :: r) = some (olayout, ':' :: r) :=
    fun r => sepList0_texts hol (Or.inr ⟨r, rfl⟩) (fun t x hx r' hr' => parseOpt_text hx hr') (parseOpt_colon r)
  have hq' : ∀ r, sepList0 comma parseQuirk (joinWith ',' tqs ++ ':' :: r) = some (quirks, ':' :: r) :=
    fun r => sepList0_texts hqs (Or.inr ⟨r, rfl⟩)
      (fun t x hx r' _ => by subst hx; rw [← printQuirk_eq]; exact parseQuirk_print x r') (parseQuirk_colon r)
  have hpay := parsePayload_print pclass []
  simp only [List.append_nil] at hpay
  unfold parseTcpSigFull full parseTcpSig
  simp only [parseIpVersion_print, colon_cons, comma_cons, Option.bind_eq_bind, Option.bind_some,
    fun r => parseTtl_text ht (Delim.colon r),
    fun r => number_text (show NumT u8Max to olen from ho) (NoDigit.cons (by decide : ':'.isDigit = false) r),
    fun r => optNum_text (max := u16Max) hm (Delim.colon r),
    fun r => parseWSize_text hw (Delim.comma r),
    fun r => optNum_text (max := u8Max) hsc (Delim.colon r),
    hol', hq', hpay, Option.pure_def]

end Huginn.SigText

namespace Huginn.SigText
open Huginn.Sig Huginn.SigText.Spec
set_option linter.unusedSimpArgs false

/-! ### from the parser to the grammar -/

theorem number_line {max v : Nat} {s r : Str} (h : number max s = some (v, r)) :
    ∃ t, s = t ++ r ∧ NumT max t v ∧ NoDigit r := by
  obtain ⟨d, e, hne, hd, hr, hv, hle⟩ := number_inv h
  exact ⟨d, e, ⟨hne, hd, hv.symm, hle⟩, hr⟩

theorem numT_of_digit1 {max v : Nat} {d : Str} (hne : d ≠ []) (hd : ∀ c ∈ d, c.isDigit = true)
    (hp : parseMax max d = some v) : NumT max d v :=
  ⟨hne, hd, (parseMax_inv hp).1.symm, (parseMax_inv hp).2⟩

theorem parseTtl_line {s r : Str} {x : Ttl} (h : parseTtl s = some (x, r)) : ∃ t, s = t ++ r ∧ TtlT t x := by
  obtain ⟨p, hp, hps⟩ := alt_inv h
  simp only [List.mem_cons, List.mem_nil_iff, or_false] at hp
  rcases hp with rfl | rfl | rfl | rfl
  · unfold ttlBad at hps
    cases h1 : digit1 s with
    | none => simp [h1] at hps
    | some y =>
      obtain ⟨d, r1⟩ := y
      simp only [h1] at hps
      cases h2 : tag ['-'] r1 with
      | none => simp [h2] at hps
      | some z =>
        obtain ⟨u, r2⟩ := z
        simp only [h2, Option.map_eq_some_iff, Prod.mk.injEq] at hps
        obtain ⟨v, hv, rfl, rfl⟩ := hps
        obtain ⟨e, hne, hd, _⟩ := digit1_inv h1
        refine ⟨d ++ ['-'], by rw [e, tag_inv h2]; simp, d, rfl, numT_of_digit1 hne hd hv⟩
  · unfold ttlGuess at hps
    cases h1 : digit1 s with
    | none => simp [h1] at hps
    | some y =>
      obtain ⟨d, r1⟩ := y
      simp only [h1] at hps
      cases h2 : tag ['+', '?'] r1 with
      | none => simp [h2] at hps
      | some z =>
        obtain ⟨u, r2⟩ := z
        simp only [h2, Option.map_eq_some_iff, Prod.mk.injEq] at hps
        obtain ⟨v, hv, rfl, rfl⟩ := hps
        obtain ⟨e, hne, hd, _⟩ := digit1_inv h1
        refine ⟨d ++ ['+', '?'], by rw [e, tag_inv h2]; simp, d, rfl, numT_of_digit1 hne hd hv⟩
  · unfold ttlDistance at hps
    cases h1 : digit1 s with
    | none => simp [h1] at hps
    | some y =>
      obtain ⟨d1, r1⟩ := y
      simp only [h1] at hps
      cases h2 : tag ['+'] r1 with
      | none => simp [h2] at hps
      | some z =>
        obtain ⟨u, r2⟩ := z
        simp only [h2] at hps
        cases h3 : digit1 r2 with
        | none => simp [h3] at hps
        | some w =>
          obtain ⟨d2, r3⟩ := w
          simp only [h3] at hps
          cases h4 : parseMax u8Max d1 with
          | none => simp [h4] at hps
          | some v1 =>
            cases h5 : parseMax u8Max d2 with
            | none => simp [h4, h5] at hps
            | some v2 =>
              simp [h4, h5] at hps
              obtain ⟨rfl, rfl⟩ := hps
              obtain ⟨e1, hne1, hd1, _⟩ := digit1_inv h1
              obtain ⟨e3, hne3, hd3, _⟩ := digit1_inv h3
              refine ⟨d1 ++ '+' :: d2, by rw [e1, tag_inv h2, e3]; simp, d1, d2, rfl,
                numT_of_digit1 hne1 hd1 h4, numT_of_digit1 hne3 hd3 h5⟩
  · unfold ttlValue at hps
    simp only [Option.map_eq_some_iff, Prod.mk.injEq, Prod.exists] at hps
    obtain ⟨v, r', hn, rfl, rfl⟩ := hps
    obtain ⟨t, e, hnum, _⟩ := number_line hn
    exact ⟨t, e, hnum⟩

theorem prefixNum_line {α} {s r : Str} {pre : Str} {max : Nat} {mk : Nat → α} {x : α}
    (h : prefixNum pre max mk s = some (x, r)) : ∃ v tv, x = mk v ∧ s = pre ++ (tv ++ r) ∧ NumT max tv v := by
  unfold prefixNum at h
  cases h1 : tag pre s with
  | none => simp [h1] at h
  | some y =>
    obtain ⟨u, r1⟩ := y
    simp only [h1, Option.map_eq_some_iff, Prod.mk.injEq, Prod.exists] at h
    obtain ⟨v, r', hn, rfl, rfl⟩ := h
    obtain ⟨t, e, hnum, _⟩ := number_line hn
    exact ⟨v, t, rfl, by rw [tag_inv h1, e], hnum⟩

theorem parseWSize_line {s r : Str} {w : WindowSize} (h : parseWSize s = some (w, r)) :
    ∃ t, s = t ++ r ∧ WsT t w := by
  obtain ⟨p, hp, hps⟩ := alt_inv h
  simp only [List.mem_cons, List.mem_nil_iff, or_false] at hp
  rcases hp with rfl | rfl | rfl | rfl | rfl
  · simp only [Option.map_eq_some_iff, Prod.mk.injEq, Prod.exists] at hps
    obtain ⟨u, r', ht, rfl, rfl⟩ := hps
    exact ⟨['*'], tag_inv ht, rfl⟩
  · obtain ⟨v, tv, rfl, e, hn⟩ := prefixNum_line hps
    exact ⟨'m' :: 's' :: 's' :: '*' :: tv, by rw [e]; simp, tv, rfl, hn⟩
  · obtain ⟨v, tv, rfl, e, hn⟩ := prefixNum_line hps
    exact ⟨'m' :: 't' :: 'u' :: '*' :: tv, by rw [e]; simp, tv, rfl, hn⟩
  · obtain ⟨v, tv, rfl, e, hn⟩ := prefixNum_line hps
    exact ⟨'%' :: tv, by rw [e]; simp, tv, rfl, hn⟩
  · simp only [Option.map_eq_some_iff, Prod.mk.injEq, Prod.exists] at hps
    obtain ⟨v, r', hn, rfl, rfl⟩ := hps
    obtain ⟨t, e, hnum, _⟩ := number_line hn
    exact ⟨t, e, hnum⟩

theorem optNum_line {max : Nat} {s r : Str} {v : Option Nat} (h : optNum max s = some (v, r)) :
    ∃ t, s = t ++ r ∧ OptNumT max t v := by
  obtain ⟨p, hp, hps⟩ := alt_inv h
  simp only [List.mem_cons, List.mem_nil_iff, or_false] at hp
  rcases hp with rfl | rfl
  · simp only [Option.map_eq_some_iff, Prod.mk.injEq, Prod.exists] at hps
    obtain ⟨u, r', ht, rfl, rfl⟩ := hps
    exact ⟨['*'], tag_inv ht, rfl⟩
  · simp only [Option.map_eq_some_iff, Prod.mk.injEq, Prod.exists] at hps
    obtain ⟨n, r', hn, rfl, rfl⟩ := hps
    obtain ⟨t, e, hnum, _⟩ := number_line hn
    exact ⟨t, e, hnum⟩

def isPlainOpt : TcpOption → Bool
  | .eol _ | .unknown _ => false
  | _ => true
theorem plainOptTable_plain : ∀ e ∈ plainOptTable, isPlainOpt e.2 = true := by decide +kernel

theorem optT_plain {o : TcpOption} (h : isPlainOpt o = true) : OptT (printOpt o) o := by
  obtain ⟨p1, p2, p3, p4, p5, p6⟩ := printOpt_plain_eq
  cases o with
  | eol n => cases h
  | unknown n => cases h
  | nop => exact p1
  | mss => exact p2
  | ws => exact p3
  | sok => exact p4
  | sack => exact p5
  | ts => exact p6

theorem parseOpt_line {s r : Str} {o : TcpOption} (h : parseOpt s = some (o, r)) :
    ∃ t, s = t ++ r ∧ OptT t o := by
  obtain ⟨p, hp, hps⟩ := alt_inv h
  simp only [List.mem_cons, List.mem_nil_iff, or_false] at hp
  rcases hp with rfl | rfl | rfl
  · obtain ⟨v, tv, rfl, e, hn⟩ := prefixNum_line hps
    exact ⟨'e' :: 'o' :: 'l' :: '+' :: tv, by rw [e]; simp, tv, rfl, hn⟩
  · obtain ⟨t, hm, e⟩ := altTags_inv hps
    have h1 := plainOptTable_consistent _ hm
    have h2 := plainOptTable_plain _ hm
    simp only at h1 h2
    exact ⟨t, e, by rw [← h1]; exact optT_plain h2⟩
  · obtain ⟨v, tv, rfl, e, hn⟩ := prefixNum_line hps
    exact ⟨'?' :: tv, by rw [e]; simp, tv, rfl, hn⟩

/-! ### lists, with the position in the line -/

theorem sepLoop_line {α} {p : Parser α} {R : Str → α → Prop} {L : Str}
    (hinv : ∀ a s x r, L = a ++ s → p s = some (x, r) → ∃ t, s = t ++ r ∧ R t x)
    (fuel : Nat) {a s r : Str} {xs : List α} (hL : L = a ++ s)
    (h : sepLoop comma p fuel s = some (xs, r)) : ∃ ts, Texts R ts xs ∧ s = tailTexts ts ++ r := by
  induction fuel generalizing a s xs with
  | zero =>
    simp [sepLoop] at h
    obtain ⟨rfl, rfl⟩ := h
    exact ⟨[], .nil, rfl⟩
  | succ f ih =>
    unfold sepLoop at h
    cases hc : comma s with
    | none =>
      simp [hc] at h
      obtain ⟨rfl, rfl⟩ := h
      exact ⟨[], .nil, rfl⟩
    | some y =>
      obtain ⟨u, s1⟩ := y
      have es : s = ',' :: s1 := tag_inv hc
      simp only [hc] at h
      cases hp : p s1 with
      | none =>
        simp [hp] at h
        obtain ⟨rfl, rfl⟩ := h
        exact ⟨[], .nil, rfl⟩
      | some z =>
        obtain ⟨o, s2⟩ := z
        simp only [hp] at h
        split at h
        · cases h
        · cases hl : sepLoop comma p f s2 with
          | none => simp [hl] at h
          | some w =>
            obtain ⟨os, r'⟩ := w
            simp [hl] at h
            obtain ⟨rfl, rfl⟩ := h
            have hL1 : L = (a ++ [',']) ++ s1 := by rw [hL, es]; simp
            obtain ⟨t, e1, hr⟩ := hinv _ _ _ _ hL1 hp
            have hL2 : L = (a ++ ',' :: t) ++ s2 := by rw [hL1, e1]; simp
            obtain ⟨ts, hts, e2⟩ := ih hL2 hl
            exact ⟨t :: ts, .cons hr hts, by rw [es, e1, e2]; simp [tailTexts]⟩

theorem sepList0_line {α} {p : Parser α} {R : Str → α → Prop} {L : Str}
    (hinv : ∀ a s x r, L = a ++ s → p s = some (x, r) → ∃ t, s = t ++ r ∧ R t x)
    {a s r : Str} {xs : List α} (hL : L = a ++ s)
    (h : sepList0 comma p s = some (xs, r)) : ∃ ts, Texts R ts xs ∧ s = joinWith ',' ts ++ r := by
  unfold sepList0 at h
  cases hp : p s with
  | none =>
    simp [hp] at h
    obtain ⟨rfl, rfl⟩ := h
    exact ⟨[], .nil, rfl⟩
  | some z =>
    obtain ⟨o, s1⟩ := z
    simp only [hp] at h
    cases hl : sepLoop comma p (s1.length + 1) s1 with
    | none => simp [hl] at h
    | some w =>
      obtain ⟨os, r'⟩ := w
      simp [hl] at h
      obtain ⟨rfl, rfl⟩ := h
      obtain ⟨t, e1, hr⟩ := hinv _ _ _ _ hL hp
      have hL2 : L = (a ++ t) ++ s1 := by rw [hL, e1]; simp
      obtain ⟨ts, hts, e2⟩ := sepLoop_line hinv _ hL2 hl
      exact ⟨t :: ts, .cons hr hts, by rw [e1, e2, joinWith_cons]; simp⟩

theorem verT_print (v : IpVersion) : VerT (printIpVersion v) v := by
  cases v <;> (show printIpVersion _ = _; decide +kernel)
theorem payT_print (p : PayloadSize) : PayT (printPayload p) p := by
  cases p <;> (show printPayload _ = _; decide +kernel)

/-- **every accepted text is a line of the TCP signature language denoting the parsed value** -/
theorem line_of_parseTcpSigFull {l : Str} {sg : TcpSig} (h : parseTcpSigFull l = some sg) : TcpLine l sg := by
  unfold parseTcpSigFull full at h
  cases hp : parseTcpSig l with
  | none => simp [hp] at h
  | some x =>
    obtain ⟨sg', r⟩ := x
    cases r with
    | cons c r' => simp [hp] at h
    | nil =>
      simp [hp] at h
      subst h
      simp only [parseTcpSig, Option.bind_eq_bind, Option.bind_eq_some_iff, Option.pure_def,
        Option.some.injEq, Prod.mk.injEq, Prod.exists] at hp
      obtain ⟨ver, s1, h1, u1, s2, h2, ttl, s3, h3, u2, s4, h4, olen, s5, h5, u3, s6, h6, mss, s7, h7,
        u4, s8, h8, ws, s9, h9, u5, s10, h10, sc, s11, h11, u6, s12, h12, ol, s13, h13, u7, s14, h14,
        qs, s15, h15, u8, s16, h16, pc, s17, h17, rfl, rfl⟩ := hp
      have e1 := altTags_print ipVersionTable_consistent h1
      have e2 := tag_inv h2
      obtain ⟨tt, e3, htt⟩ := parseTtl_line h3
      have e4 := tag_inv h4
      obtain ⟨to, e5, hto, _⟩ := number_line h5
      have e6 := tag_inv h6
      obtain ⟨tm, e7, htm⟩ := optNum_line h7
      have e8 := tag_inv h8
      obtain ⟨tw, e9, htw⟩ := parseWSize_line h9
      have e10 := tag_inv h10
      obtain ⟨tsc, e11, htsc⟩ := optNum_line h11
      have e12 := tag_inv h12
      have L13 : l = (printIpVersion ver ++ ':' :: (tt ++ ':' :: (to ++ ':' :: (tm ++ ':' :: (tw ++ ',' ::
          (tsc ++ [':'])))))) ++ s12 := by
        rw [e1, e2, e3, e4, e5, e6, e7, e8, e9, e10, e11, e12]; simp
      obtain ⟨tol, htol, e13⟩ := sepList0_line (R := OptT)
        (fun a s x r _ hp => parseOpt_line hp) L13 h13
      have e14 := tag_inv h14
      obtain ⟨tqs, htqs, e15⟩ := sepList0_line (L := s14) (R := fun t q => t = quirkText q) (a := [])
        (fun a s x r _ hp => ⟨printQuirk x, altTags_print quirkTable_consistent hp, printQuirk_eq x⟩)
        (by simp) h15
      have e16 := tag_inv h16
      have e17 := altTags_print payloadTable_consistent h17
      refine ⟨printIpVersion ver, tt, to, tm, tw, tsc, tol, tqs, printPayload pc, ?_, verT_print ver, htt, hto,
        htm, htw, htsc, htol, htqs, payT_print pc⟩
      rw [L13, e13, e14, e15, e16, e17]
      simp

end Huginn.SigText

namespace Huginn.SigText
open Huginn.Sig Huginn.SigText.Spec
set_option linter.unusedSimpArgs false

/-! ### HTTP: the parser accepts exactly the printed forms -/

theorem nameChar_of_isNameChar {c : Char} (h : isNameChar c = true) : nameChar c = true := by
  simp only [isNameChar, Bool.and_eq_true] at h
  exact h.1.1

theorem parseHeaderL_wf {s r : Str} {h : HeaderL} (hp : parseHeaderL s = some (h, r)) : WFHdrL h := by
  unfold parseHeaderL at hp
  cases h1 : opt (tag ['?']) s with
  | none => simp [h1] at hp
  | some x =>
    obtain ⟨o, s1⟩ := x
    simp only [h1] at hp
    cases h2 : many1 isNameChar s1 with
    | none => simp [h2] at hp
    | some y =>
      obtain ⟨name, s2⟩ := y
      simp only [h2] at hp
      cases h3 : opt bracketValue s2 with
      | none => simp [h3] at hp
      | some z =>
        obtain ⟨v, s3⟩ := z
        simp [h3] at hp
        obtain ⟨rfl, rfl⟩ := hp
        refine ⟨fun c hc => nameChar_of_isNameChar ((many1_inv h2).2.2.1 c hc), ?_⟩
        intro x hx
        simp only at hx
        rcases opt_inv h3 with ⟨a, rfl, hb⟩ | ⟨rfl, _⟩
        · cases hx
          unfold bracketValue at hb
          cases g1 : tag ['=', '['] s2 with
          | none => simp [g1] at hb
          | some w =>
            obtain ⟨u, t1⟩ := w
            simp only [g1] at hb
            cases g2 : takeUntil ']' t1 with
            | none => simp [g2] at hb
            | some w2 =>
              obtain ⟨v', t2⟩ := w2
              simp only [g2] at hb
              cases g3 : tag [']'] t2 with
              | none => simp [g3] at hb
              | some w3 =>
                simp [g3] at hb
                rw [← hb.1]
                exact (takeUntil_inv g2).2.1
        · cases hx

theorem httpVersionTable_inGrammar : ∀ e ∈ httpVersionTable, versionInGrammar e.2 = true := by decide +kernel

theorem read_wf {xs : List HeaderL} {ts : List Str}
    (h : Read (fun x t => t = printHeaderL x ∧ (WFHdrL x ∧ x.name ≠ [])) xs ts) :
    ∀ x ∈ xs, WFHdrL x ∧ x.name ≠ [] := by
  induction h with
  | nil => intro _ h; cases h
  | cons hx _ ih =>
    intro y hy
    rcases List.mem_cons.mp hy with rfl | hy
    · exact hx.2
    · exact ih y hy

/-- accepted ⇒ a value over the vocabulary -/
theorem wf_of_parse {l r : Str} {raw : HttpSigL} (h : parseHttpSigRawL l = some (raw, r)) : WFHttpL raw := by
  simp only [parseHttpSigRawL, Option.bind_eq_bind, Option.bind_eq_some_iff, Option.pure_def,
    Option.some.injEq, Prod.mk.injEq, Prod.exists] at h
  obtain ⟨ver, s1, h1, u1, s2, h2, ho, s3, h3, u2, s4, h4, ha, s5, h5, u3, s6, h6, sw, s7, h7, rfl, rfl⟩ := h
  obtain ⟨tok, hm, _⟩ := altTags_inv h1
  have hver := httpVersionTable_inGrammar _ hm
  have hinv : ∀ s x r, parseHeaderL s = some (x, r) →
      ∃ t, s = t ++ r ∧ (t = printHeaderL x ∧ (WFHdrL x ∧ x.name ≠ [])) :=
    fun s x r hp => ⟨printHeaderL x, parseHeaderL_inv hp, rfl, parseHeaderL_wf hp, parseHeaderL_name hp⟩
  obtain ⟨ts, hr, _⟩ := sepList0_inv hinv h3
  have hha : ∀ x ∈ ha.getD [], WFHdrL x ∧ x.name ≠ [] := by
    rcases opt_inv h5 with ⟨xs, rfl, hs⟩ | ⟨rfl, _⟩
    · obtain ⟨ts', hr', _⟩ := sepList0_inv hinv hs
      simpa using read_wf hr'
    · intro x hx; cases hx
  exact ⟨hver, read_wf hr, hha⟩

end Huginn.SigText
