import Huginn.Model.HttpFlow
/-
Helper lemmas for C09: the finite map, one step of `process_tcp_packet`.
-/
namespace Huginn.HttpFlow
set_option linter.unusedSimpArgs false

theorem FlowMap.get_erase_eq (m : FlowMap) (k : FlowKey) : (m.erase k).get k = none := by
  induction m with
  | nil => simp [FlowMap.erase, FlowMap.get]
  | cons e r ih =>
    obtain ⟨k', v⟩ := e
    unfold FlowMap.erase at ih ⊢
    by_cases h : k' = k
    · subst h; simp [List.filter_cons, ih]
    · have hb : (k' == k) = false := by simpa using h
      simp [List.filter_cons, hb, FlowMap.get, h, ih]

theorem FlowMap.get_erase_ne (m : FlowMap) (k k2 : FlowKey) (h : k2 ≠ k) : (m.erase k).get k2 = m.get k2 := by
  induction m with
  | nil => simp [FlowMap.erase, FlowMap.get]
  | cons e r ih =>
    obtain ⟨k', v⟩ := e
    unfold FlowMap.erase at ih ⊢
    by_cases h' : k' = k
    · subst h'
      have : ¬ k' = k2 := fun e => h e.symm
      simp [List.filter_cons, FlowMap.get, this, ih]
    · have hb : (k' == k) = false := by simpa using h'
      by_cases h2 : k' = k2
      · subst h2; simp [List.filter_cons, hb, FlowMap.get]
      · simp [List.filter_cons, hb, FlowMap.get, h2, ih]

theorem FlowMap.get_set_eq (m : FlowMap) (k : FlowKey) (v : TcpFlow) : (m.set k v).get k = some v := by
  simp [FlowMap.set, FlowMap.get]

theorem FlowMap.get_set_ne (m : FlowMap) (k k2 : FlowKey) (v : TcpFlow) (h : k2 ≠ k) :
    (m.set k v).get k2 = m.get k2 := by
  have : ¬ k = k2 := fun e => h e.symm
  simp [FlowMap.set, FlowMap.get, this, FlowMap.get_erase_ne m k k2 h]

theorem FlowMap.get_nil (k : FlowKey) : FlowMap.get [] k = none := rfl

theorem FlowKey.rev_rev (k : FlowKey) : k.rev.rev = k := by cases k; rfl

end Huginn.HttpFlow
