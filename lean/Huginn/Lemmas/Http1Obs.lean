import Huginn.Lemmas.Http1Report
import Huginn.Lemmas.Http1Cookie
import Huginn.Lemmas.Http1Lang2
/-
Helper lemmas for C05: from the parsed head to the observable report, and the processors' gates.
-/
namespace Huginn.Http1
open Huginn.Http1.Spec Huginn.Gen
set_option linter.unusedSimpArgs false

/-! ### lookups on an indexed field list -/

theorem firstValue_map (s : String) (hs : lower (ascii s) = ascii s) : ∀ (X : List (Field × Nat)),
    firstValue (X.map hdrOf) (ascii s) = (X.find? (fun p => ciEq p.1.name s)).map (·.1.value)
  | [] => rfl
  | x :: X => by
    simp only [List.map_cons, firstValue_cons, List.find?_cons]
    have e : (lower (hdrOf x).name == ascii s && (hdrOf x).value.isSome) = ciEq x.1.name s := by
      simp [hdrOf, lower_eq_ciEq _ _ hs]
    rw [e, firstValue_map s hs X]
    cases ciEq x.1.name s <;> simp [hdrOf]

theorem find?_zipIdx (p : Field → Bool) : ∀ (fs : List Field) (n : Nat),
    ((fs.zipIdx n).find? (fun x => p x.1)).map (·.1) = fs.find? p
  | [], _ => rfl
  | f :: fs, n => by
    simp only [List.zipIdx_cons, List.find?_cons]
    cases p f <;> simp [find?_zipIdx p fs (n + 1)]

theorem zipIdx_map_fst {α} (l : List α) (n : Nat) : (l.zipIdx n).map (·.1) = l := by
  induction l generalizing n with
  | nil => rfl
  | cons a r ih => simp [List.zipIdx_cons, ih]

theorem ciEq_exclusive (n : Bytes) (s t : String) (hne : lower (ascii s) ≠ lower (ascii t)) :
    ciEq n s = true → ciEq n t = false := by
  unfold ciEq
  intro h
  have := eq_of_beq h
  cases hq : (lower n == lower (ascii t)) with
  | false => rfl
  | true => exact absurd ((eq_of_beq hq).symm.trans this).symm hne

/-- a first-wins header that is neither Cookie nor Referer: looked up among the reported headers -/
theorem firstValue_reported (fs : List Field) (s : String) (hs : lower (ascii s) = ascii s)
    (h1 : lower (ascii s) ≠ lower (ascii "cookie")) (h2 : lower (ascii s) ≠ lower (ascii "referer")) :
    firstValue (hdrsOf (reportedReq fs)) (ascii s) = (firstField fs s).map (·.value) := by
  have e : hdrsOf (reportedReq fs) = (reportedReq fs).map hdrOf := rfl
  rw [e, firstValue_map s hs]
  unfold reportedReq firstField
  rw [find?_filter_of_imp]
  · rw [← find?_zipIdx (fun f => ciEq f.name s) fs 0]
    cases (fs.zipIdx 0).find? (fun x => ciEq x.1.name s) <;> rfl
  · intro x hx
    unfold isCookieOrReferer
    simp [ciEq_exclusive _ _ _ h1 hx, ciEq_exclusive _ _ _ h2 hx]

theorem reported_eq_filter (fs : List Field) :
    (hdrsAll fs).filter (fun h => !(lower h.name == ascii "cookie") && !(lower h.name == ascii "referer")) =
      hdrsOf (reportedReq fs) := by
  have e : hdrsOf (reportedReq fs) = (reportedReq fs).map hdrOf := rfl
  rw [e]
  unfold hdrsAll reportedReq
  rw [List.filter_map]
  congr 1
  apply List.filter_congr
  intro x _
  simp only [Function.comp, hdrOf, isCookieOrReferer, Bool.not_or]
  rw [lower_eq_ciEq _ "cookie" (by decide), lower_eq_ciEq _ "referer" (by decide)]

/-! ### the request report -/

theorem mem_reported {fs : List Field} {p : Field × Nat} (h : p ∈ reportedReq fs) :
    p.1 ∈ fs ∧ isCookieOrReferer p.1 = false := by
  unfold reportedReq at h
  rw [List.mem_filter] at h
  refine ⟨?_, by simpa using h.2⟩
  have := List.mem_map_of_mem (f := (·.1)) h.1
  rwa [zipIdx_map_fst] at this

theorem firstField_mem {fs : List Field} {s : String} {f : Field} (h : firstField fs s = some f) :
    f ∈ fs ∧ ciEq f.name s = true := by
  unfold firstField at h
  exact ⟨List.mem_of_find?_eq_some h, by simpa using List.find?_some h⟩

theorem toObsReq_assemble (h : ReqHead) (info : Meta) (wf : WFReq h) :
    toObsReq (assembleReq h.method h.target h.ver (hdrsAll h.fields) (requestLine h) info) =
      some (reportReq h) := by
  obtain ⟨_, _, _, _, _, _, hfw, hlang⟩ := wf
  unfold toObsReq assembleReq
  simp only [reported_eq_filter]
  -- Accept-Language
  have hal : firstValue (hdrsOf (reportedReq h.fields)) (ascii "accept-language") =
      (firstField h.fields "accept-language").map (·.value) :=
    firstValue_reported _ _ (by decide) (by decide) (by decide)
  have hua : firstValue (hdrsOf (reportedReq h.fields)) (ascii "user-agent") =
      (firstField h.fields "user-agent").map (·.value) :=
    firstValue_reported _ _ (by decide) (by decide) (by decide)
  have hlangEq : langOfHeader ((firstField h.fields "accept-language").map (·.value)) = some (langOf h) := by
    unfold langOf
    unfold LangsWF at hlang
    cases hf : firstField h.fields "accept-language" with
    | none => rfl
    | some f =>
      rw [hf] at hlang
      obtain ⟨hne, hwfi, hval⟩ := hlang
      simp only [Option.map_some, langOfHeader]
      rw [hval]
      exact highestQualityLanguage_wf _ hne hwfi
  rw [hal, hua, hlangEq]
  simp only [Option.map_some]
  -- the record, field by field
  have hhord : convertHeaders true (hdrsOf (reportedReq h.fields)) = (hdrsOf (reportedReq h.fields)).map (sigEntry true) := by
    unfold convertHeaders
    apply List.map_congr_left
    intro x hx
    exact convertHeader_eq_sigEntry true x
  have hcookie : (if HttpLists.parseCookies = true then cookiesOfHeader (cookieHeader (hdrsAll h.fields))
      else []) = cookiesOfLines ((fieldsNamed h.fields "cookie").map (·.value)) := by
    have : HttpLists.parseCookies = true := rfl
    simp only [this, if_true]
    rw [cookieHeader_hdrs]
    unfold fieldsNamed
    apply cookiesOfHeader_join
    intro x hx
    obtain ⟨f, hf, rfl⟩ := List.mem_map.mp hx
    exact (hfw f (List.mem_filter.mp hf).1).2.2.2.1.1
  have hreferer : lastValue (hdrsAll h.fields) (ascii "referer") =
      (fieldsNamed h.fields "referer").getLast?.map (·.value) := by
    unfold hdrsAll fieldsNamed
    exact lastValue_hdrs_last "referer" (by decide) h.fields 0
  unfold reportReq
  simp only [hhord, absentHeaders_eq, hcookie, hreferer]
  rfl

end Huginn.Http1
