import Huginn.Model.Match
import Huginn.Spec.Match
import Huginn.Lemmas.Bands
/-
Component lemmas for C12: each `distance_*` of the model against the field-level
specification (`…Inst` / `…Comparable`), the additive structure of the two sums, and the
header walk on instances.
-/
namespace Huginn.Match
open Huginn.Sig Huginn.Match.Spec

/-! ### the quality classes, as regenerated -/

theorem tcpHigh_eq : tcpHigh = 0 := by decide
theorem tcpMedium_eq : tcpMedium = 1 := by decide
theorem tcpLow_eq : tcpLow = 2 := by decide
theorem httpHigh_eq : httpHigh = 0 := by decide
theorem httpBad_eq : httpBad = 3 := by decide
theorem penTtl_eq : penTtl = tcpLow := rfl
theorem penOlen_eq : penOlen = tcpLow := rfl
theorem penMss_eq : penMss = tcpLow := rfl
theorem penWindow_eq : penWindow = tcpLow := rfl
theorem penWscale_eq : penWscale = tcpMedium := rfl
theorem penExpsw_eq : penExpsw = httpBad := rfl

theorem satAdd32_small {a b : Nat} (h : a + b ≤ u32Max) : satAdd32 a b = a + b := by
  unfold satAdd32; omega

/-! ### TTL and window -/

theorem ite_some {α} (c : Prop) [Decidable c] (a b : α) :
    (if c then some a else some b) = some (if c then a else b) := by
  by_cases h : c <;> simp [h]

theorem distTtl_inst (o s : Ttl) (ho : TtlWF o) (hs : TtlWF s) (h : TtlInst o s) :
    distTtl o s = some 0 := by
  cases o <;> cases s <;>
    simp only [TtlInst, TtlWF, maxHops] at h ho hs <;>
    simp only [distTtl, eqLow, satAdd8, beq_iff_eq, Bool.and_eq_true, tcpHigh_eq, ite_some] <;>
    (congr 1; split <;> omega)

theorem distTtl_differ (o s : Ttl) (ho : TtlWF o) (hs : TtlWF s) (h : ¬ TtlInst o s)
    (hc : TtlComparable o s) : distTtl o s = some tcpLow := by
  cases o <;> cases s <;>
    simp only [TtlInst, TtlComparable, TtlWF, maxHops] at h hc ho hs <;>
    simp only [distTtl, eqLow, satAdd8, beq_iff_eq, Bool.and_eq_true, tcpHigh_eq, ite_some] <;>
    (congr 1; split <;> omega)

theorem distWindow_inst (o s : WindowSize) (m : Option Nat) (h : WinInst o s m) :
    distWindow o s m = some 0 := by
  cases o <;> cases s <;>
    simp only [WinInst] at h <;>
    simp only [distWindow, eqLow, beq_iff_eq, bne_iff_ne, Bool.and_eq_true, Bool.or_eq_true,
      decide_eq_true_eq, tcpHigh_eq, ite_some]
  case value.mss a b =>
    cases m with
    | none => exact absurd h id
    | some m =>
      obtain ⟨hm, rfl⟩ := h
      have : m ≠ 0 := by omega
      simp [this, Nat.mul_div_cancel _ hm]
  all_goals (congr 1; split <;> omega)

theorem distWindow_differ (o s : WindowSize) (m : Option Nat) (h : ¬ WinInst o s m)
    (hc : WinComparable o s) : distWindow o s m = some tcpLow := by
  cases o <;> cases s <;>
    simp only [WinInst, WinComparable, not_true_eq_false, not_false_eq_true] at h hc <;>
    simp only [distWindow, eqLow, beq_iff_eq, bne_iff_ne, Bool.and_eq_true, Bool.or_eq_true,
      decide_eq_true_eq, tcpHigh_eq, ite_some]
  case value.mss a b =>
    cases m with
    | none => rfl
    | some m =>
      simp only [] at h ⊢
      congr 1
      split
      · rfl
      · split
        · exfalso
          rename_i hm0 hdiv
          apply h
          refine ⟨by omega, ?_⟩
          have := Nat.div_add_mod a m
          rw [hdiv.2, ← hdiv.1] at this
          rw [Nat.mul_comm]; omega
        · rfl
  all_goals (congr 1; split <;> omega)

/-! ### the other TCP components and the sum -/

theorem distOlen_eq (o : TcpObs) (s : TcpSig) :
    distOlen o s = some (if o.olen = s.olen then 0 else penOlen) := by
  simp [distOlen, eqLow, ite_some, tcpHigh_eq, penOlen_eq]

theorem distMss_eq (o : TcpObs) (s : TcpSig) :
    distMss o s = some (if OptInst o.mss s.mss then 0 else penMss) := by
  unfold distMss OptInst
  cases s.mss <;> simp [ite_some, tcpHigh_eq, penMss_eq]

theorem distWscale_eq (o : TcpObs) (s : TcpSig) :
    distWscale o s = some (if OptInst o.wscale s.wscale then 0 else penWscale) := by
  unfold distWscale OptInst
  cases s.wscale <;> simp [ite_some, tcpHigh_eq, penWscale_eq]

theorem distIpVersion_ok {o s : IpVersion} (h : VersionOk o s) (ho : o ≠ .any) :
    distIpVersion o s = some 0 := by
  cases o <;> cases s <;> simp_all [VersionOk, distIpVersion, tcpHigh_eq]

theorem distIpVersion_bad {o s : IpVersion} (h : ¬ VersionOk o s) : distIpVersion o s = none := by
  cases o <;> cases s <;> simp_all [VersionOk, distIpVersion]

theorem distPayload_ok {o s : PayloadSize} (h : PclassOk o s) : distPayload o s = some 0 := by
  cases o <;> cases s <;> simp_all [PclassOk, distPayload, tcpHigh_eq]

theorem distPayload_bad {o s : PayloadSize} (h : ¬ PclassOk o s) : distPayload o s = none := by
  cases o <;> cases s <;> simp_all [PclassOk, distPayload]

theorem tcpDistance_of_parts {s : TcpSig} {o : TcpObs} {d0 d1 d2 d3 d4 d5 d6 d7 d8 : Nat}
    (h0 : distIpVersion o.version s.version = some d0) (h1 : distTtl o.ittl s.ittl = some d1)
    (h2 : distOlen o s = some d2) (h3 : distMss o s = some d3)
    (h4 : distWindow o.wsize s.wsize o.mss = some d4) (h5 : distWscale o s = some d5)
    (h6 : distOlayout o s = some d6) (h7 : distQuirks o s = some d7)
    (h8 : distPayload o.pclass s.pclass = some d8) :
    tcpDistance s o = some (satAdd32 (satAdd32 (satAdd32 (satAdd32 (satAdd32 (satAdd32 (satAdd32
      (satAdd32 d0 d1) d2) d3) d4) d5) d6) d7) d8) := by
  simp [tcpDistance, h0, h1, h2, h3, h4, h5, h6, h7, h8]

theorem tcpDistance_some {s : TcpSig} {o : TcpObs} {d : Nat} (h : tcpDistance s o = some d) :
    ∃ d0 d1 d2 d3 d4 d5 d6 d7 d8, distIpVersion o.version s.version = some d0 ∧
      distTtl o.ittl s.ittl = some d1 ∧ distOlen o s = some d2 ∧ distMss o s = some d3 ∧
      distWindow o.wsize s.wsize o.mss = some d4 ∧ distWscale o s = some d5 ∧
      distOlayout o s = some d6 ∧ distQuirks o s = some d7 ∧
      distPayload o.pclass s.pclass = some d8 ∧
      d = satAdd32 (satAdd32 (satAdd32 (satAdd32 (satAdd32 (satAdd32 (satAdd32
        (satAdd32 d0 d1) d2) d3) d4) d5) d6) d7) d8 := by
  simp only [tcpDistance, bind, Option.bind_eq_some_iff, pure, Option.some.injEq] at h
  obtain ⟨d0, h0, d1, h1, d2, h2, d3, h3, d4, h4, d5, h5, d6, h6, d7, h7, d8, h8, rfl⟩ := h
  exact ⟨d0, d1, d2, d3, d4, d5, d6, d7, d8, h0, h1, h2, h3, h4, h5, h6, h7, h8, rfl⟩

theorem tcp_decisive_none (s : TcpSig) (o : TcpObs) (h : ¬ TcpDecisiveOk o s) :
    tcpDistance s o = none := by
  cases hd : tcpDistance s o with
  | none => rfl
  | some d =>
    exfalso
    obtain ⟨d0, d1, d2, d3, d4, d5, d6, d7, d8, h0, _, _, _, _, _, h6, h7, h8, _⟩ := tcpDistance_some hd
    apply h
    refine ⟨?_, ?_, ?_, ?_⟩
    · apply Classical.byContradiction; intro hv; rw [distIpVersion_bad hv] at h0; cases h0
    · unfold distOlayout at h6; split at h6 <;> simp_all
    · unfold distQuirks at h7; split at h7 <;> simp_all
    · apply Classical.byContradiction; intro hv; rw [distPayload_bad hv] at h8; cases h8

theorem relPenalty_le (r : Rel) (p : Nat) : relPenalty r p ≤ p := by
  cases r <;> simp [relPenalty]

theorem distTtl_rel (o s : Ttl) (ho : TtlWF o) (hs : TtlWF s) (hc : ttlRel o s ≠ .incomparable) :
    distTtl o s = some (relPenalty (ttlRel o s) penTtl) := by
  unfold ttlRel at *
  by_cases hi : TtlInst o s
  · simp only [hi, if_true, relPenalty]; exact distTtl_inst o s ho hs hi
  · by_cases hcmp : TtlComparable o s
    · simp only [hi, hcmp, if_true, if_false, relPenalty, penTtl_eq]
      exact distTtl_differ o s ho hs hi hcmp
    · simp [hi, hcmp] at hc

theorem distWindow_rel (o s : WindowSize) (m : Option Nat) (hc : winRel o s m ≠ .incomparable) :
    distWindow o s m = some (relPenalty (winRel o s m) penWindow) := by
  unfold winRel at *
  by_cases hi : WinInst o s m
  · simp only [hi, if_true, relPenalty]; exact distWindow_inst o s m hi
  · by_cases hcmp : WinComparable o s
    · simp only [hi, hcmp, if_true, if_false, relPenalty, penWindow_eq]
      exact distWindow_differ o s m hi hcmp
    · simp [hi, hcmp] at hc

/-- The model's distance is the specified one wherever the statement determines it. -/
theorem tcpDistance_eq_spec (s : TcpSig) (o : TcpObs) (r : Option Nat) (h : specTcp s o = some r) :
    tcpDistance s o = r := by
  unfold specTcp at h
  split at h
  · cases h
  · rename_i hwf
    have hwf := Classical.not_not.mp hwf
    split at h
    · rename_i hd
      cases h
      exact tcp_decisive_none s o hd
    · rename_i hd
      have hd := Classical.not_not.mp hd
      simp only [] at h
      split at h
      · cases h
      · rename_i hinc
        cases h
        have hrt : ttlRel o.ittl s.ittl ≠ .incomparable := fun e => hinc (.inl e)
        have hrw : winRel o.wsize s.wsize o.mss ≠ .incomparable := fun e => hinc (.inr e)
        obtain ⟨⟨hov, hop, hot, _, _, _⟩, hst, _⟩ := hwf
        obtain ⟨hv, hl, hq, hp⟩ := hd
        rw [tcpDistance_of_parts (distIpVersion_ok hv hov) (distTtl_rel _ _ hot hst hrt)
          (distOlen_eq o s) (distMss_eq o s) (distWindow_rel _ _ _ hrw)
          (distWscale_eq o s) (by simp [distOlayout, hl, tcpHigh_eq] : distOlayout o s = some 0)
          (by simp [distQuirks, hq, tcpHigh_eq] : distQuirks o s = some 0) (distPayload_ok hp)]
        have b1 := relPenalty_le (ttlRel o.ittl s.ittl) penTtl
        have b2 := relPenalty_le (winRel o.wsize s.wsize o.mss) penWindow
        have e1 : penTtl = 2 := by decide
        have e2 : penWindow = 2 := by decide
        have e3 : penOlen = 2 := by decide
        have e4 : penMss = 2 := by decide
        have e5 : penWscale = 1 := by decide
        rw [e1] at b1; rw [e2] at b2
        simp only [e1, e2, e3, e4, e5] at *
        congr 1
        simp only [satAdd32, u32Max]
        split <;> split <;> split <;> omega

/-! ### HTTP -/

theorem isInfixOf_iff (p l : List Char) : isInfixOf p l = true ↔ p <:+: l := by
  induction l with
  | nil => simp [isInfixOf, List.isEmpty_iff]
  | cons c l ih =>
    simp only [isInfixOf, Bool.or_eq_true, ih, List.isPrefixOf_iff_prefix, List.infix_cons_iff]

theorem distExpsw_eq (o s : String) (hk : ¬ KF.C12.expswReversed o s) :
    distExpsw o s = some (if SwInst o s then 0 else penExpsw) := by
  unfold KF.C12.expswReversed at hk
  have hk := Classical.not_not.mp hk
  unfold distExpsw
  rw [ite_some, httpHigh_eq, penExpsw_eq]
  congr 1
  by_cases h : SwInst o s
  · have := (isInfixOf_iff _ _).mpr (hk.mp h)
    simp [h, this]
  · have : ¬ isInfixOf o.toList s.toList = true := fun e => h (hk.mpr ((isInfixOf_iff _ _).mp e))
    simp [h, this]

theorem hdrInst_name_mem {os ss : List Header} (h : HdrInst os ss) :
    ∀ o ∈ os, o.name ∈ ss.map (·.name) := by
  induction h with
  | nil => intro o ho; cases ho
  | keep hn _ _ ih =>
    intro o ho
    rcases List.mem_cons.mp ho with rfl | ho
    · simp [hn]
    · simp only [List.map_cons, List.mem_cons]; exact .inr (ih o ho)
  | skip _ _ ih =>
    intro o ho
    simp only [List.map_cons, List.mem_cons]; exact .inr (ih o ho)

/-- On an instance the greedy walk makes no error — provided the signature names no header
twice. With extra unknown headers appended to the observation, it
makes exactly one error per extra header. -/
theorem hdrErrors_inst_extra {os ss : List Header} (h : HdrInst os ss) (ex : List Header)
    (hnd : (ss.map (·.name)).Nodup)
    (hex : ∀ e ∈ ex, e.name ∉ ss.map (·.name)) : hdrErrors (os ++ ex) ss = ex.length := by
  induction h with
  | nil => simp [hdrErrors]
  | @keep o s os ss hn hv _ ih =>
    have hval : s.value = none ∨ o.value = s.value := hv
    have hnd' : (ss.map (·.name)).Nodup := (List.nodup_cons.mp (by simpa using hnd)).2
    have hex' : ∀ e ∈ ex, e.name ∉ ss.map (·.name) := fun e he hm =>
      hex e he (by simp only [List.map_cons, List.mem_cons]; exact .inr hm)
    simp only [List.cons_append, hdrErrors, hn, hval, and_self, if_true]
    exact ih hnd' hex'
  | @skip s os ss hopt hinst ih =>
    have hnd2 := List.nodup_cons.mp (by simpa using hnd : (s.name :: ss.map (·.name)).Nodup)
    have hex' : ∀ e ∈ ex, e.name ∉ ss.map (·.name) := fun e he hm =>
      hex e he (by simp only [List.map_cons, List.mem_cons]; exact .inr hm)
    have ih := ih hnd2.2 hex'
    cases hos : os ++ ex with
    | nil =>
      rw [hos] at ih
      simp only [hdrErrors, reqErr, hopt, if_true, Nat.zero_add]
      rw [ih]
    | cons x xs =>
      rw [hos] at ih
      have hx : x.name ≠ s.name := by
        cases os with
        | nil =>
          simp only [List.nil_append] at hos
          have hxe : x ∈ ex := by rw [hos]; simp
          intro e
          exact hex x hxe (by simp [e])
        | cons o os' =>
          simp only [List.cons_append, List.cons.injEq] at hos
          have := hdrInst_name_mem hinst o (by simp)
          rw [hos.1] at this
          intro e
          exact hnd2.1 (e ▸ this)
      simp only [hdrErrors, hx, false_and, if_false, hopt, if_true]
      rw [ih]

theorem hdrErrors_inst {os ss : List Header} (h : HdrInst os ss)
    (hnd : ¬ KF.C12.headerRepeatedName ss) : hdrErrors os ss = 0 := by
  have := hdrErrors_inst_extra h [] (Classical.not_not.mp hnd) (by simp)
  simpa using this

theorem errorBand_zero : errorBand 0 = some 0 := by decide

theorem distHeader_inst {os ss : List Header} (h : HdrInst os ss)
    (hnd : ¬ KF.C12.headerRepeatedName ss) : distHeader os ss = some 0 := by
  unfold distHeader
  rw [hdrErrors_inst h hnd]
  exact errorBand_zero

theorem distHttpVersion_ok {o s : HttpVersion} (h : HttpVersionOk o s) :
    distHttpVersion o s = some 0 := by
  unfold distHttpVersion HttpVersionOk at *
  simp [h, httpHigh_eq]

theorem distHttpVersion_bad {o s : HttpVersion} (h : ¬ HttpVersionOk o s) :
    distHttpVersion o s = none := by
  unfold distHttpVersion HttpVersionOk at *
  simp [h]

theorem httpDistance_none_of_version (s : HttpSig) (o : HttpObs)
    (h : ¬ HttpVersionOk o.version s.version) : httpDistance s o = none := by
  simp [httpDistance, distHttpVersion_bad h]

/-- The model's HTTP distance is the specified one wherever the statement determines it, outside
the two header / software-string classes. -/
theorem httpDistance_eq_spec (s : HttpSig) (o : HttpObs) (r : Option Nat)
    (hk1 : ¬ (KF.C12.headerRepeatedName s.horder ∨ KF.C12.headerRepeatedName s.habsent))
    (hk3 : ¬ KF.C12.expswReversed o.expsw s.expsw) (h : specHttp s o = some r) :
    httpDistance s o = r := by
  unfold specHttp at h
  split at h
  · cases h
  · split at h
    · rename_i hv
      cases h
      exact httpDistance_none_of_version s o hv
    · rename_i hv
      have hv := Classical.not_not.mp hv
      split at h
      · rename_i hh
        cases h
        have h1 := distHeader_inst hh.1 (fun e => hk1 (.inl e))
        have h2 := distHeader_inst hh.2 (fun e => hk1 (.inr e))
        simp only [httpDistance, distHttpVersion_ok hv, h1, h2, distExpsw_eq _ _ hk3, bind,
          Option.bind, pure]
        have e : penExpsw = 3 := by decide
        rw [e]
        congr 1
        simp only [satAdd32, u32Max]
        split <;> omega
      · cases h

/-! ### bounds -/

theorem eqLow_le {c : Bool} {d : Nat} (h : eqLow c = some d) : d ≤ 2 := by
  unfold eqLow at h
  split at h <;> (cases h; simp [tcpHigh_eq, tcpLow_eq])

theorem distTtl_le {o s : Ttl} {d : Nat} (h : distTtl o s = some d) : d ≤ 2 := by
  unfold distTtl at h
  split at h <;> first | exact eqLow_le h | cases h

theorem distWindow_le {o s : WindowSize} {m : Option Nat} {d : Nat}
    (h : distWindow o s m = some d) : d ≤ 2 := by
  unfold distWindow at h
  split at h
  case h_3 =>
    split at h
    · split at h
      · cases h; simp [tcpLow_eq]
      · exact eqLow_le h
    · cases h; simp [tcpLow_eq]
  all_goals first | exact eqLow_le h | (cases h; simp [tcpHigh_eq]) | cases h

theorem distIpVersion_le {o s : IpVersion} {d : Nat} (h : distIpVersion o s = some d) : d = 0 := by
  unfold distIpVersion at h
  split at h
  · cases h; exact tcpHigh_eq
  · split at h <;> first | (cases h; exact tcpHigh_eq) | cases h

theorem distPayload_le {o s : PayloadSize} {d : Nat} (h : distPayload o s = some d) : d = 0 := by
  unfold distPayload at h
  split at h <;> first | (cases h; exact tcpHigh_eq) | cases h

theorem distOlayout_le {o : TcpObs} {s : TcpSig} {d : Nat} (h : distOlayout o s = some d) : d = 0 := by
  unfold distOlayout at h
  split at h <;> first | (cases h; exact tcpHigh_eq) | cases h

theorem distQuirks_le {o : TcpObs} {s : TcpSig} {d : Nat} (h : distQuirks o s = some d) : d = 0 := by
  unfold distQuirks at h
  split at h <;> first | (cases h; exact tcpHigh_eq) | cases h

theorem distOlen_le {o : TcpObs} {s : TcpSig} {d : Nat} (h : distOlen o s = some d) : d ≤ 2 :=
  eqLow_le h

theorem distMss_le {o : TcpObs} {s : TcpSig} {d : Nat} (h : distMss o s = some d) : d ≤ 2 := by
  unfold distMss at h
  split at h <;> (cases h; simp [tcpHigh_eq, tcpLow_eq])

theorem distWscale_le {o : TcpObs} {s : TcpSig} {d : Nat} (h : distWscale o s = some d) : d ≤ 1 := by
  unfold distWscale at h
  split at h <;> (cases h; simp [tcpHigh_eq, tcpMedium_eq])

/-- An accepted TCP observation is at distance at most 9 = the sum of the penalties; in
particular below `MAX_DISTANCE`, and the saturating additions never saturate. -/
theorem tcpDistance_le {s : TcpSig} {o : TcpObs} {d : Nat} (h : tcpDistance s o = some d) :
    d ≤ 9 := by
  obtain ⟨d0, d1, d2, d3, d4, d5, d6, d7, d8, h0, h1, h2, h3, h4, h5, h6, h7, h8, rfl⟩ :=
    tcpDistance_some h
  have := distIpVersion_le h0; have := distTtl_le h1; have := distOlen_le h2
  have := distMss_le h3; have := distWindow_le h4; have := distWscale_le h5
  have := distOlayout_le h6; have := distQuirks_le h7; have := distPayload_le h8
  simp only [satAdd32, u32Max]; omega

theorem errorBand_floor (e : Nat) :
    errorBand e = errorBand (floorBreak (breaks Gen.Score.headerErrorBands) e) := by
  unfold errorBand; rw [bandFind_floor]

theorem errorBand_le {e d : Nat} (h : errorBand e = some d) : d ≤ 3 := by
  have hc : (breaks Gen.Score.headerErrorBands).all
      (fun b => match errorBand b with | some d => decide (d ≤ 3) | none => true) = true := by decide
  rw [errorBand_floor] at h
  have := List.all_eq_true.mp hc _ (floorBreak_mem _ e (zero_mem_breaks _))
  rw [h] at this
  simpa using this

/-- More errors never give a smaller header distance, and once rejected stays rejected. -/
theorem errorBand_mono {e₁ e₂ d₂ : Nat} (he : e₁ ≤ e₂) (h : errorBand e₂ = some d₂) :
    ∃ d₁, errorBand e₁ = some d₁ ∧ d₁ ≤ d₂ := by
  have hc : bandMonoCheck errorBand (breaks Gen.Score.headerErrorBands) = true := by decide
  have h0 := zero_mem_breaks Gen.Score.headerErrorBands
  rw [errorBand_floor] at h
  rw [errorBand_floor e₁]
  have hm := floorBreak_mono (breaks Gen.Score.headerErrorBands) h0 he
  have := List.all_eq_true.mp (List.all_eq_true.mp hc _ (floorBreak_mem _ e₁ h0)) _ (floorBreak_mem _ e₂ h0)
  simp only [Bool.or_eq_true, Bool.not_eq_true', decide_eq_false_iff_not] at this
  rcases this with hh | hh
  · exact absurd hm hh
  · rw [h] at hh
    cases h1 : errorBand (floorBreak (breaks Gen.Score.headerErrorBands) e₁) with
    | none => rw [h1] at hh; simp at hh
    | some d₁ => rw [h1] at hh; exact ⟨d₁, rfl, by simpa using hh⟩

theorem distExpsw_le {o s : String} {d : Nat} (h : distExpsw o s = some d) : d ≤ 3 := by
  unfold distExpsw at h
  split at h <;> (cases h; simp [httpHigh_eq, httpBad_eq])

theorem distHttpVersion_le {o s : HttpVersion} {d : Nat} (h : distHttpVersion o s = some d) : d = 0 := by
  unfold distHttpVersion at h
  split at h <;> first | (cases h; exact httpHigh_eq) | cases h

theorem httpDistance_some {s : HttpSig} {o : HttpObs} {d : Nat} (h : httpDistance s o = some d) :
    ∃ d0 d1 d2 d3, distHttpVersion o.version s.version = some d0 ∧
      distHeader o.horder s.horder = some d1 ∧ distHeader o.habsent s.habsent = some d2 ∧
      distExpsw o.expsw s.expsw = some d3 ∧ d = satAdd32 (satAdd32 (satAdd32 d0 d1) d2) d3 := by
  simp only [httpDistance, bind, Option.bind_eq_some_iff, pure, Option.some.injEq] at h
  obtain ⟨d0, h0, d1, h1, d2, h2, d3, h3, rfl⟩ := h
  exact ⟨d0, d1, d2, d3, h0, h1, h2, h3, rfl⟩

theorem httpDistance_le {s : HttpSig} {o : HttpObs} {d : Nat} (h : httpDistance s o = some d) :
    d ≤ 9 := by
  obtain ⟨d0, d1, d2, d3, h0, h1, h2, h3, rfl⟩ := httpDistance_some h
  have := distHttpVersion_le h0; have := errorBand_le h1; have := errorBand_le h2
  have := distExpsw_le h3
  simp only [satAdd32, u32Max]; omega

theorem sat9_eq {a b c d e f g h i : Nat} (ha : a ≤ 2) (hb : b ≤ 2) (hc : c ≤ 2) (hd : d ≤ 2)
    (he : e ≤ 2) (hf : f ≤ 2) (hg : g ≤ 2) (hh : h ≤ 2) (hi : i ≤ 2) :
    satAdd32 (satAdd32 (satAdd32 (satAdd32 (satAdd32 (satAdd32 (satAdd32 (satAdd32 a b) c) d) e) f) g) h) i
      = a + b + c + d + e + f + g + h + i := by
  rw [satAdd32_small (a := a) (by unfold u32Max; omega)]
  rw [satAdd32_small (a := a + b) (by unfold u32Max; omega)]
  rw [satAdd32_small (a := a + b + c) (by unfold u32Max; omega)]
  rw [satAdd32_small (a := a + b + c + d) (by unfold u32Max; omega)]
  rw [satAdd32_small (a := a + b + c + d + e) (by unfold u32Max; omega)]
  rw [satAdd32_small (a := a + b + c + d + e + f) (by unfold u32Max; omega)]
  rw [satAdd32_small (a := a + b + c + d + e + f + g) (by unfold u32Max; omega)]
  rw [satAdd32_small (a := a + b + c + d + e + f + g + h) (by unfold u32Max; omega)]

end Huginn.Match
