import Huginn.Lemmas.SigText
import Huginn.Lemmas.SigTextHttp
/-
Helper lemmas for C06, parse → print direction: what a successful parse says about the text.
-/
namespace Huginn.SigText
open Huginn.Sig Huginn.SigText.Spec
set_option linter.unusedSimpArgs false

/-! ### inversion of the combinator kit -/

theorem tag_inv {t s r : Str} {u : Unit} (h : tag t s = some (u, r)) : s = t ++ r := by
  unfold tag at h
  cases hs : stripPrefix t s with
  | none => simp [hs] at h
  | some r' =>
    simp [hs] at h
    subst h
    exact stripPrefix_eq_some.mp hs

theorem altTags_inv {α} {T : List (Str × α)} {s r : Str} {a : α} (h : altTags T s = some (a, r)) :
    ∃ t, (t, a) ∈ T ∧ s = t ++ r := by
  induction T with
  | nil => simp [altTags] at h
  | cons e T ih =>
    obtain ⟨t', a'⟩ := e
    unfold altTags at h
    cases hs : stripPrefix t' s with
    | some r' =>
      simp [hs] at h
      obtain ⟨rfl, rfl⟩ := h
      exact ⟨t', List.mem_cons_self, stripPrefix_eq_some.mp hs⟩
    | none =>
      simp [hs] at h
      obtain ⟨t, hm, e⟩ := ih h
      exact ⟨t, List.mem_cons_of_mem _ hm, e⟩

theorem many1_inv {p : Char → Bool} {s d r : Str} (h : many1 p s = some (d, r)) :
    s = d ++ r ∧ d ≠ [] ∧ (∀ c ∈ d, p c = true) ∧ (∀ c r', r = c :: r' → p c = false) := by
  cases s with
  | nil => simp [many1] at h
  | cons c cs =>
    unfold many1 at h
    by_cases hc : p c = true
    · simp [hc] at h
      obtain ⟨rfl, rfl⟩ := h
      refine ⟨by simp [List.takeWhile_append_dropWhile], by simp, ?_, ?_⟩
      · intro x hx
        rcases List.mem_cons.mp hx with rfl | hx
        · exact hc
        · exact mem_takeWhile hx
      · intro x r' e
        exact dropWhile_head_false e
    · simp [hc] at h

theorem many0_inv {p : Char → Bool} {s d r : Str} (h : many0 p s = some (d, r)) :
    s = d ++ r ∧ (∀ c ∈ d, p c = true) ∧ (∀ c r', r = c :: r' → p c = false) := by
  simp only [many0, Option.some.injEq, Prod.mk.injEq] at h
  obtain ⟨rfl, rfl⟩ := h
  exact ⟨by simp [List.takeWhile_append_dropWhile], fun x hx => mem_takeWhile hx,
    fun x r' e => dropWhile_head_false e⟩

theorem digit1_inv {s d r : Str} (h : digit1 s = some (d, r)) :
    s = d ++ r ∧ d ≠ [] ∧ (∀ c ∈ d, c.isDigit = true) ∧ NoDigit r := many1_inv h

theorem parseMax_inv {max : Nat} {d : Str} {v : Nat} (h : parseMax max d = some v) : v = decVal d ∧ v ≤ max := by
  unfold parseMax at h
  split at h
  · simp at h; subst h; exact ⟨rfl, by assumption⟩
  · cases h

theorem number_inv {max : Nat} {s r : Str} {v : Nat} (h : number max s = some (v, r)) :
    ∃ d, s = d ++ r ∧ d ≠ [] ∧ (∀ c ∈ d, c.isDigit = true) ∧ NoDigit r ∧ v = decVal d ∧ v ≤ max := by
  unfold number at h
  cases hd : digit1 s with
  | none => simp [hd] at h
  | some x =>
    obtain ⟨d, r'⟩ := x
    simp only [hd] at h
    cases hp : parseMax max d with
    | none => simp [hp] at h
    | some v' =>
      simp [hp] at h
      obtain ⟨rfl, rfl⟩ := h
      obtain ⟨e, hne, hdig, hnd⟩ := digit1_inv hd
      obtain ⟨hv, hle⟩ := parseMax_inv hp
      exact ⟨d, e, hne, hdig, hnd, hv, hle⟩

theorem takeUntil_inv {c : Char} {s a r : Str} (h : takeUntil c s = some (a, r)) :
    s = a ++ r ∧ c ∉ a ∧ r.head? = some c := by
  induction s generalizing a with
  | nil => simp [takeUntil] at h
  | cons x xs ih =>
    unfold takeUntil at h
    by_cases hx : x = c
    · simp [hx] at h
      obtain ⟨rfl, rfl⟩ := h
      simp [hx]
    · simp only [hx, if_false] at h
      cases ht : takeUntil c xs with
      | none => simp [ht] at h
      | some y =>
        obtain ⟨a', r'⟩ := y
        simp [ht] at h
        obtain ⟨rfl, rfl⟩ := h
        obtain ⟨e, hn, hh⟩ := ih ht
        refine ⟨by rw [e]; simp, ?_, hh⟩
        intro hm
        rcases List.mem_cons.mp hm with e' | hm
        · exact hx e'.symm
        · exact hn hm

/-! ### inversion of `separated_list0/1` -/

/-- `xs` were read from the texts `ts`, element by element -/
inductive Read {α} (R : α → Str → Prop) : List α → List Str → Prop
  | nil : Read R [] []
  | cons {x t xs ts} : R x t → Read R xs ts → Read R (x :: xs) (t :: ts)

/-- `,t₁,t₂…` -/
def tailTexts : List Str → Str
  | [] => []
  | t :: ts => ',' :: t ++ tailTexts ts

theorem joinWith_cons (t : Str) (ts : List Str) : joinWith ',' (t :: ts) = t ++ tailTexts ts := by
  induction ts generalizing t with
  | nil => simp [joinWith, tailTexts]
  | cons u us ih => simp [joinWith, tailTexts, ih u]

theorem sepLoop_inv {α} {p : Parser α} {R : α → Str → Prop}
    (hinv : ∀ s x r, p s = some (x, r) → ∃ t, s = t ++ r ∧ R x t)
    (fuel : Nat) {s r : Str} {xs : List α} (h : sepLoop comma p fuel s = some (xs, r)) :
    ∃ ts, Read R xs ts ∧ s = tailTexts ts ++ r := by
  induction fuel generalizing s xs with
  | zero =>
    simp [sepLoop] at h
    obtain ⟨rfl, rfl⟩ := h
    exact ⟨[], .nil, rfl⟩
  | succ f ih =>
    unfold sepLoop at h
    cases hc : comma s with
    | none =>
      simp [hc] at h
      obtain ⟨rfl, rfl⟩ := h
      exact ⟨[], .nil, rfl⟩
    | some y =>
      obtain ⟨u, s1⟩ := y
      have es : s = ',' :: s1 := tag_inv hc
      simp only [hc] at h
      cases hp : p s1 with
      | none =>
        simp [hp] at h
        obtain ⟨rfl, rfl⟩ := h
        exact ⟨[], .nil, rfl⟩
      | some z =>
        obtain ⟨o, s2⟩ := z
        simp only [hp] at h
        split at h
        · cases h
        · cases hl : sepLoop comma p f s2 with
          | none => simp [hl] at h
          | some w =>
            obtain ⟨os, r'⟩ := w
            simp [hl] at h
            obtain ⟨rfl, rfl⟩ := h
            obtain ⟨t, e1, hr⟩ := hinv _ _ _ hp
            obtain ⟨ts, hread, e2⟩ := ih hl
            exact ⟨t :: ts, .cons hr hread, by rw [es, e1, e2]; simp [tailTexts]⟩

theorem sepList0_inv {α} {p : Parser α} {R : α → Str → Prop}
    (hinv : ∀ s x r, p s = some (x, r) → ∃ t, s = t ++ r ∧ R x t)
    {s r : Str} {xs : List α} (h : sepList0 comma p s = some (xs, r)) :
    ∃ ts, Read R xs ts ∧ s = joinWith ',' ts ++ r := by
  unfold sepList0 at h
  cases hp : p s with
  | none =>
    simp [hp] at h
    obtain ⟨rfl, rfl⟩ := h
    exact ⟨[], .nil, rfl⟩
  | some z =>
    obtain ⟨o, s1⟩ := z
    simp only [hp] at h
    cases hl : sepLoop comma p (s1.length + 1) s1 with
    | none => simp [hl] at h
    | some w =>
      obtain ⟨os, r'⟩ := w
      simp [hl] at h
      obtain ⟨rfl, rfl⟩ := h
      obtain ⟨t, e1, hr⟩ := hinv _ _ _ hp
      obtain ⟨ts, hread, e2⟩ := sepLoop_inv hinv _ hl
      exact ⟨t :: ts, .cons hr hread, by rw [e1, e2, joinWith_cons]; simp⟩

theorem sepList1_inv {α} {p : Parser α} {R : α → Str → Prop}
    (hinv : ∀ s x r, p s = some (x, r) → ∃ t, s = t ++ r ∧ R x t)
    {s r : Str} {xs : List α} (h : sepList1 comma p s = some (xs, r)) :
    ∃ ts, Read R xs ts ∧ s = joinWith ',' ts ++ r := by
  unfold sepList1 at h
  cases hp : p s with
  | none => simp [hp] at h
  | some z =>
    obtain ⟨o, s1⟩ := z
    simp only [hp] at h
    cases hl : sepLoop comma p (s1.length + 1) s1 with
    | none => simp [hl] at h
    | some w =>
      obtain ⟨os, r'⟩ := w
      simp [hl] at h
      obtain ⟨rfl, rfl⟩ := h
      obtain ⟨t, e1, hr⟩ := hinv _ _ _ hp
      obtain ⟨ts, hread, e2⟩ := sepLoop_inv hinv _ hl
      exact ⟨t :: ts, .cons hr hread, by rw [e1, e2, joinWith_cons]; simp⟩

/-- when every element's text is its print, the texts are the printed list -/
theorem read_print {α} {pr : α → Str} {xs : List α} {ts : List Str} (h : Read (fun x t => t = pr x) xs ts) :
    joinWith ',' ts = joinComma pr xs := by
  have : ts = xs.map pr := by
    induction h with
    | nil => rfl
    | cons hx _ ih => simp [hx, ih]
  rw [this, joinComma_eq_joinWith_map]

end Huginn.SigText

namespace Huginn.SigText
open Huginn.Sig Huginn.SigText.Spec
set_option linter.unusedSimpArgs false

/-! ### HTTP: every accepted text is reproduced by printing the (unfiltered) parse -/

theorem bracketValue_inv {s r v : Str} (h : bracketValue s = some (v, r)) : s = '=' :: '[' :: v ++ ']' :: r := by
  unfold bracketValue at h
  cases h1 : tag ['=', '['] s with
  | none => simp [h1] at h
  | some x =>
    obtain ⟨u, s1⟩ := x
    simp only [h1] at h
    cases h2 : takeUntil ']' s1 with
    | none => simp [h2] at h
    | some y =>
      obtain ⟨v', s2⟩ := y
      simp only [h2] at h
      cases h3 : tag [']'] s2 with
      | none => simp [h3] at h
      | some z =>
        obtain ⟨u', s3⟩ := z
        simp [h3] at h
        obtain ⟨rfl, rfl⟩ := h
        have e1 := tag_inv h1
        have e2 := (takeUntil_inv h2).1
        have e3 := tag_inv h3
        rw [e1, e2, e3]; simp

theorem opt_inv {α} {p : Parser α} {s r : Str} {o : Option α} (h : opt p s = some (o, r)) :
    (∃ a, o = some a ∧ p s = some (a, r)) ∨ (o = none ∧ r = s) := by
  unfold opt at h
  cases hp : p s with
  | none => simp [hp] at h; exact Or.inr ⟨h.1.symm, h.2.symm⟩
  | some x =>
    obtain ⟨a, r'⟩ := x
    simp [hp] at h
    exact Or.inl ⟨a, h.1.symm, by rw [h.2]⟩

theorem parseHeaderL_inv {s r : Str} {h : HeaderL} (hp : parseHeaderL s = some (h, r)) :
    s = printHeaderL h ++ r := by
  unfold parseHeaderL at hp
  cases h1 : opt (tag ['?']) s with
  | none => simp [h1] at hp
  | some x =>
    obtain ⟨o, s1⟩ := x
    simp only [h1] at hp
    cases h2 : many1 isNameChar s1 with
    | none => simp [h2] at hp
    | some y =>
      obtain ⟨name, s2⟩ := y
      simp only [h2] at hp
      cases h3 : opt bracketValue s2 with
      | none => simp [h3] at hp
      | some z =>
        obtain ⟨v, s3⟩ := z
        simp [h3] at hp
        obtain ⟨rfl, rfl⟩ := hp
        have e2 := (many1_inv h2).1
        have e3 : s2 = valuePart v ++ s3 := by
          rcases opt_inv h3 with ⟨a, rfl, hb⟩ | ⟨rfl, rfl⟩
          · simpa [valuePart] using bracketValue_inv hb
          · simp [valuePart]
        rw [printHeaderL_eq]
        rcases opt_inv h1 with ⟨a, rfl, ht⟩ | ⟨rfl, rfl⟩
        · have e1 := tag_inv ht
          simp [e1, e2, e3]
        · simp [e2, e3]

theorem httpVersionTable_consistent : ∀ e ∈ httpVersionTable, printHttpVersion e.2 = e.1 := by decide +kernel

/-- **Parsing an HTTP signature loses nothing**: whatever text `parse_http_signature` accepts, printing
the value it read (before the name filter on `habsent`) gives back exactly that text — no canonicity
condition is needed, the HTTP grammar has no redundant spellings. -/
theorem parseHttpSigRawL_inv {l r : Str} {raw : HttpSigL} (h : parseHttpSigRawL l = some (raw, r)) :
    r = [] ∧ printHttpSigL raw = l := by
  simp only [parseHttpSigRawL, Option.bind_eq_bind, Option.bind_eq_some_iff, Option.pure_def,
    Option.some.injEq, Prod.mk.injEq, Prod.exists] at h
  obtain ⟨ver, s1, h1, u1, s2, h2, ho, s3, h3, u2, s4, h4, ha, s5, h5, u3, s6, h6, sw, s7, h7, rfl, rfl⟩ := h
  obtain ⟨tok, hm, e1⟩ := altTags_inv h1
  have hv := httpVersionTable_consistent _ hm
  simp only at hv
  have e2 := tag_inv h2
  obtain ⟨ts, hr, e3⟩ := sepList0_inv (R := fun x t => t = printHeaderL x)
    (fun s x r hp => ⟨printHeaderL x, parseHeaderL_inv hp, rfl⟩) h3
  have e4 := tag_inv h4
  have e5 : s4 = joinComma printHeaderL (ha.getD []) ++ s5 := by
    rcases opt_inv h5 with ⟨xs, rfl, hs⟩ | ⟨rfl, rfl⟩
    · obtain ⟨ts', hr', e⟩ := sepList0_inv (R := fun x t => t = printHeaderL x)
        (fun s x r hp => ⟨printHeaderL x, parseHeaderL_inv hp, rfl⟩) hs
      rw [e, read_print hr']; rfl
    · simp [joinComma]
  have e6 := tag_inv h6
  simp only [rest, Option.some.injEq, Prod.mk.injEq] at h7
  obtain ⟨rfl, rfl⟩ := h7
  refine ⟨rfl, ?_⟩
  simp only [printHttpSigL, hv]
  rw [e1, e2, e3, read_print hr, e4, e5, e6]
  simp [colon]

end Huginn.SigText
