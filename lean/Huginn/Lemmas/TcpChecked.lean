import Huginn.Model.TcpChecked
set_option linter.unusedSimpArgs false
set_option linter.unusedVariables false
/-! Helper lemmas for C01 (TCP level): the checked-access mirrors never fault and agree with the total
model. -/
namespace Huginn.Lemmas.TcpChecked
open Huginn.Sig Huginn.TcpExtract Huginn.TcpChecked Huginn.Gen

@[simp] theorem ok_bind {α β : Type} (a : α) (f : α → M β) : ((Except.ok a : M α) >>= f) = f a := rfl
@[simp] theorem pure_eq {α : Type} (a : α) : (pure a : M α) = .ok a := rfl

theorem idx_lt (b : Bytes) (i : Nat) (h : i < b.length) : idx b i = .ok (b.getD i 0) := by
  unfold idx
  rw [dif_pos h]
  simp [List.getD_eq_getElem?_getD, List.getElem?_eq_getElem h]

@[simp] theorem idx_zero_cons (k : Nat) (tl : Bytes) : idx (k :: tl) 0 = .ok k := by
  rw [idx_lt _ _ (by simp)]; rfl

theorem take_min_length {α : Type} (l : List α) (o : Nat) : l.take (min o l.length) = l.take o := by
  by_cases h : o ≤ l.length
  · rw [Nat.min_eq_left h]
  · rw [Nat.min_eq_right (by omega), List.take_length, List.take_of_length_le (by omega)]

theorem range_eq (b : Bytes) (i o : Nat) (h : i ≤ b.length) :
    range b i (min (i + o) b.length) = .ok ((b.drop i).take o) := by
  unfold range
  rw [if_pos ⟨by omega, Nat.min_le_right _ _⟩, List.drop_take]
  congr 1
  have : min (i + o) b.length - i = min o (b.drop i).length := by simp only [List.length_drop]; omega
  rw [this, take_min_length]

/-! ### the option view -/

theorem optLenFieldC_cons (k : Nat) (tl : Bytes) :
    optLenFieldC (k :: tl) = .ok (if k = 0 ∨ k = 1 then 0 else 1) := by
  simp [optLenFieldC]

theorem lengthRawC_cons (k : Nat) (tl : Bytes) :
    lengthRawC (k :: tl) = .ok (if k = 0 ∨ k = 1 then [] else tl.take 1) := by
  unfold lengthRawC
  rw [optLenFieldC_cons]
  simp only [ok_bind]
  have h := range_eq (k :: tl) 1 (if k = 0 ∨ k = 1 then 0 else 1) (by simp)
  rw [h]
  by_cases hk : k = 0 ∨ k = 1 <;> simp [hk]

theorem optPayloadLenC_cons (k : Nat) (tl : Bytes) :
    optPayloadLenC (k :: tl) = .ok (if k = 0 ∨ k = 1 then 0 else
      match tl with | [] => 0 | l :: _ => if l ≥ 2 then l - 2 else 0) := by
  unfold optPayloadLenC
  rw [lengthRawC_cons]
  by_cases hk : k = 0 ∨ k = 1
  · simp [hk]
  · cases tl <;> simp [hk]

theorem optSizeC_cons (k : Nat) (tl : Bytes) : optSizeC (k :: tl) = .ok (optSize (k :: tl)) := by
  unfold optSizeC
  rw [optLenFieldC_cons, optPayloadLenC_cons]
  simp only [ok_bind, pure_eq, optSize]
  by_cases hk : k = 0 ∨ k = 1
  · simp [hk]
  · cases tl with
    | nil => simp [hk]
    | cons l r => simp only [hk, if_false]; split <;> congr 1

theorem optPayloadC_cons (k : Nat) (tl : Bytes) : optPayloadC (k :: tl) = .ok (optPayload (k :: tl)) := by
  unfold optPayloadC
  rw [optLenFieldC_cons, optPayloadLenC_cons]
  simp only [ok_bind, pure_eq, optPayload]
  by_cases hk : k = 0 ∨ k = 1
  · simp only [hk, if_true]
    by_cases hl : (k :: tl).length ≤ 1 + 0
    · rw [if_pos hl]
    · rw [if_neg hl, range_eq _ _ _ (by simp only [List.length_cons] at hl ⊢; omega)]
      simp
  · simp only [hk, if_false]
    cases tl with
    | nil => simp
    | cons l data =>
      simp only []
      by_cases hl : (k :: l :: data).length ≤ 1 + 1
      · rw [if_pos hl]
        have : data = [] := by
          simp only [List.length_cons] at hl
          exact List.eq_nil_of_length_eq_zero (by omega)
        subst this; simp
      · rw [if_neg hl, range_eq _ _ _ (by simp)]
        simp

/-! ### the arms of the option match -/

theorem range04 (a b c d : Nat) (t : Bytes) : range (a :: b :: c :: d :: t) 0 4 = .ok [a, b, c, d] := by
  simp [range]
theorem range48 (a b c d e f g h : Nat) (t : Bytes) :
    range (a :: b :: c :: d :: e :: f :: g :: h :: t) 4 8 = .ok [e, f, g, h] := by
  simp [range]

theorem walkStepC_eq (ty kind : Nat) (data rest : Bytes) (st : WalkSt) :
    walkStepC ty kind data rest st = .ok (walkStep ty kind data rest st) := by
  match kind with
  | 0 => rfl
  | 1 => rfl
  | 2 =>
    match data with
    | [] => rfl
    | [x] => rfl
    | a :: b :: t =>
      have h0 : idx (a :: b :: t) 0 = .ok a := idx_zero_cons _ _
      have h1 : idx (a :: b :: t) 1 = .ok b := by rw [idx_lt _ _ (by simp)]; rfl
      simp [walkStepC, walkStep, h0, h1]
  | 3 => rfl
  | 4 => rfl
  | 5 => rfl
  | 6 => rfl
  | 7 => rfl
  | 8 =>
    match data with
    | [] => rfl
    | [_] => rfl
    | [_, _] => rfl
    | [_, _, _] => rfl
    | [a, b, c, d] => simp [walkStepC, walkStep, stepQuirks, range04, be32Of]
    | [a, b, c, d, _] => simp [walkStepC, walkStep, stepQuirks, range04, be32Of]
    | [a, b, c, d, _, _] => simp [walkStepC, walkStep, stepQuirks, range04, be32Of]
    | [a, b, c, d, _, _, _] => simp [walkStepC, walkStep, stepQuirks, range04, be32Of]
    | a :: b :: c :: d :: e :: f :: g :: h :: t =>
      by_cases hty : ty = SYN <;>
        simp [walkStepC, walkStep, stepQuirks, range04, range48, be32Of, hty]
  | k + 9 => rfl

/-- the loop with checked advance: never faults, and is the total walk -/
theorem walkC_eq (ty : Nat) : ∀ (n : Nat) (buf : Bytes) (st : WalkSt),
    walkC ty n buf st = .ok (walkAux ty n buf st) := by
  intro n
  induction n with
  | zero => intro buf st; rfl
  | succ n ih =>
    intro buf st
    match buf with
    | [] => rfl
    | k :: tl =>
      simp only [walkC, walkAux]
      rw [optSizeC_cons]
      simp only [ok_bind]
      have hfrom : from_ (k :: tl) (min (optSize (k :: tl)) (k :: tl).length)
          = .ok ((k :: tl).drop (min (optSize (k :: tl)) (k :: tl).length)) := by
        unfold from_; rw [if_pos (Nat.min_le_right _ _)]
      rw [hfrom]
      simp only [ok_bind]
      rw [optPayloadC_cons]
      simp only [ok_bind, idx_zero_cons]
      rw [walkStepC_eq]
      simp only [ok_bind]
      exact ih _ _

/-! ### window classifier -/

theorem checkDivC_eq (w d : Nat) : checkDivC w d = .ok (checkDiv w d) := by
  unfold checkDivC checkDiv cmod cdiv
  by_cases hd : d = 0
  · simp [hd]
  · by_cases hr : w % d = 0 <;> simp [hd, hr]

theorem firstDivC_eq (w : Nat) (ds : List Nat) : firstDivC w ds = .ok (firstDiv w ds) := by
  induction ds with
  | nil => rfl
  | cons d r ih =>
    simp only [firstDivC, firstDiv, checkDivC_eq, ok_bind]
    cases checkDiv w d with
    | some n => rfl
    | none => exact ih

theorem mtuDivsC_eq (mss hdr : Nat) (ts : Bool) (ver : IpVersion) :
    mtuDivsC mss hdr ts ver = .ok (mtuDivs mss hdr ts ver) := by
  unfold mtuDivsC mtuDivs csub
  cases ver <;> cases ts <;>
    simp [TcpConst.ethMtu, TcpConst.minTcp4, TcpConst.minTcp6, TcpConst.tsSize]

theorem detectWinC_eq (w mss hdr : Nat) (ts : Bool) (ver : IpVersion) :
    detectWinC w mss hdr ts ver = .ok (detectWin w mss hdr ts ver) := by
  unfold detectWinC detectWin detectWinT
  by_cases hg : w = 0 ∨ mss < TcpConst.minMss
  · simp [hg]
  · simp only [hg, if_false, firstDivC_eq, ok_bind, mtuDivsC_eq]
    cases firstDiv w (mssDivs mss ts) with
    | some n => rfl
    | none =>
      simp only []
      cases TcpConst.modulos.find? (fun m => decide (m ≠ 0 ∧ w % m = 0)) with
      | some m => rfl
      | none =>
        simp only [ok_bind]
        cases firstDiv w (mtuDivs mss hdr ts ver) <;> rfl

/-! ### visit_tcp / process -/

theorem visitTcpC_eq (t : TcpHdr) (ver : IpVersion) (ittl : Ttl) (ipHdrLen olen : Nat) (q0 : List Quirk) :
    visitTcpC t ver ittl ipHdrLen olen q0 = .ok (visitTcp t ver ittl ipHdrLen olen q0) := by
  unfold visitTcpC visitTcp
  by_cases hv : isValid t.flags (tcpType t.flags) = true
  · simp only [hv, Bool.not_true, Bool.false_eq_true, if_false, walkC_eq, ok_bind, detectWinC_eq, walk]
    rfl
  · simp [hv]

theorem processC_eq (f : Fields) : processC f = .ok (process f) := by
  unfold processC process
  simp only [visitTcpC_eq]
  repeat' split
  all_goals rfl

/-! ### pnet packet views -/

theorem decodeTcpC_eq (p : Bytes) : decodeTcpC p = .ok (decodeTcp p) := by
  unfold decodeTcpC decodeTcp
  by_cases hl : p.length < 20
  · simp [hl]
  · simp only [hl, if_false]
    rw [idx_lt p 12 (by omega), idx_lt p 13 (by omega)]
    simp only [ok_bind]
    rw [range_eq p 20 _ (by omega)]
    rfl

theorem ip4PayloadC_eq (b : Bytes) (ip : IpHdr) (pl : Bytes) (h : decodeIp4 b = some (ip, pl)) :
    ip4PayloadC b = .ok pl := by
  unfold decodeIp4 at h
  split at h
  · cases h
  · rename_i hl
    simp only [Option.some.injEq, Prod.mk.injEq] at h
    obtain ⟨_, rfl⟩ := h
    unfold ip4PayloadC
    rw [idx_lt b 0 (by omega)]
    simp only [ok_bind]
    by_cases hs : b.length ≤ 20 + (b.getD 0 0 % 16 * 4 - 20)
    · rw [if_pos hs, List.drop_of_length_le hs]; simp
    · rw [if_neg hs, range_eq _ _ _ (by omega)]

theorem ip6PayloadC_eq (b : Bytes) (ip : IpHdr) (pl : Bytes) (h : decodeIp6 b = some (ip, pl)) :
    ip6PayloadC b = .ok pl := by
  unfold decodeIp6 at h
  split at h
  · cases h
  · simp only [Option.some.injEq, Prod.mk.injEq] at h
    obtain ⟨_, rfl⟩ := h
    unfold ip6PayloadC
    by_cases hs : b.length ≤ 40
    · rw [if_pos hs, List.drop_of_length_le hs]; simp
    · rw [if_neg hs, range_eq _ _ _ (by omega)]

theorem calcIpv6LenC_total (next : Nat) (payload : Bytes) : ∃ r, calcIpv6LenC next payload = .ok r ∧ r < 256 := by
  unfold calcIpv6LenC
  by_cases h1 : next = 6
  · exact ⟨0, by simp [h1], by omega⟩
  · by_cases h2 : payload.isEmpty = true
    · exact ⟨0, by simp [h1, h2], by omega⟩
    · by_cases h3 : next = 44
      · exact ⟨8, by simp [h1, h2, h3], by omega⟩
      · by_cases h4 : payload.length ≥ 2
        · refine ⟨((payload.getD 1 0 + 1) * 8) % 256, ?_, by omega⟩
          simp only [h1, h2, h3, h4, if_false, if_true, Bool.false_eq_true]
          rw [idx_lt payload 1 (by omega)]; rfl
        · exact ⟨0, by simp [h1, h2, h3, h4], by omega⟩

end Huginn.Lemmas.TcpChecked
