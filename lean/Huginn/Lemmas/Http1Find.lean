import Huginn.Model.Http1
/-
Helper lemmas for C05: `findSub` (first occurrence) under appending, `headBytes`.
-/
namespace Huginn.Http1
set_option linter.unusedSimpArgs false

theorem findSub_bound (pat : Bytes) : ∀ (d : Bytes) (k : Nat), findSub pat d = some k → k + pat.length ≤ d.length
  | [], k, h => by
    unfold findSub at h
    split at h
    · rename_i hp; simp at h; subst h; simp [List.isEmpty_iff] at hp; simp [hp]
    · simp at h
  | a :: as, k, h => by
    unfold findSub at h
    split at h
    · rename_i hp
      simp at h; subst h
      have := (List.isPrefixOf_iff_prefix.mp hp).length_le
      simpa using this
    · split at h
      · rename_i n hn
        simp at h; subst h
        have := findSub_bound pat as n hn
        simp; omega
      · simp at h

theorem findSub_append_some (pat : Bytes) (b : Bytes) :
    ∀ (d : Bytes) (k : Nat), findSub pat d = some k → findSub pat (d ++ b) = some k
  | [], k, h => by
    unfold findSub at h
    split at h
    · rename_i hp
      simp at h; subst h
      simp [List.isEmpty_iff] at hp; subst hp
      cases b <;> simp [findSub]
    · simp at h
  | a :: as, k, h => by
    unfold findSub at h
    split at h
    · rename_i hp
      simp at h; subst h
      have hp' : pat.isPrefixOf (a :: as ++ b) = true :=
        List.isPrefixOf_iff_prefix.mpr ((List.isPrefixOf_iff_prefix.mp hp).trans (List.prefix_append _ _))
      simp only [List.cons_append] at hp' ⊢
      unfold findSub; simp [hp']
    · rename_i hp
      split at h
      · rename_i n hn
        simp at h; subst h
        have ih := findSub_append_some pat b as n hn
        have hb := findSub_bound pat as n hn
        have hnp : pat.isPrefixOf (a :: (as ++ b)) = false := by
          cases hq : pat.isPrefixOf (a :: (as ++ b)) with
          | false => rfl
          | true =>
            exfalso; apply hp
            have h1 := List.isPrefixOf_iff_prefix.mp hq
            have h2 : (a :: as) <+: (a :: (as ++ b)) := by
              rw [← List.cons_append]; exact List.prefix_append _ _
            exact List.isPrefixOf_iff_prefix.mpr
              (List.prefix_of_prefix_length_le h1 h2 (by simp; omega))
        simp only [List.cons_append]
        unfold findSub; simp [hnp, ih]
      · simp at h

theorem findSub_append_none (pat : Bytes) (b : Bytes) :
    ∀ (d : Bytes) (k : Nat), findSub pat d = none → findSub pat (d ++ b) = some k → d.length < k + pat.length
  | [], k, _, h2 => by
    have := findSub_bound pat _ _ h2
    by_cases hp : pat = []
    · subst hp; unfold findSub at *; simp_all
    · have : 0 < pat.length := List.length_pos_iff.mpr hp
      simp; omega
  | a :: as, k, h1, h2 => by
    unfold findSub at h1
    split at h1
    · simp at h1
    · rename_i hp
      split at h1
      · simp at h1
      · rename_i hn
        simp only [List.cons_append] at h2
        unfold findSub at h2
        split at h2
        · rename_i hq
          simp at h2; subst h2
          -- pat is a prefix of a :: as ++ b but not of a :: as: it is longer than a :: as
          have h3 := List.isPrefixOf_iff_prefix.mp hq
          by_cases hl : pat.length ≤ (a :: as).length
          · exfalso; apply hp
            have h4 : (a :: as) <+: (a :: (as ++ b)) := by
              rw [← List.cons_append]; exact List.prefix_append _ _
            exact List.isPrefixOf_iff_prefix.mpr (List.prefix_of_prefix_length_le h3 h4 hl)
          · simp at hl ⊢; omega
        · split at h2
          · rename_i n hn2
            simp at h2; subst h2
            have := findSub_append_none pat b as n hn hn2
            simp; omega
          · simp at h2

/-- A complete head: it contains a blank line and the first one ends it. -/
def EndsAtFirstBlank (hd : Bytes) : Prop := hasBlankLine hd = true ∧ headBytes hd = hd

instance (hd) : Decidable (EndsAtFirstBlank hd) := by unfold EndsAtFirstBlank; exact inferInstance

private theorem take_len_eq {α} (l : List α) (n : Nat) (h : l.take n = l) : l.length ≤ n := by
  have := congrArg List.length h
  simp at this; omega

theorem headBytes_append (hd b : Bytes) (h : EndsAtFirstBlank hd) : headBytes (hd ++ b) = hd := by
  obtain ⟨hb, he⟩ := h
  unfold hasBlankLine containsSub at hb
  unfold headBytes at he ⊢
  cases h1 : findSub crlfcrlf hd with
  | some a =>
    have a1 := findSub_append_some crlfcrlf b hd a h1
    have ab := findSub_bound _ _ _ h1
    cases h2 : findSub lflf hd with
    | some c =>
      have c1 := findSub_append_some lflf b hd c h2
      have cb := findSub_bound _ _ _ h2
      simp [h1, h2] at he
      have := take_len_eq _ _ he
      simp [a1, c1, crlfcrlf, lflf] at *
      have hm : min (a + 4) (c + 2) = hd.length := by omega
      rw [hm]; simp
    | none =>
      simp [h1, h2] at he
      have := take_len_eq _ _ he
      simp [crlfcrlf] at ab
      have ha : a + 4 = hd.length := by omega
      cases h3 : findSub lflf (hd ++ b) with
      | some c =>
        have := findSub_append_none lflf b hd c h2 h3
        simp [lflf] at this
        simp [a1, h3]
        have hm : min (a + 4) (c + 2) = hd.length := by omega
        rw [hm]; simp
      | none => simp [a1, h3, ha]
  | none =>
    cases h2 : findSub lflf hd with
    | some c =>
      have c1 := findSub_append_some lflf b hd c h2
      have cb := findSub_bound _ _ _ h2
      simp [h1, h2] at he
      have := take_len_eq _ _ he
      simp [lflf] at cb
      have hc : c + 2 = hd.length := by omega
      cases h3 : findSub crlfcrlf (hd ++ b) with
      | some a =>
        have := findSub_append_none crlfcrlf b hd a h1 h3
        simp [crlfcrlf] at this
        simp [c1, h3]
        have hm : min (a + 4) (c + 2) = hd.length := by omega
        rw [hm]; simp
      | none => simp [c1, h3, hc]
    | none => simp [h1, h2] at hb

end Huginn.Http1
-- touch
