import Huginn.Lemmas.Http1Kit
import Huginn.Lemmas.Http1Find
import Huginn.Spec.Http1
/-
Helper lemmas for C05: a rendered head (`line CRLF … CRLF`) as seen by `head_bytes`, the
blank-line test, the line splitter and the gates' `lines().next()`.
-/
namespace Huginn.Http1
open Huginn.Http1.Spec
set_option linter.unusedSimpArgs false

/-- a line of a head: non-empty, without CR or LF -/
def LineOk (l : Bytes) : Prop := l ≠ [] ∧ CR ∉ l ∧ LF ∉ l

/-- `line CRLF … CRLF` followed by the blank line's CRLF -/
def rendered (ls : List Bytes) : Bytes := renderLines ls ++ [CR, LF]

theorem rendered_cons (l : Bytes) (ls : List Bytes) : rendered (l :: ls) = l ++ CR :: LF :: rendered ls := by
  simp [rendered, renderLines]

theorem rendered_nil : rendered [] = [CR, LF] := rfl

theorem rendered_length_cons (l : Bytes) (ls : List Bytes) :
    (rendered (l :: ls)).length = l.length + 2 + (rendered ls).length := by
  rw [rendered_cons]; simp; omega

theorem rendered_head (ls : List Bytes) (h : ∀ l ∈ ls, LineOk l) :
    ∃ b t, rendered ls = b :: t ∧ b ≠ LF ∧ (ls ≠ [] → b ≠ CR) := by
  match ls, h with
  | [], _ => exact ⟨CR, [LF], rfl, by decide, fun h => absurd rfl h⟩
  | l :: ls, h =>
    obtain ⟨hne, hcr, hlf⟩ := h l (by simp)
    match l, hne, hcr, hlf with
    | b :: t, _, hcr, hlf =>
      refine ⟨b, t ++ CR :: LF :: rendered ls, by rw [rendered_cons]; simp, ?_, fun _ => ?_⟩
      · intro e; exact hlf (by simp [e])
      · intro e; exact hcr (by simp [e])

theorem splitCRLF_rendered : ∀ (ls : List Bytes), (∀ l ∈ ls, LineOk l) →
    splitCRLF (rendered ls) = ls ++ [[], []]
  | [], _ => by simp [rendered_nil, splitCRLF_end]
  | l :: ls, h => by
    rw [rendered_cons, splitCRLF_line l _ (h l (by simp)).2.1,
      splitCRLF_rendered ls (fun x hx => h x (by simp [hx]))]
    simp

theorem findSub_lflf_rendered : ∀ (ls : List Bytes), (∀ l ∈ ls, LineOk l) → findSub lflf (rendered ls) = none
  | [], _ => by decide
  | l :: ls, h => by
    have hl := h l (by simp)
    have ih := findSub_lflf_rendered ls (fun x hx => h x (by simp [hx]))
    obtain ⟨b, t, hr, hb, _⟩ := rendered_head ls (fun x hx => h x (by simp [hx]))
    rw [rendered_cons]
    unfold lflf at ih ⊢
    rw [findSub_skip LF [LF] l _ hl.2.2]
    have e1 : findSub [LF, LF] (CR :: LF :: rendered ls) = (findSub [LF, LF] (LF :: rendered ls)).map (· + 1) := by
      rw [findSub, isPrefixOf_cons_ne (by decide)]
      cases findSub [LF, LF] (LF :: rendered ls) <;> simp
    have e2 : findSub [LF, LF] (LF :: rendered ls) = none := by
      rw [findSub, hr]
      have : ([LF, LF] : Bytes).isPrefixOf (LF :: b :: t) = false := by
        simp [List.isPrefixOf, hb, Ne.symm hb]
      rw [this, ← hr, ih]; simp
    rw [e1, e2]; simp

theorem findSub_crlfcrlf_rendered : ∀ (ls : List Bytes), ls ≠ [] → (∀ l ∈ ls, LineOk l) →
    findSub crlfcrlf (rendered ls) = some ((rendered ls).length - 4)
  | [], h, _ => absurd rfl h
  | [l], _, h => by
    have hl := h l (by simp)
    rw [rendered_cons, rendered_nil]
    unfold crlfcrlf
    rw [findSub_skip CR [LF, CR, LF] l _ hl.2.1]
    have : findSub [CR, LF, CR, LF] [CR, LF, CR, LF] = some 0 := by decide
    rw [this]; simp
  | l :: l2 :: ls, _, h => by
    have hl := h l (by simp)
    have h' : ∀ x ∈ l2 :: ls, LineOk x := fun x hx => h x (by simp at hx ⊢; right; exact hx)
    have ih := findSub_crlfcrlf_rendered (l2 :: ls) (by simp) h'
    obtain ⟨b, t, hr, hb, hb2⟩ := rendered_head (l2 :: ls) h'
    have hbcr := hb2 (by simp)
    have hlen : 4 ≤ (rendered (l2 :: ls)).length := by
      have := findSub_bound _ _ _ ih; simp [crlfcrlf] at this; omega
    rw [rendered_length_cons, rendered_cons]
    unfold crlfcrlf at ih ⊢
    rw [findSub_skip CR [LF, CR, LF] l _ hl.2.1]
    have e1 : findSub [CR, LF, CR, LF] (CR :: LF :: rendered (l2 :: ls)) =
        (findSub [CR, LF, CR, LF] (LF :: rendered (l2 :: ls))).map (· + 1) := by
      rw [findSub, hr]
      have : ([CR, LF, CR, LF] : Bytes).isPrefixOf (CR :: LF :: b :: t) = false := by
        simp [List.isPrefixOf, hbcr, Ne.symm hbcr]
      rw [this]
      cases findSub [CR, LF, CR, LF] (LF :: b :: t) <;> simp
    have e2 : findSub [CR, LF, CR, LF] (LF :: rendered (l2 :: ls)) =
        (findSub [CR, LF, CR, LF] (rendered (l2 :: ls))).map (· + 1) := by
      rw [findSub, isPrefixOf_cons_ne (by decide)]
      cases findSub [CR, LF, CR, LF] (rendered (l2 :: ls)) <;> simp
    rw [e1, e2, ih]; simp; omega

theorem rendered_endsAtFirstBlank (ls : List Bytes) (hne : ls ≠ []) (h : ∀ l ∈ ls, LineOk l) :
    EndsAtFirstBlank (rendered ls) := by
  have h1 := findSub_crlfcrlf_rendered ls hne h
  have h2 := findSub_lflf_rendered ls h
  have hb := findSub_bound _ _ _ h1
  simp [crlfcrlf] at hb
  constructor
  · simp [hasBlankLine, containsSub, h1]
  · unfold headBytes; simp [h1, h2]
    have : (rendered ls).length - 4 + 4 = (rendered ls).length := by omega
    rw [this]; simp

theorem containsSub_crlf_rendered (l : Bytes) (ls : List Bytes) (h : CR ∉ l) :
    containsSub crlf (rendered (l :: ls)) = true := by
  rw [rendered_cons]
  unfold containsSub crlf
  rw [findSub_skip CR [LF] l _ h]
  have : findSub [CR, LF] (CR :: LF :: rendered ls) = some 0 := by
    rw [findSub]; simp [List.isPrefixOf]
  rw [this]; simp

theorem headLines_rendered (ls : List Bytes) (hne : ls ≠ []) (h : ∀ l ∈ ls, LineOk l) :
    headLines (rendered ls) = ls ++ [[], []] := by
  match ls, hne, h with
  | l :: ls, _, h =>
    unfold headLines
    rw [containsSub_crlf_rendered l ls (h l (by simp)).2.1]
    simp only [if_true]
    exact splitCRLF_rendered (l :: ls) h

theorem headerLinesOf_lines (l0 : Bytes) (fls : List Bytes) (h : ∀ l ∈ fls, l ≠ []) :
    headerLinesOf ((l0 :: fls) ++ [[], []]) = fls := by
  unfold headerLinesOf
  simp only [List.cons_append, List.drop_succ_cons, List.drop_zero]
  induction fls with
  | nil => simp [List.takeWhile]
  | cons a r ih =>
    have ha : a ≠ [] := h a (by simp)
    have : (!a.isEmpty) = true := by simp [List.isEmpty_iff, ha]
    simp only [List.cons_append, List.takeWhile_cons, this, if_true]
    rw [ih (fun x hx => h x (by simp [hx]))]

theorem utf8Valid_rendered : ∀ (ls : List Bytes), (∀ l ∈ ls, utf8Valid l = true) → utf8Valid (rendered ls) = true
  | [], _ => by decide
  | l :: ls, h => by
    rw [rendered_cons, utf8Valid_append l _ (h l (by simp))]
    have : CR :: LF :: rendered ls = [CR, LF] ++ rendered ls := rfl
    rw [this, utf8Valid_append _ _ (by decide)]
    exact utf8Valid_rendered ls (fun x hx => h x (by simp [hx]))

/-- the gates' first line of `rendered (l0 :: _) ++ body` -/
theorem firstLine_rendered (l0 : Bytes) (ls : List Bytes) (body : Bytes) (h : LineOk l0) :
    firstLine (rendered (l0 :: ls) ++ body) = l0 := by
  rw [rendered_cons]
  unfold firstLine
  have e : l0 ++ CR :: LF :: rendered ls ++ body = (l0 ++ [CR]) ++ LF :: (rendered ls ++ body) := by simp
  have hn : LF ∉ l0 ++ [CR] := by
    intro hm; simp at hm; rcases hm with hm | hm
    · exact h.2.2 hm
    · exact absurd hm (by decide)
  rw [e, splitFirst_line LF _ _ hn]
  simp [CR]

end Huginn.Http1
