import Huginn.Spec.Wire
/-
Helper lemmas about Model/Wire (byte arithmetic, pnet view lengths, decoder case analyses) used by
Props/C15 and Props/C18. Core Lean only.
-/
set_option linter.unusedSimpArgs false
namespace Huginn.Wire
open Huginn.Wire.Spec

theorem byte_lt (b : Bytes) (i : Nat) : byte b i < 256 := by
  unfold byte; exact UInt8.toNat_lt _

theorem byte_drop (b : Bytes) (k i : Nat) : byte (b.drop k) i = byte b (k + i) := by
  unfold byte
  simp [List.getD_eq_getElem?_getD, List.getElem?_drop]

theorem byte_take_drop (b : Bytes) (e s i : Nat) (h : s + i < e) :
    byte ((b.take e).drop s) i = byte b (s + i) := by
  unfold byte
  simp [List.getD_eq_getElem?_getD, List.getElem?_drop, List.getElem?_take, h]

theorem be16_drop (b : Bytes) (k i : Nat) : be16 (b.drop k) i = be16 b (k + i) := by
  unfold be16; rw [byte_drop, byte_drop]; rfl

theorem be16_take_drop (b : Bytes) (e s i : Nat) (h : s + i + 1 < e) :
    be16 ((b.take e).drop s) i = be16 b (s + i) := by
  unfold be16
  rw [byte_take_drop _ _ _ _ (by omega), byte_take_drop _ _ _ _ (by omega)]; rfl

theorem v4Payload_length (ip : Bytes) :
    (v4Payload ip).length =
      min (v4PayloadStart ip + (v4TotalLen ip - v4Ihl ip * 4)) ip.length - v4PayloadStart ip := by
  unfold v4Payload
  split
  · simp; omega
  · simp

theorem v4Payload_be16 (ip : Bytes) (i : Nat) (h : i + 1 < (v4Payload ip).length) :
    be16 (v4Payload ip) i = be16 ip (v4PayloadStart ip + i) := by
  have hl := v4Payload_length ip
  unfold v4Payload at h ⊢
  split
  · rename_i hle; simp [hle] at h
  · rename_i hle
    simp [hle] at h
    apply be16_take_drop
    omega

theorem v6Payload_length (ip : Bytes) :
    (v6Payload ip).length = min (40 + v6PayloadLen ip) ip.length - 40 := by
  unfold v6Payload
  split
  · simp; omega
  · simp

theorem v6Payload_be16 (ip : Bytes) (i : Nat) (h : i + 1 < (v6Payload ip).length) :
    be16 (v6Payload ip) i = be16 ip (40 + i) := by
  unfold v6Payload at h ⊢
  split
  · rename_i hle; simp [hle] at h
  · rename_i hle
    simp [hle] at h
    apply be16_take_drop
    omega

theorem v4Ihl_lt (ip : Bytes) : v4Ihl ip < 16 := by unfold v4Ihl; omega

theorem v4PortOff_eq (ip : Bytes) : v4PortOff ip = v4PayloadStart ip := by
  unfold v4PortOff v4PayloadStart; omega

/-- What the quick decoder finds in an IPv4 packet the analyzer accepts: the ports where pnet
places the TCP header. -/
theorem extractV4_of_view (ip : Bytes) (hproto : v4Proto ip = 6) (hpl : 20 ≤ (v4Payload ip).length) :
    extractV4 ip = some ⟨.v4, slice ip 12 4, slice ip 16 4,
      be16 ip (v4PayloadStart ip), be16 ip (v4PayloadStart ip + 2)⟩ := by
  have hl := v4Payload_length ip
  have := v4Ihl_lt ip
  unfold v4Proto at hproto
  unfold extractV4
  rw [v4PortOff_eq]
  unfold v4PayloadStart at hl ⊢
  rw [if_neg (by omega), if_neg (by omega), if_neg (by omega)]

theorem extractV6_of_view (ip : Bytes) (hproto : v6NextHeader ip = 6) (hpl : 20 ≤ (v6Payload ip).length) :
    extractV6 ip = some ⟨.v6, slice ip 8 16, slice ip 24 16, be16 ip 40, be16 ip 42⟩ := by
  have hl := v6Payload_length ip
  unfold v6NextHeader at hproto
  unfold extractV6
  rw [if_neg (by omega), if_neg (by omega), if_neg (by omega)]

theorem extractV4_ver (ip : Bytes) (e : Ep) (h : extractV4 ip = some e) : e.ver = .v4 := by
  unfold extractV4 at h
  split at h; · simp at h
  split at h; · simp at h
  split at h; · simp at h
  simp at h; rw [← h]

theorem extractV6_ver (ip : Bytes) (e : Ep) (h : extractV6 ip = some e) : e.ver = .v6 := by
  unfold extractV6 at h
  split at h; · simp at h
  split at h; · simp at h
  split at h; · simp at h
  simp at h; rw [← h]

/-- If the parser does not take the Ethernet strategy, neither does the filter. -/
theorem rfEthernet_none (p : Bytes) (h : tryEthernet p = none) : rfEthernet p = none := by
  unfold tryEthernet at h
  unfold rfEthernet
  split at h
  · rename_i h14; simp [h14]
  · rename_i h14
    rw [if_neg h14]
    split at h
    · rename_i h8
      rw [if_pos h8]
      split at h
      · simp at h
      · rename_i hlen; unfold extractV4; rw [if_pos (by omega)]
    · rename_i h8
      rw [if_neg h8]
      split at h
      · rename_i h6
        rw [if_pos h6]
        split at h
        · simp at h
        · rename_i hlen; unfold extractV6; rw [if_pos (by omega)]
      · rename_i h6; rw [if_neg h6]

theorem parse_cases (p : Bytes) (l : Located) (h : parsePacket p = some l) :
    tryEthernet p = some l ∨ (tryEthernet p = none ∧ tryRawIp p = some l) ∨
    (tryEthernet p = none ∧ tryRawIp p = none ∧ tryNull p = some l) := by
  unfold parsePacket at h
  split at h
  · left; simp_all
  · split at h
    · right; left; simp_all
    · right; right; simp_all

theorem tryEthernet_some (p : Bytes) (l : Located) (h : tryEthernet p = some l) :
    14 ≤ p.length ∧
    ((l = ⟨.eth, .v4, p.drop 14⟩ ∧ be16 p 12 = 0x0800) ∨
     (l = ⟨.eth, .v6, p.drop 14⟩ ∧ be16 p 12 ≠ 0x0800 ∧ be16 p 12 = 0x86DD)) := by
  unfold tryEthernet at h
  split at h; · simp at h
  rename_i h14
  refine ⟨by omega, ?_⟩
  split at h
  · rename_i h8
    split at h
    · left; simp at h; exact ⟨h.symm, h8⟩
    · simp at h
  · rename_i h8
    split at h
    · rename_i h6
      split at h
      · right; simp at h; exact ⟨h.symm, h8, h6⟩
      · simp at h
    · simp at h

theorem tryRawIp_some (p : Bytes) (l : Located) (h : tryRawIp p = some l) :
    20 ≤ p.length ∧
    ((l = ⟨.raw, .v4, p⟩ ∧ byte p 0 / 16 = 4) ∨
     (l = ⟨.raw, .v6, p⟩ ∧ byte p 0 / 16 ≠ 4 ∧ byte p 0 / 16 = 6)) := by
  unfold tryRawIp at h
  split at h; · simp at h
  rename_i h20
  refine ⟨by omega, ?_⟩
  split at h
  · rename_i h4; left; simp at h; exact ⟨h.symm, h4⟩
  · rename_i h4
    split at h
    · rename_i h6
      split at h
      · right; simp at h; exact ⟨h.symm, h4, h6⟩
      · simp at h
    · simp at h

theorem tryNull_some (p : Bytes) (l : Located) (h : tryNull p = some l) :
    24 ≤ p.length ∧ byte p 0 = 0x1e ∧ byte p 1 = 0 ∧
    ((l = ⟨.null, .v4, p.drop 4⟩ ∧ byte p 4 / 16 = 4) ∨
     (l = ⟨.null, .v6, p.drop 4⟩ ∧ byte p 4 / 16 ≠ 4 ∧ byte p 4 / 16 = 6)) := by
  unfold tryNull at h
  split at h; · simp at h
  rename_i hc
  refine ⟨by omega, by omega, by omega, ?_⟩
  rw [byte_drop] at h
  split at h
  · rename_i h4; left; simp at h; exact ⟨h.symm, h4⟩
  · rename_i h4
    split at h
    · rename_i h6
      split at h
      · right; simp at h; exact ⟨h.symm, h4, h6⟩
      · simp at h
    · simp at h

theorem View.ep_v4 (ip : Bytes) (fr : Framing) (hpl : 20 ≤ (v4Payload ip).length) :
    (View.mk ⟨fr, .v4, ip⟩ (v4Payload ip)).ep =
      ⟨.v4, slice ip 12 4, slice ip 16 4, be16 ip (v4PayloadStart ip), be16 ip (v4PayloadStart ip + 2)⟩ := by
  simp [View.ep, Located.src, Located.dst, tcpSrcPort, tcpDstPort,
    v4Payload_be16 ip 0 (by omega), v4Payload_be16 ip 2 (by omega)]

theorem View.ep_v6 (ip : Bytes) (fr : Framing) (hpl : 20 ≤ (v6Payload ip).length) :
    (View.mk ⟨fr, .v6, ip⟩ (v6Payload ip)).ep =
      ⟨.v6, slice ip 8 16, slice ip 24 16, be16 ip 40, be16 ip 42⟩ := by
  simp [View.ep, Located.src, Located.dst, tcpSrcPort, tcpDstPort,
    v6Payload_be16 ip 0 (by omega), v6Payload_be16 ip 2 (by omega)]

theorem baseView_some (p : Bytes) (v : View) (h : baseView p = some v) :
    ∃ l, parsePacket p = some l ∧ l.proto = 6 ∧ 20 ≤ l.payload.length ∧ v = ⟨l, l.payload⟩ := by
  unfold baseView at h
  split at h; · simp at h
  rename_i l hl
  split at h; · simp at h
  split at h; · simp at h
  simp at h
  exact ⟨l, hl, by omega, by omega, h.symm⟩

/-- **Core of C15**: on every frame the analyzers accept, the filter's quick decoder finds exactly
the analyzer's endpoints. -/
theorem extract_eq (p : Bytes) (v : View) (hb : baseView p = some v) :
    rawFilterExtract p = some v.ep := by
  obtain ⟨l, hl, hproto, hpl, rfl⟩ := baseView_some p v hb
  rcases parse_cases p l hl with he | ⟨he, hr⟩ | ⟨he, hr, hn⟩
  · -- Ethernet
    obtain ⟨h14, ⟨rfl, h8⟩ | ⟨rfl, h8, h6⟩⟩ := tryEthernet_some p l he
    · simp only [Located.proto, Located.payload] at hproto hpl
      have hx := extractV4_of_view _ hproto hpl
      unfold rawFilterExtract rfEthernet
      rw [if_neg (by omega), if_pos h8, hx]
      simp only [Located.payload, View.ep_v4 _ _ hpl]
    · simp only [Located.proto, Located.payload] at hproto hpl
      have hx := extractV6_of_view _ hproto hpl
      unfold rawFilterExtract rfEthernet
      rw [if_neg (by omega), if_neg h8, if_pos h6, hx]
      simp only [Located.payload, View.ep_v6 _ _ hpl]
  · -- raw IP
    have hre := rfEthernet_none p he
    obtain ⟨h20, ⟨rfl, h4⟩ | ⟨rfl, h4, h6⟩⟩ := tryRawIp_some p l hr
    · simp only [Located.proto, Located.payload] at hproto hpl
      have hx := extractV4_of_view _ hproto hpl
      unfold rawFilterExtract rfRawIp
      rw [hre]; simp only []
      rw [if_neg (by omega), if_pos h4, hx]
      simp only [Located.payload, View.ep_v4 _ _ hpl]
    · simp only [Located.proto, Located.payload] at hproto hpl
      have hx := extractV6_of_view _ hproto hpl
      unfold rawFilterExtract rfRawIp
      rw [hre]; simp only []
      rw [if_neg (by omega), if_neg h4, if_pos h6, hx]
      simp only [Located.payload, View.ep_v6 _ _ hpl]
  · -- NULL / loopback: the filter now reads the `1e 00` header as the parser does
    have hre := rfEthernet_none p he
    obtain ⟨h24, hb0, hb1, hl⟩ := tryNull_some p l hn
    have hrr : rfRawIp p = none := by
      unfold rfRawIp
      rw [if_neg (by omega), if_neg (by omega), if_neg (by omega)]
    have hrf : rawFilterExtract p = rfNull p := by
      unfold rawFilterExtract; rw [hre, hrr]
    rw [hrf]
    unfold rfNull
    rw [if_neg (by omega), if_pos ⟨hb0, hb1, by omega⟩]
    rcases hl with ⟨rfl, h4⟩ | ⟨rfl, h4, h6⟩
    · simp only [Located.proto, Located.payload] at hproto hpl
      rw [if_pos h4, extractV4_of_view _ hproto hpl]
      simp only [Located.payload, View.ep_v4 _ _ hpl]
    · simp only [Located.proto, Located.payload] at hproto hpl
      rw [if_neg h4, if_pos h6, extractV6_of_view _ hproto hpl]
      simp only [Located.payload, View.ep_v6 _ _ hpl]

/-! ### `locate_ip` of the hashers = `parse_packet` of the analyzers, on every byte string -/

theorem locEth_eq (p : Bytes) : locEth p = (tryEthernet p).map (fun l => (l.fr.offset, l.ver)) := by
  unfold locEth tryEthernet
  simp only [List.length_drop]
  by_cases h14 : p.length < 14
  · simp [h14]
  · by_cases h8 : be16 p 12 = 0x0800
    · by_cases hl : 34 ≤ p.length
      · have : 20 ≤ p.length - 14 := by omega
        simp [h14, h8, hl, this, Framing.offset]
      · have : ¬ 20 ≤ p.length - 14 := by omega
        simp [h14, h8, hl, this]
    · by_cases h6 : be16 p 12 = 0x86DD
      · by_cases hl : 54 ≤ p.length
        · have : 40 ≤ p.length - 14 := by omega
          simp [h14, h8, h6, hl, this, Framing.offset]
        · have : ¬ 40 ≤ p.length - 14 := by omega
          simp [h14, h8, h6, hl, this]
      · simp [h14, h8, h6]

theorem locRaw_eq (p : Bytes) : locRaw p = (tryRawIp p).map (fun l => (l.fr.offset, l.ver)) := by
  unfold locRaw tryRawIp
  by_cases h20 : p.length < 20
  · simp [h20]
  · by_cases h4 : byte p 0 / 16 = 4
    · simp [h20, h4, Framing.offset]
    · by_cases h6 : byte p 0 / 16 = 6
      · by_cases hl : 40 ≤ p.length
        · simp [h20, h4, h6, hl, Framing.offset]
        · simp [h20, h4, h6, hl]
      · simp [h20, h4, h6]

theorem locNull_eq (p : Bytes) : locNull p = (tryNull p).map (fun l => (l.fr.offset, l.ver)) := by
  unfold locNull tryNull
  simp only [List.length_drop, byte_drop, Nat.add_zero]
  by_cases hc : p.length < 24 ∨ byte p 0 ≠ 0x1e ∨ byte p 1 ≠ 0
  · simp [hc]
  · by_cases h4 : byte p 4 / 16 = 4
    · simp [hc, h4, Framing.offset]
    · by_cases h6 : byte p 4 / 16 = 6
      · by_cases hl : 44 ≤ p.length
        · have : 40 ≤ p.length - 4 := by omega
          simp [hc, h4, h6, hl, this, Framing.offset]
        · have : ¬ 40 ≤ p.length - 4 := by omega
          simp [hc, h4, h6, hl, this]
      · simp [hc, h4, h6]

/-- **The repaired hashers look where the analyzers look**: for every byte string `locate_ip`
returns the offset and IP version of the packet `parse_packet` hands to the analyzer, and nothing when
`parse_packet` rejects the frame. -/
theorem locateIp_eq_parse (p : Bytes) :
    locateIp p = (parsePacket p).map (fun l => (l.fr.offset, l.ver)) := by
  unfold locateIp parsePacket
  rw [locEth_eq, locRaw_eq, locNull_eq]
  cases tryEthernet p with
  | some l => rfl
  | none =>
    cases tryRawIp p with
    | some l => rfl
    | none => rfl

/-- The IP bytes the parser hands over start at the framing's offset. -/
theorem parsePacket_ip (p : Bytes) (l : Located) (h : parsePacket p = some l) :
    l.ip = p.drop l.fr.offset := by
  rcases parse_cases p l h with he | ⟨_, hr⟩ | ⟨_, _, hn⟩
  · obtain ⟨_, ⟨rfl, _⟩ | ⟨rfl, _⟩⟩ := tryEthernet_some p l he <;> rfl
  · obtain ⟨_, ⟨rfl, _⟩ | ⟨rfl, _⟩⟩ := tryRawIp_some p l hr <;> simp [Framing.offset]
  · obtain ⟨_, _, _, ⟨rfl, _⟩ | ⟨rfl, _⟩⟩ := tryNull_some p l hn <;> rfl

theorem locateIp_of_parse (p : Bytes) (l : Located) (h : parsePacket p = some l) :
    locateIp p = some (l.fr.offset, l.ver) ∧ l.ip = p.drop l.fr.offset := by
  refine ⟨?_, parsePacket_ip p l h⟩
  rw [locateIp_eq_parse, h]; rfl

/-! ### hash inputs, given where the hashers found the IP header -/

theorem hashTcp_v4 (p : Bytes) (off : Nat) (hs : locateIp p = some (off, .v4))
    (hl : 20 ≤ (p.drop off).length) :
    hashInputTcp p = .bytes (slice (p.drop off) 12 4) := by
  unfold hashInputTcp
  rw [hs]
  simp only
  rw [if_pos (by omega)]

theorem hashTcp_v6 (p : Bytes) (off : Nat) (hs : locateIp p = some (off, .v6))
    (hl : 24 ≤ (p.drop off).length) :
    hashInputTcp p = .bytes (slice (p.drop off) 8 16) := by
  unfold hashInputTcp
  rw [hs]
  simp only
  rw [if_pos (by omega)]

theorem hashHttp_v4 (p : Bytes) (off : Nat) (hs : locateIp p = some (off, .v4))
    (hl : 40 ≤ (p.drop off).length)
    (hp : byte (p.drop off) 9 = 6) (hlen : v4PortOff (p.drop off) + 4 ≤ (p.drop off).length) :
    hashInputHttp p = canonFlow (slice (p.drop off) 12 4) (slice (p.drop off) 16 4)
      (be16 (p.drop off) (v4PortOff (p.drop off))) (be16 (p.drop off) (v4PortOff (p.drop off) + 2)) := by
  unfold hashInputHttp
  rw [hs]
  have hl' := hl
  simp only [List.length_drop] at hl'
  simp only
  rw [if_neg (by omega)]
  unfold hashV4FlowHttp
  rw [if_neg (by omega), if_neg (by omega), if_neg (by omega)]

theorem hashHttp_v6 (p : Bytes) (off : Nat) (hs : locateIp p = some (off, .v6))
    (hl : 44 ≤ (p.drop off).length) (hp : byte (p.drop off) 6 = 6) :
    hashInputHttp p = canonFlow (slice (p.drop off) 8 16) (slice (p.drop off) 24 16)
      (be16 (p.drop off) 40) (be16 (p.drop off) 42) := by
  unfold hashInputHttp
  rw [hs]
  have hl' := hl
  simp only [List.length_drop] at hl'
  simp only
  rw [if_neg (by omega)]
  unfold hashV6FlowHttp
  rw [if_neg (by omega), if_neg (by omega), if_neg (by omega)]

theorem hashTls_v4 (p : Bytes) (off : Nat) (hs : locateIp p = some (off, .v4))
    (hl : 40 ≤ (p.drop off).length)
    (hp : byte (p.drop off) 9 = 6) (hlen : v4PortOff (p.drop off) + 4 ≤ (p.drop off).length) :
    hashInputTls p = some (.flow (slice (p.drop off) 12 4) (slice (p.drop off) 16 4)
      (be16 (p.drop off) (v4PortOff (p.drop off))) (be16 (p.drop off) (v4PortOff (p.drop off) + 2))) := by
  unfold hashInputTls
  rw [hs]
  have hl' := hl
  simp only [List.length_drop] at hl'
  simp only
  rw [if_neg (by omega)]
  unfold hashV4FlowTls
  rw [if_neg (by omega), if_neg (by omega), if_neg (by omega)]

theorem hashTls_v6 (p : Bytes) (off : Nat) (hs : locateIp p = some (off, .v6))
    (hl : 44 ≤ (p.drop off).length) (hp : byte (p.drop off) 6 = 6) :
    hashInputTls p = some (.flow (slice (p.drop off) 8 16) (slice (p.drop off) 24 16)
      (be16 (p.drop off) 40) (be16 (p.drop off) 42)) := by
  unfold hashInputTls
  rw [hs]
  have hl' := hl
  simp only [List.length_drop] at hl'
  simp only
  rw [if_neg (by omega)]
  unfold hashV6FlowTls
  rw [if_neg (by omega), if_neg (by omega), if_neg (by omega)]

/-! ### canonical order of the HTTP hasher -/

theorem bytesCmp_swap (a b : Bytes) : bytesCmp b a = (bytesCmp a b).swap := by
  induction a generalizing b with
  | nil => cases b <;> simp [bytesCmp, Ordering.swap]
  | cons x xs ih =>
    cases b with
    | nil => simp [bytesCmp, Ordering.swap]
    | cons y ys =>
      simp only [bytesCmp]
      rw [← Nat.compare_swap x.toNat y.toNat]
      cases h : compare x.toNat y.toNat <;> simp [Ordering.swap, ih]

theorem bytesCmp_eq (a b : Bytes) (h : bytesCmp a b = .eq) : a = b := by
  induction a generalizing b with
  | nil => cases b <;> simp_all [bytesCmp]
  | cons x xs ih =>
    cases b with
    | nil => simp [bytesCmp] at h
    | cons y ys =>
      simp only [bytesCmp] at h
      cases hc : compare x.toNat y.toNat <;> simp [hc] at h
      have hxy : x.toNat = y.toNat := Nat.compare_eq_eq.1 hc
      have : x = y := UInt8.toNat_inj.1 hxy
      rw [this, ih ys h]

/-- The endpoint pair is hashed in an order that does not depend on the packet's direction. -/
theorem canonFlow_swap (s d : Bytes) (sp dp : Nat) : canonFlow s d sp dp = canonFlow d s dp sp := by
  unfold canonFlow endLe
  rw [bytesCmp_swap s d]
  cases h : bytesCmp s d with
  | lt => simp [Ordering.swap]
  | gt => simp [Ordering.swap]
  | eq =>
    have := bytesCmp_eq s d h
    subst this
    simp only [Ordering.swap]
    by_cases h1 : sp ≤ dp <;> by_cases h2 : dp ≤ sp <;> simp [h1, h2]
    · have : sp = dp := by omega
      subst this; simp
    · omega


/-- What an accepted view guarantees about the IP packet (the hashers' length tests pass). -/
theorem view_v4_facts (ip : Bytes) (hproto : v4Proto ip = 6) (hpl : 20 ≤ (v4Payload ip).length) :
    40 ≤ ip.length ∧ byte ip 9 = 6 ∧ v4PortOff ip + 4 ≤ ip.length := by
  rw [v4PortOff_eq]
  have hl := v4Payload_length ip
  unfold v4PayloadStart at hl ⊢
  unfold v4Proto at hproto
  omega

theorem view_v6_facts (ip : Bytes) (hproto : v6NextHeader ip = 6) (hpl : 20 ≤ (v6Payload ip).length) :
    60 ≤ ip.length ∧ byte ip 6 = 6 := by
  have hl := v6Payload_length ip
  unfold v6NextHeader at hproto
  omega

theorem analyzerView_base (a : Analyzer) (p : Bytes) (v : View) (h : analyzerView a p = some v) :
    baseView p = some v := by
  unfold analyzerView at h
  cases hb : baseView p with
  | none => simp [hb] at h
  | some w =>
    simp only [hb] at h
    split at h
    · simpa using h
    · simp at h

/-- Where the hashers look, for a frame the analyzers accept: at the packet the analyzer decodes. -/
theorem view_locate (p : Bytes) (v : View) (hb : baseView p = some v) :
    locateIp p = some (v.loc.fr.offset, v.loc.ver) ∧ v.loc.ip = p.drop v.loc.fr.offset := by
  obtain ⟨l, hl, _, _, rfl⟩ := baseView_some p v hb
  exact locateIp_of_parse p l hl

/-- TCP hasher on every accepted frame: the analyzer's source address. -/
theorem hashInputTcp_view (a : Analyzer) (p : Bytes) (v : View) (hv : analyzerView a p = some v) :
    hashInputTcp p = .bytes v.loc.src := by
  have hb := analyzerView_base a p v hv
  obtain ⟨hloc, hip⟩ := view_locate p v hb
  obtain ⟨l, _, hproto, hpl, rfl⟩ := baseView_some p v hb
  obtain ⟨fr, ver, ip⟩ := l
  simp only at hip hloc
  cases ver with
  | v4 =>
    simp only [Located.proto, Located.payload] at hproto hpl
    obtain ⟨h40, _, _⟩ := view_v4_facts ip hproto hpl
    subst hip
    simpa [Located.src] using hashTcp_v4 p fr.offset hloc (by omega)
  | v6 =>
    simp only [Located.proto, Located.payload] at hproto hpl
    obtain ⟨h60, _⟩ := view_v6_facts ip hproto hpl
    subst hip
    simpa [Located.src] using hashTcp_v6 p fr.offset hloc (by omega)

/-- the ports the hashers read are the analyzer's (both at `max(ihl*4, 20)`) -/
theorem ep_of_view_v4 (fr : Framing) (ip : Bytes) (hpl : 20 ≤ (v4Payload ip).length) :
    (View.mk ⟨fr, .v4, ip⟩ (v4Payload ip)).ep =
      ⟨.v4, slice ip 12 4, slice ip 16 4, be16 ip (v4PortOff ip), be16 ip (v4PortOff ip + 2)⟩ := by
  rw [View.ep_v4 ip fr hpl, v4PortOff_eq]

/-- HTTP hasher on every accepted frame: the analyzer's endpoints in canonical order. -/
theorem hashInputHttp_view (a : Analyzer) (p : Bytes) (v : View) (hv : analyzerView a p = some v) :
    hashInputHttp p = canonFlow v.ep.src v.ep.dst v.ep.sp v.ep.dp := by
  have hb := analyzerView_base a p v hv
  obtain ⟨hloc, hip⟩ := view_locate p v hb
  obtain ⟨l, _, hproto, hpl, rfl⟩ := baseView_some p v hb
  obtain ⟨fr, ver, ip⟩ := l
  simp only at hip hloc
  cases ver with
  | v4 =>
    simp only [Located.proto, Located.payload] at hproto hpl
    obtain ⟨h40, hp6, hlen⟩ := view_v4_facts ip hproto hpl
    simp only [Located.payload]
    rw [ep_of_view_v4 fr ip hpl]
    subst hip
    exact hashHttp_v4 p fr.offset hloc h40 hp6 hlen
  | v6 =>
    simp only [Located.proto, Located.payload] at hproto hpl
    obtain ⟨h60, hp6⟩ := view_v6_facts ip hproto hpl
    simp only [Located.payload]
    rw [View.ep_v6 ip fr hpl]
    subst hip
    exact hashHttp_v6 p fr.offset hloc (by omega) hp6

/-- TLS hasher on every accepted frame: the analyzer's directed 4-tuple (never discarded). -/
theorem hashInputTls_view (a : Analyzer) (p : Bytes) (v : View) (hv : analyzerView a p = some v) :
    hashInputTls p = some (.flow v.ep.src v.ep.dst v.ep.sp v.ep.dp) := by
  have hb := analyzerView_base a p v hv
  obtain ⟨hloc, hip⟩ := view_locate p v hb
  obtain ⟨l, _, hproto, hpl, rfl⟩ := baseView_some p v hb
  obtain ⟨fr, ver, ip⟩ := l
  simp only at hip hloc
  cases ver with
  | v4 =>
    simp only [Located.proto, Located.payload] at hproto hpl
    obtain ⟨h40, hp6, hlen⟩ := view_v4_facts ip hproto hpl
    simp only [Located.payload]
    rw [ep_of_view_v4 fr ip hpl]
    subst hip
    exact hashTls_v4 p fr.offset hloc h40 hp6 hlen
  | v6 =>
    simp only [Located.proto, Located.payload] at hproto hpl
    obtain ⟨h60, hp6⟩ := view_v6_facts ip hproto hpl
    simp only [Located.payload]
    rw [View.ep_v6 ip fr hpl]
    subst hip
    exact hashTls_v6 p fr.offset hloc (by omega) hp6


theorem wireV4_some (ip : Bytes) (e : Ep) (h : wireV4 ip = some e) :
    byte ip 0 / 16 = 4 ∧ 5 ≤ v4Ihl ip ∧ v4Ihl ip * 4 + 20 ≤ ip.length ∧ byte ip 9 = 6 ∧
    e = ⟨.v4, slice ip 12 4, slice ip 16 4, be16 ip (v4Ihl ip * 4), be16 ip (v4Ihl ip * 4 + 2)⟩ := by
  unfold wireV4 at h
  split at h
  · rename_i hc
    simp only [Option.some.injEq] at h
    unfold v4Ihl
    exact ⟨hc.1, hc.2.1, hc.2.2.1, hc.2.2.2, h.symm⟩
  · simp at h

theorem wireV6_some (ip : Bytes) (e : Ep) (h : wireV6 ip = some e) :
    byte ip 0 / 16 = 6 ∧ 60 ≤ ip.length ∧ byte ip 6 = 6 ∧
    e = ⟨.v6, slice ip 8 16, slice ip 24 16, be16 ip 40, be16 ip 42⟩ := by
  unfold wireV6 at h
  split at h
  · rename_i hc
    simp only [Option.some.injEq] at h
    exact ⟨hc.1, hc.2.1, hc.2.2, h.symm⟩
  · simp at h

/-- Ethernet frames are always taken for Ethernet: a well-formed Ethernet frame honours its link type. -/
theorem linkHonoured_eth (p : Bytes) (e : Ep) (hw : wireEndpoints .eth p = some e) :
    LinkHonoured .eth p := by
  simp only [wireEndpoints] at hw
  split at hw; · simp at hw
  rename_i h14
  have key : ∀ l, tryEthernet p = some l → LinkHonoured .eth p := by
    intro l hl
    have hfr : l.fr = .eth := by
      obtain ⟨_, ⟨rfl, _⟩ | ⟨rfl, _⟩⟩ := tryEthernet_some p l hl <;> rfl
    unfold LinkHonoured parsePacket; rw [hl]; simp [hfr]
  split at hw
  · rename_i h8
    obtain ⟨_, _, hlen, _, _⟩ := wireV4_some _ _ hw
    simp only [List.length_drop] at hlen
    refine key ⟨.eth, .v4, p.drop 14⟩ ?_
    unfold tryEthernet
    rw [if_neg h14, if_pos h8, if_pos (by simp only [List.length_drop]; omega)]
  · split at hw
    · rename_i h8 h6
      obtain ⟨_, hlen, _, _⟩ := wireV6_some _ _ hw
      simp only [List.length_drop] at hlen
      refine key ⟨.eth, .v6, p.drop 14⟩ ?_
      unfold tryEthernet
      rw [if_neg h14, if_neg h8, if_pos h6, if_pos (by simp only [List.length_drop]; omega)]
    · simp at hw

/-- A well-formed raw IP frame honours its link type exactly when the parser's Ethernet strategy
does not fire (bytes 12–13 are not `08 00` with ≥ 34 bytes / `86 dd` with ≥ 54 bytes). -/
theorem linkHonoured_raw (p : Bytes) (e : Ep) (hw : wireEndpoints .raw p = some e) :
    LinkHonoured .raw p ↔ tryEthernet p = none := by
  have hraw : ∃ l, tryRawIp p = some l ∧ l.fr = .raw := by
    simp only [wireEndpoints] at hw
    split at hw
    · rename_i e' he'
      obtain ⟨hn, _, hlen, _, _⟩ := wireV4_some _ _ he'
      refine ⟨⟨.raw, .v4, p⟩, ?_, rfl⟩
      unfold tryRawIp; rw [if_neg (by omega), if_pos hn]
    · obtain ⟨hn, hlen, _, _⟩ := wireV6_some _ _ hw
      refine ⟨⟨.raw, .v6, p⟩, ?_, rfl⟩
      unfold tryRawIp; rw [if_neg (by omega), if_neg (by omega), if_pos hn, if_pos (by omega)]
  obtain ⟨l, hl, hfr⟩ := hraw
  constructor
  · intro h
    cases he : tryEthernet p with
    | none => rfl
    | some l' =>
      have hfr' : l'.fr = .eth := by
        obtain ⟨_, ⟨rfl, _⟩ | ⟨rfl, _⟩⟩ := tryEthernet_some p l' he <;> rfl
      unfold LinkHonoured parsePacket at h
      rw [he] at h
      simp [hfr'] at h
  · intro he
    unfold LinkHonoured parsePacket
    rw [he, hl]; simp [hfr]

/-- A well-formed frame of a declared link type which the parser takes for that link type: the
hashers look at the right offset and decide on the right IP version. -/
theorem wire_locate (fr : Framing) (p : Bytes) (e : Ep) (hw : wireEndpoints fr p = some e)
    (hh : LinkHonoured fr p) :
    ∃ off, (locateIp p = some (off, .v4) ∧ wireV4 (p.drop off) = some e) ∨
           (locateIp p = some (off, .v6) ∧ wireV6 (p.drop off) = some e) := by
  unfold LinkHonoured at hh
  cases hp : parsePacket p with
  | none => simp [hp] at hh
  | some l =>
    simp only [hp, Option.map_some, Option.some.injEq] at hh
    obtain ⟨hloc, _⟩ := locateIp_of_parse p l hp
    rw [hh] at hloc
    refine ⟨fr.offset, ?_⟩
    rcases parse_cases p l hp with he | ⟨_, hr⟩ | ⟨_, _, hn⟩
    · obtain ⟨h14, hl⟩ := tryEthernet_some p l he
      have hfr : fr = .eth := by rcases hl with ⟨rfl, _⟩ | ⟨rfl, _⟩ <;> exact hh.symm
      subst hfr
      simp only [wireEndpoints] at hw
      rw [if_neg (by omega)] at hw
      rcases hl with ⟨rfl, h8⟩ | ⟨rfl, h8, h6⟩
      · rw [if_pos h8] at hw; left; exact ⟨hloc, hw⟩
      · rw [if_neg h8, if_pos h6] at hw; right; exact ⟨hloc, hw⟩
    · obtain ⟨h20, hl⟩ := tryRawIp_some p l hr
      have hfr : fr = .raw := by rcases hl with ⟨rfl, _⟩ | ⟨rfl, _⟩ <;> exact hh.symm
      subst hfr
      simp only [wireEndpoints] at hw
      simp only [Framing.offset, List.drop_zero]
      rcases hl with ⟨rfl, h4⟩ | ⟨rfl, h4, h6⟩
      · left
        refine ⟨hloc, ?_⟩
        split at hw
        · rename_i e' he'; rw [he']; exact hw
        · obtain ⟨hn, _⟩ := wireV6_some _ _ hw; omega
      · right
        refine ⟨hloc, ?_⟩
        split at hw
        · rename_i e' he'; obtain ⟨hn, _⟩ := wireV4_some _ _ he'; omega
        · exact hw
    · obtain ⟨h24, _, _, hl⟩ := tryNull_some p l hn
      have hfr : fr = .null := by rcases hl with ⟨rfl, _⟩ | ⟨rfl, _⟩ <;> exact hh.symm
      subst hfr
      simp only [wireEndpoints] at hw
      rw [if_neg (by omega)] at hw
      simp only [Framing.offset]
      have hnib : byte (p.drop 4) 0 = byte p 4 := by rw [byte_drop]
      rcases hl with ⟨rfl, h4⟩ | ⟨rfl, h4, h6⟩
      · left
        refine ⟨hloc, ?_⟩
        split at hw
        · exact hw
        · split at hw
          · obtain ⟨hn, _⟩ := wireV6_some _ _ hw; omega
          · simp at hw
      · right
        refine ⟨hloc, ?_⟩
        split at hw
        · obtain ⟨hn, _⟩ := wireV4_some _ _ hw; omega
        · split at hw
          · exact hw
          · simp at hw

theorem hashInputTcp_wire (fr : Framing) (p : Bytes) (e : Ep) (hw : wireEndpoints fr p = some e)
    (hh : LinkHonoured fr p) : hashInputTcp p = .bytes e.src := by
  obtain ⟨off, ⟨hloc, h⟩ | ⟨hloc, h⟩⟩ := wire_locate fr p e hw hh
  · obtain ⟨hn, _, hlen, _, rfl⟩ := wireV4_some _ _ h
    exact hashTcp_v4 p off hloc (by omega)
  · obtain ⟨hn, hlen, _, rfl⟩ := wireV6_some _ _ h
    exact hashTcp_v6 p off hloc (by omega)

theorem hashInputHttp_wire (fr : Framing) (p : Bytes) (e : Ep) (hw : wireEndpoints fr p = some e)
    (hh : LinkHonoured fr p) : hashInputHttp p = canonFlow e.src e.dst e.sp e.dp := by
  obtain ⟨off, ⟨hloc, h⟩ | ⟨hloc, h⟩⟩ := wire_locate fr p e hw hh
  · obtain ⟨hn, h5, hlen, hp, rfl⟩ := wireV4_some _ _ h
    have hoff : v4PortOff (p.drop off) = v4Ihl (p.drop off) * 4 := by
      unfold v4PortOff; omega
    have := hashHttp_v4 p off hloc (by omega) hp (by omega)
    rw [hoff] at this
    exact this
  · obtain ⟨hn, hlen, hp, rfl⟩ := wireV6_some _ _ h
    exact hashHttp_v6 p off hloc (by omega) hp

theorem hashInputTls_wire (fr : Framing) (p : Bytes) (e : Ep) (hw : wireEndpoints fr p = some e)
    (hh : LinkHonoured fr p) : hashInputTls p = some (.flow e.src e.dst e.sp e.dp) := by
  obtain ⟨off, ⟨hloc, h⟩ | ⟨hloc, h⟩⟩ := wire_locate fr p e hw hh
  · obtain ⟨hn, h5, hlen, hp, rfl⟩ := wireV4_some _ _ h
    have hoff : v4PortOff (p.drop off) = v4Ihl (p.drop off) * 4 := by
      unfold v4PortOff; omega
    have := hashTls_v4 p off hloc (by omega) hp (by omega)
    rw [hoff] at this
    exact this
  · obtain ⟨hn, hlen, hp, rfl⟩ := wireV6_some _ _ h
    exact hashTls_v6 p off hloc (by omega) hp


theorem beNat_append_one (b : Bytes) (x : UInt8) : beNat (b ++ [x]) = beNat b * 256 + x.toNat := by
  simp [beNat, List.foldl_append]

theorem beNat_foldl (b : Bytes) (acc : Nat) :
    b.foldl (fun a x => a * 256 + x.toNat) acc = acc * 256 ^ b.length + beNat b := by
  induction b generalizing acc with
  | nil => simp [beNat]
  | cons x xs ih =>
    simp only [List.foldl_cons, List.length_cons, beNat]
    rw [ih, ih (0 * 256 + x.toNat)]
    rw [Nat.pow_succ]
    simp [Nat.add_mul, Nat.mul_assoc, Nat.mul_comm 256, Nat.add_assoc]

theorem beNat_cons (x : UInt8) (xs : Bytes) : beNat (x :: xs) = x.toNat * 256 ^ xs.length + beNat xs := by
  simp only [beNat, List.foldl_cons]
  rw [beNat_foldl]; simp [beNat]

theorem beNat_lt (b : Bytes) : beNat b < 256 ^ b.length := by
  induction b with
  | nil => simp [beNat]
  | cons x xs ih =>
    rw [beNat_cons, List.length_cons, Nat.pow_succ]
    have hx := UInt8.toNat_lt x
    have : x.toNat * 256 ^ xs.length + 256 ^ xs.length ≤ 256 ^ xs.length * 256 := by
      have : (x.toNat + 1) * 256 ^ xs.length ≤ 256 * 256 ^ xs.length :=
        Nat.mul_le_mul_right _ (by omega)
      rw [Nat.add_mul, Nat.one_mul] at this
      rw [Nat.mul_comm (256 ^ xs.length) 256]; exact this
    omega

theorem beNat_inj (a b : Bytes) (hl : a.length = b.length) (h : beNat a = beNat b) : a = b := by
  induction a generalizing b with
  | nil => cases b with | nil => rfl | cons _ _ => simp at hl
  | cons x xs ih =>
    cases b with
    | nil => simp at hl
    | cons y ys =>
      simp only [List.length_cons, Nat.add_right_cancel_iff] at hl
      rw [beNat_cons, beNat_cons, hl] at h
      have h1 := beNat_lt xs
      have h2 := beNat_lt ys
      rw [hl] at h1
      have hpos : 0 < 256 ^ ys.length := Nat.pow_pos (by decide)
      have hx : x.toNat = y.toNat := by
        have e1 : (x.toNat * 256 ^ ys.length + beNat xs) / 256 ^ ys.length = x.toNat := by
          rw [Nat.mul_comm, Nat.mul_add_div hpos, Nat.div_eq_of_lt h1]; simp
        have e2 : (y.toNat * 256 ^ ys.length + beNat ys) / 256 ^ ys.length = y.toNat := by
          rw [Nat.mul_comm, Nat.mul_add_div hpos, Nat.div_eq_of_lt h2]; simp
        rw [← e1, ← e2, h]
      have hr : beNat xs = beNat ys := by rw [hx] at h; omega
      rw [UInt8.toNat_inj.1 hx, ih ys hl hr]

theorem slice_length (b : Bytes) (i n : Nat) (h : i + n ≤ b.length) : (slice b i n).length = n := by
  unfold slice; simp; omega

/-- the addresses an accepted view reports have 4 / 16 bytes -/
theorem view_addr_lengths (p : Bytes) (v : View) (hb : baseView p = some v) :
    v.ep.src.length = (match v.ep.ver with | .v4 => 4 | .v6 => 16) ∧
    v.ep.dst.length = (match v.ep.ver with | .v4 => 4 | .v6 => 16) := by
  obtain ⟨l, _, hproto, hpl, rfl⟩ := baseView_some p v hb
  obtain ⟨fr, ver, ip⟩ := l
  cases ver with
  | v4 =>
    simp only [Located.proto, Located.payload] at hproto hpl
    obtain ⟨h40, _, _⟩ := view_v4_facts ip hproto hpl
    simp only [View.ep, Located.src, Located.dst]
    exact ⟨slice_length _ _ _ (by omega), slice_length _ _ _ (by omega)⟩
  | v6 =>
    simp only [Located.proto, Located.payload] at hproto hpl
    obtain ⟨h60, _⟩ := view_v6_facts ip hproto hpl
    simp only [View.ep, Located.src, Located.dst]
    exact ⟨slice_length _ _ _ (by omega), slice_length _ _ _ (by omega)⟩

theorem extractV4_some (ip : Bytes) (e : Ep) (h : extractV4 ip = some e) :
    e.ver = .v4 ∧ e.src.length = 4 ∧ e.dst.length = 4 := by
  unfold extractV4 at h
  split at h; · simp at h
  split at h; · simp at h
  split at h; · simp at h
  rename_i h20 _ _
  simp at h; rw [← h]
  exact ⟨rfl, slice_length _ _ _ (by omega), slice_length _ _ _ (by omega)⟩

theorem extractV6_some (ip : Bytes) (e : Ep) (h : extractV6 ip = some e) :
    e.ver = .v6 ∧ e.src.length = 16 ∧ e.dst.length = 16 := by
  unfold extractV6 at h
  split at h; · simp at h
  split at h; · simp at h
  split at h; · simp at h
  rename_i h40 _ _
  simp at h; rw [← h]
  exact ⟨rfl, slice_length _ _ _ (by omega), slice_length _ _ _ (by omega)⟩

theorem rawFilterExtract_lengths (p : Bytes) (e : Ep) (h : rawFilterExtract p = some e) :
    e.src.length = (match e.ver with | .v4 => 4 | .v6 => 16) ∧
    e.dst.length = (match e.ver with | .v4 => 4 | .v6 => 16) := by
  have key : ∀ ip, (extractV4 ip = some e ∨ extractV6 ip = some e) →
      e.src.length = (match e.ver with | .v4 => 4 | .v6 => 16) ∧
      e.dst.length = (match e.ver with | .v4 => 4 | .v6 => 16) := by
    intro ip hh
    rcases hh with hh | hh
    · obtain ⟨a, b, c⟩ := extractV4_some ip e hh; rw [a]; exact ⟨b, c⟩
    · obtain ⟨a, b, c⟩ := extractV6_some ip e hh; rw [a]; exact ⟨b, c⟩
  unfold rawFilterExtract at h
  split at h
  · rename_i e' he
    simp at h; subst h
    unfold rfEthernet at he
    split at he; · simp at he
    split at he; · exact key _ (Or.inl he)
    split at he; · exact key _ (Or.inr he)
    simp at he
  · split at h
    · rename_i e' he
      simp at h; subst h
      unfold rfRawIp at he
      split at he; · simp at he
      split at he; · exact key _ (Or.inl he)
      split at he; · exact key _ (Or.inr he)
      simp at he
    · unfold rfNull at h
      split at h; · simp at h
      split at h
      · split at h; · exact key _ (Or.inl h)
        split at h; · exact key _ (Or.inr h)
        simp at h
      · split at h; · exact key _ (Or.inl h)
        split at h; · exact key _ (Or.inr h)
        simp at h

open Huginn.Filter in
section

def AddrLens (e : Ep) : Prop :=
  e.src.length = (match e.ver with | .v4 => 4 | .v6 => 16) ∧
  e.dst.length = (match e.ver with | .v4 => 4 | .v6 => 16)

/-- a filter that rejects exactly the traffic from `e`'s source address -/
def denySrcOf (e : Ep) : Config :=
  { ip := some { v4 := [beNat e.src], v6 := [beNat e.src], checkSrc := true, checkDst := false },
    mode := .deny }

theorem denySrcOf_rejects (e : Ep) : e.admittedBy (denySrcOf e) = false := by
  obtain ⟨ver, src, dst, sp, dp⟩ := e
  cases ver <;>
    simp [Ep.admittedBy, denySrcOf, Config.shouldProcess, mkAddr, IpFilter.matches, IpFilter.side]

def allowSrcPort (n : Nat) : Config := { port := some { srcPorts := [n] } }
def allowDstPort (n : Nat) : Config := { port := some { dstPorts := [n] } }
def allowSrcAddr (v : IpVer) (b : Bytes) : Config :=
  { ip := some { v4 := (match v with | .v4 => [beNat b] | .v6 => []),
                 v6 := (match v with | .v4 => [] | .v6 => [beNat b]), checkSrc := true, checkDst := false } }
def allowDstAddr (v : IpVer) (b : Bytes) : Config :=
  { ip := some { v4 := (match v with | .v4 => [beNat b] | .v6 => []),
                 v6 := (match v with | .v4 => [] | .v6 => [beNat b]), checkSrc := false, checkDst := true } }

/-- Two different endpoint tuples (with proper address lengths) are told apart by some filter. -/
theorem exists_separating_filter (e e' : Ep) (he : AddrLens e) (he' : AddrLens e') (hne : e ≠ e') :
    ∃ c : Config, e.admittedBy c ≠ e'.admittedBy c := by
  obtain ⟨ver, src, dst, sp, dp⟩ := e
  obtain ⟨ver', src', dst', sp', dp'⟩ := e'
  simp only [AddrLens] at he he'
  by_cases hsp : sp = sp'
  · by_cases hdp : dp = dp'
    · by_cases hv : ver = ver'
      · subst hv hsp hdp
        by_cases hs : src = src'
        · subst hs
          have hd : dst ≠ dst' := by
            intro h; subst h; exact hne rfl
          have : beNat dst ≠ beNat dst' := fun h => hd (beNat_inj _ _ (by rw [he.2, he'.2]) h)
          refine ⟨allowDstAddr ver dst, ?_⟩
          cases ver <;>
            simp [Ep.admittedBy, allowDstAddr, Config.shouldProcess, mkAddr, IpFilter.matches,
              IpFilter.side, Ne.symm this]
        · have : beNat src ≠ beNat src' := fun h => hs (beNat_inj _ _ (by rw [he.1, he'.1]) h)
          refine ⟨allowSrcAddr ver src, ?_⟩
          cases ver <;>
            simp [Ep.admittedBy, allowSrcAddr, Config.shouldProcess, mkAddr, IpFilter.matches,
              IpFilter.side, Ne.symm this]
      · refine ⟨allowSrcAddr ver src, ?_⟩
        cases ver <;> cases ver' <;>
          simp_all [Ep.admittedBy, allowSrcAddr, Config.shouldProcess, mkAddr, IpFilter.matches,
            IpFilter.side]
    · refine ⟨allowDstPort dp, ?_⟩
      simp [Ep.admittedBy, allowDstPort, Config.shouldProcess, PortFilter.matches, Ne.symm hdp]
  · refine ⟨allowSrcPort sp, ?_⟩
    simp [Ep.admittedBy, allowSrcPort, Config.shouldProcess, PortFilter.matches, Ne.symm hsp]

theorem analyzerEndpoints_lens (a : Analyzer) (p : Bytes) (e : Ep) (h : analyzerEndpoints a p = some e) :
    AddrLens e := by
  unfold analyzerEndpoints at h
  cases hv : analyzerView a p with
  | none => simp [hv] at h
  | some v =>
    simp [hv] at h; subst h
    exact view_addr_lengths p v (analyzerView_base a p v hv)

/-- **Agreement of the decoders is necessary**: on a frame where they disagree some filter gives
the raw frame a verdict different from the verdict on the frame's own endpoints. -/
theorem exists_filter_of_not_agree (a : Analyzer) (p : Bytes) (h : ¬ Agree a p) :
    ∃ c : Config, ¬ AgreeFor a c p := by
  unfold Agree at h
  cases he : analyzerEndpoints a p with
  | none => simp [he] at h
  | some e =>
    simp only [he, not_or] at h
    cases hr : rawFilterExtract p with
    | none =>
      refine ⟨denySrcOf e, ?_⟩
      simp [AgreeFor, he, rawFilterApply, hr, ownAdmits, denySrcOf_rejects]
    | some e' =>
      have hne : e ≠ e' := by
        intro hh; apply h.2; rw [hr, hh]
      obtain ⟨c, hc⟩ := exists_separating_filter e e' (analyzerEndpoints_lens a p e he)
        (rawFilterExtract_lengths p e' hr) hne
      refine ⟨c, ?_⟩
      simp only [AgreeFor, he, rawFilterApply, hr, ownAdmits, not_or]
      exact ⟨by simp, fun hh => hc hh.symm⟩

end

end Huginn.Wire

/-! ### witness frames (also the first cases of the correspondence run) -/
namespace Huginn.Props.C15
open Huginn.Wire Huginn.Filter
/-- Ethernet, IPv4 IHL = 3, SYN 10.0.0.1:1234 → 10.0.0.2:80 (DESIGN §8 #24) -/
def wIhl3 : Bytes := [0x02, 0x00, 0x00, 0x00, 0x00, 0x01, 0x02, 0x00, 0x00, 0x00, 0x00, 0x02, 0x08, 0x00, 0x43, 0x00, 0x00, 0x28, 0x12, 0x34, 0x40, 0x00, 0x40, 0x06, 0x00, 0x00, 0x0a, 0x00, 0x00, 0x01, 0x0a, 0x00, 0x00, 0x02, 0x04, 0xd2, 0x00, 0x50, 0x00, 0x00, 0x03, 0xe8, 0x00, 0x00, 0x00, 0x00, 0x50, 0x02, 0xff, 0xff, 0x00, 0x00, 0x00, 0x00]
/-- the same frame with IHL = 5 -/
def wEth5 : Bytes := [0x02, 0x00, 0x00, 0x00, 0x00, 0x01, 0x02, 0x00, 0x00, 0x00, 0x00, 0x02, 0x08, 0x00, 0x45, 0x00, 0x00, 0x28, 0x12, 0x34, 0x40, 0x00, 0x40, 0x06, 0x00, 0x00, 0x0a, 0x00, 0x00, 0x01, 0x0a, 0x00, 0x00, 0x02, 0x04, 0xd2, 0x00, 0x50, 0x00, 0x00, 0x03, 0xe8, 0x00, 0x00, 0x00, 0x00, 0x50, 0x02, 0xff, 0xff, 0x00, 0x00, 0x00, 0x00]
/-- `1e 00 00 00` + IPv4 SYN 1234 → 80 -/
def wNull4 : Bytes := [0x1e, 0x00, 0x00, 0x00, 0x45, 0x00, 0x00, 0x28, 0x12, 0x34, 0x40, 0x00, 0x40, 0x06, 0x00, 0x00, 0x0a, 0x00, 0x00, 0x01, 0x0a, 0x00, 0x00, 0x02, 0x04, 0xd2, 0x00, 0x50, 0x00, 0x00, 0x03, 0xe8, 0x00, 0x00, 0x00, 0x00, 0x50, 0x02, 0xff, 0xff, 0x00, 0x00, 0x00, 0x00]
/-- `1e 00 00 00` + IPv6 SYN 50000 → 80 -/
def wNull6 : Bytes := [0x1e, 0x00, 0x00, 0x00, 0x60, 0x00, 0x00, 0x00, 0x00, 0x14, 0x06, 0x40, 0x20, 0x01, 0x0d, 0xb8, 0x00, 0x00, 0x00, 0x00, 0x00, 0x00, 0x00, 0x00, 0x00, 0x00, 0x00, 0x01, 0x20, 0x01, 0x0d, 0xb8, 0x00, 0x00, 0x00, 0x00, 0x00, 0x00, 0x00, 0x00, 0x00, 0x00, 0x00, 0x02, 0xc3, 0x50, 0x00, 0x50, 0x00, 0x00, 0x03, 0xe8, 0x00, 0x00, 0x00, 0x00, 0x50, 0x02, 0xff, 0xff, 0x00, 0x00, 0x00, 0x00]
def allowDst80 : Config := { port := some { dstPorts := [80] } }
def denyDst80 : Config := { port := some { dstPorts := [80] }, mode := .deny }
end Huginn.Props.C15

/-! ### witness frames for C18 (the corpus of harness/src/c18.rs) -/
namespace Huginn.Props.C18
open Huginn.Wire
def wRaw8a : Bytes := [0x45, 0x00, 0x00, 0x28, 0x12, 0x34, 0x40, 0x00, 0x40, 0x06, 0x00, 0x00, 0x08, 0x00, 0x01, 0x01, 0x0a, 0x00, 0x00, 0x02, 0xc3, 0x50, 0x00, 0x50, 0x00, 0x00, 0x03, 0xe8, 0x00, 0x00, 0x00, 0x00, 0x50, 0x02, 0xff, 0xff, 0x00, 0x00, 0x00, 0x00]
def wRaw8b : Bytes := [0x45, 0x00, 0x00, 0x2d, 0x12, 0x34, 0x40, 0x00, 0x40, 0x06, 0x00, 0x00, 0x08, 0x00, 0x01, 0x01, 0x0a, 0x00, 0x00, 0x02, 0xc3, 0x50, 0x00, 0x50, 0x00, 0x00, 0x07, 0xd0, 0x00, 0x00, 0x00, 0x00, 0x50, 0x18, 0xff, 0xff, 0x00, 0x00, 0x00, 0x00, 0x68, 0x65, 0x6c, 0x6c, 0x6f]
def wRaw134a : Bytes := [0x45, 0x00, 0x00, 0x28, 0x12, 0x34, 0x40, 0x00, 0x40, 0x06, 0x00, 0x00, 0x86, 0xdd, 0x01, 0x01, 0x0a, 0x00, 0x00, 0x02, 0xc3, 0x50, 0x00, 0x50, 0x00, 0x00, 0x03, 0xe8, 0x00, 0x00, 0x00, 0x00, 0x50, 0x02, 0xff, 0xff, 0x00, 0x00, 0x00, 0x00]
def wRaw134b : Bytes := [0x45, 0x00, 0x00, 0x28, 0x12, 0x34, 0x40, 0x00, 0x40, 0x06, 0x00, 0x00, 0x86, 0xdd, 0x01, 0x01, 0x0a, 0x00, 0x00, 0x02, 0xc3, 0x50, 0x00, 0x50, 0x00, 0x00, 0x03, 0xe8, 0x00, 0x00, 0x00, 0x00, 0x50, 0x02, 0x03, 0xe8, 0x00, 0x00, 0x00, 0x00]
def wRaw9a : Bytes := [0x45, 0x00, 0x00, 0x28, 0x12, 0x34, 0x40, 0x00, 0x40, 0x06, 0x00, 0x00, 0x09, 0x00, 0x01, 0x01, 0x0a, 0x00, 0x00, 0x02, 0xc3, 0x50, 0x00, 0x50, 0x00, 0x00, 0x03, 0xe8, 0x00, 0x00, 0x00, 0x00, 0x50, 0x02, 0xff, 0xff, 0x00, 0x00, 0x00, 0x00]
def wRaw9b : Bytes := [0x45, 0x00, 0x00, 0x2d, 0x12, 0x34, 0x40, 0x00, 0x40, 0x06, 0x00, 0x00, 0x09, 0x00, 0x01, 0x01, 0x0a, 0x00, 0x00, 0x02, 0xc3, 0x50, 0x00, 0x50, 0x00, 0x00, 0x07, 0xd0, 0x00, 0x00, 0x00, 0x00, 0x50, 0x18, 0xff, 0xff, 0x00, 0x00, 0x00, 0x00, 0x68, 0x65, 0x6c, 0x6c, 0x6f]
def wNull4a : Bytes := [0x1e, 0x00, 0x00, 0x00, 0x45, 0x00, 0x00, 0x28, 0x12, 0x34, 0x40, 0x00, 0x40, 0x06, 0x00, 0x00, 0x0a, 0x00, 0x00, 0x01, 0x0a, 0x00, 0x00, 0x02, 0xc3, 0x50, 0x00, 0x50, 0x00, 0x00, 0x03, 0xe8, 0x00, 0x00, 0x00, 0x00, 0x50, 0x02, 0xff, 0xff, 0x00, 0x00, 0x00, 0x00]
def wNull4b : Bytes := [0x1e, 0x00, 0x00, 0x00, 0x45, 0x00, 0x00, 0x2d, 0x12, 0x34, 0x40, 0x00, 0x40, 0x06, 0x00, 0x00, 0x0a, 0x00, 0x00, 0x01, 0x0a, 0x00, 0x00, 0x02, 0xc3, 0x50, 0x00, 0x50, 0x00, 0x00, 0x07, 0xd0, 0x00, 0x00, 0x00, 0x00, 0x50, 0x18, 0xff, 0xff, 0x00, 0x00, 0x00, 0x00, 0x68, 0x65, 0x6c, 0x6c, 0x6f]
def wIhl0a : Bytes := [0x02, 0x00, 0x00, 0x00, 0x00, 0x01, 0x02, 0x00, 0x00, 0x00, 0x00, 0x02, 0x08, 0x00, 0x40, 0x00, 0x00, 0x28, 0x12, 0x34, 0x40, 0x00, 0x40, 0x06, 0x00, 0x00, 0x0a, 0x00, 0x00, 0x01, 0x0a, 0x00, 0x00, 0x02, 0xc3, 0x50, 0x00, 0x50, 0x00, 0x00, 0x03, 0xe8, 0x00, 0x00, 0x00, 0x00, 0x50, 0x02, 0xff, 0xff, 0x00, 0x00, 0x00, 0x00]
def wIhl0b : Bytes := [0x02, 0x00, 0x00, 0x00, 0x00, 0x01, 0x02, 0x00, 0x00, 0x00, 0x00, 0x02, 0x08, 0x00, 0x40, 0x00, 0x00, 0x2d, 0x12, 0x34, 0x40, 0x00, 0x40, 0x06, 0x00, 0x00, 0x0a, 0x00, 0x00, 0x01, 0x0a, 0x00, 0x00, 0x02, 0xc3, 0x50, 0x00, 0x50, 0x00, 0x00, 0x07, 0xd0, 0x00, 0x00, 0x00, 0x00, 0x50, 0x18, 0xff, 0xff, 0x00, 0x00, 0x00, 0x00, 0x68, 0x65, 0x6c, 0x6c, 0x6f]
def wNib5a : Bytes := [0x02, 0x00, 0x00, 0x00, 0x00, 0x01, 0x02, 0x00, 0x00, 0x00, 0x00, 0x02, 0x08, 0x00, 0x55, 0x00, 0x00, 0x28, 0x12, 0x34, 0x40, 0x00, 0x40, 0x06, 0x00, 0x00, 0x0a, 0x00, 0x00, 0x01, 0x0a, 0x00, 0x00, 0x02, 0xc3, 0x50, 0x00, 0x50, 0x00, 0x00, 0x03, 0xe8, 0x00, 0x00, 0x00, 0x00, 0x50, 0x02, 0xff, 0xff, 0x00, 0x00, 0x00, 0x00]
def wNib5b : Bytes := [0x02, 0x00, 0x00, 0x00, 0x00, 0x01, 0x02, 0x00, 0x00, 0x00, 0x00, 0x02, 0x08, 0x00, 0x55, 0x00, 0x00, 0x2d, 0x12, 0x34, 0x40, 0x00, 0x40, 0x06, 0x00, 0x00, 0x0a, 0x00, 0x00, 0x01, 0x0a, 0x00, 0x00, 0x02, 0xc3, 0x50, 0x00, 0x50, 0x00, 0x00, 0x07, 0xd0, 0x00, 0x00, 0x00, 0x00, 0x50, 0x18, 0xff, 0xff, 0x00, 0x00, 0x00, 0x00, 0x68, 0x65, 0x6c, 0x6c, 0x6f]
def wOkA : Bytes := [0x02, 0x00, 0x00, 0x00, 0x00, 0x01, 0x02, 0x00, 0x00, 0x00, 0x00, 0x02, 0x08, 0x00, 0x45, 0x00, 0x00, 0x28, 0x12, 0x34, 0x40, 0x00, 0x40, 0x06, 0x00, 0x00, 0x0a, 0x00, 0x00, 0x01, 0x0a, 0x00, 0x00, 0x02, 0xc3, 0x50, 0x00, 0x50, 0x00, 0x00, 0x03, 0xe8, 0x00, 0x00, 0x00, 0x00, 0x50, 0x02, 0xff, 0xff, 0x00, 0x00, 0x00, 0x00]
def wOkB : Bytes := [0x02, 0x00, 0x00, 0x00, 0x00, 0x01, 0x02, 0x00, 0x00, 0x00, 0x00, 0x02, 0x08, 0x00, 0x45, 0x00, 0x00, 0x2d, 0x12, 0x34, 0x40, 0x00, 0x40, 0x06, 0x00, 0x00, 0x0a, 0x00, 0x00, 0x01, 0x0a, 0x00, 0x00, 0x02, 0xc3, 0x50, 0x00, 0x50, 0x00, 0x00, 0x07, 0xd0, 0x00, 0x00, 0x00, 0x00, 0x50, 0x18, 0xff, 0xff, 0x00, 0x00, 0x00, 0x00, 0x68, 0x65, 0x6c, 0x6c, 0x6f]
def wOkRev : Bytes := [0x02, 0x00, 0x00, 0x00, 0x00, 0x01, 0x02, 0x00, 0x00, 0x00, 0x00, 0x02, 0x08, 0x00, 0x45, 0x00, 0x00, 0x28, 0x12, 0x34, 0x40, 0x00, 0x40, 0x06, 0x00, 0x00, 0x0a, 0x00, 0x00, 0x02, 0x0a, 0x00, 0x00, 0x01, 0x00, 0x50, 0xc3, 0x50, 0x00, 0x00, 0x03, 0xe8, 0x00, 0x00, 0x00, 0x00, 0x50, 0x02, 0xff, 0xff, 0x00, 0x00, 0x00, 0x00]
/-- the reverse direction of `wNull4a` (SYN-ACK 10.0.0.2:80 → 10.0.0.1:50000), loopback framing -/
def wNull4Rev : Bytes := [0x1e, 0x00, 0x00, 0x00, 0x45, 0x00, 0x00, 0x28, 0x12, 0x34, 0x40, 0x00, 0x40, 0x06, 0x00, 0x00, 0x0a, 0x00, 0x00, 0x02, 0x0a, 0x00, 0x00, 0x01, 0x00, 0x50, 0xc3, 0x50, 0x00, 0x00, 0x03, 0xe8, 0x00, 0x00, 0x00, 0x00, 0x50, 0x12, 0xff, 0xff, 0x00, 0x00, 0x00, 0x00]
/-- the reverse direction of `wRaw134a` (raw IPv4, SYN-ACK to 134.221.1.1) -/
def wRaw134Rev : Bytes := [0x45, 0x00, 0x00, 0x28, 0x12, 0x34, 0x40, 0x00, 0x40, 0x06, 0x00, 0x00, 0x0a, 0x00, 0x00, 0x02, 0x86, 0xdd, 0x01, 0x01, 0x00, 0x50, 0xc3, 0x50, 0x00, 0x00, 0x03, 0xe8, 0x00, 0x00, 0x00, 0x00, 0x50, 0x12, 0xff, 0xff, 0x00, 0x00, 0x00, 0x00]
/-- `1e 00 00 00` + IPv6, two data segments of [2001:db8::1]:50000 → [2001:db8::2]:443 -/
def wNull6a : Bytes := [0x1e, 0x00, 0x00, 0x00, 0x60, 0x00, 0x00, 0x00, 0x00, 0x15, 0x06, 0x40, 0x20, 0x01, 0x0d, 0xb8, 0x00, 0x00, 0x00, 0x00, 0x00, 0x00, 0x00, 0x00, 0x00, 0x00, 0x00, 0x01, 0x20, 0x01, 0x0d, 0xb8, 0x00, 0x00, 0x00, 0x00, 0x00, 0x00, 0x00, 0x00, 0x00, 0x00, 0x00, 0x02, 0xc3, 0x50, 0x01, 0xbb, 0x00, 0x00, 0x03, 0xe8, 0x00, 0x00, 0x00, 0x00, 0x50, 0x18, 0xff, 0xff, 0x00, 0x00, 0x00, 0x00, 0x16]
def wNull6b : Bytes := [0x1e, 0x00, 0x00, 0x00, 0x60, 0x00, 0x00, 0x00, 0x00, 0x17, 0x06, 0x40, 0x20, 0x01, 0x0d, 0xb8, 0x00, 0x00, 0x00, 0x00, 0x00, 0x00, 0x00, 0x00, 0x00, 0x00, 0x00, 0x01, 0x20, 0x01, 0x0d, 0xb8, 0x00, 0x00, 0x00, 0x00, 0x00, 0x00, 0x00, 0x00, 0x00, 0x00, 0x00, 0x02, 0xc3, 0x50, 0x01, 0xbb, 0x00, 0x00, 0x07, 0xd0, 0x00, 0x00, 0x00, 0x00, 0x50, 0x18, 0xff, 0xff, 0x00, 0x00, 0x00, 0x00, 0x16, 0x03, 0x01]
/-- a simple hash function for the witnesses: weighted byte sums -/
def bsum (b : Bytes) : Nat := b.foldl (fun a x => a + x.toNat) 0
def sumH : HashIn → Nat
  | .bytes b => bsum b
  | .flow a b p q => bsum a + 3 * bsum b + 5 * p + 7 * q
end Huginn.Props.C18
