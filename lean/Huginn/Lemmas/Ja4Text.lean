import Huginn.Spec.Ja4
/-
Text, sorting, GREASE and truncation lemmas for C04: the code's way of producing each JA4 component
(model) equals the specification's way.
-/
namespace Huginn.Lemmas.Ja4Text
open Huginn.Tls Huginn.Tls.Spec Huginn.Gen.Tls

/-! ### digits -/

theorem digitChar_eq_hexChar : ∀ d, d < 16 → Nat.digitChar d = hexChar d := by decide

theorem hexW_eq_hex4 (n : Nat) : hexW hexWidth n = hex4 n := by
  have hw : hexWidth = 4 := rfl
  have h3 := digitChar_eq_hexChar (n / 4096 % 16) (Nat.mod_lt _ (by decide))
  have h2 := digitChar_eq_hexChar (n / 256 % 16) (Nat.mod_lt _ (by decide))
  have h1 := digitChar_eq_hexChar (n / 16 % 16) (Nat.mod_lt _ (by decide))
  have h0 := digitChar_eq_hexChar (n % 16) (Nat.mod_lt _ (by decide))
  rw [hw]
  show [Nat.digitChar (n / 16 ^ 3 % 16), Nat.digitChar (n / 16 ^ 2 % 16), Nat.digitChar (n / 16 ^ 1 % 16),
    Nat.digitChar (n / 16 ^ 0 % 16)] = hex4 n
  have e3 : (16 : Nat) ^ 3 = 4096 := by decide
  have e2 : (16 : Nat) ^ 2 = 256 := by decide
  have e1 : (16 : Nat) ^ 1 = 16 := by decide
  have e0 : (16 : Nat) ^ 0 = 1 := by decide
  rw [e3, e2, e1, e0, Nat.div_one, h3, h2, h1, h0]
  rfl

theorem decW_eq_dec2 (n : Nat) : decW countWidth n = dec2 n := by
  have hw : countWidth = 2 := rfl
  have h1 := digitChar_eq_hexChar (n / 10 % 10) (by have := Nat.mod_lt (n / 10) (show 0 < 10 by decide); omega)
  have h0 := digitChar_eq_hexChar (n % 10) (by have := Nat.mod_lt n (show 0 < 10 by decide); omega)
  rw [hw]
  show [Nat.digitChar (n / 10 ^ 1 % 10), Nat.digitChar (n / 10 ^ 0 % 10)] = dec2 n
  have e1 : (10 : Nat) ^ 1 = 10 := by decide
  have e0 : (10 : Nat) ^ 0 = 1 := by decide
  rw [e1, e0, Nat.div_one, h1, h0]
  rfl

/-! ### comma-separated lists -/

theorem joinWith_map {α} (f : α → Str) (sep : Str) (x : α) (r : List α) :
    joinWith sep ((x :: r).map f) = f x ++ r.flatMap (fun y => sep ++ f y) := by
  induction r generalizing x with
  | nil => simp [joinWith]
  | cons y t ih =>
    simp only [List.map_cons, joinWith, List.flatMap_cons, List.append_assoc]
    have := ih y
    simp only [List.map_cons] at this
    rw [this]

theorem hexList_eq_commaHex (l : List Nat) : hexList l = commaHex l := by
  cases l with
  | nil => rfl
  | cons x r =>
    unfold hexList
    rw [joinWith_map]
    simp only [commaHex, hexW_eq_hex4, List.singleton_append]

theorem hex4_ne_nil (n : Nat) : hex4 n ≠ [] := by simp [hex4]

theorem commaHex_isEmpty (l : List Nat) : (commaHex l).isEmpty = l.isEmpty := by
  cases l with
  | nil => rfl
  | cons x r => simp [commaHex, hex4]

/-! ### sorting -/

theorem insertAsc_perm (x : Nat) (l : List Nat) : (insertAsc x l).Perm (x :: l) := by
  induction l with
  | nil => exact List.Perm.refl _
  | cons y t ih =>
    unfold insertAsc
    split
    · exact List.Perm.refl _
    · exact (List.Perm.cons y ih).trans (List.Perm.swap x y t)

theorem sortAsc_perm (l : List Nat) : (sortAsc l).Perm l := by
  induction l with
  | nil => exact List.Perm.refl _
  | cons x t ih =>
    show (insertAsc x (sortAsc t)).Perm (x :: t)
    exact (insertAsc_perm x _).trans (List.Perm.cons x ih)

abbrev Le (a b : Nat) : Prop := decide (a ≤ b) = true

theorem insertAsc_sorted (x : Nat) (l : List Nat) (h : l.Pairwise Le) : (insertAsc x l).Pairwise Le := by
  induction l with
  | nil => simp [insertAsc]
  | cons y t ih =>
    unfold insertAsc
    have hy := List.pairwise_cons.mp h
    split
    · rename_i hxy
      refine List.pairwise_cons.mpr ⟨?_, h⟩
      intro z hz
      rcases List.mem_cons.mp hz with rfl | hz
      · simpa [Le] using hxy
      · have := hy.1 z hz
        simp only [Le, decide_eq_true_eq] at this ⊢
        omega
    · rename_i hxy
      refine List.pairwise_cons.mpr ⟨?_, ih hy.2⟩
      intro z hz
      have hz' := (insertAsc_perm x t).subset hz
      rcases List.mem_cons.mp hz' with rfl | hz'
      · simp only [Le, decide_eq_true_eq]; omega
      · exact hy.1 z hz'

theorem sortAsc_sorted (l : List Nat) : (sortAsc l).Pairwise Le := by
  induction l with
  | nil => simp [sortAsc]
  | cons x t ih => exact insertAsc_sorted x _ ih

theorem sortNat_sorted (l : List Nat) : (sortNat l).Pairwise Le :=
  List.pairwise_mergeSort (le := fun a b => decide (a ≤ b))
    (by intro a b c h1 h2; simp only [decide_eq_true_eq] at *; omega)
    (by intro a b; simp only [Bool.or_eq_true, decide_eq_true_eq]; omega) l

theorem sorted_perm_eq {l₁ l₂ : List Nat} (h1 : l₁.Pairwise Le) (h2 : l₂.Pairwise Le) (hp : l₁.Perm l₂) :
    l₁ = l₂ :=
  List.Perm.eq_of_pairwise (le := Le)
    (by intro a b _ _ hab hba; simp only [Le, decide_eq_true_eq] at hab hba; omega) h1 h2 hp

/-- the code's sort and the specification's sort agree -/
theorem sortNat_eq_sortAsc (l : List Nat) : sortNat l = sortAsc l :=
  sorted_perm_eq (sortNat_sorted l) (sortAsc_sorted l)
    ((List.mergeSort_perm l _).trans (sortAsc_perm l).symm)

/-- the sorted list depends on the multiset only -/
theorem sortNat_perm {l l' : List Nat} (h : l.Perm l') : sortNat l = sortNat l' :=
  sorted_perm_eq (sortNat_sorted l) (sortNat_sorted l')
    ((List.mergeSort_perm l _).trans (h.trans (List.mergeSort_perm l' _).symm))

/-! ### GREASE: the code's table (regenerated) is exactly RFC 8701's set -/

theorem grease_table_sound : ∀ v ∈ greaseValues, IsGrease v := by decide

theorem grease_table_complete : ∀ b, b < 256 → b % 16 = 10 → greaseValues.contains (257 * b) = true := by
  decide +kernel

theorem isGrease_iff (v : Nat) : isGrease v = true ↔ IsGrease v := by
  unfold isGrease
  constructor
  · intro h
    exact grease_table_sound v (by simpa using h)
  · rintro ⟨h1, h2, h3⟩
    have hb : v % 256 < 256 := Nat.mod_lt _ (by decide)
    have : v = 257 * (v % 256) := by omega
    rw [this]
    exact grease_table_complete (v % 256) hb (by omega)

theorem isGrease_eq (v : Nat) : isGrease v = decide (IsGrease v) := by
  cases h : isGrease v with
  | true => exact (decide_eq_true ((isGrease_iff v).mp h)).symm
  | false =>
    have : ¬ IsGrease v := fun hg => by rw [(isGrease_iff v).mpr hg] at h; cases h
    exact (decide_eq_false this).symm

theorem filterGrease_eq_noGrease (l : List Nat) : filterGrease l = noGrease l := by
  unfold filterGrease noGrease
  congr 1
  funext v
  rw [isGrease_eq]

/-- every GREASE value satisfies tls-parser's mask test -/
theorem greaseLike_of_isGrease (v : Nat) (h : IsGrease v) : greaseLike v = true := by
  obtain ⟨h1, h2, h3⟩ := h
  simp only [greaseLike, Bool.and_eq_true, beq_iff_eq]
  omega

/-! ### truncated digest -/

theorem take_flatMap_pair {α β} (f : α → List β) (hf : ∀ x, (f x).length = 2) :
    ∀ (n : Nat) (l : List α), (l.flatMap f).take (2 * n) = (l.take n).flatMap f := by
  intro n
  induction n with
  | zero => intro l; simp
  | succ k ih =>
    intro l
    cases l with
    | nil => simp
    | cons x t =>
      have : 2 * (k + 1) = (f x).length + 2 * k := by rw [hf]; omega
      rw [List.flatMap_cons, this, List.take_append, List.take_succ_cons, List.flatMap_cons, ← ih t]
      have e1 : List.take ((f x).length + 2 * k) (f x) = f x := List.take_of_length_le (by omega)
      have e2 : (f x).length + 2 * k - (f x).length = 2 * k := by omega
      rw [e1, e2]

theorem hash12_eq_trunc12 (sha : Bytes → Bytes) (s : Str) : hash12 sha s = trunc12 sha s := by
  unfold hash12 trunc12 hexOfBytes strBytes
  have h12 : hashLen = 2 * 6 := rfl
  rw [h12, take_flatMap_pair _ (by intro x; rfl)]
  congr 1
  funext x
  rw [digitChar_eq_hexChar _ (by have := x.toNat_lt; omega),
      digitChar_eq_hexChar _ (Nat.mod_lt _ (by decide))]

/-! ### the raw strings determine the lists (so "original order follows the bytes" is not vacuous) -/

theorem hexChar_inj : ∀ a, a < 16 → ∀ b, b < 16 → hexChar a = hexChar b → a = b := by decide

theorem hex4_inj (m n : Nat) (hm : m < 65536) (hn : n < 65536) (h : hex4 m = hex4 n) : m = n := by
  simp only [hex4, List.cons.injEq, and_true] at h
  obtain ⟨h3, h2, h1, h0⟩ := h
  have e3 := hexChar_inj _ (Nat.mod_lt _ (by decide)) _ (Nat.mod_lt _ (by decide)) h3
  have e2 := hexChar_inj _ (Nat.mod_lt _ (by decide)) _ (Nat.mod_lt _ (by decide)) h2
  have e1 := hexChar_inj _ (Nat.mod_lt _ (by decide)) _ (Nat.mod_lt _ (by decide)) h1
  have e0 := hexChar_inj _ (Nat.mod_lt _ (by decide)) _ (Nat.mod_lt _ (by decide)) h0
  omega

theorem length_hex4 (n : Nat) : (hex4 n).length = 4 := rfl

theorem commaTail_inj : ∀ (r r' : List Nat), fits 65536 r → fits 65536 r' →
    r.flatMap (fun y => ',' :: hex4 y) = r'.flatMap (fun y => ',' :: hex4 y) → r = r' := by
  intro r
  induction r with
  | nil =>
    intro r' _ _ h
    cases r' with
    | nil => rfl
    | cons y t => simp [hex4] at h
  | cons x t ih =>
    intro r' hr hr' h
    cases r' with
    | nil => simp [hex4] at h
    | cons y t' =>
      simp only [List.flatMap_cons, List.cons_append, List.cons.injEq, true_and] at h
      have hx : x < 65536 := hr x (by simp)
      have hy : y < 65536 := hr' y (by simp)
      obtain ⟨h1, h2⟩ := List.append_inj h (by simp [length_hex4])
      have := hex4_inj x y hx hy h1
      subst this
      rw [ih t' (fun z hz => hr z (by simp [hz])) (fun z hz => hr' z (by simp [hz])) h2]

/-- two lists of 16-bit values with the same comma-separated rendering are the same list, in the same order -/
theorem commaHex_inj (l l' : List Nat) (hl : fits 65536 l) (hl' : fits 65536 l') (h : commaHex l = commaHex l') :
    l = l' := by
  cases l with
  | nil =>
    cases l' with
    | nil => rfl
    | cons y t => simp [commaHex, hex4] at h
  | cons x t =>
    cases l' with
    | nil => simp [commaHex, hex4] at h
    | cons y t' =>
      simp only [commaHex] at h
      obtain ⟨h1, h2⟩ := List.append_inj h (by simp [length_hex4])
      have := hex4_inj x y (hl x (by simp)) (hl' y (by simp)) h1
      subst this
      rw [commaTail_inj t t' (fun z hz => hl z (by simp [hz])) (fun z hz => hl' z (by simp [hz])) h2]

end Huginn.Lemmas.Ja4Text
