import Huginn.Lemmas.Http1Parse
/-
Helper lemmas for C05: request line and status line of a well-formed head.
-/
namespace Huginn.Http1
open Huginn.Http1.Spec Huginn.Gen
set_option linter.unusedSimpArgs false

theorem method_facts : ∀ m ∈ supportedMethods.map ascii,
    m.all isVchar = true ∧ m ≠ [] ∧ 3 ≤ m.length ∧ isValidMethod m = true ∧
    m.take 3 ≠ HttpLists.h2Preface.take 3 := by decide +kernel

theorem verText_facts : ∀ v, (v = Ver.v10 ∨ v = Ver.v11) →
    (verText v).all isVchar = true ∧ verText v ≠ [] ∧ parseVersion (verText v) = some v ∧
    isHttp1VersionTok (verText v) = true ∧ (verText v).length = 8 ∧ SP ∉ verText v := by
  intro v h; rcases h with rfl | rfl <;> decide +kernel

theorem vchars_lineOk {l : Bytes} (h : l.all (fun b => isVchar b || b == SP) = true) (hne : l ≠ []) : LineOk l := by
  refine ⟨hne, ?_, ?_⟩
  · intro hm
    have := List.all_eq_true.mp h _ hm
    simp [CR, SP] at this
    exact absurd this (by decide)
  · intro hm
    have := List.all_eq_true.mp h _ hm
    simp [LF, SP] at this
    exact absurd this (by decide)

theorem requestLine_chars (h : ReqHead) (wf : WFReq h) :
    (requestLine h).all (fun b => isVchar b || b == SP) = true := by
  obtain ⟨hm, _, ht, hv, _⟩ := wf
  have m1 := (method_facts _ hm).1
  have v1 := (verText_facts _ hv).1
  unfold requestLine
  simp only [List.all_append, Bool.and_eq_true]
  refine ⟨⟨⟨⟨?_, by decide⟩, ?_⟩, by decide⟩, ?_⟩
  · rw [List.all_eq_true] at m1 ⊢; intro b hb; simp [m1 b hb]
  · rw [List.all_eq_true] at ht ⊢; intro b hb; simp [ht b hb]
  · rw [List.all_eq_true] at v1 ⊢; intro b hb; simp [v1 b hb]

theorem requestLine_ok (h : ReqHead) (wf : WFReq h) : LineOk (requestLine h) :=
  vchars_lineOk (requestLine_chars h wf) (by unfold requestLine; simp)

theorem requestLine_utf8 (h : ReqHead) (wf : WFReq h) : utf8Valid (requestLine h) = true := by
  apply ascii_utf8
  have := requestLine_chars h wf
  rw [List.all_eq_true] at this ⊢
  intro b hb
  have := this b hb
  simp only [Bool.or_eq_true, beq_iff_eq] at this ⊢
  rcases this with h1 | h1
  · left; exact h1
  · right; subst h1; decide

theorem splitWs_requestLine (h : ReqHead) (wf : WFReq h) :
    splitWs (requestLine h) = [h.method, h.target, verText h.ver] := by
  obtain ⟨hm, ht0, ht, hv, _⟩ := wf
  obtain ⟨m1, m2, _⟩ := method_facts _ hm
  obtain ⟨v1, v2, _⟩ := verText_facts _ hv
  exact splitWs_three _ _ _ m1 ht v1 m2 ht0 v2

theorem parseRequestLine_ok (h : ReqHead) (wf : WFReq h) :
    parseRequestLine (requestLine h) = .ok (h.method, h.target, h.ver) := by
  have hs := splitWs_requestLine h wf
  obtain ⟨hm, _, _, hv, hlen, _⟩ := wf
  obtain ⟨_, _, _, m4, _⟩ := method_facts _ hm
  obtain ⟨_, _, v3, _⟩ := verText_facts _ hv
  unfold parseRequestLine
  have : ¬ (requestLine h).length > HttpLists.maxRequestLineLength := by
    have := maxLine_le_request; omega
  rw [if_neg this, hs]
  simp only [v3, m4]
  rcases hv with e | e <;> simp [e]

/-! ### status line -/

theorem digits_facts (s : Bytes) (h : s.all isDigitB = true) :
    s.all isVchar = true ∧ s.all isDigit = true ∧ SP ∉ s ∧ (∀ b, s.head? = some b → b ≠ 43) := by
  refine ⟨?_, ?_, ?_, ?_⟩
  · rw [List.all_eq_true] at h ⊢; intro b hb
    have := digit_facts b; simp [h b hb] at this; exact this.1.1
  · rw [List.all_eq_true] at h ⊢; intro b hb
    have := digit_facts b; simp [h b hb] at this; exact this.1.2
  · intro hm
    have := List.all_eq_true.mp h _ hm
    exact absurd this (by decide)
  · intro b hb
    have := digit_facts b
    simp [List.all_eq_true.mp h b (List.mem_of_mem_head? hb)] at this
    exact this.2

theorem digitsVal_le : ∀ (s : Bytes) (acc : Nat), s.all isDigit = true →
    digitsVal s acc ≤ acc * 10 ^ s.length + (10 ^ s.length - 1)
  | [], acc, _ => by simp [digitsVal]
  | b :: s, acc, h => by
    simp at h
    have ih := digitsVal_le s (acc * 10 + (b.toNat - 48)) (by simpa using h.2)
    have hb : b.toNat - 48 ≤ 9 := by
      have := h.1; unfold isDigit at this; simp at this
      have h2 : b.toNat ≤ 57 := by have := this.2; rw [UInt8.le_iff_toNat_le] at this; simpa using this
      omega
    simp only [digitsVal, List.length_cons]
    have hp : 0 < 10 ^ s.length := Nat.pow_pos (by decide)
    calc digitsVal s (acc * 10 + (b.toNat - 48))
        ≤ (acc * 10 + (b.toNat - 48)) * 10 ^ s.length + (10 ^ s.length - 1) := ih
      _ ≤ (acc * 10 + 9) * 10 ^ s.length + (10 ^ s.length - 1) := by
          apply Nat.add_le_add_right; exact Nat.mul_le_mul_right _ (by omega)
      _ = acc * 10 ^ (s.length + 1) + (10 ^ (s.length + 1) - 1) := by
          rw [Nat.pow_succ]; rw [Nat.add_mul]
          have : 10 ^ s.length * 10 = 9 * 10 ^ s.length + 10 ^ s.length := by omega
          rw [Nat.mul_assoc, Nat.mul_comm 10 (10 ^ s.length)]
          omega

theorem parseUnsigned_digits (max : Nat) (s : Bytes) (h : s.all isDigitB = true) (hne : s ≠ [])
    (hmax : 10 ^ s.length - 1 ≤ max) : parseUnsigned max s = some (digitsVal s 0) := by
  obtain ⟨_, hd, _, hplus⟩ := digits_facts s h
  have hle := digitsVal_le s 0 hd
  have hv : digitsVal s 0 ≤ max := by omega
  match s, hne, hplus, hd, hv with
  | b :: r, _, hplus, hd, hv =>
    have hb : b ≠ 43 := hplus b rfl
    unfold parseUnsigned
    simp only [hb, if_false, List.isEmpty_cons, hd, Bool.not_true, Bool.or_false, Bool.false_eq_true, hv, if_true]

theorem statusLine_split (h : ResHead) (wf : WFRes h) :
    splitn3 SP (statusLine h) = [verText h.ver, h.status, h.reason] := by
  obtain ⟨hv, hl, hd, _⟩ := wf
  obtain ⟨_, _, _, _, _, vsp⟩ := verText_facts _ hv
  obtain ⟨_, _, ssp, _⟩ := digits_facts _ hd
  unfold splitn3 statusLine
  have e : verText h.ver ++ [SP] ++ h.status ++ [SP] ++ h.reason
      = verText h.ver ++ SP :: (h.status ++ SP :: h.reason) := by simp
  rw [e, splitFirst_line SP _ _ vsp]
  simp only []
  rw [splitFirst_line SP _ _ ssp]

theorem parseStatusLine_ok (h : ResHead) (wf : WFRes h) :
    parseStatusLine (statusLine h) = .ok (h.ver, statusValue h.status, h.reason) := by
  have hs := statusLine_split h wf
  obtain ⟨hv, hl, hd, _⟩ := wf
  obtain ⟨_, _, v3, _⟩ := verText_facts _ hv
  unfold parseStatusLine
  rw [hs]
  simp only [v3]
  have hne : h.status ≠ [] := by intro e; rw [e] at hl; simp at hl
  rw [parseUnsigned_digits 65535 h.status hd hne (by rw [hl]; decide)]
  rcases hv with e | e <;> simp [e, statusValue]

theorem statusLine_bytes (h : ResHead) (wf : WFRes h) : (statusLine h).all isFieldByte = true := by
  obtain ⟨hv, hl, hd, hr, _⟩ := wf
  obtain ⟨v1, _⟩ := verText_facts _ hv
  obtain ⟨d1, _⟩ := digits_facts _ hd
  unfold statusLine
  simp only [List.all_append, Bool.and_eq_true]
  refine ⟨⟨⟨⟨?_, by decide⟩, ?_⟩, by decide⟩, hr⟩
  · rw [List.all_eq_true] at v1 ⊢; intro b hb; unfold isFieldByte; simp [v1 b hb]
  · rw [List.all_eq_true] at d1 ⊢; intro b hb; unfold isFieldByte; simp [d1 b hb]

theorem statusLine_ok (h : ResHead) (wf : WFRes h) : LineOk (statusLine h) := by
  have hb := statusLine_bytes h wf
  refine ⟨by unfold statusLine; simp, ?_, ?_⟩
  · intro hm; exact (fieldByte_ne (List.all_eq_true.mp hb _ hm)).1 rfl
  · intro hm; exact (fieldByte_ne (List.all_eq_true.mp hb _ hm)).2 rfl

theorem statusLine_utf8 (h : ResHead) (wf : WFRes h) : utf8Valid (statusLine h) = true := by
  obtain ⟨hv, hl, hd, hr, hu, _⟩ := wf
  obtain ⟨v1, _⟩ := verText_facts _ hv
  obtain ⟨d1, _⟩ := digits_facts _ hd
  unfold statusLine
  have h1 : utf8Valid (verText h.ver ++ [SP] ++ h.status ++ [SP]) = true := by
    apply ascii_utf8
    simp only [List.all_append, Bool.and_eq_true]
    refine ⟨⟨⟨?_, by decide⟩, ?_⟩, by decide⟩
    · rw [List.all_eq_true] at v1 ⊢; intro b hb; simp [v1 b hb]
    · rw [List.all_eq_true] at d1 ⊢; intro b hb; simp [d1 b hb]
  rw [utf8Valid_append _ _ h1]
  exact utf8Valid_of_Utf8 hu

end Huginn.Http1
