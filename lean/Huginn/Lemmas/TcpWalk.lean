import Huginn.Spec.TcpSig
set_option linter.unusedSimpArgs false
/-! Helper lemmas for C03: the option walk against the option grammar. -/
namespace Huginn.Lemmas.TcpWalk
open Huginn.Sig Huginn.TcpExtract Huginn.TcpSig.Spec Huginn.Gen

/-! ### termination: the fuel `buf.length` always suffices -/

theorem optSize_pos (k : Nat) (tl : Bytes) : 1 ≤ optSize (k :: tl) := by
  simp only [optSize]
  split
  · omega
  · split
    · omega
    · split <;> omega

theorem walkAux_fuel (ty : Nat) : ∀ (n : Nat) (buf : Bytes) (st : WalkSt), buf.length ≤ n →
    walkAux ty n buf st = walkAux ty buf.length buf st := by
  intro n
  induction n using Nat.strongRecOn with
  | _ n ih =>
    intro buf st h
    match n, buf with
    | 0, [] => rfl
    | n + 1, [] => rfl
    | n + 1, k :: tl =>
      simp only [walkAux, List.length_cons]
      have hp := optSize_pos k tl
      have hlen : ((k :: tl).drop (min (optSize (k :: tl)) (tl.length + 1))).length ≤ tl.length := by
        simp only [List.length_drop, List.length_cons]; omega
      simp only [List.length_cons] at h
      rw [ih n (by omega) _ _ (by omega)]
      have h2 := ih tl.length (by omega)
        ((k :: tl).drop (min (optSize (k :: tl)) (tl.length + 1)))
        (walkStep ty k (optPayload (k :: tl)) ((k :: tl).drop (min (optSize (k :: tl)) (tl.length + 1))) st)
        hlen
      rw [h2]

theorem walkAux_eq_walk (ty n : Nat) (buf : Bytes) (st : WalkSt) (h : buf.length ≤ n) :
    walkAux ty n buf st = walk ty buf st := walkAux_fuel ty n buf st h

/-! ### `addNew`: push unless already there -/

theorem addNew_append (qs a b : List Quirk) : addNew qs (a ++ b) = addNew (addNew qs a) b := by
  induction a generalizing qs with
  | nil => rfl
  | cons q r ih => simp only [List.cons_append, addNew]; exact ih _

theorem addNew_mem (qs new : List Quirk) (q : Quirk) : q ∈ addNew qs new ↔ q ∈ qs ∨ q ∈ new := by
  induction new generalizing qs with
  | nil => simp [addNew]
  | cons x r ih =>
    simp only [addNew]
    rw [ih]
    by_cases hx : qs.contains x = true
    · simp only [hx, if_true, List.mem_cons]
      have : x ∈ qs := by simpa using hx
      constructor
      · rintro (h | h)
        · exact Or.inl h
        · exact Or.inr (Or.inr h)
      · rintro (h | h | h)
        · exact Or.inl h
        · subst h; exact Or.inl this
        · exact Or.inr h
    · simp only [hx, Bool.false_eq_true, if_false, List.mem_append, List.mem_cons, List.not_mem_nil, or_false]
      constructor
      · rintro ((h | h) | h)
        · exact Or.inl h
        · exact Or.inr (Or.inl h)
        · exact Or.inr (Or.inr h)
      · rintro (h | h | h)
        · exact Or.inl (Or.inl h)
        · exact Or.inl (Or.inr h)
        · exact Or.inr h

/-- what is pushed extends the list, by candidates only, and never creates a duplicate -/
theorem addNew_ext (qs new : List Quirk) :
    ∃ ext, addNew qs new = qs ++ ext ∧ (∀ q ∈ ext, q ∈ new) ∧ (qs.Nodup → (qs ++ ext).Nodup) := by
  induction new generalizing qs with
  | nil => exact ⟨[], by simp [addNew], by simp, by simp⟩
  | cons x r ih =>
    simp only [addNew]
    by_cases hx : qs.contains x = true
    · simp only [hx, if_true]
      obtain ⟨ext, h1, h2, h3⟩ := ih qs
      exact ⟨ext, h1, fun q hq => List.mem_cons_of_mem _ (h2 q hq), h3⟩
    · simp only [hx, Bool.false_eq_true, if_false]
      obtain ⟨ext, h1, h2, h3⟩ := ih (qs ++ [x])
      refine ⟨x :: ext, by rw [h1]; simp, ?_, ?_⟩
      · intro q hq
        simp only [List.mem_cons] at hq ⊢
        rcases hq with h | h
        · exact Or.inl h
        · exact Or.inr (h2 q h)
      · intro hnd
        have hxn : x ∉ qs := by simpa using hx
        have : (qs ++ [x]).Nodup := by
          rw [List.nodup_append]
          exact ⟨hnd, by simp, by intro a ha b hb hab; simp at hb; subst hb; subst hab; exact hxn ha⟩
        have := h3 this
        simpa using this

/-- nothing to guard against: fresh, duplicate-free candidates are simply appended -/
theorem addNew_eq_append (qs new : List Quirk) (hn : new.Nodup) (hd : ∀ q ∈ new, q ∉ qs) :
    addNew qs new = qs ++ new := by
  induction new generalizing qs with
  | nil => simp [addNew]
  | cons x r ih =>
    have hx : ¬ qs.contains x = true := by simpa using hd x (by simp)
    rw [List.nodup_cons] at hn
    simp only [addNew, hx, Bool.false_eq_true, if_false]
    rw [ih (qs ++ [x]) hn.2]
    · simp
    · intro q hq hmem
      simp only [List.mem_append, List.mem_singleton] at hmem
      rcases hmem with h | h
      · exact hd q (by simp [hq]) h
      · subst h; exact hn.1 hq

/-! ### what one grammar item does to the walk state -/

def itemKind : Item → Nat | .nop => 1 | .opt k _ => k
def itemData : Item → Bytes | .nop => [] | .opt _ d => d

/-- the loop body on a grammar item (for kinds other than EOL the body ignores the rest of the buffer) -/
def itemStep (ty : Nat) (i : Item) (st : WalkSt) : WalkSt := walkStep ty (itemKind i) (itemData i) [] st

theorem walkStep_rest (ty k : Nat) (d rest : Bytes) (st : WalkSt) (hk : k ≠ 0) :
    walkStep ty k d rest st = walkStep ty k d [] st := by
  match k, hk with
  | 1, _ => rfl
  | 2, _ => rfl
  | 3, _ => rfl
  | 4, _ => rfl
  | 5, _ => rfl
  | 6, _ => rfl
  | 7, _ => rfl
  | 8, _ => rfl
  | k + 9, _ => rfl

def foldItems (ty : Nat) (items : List Item) (st : WalkSt) : WalkSt :=
  items.foldl (fun s i => itemStep ty i s) st

/-- what the loop computes on a buffer the grammar accepts -/
def afterArea (ty : Nat) (items : List Item) (pad : Option Bytes) (st : WalkSt) : WalkSt :=
  match pad with
  | none => foldItems ty items st
  | some p => walk ty p (walkStep ty 0 [] p (foldItems ty items st))

/-- Lock-step of the loop and the grammar decoder. -/
theorem walk_parse (ty : Nat) : ∀ (n : Nat) (b : Bytes) (items : List Item) (pad : Option Bytes) (st : WalkSt),
    b.length ≤ n → parseItems n b = some (items, pad) →
    walkAux ty n b st = afterArea ty items pad st := by
  intro n
  induction n with
  | zero =>
    intro b items pad st hl hp
    have : b = [] := List.eq_nil_of_length_eq_zero (by omega)
    subst this
    simp only [parseItems, Option.some.injEq, Prod.mk.injEq] at hp
    obtain ⟨rfl, rfl⟩ := hp
    rfl
  | succ n ih =>
    intro b items pad st hl hp
    match b, hl, hp with
    | [], _, hp =>
      simp only [parseItems, Option.some.injEq, Prod.mk.injEq] at hp
      obtain ⟨rfl, rfl⟩ := hp
      rfl
    | 0 :: p, hl, hp =>
      simp only [parseItems, Option.some.injEq, Prod.mk.injEq] at hp
      obtain ⟨rfl, rfl⟩ := hp
      simp only [List.length_cons] at hl
      have h1 : min (optSize (0 :: p)) (p.length + 1) = 1 := by simp [optSize]
      simp only [walkAux, List.length_cons, h1, List.drop_succ_cons, List.drop_zero, afterArea, foldItems,
        List.foldl_nil]
      rw [walkAux_eq_walk ty n p _ (by omega)]
      simp [optPayload]
    | 1 :: r, hl, hp =>
      simp only [parseItems, Option.map_eq_some_iff] at hp
      obtain ⟨⟨is, pd⟩, hrec, heq⟩ := hp
      simp only [Prod.mk.injEq] at heq
      obtain ⟨rfl, rfl⟩ := heq
      simp only [List.length_cons] at hl
      have h1 : min (optSize (1 :: r)) (r.length + 1) = 1 := by simp [optSize]
      have hpay : optPayload (1 :: r) = [] := by simp [optPayload]
      simp only [walkAux, List.length_cons, h1, List.drop_succ_cons, List.drop_zero, hpay]
      rw [ih r is pd _ (by omega) hrec]
      have e : walkStep ty 1 [] r st = itemStep ty Item.nop st := by
        unfold itemStep itemKind itemData; exact walkStep_rest ty 1 [] r st (by omega)
      rw [e]
      cases pd <;> rfl
    | [k + 2], hl, hp => simp [parseItems] at hp
    | (k + 2) :: l :: r, hl, hp =>
      simp only [parseItems] at hp
      split at hp
      · rename_i hc
        obtain ⟨hl2, hlr, _⟩ := hc
        simp only [Option.map_eq_some_iff] at hp
        obtain ⟨⟨is, pd⟩, hrec, heq⟩ := hp
        simp only [Prod.mk.injEq] at heq
        obtain ⟨rfl, rfl⟩ := heq
        simp only [List.length_cons] at hl
        have hsz : optSize ((k + 2) :: l :: r) = l := by
          simp only [optSize]
          rw [if_neg (by omega), if_pos hl2]; omega
        have h1 : min (optSize ((k + 2) :: l :: r)) (r.length + 1 + 1) = (l - 2) + 2 := by rw [hsz]; omega
        have hpay : optPayload ((k + 2) :: l :: r) = r.take (l - 2) := by
          simp only [optPayload]
          rw [if_neg (by omega), if_pos hl2]
        simp only [walkAux, List.length_cons, h1, List.drop_succ_cons, hpay]
        rw [ih (r.drop (l - 2)) is pd _ (by simp only [List.length_drop]; omega) hrec]
        have e : walkStep ty (k + 2) (r.take (l - 2)) (r.drop (l - 2)) st
            = itemStep ty (Item.opt (k + 2) (r.take (l - 2))) st := by
          unfold itemStep itemKind itemData; exact walkStep_rest ty (k + 2) _ _ st (by omega)
        rw [e]
        cases pd <;> rfl
      · cases hp

theorem walk_parseArea (ty : Nat) (b : Bytes) (a : Area) (st : WalkSt) (h : parseArea b = some a) :
    walk ty b st = afterArea ty a.items a.pad st := by
  unfold parseArea at h
  simp only [Option.map_eq_some_iff] at h
  obtain ⟨⟨is, pd⟩, hp, rfl⟩ := h
  exact walk_parse ty b.length b is pd st (Nat.le_refl _) hp

/-! ### effect of a well-formed item, field by field -/

def itemQuirks (ty : Nat) (i : Item) : List Quirk :=
  (match i.wsVal with
   | some x => if 14 < x then [.excessiveWindowScaling] else []
   | none => []) ++
  (match i.tsVal with
   | some v => (if v.1 = 0 then [.ownTimestampZero] else []) ++
               (if ty = SYN ∧ v.2 ≠ 0 then [.peerTimestampNonZero] else [])
   | none => [])

def orKeep (n : Option Nat) (old : Option Nat) : Option Nat :=
  match n with | some v => some v | none => old

theorem itemStep_eq (ty : Nat) (i : Item) (st : WalkSt) (h : i.WF) :
    itemStep ty i st =
      { st with olayout := st.olayout ++ [i.tok],
                mss := orKeep i.mssVal st.mss,
                wscale := orKeep i.wsVal st.wscale,
                quirks := addNew st.quirks (itemQuirks ty i),
                tsCalls := st.tsCalls ++ (match i.tsVal with | some v => [v.1] | none => []) } := by
  cases i with
  | nop => simp [itemStep, itemKind, itemData, walkStep, stepQuirks, addNew, Item.tok, Item.mssVal, Item.wsVal, Item.tsVal, itemQuirks, orKeep]
  | opt k d =>
    obtain ⟨hk, hf⟩ := h
    match k, hk, d, hf with
    | 2, _, [x, y], _ =>
      simp [itemStep, itemKind, itemData, walkStep, stepQuirks, addNew, Item.tok, Item.mssVal, Item.wsVal, Item.tsVal, itemQuirks, orKeep, be16]
    | 3, _, [x], _ =>
      simp [itemStep, itemKind, itemData, walkStep, stepQuirks, addNew, Item.tok, Item.mssVal, Item.wsVal, Item.tsVal, itemQuirks, orKeep,
        TcpConst.maxWscale]
    | 4, _, [], _ =>
      simp [itemStep, itemKind, itemData, walkStep, stepQuirks, addNew, Item.tok, Item.mssVal, Item.wsVal, Item.tsVal, itemQuirks, orKeep]
    | 5, _, d, _ =>
      simp [itemStep, itemKind, itemData, walkStep, stepQuirks, addNew, Item.tok, Item.mssVal, Item.wsVal, Item.tsVal, itemQuirks, orKeep]
    | 6, _, d, _ =>
      simp [itemStep, itemKind, itemData, walkStep, stepQuirks, addNew, Item.tok, Item.mssVal, Item.wsVal, Item.tsVal, itemQuirks, orKeep]
    | 7, _, d, _ =>
      simp [itemStep, itemKind, itemData, walkStep, stepQuirks, addNew, Item.tok, Item.mssVal, Item.wsVal, Item.tsVal, itemQuirks, orKeep]
    | 8, _, [a, b, c, d, e, f, g, h], _ =>
      simp [itemStep, itemKind, itemData, walkStep, stepQuirks, addNew, Item.tok, Item.mssVal, Item.wsVal, Item.tsVal, itemQuirks, orKeep, be32]
    | k + 9, _, d, _ =>
      simp [itemStep, itemKind, itemData, walkStep, stepQuirks, addNew, Item.tok, Item.mssVal, Item.wsVal, Item.tsVal, itemQuirks, orKeep]

def consOpt {α : Type} (v : Option α) (rest : List α) : List α :=
  match v with | some x => x :: rest | none => rest

theorem orKeep_getLast_cons (v : Option Nat) (rest : List Nat) (old : Option Nat) :
    orKeep (consOpt v rest).getLast? old = orKeep rest.getLast? (orKeep v old) := by
  cases v with
  | none => rfl
  | some x =>
    cases rest with
    | nil => rfl
    | cons y ys =>
      have : ∃ z, (y :: ys).getLast? = some z := ⟨(y :: ys).getLast (by simp), List.getLast?_eq_some_getLast (by simp)⟩
      obtain ⟨z, hz⟩ := this
      simp only [consOpt, orKeep, List.getLast?_cons_cons, hz]

theorem filterMap_cons_consOpt {α β : Type} (f : α → Option β) (a : α) (l : List α) :
    (a :: l).filterMap f = consOpt (f a) (l.filterMap f) := by
  simp only [List.filterMap_cons, consOpt]; cases f a <;> rfl

theorem foldItems_eq (ty : Nat) : ∀ (items : List Item) (st : WalkSt), (∀ i ∈ items, i.WF) →
    foldItems ty items st =
      { st with olayout := st.olayout ++ items.map Item.tok,
                mss := orKeep (items.filterMap Item.mssVal).getLast? st.mss,
                wscale := orKeep (items.filterMap Item.wsVal).getLast? st.wscale,
                quirks := addNew st.quirks (items.flatMap (itemQuirks ty)),
                tsCalls := st.tsCalls ++ items.flatMap (fun i => match i.tsVal with | some v => [v.1] | none => []) } := by
  intro items
  induction items with
  | nil => intro st _; simp [foldItems, orKeep, addNew]
  | cons i is ih =>
    intro st h
    have hi : i.WF := h i (by simp)
    have his : ∀ j ∈ is, j.WF := fun j hj => h j (by simp [hj])
    have : foldItems ty (i :: is) st = foldItems ty is (itemStep ty i st) := rfl
    rw [this, ih _ his, itemStep_eq ty i st hi]
    simp only [List.map_cons, List.flatMap_cons, List.append_assoc, List.cons_append, List.nil_append,
      filterMap_cons_consOpt, orKeep_getLast_cons, addNew_append]

/-- every item the decoder produces is well formed -/
theorem parseItems_wf : ∀ (n : Nat) (b : Bytes) (items : List Item) (pad : Option Bytes),
    parseItems n b = some (items, pad) → ∀ i ∈ items, i.WF := by
  intro n
  induction n with
  | zero =>
    intro b items pad hp
    match b, hp with
    | [], hp => simp [parseItems] at hp; simp [hp.1]
    | 0 :: p, hp => simp [parseItems] at hp; simp [hp.1]
    | (k + 1) :: p, hp => simp [parseItems] at hp
  | succ n ih =>
    intro b items pad hp
    match b, hp with
    | [], hp => simp [parseItems] at hp; simp [hp.1]
    | 0 :: p, hp => simp [parseItems] at hp; simp [hp.1]
    | 1 :: r, hp =>
      simp only [parseItems, Option.map_eq_some_iff] at hp
      obtain ⟨⟨is, pd⟩, hrec, heq⟩ := hp
      simp only [Prod.mk.injEq] at heq
      obtain ⟨rfl, rfl⟩ := heq
      intro i hi
      simp only [List.mem_cons] at hi
      rcases hi with rfl | hi
      · trivial
      · exact ih r is pd hrec i hi
    | [k + 2], hp => simp [parseItems] at hp
    | (k + 2) :: l :: r, hp =>
      simp only [parseItems] at hp
      split at hp
      · rename_i hc
        simp only [Option.map_eq_some_iff] at hp
        obtain ⟨⟨is, pd⟩, hrec, heq⟩ := hp
        simp only [Prod.mk.injEq] at heq
        obtain ⟨rfl, rfl⟩ := heq
        intro i hi
        simp only [List.mem_cons] at hi
        rcases hi with rfl | hi
        · refine ⟨by omega, ?_⟩
          have : (r.take (l - 2)).length = l - 2 := by simp only [List.length_take]; omega
          rw [this]; exact hc.2.2
        · exact ih _ is pd hrec i hi
      · cases hp

/-! ### the decoder inverts the grammar -/

def padBytes (pad : Option Bytes) : Bytes := match pad with | none => [] | some p => 0 :: p

theorem parseItems_pad (n : Nat) (pad : Option Bytes) : parseItems n (padBytes pad) = some ([], pad) := by
  cases pad <;> cases n <;> simp [padBytes, parseItems]

theorem parseItems_encode : ∀ (items : List Item) (pad : Option Bytes) (n : Nat),
    (∀ i ∈ items, i.WF) → items.length ≤ n →
    parseItems n (items.flatMap Item.encode ++ padBytes pad) = some (items, pad) := by
  intro items
  induction items with
  | nil => intro pad n _ _; simpa using parseItems_pad n pad
  | cons i is ih =>
    intro pad n hwf hn
    have hi : i.WF := hwf i (by simp)
    have his : ∀ j ∈ is, j.WF := fun j hj => hwf j (by simp [hj])
    match n, hn with
    | n + 1, hn =>
      simp only [List.length_cons] at hn
      have hrec := ih pad n his (by omega)
      cases i with
      | nop =>
        simp only [List.flatMap_cons, Item.encode, List.cons_append, List.nil_append, parseItems, hrec]
        rfl
      | opt k d =>
        obtain ⟨hk, hf⟩ := hi
        obtain ⟨k', rfl⟩ : ∃ k', k = k' + 2 := ⟨k - 2, by omega⟩
        simp only [List.flatMap_cons, Item.encode, List.cons_append, parseItems]
        have h1 : 2 + d.length - 2 = d.length := by omega
        rw [if_pos ⟨by omega, by simp only [h1, List.append_assoc, List.length_append]; omega, by rw [h1]; exact hf⟩]
        simp only [h1, List.append_assoc, List.drop_left', List.take_left', hrec]
        rfl

theorem parseItems_sound : ∀ (n : Nat) (b : Bytes) (items : List Item) (pad : Option Bytes),
    parseItems n b = some (items, pad) → items.flatMap Item.encode ++ padBytes pad = b := by
  intro n
  induction n with
  | zero =>
    intro b items pad hp
    match b, hp with
    | [], hp => simp [parseItems] at hp; simp [hp.1, ← hp.2, padBytes]
    | 0 :: p, hp => simp [parseItems] at hp; simp [hp.1, ← hp.2, padBytes]
    | (k + 1) :: p, hp => simp [parseItems] at hp
  | succ n ih =>
    intro b items pad hp
    match b, hp with
    | [], hp => simp [parseItems] at hp; simp [hp.1, ← hp.2, padBytes]
    | 0 :: p, hp => simp [parseItems] at hp; simp [hp.1, ← hp.2, padBytes]
    | 1 :: r, hp =>
      simp only [parseItems, Option.map_eq_some_iff] at hp
      obtain ⟨⟨is, pd⟩, hrec, heq⟩ := hp
      simp only [Prod.mk.injEq] at heq
      obtain ⟨rfl, rfl⟩ := heq
      simp [Item.encode, ih r is pd hrec]
    | [k + 2], hp => simp [parseItems] at hp
    | (k + 2) :: l :: r, hp =>
      simp only [parseItems] at hp
      split at hp
      · rename_i hc
        simp only [Option.map_eq_some_iff] at hp
        obtain ⟨⟨is, pd⟩, hrec, heq⟩ := hp
        simp only [Prod.mk.injEq] at heq
        obtain ⟨rfl, rfl⟩ := heq
        have := ih _ is pd hrec
        have hlen : (r.take (l - 2)).length = l - 2 := by simp only [List.length_take]; omega
        simp only [List.flatMap_cons, Item.encode, hlen, List.cons_append, List.append_assoc, this,
          List.take_append_drop]
        congr 2
        omega
      · cases hp

/-! ### `options_malformed` decides the option grammar -/

/-- the size table of `options_malformed` (regenerated from the source) is the fixed-format table of the
grammar: the length byte is at least 2 and the payload has the size the option's format fixes -/
theorem optSizeOk_spec (k l : Nat) : optSizeOk k l = true ↔ (2 ≤ l ∧ fixedLenOk k (l - 2) = true) := by
  match k with
  | 0 | 1 | 6 | 7 => simp [optSizeOk, TcpConst.optionSizes, TcpConst.optionMinLen, fixedLenOk]
  | 2 => simp [optSizeOk, TcpConst.optionSizes, fixedLenOk]; omega
  | 3 => simp [optSizeOk, TcpConst.optionSizes, fixedLenOk]; omega
  | 4 => simp [optSizeOk, TcpConst.optionSizes, fixedLenOk]; omega
  | 5 => simp [optSizeOk, TcpConst.optionSizes, fixedLenOk]; omega
  | 8 => simp [optSizeOk, TcpConst.optionSizes, fixedLenOk]; omega
  | k + 9 => simp [optSizeOk, TcpConst.optionSizes, TcpConst.optionMinLen, fixedLenOk]

/-- Lock-step of `options_malformed` and the grammar decoder: it returns `true` exactly when the
decoder fails. -/
theorem optionsMalformedAux_iff : ∀ (n : Nat) (b : Bytes), b.length ≤ n →
    (optionsMalformedAux n b = true ↔ parseItems n b = none) := by
  intro n
  induction n with
  | zero =>
    intro b hl
    have : b = [] := List.eq_nil_of_length_eq_zero (by omega)
    subst this
    simp [optionsMalformedAux, parseItems]
  | succ n ih =>
    intro b hl
    match b, hl with
    | [], _ => simp [optionsMalformedAux, parseItems]
    | 0 :: p, _ => simp [optionsMalformedAux, parseItems]
    | 1 :: r, hl =>
      simp only [List.length_cons] at hl
      simp only [optionsMalformedAux, parseItems, Option.map_eq_none_iff]
      simpa using ih r (by omega)
    | [k + 2], _ => simp [optionsMalformedAux, parseItems]
    | (k + 2) :: l :: r, hl =>
      simp only [List.length_cons] at hl
      simp only [optionsMalformedAux, parseItems, List.length_cons, optSizeOk_spec]
      by_cases hc : 2 ≤ l ∧ l - 2 ≤ r.length ∧ fixedLenOk (k + 2) (l - 2) = true
      · obtain ⟨h2, hlr, hf⟩ := hc
        obtain ⟨l', rfl⟩ : ∃ l', l = l' + 2 := ⟨l - 2, by omega⟩
        have hdrop : ((k + 2) :: (l' + 2) :: r).drop (l' + 2) = r.drop (l' + 2 - 2) := by simp
        rw [if_neg (by omega), if_neg (by omega), if_pos ⟨⟨h2, hf⟩, by omega⟩, if_pos ⟨h2, hlr, hf⟩, hdrop,
          Option.map_eq_none_iff]
        exact ih _ (by simp only [List.length_drop]; omega)
      · rw [if_neg (by omega), if_neg (by omega), if_neg hc, if_neg (by intro h; exact hc ⟨h.1.1, by omega, h.1.2⟩)]
        simp

/-- **`options_malformed` is the grammar's notion of malformed.** -/
theorem optionsMalformed_iff (b : Bytes) : optionsMalformed b = true ↔ parseArea b = none := by
  unfold optionsMalformed parseArea
  rw [optionsMalformedAux_iff _ b (Nat.le_refl _), Option.map_eq_none_iff]

/-- the coverage tag `:bad-…` is present exactly when `options_malformed` returns `true` -/
theorem malformedKind_isSome : ∀ (n : Nat) (b : Bytes),
    (malformedKindAux n b).isSome = optionsMalformedAux n b := by
  intro n
  induction n with
  | zero => intro b; rfl
  | succ n ih =>
    intro b
    match b with
    | [] => rfl
    | k :: rest =>
      simp only [malformedKindAux, optionsMalformedAux]
      split
      · rfl
      · split
        · exact ih rest
        · match rest with
          | [] => rfl
          | len :: r =>
            simp only [List.length_cons]
            by_cases h1 : len < 2
            · have : ¬ (optSizeOk k len = true) := by rw [optSizeOk_spec]; omega
              simp [h1, this]
            · by_cases h2 : optSizeOk k len = true
              · by_cases h3 : len > r.length + 1 + 1
                · simp [h1, h2, h3]
                · simp only [h1, h2, h3, if_false, Bool.not_true, Bool.false_eq_true, true_and]
                  rw [if_pos (by omega)]
                  exact ih _
              · simp [h1, h2]

/-! ### the quirks the walk appends -/

theorem stepQuirks_sub (ty k : Nat) (d rest : Bytes) : ∀ q ∈ stepQuirks ty k d rest, q ∈ optionQuirks := by
  intro q hq
  unfold stepQuirks at hq
  simp only [optionQuirks]
  split at hq
  · split at hq <;> simp_all
  · split at hq
    · split at hq <;> simp_all
    · simp at hq
  · simp only [List.mem_append] at hq
    rcases hq with hq | hq
    · split at hq
      · split at hq <;> simp_all
      · simp at hq
    · split at hq
      · split at hq <;> simp_all
      · simp at hq
  · simp at hq

/-- one iteration either leaves the quirk list alone or pushes its candidates through the guard -/
theorem walkStep_quirks (ty k : Nat) (d rest : Bytes) (st : WalkSt) :
    (walkStep ty k d rest st).quirks = st.quirks ∨
    (walkStep ty k d rest st).quirks = addNew st.quirks (stepQuirks ty k d rest) := by
  match k with
  | 0 => exact Or.inr rfl
  | 1 | 2 | 4 | 5 | 6 | 7 => exact Or.inl rfl
  | 3 => cases d with
    | nil => exact Or.inl rfl
    | cons x t => exact Or.inr rfl
  | 8 => exact Or.inr rfl
  | k + 9 => exact Or.inl rfl

/-- the walk only appends to the quirk list it is given; what it appends are option-derived quirks;
and it never lists a quirk twice (each push is guarded) -/
theorem walkAux_quirks (ty : Nat) : ∀ (n : Nat) (buf : Bytes) (st : WalkSt),
    ∃ ext, (walkAux ty n buf st).quirks = st.quirks ++ ext ∧ (∀ q ∈ ext, q ∈ optionQuirks) ∧
      (st.quirks.Nodup → (st.quirks ++ ext).Nodup) := by
  intro n
  induction n with
  | zero => intro buf st; exact ⟨[], by simp [walkAux], by simp, by simp⟩
  | succ n ih =>
    intro buf st
    match buf with
    | [] => exact ⟨[], by simp [walkAux], by simp, by simp⟩
    | k :: tl =>
      simp only [walkAux]
      obtain ⟨e2, i1, i2, i3⟩ := ih ((k :: tl).drop (min (optSize (k :: tl)) (k :: tl).length))
        (walkStep ty k (optPayload (k :: tl)) ((k :: tl).drop (min (optSize (k :: tl)) (k :: tl).length)) st)
      rcases walkStep_quirks ty k (optPayload (k :: tl))
        ((k :: tl).drop (min (optSize (k :: tl)) (k :: tl).length)) st with h | h
      · rw [h] at i1 i3
        exact ⟨e2, i1, i2, i3⟩
      · obtain ⟨e1, a1, a2, a3⟩ := addNew_ext st.quirks (stepQuirks ty k (optPayload (k :: tl))
          ((k :: tl).drop (min (optSize (k :: tl)) (k :: tl).length)))
        rw [h, a1] at i1 i3
        refine ⟨e1 ++ e2, by rw [i1, List.append_assoc], ?_, ?_⟩
        · intro q hq
          rw [List.mem_append] at hq
          rcases hq with hq | hq
          · exact stepQuirks_sub _ _ _ _ q (a2 q hq)
          · exact i2 q hq
        · intro hnd
          rw [← List.append_assoc]
          exact i3 (a3 hnd)

theorem walk_quirks (ty : Nat) (buf : Bytes) (st : WalkSt) :
    ∃ ext, (walk ty buf st).quirks = st.quirks ++ ext ∧ (∀ q ∈ ext, q ∈ optionQuirks) ∧
      (st.quirks.Nodup → (st.quirks ++ ext).Nodup) := walkAux_quirks ty buf.length buf st

end Huginn.Lemmas.TcpWalk
