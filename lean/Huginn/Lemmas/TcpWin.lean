import Huginn.Spec.TcpSig
/-! Helper lemmas for C03: the window classifier. -/
namespace Huginn.Lemmas.TcpWin
open Huginn.Sig Huginn.TcpExtract Huginn.TcpSig.Spec Huginn.Gen

theorem checkDiv_some {w d n : Nat} : checkDiv w d = some n ↔ Mult w d ∧ n = w / d := by
  unfold checkDiv Mult
  simp only [TcpConst.maxMultiplier]
  by_cases h1 : d ≠ 0 ∧ w % d = 0
  · by_cases h2 : w / d ≤ 255
    · simp [h1, h2]; constructor <;> intro h <;> omega
    · simp [h1, h2]
  · simp only [h1, if_false]
    constructor
    · intro h; cases h
    · rintro ⟨⟨a, b, _⟩, _⟩; exact absurd ⟨a, b⟩ h1

theorem checkDiv_none {w d : Nat} : checkDiv w d = none ↔ ¬ Mult w d := by
  constructor
  · intro h hm
    have := (checkDiv_some (n := w / d)).2 ⟨hm, rfl⟩
    rw [h] at this; cases this
  · intro h
    cases hc : checkDiv w d with
    | none => rfl
    | some n => exact absurd (checkDiv_some.1 hc).1 h

theorem firstDiv_none {w : Nat} {ds : List Nat} : firstDiv w ds = none ↔ NoMult w ds := by
  induction ds with
  | nil => simp [firstDiv, NoMult]
  | cons d r ih =>
    unfold firstDiv
    cases hc : checkDiv w d with
    | some n =>
      simp only [NoMult, List.mem_cons, forall_eq_or_imp]
      constructor
      · intro h; cases h
      · rintro ⟨h, _⟩; exact absurd (checkDiv_some.1 hc).1 h
    | none =>
      simp only [ih, NoMult, List.mem_cons, forall_eq_or_imp]
      exact ⟨fun h => ⟨checkDiv_none.1 hc, h⟩, fun h => h.2⟩

theorem firstDiv_some {w : Nat} {ds : List Nat} {n : Nat} (h : firstDiv w ds = some n) :
    ∃ d, FirstMult w ds d ∧ n = w / d := by
  induction ds with
  | nil => simp [firstDiv] at h
  | cons d r ih =>
    unfold firstDiv at h
    cases hc : checkDiv w d with
    | some m =>
      rw [hc] at h
      simp only [Option.some.injEq] at h
      subst h
      obtain ⟨hm, he⟩ := checkDiv_some.1 hc
      exact ⟨d, ⟨0, by simp, by simp, hm, by simp⟩, he⟩
    | none =>
      rw [hc] at h
      obtain ⟨d', ⟨k, hk, hget, hm, hpre⟩, he⟩ := ih h
      refine ⟨d', ⟨k + 1, by simp; omega, by simpa using hget, hm, ?_⟩, he⟩
      intro x hx
      simp only [List.take_succ_cons, List.mem_cons] at hx
      rcases hx with rfl | hx
      · exact checkDiv_none.1 hc
      · exact hpre x hx

/-- the first multiple in a list is unique -/
theorem FirstMult.unique {w : Nat} {ds : List Nat} {d d' : Nat}
    (h : FirstMult w ds d) (h' : FirstMult w ds d') : d = d' := by
  obtain ⟨k, hk, hg, hm, hp⟩ := h
  obtain ⟨k', hk', hg', hm', hp'⟩ := h'
  rcases Nat.lt_trichotomy k k' with hlt | heq | hgt
  · exfalso
    apply hp' d _ hm
    rw [List.mem_take_iff_getElem]
    refine ⟨k, by omega, ?_⟩
    have := List.getElem?_eq_some_iff.1 hg
    exact this.2
  · subst heq; rw [hg] at hg'; exact Option.some.inj hg'
  · exfalso
    apply hp d' _ hm'
    rw [List.mem_take_iff_getElem]
    refine ⟨k', by omega, ?_⟩
    have := List.getElem?_eq_some_iff.1 hg'
    exact this.2

theorem FirstMult.not_noMult {w : Nat} {ds : List Nat} {d : Nat} (h : FirstMult w ds d) : ¬ NoMult w ds := by
  obtain ⟨k, hk, hg, hm, _⟩ := h
  intro hn
  exact hn d (List.mem_of_getElem? hg) hm

end Huginn.Lemmas.TcpWin

namespace Huginn.Lemmas.TcpWin
open Huginn.Sig Huginn.TcpExtract Huginn.TcpSig.Spec Huginn.Gen

theorem firstDiv_append_not {w x : Nat} (pre : List Nat) (h : ¬ Mult w x) :
    firstDiv w (pre ++ [x]) = firstDiv w pre := by
  induction pre with
  | nil => simp [firstDiv, checkDiv_none.2 h]
  | cons d r ih =>
    simp only [List.cons_append, firstDiv]
    cases checkDiv w d <;> simp [ih]

/-- the divisors the code tries last (none when `checked_add` overflows) -/
def lastDivs (m hdrC : Nat) (ver : IpVersion) : List Nat :=
  if hdrC > 0 then chkAdd16 m hdrC
  else match ver with | .v4 => chkAdd16 m TcpConst.minTcp4 | .v6 => chkAdd16 m TcpConst.minTcp6 | .any => []

theorem mssDivs_eq {m : Nat} (ts : Bool) (h : 100 ≤ m) : mssDivs m ts = mssForms m ts := by
  unfold mssDivs mssForms
  have h1 : m > 0 := by omega
  have h2 : m > TcpConst.tsSize := by simp [TcpConst.tsSize]; omega
  cases ts <;> simp [h1, TcpConst.tsSize]
  omega

theorem mtuDivs_eq {m hdrC hdrS : Nat} (ts : Bool) (ver : IpVersion) (h : 100 ≤ m)
    (hver : (ver = .v4 ∧ hdrS = 40) ∨ (ver = .v6 ∧ hdrS = 60)) :
    mtuDivs m hdrC ts ver = ([1500, 1500 - hdrS] ++ (if ts then [1500 - hdrS - 12] else [])) ++ lastDivs m hdrC ver := by
  have h1 : m > 0 := by omega
  unfold mtuDivs lastDivs
  rcases hver with ⟨rfl, rfl⟩ | ⟨rfl, rfl⟩ <;> by_cases hh : hdrC > 0 <;> cases ts <;>
    simp [h1, hh, TcpConst.ethMtu, TcpConst.minTcp4, TcpConst.minTcp6, TcpConst.tsSize]

/-- with `total_header` 0 or the minimal header size the last divisor is the implied MTU, if it fits -/
theorem lastDivs_min {m hdrC hdrS : Nat} (ver : IpVersion)
    (hver : (ver = .v4 ∧ hdrS = 40) ∨ (ver = .v6 ∧ hdrS = 60)) (hh : hdrC = 0 ∨ hdrC = hdrS) :
    lastDivs m hdrC ver = chkAdd16 m hdrS := by
  unfold lastDivs
  rcases hver with ⟨rfl, rfl⟩ | ⟨rfl, rfl⟩ <;> rcases hh with rfl | rfl <;>
    simp [TcpConst.minTcp4, TcpConst.minTcp6]

theorem mtuForms_eq (m hdrS : Nat) (ts : Bool) :
    mtuForms m hdrS ts = ([1500, 1500 - hdrS] ++ (if ts then [1500 - hdrS - 12] else [])) ++ [m + hdrS] := by
  unfold mtuForms; cases ts <;> simp

/-- Result of a `firstDiv` scan against the declarative "first multiple" clauses. -/
theorem firstDiv_clauses (w : Nat) (ds : List Nat) (mk : Nat → WindowSize) (r : WindowSize) (P : Prop)
    (hr : ∀ n, firstDiv w ds = some n → r = mk n)
    (hn : firstDiv w ds = none → P) :
    (∀ d ∈ ds, FirstMult w ds d → r = mk (w / d)) ∧ (NoMult w ds → P) := by
  cases h : firstDiv w ds with
  | some n =>
    obtain ⟨d0, hf0, rfl⟩ := firstDiv_some h
    refine ⟨fun d _ hf => ?_, fun hno => absurd hno (FirstMult.not_noMult hf0)⟩
    rw [hr _ h, FirstMult.unique hf hf0]
  | none =>
    refine ⟨fun d _ hf => absurd (firstDiv_none.1 h) (FirstMult.not_noMult hf), fun _ => hn h⟩

theorem find_modulos (w : Nat) :
    (∀ p, TcpConst.modulos.find? (fun m => decide (m ≠ 0 ∧ w % m = 0)) = some p →
        p ∈ powMods ∧ w % p = 0 ∧ ∀ p' ∈ powMods, w % p' = 0 → p' ≤ p) ∧
    (TcpConst.modulos.find? (fun m => decide (m ≠ 0 ∧ w % m = 0)) = none → ∀ p ∈ powMods, w % p ≠ 0) := by
  by_cases h1 : w % 4096 = 0 <;> by_cases h2 : w % 2048 = 0 <;> by_cases h3 : w % 1024 = 0 <;>
  by_cases h4 : w % 512 = 0 <;> by_cases h5 : w % 256 = 0 <;>
  simp [TcpConst.modulos, powMods, List.find?, h1, h2, h3, h4, h5] <;> omega

end Huginn.Lemmas.TcpWin
