import Huginn.Lemmas.HttpFlowStep
/-
Helper lemmas for C09: what one step does to the flow stored under a key.
-/
namespace Huginn.HttpFlow
set_option linter.unusedSimpArgs false
variable {ρ σ : Type}

def ClientDone (m : FlowMap) (k : FlowKey) : Prop := ∀ f, m.get k = some f → f.clientParsed = true
def ServerDone (m : FlowMap) (k : FlowKey) : Prop := ∀ f, m.get k = some f → f.serverParsed = true

theorem lookup_some {m : FlowMap} {p : Pkt} {f : TcpFlow} {ic : Bool} (h : lookup m p = some (f, ic)) :
    m.get (if ic then p.key else p.key.rev) = some f ∧ (ic = false → m.get p.key = none) := by
  unfold lookup at h
  split at h
  · rename_i f' hf; simp at h; obtain ⟨rfl, rfl⟩ := h; simp [hf]
  · rename_i hn
    split at h
    · rename_i f' hf; simp at h; obtain ⟨rfl, rfl⟩ := h; simp [hf, hn]
    · simp at h

theorem lookup_none {m : FlowMap} {p : Pkt} (h : lookup m p = none) :
    m.get p.key = none ∧ m.get p.key.rev = none := by
  unfold lookup at h
  split at h
  · simp at h
  · rename_i hn
    split at h
    · simp at h
    · rename_i hn2; exact ⟨hn, hn2⟩

/-- the shape of a step on a known flow with a non-empty payload -/
theorem stepFound_data (P : Parsers ρ σ) (m : FlowMap) (p : Pkt) (f : TcpFlow) (ic : Bool)
    (hp : p.payload.isEmpty = false) :
    let k := if ic then p.key else p.key.rev
    let x := dispatch P (noteSynAck f ic p) ic p
    (stepFound P m p f ic).request = x.2.1 ∧ (stepFound P m p f ic).response = x.2.2 ∧
    (stepFound P m p f ic).stored = some k ∧ (stepFound P m p f ic).opened = false ∧
    ((stepFound P m p f ic).map = (m.set k x.1).erase k ∨ (stepFound P m p f ic).map = m.set k x.1) := by
  intro k x
  unfold stepFound
  simp only [hp, Bool.false_eq_true, if_false]
  split
  · exact ⟨rfl, rfl, rfl, rfl, Or.inl rfl⟩
  · split
    · exact ⟨rfl, rfl, rfl, rfl, Or.inl rfl⟩
    · exact ⟨rfl, rfl, rfl, rfl, Or.inr rfl⟩

theorem stepFound_empty (P : Parsers ρ σ) (m : FlowMap) (p : Pkt) (f : TcpFlow) (ic : Bool)
    (hp : p.payload.isEmpty = true) :
    (stepFound P m p f ic).request = none ∧ (stepFound P m p f ic).response = none ∧
    (stepFound P m p f ic).stored = some (if ic then p.key else p.key.rev) ∧ (stepFound P m p f ic).opened = false ∧
    (stepFound P m p f ic).map = m.set (if ic then p.key else p.key.rev) (noteSynAck f ic p) := by
  unfold stepFound; simp [hp]

theorem get_after_found (m : FlowMap) (k : FlowKey) (v : TcpFlow) (m' : FlowMap)
    (h : m' = (m.set k v).erase k ∨ m' = m.set k v) :
    (m'.get k = none ∨ m'.get k = some v) ∧ ∀ k2, k2 ≠ k → m'.get k2 = m.get k2 := by
  rcases h with rfl | rfl
  · exact ⟨Or.inl (FlowMap.get_erase_eq _ _), fun k2 h2 => by
      rw [FlowMap.get_erase_ne _ _ _ h2, FlowMap.get_set_ne _ _ _ _ h2]⟩
  · exact ⟨Or.inr (FlowMap.get_set_eq _ _ _), fun k2 h2 => FlowMap.get_set_ne _ _ _ _ h2⟩

/-- a request report: where it comes from and what it leaves behind -/
theorem step_request (P : Parsers ρ σ) (m : FlowMap) (p : Pkt) (r : ρ)
    (h : (step P m p).request = some r) :
    (step P m p).stored = some p.key ∧ (step P m p).opened = false ∧ (step P m p).response = none ∧
    ClientDone (step P m p).map p.key ∧
    ∃ f, m.get p.key = some f ∧ f.clientParsed = false ∧
      P.request (fullData (some f.clientIsn) (f.clientData ++ [⟨p.seq, p.payload⟩])) = some r := by
  unfold step at h ⊢
  cases hl : lookup m p with
  | none =>
    simp only [hl] at h
    unfold stepNew at h; split at h <;> simp at h
  | some fi =>
    obtain ⟨f, ic⟩ := fi
    simp only [hl] at h ⊢
    cases hp : p.payload.isEmpty with
    | true => rw [(stepFound_empty P m p f ic hp).1] at h; simp at h
    | false =>
      obtain ⟨h1, h2, h3, h4, h5⟩ := stepFound_data P m p f ic hp
      rw [h1] at h
      obtain ⟨hic, hcp, hdone, hres, hparse⟩ := dispatch_request P _ ic p r h
      subst hic
      rw [noteSynAck_client] at hcp hparse hdone hres h5
      simp only [if_true] at h3 h5
      obtain ⟨hg, _⟩ := get_after_found m p.key _ _ h5
      refine ⟨h3, h4, by rw [h2, noteSynAck_client]; exact hres, ?_, f, by simpa using (lookup_some hl).1, hcp, hparse⟩
      intro f' hf'
      rcases hg with hg | hg
      · rw [hg] at hf'; simp at hf'
      · rw [hg] at hf'; simp at hf'; subst hf'; exact hdone

/-- a response report -/
theorem step_response (P : Parsers ρ σ) (m : FlowMap) (p : Pkt) (s : σ)
    (h : (step P m p).response = some s) :
    ∃ k f ic, (step P m p).stored = some k ∧ (step P m p).opened = false ∧ (step P m p).request = none ∧
      ServerDone (step P m p).map k ∧ m.get k = some f ∧ f.serverParsed = false ∧
      (k = p.key.rev ∨ (k = p.key ∧ ¬ (p.srcIp = f.clientIp ∧ p.srcPort = f.clientPort))) ∧
      P.response (fullData (noteSynAck f ic p).serverIsn (f.serverData ++ [⟨p.seq, p.payload⟩])) = some s := by
  unfold step at h ⊢
  cases hl : lookup m p with
  | none =>
    simp only [hl] at h
    unfold stepNew at h; split at h <;> simp at h
  | some fi =>
    obtain ⟨f, ic⟩ := fi
    simp only [hl] at h ⊢
    cases hp : p.payload.isEmpty with
    | true => rw [(stepFound_empty P m p f ic hp).2.1] at h; simp at h
    | false =>
      obtain ⟨h1, h2, h3, h4, h5⟩ := stepFound_data P m p f ic hp
      rw [h2] at h
      obtain ⟨hsp, hdone, hreq, hnc, hparse⟩ := dispatch_response P _ ic p s h
      obtain ⟨nf1, nf2, _, nf4, nf5, _, nf7, _, _⟩ := noteSynAck_fields f ic p
      rw [nf2] at hsp
      rw [nf4] at hparse
      rw [nf5, nf7] at hnc
      obtain ⟨hg, _⟩ := get_after_found m _ _ _ h5
      refine ⟨_, f, ic, h3, h4, by rw [h1]; exact hreq, ?_, (lookup_some hl).1, hsp, ?_, hparse⟩
      · intro f' hf'
        rcases hg with hg | hg
        · rw [hg] at hf'; simp at hf'
        · rw [hg] at hf'; simp at hf'; subst hf'; exact hdone
      · cases ic with
        | false => left; rfl
        | true => right; exact ⟨rfl, fun ⟨a, b⟩ => hnc ⟨rfl, a, b⟩⟩

/-- a flow is opened only where none is stored, by a SYN, with both flags clear -/
theorem step_opened (P : Parsers ρ σ) (m : FlowMap) (p : Pkt) (h : (step P m p).opened = true) :
    (step P m p).stored = some p.key ∧ (step P m p).request = none ∧ (step P m p).response = none ∧
    m.get p.key = none ∧ m.get p.key.rev = none ∧ hasFlag p.flags SYN = true ∧
    ∃ f, (step P m p).map.get p.key = some f ∧ f.clientParsed = false ∧ f.serverParsed = false ∧
      f.clientIp = p.srcIp ∧ f.clientPort = p.srcPort ∧ f.serverIp = p.dstIp ∧ f.serverPort = p.dstPort := by
  unfold step at h ⊢
  cases hl : lookup m p with
  | none =>
    simp only [hl] at h ⊢
    obtain ⟨hn1, hn2⟩ := lookup_none hl
    unfold stepNew at h ⊢
    split at h
    · rename_i hs
      rw [if_pos hs]
      exact ⟨rfl, rfl, rfl, hn1, hn2, hs, _, FlowMap.get_set_eq _ _ _, rfl, rfl, rfl, rfl, rfl, rfl⟩
    · simp at h
  | some fi =>
    obtain ⟨f, ic⟩ := fi
    simp only [hl] at h
    cases hp : p.payload.isEmpty with
    | true => rw [(stepFound_empty P m p f ic hp).2.2.2.1] at h; simp at h
    | false => rw [(stepFound_data P m p f ic hp).2.2.2.1] at h; simp at h

/-- keys other than the one the step worked on are untouched -/
theorem step_frame (P : Parsers ρ σ) (m : FlowMap) (p : Pkt) (k : FlowKey)
    (h : (step P m p).stored ≠ some k) : (step P m p).map.get k = m.get k := by
  unfold step at h ⊢
  cases hl : lookup m p with
  | none =>
    simp only [hl] at h ⊢
    unfold stepNew at h ⊢
    split
    · rename_i hs
      simp only [hs, if_true] at h
      have : k ≠ p.key := fun e => h (by rw [e])
      exact FlowMap.get_set_ne _ _ _ _ this
    · rfl
  | some fi =>
    obtain ⟨f, ic⟩ := fi
    simp only [hl] at h ⊢
    cases hp : p.payload.isEmpty with
    | true =>
      obtain ⟨_, _, h3, _, h5⟩ := stepFound_empty P m p f ic hp
      rw [h3] at h
      have hk : k ≠ (if ic then p.key else p.key.rev) := fun e => h (by rw [e])
      rw [h5]; exact FlowMap.get_set_ne _ _ _ _ hk
    | false =>
      obtain ⟨_, _, h3, _, h5⟩ := stepFound_data P m p f ic hp
      rw [h3] at h
      have hk : k ≠ (if ic then p.key else p.key.rev) := fun e => h (by rw [e])
      exact (get_after_found m _ _ _ h5).2 k hk

/-- what a step on a stored flow (not opening one) leaves under its key: nothing, or the flow
after the SYN-ACK note and the direction dispatch -/
theorem step_found_shape (P : Parsers ρ σ) (m : FlowMap) (p : Pkt) (k : FlowKey)
    (hs : (step P m p).stored = some k) (ho : (step P m p).opened = false) :
    ∃ f ic, m.get k = some f ∧
      (((step P m p).request = none ∧ (step P m p).response = none ∧
          (step P m p).map.get k = some (noteSynAck f ic p)) ∨
       ((step P m p).request = (dispatch P (noteSynAck f ic p) ic p).2.1 ∧
        (step P m p).response = (dispatch P (noteSynAck f ic p) ic p).2.2 ∧
        ((step P m p).map.get k = none ∨
         (step P m p).map.get k = some (dispatch P (noteSynAck f ic p) ic p).1))) := by
  unfold step at hs ho ⊢
  cases hl : lookup m p with
  | none =>
    simp only [hl] at hs ho
    unfold stepNew at hs ho
    split at hs
    · rename_i h; simp [h] at ho
    · simp at hs
  | some fi =>
    obtain ⟨f, ic⟩ := fi
    simp only [hl] at hs ho ⊢
    cases hp : p.payload.isEmpty with
    | true =>
      obtain ⟨h1, h2, h3, _, h5⟩ := stepFound_empty P m p f ic hp
      rw [h3] at hs; simp at hs
      refine ⟨f, ic, by rw [← hs]; exact (lookup_some hl).1, Or.inl ⟨h1, h2, ?_⟩⟩
      rw [h5, hs]; exact FlowMap.get_set_eq _ _ _
    | false =>
      obtain ⟨h1, h2, h3, _, h5⟩ := stepFound_data P m p f ic hp
      rw [h3] at hs; simp at hs
      rw [hs] at h5
      refine ⟨f, ic, by rw [← hs]; exact (lookup_some hl).1, Or.inr ⟨h1, h2, (get_after_found m k _ _ h5).1⟩⟩

/-- a step that works on a stored flow (does not open one) keeps the done-flags set -/
theorem step_client_mono (P : Parsers ρ σ) (m : FlowMap) (p : Pkt) (k : FlowKey)
    (hs : (step P m p).stored = some k) (ho : (step P m p).opened = false) (hd : ClientDone m k) :
    ClientDone (step P m p).map k ∧ (step P m p).request = none := by
  obtain ⟨f, ic, hf, hsh⟩ := step_found_shape P m p k hs ho
  have hcp : (noteSynAck f ic p).clientParsed = true := by rw [(noteSynAck_fields f ic p).1]; exact hd f hf
  rcases hsh with ⟨h1, _, h3⟩ | ⟨h1, _, h3⟩
  · refine ⟨?_, h1⟩
    intro f' hf'; rw [h3] at hf'; simp at hf'; subst hf'; exact hcp
  · obtain ⟨hm1, hm2⟩ := dispatch_client_mono P _ ic p hcp
    refine ⟨?_, by rw [h1]; exact hm2⟩
    intro f' hf'
    rcases h3 with hg | hg
    · rw [hg] at hf'; simp at hf'
    · rw [hg] at hf'; simp at hf'; subst hf'; exact hm1

theorem step_server_mono (P : Parsers ρ σ) (m : FlowMap) (p : Pkt) (k : FlowKey)
    (hs : (step P m p).stored = some k) (ho : (step P m p).opened = false) (hd : ServerDone m k) :
    ServerDone (step P m p).map k ∧ (step P m p).response = none := by
  obtain ⟨f, ic, hf, hsh⟩ := step_found_shape P m p k hs ho
  have hcp : (noteSynAck f ic p).serverParsed = true := by rw [(noteSynAck_fields f ic p).2.1]; exact hd f hf
  rcases hsh with ⟨_, h2, h3⟩ | ⟨_, h2, h3⟩
  · refine ⟨?_, h2⟩
    intro f' hf'; rw [h3] at hf'; simp at hf'; subst hf'; exact hcp
  · obtain ⟨hm1, hm2⟩ := dispatch_server_mono P _ ic p hcp
    refine ⟨?_, by rw [h2]; exact hm2⟩
    intro f' hf'
    rcases h3 with hg | hg
    · rw [hg] at hf'; simp at hf'
    · rw [hg] at hf'; simp at hf'; subst hf'; exact hm1

/-- flows are stored under their own endpoints -/
def KeyInv (m : FlowMap) : Prop :=
  ∀ k f, m.get k = some f →
    f.clientIp = k.srcIp ∧ f.serverIp = k.dstIp ∧ f.clientPort = k.srcPort ∧ f.serverPort = k.dstPort

theorem keyInv_nil : KeyInv [] := by intro k f h; simp [FlowMap.get] at h

theorem step_keyInv (P : Parsers ρ σ) (m : FlowMap) (p : Pkt) (hi : KeyInv m) : KeyInv (step P m p).map := by
  intro k f hf
  by_cases hs : (step P m p).stored = some k
  · cases ho : (step P m p).opened with
    | true =>
      obtain ⟨h1, _, _, _, _, _, f', hf', _, _, a, b, c, d⟩ := step_opened P m p ho
      rw [h1] at hs; simp at hs; subst hs
      rw [hf'] at hf; simp at hf; subst hf
      exact ⟨a, c, b, d⟩
    | false =>
      obtain ⟨f0, ic, hf0, hsh⟩ := step_found_shape P m p k hs ho
      obtain ⟨a', b', c', d'⟩ := hi k f0 hf0
      obtain ⟨_, _, _, _, n5, n6, n7, n8, _⟩ := noteSynAck_fields f0 ic p
      rcases hsh with ⟨_, _, h3⟩ | ⟨_, _, h3⟩
      · rw [h3] at hf; simp at hf; subst hf
        exact ⟨n5.trans a', n6.trans b', n7.trans c', n8.trans d'⟩
      · rcases h3 with hg | hg
        · rw [hg] at hf; simp at hf
        · rw [hg] at hf; simp at hf; subst hf
          obtain ⟨a, b, c, d⟩ := dispatch_endpoints P (noteSynAck f0 ic p) ic p
          exact ⟨(a.trans n5).trans a', (b.trans n6).trans b', (c.trans n7).trans c', (d.trans n8).trans d'⟩
  · rw [step_frame P m p k hs] at hf
    exact hi k f hf

end Huginn.HttpFlow
