import Huginn.Model.Match
import Huginn.Spec.Match
/-
C02, generic part: for any signature type `σ`, observation type `ω`, key type `κ`, distance
`dist`, key functions `keyOf` / `keysOf`:

  coverage  (dist s o = some d → keyOf o ∈ keysOf s)   and   bound (d < u32::MAX)
  ⟹  findBest dist keyOf (mkIndex keysOf db) db o = some (scanBest dist db o)

Steps: (A) what `get` returns after a sequence of `push`es; (B) the pushes of the three nested
loops, expressed over the scan order `entries db`; (C) every index pair stored resolves to its
entry (no out-of-bounds panic); (D) the candidate loop as a pure fold; (E) a strict-`<` fold over
the bucket (each entry repeated once per matching key) equals the scan over all entries.
-/
set_option linter.unusedSectionVars false
namespace Huginn.Match
open Huginn.Match.Spec
variable {κ σ ω lbl : Type} [DecidableEq κ]

/-! ### (A) get after pushes -/

theorem get_push (idx : Index κ) (k' k : κ) (v : Nat × Nat) :
    (idx.push k' v).get k = if k' = k then some ((idx.get k).getD [] ++ [v]) else idx.get k := by
  induction idx with
  | nil =>
    simp only [Index.push, Index.get]
    split <;> simp
  | cons x r ih =>
    obtain ⟨k0, vs⟩ := x
    simp only [Index.push]
    by_cases h0 : k0 = k'
    · simp only [h0, if_true, Index.get]
      by_cases h1 : k' = k <;> simp [h1]
    · simp only [h0, if_false, Index.get, ih]
      by_cases h1 : k' = k
      · have : k0 ≠ k := fun e => h0 (e.trans h1.symm)
        simp [h1, this]
      · simp [h1]

def pushAll (idx : Index κ) (ps : List (κ × (Nat × Nat))) : Index κ :=
  ps.foldl (fun idx p => idx.push p.1 p.2) idx

theorem get_pushAll (ps : List (κ × (Nat × Nat))) (idx : Index κ) (k : κ) :
    (pushAll idx ps).get k =
      if (ps.filter (fun p => decide (p.1 = k))).isEmpty then idx.get k
      else some ((idx.get k).getD [] ++ (ps.filter (fun p => decide (p.1 = k))).map (·.2)) := by
  induction ps generalizing idx with
  | nil => simp [pushAll]
  | cons p ps ih =>
    simp only [pushAll, List.foldl_cons] at ih ⊢
    rw [ih, get_push]
    by_cases hp : p.1 = k
    · cases hF : ps.filter (fun p => decide (p.1 = k)) with
      | nil => simp [hp, hF]
      | cons a as => simp [hp, hF]
    · have hf : (p :: ps).filter (fun p => decide (p.1 = k)) = ps.filter (fun p => decide (p.1 = k)) := by
        rw [List.filter_cons]; simp [hp]
      rw [hf]; simp [hp]

theorem get_mkIndex (keysOf : σ → List κ) (db : List (lbl × List σ)) (k : κ) :
    (mkIndex keysOf db).get k =
      let b := ((dbPushes keysOf 0 db).filter (fun p => decide (p.1 = k))).map (·.2)
      if b.isEmpty then none else some b := by
  have := get_pushAll (dbPushes keysOf 0 db) ([] : Index κ) k
  simp only [pushAll] at this
  simp only [mkIndex, this, Index.get, Option.getD_none, List.nil_append, List.isEmpty_map]

/-! ### (B) the pushes over the scan order -/

theorem sigPushes_eq (keysOf : σ → List κ) (li si : Nat) (sigs : List σ) :
    sigPushes keysOf li si sigs =
      (sigs.zipIdx si).flatMap (fun p => (keysOf p.1).map (fun k => (k, (li, p.2)))) := by
  induction sigs generalizing si with
  | nil => rfl
  | cons s r ih => simp [sigPushes, List.zipIdx_cons, ih]

theorem dbPushes_eq (keysOf : σ → List κ) (li : Nat) (db : List (lbl × List σ)) :
    dbPushes keysOf li db =
      (entriesFrom li db).flatMap (fun e => (keysOf e.2.2).map (fun k => (k, (e.1, e.2.1)))) := by
  induction db generalizing li with
  | nil => rfl
  | cons e r ih =>
    simp only [dbPushes, entriesFrom, List.flatMap_append, ih, sigPushes_eq, List.flatMap_map]

/-- The bucket of key `k`, as triples: every entry once per occurrence of `k` among its keys. -/
def bucketT (keysOf : σ → List κ) (db : List (lbl × List σ)) (k : κ) : List (Nat × Nat × σ) :=
  (entries db).flatMap (fun e => ((keysOf e.2.2).filter (fun k' => decide (k' = k))).map (fun _ => e))

theorem bucket_eq (keysOf : σ → List κ) (db : List (lbl × List σ)) (k : κ) :
    ((dbPushes keysOf 0 db).filter (fun p => decide (p.1 = k))).map (·.2) =
      (bucketT keysOf db k).map (fun e => (e.1, e.2.1)) := by
  simp only [dbPushes_eq, bucketT, entries, List.filter_flatMap, List.map_flatMap, List.filter_map,
    List.map_map]
  rfl

/-! ### (C) stored pairs resolve -/

theorem entriesFrom_valid (li : Nat) (db : List (lbl × List σ)) :
    ∀ e ∈ entriesFrom li db, li ≤ e.1 ∧ ∃ x, db[e.1 - li]? = some x ∧ x.2[e.2.1]? = some e.2.2 := by
  induction db generalizing li with
  | nil => intro e he; cases he
  | cons x r ih =>
    intro e he
    simp only [entriesFrom, List.mem_append, List.mem_map] at he
    rcases he with ⟨p, hp, rfl⟩ | he
    · refine ⟨Nat.le_refl _, x, by simp, ?_⟩
      exact List.mem_zipIdx_iff_getElem?.mp hp
    · obtain ⟨hle, y, hy, hs⟩ := ih (li + 1) e he
      refine ⟨by omega, y, ?_, hs⟩
      have : e.1 - li = (e.1 - (li + 1)) + 1 := by omega
      rw [this, List.getElem?_cons_succ]
      exact hy

theorem entries_valid (db : List (lbl × List σ)) :
    ∀ e ∈ entries db, ∃ x, db[e.1]? = some x ∧ x.2[e.2.1]? = some e.2.2 := by
  intro e he
  obtain ⟨_, x, hx, hs⟩ := entriesFrom_valid 0 db e he
  exact ⟨x, by simpa using hx, hs⟩

/-! ### (D) the candidate loop as a fold -/

def stepT (dist : σ → ω → Option Nat) (o : ω) (st : Option (Nat × Nat) × Nat) (e : Nat × Nat × σ) :
    Option (Nat × Nat) × Nat :=
  match dist e.2.2 o with
  | some d => if d < st.2 then (some (e.1, e.2.1), d) else st
  | none => st

theorem findLoop_eq (dist : σ → ω → Option Nat) (db : List (lbl × List σ)) (o : ω)
    (es : List (Nat × Nat × σ))
    (hv : ∀ e ∈ es, ∃ x, db[e.1]? = some x ∧ x.2[e.2.1]? = some e.2.2)
    (best : Option (Nat × Nat)) (m : Nat) :
    findLoop dist db o (es.map (fun e => (e.1, e.2.1))) best m =
      some (es.foldl (stepT dist o) (best, m)) := by
  induction es generalizing best m with
  | nil => rfl
  | cons e r ih =>
    obtain ⟨x, hx, hs⟩ := hv e (by simp)
    have hv' : ∀ e' ∈ r, ∃ x, db[e'.1]? = some x ∧ x.2[e'.2.1]? = some e'.2.2 :=
      fun e' he' => hv e' (by simp [he'])
    cases hd : dist e.2.2 o with
    | none =>
      simp only [List.map_cons, findLoop, hx, hs, List.foldl_cons, stepT, hd]
      exact ih hv' best m
    | some d =>
      by_cases hlt : d < m
      · simp only [List.map_cons, findLoop, hx, hs, List.foldl_cons, stepT, hd, hlt, if_true]
        exact ih hv' _ _
      · simp only [List.map_cons, findLoop, hx, hs, List.foldl_cons, stepT, hd, hlt, if_false]
        exact ih hv' _ _

/-! ### (E) bucket fold = scan -/

def toScan (st : Option (Nat × Nat) × Nat) : Option (Nat × Nat × Nat) :=
  st.1.map (fun c => (c.1, c.2, st.2))

/-- `min_distance` is still `u32::MAX` as long as nothing was selected. -/
def Inv (st : Option (Nat × Nat) × Nat) : Prop := st.1 = none → st.2 = u32Max

theorem stepT_idem (dist : σ → ω → Option Nat) (o : ω) (st : Option (Nat × Nat) × Nat)
    (e : Nat × Nat × σ) : stepT dist o (stepT dist o st e) e = stepT dist o st e := by
  unfold stepT
  cases dist e.2.2 o with
  | none => rfl
  | some d =>
    simp only []
    by_cases h : d < st.2
    · simp [h]
    · simp [h]

theorem foldl_stepT_stepped (dist : σ → ω → Option Nat) (o : ω) (e : Nat × Nat × σ) {β : Type}
    (l : List β) (st : Option (Nat × Nat) × Nat) :
    (l.map (fun _ => e)).foldl (stepT dist o) (stepT dist o st e) = stepT dist o st e := by
  induction l with
  | nil => rfl
  | cons a r ih => rw [List.map_cons, List.foldl_cons, stepT_idem]; exact ih

theorem foldl_stepT_copies (dist : σ → ω → Option Nat) (o : ω) (e : Nat × Nat × σ) {β : Type}
    (l : List β) (st : Option (Nat × Nat) × Nat) (hne : l ≠ []) :
    (l.map (fun _ => e)).foldl (stepT dist o) st = stepT dist o st e := by
  cases l with
  | nil => exact absurd rfl hne
  | cons a r => rw [List.map_cons, List.foldl_cons]; exact foldl_stepT_stepped dist o e r st

theorem foldl_stepT_none (dist : σ → ω → Option Nat) (o : ω) (e : Nat × Nat × σ) {β : Type}
    (l : List β) (st : Option (Nat × Nat) × Nat) (hd : dist e.2.2 o = none) :
    (l.map (fun _ => e)).foldl (stepT dist o) st = st := by
  induction l with
  | nil => rfl
  | cons a r ih => simp only [List.map_cons, List.foldl_cons, stepT, hd]; exact ih

theorem stepT_scan (dist : σ → ω → Option Nat) (o : ω) (st : Option (Nat × Nat) × Nat)
    (e : Nat × Nat × σ) (hinv : Inv st) (hb : ∀ d, dist e.2.2 o = some d → d < u32Max) :
    toScan (stepT dist o st e) = scanStep dist o (toScan st) e ∧ Inv (stepT dist o st e) := by
  unfold stepT scanStep
  cases hd : dist e.2.2 o with
  | none => exact ⟨rfl, hinv⟩
  | some d =>
    obtain ⟨best, m⟩ := st
    cases best with
    | none =>
      have hm : m = u32Max := hinv rfl
      subst hm
      simp [toScan, hb d hd, Inv]
    | some c =>
      simp only [toScan, Option.map_some]
      by_cases hlt : d < m
      · simp [hlt, Inv]
      · simp [hlt, Inv]

theorem bucket_fold_eq_scan (dist : σ → ω → Option Nat) (o : ω) {β : Type}
    (f : Nat × Nat × σ → List β) (es : List (Nat × Nat × σ))
    (hcov : ∀ e ∈ es, ∀ d, dist e.2.2 o = some d → f e ≠ [])
    (hb : ∀ e ∈ es, ∀ d, dist e.2.2 o = some d → d < u32Max)
    (st : Option (Nat × Nat) × Nat) (hinv : Inv st) :
    toScan ((es.flatMap (fun e => (f e).map (fun _ => e))).foldl (stepT dist o) st) =
      es.foldl (scanStep dist o) (toScan st) := by
  induction es generalizing st with
  | nil => rfl
  | cons e r ih =>
    simp only [List.flatMap_cons, List.foldl_append, List.foldl_cons]
    have hstep : (List.map (fun _ => e) (f e)).foldl (stepT dist o) st = stepT dist o st e := by
      cases hd : dist e.2.2 o with
      | none =>
        rw [foldl_stepT_none dist o e (f e) st hd]
        simp [stepT, hd]
      | some d => exact foldl_stepT_copies dist o e (f e) st (hcov e (by simp) d hd)
    rw [hstep]
    obtain ⟨h1, h2⟩ := stepT_scan dist o st e hinv (hb e (by simp))
    rw [← h1]
    exact ih (fun e' he' => hcov e' (by simp [he'])) (fun e' he' => hb e' (by simp [he'])) _ h2

/-! ### the generic theorem -/

/-- **Index transparency.** If every signature that accepts an observation is filed under the
observation's key, and distances stay below `u32::MAX`, then the indexed lookup never panics and
returns exactly what the exhaustive scan selects. -/
theorem findBest_eq_scan (dist : σ → ω → Option Nat) (keyOf : ω → κ) (keysOf : σ → List κ)
    (db : List (lbl × List σ)) (o : ω)
    (hcov : ∀ e ∈ entries db, ∀ d, dist e.2.2 o = some d → keyOf o ∈ keysOf e.2.2)
    (hb : ∀ e ∈ entries db, ∀ d, dist e.2.2 o = some d → d < u32Max) :
    findBest dist keyOf (mkIndex keysOf db) db o = some (scanBest dist db o) := by
  have hscan := bucket_fold_eq_scan dist o
    (fun e => (keysOf e.2.2).filter (fun k' => decide (k' = keyOf o))) (entries db)
    (by
      intro e he d hd
      have := hcov e he d hd
      intro hnil
      have hm : keyOf o ∈ (keysOf e.2.2).filter (fun k' => decide (k' = keyOf o)) :=
        List.mem_filter.mpr ⟨this, by simp⟩
      rw [hnil] at hm
      cases hm)
    hb (none, u32Max) (fun _ => rfl)
  have hvalid : ∀ e ∈ bucketT keysOf db (keyOf o),
      ∃ x, db[e.1]? = some x ∧ x.2[e.2.1]? = some e.2.2 := by
    intro e he
    simp only [bucketT, List.mem_flatMap, List.mem_map] at he
    obtain ⟨e', he', _, _, rfl⟩ := he
    exact entries_valid db e' he'
  have hscan' : scanBest dist db o =
      toScan ((bucketT keysOf db (keyOf o)).foldl (stepT dist o) (none, u32Max)) := by
    unfold scanBest bucketT
    rw [hscan]
    rfl
  unfold findBest
  rw [get_mkIndex, bucket_eq]
  simp only []
  by_cases hemp : (bucketT keysOf db (keyOf o)).isEmpty = true
  · simp only [List.isEmpty_map, hemp, if_true]
    have : bucketT keysOf db (keyOf o) = [] := List.isEmpty_iff.mp hemp
    rw [hscan', this]
    rfl
  · simp only [List.isEmpty_map, hemp, Bool.false_eq_true, if_false]
    rw [findLoop_eq dist db o _ hvalid, hscan']
    rfl

/-! ### the scan satisfies the declarative reading -/

theorem scanStep_isBest (dist : σ → ω → Option Nat) (o : ω) (l : List (Nat × Nat × σ))
    (b : Option (Nat × Nat × Nat)) (e : Nat × Nat × σ) (h : IsBest dist l o b) :
    IsBest dist (l ++ [e]) o (scanStep dist o b e) := by
  unfold scanStep
  cases hd : dist e.2.2 o with
  | none =>
    simp only []
    cases b with
    | none =>
      intro e' he'
      rcases List.mem_append.mp he' with h' | h'
      · exact h e' h'
      · simp at h'; rw [h']; exact hd
    | some r =>
      obtain ⟨i, j, d⟩ := r
      obtain ⟨pre, s, post, hl, hs, hpre, hpost⟩ := h
      refine ⟨pre, s, post ++ [e], by simp [hl], hs, hpre, ?_⟩
      intro e' he' d' hd'
      rcases List.mem_append.mp he' with h' | h'
      · exact hpost e' h' d' hd'
      · simp at h'; rw [h', hd] at hd'; cases hd'
  | some d =>
    simp only []
    cases b with
    | none =>
      refine ⟨l, e.2.2, [], rfl, hd, ?_, by simp⟩
      intro e' he' d' hd'
      rw [h e' he'] at hd'; cases hd'
    | some r =>
      obtain ⟨i, j, bd⟩ := r
      obtain ⟨pre, s, post, hl, hs, hpre, hpost⟩ := h
      simp only []
      by_cases hlt : d < bd
      · simp only [hlt, if_true]
        refine ⟨l, e.2.2, [], rfl, hd, ?_, by simp⟩
        intro e' he' d' hd'
        rw [hl] at he'
        rcases List.mem_append.mp he' with h' | h'
        · have := hpre e' h' d' hd'; omega
        · rcases List.mem_cons.mp h' with h'' | h''
          · rw [h''] at hd'; simp only [] at hd'; rw [hs] at hd'; cases hd'; exact hlt
          · have := hpost e' h'' d' hd'; omega
      · simp only [hlt, if_false]
        refine ⟨pre, s, post ++ [e], by simp [hl], hs, hpre, ?_⟩
        intro e' he' d' hd'
        rcases List.mem_append.mp he' with h' | h'
        · exact hpost e' h' d' hd'
        · simp at h'; rw [h', hd] at hd'; cases hd'; omega

theorem foldl_scan_isBest (dist : σ → ω → Option Nat) (o : ω) (es pre : List (Nat × Nat × σ))
    (b : Option (Nat × Nat × Nat)) (h : IsBest dist pre o b) :
    IsBest dist (pre ++ es) o (es.foldl (scanStep dist o) b) := by
  induction es generalizing pre b with
  | nil => simpa using h
  | cons e r ih =>
    have := ih (pre ++ [e]) _ (scanStep_isBest dist o pre b e h)
    simpa using this

/-- The exhaustive scan returns the first entry in database order with the smallest distance among
the accepting ones, and nothing exactly when no entry accepts. -/
theorem scanBest_isBest (dist : σ → ω → Option Nat) (db : List (lbl × List σ)) (o : ω) :
    IsBest dist (entries db) o (scanBest dist db o) := by
  have := foldl_scan_isBest dist o (entries db) [] none (by intro e he; cases he)
  simpa [scanBest] using this

theorem scanBest_none_iff (dist : σ → ω → Option Nat) (db : List (lbl × List σ)) (o : ω) :
    scanBest dist db o = none ↔ ∀ e ∈ entries db, dist e.2.2 o = none := by
  have h := scanBest_isBest dist db o
  constructor
  · intro hn; rw [hn] at h; exact h
  · intro hall
    cases hr : scanBest dist db o with
    | none => rfl
    | some r =>
      rw [hr] at h
      obtain ⟨i, j, d⟩ := r
      obtain ⟨pre, s, post, hl, hs, _, _⟩ := h
      have := hall (i, j, s) (by rw [hl]; simp)
      simp only [] at this
      rw [hs] at this; cases this

end Huginn.Match
