import Huginn.Lemmas.TlsWire
import Huginn.Lemmas.Ja4Text
/-
`extract_tls_signature_from_client_hello` on the parsed extension list of a well-formed hello:
the fold over the extensions yields the fields the specification reads off the abstract hello.
-/
namespace Huginn.Lemmas.Ja4Extract
open Huginn.Tls Huginn.Tls.Spec Huginn.Lemmas.TlsWire Huginn.Lemmas.Ja4Text

def pSni : Ext → Option (List (Nat × Bytes)) | .serverName ns => some ns | _ => none
def pAlpn : Ext → Option (List Bytes) | .alpn ps => some ps | _ => none
def pSig : Ext → Option (List Nat) | .signatureAlgorithms xs => some xs | _ => none
def pGrp : Ext → Option (List Nat) | .supportedGroups xs => some xs | _ => none
def pPf : Ext → Option Bytes | .ecPointFormats f => some f | _ => none
def pSv : Ext → Option (List Nat) | .supportedVersions vs => some vs | _ => none

theorem serverNameOf_eq (l : List Ext) : serverNameOf l = l.findSome? pSni := by
  induction l with
  | nil => rfl
  | cons x t ih => cases x <;> simp [serverNameOf, pSni, ih, List.findSome?_cons]
theorem alpnOf_eq (l : List Ext) : alpnOf l = l.findSome? pAlpn := by
  induction l with
  | nil => rfl
  | cons x t ih => cases x <;> simp [alpnOf, pAlpn, ih, List.findSome?_cons]
theorem sigAlgsOf_eq (l : List Ext) : sigAlgsOf l = (l.findSome? pSig).getD [] := by
  induction l with
  | nil => rfl
  | cons x t ih => cases x <;> simp [sigAlgsOf, pSig, ih, List.findSome?_cons]
theorem groupsOf_eq (l : List Ext) : groupsOf l = (l.findSome? pGrp).getD [] := by
  induction l with
  | nil => rfl
  | cons x t ih => cases x <;> simp [groupsOf, pGrp, ih, List.findSome?_cons]
theorem supportedVersionsOf_eq (l : List Ext) : supportedVersionsOf l = l.findSome? pSv := by
  induction l with
  | nil => rfl
  | cons x t ih => cases x <;> simp [supportedVersionsOf, pSv, ih, List.findSome?_cons]

theorem findSome_none {β} (p : Ext → Option β) (t : Nat) (hp : ∀ y b, p y = some b → y.type = t)
    (l : List Ext) (h : ∀ y ∈ l, y.type ≠ t) : l.findSome? p = none := by
  rw [List.findSome?_eq_none_iff]
  intro y hy
  cases hpy : p y with
  | none => rfl
  | some b => exact absurd (hp y b hpy) (h y hy)

theorem pSni_type : ∀ y b, pSni y = some b → y.type = 0 := by intro y b h; cases y <;> simp_all [pSni, Ext.type]
theorem pAlpn_type : ∀ y b, pAlpn y = some b → y.type = 16 := by intro y b h; cases y <;> simp_all [pAlpn, Ext.type]
theorem pSig_type : ∀ y b, pSig y = some b → y.type = 13 := by intro y b h; cases y <;> simp_all [pSig, Ext.type]
theorem pGrp_type : ∀ y b, pGrp y = some b → y.type = 10 := by intro y b h; cases y <;> simp_all [pGrp, Ext.type]
theorem pPf_type : ∀ y b, pPf y = some b → y.type = 11 := by intro y b h; cases y <;> simp_all [pPf, Ext.type]
theorem pSv_type : ∀ y b, pSv y = some b → y.type = 43 := by intro y b h; cases y <;> simp_all [pSv, Ext.type]

/-- the accumulator `extract_tls_signature_from_client_hello` must end with, read off the abstract list -/
def accSpec (es : List Ext) : Acc :=
  { extensions := (es.map Ext.type).filter (fun t => !isGrease t),
    sni := match es.findSome? pSni with | some ((_, h) :: _) => utf8? h | _ => none,
    alpn := match es.findSome? pAlpn with | some (p :: _) => utf8? p | _ => none,
    sigAlgs := (es.findSome? pSig).getD [],
    curves := (es.findSome? pGrp).getD [],
    pointFormats := ((es.findSome? pPf).getD []).map (·.toNat),
    supportedVersions := es.findSome? pSv }

theorem isGrease_false_of_not_greaseLike (t : Nat) (h : greaseLike t = false) : isGrease t = false := by
  cases hg : isGrease t with
  | false => rfl
  | true =>
    have := greaseLike_of_isGrease t ((isGrease_iff t).mp hg)
    rw [h] at this; cases this

theorem isGrease_fafa : isGrease 0xfafa = true := by decide

theorem type_toExtV (x : Ext) : (toExtV x).type = x.type := by
  cases x with
  | other t b => by_cases h : greaseLike t = true <;> simp [toExtV, ExtV.type, Ext.type, h]
  | _ => rfl

/-- one step of the extraction loop -/
theorem step_accSpec (bodyOk : Nat → Bytes → Bool) (l : List Ext) (x : Ext) (hx : x.WF bodyOk)
    (hno : ∀ t ∈ decodedTypes, x.type = t → ∀ y ∈ l, y.type ≠ t) :
    Acc.step (accSpec l) (toExtV x) = accSpec (l ++ [x]) := by
  cases x with
  | serverName ns =>
    have h0 := findSome_none pSni 0 pSni_type l (hno 0 (by decide) rfl)
    cases ns with
    | nil => exact absurd hx.2.2 (by simp)
    | cons n t =>
      obtain ⟨a, h⟩ := n
      simp [Acc.step, toExtV, accSpec, ExtV.type, Ext.type, (by decide : isGrease 0 = false),
        List.findSome?_append, List.findSome?_cons, h0, pSni, pAlpn, pSig, pGrp, pPf, pSv, List.filter_append]
  | alpn ps =>
    have h0 := findSome_none pAlpn 16 pAlpn_type l (hno 16 (by decide) rfl)
    cases ps with
    | nil => exact absurd hx.1 (by simp)
    | cons p t =>
      simp [Acc.step, toExtV, accSpec, ExtV.type, Ext.type, (by decide : isGrease 16 = false),
        List.findSome?_append, List.findSome?_cons, h0, pSni, pAlpn, pSig, pGrp, pPf, pSv, List.filter_append]
  | supportedVersions vs =>
    have h0 := findSome_none pSv 43 pSv_type l (hno 43 (by decide) rfl)
    simp [Acc.step, toExtV, accSpec, ExtV.type, Ext.type, (by decide : isGrease 43 = false),
      List.findSome?_append, List.findSome?_cons, h0, pSni, pAlpn, pSig, pGrp, pPf, pSv, List.filter_append]
  | signatureAlgorithms xs =>
    have h0 := findSome_none pSig 13 pSig_type l (hno 13 (by decide) rfl)
    simp [Acc.step, toExtV, accSpec, ExtV.type, Ext.type, (by decide : isGrease 13 = false),
      List.findSome?_append, List.findSome?_cons, h0, pSni, pAlpn, pSig, pGrp, pPf, pSv, List.filter_append]
  | supportedGroups xs =>
    have h0 := findSome_none pGrp 10 pGrp_type l (hno 10 (by decide) rfl)
    simp [Acc.step, toExtV, accSpec, ExtV.type, Ext.type, (by decide : isGrease 10 = false),
      List.findSome?_append, List.findSome?_cons, h0, pSni, pAlpn, pSig, pGrp, pPf, pSv, List.filter_append]
  | ecPointFormats f =>
    have h0 := findSome_none pPf 11 pPf_type l (hno 11 (by decide) rfl)
    simp [Acc.step, toExtV, accSpec, ExtV.type, Ext.type, (by decide : isGrease 11 = false),
      List.findSome?_append, List.findSome?_cons, h0, pSni, pAlpn, pSig, pGrp, pPf, pSv, List.filter_append]
  | other t b =>
    by_cases hg : greaseLike t = true
    · cases hi : isGrease t <;>
        simp [Acc.step, toExtV, accSpec, ExtV.type, Ext.type, hg, hi,
          List.findSome?_append, List.findSome?_cons, pSni, pAlpn, pSig, pGrp, pPf, pSv, List.filter_append]
    · have hg' : greaseLike t = false := by simpa using hg
      simp [Acc.step, toExtV, accSpec, ExtV.type, Ext.type, hg', isGrease_false_of_not_greaseLike t hg',
        List.findSome?_append, List.findSome?_cons, pSni, pAlpn, pSig, pGrp, pPf, pSv, List.filter_append]

theorem distinct_append (l : List Ext) (x : Ext) (h : distinctDecoded (l ++ [x])) :
    distinctDecoded l ∧ ∀ t ∈ decodedTypes, x.type = t → ∀ y ∈ l, y.type ≠ t := by
  constructor
  · intro t ht
    have := h t ht
    simp only [List.map_append, List.filter_append, List.length_append] at this
    omega
  · intro t ht hxt y hy hyt
    have := h t ht
    simp only [List.map_append, List.filter_append, List.length_append, List.map_cons, List.map_nil] at this
    have h1 : (List.filter (fun x => decide (x = t)) [x.type]).length = 1 := by simp [hxt]
    have h2 : 0 < (List.filter (fun x => decide (x = t)) (l.map Ext.type)).length := by
      apply List.length_pos_of_mem (a := t)
      rw [List.mem_filter]
      exact ⟨List.mem_map.mpr ⟨y, hy, hyt⟩, by simp⟩
    omega

/-- the whole loop, by induction from the right -/
theorem fold_accSpec (bodyOk : Nat → Bytes → Bool) :
    ∀ (r : List Ext), (∀ x ∈ r.reverse, x.WF bodyOk) → distinctDecoded r.reverse →
      (r.reverse.map toExtV).foldl Acc.step {} = accSpec r.reverse := by
  intro r
  induction r with
  | nil => intro _ _; rfl
  | cons x t ih =>
    intro hwf hd
    simp only [List.reverse_cons] at hwf hd ⊢
    obtain ⟨hd1, hno⟩ := distinct_append _ _ hd
    rw [List.map_append, List.foldl_append, ih (fun y hy => hwf y (by simp [hy])) hd1]
    simp only [List.map_cons, List.map_nil, List.foldl_cons, List.foldl_nil]
    exact step_accSpec bodyOk _ x (hwf x (by simp)) hno

theorem fold_accSpec' (bodyOk : Nat → Bytes → Bool) (es : List Ext) (hwf : ∀ x ∈ es, x.WF bodyOk)
    (hd : distinctDecoded es) : (es.map toExtV).foldl Acc.step {} = accSpec es := by
  have := fold_accSpec bodyOk es.reverse (by simpa using hwf) (by simpa using hd)
  simpa using this

/-- `extract_tls_signature_from_client_hello` on the parsed hello of a well-formed `ch` -/
theorem extractSig_helloOf (bodyOk : Nat → Bytes → Bool) (ch : ClientHello) (h : ch.WF bodyOk) :
    extractSig bodyOk (helloOf ch) =
      { version := versionOf ch.legacyVersion (accSpec ch.exts),
        ciphers := filterGrease ch.ciphers,
        extensions := (accSpec ch.exts).extensions,
        curves := (accSpec ch.exts).curves, pointFormats := (accSpec ch.exts).pointFormats,
        sigAlgs := (accSpec ch.exts).sigAlgs, sni := (accSpec ch.exts).sni, alpn := (accSpec ch.exts).alpn } := by
  obtain ⟨_, _, _, _, _, _, _, hwf, hd, _, _⟩ := h
  unfold extractSig helloOf
  have hxs : parsedExts bodyOk (Option.map (fun es => List.flatMap Ext.encode es) ch.extensions)
      = ch.exts.map toExtV := by
    cases hx : ch.extensions with
    | none => simp [ClientHello.exts, hx, parsedExts]
    | some es =>
      simp only [Option.map_some, ClientHello.exts, hx, Option.getD_some, parsedExts]
      exact parseExts_encode bodyOk es (by simpa [ClientHello.exts, hx] using hwf) _ (length_le_flatMap_encode es)
  simp only [hxs, fold_accSpec' bodyOk ch.exts hwf hd]

end Huginn.Lemmas.Ja4Extract
