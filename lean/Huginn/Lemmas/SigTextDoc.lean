import Huginn.Lemmas.SigTextLoad
/-
C06 loader: from single lines to sections to whole documents.
-/
namespace Huginn.SigText
open Huginn.Sig Huginn.SigText.Spec
set_option linter.unusedSimpArgs false

/-! ### folding lines -/

theorem loadLines_append (st : LoadState) (a b : List Str) :
    loadLines st (a ++ b) = (match loadLines st a with | .ok st' => loadLines st' b | .error e => .error e) := by
  induction a generalizing st with
  | nil => rfl
  | cons l a ih =>
    simp only [List.cons_append, loadLines]
    cases loadLine st l with
    | error e => rfl
    | ok st' => exact ih st'

/-! ### `classes` / `ua_os` contributions -/

def addMisc (db : Db) (m : Misc) : Db :=
  { db with classes := db.classes ++ miscClasses m, uaOs := db.uaOs ++ miscUaOs m }

/-- a misc line the loader reads completely (every well-formed one, since the `ua_os` fix) -/
abbrev MiscOk (m : Misc) : Prop := WFMisc m

theorem loadLine_misc (st : LoadState) {m : Misc} (h : MiscOk m) :
    loadLine st (stripCr (renderMisc m)) = .ok { st with db := addMisc st.db m } := by
  rw [loadLine_stripCr]
  have wf : WFMisc m := h
  cases m with
  | comment lead text =>
    have : addMisc st.db (.comment lead text) = st.db := by simp [addMisc, miscClasses, miscUaOs]
    rw [this]; exact loadLine_comment st wf.1 text
  | blank ws =>
    have : addMisc st.db (.blank ws) = st.db := by simp [addMisc, miscClasses, miscUaOs]
    rw [this]; exact loadLine_blank st wf
  | classes pad cs =>
    have := loadLine_classes st wf.1 wf.2.1 wf.2.2
    simpa [renderMisc, addMisc, miscClasses, miscUaOs] using this
  | uaOs pad rs =>
    have := loadLine_uaOs st wf.1 wf.2.1 wf.2.2
    simpa [renderMisc, addMisc, miscClasses, miscUaOs] using this

/-! ### tables as lenses into `Db` -/

structure Lens (κ σ : Type) where
  get : Db → List (κ × List σ)
  set : Db → List (κ × List σ) → Db
  get_set : ∀ db t, get (set db t) = t
  set_set : ∀ db t t', set (set db t) t' = set db t'
  set_get : ∀ db, set db (get db) = db
  get_addMisc : ∀ db m, get (addMisc db m) = get db
  set_addMisc : ∀ db m t, set (addMisc db m) t = addMisc (set db t) m

def lensTcpReq : Lens Label TcpSig :=
  ⟨(·.tcpReq), fun db t => { db with tcpReq := t }, fun _ _ => rfl, fun _ _ _ => rfl, fun _ => rfl,
   fun _ _ => rfl, fun _ _ _ => rfl⟩
def lensTcpResp : Lens Label TcpSig :=
  ⟨(·.tcpResp), fun db t => { db with tcpResp := t }, fun _ _ => rfl, fun _ _ _ => rfl, fun _ => rfl,
   fun _ _ => rfl, fun _ _ _ => rfl⟩
def lensHttpReq : Lens Label HttpSig :=
  ⟨(·.httpReq), fun db t => { db with httpReq := t }, fun _ _ => rfl, fun _ _ _ => rfl, fun _ => rfl,
   fun _ _ => rfl, fun _ _ _ => rfl⟩
def lensHttpResp : Lens Label HttpSig :=
  ⟨(·.httpResp), fun db t => { db with httpResp := t }, fun _ _ => rfl, fun _ _ _ => rfl, fun _ => rfl,
   fun _ _ => rfl, fun _ _ _ => rfl⟩
def lensMtu : Lens Str Nat :=
  ⟨(·.mtu), fun db t => { db with mtu := t }, fun _ _ => rfl, fun _ _ _ => rfl, fun _ => rfl,
   fun _ _ => rfl, fun _ _ _ => rfl⟩

/-! ### the effect of a section's items -/

def stepItem {κ σ lab σ'} (L : Lens κ σ) (f : lab → κ) (g : σ' → σ) (db : Db) : Item lab σ' → Db
  | .misc m => addMisc db m
  | .label _ l => L.set db (L.get db ++ [(f l, [])])
  | .sig _ s => L.set db ((pushLast (L.get db) (g s)).getD (L.get db))
  | .sys _ _ => db

theorem pushLast_getD_ne_nil {κ σ} (t : List (κ × List σ)) (x : σ) (h : t ≠ []) : (pushLast t x).getD t ≠ [] := by
  cases hp : pushLast t x with
  | none => simpa using h
  | some t' =>
    simp only [Option.getD_some]
    intro e; subst e
    cases t with
    | nil => exact h rfl
    | cons a r =>
      cases r with
      | nil => obtain ⟨l, v⟩ := a; simp [pushLast] at hp
      | cons b r' => simp [pushLast] at hp

/-- Items processed one by one: the generic induction.  `hitem` is the per-line fact for the section
kind at hand (a `sig` line needs a non-empty table). -/
theorem loadLines_items {κ σ lab σ'} (L : Lens κ σ) (f : lab → κ) (g : σ' → σ)
    (prL : lab → Str) (prS : σ' → Str) (ok : Item lab σ' → Prop) (md : Str × Option Str)
    (hitem : ∀ db it, ok it → ((∃ p s, it = .sig p s) → L.get db ≠ []) →
      loadLine ⟨db, some md⟩ (stripCr (renderItem prL prS it)) = .ok ⟨stepItem L f g db it, some md⟩)
    (items : List (Item lab σ')) (db : Db) (hok : ∀ it ∈ items, ok it)
    (hno : NoOrphan items ∨ L.get db ≠ []) :
    loadLines ⟨db, some md⟩ (items.map (fun it => stripCr (renderItem prL prS it))) =
      .ok ⟨items.foldl (stepItem L f g) db, some md⟩ := by
  induction items generalizing db with
  | nil => rfl
  | cons it items ih =>
    have hok' : ∀ x ∈ items, ok x := fun x hx => hok x (List.mem_cons_of_mem _ hx)
    have hsig : (∃ p s, it = Item.sig p s) → L.get db ≠ [] := by
      rintro ⟨p, s, rfl⟩
      rcases hno with h | h
      · simp [NoOrphan, takeSigs] at h
      · exact h
    simp only [List.map_cons, loadLines, hitem db it (hok it List.mem_cons_self) hsig, List.foldl_cons]
    apply ih _ hok'
    cases it with
    | misc m =>
      rcases hno with h | h
      · left; simpa [NoOrphan, takeSigs] using h
      · right; simpa [stepItem, L.get_addMisc] using h
    | label p l => right; simp [stepItem, L.get_set]
    | sys p t =>
      rcases hno with h | h
      · left; simpa [NoOrphan, takeSigs] using h
      · right; simpa [stepItem] using h
    | sig p s =>
      right
      simp only [stepItem, L.get_set]
      exact pushLast_getD_ne_nil _ _ (hsig ⟨p, s, rfl⟩)

/-! ### closed form of the fold -/

theorem pushLast_snoc {κ σ} (T : List (κ × List σ)) (l : κ) (ss : List σ) (x : σ) :
    pushLast (T ++ [(l, ss)]) x = some (T ++ [(l, ss ++ [x])]) := by
  induction T with
  | nil => simp [pushLast]
  | cons e T ih =>
    cases hT : T ++ [(l, ss)] with
    | nil => simp at hT
    | cons f r =>
      simp only [List.cons_append, hT, pushLast]
      rw [← hT, ih]; simp

def absorbT {κ σ lab σ'} (f : lab → κ) (g : σ' → σ) (T : List (κ × List σ)) : List (Item lab σ') → List (κ × List σ)
  | [] => T
  | .label _ l :: r => absorbT f g (T ++ [(f l, [])]) r
  | .sig _ s :: r => absorbT f g ((pushLast T (g s)).getD T) r
  | _ :: r => absorbT f g T r

theorem absorbT_snoc {κ σ lab σ'} (f : lab → κ) (g : σ' → σ) (T : List (κ × List σ)) (l : κ) (ss : List σ)
    (items : List (Item lab σ')) :
    absorbT f g (T ++ [(l, ss)]) items =
      T ++ [(l, ss ++ (takeSigs items).map g)] ++ mapTable f g (group items) := by
  induction items generalizing T l ss with
  | nil => simp [absorbT, takeSigs, group, mapTable]
  | cons it items ih =>
    cases it with
    | misc m => simpa [absorbT, takeSigs, group] using ih T l ss
    | sys p t => simpa [absorbT, takeSigs, group] using ih T l ss
    | label p l' =>
      have := ih (T ++ [(l, ss)]) (f l') []
      simp only [absorbT, takeSigs, group, List.map_nil, List.append_nil]
      rw [this]
      simp [mapTable]
    | sig p s =>
      simp only [absorbT, pushLast_snoc, Option.getD_some, takeSigs, group, List.map_cons]
      rw [ih T l (ss ++ [g s])]
      simp

theorem absorbT_noOrphan {κ σ lab σ'} (f : lab → κ) (g : σ' → σ) (T : List (κ × List σ))
    (items : List (Item lab σ')) (h : NoOrphan items) :
    absorbT f g T items = T ++ mapTable f g (group items) := by
  induction items generalizing T with
  | nil => simp [absorbT, group, mapTable]
  | cons it items ih =>
    cases it with
    | misc m => exact ih T (by simpa [NoOrphan, takeSigs] using h)
    | sys p t => exact ih T (by simpa [NoOrphan, takeSigs] using h)
    | sig p s => simp [NoOrphan, takeSigs] at h
    | label p l =>
      simp only [absorbT, group]
      rw [absorbT_snoc]
      simp [mapTable]

def addMiscs (db : Db) (ms : List Misc) : Db := ms.foldl addMisc db

theorem addMiscs_eq (db : Db) (ms : List Misc) :
    addMiscs db ms = { db with classes := db.classes ++ ms.flatMap miscClasses,
                               uaOs := db.uaOs ++ ms.flatMap miscUaOs } := by
  induction ms generalizing db with
  | nil => simp [addMiscs]
  | cons m ms ih =>
    simp only [addMiscs, List.foldl_cons] at ih ⊢
    rw [ih]
    simp [addMisc, List.flatMap_cons, List.append_assoc]

theorem foldl_stepItem {κ σ lab σ'} (L : Lens κ σ) (f : lab → κ) (g : σ' → σ) (items : List (Item lab σ'))
    (db : Db) :
    items.foldl (stepItem L f g) db = addMiscs (L.set db (absorbT f g (L.get db) items)) (miscsOf items) := by
  induction items generalizing db with
  | nil => simp [absorbT, miscsOf, addMiscs, L.set_get]
  | cons it items ih =>
    simp only [List.foldl_cons]
    rw [ih]
    cases it with
    | misc m =>
      simp only [stepItem, absorbT, L.get_addMisc, L.set_addMisc, miscsOf, List.filterMap_cons, addMiscs,
        List.foldl_cons]
    | label p l => simp [stepItem, absorbT, L.get_set, L.set_set, miscsOf]
    | sig p s => simp [stepItem, absorbT, L.get_set, L.set_set, miscsOf]
    | sys p t => simp [stepItem, absorbT, miscsOf]

end Huginn.SigText

namespace Huginn.SigText
open Huginn.Sig Huginn.SigText.Spec
set_option linter.unusedSimpArgs false

/-! ### the four signature tables and the MTU table -/

def tcpKw : Str := "tcp".toList
def httpKw : Str := "http".toList
def dirKw (resp : Bool) : Str := if resp then "response".toList else "request".toList

theorem tcpKw_ne_mtu : tcpKw ≠ mtuKw := by decide
theorem httpKw_ne_mtu : httpKw ≠ mtuKw := by decide

def tcpLens (resp : Bool) : Lens Label TcpSig := if resp then lensTcpResp else lensTcpReq
def httpLens (resp : Bool) : Lens Label HttpSig := if resp then lensHttpResp else lensHttpReq

/-- item of a section that the loader reads completely -/
abbrev ItemOk {lab σ} (wl : lab → Prop) (pl : lab → Str) (ws : σ → Prop) (ps : σ → Str) (it : Item lab σ) : Prop :=
  WFItem wl pl ws ps it

theorem tcp_item (resp : Bool) (db : Db) (it : Item LabelL TcpSig)
    (hok : ItemOk WFLabel renderLabel WFTcp printTcpSig it)
    (hne : (∃ p s, it = .sig p s) → (tcpLens resp).get db ≠ []) :
    loadLine ⟨db, some (tcpKw, some (dirKw resp))⟩ (stripCr (renderItem renderLabel printTcpSig it)) =
      .ok ⟨stepItem (tcpLens resp) LabelL.toSig id db it, some (tcpKw, some (dirKw resp))⟩ := by
  have wf := hok
  cases it with
  | misc m => exact loadLine_misc _ wf
  | sys p t =>
    rw [loadLine_stripCr]
    simp only [renderItem]
    rw [loadLine_named _ rfl wf.1 (Or.inr (Or.inr rfl)) wf.2, loadNamed_sys _ _ _ wf.1 wf.2]; rfl
  | label p l =>
    rw [loadLine_stripCr]
    simp only [renderItem]
    rw [loadLine_named _ rfl wf.1 (Or.inl rfl) wf.2.2, loadNamed_label _ _ tcpKw_ne_mtu wf.1 l wf.2.1 wf.2.2]
    cases resp <;> rfl
  | sig p s =>
    have hs := parseTcpSigFull_print s wf.2.1
    have hne' := hne ⟨p, s, rfl⟩
    rw [loadLine_stripCr]
    simp only [renderItem]
    rw [loadLine_named _ rfl wf.1 (Or.inr (Or.inl rfl)) wf.2.2]
    cases resp with
    | false =>
      rw [loadNamed_sig_tcpReq _ (by decide) tcpKw_ne_mtu wf.1 wf.2.2 hs hne']; rfl
    | true =>
      rw [loadNamed_sig_tcpResp _ (by decide) tcpKw_ne_mtu wf.1 wf.2.2 hs hne']; rfl

theorem parseHttpSigFull_print (s : HttpSigL) (wf : WFHttpL s) :
    parseHttpSigFull (printHttpSigL s) = some s.toSig := by
  simp [parseHttpSigFull, parseHttpSigFullL_print s wf]

theorem http_item (resp : Bool) (db : Db) (it : Item LabelL HttpSigL)
    (hok : ItemOk WFLabel renderLabel WFHttpL printHttpSigL it)
    (hne : (∃ p s, it = .sig p s) → (httpLens resp).get db ≠ []) :
    loadLine ⟨db, some (httpKw, some (dirKw resp))⟩ (stripCr (renderItem renderLabel printHttpSigL it)) =
      .ok ⟨stepItem (httpLens resp) LabelL.toSig HttpSigL.toSig db it, some (httpKw, some (dirKw resp))⟩ := by
  have wf := hok
  cases it with
  | misc m => exact loadLine_misc _ wf
  | sys p t =>
    rw [loadLine_stripCr]
    simp only [renderItem]
    rw [loadLine_named _ rfl wf.1 (Or.inr (Or.inr rfl)) wf.2, loadNamed_sys _ _ _ wf.1 wf.2]; rfl
  | label p l =>
    rw [loadLine_stripCr]
    simp only [renderItem]
    rw [loadLine_named _ rfl wf.1 (Or.inl rfl) wf.2.2, loadNamed_label _ _ httpKw_ne_mtu wf.1 l wf.2.1 wf.2.2]
    cases resp <;> rfl
  | sig p s =>
    have hs := parseHttpSigFull_print s wf.2.1
    have hne' := hne ⟨p, s, rfl⟩
    rw [loadLine_stripCr]
    simp only [renderItem]
    rw [loadLine_named _ rfl wf.1 (Or.inr (Or.inl rfl)) wf.2.2]
    cases resp with
    | false =>
      rw [loadNamed_sig_httpReq _ (by decide) httpKw_ne_mtu wf.1 wf.2.2 hs hne']; rfl
    | true =>
      rw [loadNamed_sig_httpResp _ (by decide) httpKw_ne_mtu wf.1 wf.2.2 hs hne']; rfl

theorem mtu_item (db : Db) (it : Item Str Nat)
    (hok : ItemOk (fun _ => True) id (fun n => n ≤ 65535) natDigits it)
    (hne : (∃ p s, it = .sig p s) → lensMtu.get db ≠ []) :
    loadLine ⟨db, some (mtuKw, none)⟩ (stripCr (renderItem id natDigits it)) =
      .ok ⟨stepItem lensMtu id id db it, some (mtuKw, none)⟩ := by
  have wf := hok
  cases it with
  | misc m => exact loadLine_misc _ wf
  | sys p t =>
    rw [loadLine_stripCr]
    simp only [renderItem]
    rw [loadLine_named _ rfl wf.1 (Or.inr (Or.inr rfl)) wf.2, loadNamed_sys _ _ _ wf.1 wf.2]; rfl
  | label p l =>
    rw [loadLine_stripCr]
    simp only [renderItem]
    rw [loadLine_named _ rfl wf.1 (Or.inl rfl) wf.2.2, loadNamed_label_mtu _ _ wf.1 wf.2.2]; rfl
  | sig p n =>
    rw [loadLine_stripCr]
    simp only [renderItem]
    rw [loadLine_named _ rfl wf.1 (Or.inr (Or.inl rfl)) wf.2.2,
      loadNamed_sig_mtu _ _ wf.1 wf.2.1 wf.2.2 (hne ⟨p, n, rfl⟩)]; rfl

def stepOther (db : Db) : Item LabelL Str → Db
  | .misc m => addMisc db m
  | _ => db

theorem tableOf_unknown {m : Str} {d : Option Str} (hk : knownModule m d = false) :
    m ≠ mtuKw ∧ tableOf m d = none := by
  constructor
  · intro e; subst e; revert hk; simp [knownModule, mtuKw]
  · revert hk
    simp only [knownModule, tableOf, Bool.or_eq_false_iff, Bool.and_eq_false_iff, beq_eq_false_iff_ne, ne_eq]
    intro h
    by_cases h1 : m = "tcp".toList <;> by_cases h2 : m = "http".toList <;>
      by_cases h3 : d = some "request".toList <;> by_cases h4 : d = some "response".toList <;>
      simp_all

theorem other_item {m : Str} {d : Option Str} (hk : knownModule m d = false) (db : Db) (it : Item LabelL Str)
    (hok : ItemOk WFLabel renderLabel (fun _ => True) id it) :
    loadLine ⟨db, some (m, d)⟩ (stripCr (renderItem renderLabel id it)) = .ok ⟨stepOther db it, some (m, d)⟩ := by
  obtain ⟨hm, ht⟩ := tableOf_unknown hk
  have wf := hok
  cases it with
  | misc mm => exact loadLine_misc _ wf
  | sys p t =>
    rw [loadLine_stripCr]
    simp only [renderItem]
    rw [loadLine_named _ rfl wf.1 (Or.inr (Or.inr rfl)) wf.2, loadNamed_sys _ _ _ wf.1 wf.2]; rfl
  | label p l =>
    rw [loadLine_stripCr]
    simp only [renderItem]
    rw [loadLine_named _ rfl wf.1 (Or.inl rfl) wf.2.2, loadNamed_label _ _ hm wf.1 l wf.2.1 wf.2.2, ht]; rfl
  | sig p s =>
    rw [loadLine_stripCr]
    simp only [renderItem]
    rw [loadLine_named _ rfl wf.1 (Or.inr (Or.inl rfl)) wf.2.2, loadNamed_sig_other _ ht hm wf.1 wf.2.2]; rfl

/-- a module the loader does not know: only the misc lines have an effect -/
theorem other_items {m : Str} {d : Option Str} (hk : knownModule m d = false)
    (items : List (Item LabelL Str)) (db : Db)
    (hok : ∀ it ∈ items, ItemOk WFLabel renderLabel (fun _ => True) id it) :
    loadLines ⟨db, some (m, d)⟩ (items.map (fun it => stripCr (renderItem renderLabel id it))) =
      .ok ⟨addMiscs db (miscsOf items), some (m, d)⟩ := by
  induction items generalizing db with
  | nil => rfl
  | cons it items ih =>
    have hok' : ∀ x ∈ items, ItemOk WFLabel renderLabel (fun _ => True) id x :=
      fun x hx => hok x (List.mem_cons_of_mem _ hx)
    simp only [List.map_cons, loadLines, other_item hk db it (hok it List.mem_cons_self)]
    rw [ih _ hok']
    cases it <;> simp [stepOther, miscsOf, addMiscs]

end Huginn.SigText

namespace Huginn.SigText
open Huginn.Sig Huginn.SigText.Spec
set_option linter.unusedSimpArgs false

/-! ### one section -/

def Db.append (a b : Db) : Db :=
  { classes := a.classes ++ b.classes, mtu := a.mtu ++ b.mtu, uaOs := a.uaOs ++ b.uaOs,
    tcpReq := a.tcpReq ++ b.tcpReq, tcpResp := a.tcpResp ++ b.tcpResp,
    httpReq := a.httpReq ++ b.httpReq, httpResp := a.httpResp ++ b.httpResp }

/-- what a single section contributes -/
def secDb (s : Section) : Db := flatten ⟨[], [s]⟩

def modOf : Section → Str × Option Str
  | .tcp _ _ r _ => (tcpKw, some (dirKw r))
  | .http _ _ r _ => (httpKw, some (dirKw r))
  | .mtu _ _ _ => (mtuKw, none)
  | .other _ _ m d _ => (m, d)

/-- a section the loader reads completely: every well-formed one -/
abbrev SectionOk (s : Section) : Prop := WFSection s

theorem mem_miscsOf {lab σ} {items : List (Item lab σ)} {m : Misc} (h : Item.misc m ∈ items) :
    m ∈ miscsOf items := by
  simp only [miscsOf, List.mem_filterMap]
  exact ⟨_, h, rfl⟩

theorem tcp_header_name (resp : Bool) :
    (if resp then "tcp:response".toList else "tcp:request".toList) = modName tcpKw (some (dirKw resp)) := by
  cases resp <;> decide
theorem http_header_name (resp : Bool) :
    (if resp then "http:response".toList else "http:request".toList) = modName httpKw (some (dirKw resp)) := by
  cases resp <;> decide
theorem mtu_header_name : "mtu".toList = modName mtuKw none := by decide

theorem alpha_tcp : alpha1P tcpKw := by decide
theorem alpha_http : alpha1P httpKw := by decide
theorem alpha_mtu : alpha1P mtuKw := by decide
theorem alpha_dir (resp : Bool) : ∀ x ∈ some (dirKw resp), alpha1P x := by
  intro x hx; cases resp <;> (simp [dirKw] at hx; subst hx; decide)

theorem alpha_none : ∀ x ∈ (none : Option Str), alpha1P x := fun x hx => by cases hx

theorem loadLine_header' (st : LoadState) {lead trail : Str} (hl : allWs lead) (ht : allWs trail)
    {m : Str} {d : Option Str} (hm : alpha1P m) (hd : ∀ x ∈ d, alpha1P x) :
    loadLine st (stripCr (header lead trail (modName m d))) = .ok { st with curMod := some (m, d) } := by
  rw [loadLine_stripCr]; exact loadLine_header st hl ht hm hd

theorem load_section (s : Section) (h : SectionOk s) (st : LoadState) :
    loadLines st ((sectionLines s).map stripCr) = .ok ⟨st.db.append (secDb s), some (modOf s)⟩ := by
  have wf : WFSection s := h
  cases s with
  | tcp lead trail resp items =>
    obtain ⟨hl, ht, hno, hit⟩ := wf
    have hok : ∀ it ∈ items, ItemOk WFLabel renderLabel WFTcp printTcpSig it := hit
    simp only [sectionLines, List.map_cons, loadLines, tcp_header_name,
      loadLine_header' st hl ht alpha_tcp (alpha_dir resp), List.map_map, Function.comp_def]
    rw [loadLines_items (tcpLens resp) LabelL.toSig id renderLabel printTcpSig _ _
      (fun db it ho hne => tcp_item resp db it ho hne) items st.db hok (Or.inl hno),
      foldl_stepItem, absorbT_noOrphan _ _ _ _ hno, addMiscs_eq]
    cases resp <;>
      simp [tcpLens, lensTcpReq, lensTcpResp, Db.append, secDb, flatten, allMiscs, sectionMiscs, modOf,
        mapTable, miscClasses, miscUaOs]
  | http lead trail resp items =>
    obtain ⟨hl, ht, hno, hit⟩ := wf
    have hok : ∀ it ∈ items, ItemOk WFLabel renderLabel WFHttpL printHttpSigL it := hit
    simp only [sectionLines, List.map_cons, loadLines, http_header_name,
      loadLine_header' st hl ht alpha_http (alpha_dir resp), List.map_map, Function.comp_def]
    rw [loadLines_items (httpLens resp) LabelL.toSig HttpSigL.toSig renderLabel printHttpSigL _ _
      (fun db it ho hne => http_item resp db it ho hne) items st.db hok (Or.inl hno),
      foldl_stepItem, absorbT_noOrphan _ _ _ _ hno, addMiscs_eq]
    cases resp <;>
      simp [httpLens, lensHttpReq, lensHttpResp, Db.append, secDb, flatten, allMiscs, sectionMiscs, modOf,
        mapTable, miscClasses, miscUaOs]
  | mtu lead trail items =>
    obtain ⟨hl, ht, hno, hit⟩ := wf
    have hok : ∀ it ∈ items, ItemOk (fun _ => True) id (fun n => n ≤ 65535) natDigits it := hit
    simp only [sectionLines, List.map_cons, loadLines, mtu_header_name,
      loadLine_header' st hl ht alpha_mtu alpha_none, List.map_map, Function.comp_def]
    rw [loadLines_items lensMtu id id id natDigits _ _
      (fun db it ho hne => mtu_item db it ho hne) items st.db hok (Or.inl hno),
      foldl_stepItem, absorbT_noOrphan _ _ _ _ hno, addMiscs_eq]
    simp [lensMtu, Db.append, secDb, flatten, allMiscs, sectionMiscs, modOf, mapTable, miscClasses, miscUaOs]
  | other lead trail m d items =>
    obtain ⟨hl, ht, hm, hd, hk, hit⟩ := wf
    have hok : ∀ it ∈ items, ItemOk WFLabel renderLabel (fun _ => True) id it := hit
    simp only [sectionLines, List.map_cons, loadLines, loadLine_header' st hl ht hm hd,
      List.map_map, Function.comp_def]
    rw [other_items hk items st.db hok, addMiscs_eq]
    simp [Db.append, secDb, flatten, allMiscs, sectionMiscs, modOf, miscClasses, miscUaOs]

end Huginn.SigText

namespace Huginn.SigText
open Huginn.Sig Huginn.SigText.Spec
set_option linter.unusedSimpArgs false

/-! ### whole documents -/

/-- a document the loader reads completely: every well-formed one -/
abbrev DocOk (d : Doc) : Prop := WFDoc d

theorem DocOk.pre {d : Doc} (h : DocOk d) : ∀ m ∈ d.pre, MiscOk m := WFDoc.pre h
theorem DocOk.section {d : Doc} (h : DocOk d) : ∀ s ∈ d.sections, SectionOk s := WFDoc.sections h

theorem load_pre (pre : List Misc) (h : ∀ m ∈ pre, MiscOk m) (st : LoadState) :
    loadLines st (pre.map (fun m => stripCr (renderMisc m))) = .ok { st with db := addMiscs st.db pre } := by
  induction pre generalizing st with
  | nil => rfl
  | cons m pre ih =>
    simp only [List.map_cons, loadLines, loadLine_misc st (h m List.mem_cons_self)]
    rw [ih (fun x hx => h x (List.mem_cons_of_mem _ hx))]
    simp [addMiscs]

def lastMod (cur : Option (Str × Option Str)) (secs : List Section) : Option (Str × Option Str) :=
  match secs.getLast? with
  | some s => some (modOf s)
  | none => cur

theorem load_sections (secs : List Section) (h : ∀ s ∈ secs, SectionOk s) (st : LoadState) :
    loadLines st (secs.flatMap (fun s => (sectionLines s).map stripCr)) =
      .ok ⟨secs.foldl (fun acc s => acc.append (secDb s)) st.db, lastMod st.curMod secs⟩ := by
  induction secs generalizing st with
  | nil => rfl
  | cons s secs ih =>
    simp only [List.flatMap_cons, loadLines_append, load_section s (h s List.mem_cons_self) st]
    rw [ih (fun x hx => h x (List.mem_cons_of_mem _ hx))]
    simp only [List.foldl_cons, lastMod]
    cases hs : secs.getLast? with
    | none =>
      have : secs = [] := List.getLast?_eq_none_iff.mp hs
      subst this; simp
    | some z =>
      have : (s :: secs).getLast? = some z := by
        rw [List.getLast?_cons, hs]; rfl
      simp [this]

theorem flatten_snoc (pre : List Misc) (secs : List Section) (s : Section) :
    flatten ⟨pre, secs ++ [s]⟩ = (flatten ⟨pre, secs⟩).append (secDb s) := by
  simp [flatten, Db.append, secDb, allMiscs, List.flatMap_append, List.append_assoc]

theorem flatten_fold (pre : List Misc) (done rest : List Section) :
    rest.foldl (fun acc s => acc.append (secDb s)) (flatten ⟨pre, done⟩) = flatten ⟨pre, done ++ rest⟩ := by
  induction rest generalizing done with
  | nil => simp
  | cons s rest ih =>
    simp only [List.foldl_cons]
    rw [← flatten_snoc, ih]
    simp

theorem flatten_pre (pre : List Misc) : flatten ⟨pre, []⟩ = addMiscs {} pre := by
  rw [addMiscs_eq]
  simp [flatten, allMiscs]

/-- every line of the document, as `str::lines` hands it to the loader, processed from the empty state -/
theorem load_doc_lines (d : Doc) (h : DocOk d) :
    loadLines {} ((docLines d).map stripCr) = .ok ⟨flatten d, lastMod none d.sections⟩ := by
  obtain ⟨pre, secs⟩ := d
  simp only [docLines, List.map_append, List.map_map, Function.comp_def, List.map_flatMap, loadLines_append]
  rw [load_pre pre h.pre]
  have := load_sections secs h.section { db := addMiscs {} pre, curMod := none }
  simp only [Function.comp_def] at this ⊢
  rw [this, ← flatten_pre, flatten_fold]
  simp

end Huginn.SigText

namespace Huginn.SigText
open Huginn.Sig Huginn.SigText.Spec
set_option linter.unusedSimpArgs false

/-! ### no rendered line contains a line break -/

theorem noNl_allWs {s : Str} (h : allWs s) : '\n' ∉ s := fun hm => (h _ hm).2 rfl
theorem noNl_spaceTab {s : Str} (h : allSpaceTab s) : '\n' ∉ s := fun hm => by
  have := h _ hm; revert this; decide

theorem noNl_named {pad : Pad} (hp : WFPad pad) {n : String} (hn : '\n' ∉ n.toList) {v : Str} (hv : '\n' ∉ v) :
    '\n' ∉ named pad n v := by
  simp [named, noNl_allWs hp.lead, hn, noNl_spaceTab hp.pre, noNl_spaceTab hp.post, hv, noNl_allWs hp.trail]

theorem noNl_joinWith {xs : List Str} (h : ∀ x ∈ xs, '\n' ∉ x) : '\n' ∉ joinWith ',' xs := by
  induction xs with
  | nil => simp [joinWith]
  | cons x xs ih =>
    cases xs with
    | nil => simpa [joinWith] using h x List.mem_cons_self
    | cons y ys =>
      have := ih (fun z hz => h z (List.mem_cons_of_mem _ hz))
      simp [joinWith, h x List.mem_cons_self, this]

theorem noNl_renderMisc {m : Misc} (h : WFMisc m) : '\n' ∉ renderMisc m := by
  cases m with
  | comment lead text =>
    simp [renderMisc, noNl_allWs h.1, h.2]
  | blank ws => exact noNl_allWs h
  | classes pad cs =>
    exact noNl_named h.1 (by decide) (noNl_joinWith (fun x hx hm => by
      have := (h.2.2 x hx).2 _ hm; revert this; decide))
  | uaOs pad rs =>
    refine noNl_named h.1 (by decide) (noNl_joinWith ?_)
    intro x hx
    obtain ⟨r, hr, rfl⟩ := List.mem_map.mp hx
    obtain ⟨n, v⟩ := r
    have wf := h.2.2 _ hr
    cases v with
    | none => exact fun hm => (wf.2.1 _ hm).2.2 rfl
    | some v =>
      have h1 : '\n' ∉ n := fun hm => (wf.2.1 _ hm).2.2 rfl
      have h2 : '\n' ∉ v := fun hm => (wf.2.2.2.2 v rfl _ hm).2.2 rfl
      simp [renderRule, h1, h2]

theorem noNl_renderItem {lab σ} {wl : lab → Prop} {pl : lab → Str} {ws : σ → Prop} {ps : σ → Str}
    {it : Item lab σ} (h : WFItem wl pl ws ps it) : '\n' ∉ renderItem pl ps it := by
  cases it with
  | misc m => exact noNl_renderMisc h
  | label p l => exact noNl_named h.1 (by decide) h.2.2.2.1
  | sys p t => exact noNl_named h.1 (by decide) h.2.2.1
  | sig p s => exact noNl_named h.1 (by decide) h.2.2.2.1

theorem noNl_alpha {s : Str} (h : alpha1P s) : '\n' ∉ s := fun hm => by
  have := h.2 _ hm; revert this; decide

theorem noNl_header {lead trail name : Str} (hl : allWs lead) (ht : allWs trail) (hn : '\n' ∉ name) :
    '\n' ∉ header lead trail name := by
  simp [header, noNl_allWs hl, noNl_allWs ht, hn]

theorem noNl_sectionLines {s : Section} (h : WFSection s) : ∀ l ∈ sectionLines s, '\n' ∉ l := by
  cases s with
  | tcp lead trail resp items =>
    intro l hl
    simp only [sectionLines, List.mem_cons, List.mem_map] at hl
    rcases hl with rfl | ⟨it, hit, rfl⟩
    · exact noNl_header h.1 h.2.1 (by cases resp <;> decide)
    · exact noNl_renderItem (h.2.2.2 it hit)
  | http lead trail resp items =>
    intro l hl
    simp only [sectionLines, List.mem_cons, List.mem_map] at hl
    rcases hl with rfl | ⟨it, hit, rfl⟩
    · exact noNl_header h.1 h.2.1 (by cases resp <;> decide)
    · exact noNl_renderItem (h.2.2.2 it hit)
  | mtu lead trail items =>
    intro l hl
    simp only [sectionLines, List.mem_cons, List.mem_map] at hl
    rcases hl with rfl | ⟨it, hit, rfl⟩
    · exact noNl_header h.1 h.2.1 (by decide)
    · exact noNl_renderItem (h.2.2.2 it hit)
  | other lead trail m d items =>
    intro l hl
    simp only [sectionLines, List.mem_cons, List.mem_map] at hl
    rcases hl with rfl | ⟨it, hit, rfl⟩
    · refine noNl_header h.1 h.2.1 ?_
      cases d with
      | none => simpa [modName] using noNl_alpha h.2.2.1
      | some x =>
        simp [modName, noNl_alpha h.2.2.1, noNl_alpha (h.2.2.2.1 x rfl)]
    · exact noNl_renderItem (h.2.2.2.2.2 it hit)

theorem noNl_docLines {d : Doc} (h : WFDoc d) : ∀ l ∈ docLines d, '\n' ∉ l := by
  intro l hl
  simp only [docLines, List.mem_append, List.mem_map, List.mem_flatMap] at hl
  rcases hl with ⟨m, hm, rfl⟩ | ⟨s, hs, hl⟩
  · exact noNl_renderMisc (h.pre m hm)
  · exact noNl_sectionLines (h.sections s hs) l hl

/-- **loading the rendering of a document yields the database the document denotes** -/
theorem loadDb_renderDoc (d : Doc) (h : DocOk d) : loadDb (renderDoc d) = .ok (flatten d) := by
  unfold loadDb renderDoc
  rw [lines_renderLines (noNl_docLines h), load_doc_lines d h]
  rfl

end Huginn.SigText

namespace Huginn.SigText
open Huginn.Sig Huginn.SigText.Spec
set_option linter.unusedSimpArgs false

/-! ### rejection -/

theorem loadLines_error {st st' : LoadState} {a : List Str} {l : Str} {e : LoadErr}
    (ha : loadLines st a = .ok st') (hl : loadLine st' l = .error e) (rest : List Str) :
    loadLines st (a ++ l :: rest) = .error e := by
  rw [loadLines_append, ha]
  simp [loadLines, hl]

/-- A faulty `label`/`sig` line after any document the loader reads: the whole load fails with the
error of that line, whatever follows. -/
theorem loadDb_fault (d : Doc) (h : DocOk d) {m : Str} {dd : Option Str}
    (hmod : lastMod none d.sections = some (m, dd))
    {pad : Pad} (hp : WFPad pad) {n : String} (hn : ItemName n) {v : Str} (hv : LineSafe v)
    {e : LoadErr} (he : loadNamed (flatten d) m dd (coreOf pad n.toList v) = .error e)
    (rest : List Str) (hrest : ∀ l ∈ rest, '\n' ∉ l) :
    loadDb (renderLines (docLines d ++ named pad n v :: rest)) = .error e := by
  have hnl : ∀ l ∈ docLines d ++ named pad n v :: rest, '\n' ∉ l := by
    intro l hl
    rcases List.mem_append.mp hl with hl | hl
    · exact noNl_docLines h l hl
    · rcases List.mem_cons.mp hl with rfl | hl
      · exact noNl_named hp (by rcases hn with rfl | rfl | rfl <;> decide) hv.2.1
      · exact hrest l hl
  unfold loadDb
  rw [lines_renderLines hnl, List.map_append, List.map_cons]
  have hline : loadLine ⟨flatten d, lastMod none d.sections⟩ (stripCr (named pad n v)) = .error e := by
    rw [loadLine_stripCr, loadLine_named _ hmod hp hn hv, he]; rfl
  rw [loadLines_error (load_doc_lines d h) hline]
  rfl

/-- a line that is neither blank, comment, `classes`, `ua_os` nor a section header, before any header -/
theorem loadDb_outside (pre : List Misc) (hpre : ∀ m ∈ pre, MiscOk m) (l : Str)
    (h1 : trim l ≠ []) (h2 : (trim l).head? ≠ some ';') (h3 : (trim l).head? ≠ some '[')
    (h4 : stripPrefix classesKw (trim l) = none) (h5 : stripPrefix uaOsKw (trim l) = none)
    (hl : '\n' ∉ l) (rest : List Str) (hrest : ∀ x ∈ rest, '\n' ∉ x) :
    loadDb (renderLines (pre.map renderMisc ++ l :: rest)) = .error .outside := by
  have hnl : ∀ x ∈ pre.map renderMisc ++ l :: rest, '\n' ∉ x := by
    intro x hx
    rcases List.mem_append.mp hx with hx | hx
    · obtain ⟨m, hm, rfl⟩ := List.mem_map.mp hx
      exact noNl_renderMisc (hpre m hm)
    · rcases List.mem_cons.mp hx with rfl | hx
      · exact hl
      · exact hrest x hx
  unfold loadDb
  rw [lines_renderLines hnl, List.map_append, List.map_cons, List.map_map]
  have hline : ∀ db, loadLine ⟨db, none⟩ (stripCr l) = .error .outside := by
    intro db
    rw [loadLine_stripCr]
    unfold loadLine
    cases ht : trim l with
    | nil => exact absurd ht h1
    | cons c t =>
      rw [ht] at h2 h3 h4 h5
      simp at h2 h3
      simp [h2, h3, h4, h5]
  have hp := load_pre pre hpre {}
  simp only [Function.comp_def] at hp ⊢
  rw [loadLines_error hp (hline _)]
  rfl

end Huginn.SigText

namespace Huginn.SigText
open Huginn.Sig Huginn.SigText.Spec
set_option linter.unusedSimpArgs false

/-! ### the faults the statement names, as errors of `loadNamed` -/

def tableEmpty (db : Db) : TableId → Prop
  | .tcpReq => db.tcpReq = []
  | .tcpResp => db.tcpResp = []
  | .httpReq => db.httpReq = []
  | .httpResp => db.httpResp = []
instance (db : Db) (t : TableId) : Decidable (tableEmpty db t) := by
  cases t <;> (unfold tableEmpty; exact inferInstance)

def noLabelErr : TableId → LoadErr
  | .tcpReq | .tcpResp => .tcpNoLabel
  | .httpReq | .httpResp => .httpNoLabel
def sigErr : TableId → LoadErr
  | .tcpReq | .tcpResp => .tcpSig
  | .httpReq | .httpResp => .httpSig
def sigParses : TableId → Str → Bool
  | .tcpReq, v | .tcpResp, v => (parseTcpSigFull v).isSome
  | .httpReq, v | .httpResp, v => (parseHttpSigFull v).isSome

theorem loadNamed_sig_noLabel (db : Db) {m : Str} {d : Option Str} {t : TableId} (ht : tableOf m d = some t)
    (hm : m ≠ mtuKw) {pad : Pad} (hp : WFPad pad) {v : Str} (hv : LineSafe v) (he : tableEmpty db t) :
    loadNamed db m d (coreOf pad "sig".toList v) = .error (noLabelErr t) := by
  have hparse := parseNamedValue_coreOf hp alnum1_sig hv
  simp only [sig_toList] at hparse ⊢
  simp only [loadNamed, hparse, hm, and_false, if_false, label_toList, sig_toList, ht]
  cases t <;> (simp only [tableEmpty] at he; simp [he, noLabelErr])

theorem loadNamed_sig_unparsable (db : Db) {m : Str} {d : Option Str} {t : TableId} (ht : tableOf m d = some t)
    (hm : m ≠ mtuKw) {pad : Pad} (hp : WFPad pad) {v : Str} (hv : LineSafe v) (hne : ¬ tableEmpty db t)
    (hbad : sigParses t v = false) :
    loadNamed db m d (coreOf pad "sig".toList v) = .error (sigErr t) := by
  have hparse := parseNamedValue_coreOf hp alnum1_sig hv
  simp only [sig_toList] at hparse ⊢
  simp only [loadNamed, hparse, hm, and_false, if_false, label_toList, sig_toList, ht]
  cases t <;>
    (simp only [tableEmpty] at hne
     simp only [sigParses, Option.isSome_eq_false_iff, Option.isNone_iff_eq_none] at hbad
     simp [hne, hbad, sigErr])

theorem loadNamed_label_unparsable (db : Db) {m : Str} (d : Option Str) (hm : m ≠ mtuKw) {pad : Pad}
    (hp : WFPad pad) {v : Str} (hv : LineSafe v) (hbad : parseLabelL v = none) :
    loadNamed db m d (coreOf pad "label".toList v) = .error .label := by
  have hparse := parseNamedValue_coreOf hp alnum1_label hv
  simp only [label_toList] at hparse ⊢
  simp only [loadNamed, hparse, hm, and_false, if_false, label_toList, sig_toList, hbad]
  simp

theorem loadNamed_mtu_noLabel (db : Db) (d : Option Str) {pad : Pad} (hp : WFPad pad) {v : Str}
    (hv : LineSafe v) (he : db.mtu = []) :
    loadNamed db mtuKw d (coreOf pad "sig".toList v) = .error .mtuNoLabel := by
  have hparse := parseNamedValue_coreOf hp alnum1_sig hv
  simp only [sig_toList] at hparse ⊢
  simp [loadNamed, hparse, label_toList, sig_toList, mtuKw_eq, he]

/-- an MTU value must be a decimal number that fits 16 bits (Rust also accepts one leading `+`) -/
def mtuValueOk (v : Str) : Bool :=
  !(stripPlus v).isEmpty && (stripPlus v).all Char.isDigit && decide (decVal (stripPlus v) ≤ u16Max)

theorem loadNamed_mtu_badValue (db : Db) (d : Option Str) {pad : Pad} (hp : WFPad pad) {v : Str}
    (hv : LineSafe v) (hne : db.mtu ≠ []) (hbad : mtuValueOk v = false) :
    loadNamed db mtuKw d (coreOf pad "sig".toList v) = .error .mtuValue := by
  have hparse := parseNamedValue_coreOf hp alnum1_sig hv
  simp only [sig_toList] at hparse ⊢
  cases hdb : db.mtu with
  | nil => exact absurd hdb hne
  | cons e t =>
    simp only [loadNamed, hparse, label_toList, sig_toList, mtuKw_eq, hdb]
    simp only [mtuValueOk, Bool.and_eq_false_iff, Bool.not_eq_false', decide_eq_false_iff_not,
      List.isEmpty_iff] at hbad
    simp
    intro h1 h2 h3
    rcases hbad with (hb | hb) | hb
    · exact absurd hb h1
    · rw [List.all_eq_true.mpr h2] at hb; cases hb
    · exact absurd h3 hb

end Huginn.SigText

namespace Huginn.SigText

instance instDecidableEqExcept {ε α} [DecidableEq ε] [DecidableEq α] : DecidableEq (Except ε α)
  | .ok a, .ok b => if h : a = b then isTrue (by rw [h]) else isFalse (fun e => h (by cases e; rfl))
  | .error a, .error b => if h : a = b then isTrue (by rw [h]) else isFalse (fun e => h (by cases e; rfl))
  | .ok _, .error _ => isFalse (fun e => by cases e)
  | .error _, .ok _ => isFalse (fun e => by cases e)

end Huginn.SigText

namespace Huginn.SigText
open Huginn.Sig Huginn.SigText.Spec
set_option linter.unusedSimpArgs false

/-! ### a printed TCP signature always survives on a line

So the `LineSafe (printTcpSig s)` conjunct of `WFItem` is automatic for TCP signature items. -/

/-- no character of the text is whitespace (in particular no line break, space or tab) -/
def NoWs (t : Str) : Prop := ∀ c ∈ t, isWs c = false
instance (t : Str) : Decidable (NoWs t) := by unfold NoWs; exact inferInstance

theorem NoWs.append {a b : Str} (ha : NoWs a) (hb : NoWs b) : NoWs (a ++ b) := by
  intro c hc; rcases List.mem_append.mp hc with h | h
  · exact ha c h
  · exact hb c h
theorem NoWs.cons {c : Char} {t : Str} (hc : isWs c = false) (ht : NoWs t) : NoWs (c :: t) := by
  intro x hx; rcases List.mem_cons.mp hx with rfl | h
  · exact hc
  · exact ht x h

theorem digit_not_ws {c : Char} (h : c.isDigit = true) : isWs c = false :=
  alnum_not_ws (by simp [Char.isAlphanum, h])

theorem noWs_natDigits (n : Nat) : NoWs (natDigits n) := fun _ hc => digit_not_ws (isDigit_of_mem_natDigits hc)

theorem noWs_ipVersion (v : IpVersion) : NoWs (printIpVersion v) ∧ printIpVersion v ≠ [] := by
  cases v <;> decide +kernel
theorem noWs_quirk (q : Quirk) : NoWs (printQuirk q) := by cases q <;> decide +kernel
theorem noWs_payload (p : PayloadSize) : NoWs (printPayload p) ∧ printPayload p ≠ [] := by
  cases p <;> decide +kernel
theorem noWs_plainOpt (o : TcpOption) (h : ∀ n, o ≠ .eol n ∧ o ≠ .unknown n) : NoWs (printOpt o) := by
  cases o with
  | eol n => exact absurd rfl (h n).1
  | unknown n => exact absurd rfl (h n).2
  | nop => decide +kernel
  | mss => decide +kernel
  | ws => decide +kernel
  | sok => decide +kernel
  | sack => decide +kernel
  | ts => decide +kernel

theorem noWs_opt (o : TcpOption) : NoWs (printOpt o) := by
  cases o with
  | eol n =>
    simp only [printOpt]
    exact NoWs.cons (by decide) (NoWs.cons (by decide) (NoWs.cons (by decide) (NoWs.cons (by decide) (noWs_natDigits n))))
  | unknown n => simp only [printOpt]; exact NoWs.cons (by decide) (noWs_natDigits n)
  | nop | mss | ws | sok | sack | ts => exact noWs_plainOpt _ (fun n => ⟨by simp, by simp⟩)

theorem noWs_ttl (t : Ttl) : NoWs (printTtl t) := by
  cases t with
  | value n => exact noWs_natDigits n
  | distance n d => exact NoWs.append (noWs_natDigits n) (NoWs.cons (by decide) (noWs_natDigits d))
  | guess n => exact NoWs.append (noWs_natDigits n) (by decide)
  | bad n => exact NoWs.append (noWs_natDigits n) (by decide)

theorem noWs_wsize (w : WindowSize) : NoWs (printWSize w) := by
  cases w with
  | mss n => exact NoWs.cons (by decide) (NoWs.cons (by decide) (NoWs.cons (by decide) (NoWs.cons (by decide) (noWs_natDigits n))))
  | mtu n => exact NoWs.cons (by decide) (NoWs.cons (by decide) (NoWs.cons (by decide) (NoWs.cons (by decide) (noWs_natDigits n))))
  | value n => exact noWs_natDigits n
  | mod n => exact NoWs.cons (by decide) (noWs_natDigits n)
  | any => decide

theorem noWs_optNat (v : Option Nat) : NoWs (printOptNat v) := by
  cases v with
  | none => decide
  | some n => exact noWs_natDigits n

theorem noWs_joinComma {α} {pr : α → Str} (h : ∀ x, NoWs (pr x)) (xs : List α) : NoWs (joinComma pr xs) := by
  induction xs with
  | nil => intro c hc; cases hc
  | cons x xs ih =>
    cases xs with
    | nil => exact h x
    | cons y ys => exact NoWs.append (h x) (NoWs.cons (by decide) ih)

theorem noWs_printTcpSig (s : TcpSig) : NoWs (printTcpSig s) := by
  simp only [printTcpSig]
  refine NoWs.append (NoWs.append (NoWs.append (NoWs.append (NoWs.append (NoWs.append (NoWs.append
    (NoWs.append (noWs_ipVersion _).1 ?_) ?_) ?_) ?_) ?_) ?_) ?_) ?_
  · exact NoWs.cons (by decide) (noWs_ttl _)
  · exact NoWs.cons (by decide) (noWs_natDigits _)
  · exact NoWs.cons (by decide) (noWs_optNat _)
  · exact NoWs.cons (by decide) (noWs_wsize _)
  · exact NoWs.cons (by decide) (noWs_optNat _)
  · exact NoWs.cons (by decide) (noWs_joinComma noWs_opt _)
  · exact NoWs.cons (by decide) (noWs_joinComma noWs_quirk _)
  · exact NoWs.cons (by decide) (noWs_payload _).1

theorem lineSafe_of_noWs {t : Str} (hne : t ≠ []) (h : NoWs t) : LineSafe t := by
  refine ⟨hne, fun hm => by have := h _ hm; revert this; decide, ?_, ?_⟩
  · intro c hc
    have hm : c ∈ t := by
      cases t with
      | nil => cases hc
      | cons a r => simp at hc; simp [hc]
    cases hs : isSpaceTab c with
    | false => rfl
    | true => have := h c hm; rw [isWs_of_spaceTab hs] at this; cases this
  · intro c hc; exact h c (List.mem_of_getLast? hc)

/-- every printed TCP signature can be written on a `sig = ` line as it is -/
theorem lineSafe_printTcpSig (s : TcpSig) : LineSafe (printTcpSig s) := by
  apply lineSafe_of_noWs _ (noWs_printTcpSig s)
  intro h
  have : printIpVersion s.version = [] := by
    simp only [printTcpSig] at h
    simp [List.append_eq_nil_iff] at h
  exact (noWs_ipVersion s.version).2 this

theorem lineSafe_natDigits (n : Nat) : LineSafe (natDigits n) :=
  lineSafe_of_noWs (natDigits_ne_nil n) (noWs_natDigits n)

end Huginn.SigText
