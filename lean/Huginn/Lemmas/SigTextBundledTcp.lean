import Huginn.Lemmas.SigTextBundled
import Huginn.Gen.BundledChars
/- `decide +kernel` over the bundled p0f.fp signature lines, chunk by chunk (re-run whenever
   `Gen/BundledChars.lean` or the token tables change). -/
namespace Huginn.SigText
open Huginn.Gen.BundledChars
set_option maxRecDepth 1000000

theorem tcp0_ok : tcp0.all tcpLineOk = true := by decide +kernel
theorem tcp1_ok : tcp1.all tcpLineOk = true := by decide +kernel
theorem tcp2_ok : tcp2.all tcpLineOk = true := by decide +kernel
theorem tcp3_ok : tcp3.all tcpLineOk = true := by decide +kernel
theorem tcp4_ok : tcp4.all tcpLineOk = true := by decide +kernel
theorem tcp5_ok : tcp5.all tcpLineOk = true := by decide +kernel
theorem tcp6_ok : tcp6.all tcpLineOk = true := by decide +kernel
theorem tcp7_ok : tcp7.all tcpLineOk = true := by decide +kernel

end Huginn.SigText
