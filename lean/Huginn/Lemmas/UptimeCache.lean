import Huginn.Spec.Uptime
set_option linter.unusedSimpArgs false
set_option linter.unusedVariables false
/-! Helper lemmas for C19: the cache model and the abstract per-endpoint map. -/
namespace Huginn.Lemmas.UptimeCache
open Huginn.Uptime Huginn.Uptime.Spec

theorem find_filter_ne {α : Type} (l : List (Key × α)) (k k' : Key) (hne : k' ≠ k) :
    (l.filter (fun e => !(e.1 == k))).find? (fun e => e.1 == k') = l.find? (fun e => e.1 == k') := by
  induction l with
  | nil => rfl
  | cons x xs ih =>
    by_cases hx : x.1 = k
    · have h1 : (x.1 == k) = true := by simpa using hx
      have h2 : (x.1 == k') = false := by
        simp only [beq_eq_false_iff_ne, ne_eq]; intro h; exact hne (h.symm.trans hx)
      simp only [List.filter_cons, h1, Bool.not_true, Bool.false_eq_true, if_false, List.find?_cons, h2, ih]
    · have h1 : (x.1 == k) = false := by simpa using hx
      simp only [List.filter_cons, h1, Bool.not_false, if_true, List.find?_cons, ih]

/-- the insertion does not overflow the capacity (nothing is evicted) -/
def Room (c : Cache) (k : Key) : Prop := (c.entries.filter (fun e => !(e.1 == k))).length < c.cap

theorem insert_entries (c : Cache) (m : Nat) (k : Key) (v : Stamp) (ttl : Nat) (h : Room c k) :
    (c.insert m k v ttl).entries = c.entries.filter (fun e => !(e.1 == k)) ++ [(k, v, m + ttl)] := by
  unfold Cache.insert Room at *
  simp only [List.length_append, List.length_cons, List.length_nil]
  rw [if_neg (by omega)]

theorem insert_cap (c : Cache) (m : Nat) (k : Key) (v : Stamp) (ttl : Nat) : (c.insert m k v ttl).cap = c.cap := rfl

theorem get_insert_self (c : Cache) (m m' : Nat) (k : Key) (v : Stamp) (ttl : Nat) (h : Room c k)
    (hm : m' ≤ m + ttl) : (c.insert m k v ttl).get m' k = some v := by
  unfold Cache.get
  rw [insert_entries c m k v ttl h, List.find?_append]
  have : (c.entries.filter (fun e => !(e.1 == k))).find? (fun e => e.1 == k) = none := by
    rw [List.find?_eq_none]
    intro x hx
    simp only [List.mem_filter] at hx
    simpa using hx.2
  rw [this]
  simp only [Option.none_or, List.find?_cons, beq_self_eq_true]
  rw [if_neg (by omega)]

theorem get_insert_other (c : Cache) (m m' : Nat) (k k' : Key) (v : Stamp) (ttl : Nat) (h : Room c k)
    (hne : k' ≠ k) : (c.insert m k v ttl).get m' k' = c.get m' k' := by
  unfold Cache.get
  rw [insert_entries c m k v ttl h, List.find?_append, find_filter_ne _ k k' hne]
  have hsing : [(k, v, m + ttl)].find? (fun e => e.1 == k') = none := by
    have : (k == k') = false := by
      simp only [beq_eq_false_iff_ne, ne_eq]; intro h; exact hne h.symm
    simp [List.find?_cons, this]
  rw [hsing, Option.or_none]

theorem insert_length_le (c : Cache) (m : Nat) (k : Key) (v : Stamp) (ttl : Nat) :
    (c.insert m k v ttl).entries.length ≤ c.entries.length + 1 := by
  unfold Cache.insert
  simp only []
  have : (c.entries.filter (fun e => !(e.1 == k))).length ≤ c.entries.length := List.length_filter_le _ _
  split <;> simp only [List.length_drop, List.length_append, List.length_cons, List.length_nil] <;> omega

theorem room_of_length (c : Cache) (k : Key) (h : c.entries.length < c.cap) : Room c k := by
  unfold Room
  have : (c.entries.filter (fun e => !(e.1 == k))).length ≤ c.entries.length := List.length_filter_le _ _
  omega

/-- every entry expires no earlier than `T` -/
def ExpiresAfter (c : Cache) (T : Nat) : Prop := ∀ e ∈ c.entries, T ≤ e.2.2

theorem expiresAfter_insert (c : Cache) (m : Nat) (k : Key) (v : Stamp) (ttl T : Nat) (h : Room c k)
    (hc : ExpiresAfter c T) (hT : T ≤ m + ttl) : ExpiresAfter (c.insert m k v ttl) T := by
  unfold ExpiresAfter at *
  rw [insert_entries c m k v ttl h]
  intro e he
  simp only [List.mem_append, List.mem_filter, List.mem_singleton] at he
  rcases he with ⟨he, _⟩ | rfl
  · exact hc e he
  · exact hT

/-! ### abstract map -/

theorem state_get_set_self (s : State) (k : Key) (e : Entry) : (s.set k e).get k = some e := by
  simp [State.get, State.set]

theorem state_get_set_other (s : State) (k k' : Key) (e : Entry) (hne : k' ≠ k) :
    (s.set k e).get k' = s.get k' := by
  unfold State.get State.set
  have : (k == k') = false := by
    simp only [beq_eq_false_iff_ne, ne_eq]; intro h; exact hne h.symm
  simp only [List.find?_cons, this, find_filter_ne s k k' hne]

end Huginn.Lemmas.UptimeCache
