import Huginn.Lemmas.TcpWalk
set_option linter.unusedSimpArgs false
set_option linter.unusedVariables false
/-! Helper lemmas for C03: header quirks (bit tests, membership, no duplicates) and option quirks. -/
namespace Huginn.Lemmas.TcpQuirks
open Huginn.Sig Huginn.TcpExtract Huginn.TcpSig.Spec Huginn.Gen Huginn.Lemmas.TcpWalk

theorem flag_bits : ∀ fl, fl < 256 →
    ((fl &&& (ECE ||| CWR) ≠ 0) ↔ (fl.testBit 6 = true ∨ fl.testBit 7 = true)) ∧
    ((fl &&& ACK = ACK) ↔ fl.testBit 4 = true) ∧
    ((fl &&& RST = 0) ↔ ¬ fl.testBit 2 = true) ∧
    ((fl &&& URG = URG) ↔ fl.testBit 5 = true) ∧
    ((fl &&& PSH = PSH) ↔ fl.testBit 3 = true) := by decide +kernel

theorem ipflag_bits : ∀ x, x < 8 →
    ((x &&& TcpConst.ip4Mbz ≠ 0) ↔ x.testBit 2 = true) ∧
    ((x &&& IP_DF ≠ 0) ↔ x.testBit 1 = true) ∧
    ((x &&& IP_MF = IP_MF) ↔ x.testBit 0 = true) := by decide +kernel

theorem ecn_bits3 : ∀ e, e < 256 → ((e &&& 3 ≠ 0) ↔ e % 4 ≠ 0) := by decide +kernel
theorem ecn_c : (TcpConst.ipTosCe ||| TcpConst.ipTosEct) = 3 := by decide
theorem ecn_bits (e : Nat) (h : e < 256) : ((e &&& (TcpConst.ipTosCe ||| TcpConst.ipTosEct) ≠ 0) ↔ e % 4 ≠ 0) := by
  rw [ecn_c]; exact ecn_bits3 e h

def ipQuirks (f : Fields) : List Quirk := if f.ip.v6 then ipQuirksV6 f.ip else ipQuirksV4 f.ip

def hdrQuirks (f : Fields) : List Quirk := ipQuirks f ++ tcpQuirks (ipQuirks f) f.tcp

theorem mem_ite' {α : Type} (c : Prop) [Decidable c] (a : α) (l1 l2 : List α) :
    a ∈ (if c then l1 else l2) ↔ (c ∧ a ∈ l1) ∨ (¬ c ∧ a ∈ l2) := by
  split <;> simp_all

theorem hdr_mem (f : Fields) (hwf : f.WF) (area : Option Area) (hrst : ¬ Rst f) (q : Quirk) (hq : q ∉ optionQuirks) (hq' : q ≠ .optBad) :
    q ∈ hdrQuirks f ↔ QuirkCond f area q := by
  unfold Fields.WF at hwf
  obtain ⟨_, _, hecn, hfl, _, _, _, _, _, _, _, _, _, htf, _⟩ := hwf
  have hb := flag_bits f.tcp.flags htf
  have hi := ipflag_bits f.ip.flags hfl
  have hecn' : f.ip.ecn < 256 := by split at hecn <;> omega
  have hec := ecn_bits f.ip.ecn hecn'
  unfold Rst at hrst
  cases hv : f.ip.v6 <;> cases q <;>
    simp [optionQuirks] at hq hq' <;>
    simp [hdrQuirks, ipQuirks, ipQuirksV4, ipQuirksV6, tcpQuirks, QuirkCond, hv, hb, hi, hec, hrst,
      Df, Mbz, Ece, Cwr, Ack, Urg, Psh, ipEcn, mem_ite']
  all_goals first | exact And.comm | (by_cases h : f.ip.ecn % 4 = 0 <;> simp [h])

def ipQ4B (ipecn mbz df idz : Bool) : List Quirk :=
  (if ipecn then [.ecn] else []) ++ (if mbz then [.mustBeZero] else []) ++
  (if df then [.df] ++ (if !idz then [.nonZeroID] else []) else if idz then [.zeroID] else [])
def ipQ6B (flownz ipecn : Bool) : List Quirk :=
  (if flownz then [.flowID] else []) ++ (if ipecn then [.ecn] else [])
def tcpQB (tecn seqz ackf ackz rstz urgf urgz psh : Bool) : List Quirk :=
  (if tecn then [.ecn] else []) ++ (if seqz then [.seqNumZero] else []) ++
  (if ackf then (if ackz then [.ackNumZero] else []) else if !ackz && rstz then [.ackNumNonZero] else []) ++
  (if urgf then [.urg] else if !urgz then [.nonZeroURG] else []) ++ (if psh then [.push] else [])

theorem nodupB4 : ∀ a b c d e f g h i j k l : Bool, (a && e) = false →
    (ipQ4B a b c d ++ tcpQB e f g h i j k l).Nodup := by decide +kernel
theorem nodupB6 : ∀ a b e f g h i j k l : Bool, (b && e) = false →
    (ipQ6B a b ++ tcpQB e f g h i j k l).Nodup := by decide +kernel

theorem ipQuirksV4_eq (ip : IpHdr) : ipQuirksV4 ip =
    ipQ4B (decide (ip.ecn &&& (TcpConst.ipTosCe ||| TcpConst.ipTosEct) ≠ 0)) (decide (ip.flags &&& TcpConst.ip4Mbz ≠ 0))
      (decide (ip.flags &&& IP_DF ≠ 0)) (decide (ip.ipid = 0)) := by
  simp [ipQuirksV4, ipQ4B]
theorem ipQuirksV6_eq (ip : IpHdr) : ipQuirksV6 ip =
    ipQ6B (decide (ip.flow ≠ 0)) (decide (ip.ecn &&& (TcpConst.ipTosCe ||| TcpConst.ipTosEct) ≠ 0)) := by
  simp [ipQuirksV6, ipQ6B]
theorem tcpQuirks_eq (q0 : List Quirk) (t : TcpHdr) : tcpQuirks q0 t =
    tcpQB (decide (t.flags &&& (ECE ||| CWR) ≠ 0) && !q0.contains .ecn) (decide (t.seq = 0)) (decide (t.flags &&& ACK = ACK)) (decide (t.ack = 0))
      (decide (t.flags &&& RST = 0)) (decide (t.flags &&& URG = URG)) (decide (t.urg = 0)) (decide (t.flags &&& PSH = PSH)) := by
  simp [tcpQuirks, tcpQB]

/-- `quirks.contains(&Quirk::Ecn)` on the IP-level quirks is the IP ECN test -/
theorem ip_contains_ecn (f : Fields) :
    (ipQuirks f).contains Quirk.ecn = decide (f.ip.ecn &&& (TcpConst.ipTosCe ||| TcpConst.ipTosEct) ≠ 0) := by
  have h4 : ∀ a b c d : Bool, (ipQ4B a b c d).contains Quirk.ecn = a := by decide
  have h6 : ∀ a b : Bool, (ipQ6B a b).contains Quirk.ecn = b := by decide
  unfold ipQuirks
  cases f.ip.v6
  · simp only [Bool.false_eq_true, if_false]; rw [ipQuirksV4_eq, h4]
  · simp only [if_true]; rw [ipQuirksV6_eq, h6]

/-- the header quirks never repeat (the TCP-level `ecn` is pushed only when the IP level did not) -/
theorem hdr_nodup (f : Fields) : (hdrQuirks f).Nodup := by
  have hside : ∀ a t : Bool, (a && (t && !a)) = false := by decide
  unfold hdrQuirks
  rw [tcpQuirks_eq, ip_contains_ecn]
  unfold ipQuirks
  cases hv : f.ip.v6
  · simp only [Bool.false_eq_true, if_false]
    rw [ipQuirksV4_eq]
    exact nodupB4 _ _ _ _ _ _ _ _ _ _ _ _ (hside _ _)
  · simp only [if_true]
    rw [ipQuirksV6_eq]
    exact nodupB6 _ _ _ _ _ _ _ _ _ _ (hside _ _)

/-- option-derived quirks and `bad` never come from the headers -/
theorem hdr_not_opt (f : Fields) (q : Quirk) (hq : q ∈ optionQuirks ∨ q = .optBad) : q ∉ hdrQuirks f := by
  cases hv : f.ip.v6 <;> cases q <;> simp [optionQuirks] at hq <;>
    simp [hdrQuirks, ipQuirks, ipQuirksV4, ipQuirksV6, tcpQuirks, hv, mem_ite']

/-! ### option quirks -/

def wsQ (x : Nat) : List Quirk := if 14 < x then [.excessiveWindowScaling] else []
def tsQ (ty : Nat) (v : Nat × Nat) : List Quirk :=
  (if v.1 = 0 then [.ownTimestampZero] else []) ++ (if ty = SYN ∧ v.2 ≠ 0 then [.peerTimestampNonZero] else [])

theorem itemQuirks_eq (ty : Nat) (i : Item) :
    itemQuirks ty i = (match i.wsVal with | some x => wsQ x | none => []) ++
                      (match i.tsVal with | some v => tsQ ty v | none => []) := by
  unfold itemQuirks wsQ tsQ; cases i.wsVal <;> cases i.tsVal <;> rfl

theorem optQ_perm (ty : Nat) (items : List Item) :
    (items.flatMap (itemQuirks ty)).Perm
      ((items.filterMap Item.wsVal).flatMap wsQ ++ (items.filterMap Item.tsVal).flatMap (tsQ ty)) := by
  rw [List.perm_iff_count]
  intro q
  induction items with
  | nil => simp
  | cons i is ih =>
    simp only [List.flatMap_cons, List.count_append, List.filterMap_cons, itemQuirks_eq] at ih ⊢
    cases i.wsVal <;> cases i.tsVal <;> simp only [List.flatMap_cons, List.count_append, List.count_nil] <;> omega

theorem optQ_mem (ty : Nat) (items : List Item) (q : Quirk) :
    q ∈ items.flatMap (itemQuirks ty) ↔
      (q = .excessiveWindowScaling ∧ ∃ x ∈ items.filterMap Item.wsVal, 14 < x) ∨
      (q = .ownTimestampZero ∧ ∃ v ∈ items.filterMap Item.tsVal, v.1 = 0) ∨
      (q = .peerTimestampNonZero ∧ ty = SYN ∧ ∃ v ∈ items.filterMap Item.tsVal, v.2 ≠ 0) := by
  rw [(optQ_perm ty items).mem_iff]
  simp only [List.mem_append, List.mem_flatMap, wsQ, tsQ, mem_ite', List.mem_singleton, List.not_mem_nil, and_false,
    or_false]
  constructor
  · rintro (⟨x, hx, h14, rfl⟩ | ⟨v, hv, (⟨h0, rfl⟩ | ⟨⟨hty, hne⟩, rfl⟩)⟩)
    · exact Or.inl ⟨rfl, x, hx, h14⟩
    · exact Or.inr (Or.inl ⟨rfl, v, hv, h0⟩)
    · exact Or.inr (Or.inr ⟨rfl, hty, v, hv, hne⟩)
  · rintro (⟨rfl, x, hx, h14⟩ | ⟨rfl, v, hv, h0⟩ | ⟨rfl, hty, v, hv, hne⟩)
    · exact Or.inl ⟨x, hx, h14, rfl⟩
    · exact Or.inr ⟨v, hv, Or.inl ⟨h0, rfl⟩⟩
    · exact Or.inr ⟨v, hv, Or.inr ⟨⟨hty, hne⟩, rfl⟩⟩

theorem optQ_nodup (ty : Nat) (items : List Item)
    (h1 : (items.filterMap Item.wsVal).length ≤ 1) (h2 : (items.filterMap Item.tsVal).length ≤ 1) :
    (items.flatMap (itemQuirks ty)).Nodup := by
  rw [(optQ_perm ty items).nodup_iff]
  match hw : items.filterMap Item.wsVal, ht : items.filterMap Item.tsVal, h1, h2 with
  | [], [], _, _ => simp
  | [x], [], _, _ => simp only [List.flatMap_cons, List.flatMap_nil, wsQ]; split <;> simp
  | [], [v], _, _ =>
    simp only [List.flatMap_cons, List.flatMap_nil, tsQ]
    split <;> split <;> simp
  | [x], [v], _, _ =>
    simp only [List.flatMap_cons, List.flatMap_nil, wsQ, tsQ]
    split <;> split <;> split <;> simp
  | _ :: _ :: _, _, h, _ => simp at h
  | _, _ :: _ :: _, _, h => simp at h

end Huginn.Lemmas.TcpQuirks
