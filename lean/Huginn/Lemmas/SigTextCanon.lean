import Huginn.Lemmas.SigTextInv
/-
C06, parse → print for TCP signatures: a text the parser accepts and whose numerals are canonical
is exactly what printing the parsed value gives.
-/
namespace Huginn.SigText
open Huginn.Sig Huginn.SigText.Spec
set_option linter.unusedSimpArgs false

/-! ### canonical numerals -/

theorem decVal_cons (c : Char) (d : Str) (init : Nat) :
    Nat.ofDigitChars 10 (c :: d) init = Nat.ofDigitChars 10 d (10 * init + (c.toNat - 48)) := by
  simp [Nat.ofDigitChars_cons]

theorem digit_eq_digitChar {c : Char} (h : c.isDigit = true) : c = Nat.digitChar (c.toNat - 48) := by
  have h' := Char.isDigit_iff_toNat.mp h
  have e0 : '0'.toNat = 48 := rfl
  have e9 : '9'.toNat = 57 := rfl
  rw [e0, e9] at h'
  have hlt : c.toNat - 48 < 10 := by omega
  apply Char.toNat_inj.mp
  have : ∀ k, k < 10 → (Nat.digitChar k).toNat = k + 48 := by decide
  rw [this _ hlt]; omega

/-- appending one digit to a non-zero numeral -/
theorem natDigits_snoc {m : Nat} (hm : 0 < m) {c : Char} (hc : c.isDigit = true) :
    natDigits (10 * m + (c.toNat - 48)) = natDigits m ++ [c] := by
  have h' := Char.isDigit_iff_toNat.mp hc
  have e0 : '0'.toNat = 48 := rfl
  have e9 : '9'.toNat = 57 := rfl
  rw [e0, e9] at h'
  have hlt : c.toNat - 48 < 10 := by omega
  have := Nat.toDigits_append_toDigits (b := 10) (n := m) (d := c.toNat - 48) (by decide) hm hlt
  simp only [natDigits]
  rw [← this, Nat.toDigits_of_lt_base hlt, ← digit_eq_digitChar hc]

theorem ofDigitChars_snoc (d : Str) (c : Char) (init : Nat) :
    Nat.ofDigitChars 10 (d ++ [c]) init = 10 * Nat.ofDigitChars 10 d init + (c.toNat - 48) := by
  simp [Nat.ofDigitChars_append, Nat.ofDigitChars_cons]

theorem decVal_pos_of_head {d : Str} (hd : ∀ c ∈ d, c.isDigit = true) (hne : d ≠ [])
    (h0 : d.head? ≠ some '0') : 0 < decVal d := by
  cases d with
  | nil => exact absurd rfl hne
  | cons c t =>
    have hc := hd c List.mem_cons_self
    have h' := Char.isDigit_iff_toNat.mp hc
    have e0 : '0'.toNat = 48 := rfl
    rw [e0] at h'
    have hne0 : c.toNat ≠ 48 := by
      intro e
      apply h0
      have : c = '0' := Char.toNat_inj.mp (by rw [e, e0])
      simp [this]
    simp only [decVal, Nat.ofDigitChars_cons, Nat.mul_zero, Nat.zero_add]
    rw [Nat.ofDigitChars_eq_ofDigitChars_zero]
    have : 0 < c.toNat - '0'.toNat := by rw [e0]; omega
    have hp : 0 < 10 ^ t.length := Nat.pow_pos (by decide)
    exact Nat.lt_of_lt_of_le (Nat.mul_pos hp this) (Nat.le_add_right _ _)

/-- **the decimal lemma, reverse direction**: a numeral without leading zeros is what `{}` prints for
its value -/
theorem natDigits_decVal {d : Str} (hne : d ≠ []) (hd : ∀ c ∈ d, c.isDigit = true) (hc : CanonNum d) :
    natDigits (decVal d) = d := by
  rcases hc with rfl | h0
  · decide
  · -- induction from the right
    have key : ∀ (n : Nat) (d : Str), d.length = n → d ≠ [] → (∀ c ∈ d, c.isDigit = true) →
        d.head? ≠ some '0' → natDigits (decVal d) = d := by
      intro n
      induction n with
      | zero => intro d hl hne; exact absurd (List.length_eq_zero_iff.mp hl) hne
      | succ n ih =>
        intro d hl hne hd h0
        obtain ⟨d', c, rfl⟩ : ∃ d' c, d = d' ++ [c] := by
          rcases List.eq_nil_or_concat d with h | ⟨l, a, h⟩
          · exact absurd h hne
          · exact ⟨l, a, by simpa using h⟩
        have hcd : c.isDigit = true := hd c (by simp)
        cases d' with
        | nil =>
          simp only [List.nil_append, decVal, Nat.ofDigitChars_cons, Nat.mul_zero, Nat.zero_add,
            Nat.ofDigitChars_nil]
          have h' := Char.isDigit_iff_toNat.mp hcd
          have e0 : '0'.toNat = 48 := rfl
          have e9 : '9'.toNat = 57 := rfl
          rw [e0, e9] at h'
          have hlt : c.toNat - '0'.toNat < 10 := by rw [e0]; omega
          simp only [natDigits]
          rw [Nat.toDigits_of_lt_base hlt]
          have := digit_eq_digitChar hcd
          rw [e0]; rw [← this]
        | cons x t =>
          have hd' : ∀ y ∈ x :: t, y.isDigit = true := fun y hy =>
            hd y (List.mem_append_left _ hy)
          have h0' : (x :: t).head? ≠ some '0' := by simpa using h0
          have ihd := ih (x :: t) (by simpa using hl) (by simp) hd' h0'
          have hpos := decVal_pos_of_head hd' (by simp) h0'
          simp only [decVal] at ihd hpos ⊢
          rw [ofDigitChars_snoc, natDigits_snoc hpos hcd, ihd]
    exact key d.length d rfl hne hd h0

end Huginn.SigText

namespace Huginn.SigText
open Huginn.Sig Huginn.SigText.Spec
set_option linter.unusedSimpArgs false

/-! ### fields in context: `L = a ++ s`, `a` consumed, `s` remaining -/

/-- the consumed prefix does not end in a digit -/
def EndND (a : Str) : Prop := ∀ c ∈ a.getLast?, c.isDigit = false

theorem EndND.nil : EndND [] := fun _ h => by cases h
theorem EndND.snoc (a : Str) {c : Char} (h : c.isDigit = false) : EndND (a ++ [c]) := by
  intro x hx; rw [List.getLast?_concat] at hx; cases hx; exact h
theorem EndND.append_snoc (a t : Str) {c : Char} (h : c.isDigit = false) : EndND (a ++ (t ++ [c])) := by
  rw [← List.append_assoc]; exact EndND.snoc _ h

theorem noDigit_head {r : Str} (h : NoDigit r) : ∀ c ∈ r.head?, c.isDigit = false := by
  intro c hc
  cases r with
  | nil => cases hc
  | cons x r' => simp at hc; subst hc; exact h x r' rfl

/-- a digit run read by `digit1` at position `a` of a line with canonical numerals is canonical -/
theorem run_canon {L a d r : Str} (hL : L = a ++ (d ++ r)) (ha : EndND a) (hc : CanonNums L)
    (hne : d ≠ []) (hd : ∀ c ∈ d, c.isDigit = true) (hr : NoDigit r) : natDigits (decVal d) = d :=
  natDigits_decVal hne hd (hc a d r hL ⟨hne, hd, ha, noDigit_head hr⟩)

theorem number_canon {L a s r : Str} {max v : Nat} (hL : L = a ++ s) (ha : EndND a) (hc : CanonNums L)
    (h : number max s = some (v, r)) : s = natDigits v ++ r := by
  obtain ⟨d, e, hne, hd, hr, hv, _⟩ := number_inv h
  subst e
  rw [hv, run_canon hL ha hc hne hd hr]

theorem alt_inv {α} {ps : List (Parser α)} {s : Str} {x : α × Str} (h : alt ps s = some x) :
    ∃ p ∈ ps, p s = some x := by
  induction ps with
  | nil => simp [alt] at h
  | cons p ps ih =>
    unfold alt at h
    cases hp : p s with
    | some y => simp [hp] at h; subst h; exact ⟨p, List.mem_cons_self, hp⟩
    | none =>
      simp [hp] at h
      obtain ⟨q, hq, e⟩ := ih h
      exact ⟨q, List.mem_cons_of_mem _ hq, e⟩

theorem append_cons_assoc (a d : Str) (c : Char) (r : Str) : a ++ (d ++ c :: r) = (a ++ (d ++ [c])) ++ r := by
  simp

theorem parseTtl_canon {L a s r : Str} {t : Ttl} (hL : L = a ++ s) (ha : EndND a) (hc : CanonNums L)
    (h : parseTtl s = some (t, r)) : s = printTtl t ++ r := by
  obtain ⟨p, hp, hps⟩ := alt_inv h
  simp only [List.mem_cons, List.mem_nil_iff, or_false] at hp
  rcases hp with rfl | rfl | rfl | rfl
  · -- n-
    unfold ttlBad at hps
    cases h1 : digit1 s with
    | none => simp [h1] at hps
    | some x =>
      obtain ⟨d, r1⟩ := x
      simp only [h1] at hps
      cases h2 : tag ['-'] r1 with
      | none => simp [h2] at hps
      | some y =>
        obtain ⟨u, r2⟩ := y
        simp only [h2, Option.map_eq_some_iff, Prod.mk.injEq] at hps
        obtain ⟨v, hv, rfl, rfl⟩ := hps
        obtain ⟨e, hne, hd, hr⟩ := digit1_inv h1
        have e2 := tag_inv h2
        subst e
        rw [(parseMax_inv hv).1, printTtl, run_canon hL ha hc hne hd hr, e2]; simp
  · -- n+?
    unfold ttlGuess at hps
    cases h1 : digit1 s with
    | none => simp [h1] at hps
    | some x =>
      obtain ⟨d, r1⟩ := x
      simp only [h1] at hps
      cases h2 : tag ['+', '?'] r1 with
      | none => simp [h2] at hps
      | some y =>
        obtain ⟨u, r2⟩ := y
        simp only [h2, Option.map_eq_some_iff, Prod.mk.injEq] at hps
        obtain ⟨v, hv, rfl, rfl⟩ := hps
        obtain ⟨e, hne, hd, hr⟩ := digit1_inv h1
        have e2 := tag_inv h2
        subst e
        rw [(parseMax_inv hv).1, printTtl, run_canon hL ha hc hne hd hr, e2]; simp
  · -- n+d
    unfold ttlDistance at hps
    cases h1 : digit1 s with
    | none => simp [h1] at hps
    | some x =>
      obtain ⟨d1, r1⟩ := x
      simp only [h1] at hps
      cases h2 : tag ['+'] r1 with
      | none => simp [h2] at hps
      | some y =>
        obtain ⟨u, r2⟩ := y
        simp only [h2] at hps
        cases h3 : digit1 r2 with
        | none => simp [h3] at hps
        | some z =>
          obtain ⟨d2, r3⟩ := z
          simp only [h3] at hps
          cases h4 : parseMax u8Max d1 with
          | none => simp [h4] at hps
          | some v1 =>
            cases h5 : parseMax u8Max d2 with
            | none => simp [h4, h5] at hps
            | some v2 =>
              simp [h4, h5] at hps
              obtain ⟨rfl, rfl⟩ := hps
              obtain ⟨e1, hne1, hd1, hr1⟩ := digit1_inv h1
              have e2 := tag_inv h2
              obtain ⟨e3, hne3, hd3, hr3⟩ := digit1_inv h3
              subst e1
              have c1 := run_canon hL ha hc hne1 hd1 hr1
              have hL2 : L = (a ++ (d1 ++ ['+'])) ++ (d2 ++ r3) := by rw [hL, e2, e3]; simp
              have c2 := run_canon hL2 (EndND.append_snoc a d1 (by decide)) hc hne3 hd3 hr3
              rw [(parseMax_inv h4).1, (parseMax_inv h5).1, printTtl, c1, c2, e2, e3]; simp
  · -- n
    unfold ttlValue at hps
    simp only [Option.map_eq_some_iff, Prod.mk.injEq, Prod.exists] at hps
    obtain ⟨v, r', hn, rfl, rfl⟩ := hps
    rw [printTtl]; exact number_canon hL ha hc hn

theorem prefixNum_canon {α} {L a s r : Str} {pre : Str} {c : Char} (hpre : pre.getLast? = some c)
    (hcd : c.isDigit = false) {max : Nat} {mk : Nat → α} {x : α}
    (hL : L = a ++ s) (hc : CanonNums L) (h : prefixNum pre max mk s = some (x, r)) :
    ∃ v, x = mk v ∧ s = pre ++ (natDigits v ++ r) := by
  unfold prefixNum at h
  cases h1 : tag pre s with
  | none => simp [h1] at h
  | some y =>
    obtain ⟨u, r1⟩ := y
    simp only [h1, Option.map_eq_some_iff, Prod.mk.injEq, Prod.exists] at h
    obtain ⟨v, r', hn, rfl, rfl⟩ := h
    have e1 := tag_inv h1
    have hL' : L = (a ++ pre) ++ r1 := by rw [hL, e1]; simp
    have ha' : EndND (a ++ pre) := by
      intro x hx
      rw [List.getLast?_append, hpre] at hx
      simp at hx; subst hx; exact hcd
    exact ⟨v, rfl, by rw [e1, number_canon hL' ha' hc hn]⟩

theorem parseWSize_canon {L a s r : Str} {w : WindowSize} (hL : L = a ++ s) (ha : EndND a) (hc : CanonNums L)
    (h : parseWSize s = some (w, r)) : s = printWSize w ++ r := by
  obtain ⟨p, hp, hps⟩ := alt_inv h
  simp only [List.mem_cons, List.mem_nil_iff, or_false] at hp
  rcases hp with rfl | rfl | rfl | rfl | rfl
  · simp only [Option.map_eq_some_iff, Prod.mk.injEq, Prod.exists] at hps
    obtain ⟨u, r', ht, rfl, rfl⟩ := hps
    rw [tag_inv ht]; rfl
  · obtain ⟨v, rfl, e⟩ := prefixNum_canon (c := '*') rfl (by decide) hL hc hps
    rw [e]; rfl
  · obtain ⟨v, rfl, e⟩ := prefixNum_canon (c := '*') rfl (by decide) hL hc hps
    rw [e]; rfl
  · obtain ⟨v, rfl, e⟩ := prefixNum_canon (c := '%') rfl (by decide) hL hc hps
    rw [e]; rfl
  · simp only [Option.map_eq_some_iff, Prod.mk.injEq, Prod.exists] at hps
    obtain ⟨v, r', hn, rfl, rfl⟩ := hps
    rw [printWSize]; exact number_canon hL ha hc hn

theorem optNum_canon {L a s r : Str} {max : Nat} {v : Option Nat} (hL : L = a ++ s) (ha : EndND a)
    (hc : CanonNums L) (h : optNum max s = some (v, r)) : s = printOptNat v ++ r := by
  obtain ⟨p, hp, hps⟩ := alt_inv h
  simp only [List.mem_cons, List.mem_nil_iff, or_false] at hp
  rcases hp with rfl | rfl
  · simp only [Option.map_eq_some_iff, Prod.mk.injEq, Prod.exists] at hps
    obtain ⟨u, r', ht, rfl, rfl⟩ := hps
    rw [tag_inv ht]; rfl
  · simp only [Option.map_eq_some_iff, Prod.mk.injEq, Prod.exists] at hps
    obtain ⟨n, r', hn, rfl, rfl⟩ := hps
    rw [printOptNat]; exact number_canon hL ha hc hn

end Huginn.SigText

namespace Huginn.SigText
open Huginn.Sig Huginn.SigText.Spec
set_option linter.unusedSimpArgs false

/-! ### tag tables print what they parsed -/

theorem ipVersionTable_consistent : ∀ e ∈ ipVersionTable, printIpVersion e.2 = e.1 := by decide +kernel
theorem quirkTable_consistent : ∀ e ∈ quirkTable, printQuirk e.2 = e.1 := by decide +kernel
theorem payloadTable_consistent : ∀ e ∈ payloadTable, printPayload e.2 = e.1 := by decide +kernel
theorem plainOptTable_consistent : ∀ e ∈ plainOptTable, printOpt e.2 = e.1 := by decide +kernel

theorem altTags_print {α} {T : List (Str × α)} {pr : α → Str} (hT : ∀ e ∈ T, pr e.2 = e.1)
    {s r : Str} {a : α} (h : altTags T s = some (a, r)) : s = pr a ++ r := by
  obtain ⟨t, hm, e⟩ := altTags_inv h
  have := hT _ hm
  simp only at this
  rw [e, this]

theorem parseOpt_canon {L a s r : Str} {o : TcpOption} (hL : L = a ++ s) (hc : CanonNums L)
    (h : parseOpt s = some (o, r)) : s = printOpt o ++ r := by
  obtain ⟨p, hp, hps⟩ := alt_inv h
  simp only [List.mem_cons, List.mem_nil_iff, or_false] at hp
  rcases hp with rfl | rfl | rfl
  · obtain ⟨v, rfl, e⟩ := prefixNum_canon (c := '+') rfl (by decide) hL hc hps
    rw [e]; rfl
  · exact altTags_print plainOptTable_consistent hps
  · obtain ⟨v, rfl, e⟩ := prefixNum_canon (c := '?') rfl (by decide) hL hc hps
    rw [e]; rfl

/-! ### lists in context -/

theorem sepLoop_canon {α} {p : Parser α} {pr : α → Str} {L : Str}
    (hinv : ∀ a s x r, L = a ++ s → EndND a → p s = some (x, r) → s = pr x ++ r)
    (fuel : Nat) {a s r : Str} {xs : List α} (hL : L = a ++ s)
    (h : sepLoop comma p fuel s = some (xs, r)) : s = tailJoin pr xs ++ r := by
  induction fuel generalizing a s xs with
  | zero =>
    simp [sepLoop] at h
    obtain ⟨rfl, rfl⟩ := h
    rfl
  | succ f ih =>
    unfold sepLoop at h
    cases hc : comma s with
    | none =>
      simp [hc] at h
      obtain ⟨rfl, rfl⟩ := h
      rfl
    | some y =>
      obtain ⟨u, s1⟩ := y
      have es : s = ',' :: s1 := tag_inv hc
      simp only [hc] at h
      cases hp : p s1 with
      | none =>
        simp [hp] at h
        obtain ⟨rfl, rfl⟩ := h
        rfl
      | some z =>
        obtain ⟨o, s2⟩ := z
        simp only [hp] at h
        split at h
        · cases h
        · cases hl : sepLoop comma p f s2 with
          | none => simp [hl] at h
          | some w =>
            obtain ⟨os, r'⟩ := w
            simp [hl] at h
            obtain ⟨rfl, rfl⟩ := h
            have hL1 : L = (a ++ [',']) ++ s1 := by rw [hL, es]; simp
            have e1 := hinv _ _ _ _ hL1 (EndND.snoc a (by decide)) hp
            have hL2 : L = (a ++ ',' :: pr o) ++ s2 := by rw [hL1, e1]; simp
            have e2 := ih hL2 hl
            rw [es, e1, e2]; simp [tailJoin]

theorem sepList0_canon {α} {p : Parser α} {pr : α → Str} {L : Str}
    (hinv : ∀ a s x r, L = a ++ s → EndND a → p s = some (x, r) → s = pr x ++ r)
    {a s r : Str} {xs : List α} (hL : L = a ++ s) (ha : EndND a)
    (h : sepList0 comma p s = some (xs, r)) : s = joinComma pr xs ++ r := by
  unfold sepList0 at h
  cases hp : p s with
  | none =>
    simp [hp] at h
    obtain ⟨rfl, rfl⟩ := h
    rfl
  | some z =>
    obtain ⟨o, s1⟩ := z
    simp only [hp] at h
    cases hl : sepLoop comma p (s1.length + 1) s1 with
    | none => simp [hl] at h
    | some w =>
      obtain ⟨os, r'⟩ := w
      simp [hl] at h
      obtain ⟨rfl, rfl⟩ := h
      have e1 := hinv _ _ _ _ hL ha hp
      have hL2 : L = (a ++ pr o) ++ s1 := by rw [hL, e1]; simp
      have e2 := sepLoop_canon hinv _ hL2 hl
      rw [e1, e2, joinComma_cons]; simp

/-! ### the whole signature -/

/-- **parse → print for TCP signatures**: if the parser reads the whole line `l` as `sg` and `l` is
canonical (numerals without leading zeros), then printing `sg` gives back `l`. -/
theorem parseTcpSig_canon {l : Str} {sg : TcpSig} (h : parseTcpSigFull l = some sg) (hc : CanonTcp l) :
    printTcpSig sg = l := by
  unfold parseTcpSigFull full at h
  cases hp : parseTcpSig l with
  | none => simp [hp] at h
  | some x =>
    obtain ⟨sg', r⟩ := x
    cases r with
    | cons c r' => simp [hp] at h
    | nil =>
      simp [hp] at h
      subst h
      simp only [parseTcpSig, Option.bind_eq_bind, Option.bind_eq_some_iff, Option.pure_def,
        Option.some.injEq, Prod.mk.injEq, Prod.exists] at hp
      obtain ⟨ver, s1, h1, u1, s2, h2, ttl, s3, h3, u2, s4, h4, olen, s5, h5, u3, s6, h6, mss, s7, h7,
        u4, s8, h8, ws, s9, h9, u5, s10, h10, sc, s11, h11, u6, s12, h12, ol, s13, h13, u7, s14, h14,
        qs, s15, h15, u8, s16, h16, pc, s17, h17, rfl, rfl⟩ := hp
      -- walk the line from left to right, keeping `l = (consumed) ++ (remaining)`
      have e1 := altTags_print ipVersionTable_consistent h1
      have e2 := tag_inv h2
      have L3 : l = (printIpVersion ver ++ [':']) ++ s2 := by rw [e1, e2]; simp
      have e3 := parseTtl_canon L3 (EndND.snoc _ (by decide)) hc h3
      have e4 := tag_inv h4
      have L5 : l = (printIpVersion ver ++ ':' :: printTtl ttl ++ [':']) ++ s4 := by rw [L3, e3, e4]; simp
      have e5 := number_canon L5 (EndND.snoc _ (by decide)) hc h5
      have e6 := tag_inv h6
      have L7 : l = (printIpVersion ver ++ ':' :: printTtl ttl ++ ':' :: natDigits olen ++ [':']) ++ s6 := by
        rw [L5, e5, e6]; simp
      have e7 := optNum_canon L7 (EndND.snoc _ (by decide)) hc h7
      have e8 := tag_inv h8
      have L9 : l = (printIpVersion ver ++ ':' :: printTtl ttl ++ ':' :: natDigits olen ++ ':' ::
          printOptNat mss ++ [':']) ++ s8 := by rw [L7, e7, e8]; simp
      have e9 := parseWSize_canon L9 (EndND.snoc _ (by decide)) hc h9
      have e10 := tag_inv h10
      have L11 : l = (printIpVersion ver ++ ':' :: printTtl ttl ++ ':' :: natDigits olen ++ ':' ::
          printOptNat mss ++ ':' :: printWSize ws ++ [',']) ++ s10 := by rw [L9, e9, e10]; simp
      have e11 := optNum_canon L11 (EndND.snoc _ (by decide)) hc h11
      have e12 := tag_inv h12
      have L13 : l = (printIpVersion ver ++ ':' :: printTtl ttl ++ ':' :: natDigits olen ++ ':' ::
          printOptNat mss ++ ':' :: printWSize ws ++ ',' :: printOptNat sc ++ [':']) ++ s12 := by
        rw [L11, e11, e12]; simp
      have e13 := sepList0_canon (pr := printOpt)
        (fun a s x r hL _ hp => parseOpt_canon hL hc hp) L13 (EndND.snoc _ (by decide)) h13
      have e14 := tag_inv h14
      have L15 : l = (printIpVersion ver ++ ':' :: printTtl ttl ++ ':' :: natDigits olen ++ ':' ::
          printOptNat mss ++ ':' :: printWSize ws ++ ',' :: printOptNat sc ++ ':' ::
          joinComma printOpt ol ++ [':']) ++ s14 := by rw [L13, e13, e14]; simp
      have e15 := sepList0_canon (pr := printQuirk)
        (fun a s x r _ _ hp => altTags_print quirkTable_consistent hp) L15 (EndND.snoc _ (by decide)) h15
      have e16 := tag_inv h16
      have e17 := altTags_print payloadTable_consistent h17
      rw [L15, e15, e16, e17]
      simp [printTcpSig]

end Huginn.SigText

namespace Huginn.SigText
open Huginn.Sig Huginn.SigText.Spec
set_option linter.unusedSimpArgs false

/-! ### the decidable check implies the declarative predicate -/

theorem canonNumsB_sound_aux (a : Str) : ∀ (l : Str) (prev : Bool), canonNumsB prev l = true →
    ∀ d b, l = a ++ (d ++ b) → d ≠ [] → (∀ c ∈ d, c.isDigit = true) →
      (match a.getLast? with | some c => c.isDigit = false | none => prev = false) →
      (∀ c ∈ b.head?, c.isDigit = false) → CanonNum d := by
  induction a with
  | nil =>
    intro l prev h d b hl hne hd hprev hb
    simp only [List.getLast?_nil] at hprev
    subst hprev
    cases d with
    | nil => exact absurd rfl hne
    | cons c d' =>
      simp only [List.nil_append, List.cons_append] at hl
      subst hl
      by_cases hc : c = '0'
      · subst hc
        cases d' with
        | nil => exact Or.inl rfl
        | cons x t =>
          have hx := hd x (by simp)
          simp [canonNumsB, hx] at h
      · right; simpa using hc
  | cons x a ih =>
    intro l prev h d b hl hne hd hprev hb
    simp only [List.cons_append] at hl
    subst hl
    simp only [canonNumsB, Bool.and_eq_true] at h
    apply ih _ _ h.2 d b rfl hne hd _ hb
    cases a with
    | nil => simpa using hprev
    | cons y t =>
      rw [List.getLast?_cons_cons] at hprev
      cases hg : (y :: t).getLast? with
      | none => simp at hg
      | some c => rw [hg] at hprev; exact hprev

theorem canonNumsB_sound {l : Str} (h : canonNumsB false l = true) : CanonNums l := by
  intro a d b hl hm
  obtain ⟨hne, hd, ha, hb⟩ := hm
  apply canonNumsB_sound_aux a l false h d b hl hne hd _ hb
  cases hg : a.getLast? with
  | none => rfl
  | some c => exact ha c hg

/-- decidable sufficient condition for `CanonTcp` -/
theorem canonTcp_of_check {l : Str} (h : canonNumsB false l = true) : CanonTcp l := canonNumsB_sound h

/-! ### HTTP with the name filter -/

theorem read_names {xs : List HeaderL} {ts : List Str}
    (h : Read (fun x t => t = printHeaderL x ∧ x.name ≠ []) xs ts) : ∀ x ∈ xs, x.name ≠ [] := by
  induction h with
  | nil => intro _ h; cases h
  | cons hx _ ih =>
    intro y hy
    rcases List.mem_cons.mp hy with rfl | hy
    · exact hx.2
    · exact ih y hy

theorem parseHeaderL_name {s r : Str} {h : HeaderL} (hp : parseHeaderL s = some (h, r)) : h.name ≠ [] := by
  unfold parseHeaderL at hp
  cases h1 : opt (tag ['?']) s with
  | none => simp [h1] at hp
  | some x =>
    obtain ⟨o, s1⟩ := x
    simp only [h1] at hp
    cases h2 : many1 isNameChar s1 with
    | none => simp [h2] at hp
    | some y =>
      obtain ⟨name, s2⟩ := y
      simp only [h2] at hp
      cases h3 : opt bracketValue s2 with
      | none => simp [h3] at hp
      | some z =>
        obtain ⟨v, s3⟩ := z
        simp [h3] at hp
        obtain ⟨rfl, rfl⟩ := hp
        exact (many1_inv h2).2.1

/-- the name filter on `habsent` never removes anything: a parsed header has a name -/
theorem filterHabsent_id {l r : Str} {raw : HttpSigL} (h : parseHttpSigRawL l = some (raw, r)) :
    filterHabsent raw = raw := by
  simp only [parseHttpSigRawL, Option.bind_eq_bind, Option.bind_eq_some_iff, Option.pure_def,
    Option.some.injEq, Prod.mk.injEq, Prod.exists] at h
  obtain ⟨ver, s1, h1, u1, s2, h2, ho, s3, h3, u2, s4, h4, ha, s5, h5, u3, s6, h6, sw, s7, h7, rfl, rfl⟩ := h
  have hn : ∀ x ∈ ha.getD [], x.name ≠ [] := by
    rcases opt_inv h5 with ⟨xs, rfl, hs⟩ | ⟨rfl, _⟩
    · obtain ⟨ts, hr, _⟩ := sepList0_inv (R := fun x t => t = printHeaderL x ∧ x.name ≠ [])
        (fun s x r hp => ⟨printHeaderL x, parseHeaderL_inv hp, rfl, parseHeaderL_name hp⟩) hs
      simpa using read_names hr
    · intro x hx; cases hx
  unfold filterHabsent
  have : (ha.getD []).filter (fun h => !h.name.isEmpty) = ha.getD [] := by
    rw [List.filter_eq_self]
    intro h hh
    have := hn h hh
    cases hn' : h.name with
    | nil => exact absurd hn' this
    | cons c n => simp
  simp only [this]

/-- **parse → print for HTTP signatures**, for every accepted text -/
theorem parseHttpSig_inv {l : Str} {s : HttpSigL} (h : parseHttpSigFullL l = some s) : printHttpSigL s = l := by
  unfold parseHttpSigFullL full parseHttpSigL at h
  cases hp : parseHttpSigRawL l with
  | none => simp [hp] at h
  | some x =>
    obtain ⟨raw, r⟩ := x
    obtain ⟨rfl, hraw⟩ := parseHttpSigRawL_inv hp
    simp [hp] at h
    subst h
    rw [filterHabsent_id hp, hraw]

end Huginn.SigText
