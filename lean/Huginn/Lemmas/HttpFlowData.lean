import Huginn.Spec.HttpFlow
/-
Helper lemmas for C09: `get_full_data` (stable sort by raw sequence number + concatenation) against
the sequence-space `stream`, for segments that arrive in stream order without wrap.
-/
namespace Huginn.HttpFlow
open Huginn.HttpFlow.Spec
set_option linter.unusedSimpArgs false

theorem concatSegs_length : ∀ (l : List Seg), (concatSegs l).length = totalLen l
  | [] => rfl
  | s :: r => by simp [concatSegs, totalLen, concatSegs_length r]

theorem totalLen_insertSeg (a : Seg) : ∀ (l : List Seg), totalLen (insertSeg a l) = a.data.length + totalLen l
  | [] => by simp [insertSeg, totalLen]
  | b :: r => by
    unfold insertSeg
    split
    · simp [totalLen]
    · simp [totalLen, totalLen_insertSeg a r]; omega

theorem totalLen_sortSegs : ∀ (l : List Seg), totalLen (sortSegs l) = totalLen l
  | [] => rfl
  | a :: r => by simp [sortSegs, totalLen_insertSeg, totalLen, totalLen_sortSegs r]

theorem fullData_length (l : List Seg) : (fullData l).length = totalLen l := by
  unfold fullData; rw [concatSegs_length, totalLen_sortSegs]

theorem totalLen_append (a b : List Seg) : totalLen (a ++ b) = totalLen a + totalLen b := by
  induction a with
  | nil => simp [totalLen]
  | cons x r ih => simp [totalLen, ih]; omega

theorem concatSegs_insertSeg_empty (a : Seg) (h : a.data = []) : ∀ (l : List Seg),
    concatSegs (insertSeg a l) = concatSegs l
  | [] => by simp [insertSeg, concatSegs, h]
  | b :: r => by
    unfold insertSeg
    split
    · simp [concatSegs, h]
    · simp [concatSegs, concatSegs_insertSeg_empty a h r]

/-- the SYN's empty segment does not contribute -/
theorem fullData_cons_empty (a : Seg) (l : List Seg) (h : a.data = []) : fullData (a :: l) = fullData l := by
  unfold fullData; simp [sortSegs, concatSegs_insertSeg_empty a h]

/-- strictly increasing raw sequence numbers: already sorted -/
def SeqIncreasing : List Seg → Prop
  | [] => True
  | [_] => True
  | a :: b :: r => a.seq < b.seq ∧ SeqIncreasing (b :: r)

theorem sortSegs_of_increasing : ∀ (l : List Seg), SeqIncreasing l → sortSegs l = l
  | [], _ => rfl
  | [a], _ => by simp [sortSegs, insertSeg]
  | a :: b :: r, h => by
    obtain ⟨hab, hr⟩ := h
    have ih := sortSegs_of_increasing (b :: r) hr
    unfold sortSegs
    rw [ih]
    unfold insertSeg
    simp [Nat.le_of_lt hab]

/-! ### tiling -/

theorem tilesFrom_append (isn : Nat) : ∀ (pre suf : List Seg) (o : Nat),
    tilesFrom isn o (pre ++ suf) = (tilesFrom isn o pre && tilesFrom isn (o + totalLen pre) suf)
  | [], suf, o => by simp [tilesFrom, totalLen]
  | s :: pre, suf, o => by
    simp only [List.cons_append, tilesFrom, totalLen, tilesFrom_append isn pre suf]
    rw [Bool.and_assoc]
    congr 2
    congr 1
    omega

theorem tilesFrom_bounds (isn : Nat) : ∀ (pre : List Seg) (o : Nat), tilesFrom isn o pre = true →
    ∀ s ∈ pre, rel isn s.seq + s.data.length ≤ o + totalLen pre
  | [], _, _, s, hs => by simp at hs
  | a :: pre, o, h, s, hs => by
    simp only [tilesFrom, Bool.and_eq_true, beq_iff_eq] at h
    simp only [List.mem_cons] at hs
    simp only [totalLen]
    rcases hs with rfl | hs
    · omega
    · have := tilesFrom_bounds isn pre _ h.2 s hs
      omega

theorem coverFrom_none (isn off : Nat) (a : Seg) (h : rel isn a.seq + a.data.length ≤ off) :
    coverFrom isn off a = none := by
  unfold coverFrom
  have : ¬ (rel isn a.seq ≤ off ∧ off < rel isn a.seq + a.data.length) := by omega
  simp only [this, if_false]

theorem firstCover_cons_none (isn off : Nat) (a : Seg) (l : List Seg) (h : coverFrom isn off a = none) :
    firstCover isn off (a :: l) = firstCover isn off l := by
  unfold firstCover; rw [List.findSome?_cons, h]

theorem firstCover_cons_some (isn off : Nat) (a : Seg) (l : List Seg) (b : Bytes) (h : coverFrom isn off a = some b) :
    firstCover isn off (a :: l) = some b := by
  unfold firstCover; rw [List.findSome?_cons, h]

theorem firstCover_none (isn off : Nat) : ∀ (pre : List Seg),
    (∀ s ∈ pre, rel isn s.seq + s.data.length ≤ off) → ∀ rest, firstCover isn off (pre ++ rest) = firstCover isn off rest
  | [], _, _ => rfl
  | a :: pre, h, rest => by
    have ha := h a (by simp)
    rw [List.cons_append, firstCover_cons_none _ _ _ _ (coverFrom_none isn off a ha)]
    exact firstCover_none isn off pre (fun s hs => h s (by simp [hs])) rest

/-- segments that tile `[0, n)` in arrival order: the stream is their concatenation -/
theorem streamAux_tiles (isn : Nat) : ∀ (suf pre : List Seg) (fuel : Nat),
    tilesFrom isn 0 (pre ++ suf) = true → (∀ s ∈ suf, s.data ≠ []) → suf.length + 1 ≤ fuel →
    streamAux isn (pre ++ suf) fuel (totalLen pre) = concatSegs suf
  | [], pre, fuel, ht, _, hf => by
    have hb := tilesFrom_bounds isn (pre ++ []) 0 ht
    simp only [List.append_nil, Nat.zero_add] at hb ⊢
    match fuel, hf with
    | fuel + 1, _ =>
      simp only [streamAux]
      have := firstCover_none isn (totalLen pre) pre hb []
      simp only [List.append_nil] at this
      rw [this]; simp only [firstCover, List.findSome?_nil, concatSegs]
  | s :: suf, pre, fuel, ht, hne, hf => by
    match fuel, hf with
    | fuel + 1, hf =>
      have ht' := ht
      rw [tilesFrom_append] at ht'
      simp only [Bool.and_eq_true, Nat.zero_add, tilesFrom, beq_iff_eq] at ht'
      obtain ⟨hpre, hrel, _⟩ := ht'
      have hb := tilesFrom_bounds isn pre 0 hpre
      simp only [Nat.zero_add] at hb
      have hsne : s.data ≠ [] := hne s (by simp)
      have hpos : 0 < s.data.length := List.length_pos_iff.mpr hsne
      simp only [streamAux]
      have hcov : coverFrom isn (totalLen pre) s = some s.data := by
        unfold coverFrom
        have hc : rel isn s.seq ≤ totalLen pre ∧ totalLen pre < rel isn s.seq + s.data.length := by omega
        have hd : totalLen pre - rel isn s.seq = 0 := by omega
        simp only [hc, and_self, if_true, hd, List.drop_zero]
      rw [firstCover_none isn (totalLen pre) pre hb (s :: suf), firstCover_cons_some _ _ _ _ _ hcov]
      simp only []
      have e : pre ++ s :: suf = (pre ++ [s]) ++ suf := by simp
      have ih := streamAux_tiles isn suf (pre ++ [s]) fuel (by rw [← e]; exact ht)
        (fun x hx => hne x (by simp [hx])) (by simp at hf ⊢; omega)
      rw [totalLen_append] at ih
      simp only [totalLen, Nat.add_zero] at ih
      rw [e, ih]
      rfl

theorem length_le_totalLen : ∀ (l : List Seg), (∀ s ∈ l, s.data ≠ []) → l.length ≤ totalLen l
  | [], _ => by simp [totalLen]
  | s :: r, h => by
    have := length_le_totalLen r (fun x hx => h x (by simp [hx]))
    have hpos : 0 < s.data.length := List.length_pos_iff.mpr (h s (by simp))
    simp [totalLen]; omega

theorem stream_tiles (isn : Nat) (segs : List Seg) (ht : tilesFrom isn 0 segs = true)
    (hne : ∀ s ∈ segs, s.data ≠ []) : stream isn segs = concatSegs segs := by
  unfold stream
  have := streamAux_tiles isn segs [] (totalLen segs + 1) (by simpa using ht) hne
    (by have := length_le_totalLen segs hne; omega)
  simpa [totalLen] using this

/-! ### no wrap: raw order is stream order -/

theorem seq_eq_of_noWrap (isn : Nat) (s : Seg) (h1 : s.seq < M32)
    (h2 : (isn + 1) % M32 + rel isn s.seq + s.data.length ≤ M32) (hne : s.data ≠ []) :
    s.seq = (isn + 1) % M32 + rel isn s.seq := by
  have hpos : 0 < s.data.length := List.length_pos_iff.mpr hne
  unfold rel at *
  unfold M32 at *
  omega

theorem increasing_of_tiles (isn : Nat) : ∀ (segs : List Seg) (o : Nat), tilesFrom isn o segs = true →
    NoWrap isn segs → (∀ s ∈ segs, s.data ≠ []) → SeqIncreasing segs
  | [], _, _, _, _ => trivial
  | [_], _, _, _, _ => trivial
  | a :: b :: r, o, ht, hw, hne => by
    simp only [tilesFrom, Bool.and_eq_true, beq_iff_eq] at ht
    obtain ⟨ha, hb, hr⟩ := ht
    have wa := hw a (by simp)
    have wb := hw b (by simp)
    have ea := seq_eq_of_noWrap isn a wa.1 wa.2 (hne a (by simp))
    have eb := seq_eq_of_noWrap isn b wb.1 wb.2 (hne b (by simp))
    have hpos : 0 < a.data.length := List.length_pos_iff.mpr (hne a (by simp))
    refine ⟨by omega, ?_⟩
    apply increasing_of_tiles isn (b :: r) (o + a.data.length)
    · simp [tilesFrom, hb, hr]
    · intro s hs; exact hw s (by simp at hs ⊢; right; exact hs)
    · intro s hs; exact hne s (by simp at hs ⊢; right; exact hs)

/-- **bytes agree**: in-order, non-wrapping segments — what `get_full_data` assembles (with or
without the SYN's empty segment in front) is the stream -/
theorem fullData_eq_stream (isn : Nat) (segs : List Seg) (ht : tilesFrom isn 0 segs = true)
    (hw : NoWrap isn segs) (hne : ∀ s ∈ segs, s.data ≠ []) :
    fullData segs = stream isn segs := by
  rw [stream_tiles isn segs ht hne]
  unfold fullData
  rw [sortSegs_of_increasing segs (increasing_of_tiles isn segs 0 ht hw hne)]

end Huginn.HttpFlow
