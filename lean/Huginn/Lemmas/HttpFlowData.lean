import Huginn.Spec.HttpFlow
/-
Helper lemmas for C09: `get_full_data` (stable sort by offset from ISN+1 modulo 2^32, gap-free walk
skipping bytes already present) computes exactly the specification's `stream`, for every set of
segments that are pieces of one byte stream — any sizes, overlaps, retransmissions, arrival order,
initial sequence number (wrap included).

Both sides are characterised as "the prefix of `S` up to the first stream offset no segment covers".
-/
namespace Huginn.HttpFlow
open Huginn.HttpFlow.Spec
set_option linter.unusedSimpArgs false

/-! ### offsets -/

theorem wsub_eq_rel (isn s : Nat) : wsub s (wadd isn 1) = rel isn s := by
  unfold wsub wadd rel M32 Spec.M32
  omega

theorem wadd_small (a b : Nat) (h : a + b < Spec.M32) : wadd a b = a + b := by
  unfold wadd M32; unfold Spec.M32 at h; omega

def endOf (isn : Nat) (s : Seg) : Nat := rel isn s.seq + s.data.length

/-- some segment covers stream offset `o` -/
def Covered (isn : Nat) (segs : List Seg) (o : Nat) : Prop :=
  ∃ s ∈ segs, rel isn s.seq ≤ o ∧ o < endOf isn s

/-- `out` is the prefix of `S` up to the first uncovered offset -/
def IsRun (isn : Nat) (S : Bytes) (segs : List Seg) (out : Bytes) : Prop :=
  out = S.take out.length ∧ out.length ≤ S.length ∧ (∀ o < out.length, Covered isn segs o) ∧
  ¬ Covered isn segs out.length

theorem isRun_unique {isn : Nat} {S : Bytes} {segs : List Seg} {a b : Bytes}
    (ha : IsRun isn S segs a) (hb : IsRun isn S segs b) : a = b := by
  obtain ⟨a1, _, a3, a4⟩ := ha
  obtain ⟨b1, _, b3, b4⟩ := hb
  have hl : a.length = b.length := by
    rcases Nat.lt_trichotomy a.length b.length with h | h | h
    · exact absurd (b3 _ h) a4
    · exact h
    · exact absurd (a3 _ h) b4
  rw [a1, b1, hl]

/-- a piece of `S` dropped further is a piece of `S` -/
theorem slice_drop (S : Bytes) (r n k : Nat) (hk : k ≤ n) :
    ((S.drop r).take n).drop k = (S.drop (r + k)).take (n - k) := by
  rw [List.drop_take, List.drop_drop]

theorem slice_append (S : Bytes) (off n m : Nat) :
    (S.drop off).take n ++ (S.drop (off + n)).take m = (S.drop off).take (n + m) := by
  rw [List.take_add, List.drop_drop]

theorem slice_length (S : Bytes) (off n : Nat) (h : off + n ≤ S.length) : ((S.drop off).take n).length = n := by
  simp; omega

/-! ### the specification's stream -/

theorem countP_lt {α} (p q : α → Bool) (l : List α) (hpq : ∀ x ∈ l, p x = true → q x = true)
    (x : α) (hx : x ∈ l) (hq : q x = true) (hp : p x = false) : l.countP p < l.countP q := by
  induction l with
  | nil => simp at hx
  | cons a r ih =>
    simp only [List.countP_cons]
    simp only [List.mem_cons] at hx
    have hmono : r.countP p ≤ r.countP q := List.countP_mono_left (fun y hy h => hpq y (by simp [hy]) h)
    rcases hx with rfl | hx
    · simp only [hq, hp, if_true, Bool.false_eq_true, if_false]; omega
    · have := ih (fun y hy => hpq y (by simp [hy])) hx
      cases hpa : p a with
      | true => simp only [hpq a (by simp) hpa, if_true]; omega
      | false => cases q a <;> simp <;> omega

theorem coverFrom_some {isn off : Nat} {s : Seg} {b : Bytes} (h : coverFrom isn off s = some b) :
    rel isn s.seq ≤ off ∧ off < endOf isn s ∧ b = s.data.drop (off - rel isn s.seq) := by
  unfold coverFrom at h
  unfold endOf
  by_cases hc : rel isn s.seq ≤ off ∧ off < rel isn s.seq + s.data.length
  · simp only [hc, and_self, if_true, Option.some.injEq] at h
    exact ⟨hc.1, hc.2, h.symm⟩
  · simp only [hc, if_false] at h; exact absurd h (by simp)

theorem coverFrom_none' {isn off : Nat} {s : Seg} (h : coverFrom isn off s = none) :
    ¬ (rel isn s.seq ≤ off ∧ off < endOf isn s) := by
  unfold coverFrom at h
  unfold endOf
  intro hc
  simp only [hc, and_self, if_true] at h
  exact absurd h (by simp)

theorem streamAux_run (isn : Nat) (S : Bytes) (segs : List Seg) (hc : Consistent isn S segs) :
    ∀ (fuel off : Nat), (∀ o < off, Covered isn segs o) → off ≤ S.length →
      segs.countP (fun s => decide (off < endOf isn s)) < fuel →
      ∃ n, streamAux isn segs fuel off = (S.drop off).take n ∧ off + n ≤ S.length ∧
        (∀ o < off + n, Covered isn segs o) ∧ ¬ Covered isn segs (off + n)
  | 0, _, _, _, hf => absurd hf (Nat.not_lt_zero _)
  | fuel + 1, off, hcov, hoff, hf => by
    unfold streamAux
    cases hfc : firstCover isn off segs with
    | none =>
      refine ⟨0, by simp, by omega, by simpa using hcov, ?_⟩
      rintro ⟨s, hs, h1, h2⟩
      unfold firstCover at hfc
      rw [List.findSome?_eq_none_iff] at hfc
      exact coverFrom_none' (hfc s hs) ⟨h1, h2⟩
    | some b =>
      unfold firstCover at hfc
      obtain ⟨s, hs, hcs⟩ := List.exists_of_findSome?_eq_some hfc
      obtain ⟨h1, h2, hb⟩ := coverFrom_some hcs
      obtain ⟨hend, hdata⟩ := hc.2 s hs
      unfold endOf at h2
      have hbS : b = (S.drop off).take (endOf isn s - off) := by
        rw [hb, hdata, slice_drop _ _ _ _ (by omega)]
        unfold endOf
        have e1 : rel isn s.seq + (off - rel isn s.seq) = off := by omega
        have e2 : s.data.length - (off - rel isn s.seq) = rel isn s.seq + s.data.length - off := by omega
        rw [e1, e2]
      have hblen : b.length = endOf isn s - off := by
        rw [hbS]; unfold endOf; simp; omega
      have hoff' : off + b.length = endOf isn s := by rw [hblen]; unfold endOf; omega
      have hmeasure : segs.countP (fun x => decide (off + b.length < endOf isn x)) <
          segs.countP (fun x => decide (off < endOf isn x)) := by
        apply countP_lt _ _ _ _ s hs
        · simp; unfold endOf; omega
        · simp; omega
        · intro x _ hx; simp at hx ⊢; omega
      obtain ⟨n, hn1, hn2, hn3, hn4⟩ := streamAux_run isn S segs hc fuel (off + b.length)
        (by
          intro o ho
          by_cases hlt : o < off
          · exact hcov o hlt
          · exact ⟨s, hs, by omega, by unfold endOf at hoff' ⊢; omega⟩)
        (by rw [hoff']; exact hend) (by omega)
      refine ⟨b.length + n, ?_, by omega, ?_, ?_⟩
      · simp only []
        rw [hn1]
        have hb' : (S.drop off).take b.length = b := by rw [hblen]; exact hbS.symm
        calc b ++ (S.drop (off + b.length)).take n
            = (S.drop off).take b.length ++ (S.drop (off + b.length)).take n := by rw [hb']
          _ = (S.drop off).take (b.length + n) := slice_append S off b.length n
      · intro o ho; exact hn3 o (by omega)
      · rw [← Nat.add_assoc]; exact hn4

theorem length_le_totalLen : ∀ (l : List Seg), (∀ s ∈ l, s.data ≠ []) → l.length ≤ totalLen l
  | [], _ => by simp [totalLen]
  | s :: r, h => by
    have := length_le_totalLen r (fun x hx => h x (by simp [hx]))
    have hpos : 0 < s.data.length := List.length_pos_iff.mpr (h s (by simp))
    simp [totalLen]; omega

theorem stream_isRun (isn : Nat) (S : Bytes) (segs : List Seg) (hc : Consistent isn S segs)
    (hne : ∀ s ∈ segs, s.data ≠ []) : IsRun isn S segs (stream isn segs) := by
  unfold stream
  have hcount : segs.countP (fun s => decide (0 < endOf isn s)) < totalLen segs + 1 := by
    have h1 := List.countP_le_length (p := fun s => decide (0 < endOf isn s)) (l := segs)
    have h2 := length_le_totalLen segs hne
    omega
  obtain ⟨n, h1, h2, h3, h4⟩ := streamAux_run isn S segs hc (totalLen segs + 1) 0 (by simp) (by simp) hcount
  rw [h1]
  have hlen : ((S.drop 0).take n).length = n := by simp; omega
  simp only [List.drop_zero] at *
  refine ⟨by rw [hlen], by rw [hlen]; omega, by rw [hlen]; simpa using h3, by rw [hlen]; simpa using h4⟩

/-! ### the code's walk -/

theorem insertByKey_perm (key : Seg → Nat) (a : Seg) : ∀ (l : List Seg), (insertByKey key a l).Perm (a :: l)
  | [] => by simp [insertByKey]
  | b :: r => by
    unfold insertByKey
    split
    · exact List.Perm.refl _
    · exact ((List.perm_cons b).mpr (insertByKey_perm key a r)).trans (List.Perm.swap a b r)

theorem sortByKey_perm (key : Seg → Nat) : ∀ (l : List Seg), (sortByKey key l).Perm l
  | [] => List.Perm.refl _
  | a :: r => by
    unfold sortByKey
    exact (insertByKey_perm key a _).trans ((List.perm_cons a).mpr (sortByKey_perm key r))

theorem insertByKey_sorted (key : Seg → Nat) (a : Seg) : ∀ (l : List Seg),
    l.Pairwise (fun x y => key x ≤ key y) → (insertByKey key a l).Pairwise (fun x y => key x ≤ key y)
  | [], _ => by simp [insertByKey]
  | b :: r, h => by
    rw [List.pairwise_cons] at h
    unfold insertByKey
    split
    · rename_i hab
      rw [List.pairwise_cons]
      refine ⟨?_, List.pairwise_cons.mpr h⟩
      intro x hx
      simp only [List.mem_cons] at hx
      rcases hx with rfl | hx
      · exact hab
      · exact Nat.le_trans hab (h.1 x hx)
    · rename_i hab
      rw [List.pairwise_cons]
      refine ⟨?_, insertByKey_sorted key a r h.2⟩
      intro x hx
      have := (insertByKey_perm key a r).subset hx
      simp only [List.mem_cons] at this
      rcases this with rfl | hx'
      · omega
      · exact h.1 x hx'

theorem sortByKey_sorted (key : Seg → Nat) : ∀ (l : List Seg), (sortByKey key l).Pairwise (fun x y => key x ≤ key y)
  | [] => List.Pairwise.nil
  | a :: r => by unfold sortByKey; exact insertByKey_sorted key a _ (sortByKey_sorted key r)

theorem walk_run (isn : Nat) (S : Bytes) (hS : S.length < Spec.M32) :
    ∀ (R P : List Seg) (next : Nat),
      (P ++ R).Pairwise (fun x y => rel isn x.seq ≤ rel isn y.seq) →
      (∀ s ∈ P ++ R, endOf isn s ≤ S.length ∧ s.data = (S.drop (rel isn s.seq)).take s.data.length) →
      (∀ s ∈ P, endOf isn s ≤ next) → (∀ o < next, Covered isn (P ++ R) o) → next ≤ S.length →
      ∃ n, walk (wadd isn 1) R next = (S.drop next).take n ∧ next + n ≤ S.length ∧
        (∀ o < next + n, Covered isn (P ++ R) o) ∧ ¬ Covered isn (P ++ R) (next + n)
  | [], P, next, _, _, hP, hcov, hn => by
    refine ⟨0, by simp [walk], by omega, by simpa using hcov, ?_⟩
    rintro ⟨s, hs, _, h2⟩
    simp only [List.append_nil] at hs
    have := hP s hs
    omega
  | s :: R, P, next, hsorted, hcons, hP, hcov, hn => by
    have hs_mem : s ∈ P ++ s :: R := by simp
    obtain ⟨hend, hdata⟩ := hcons s hs_mem
    have e : P ++ s :: R = (P ++ [s]) ++ R := by simp
    unfold walk
    simp only [wsub_eq_rel]
    by_cases hgap : rel isn s.seq > next
    · simp only [hgap, if_true]
      refine ⟨0, by simp, by omega, by simpa using hcov, ?_⟩
      rintro ⟨x, hx, h1, h2⟩
      simp only [List.mem_append, List.mem_cons] at hx
      rcases hx with hx | rfl | hx
      · have := hP x hx; omega
      · omega
      · have hsx : rel isn s.seq ≤ rel isn x.seq := by
          rw [List.pairwise_append] at hsorted
          have := hsorted.2.1
          rw [List.pairwise_cons] at this
          exact this.1 x hx
        omega
    · simp only [hgap, if_false]
      by_cases hfresh : next - rel isn s.seq < s.data.length
      · simp only [hfresh, if_true]
        unfold endOf at hend
        have hnext' : wadd next (s.data.length - (next - rel isn s.seq)) = endOf isn s := by
          rw [wadd_small _ _ (by omega)]; unfold endOf; omega
        rw [hnext']
        obtain ⟨n, h1, h2, h3, h4⟩ := walk_run isn S hS R (P ++ [s]) (endOf isn s)
          (by rw [← e]; exact hsorted) (by rw [← e]; exact hcons)
          (by
            intro x hx
            simp only [List.mem_append, List.mem_singleton] at hx
            rcases hx with hx | rfl
            · have := hP x hx; unfold endOf at *; omega
            · exact Nat.le_refl _)
          (by
            intro o ho
            rw [← e]
            by_cases hlt : o < next
            · exact hcov o hlt
            · exact ⟨s, hs_mem, by omega, ho⟩)
          (by unfold endOf; exact hend)
        rw [← e] at h3 h4
        have hfr : s.data.drop (next - rel isn s.seq) = (S.drop next).take (endOf isn s - next) := by
          rw [hdata, slice_drop _ _ _ _ (by omega)]
          unfold endOf
          have e1 : rel isn s.seq + (next - rel isn s.seq) = next := by omega
          have e2 : s.data.length - (next - rel isn s.seq) = rel isn s.seq + s.data.length - next := by omega
          rw [e1, e2]
        refine ⟨(endOf isn s - next) + n, ?_, by unfold endOf at *; omega, ?_, ?_⟩
        · rw [h1, hfr]
          have hthis : next + (endOf isn s - next) = endOf isn s := by unfold endOf; omega
          have := slice_append S next (endOf isn s - next) n
          rw [hthis] at this
          exact this
        · intro o ho; exact h3 o (by unfold endOf at *; omega)
        · have : next + (endOf isn s - next + n) = endOf isn s + n := by unfold endOf; omega
          rw [this]; exact h4
      · simp only [hfresh, if_false]
        obtain ⟨n, h1, h2, h3, h4⟩ := walk_run isn S hS R (P ++ [s]) next
          (by rw [← e]; exact hsorted) (by rw [← e]; exact hcons)
          (by
            intro x hx
            simp only [List.mem_append, List.mem_singleton] at hx
            rcases hx with hx | rfl
            · exact hP x hx
            · unfold endOf; omega)
          (by rw [← e]; exact hcov) hn
        rw [← e] at h3 h4
        exact ⟨n, h1, h2, h3, h4⟩

theorem covered_congr {isn : Nat} {l l' : List Seg} (h : ∀ s, s.data ≠ [] → (s ∈ l ↔ s ∈ l')) (o : Nat) :
    Covered isn l o ↔ Covered isn l' o := by
  constructor
  · rintro ⟨s, hs, h1, h2⟩
    have hne : s.data ≠ [] := by
      intro e; have hl : s.data.length = 0 := by rw [e]; rfl
      unfold endOf at h2; omega
    exact ⟨s, (h s hne).mp hs, h1, h2⟩
  · rintro ⟨s, hs, h1, h2⟩
    have hne : s.data ≠ [] := by
      intro e; have hl : s.data.length = 0 := by rw [e]; rfl
      unfold endOf at h2; omega
    exact ⟨s, (h s hne).mpr hs, h1, h2⟩

/-- what `get_full_data` assembles from `L` is the run of the non-empty segments of `L` -/
theorem fullData_isRun (isn : Nat) (S : Bytes) (L : List Seg) (hc : Consistent isn S L) :
    IsRun isn S L (fullData (some isn) L) := by
  unfold fullData baseOf
  simp only []
  have hkey : (fun s : Seg => wsub s.seq (wadd isn 1)) = (fun s => rel isn s.seq) := by
    funext s; exact wsub_eq_rel isn s.seq
  rw [hkey]
  generalize hsd : sortByKey (fun s => rel isn s.seq) (L.filter (fun s => !s.data.isEmpty)) = sorted
  have hperm : sorted.Perm (L.filter (fun s => !s.data.isEmpty)) := by rw [← hsd]; exact sortByKey_perm _ _
  have hsorted : sorted.Pairwise (fun x y => rel isn x.seq ≤ rel isn y.seq) := by rw [← hsd]; exact sortByKey_sorted _ _
  have hmem : ∀ s, s ∈ sorted → s ∈ L := fun s hs => (List.mem_filter.mp (hperm.subset hs)).1
  obtain ⟨n, h1, h2, h3, h4⟩ := walk_run isn S hc.1 sorted [] 0 (by simpa using hsorted)
    (by intro s hs; simp only [List.nil_append] at hs; exact hc.2 s (hmem s hs))
    (by simp) (by simp) (by simp)
  simp only [List.nil_append, Nat.zero_add, List.drop_zero] at h1 h2 h3 h4
  have hcong : ∀ o, Covered isn sorted o ↔ Covered isn L o := by
    apply covered_congr
    intro s hne
    constructor
    · exact hmem s
    · intro hs
      exact hperm.symm.subset (List.mem_filter.mpr ⟨hs, by simp [List.isEmpty_iff, hne]⟩)
  rw [h1]
  have hlen : (S.take n).length = n := by simp; omega
  refine ⟨by rw [hlen], by rw [hlen]; exact h2, ?_, ?_⟩
  · rw [hlen]; intro o ho; exact (hcong o).mp (h3 o ho)
  · rw [hlen]; intro h; exact h4 ((hcong n).mpr h)

/-- **bytes agree**: for segments that are pieces of one stream — any sizes, overlaps, retransmissions,
arrival order and initial sequence number — `get_full_data` (with or without an empty placeholder
segment in front) assembles exactly the specification's stream. -/
theorem fullData_eq_stream (isn : Nat) (S : Bytes) (segs : List Seg) (hc : Consistent isn S segs)
    (hne : ∀ s ∈ segs, s.data ≠ []) :
    fullData (some isn) segs = stream isn segs ∧
    ∀ e : Seg, e.data = [] → fullData (some isn) (e :: segs) = stream isn segs := by
  have hs := stream_isRun isn S segs hc hne
  refine ⟨isRun_unique (fullData_isRun isn S segs hc) hs, ?_⟩
  intro e he
  have : fullData (some isn) (e :: segs) = fullData (some isn) segs := by
    unfold fullData baseOf
    simp [List.filter_cons, he]
  rw [this]
  exact isRun_unique (fullData_isRun isn S segs hc) hs

theorem walk_length_le (base : Nat) : ∀ (R : List Seg) (next : Nat), (walk base R next).length ≤ totalLen R
  | [], _ => by simp [walk, totalLen]
  | s :: R, next => by
    unfold walk
    simp only []
    split
    · simp
    · split
      · have := walk_length_le base R (wadd next (s.data.length - (next - wsub s.seq base)))
        simp [totalLen]; omega
      · have := walk_length_le base R next
        simp [totalLen]; omega

theorem totalLen_perm {l T : List Seg} (hp : l.Perm T) : totalLen l = totalLen T := by
  induction hp with
  | nil => rfl
  | cons x _ ih => simp [totalLen, ih]
  | swap x y l => simp [totalLen]; omega
  | trans _ _ ih1 ih2 => exact ih1.trans ih2

theorem totalLen_filter_le (p : Seg → Bool) : ∀ (l : List Seg), totalLen (l.filter p) ≤ totalLen l
  | [] => by simp [totalLen]
  | a :: r => by
    have := totalLen_filter_le p r
    simp only [List.filter_cons]
    split <;> simp [totalLen] <;> omega

/-- the assembled bytes never exceed the bytes stored -/
theorem fullData_length_le (isn : Option Nat) (l : List Seg) : (fullData isn l).length ≤ totalLen l := by
  unfold fullData
  simp only []
  refine Nat.le_trans (walk_length_le _ _ _) ?_
  rw [totalLen_perm (sortByKey_perm _ _)]
  exact totalLen_filter_le _ _

theorem bufferedLen_eq_totalLen : ∀ (l : List Seg), bufferedLen l = totalLen l
  | [] => rfl
  | s :: r => by simp [bufferedLen, totalLen, bufferedLen_eq_totalLen r]

theorem totalLen_append (a b : List Seg) : totalLen (a ++ b) = totalLen a + totalLen b := by
  induction a with
  | nil => simp [totalLen]
  | cons x r ih => simp [totalLen, ih]; omega

end Huginn.HttpFlow
