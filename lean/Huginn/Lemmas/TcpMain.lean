import Huginn.Lemmas.TcpQuirks
import Huginn.Lemmas.TcpWin
set_option linter.unusedSimpArgs false
set_option linter.unusedVariables false
/-! Helper lemmas for C03: the shape of `process` on an accepted segment and of the walk result. -/
namespace Huginn.Lemmas.TcpMain
open Huginn.Sig Huginn.TcpExtract Huginn.TcpSig.Spec Huginn.Gen Huginn.Lemmas.TcpWalk Huginn.Lemmas.TcpQuirks

def ver (f : Fields) : IpVersion := if f.ip.v6 then .v6 else .v4
def codeHdr (f : Fields) : Nat := if f.ip.v6 then TcpConst.ipv6HdrLen else f.ip.ihl
def walked (f : Fields) : WalkSt := walk (tcpType f.tcp.flags) f.tcp.opts { quirks := hdrQuirks f }

/-- what `visit_tcp` pushes after the option loop: `bad` when `options_malformed` says so -/
def badQ (f : Fields) : List Quirk := if optionsMalformed f.tcp.opts then [.optBad] else []

/-- the signature `visit_tcp` builds -/
def modelSig (f : Fields) : TcpSig :=
  { version := ver f, ittl := calculateTtl f.ip.ttl,
    olen := if f.ip.v6 then ipv6OptLen else ipv4OptLen f.ip.ihl,
    mss := (walked f).mss,
    wsize := detectWin f.tcp.window ((walked f).mss.getD 0) 0 ((walked f).olayout.contains .ts) (ver f),
    wscale := (walked f).wscale, olayout := (walked f).olayout, quirks := (walked f).quirks ++ badQ f,
    pclass := if f.tcp.payLen = 0 then .zero else .nonZero }

def modelMtu (f : Fields) : Option Nat :=
  match (walked f).mss with
  | some m => if f.ip.v6 then extractMtu6 f.tcp.flags TcpConst.ipv6HdrLen f.tcp.doff m
              else extractMtu4 f.tcp.flags f.ip.ihl f.tcp.doff m
  | none => none

theorem process_ok (f : Fields) (hp : f.ip.proto = 6)
    (hfrag : f.ip.v6 = true ∨ (f.ip.fragOff = 0 ∧ ¬ (f.ip.flags &&& IP_MF = IP_MF)))
    (hv : isValid f.tcp.flags (tcpType f.tcp.flags) = true) :
    process f = .ok { syn := if fromClient f.tcp.flags then some (modelSig f) else none,
                      synAck := if !fromClient f.tcp.flags then some (modelSig f) else none,
                      mtu := if fromClient f.tcp.flags then modelMtu f else none,
                      tsCalls := (walked f).tsCalls.map
                        (fun v => (isPacketFromClient f.tcp.flags f.tcp.sport f.tcp.dport, v)) } := by
  cases h6 : f.ip.v6
  · rcases hfrag with h | ⟨h1, h2⟩
    · rw [h6] at h; cases h
    · unfold process visitTcp
      simp only [h6, hp, PROTO_TCP, h1, h2, hv, modelSig, modelMtu, walked, hdrQuirks, ipQuirks, ver, codeHdr, badQ]
      simp
      cases (walk (tcpType f.tcp.flags) f.tcp.opts { quirks := ipQuirksV4 f.ip ++ tcpQuirks (ipQuirksV4 f.ip) f.tcp }).mss <;> rfl
  · unfold process visitTcp
    simp only [h6, hp, PROTO_TCP, hv, modelSig, modelMtu, walked, hdrQuirks, ipQuirks, ver, codeHdr, badQ]
    simp
    cases (walk (tcpType f.tcp.flags) f.tcp.opts { quirks := ipQuirksV6 f.ip ++ tcpQuirks (ipQuirksV6 f.ip) f.tcp }).mss <;> rfl

theorem process_invalid (f : Fields) (hp : f.ip.proto = 6)
    (hfrag : f.ip.v6 = true ∨ (f.ip.fragOff = 0 ∧ ¬ (f.ip.flags &&& IP_MF = IP_MF)))
    (hv : isValid f.tcp.flags (tcpType f.tcp.flags) = false) : process f = .error .flags := by
  cases h6 : f.ip.v6
  · rcases hfrag with h | ⟨h1, h2⟩
    · rw [h6] at h; cases h
    · unfold process visitTcp
      simp [h6, hp, PROTO_TCP, h1, h2, hv]
  · unfold process visitTcp
    simp [h6, hp, PROTO_TCP, hv]

/-- The walk on an option area the grammar accepts and that has no bytes after an EOL. -/
theorem walked_eq (f : Fields) (a : Area) (hpa : parseArea f.tcp.opts = some a)
    (hpad : a.pad = none ∨ a.pad = some []) :
    (walked f).olayout = a.layout ∧
    (walked f).mss = (mssValues a).getLast? ∧
    (walked f).wscale = (wsValues a).getLast? ∧
    (walked f).quirks = addNew (hdrQuirks f) (a.items.flatMap (itemQuirks (tcpType f.tcp.flags))) := by
  have hwf : ∀ i ∈ a.items, i.WF := by
    unfold parseArea at hpa
    simp only [Option.map_eq_some_iff] at hpa
    obtain ⟨⟨is, pd⟩, hp, rfl⟩ := hpa
    exact parseItems_wf _ _ is pd hp
  unfold walked
  rw [walk_parseArea _ _ a _ hpa]
  unfold afterArea
  rw [foldItems_eq _ _ _ hwf]
  have ok1 : ∀ o : Option Nat, orKeep o none = o := by
    intro o; cases o <;> rfl
  rcases hpad with h | h <;> rw [h] <;>
    simp [Area.layout, h, mssValues, wsValues, ok1, walk, walkAux, walkStep, stepQuirks, addNew]

/-- when window scale and timestamps occur at most once, the guards of the option-quirk pushes never
fire: the option quirks are fresh (header quirks are other quirks) and distinct -/
theorem walked_quirks_unamb (f : Fields) (a : Area) (hpa : parseArea f.tcp.opts = some a)
    (hpad : a.pad = none ∨ a.pad = some [])
    (h2 : ¬ 1 < (wsValues a).length) (h3 : ¬ 1 < (tsValues a).length) :
    (walked f).quirks = hdrQuirks f ++ a.items.flatMap (itemQuirks (tcpType f.tcp.flags)) := by
  rw [(walked_eq f a hpa hpad).2.2.2]
  apply addNew_eq_append
  · exact optQ_nodup _ _ (by unfold wsValues at h2; omega) (by unfold tsValues at h3; omega)
  · intro q hq
    have : q ∈ optionQuirks := by
      rw [optQ_mem] at hq
      rcases hq with ⟨rfl, _⟩ | ⟨rfl, _⟩ | ⟨rfl, _⟩ <;> simp [optionQuirks]
    exact hdr_not_opt f q (Or.inl this)

/-- on an option area the grammar accepts nothing is pushed after the loop -/
theorem badQ_parsed (f : Fields) (a : Area) (hpa : parseArea f.tcp.opts = some a) : badQ f = [] := by
  unfold badQ
  have : ¬ optionsMalformed f.tcp.opts = true := by rw [optionsMalformed_iff, hpa]; simp
  simp [this]

/-- on a malformed one, `bad` -/
theorem badQ_malformed (f : Fields) (hpa : parseArea f.tcp.opts = none) : badQ f = [.optBad] := by
  unfold badQ
  simp [(optionsMalformed_iff f.tcp.opts).mpr hpa]

/-- the quirk list of the signature: header quirks, what the walk appends (option-derived quirks,
none of them twice), `bad` -/
theorem modelSig_quirks (f : Fields) :
    ∃ ext, (modelSig f).quirks = hdrQuirks f ++ ext ++ badQ f ∧ (∀ q ∈ ext, q ∈ optionQuirks) ∧
      (hdrQuirks f ++ ext).Nodup := by
  obtain ⟨ext, h1, h2, h3⟩ := walk_quirks (tcpType f.tcp.flags) f.tcp.opts { quirks := hdrQuirks f }
  exact ⟨ext, by simp only [modelSig, walked]; rw [h1], h2, h3 (hdr_nodup f)⟩

end Huginn.Lemmas.TcpMain

namespace Huginn.Lemmas.TcpMain
open Huginn.Sig Huginn.TcpExtract Huginn.TcpSig.Spec Huginn.Gen Huginn.Lemmas.TcpWalk Huginn.Lemmas.TcpQuirks
open Huginn.Lemmas.TcpWin

/-! ### flag predicates, all 256 flag bytes -/

theorem role_bits : ∀ fl, fl < 256 →
    ((isValid fl (tcpType fl) = true) ↔
      (¬ (fl.testBit 1 = true ∧ (fl.testBit 0 = true ∨ fl.testBit 2 = true)) ∧
       ¬ (fl.testBit 0 = true ∧ fl.testBit 2 = true) ∧
       (fl.testBit 1 = true ∨ fl.testBit 4 = true ∨ fl.testBit 0 = true ∨ fl.testBit 2 = true))) ∧
    ((fromClient fl = true) ↔ (fl.testBit 1 = true ∧ ¬ fl.testBit 4 = true)) ∧
    ((fromServer fl = true) ↔ (fl.testBit 1 = true ∧ fl.testBit 4 = true)) ∧
    (((fl &&& SYN) == SYN) = true ↔ fl.testBit 1 = true) ∧
    ((tcpType fl = SYN) ↔ (fl.testBit 1 = true ∧ ¬ fl.testBit 4 = true ∧ ¬ fl.testBit 0 = true ∧ ¬ fl.testBit 2 = true)) := by
  decide +kernel

theorem getLast?_eq_head? {α : Type} (l : List α) (h : ¬ 1 < l.length) : l.getLast? = l.head? := by
  match l, h with
  | [], _ => rfl
  | [x], _ => rfl
  | _ :: _ :: _, h => simp at h

theorem layout_contains_ts (a : Area) (hpad : a.pad = none ∨ a.pad = some []) :
    a.layout.contains TcpOption.ts = a.items.any (fun i => i.tok == .ts) := by
  unfold Area.layout
  rw [Bool.eq_iff_iff]
  simp only [List.contains_iff_mem, List.mem_append, List.mem_map, List.any_eq_true, beq_iff_eq]
  constructor
  · rintro (⟨i, hi, he⟩ | h)
    · exact ⟨i, hi, he⟩
    · rcases hpad with h' | h' <;> rw [h'] at h <;> simp at h
  · rintro ⟨i, hi, he⟩
    exact Or.inl ⟨i, hi, he⟩

theorem extractMtu4_eq (fl ihl doff m : Nat) (h : ((fl &&& SYN) == SYN) = true)
    (hc : ihl * 4 + (if doff * 4 > 20 then doff * 4 - 20 else doff * 4) = 40) (hfit : m + 40 ≤ 65535) :
    extractMtu4 fl ihl doff m = some (m + 40) := by
  by_cases hd : doff * 4 > 20
  · rw [if_pos hd] at hc
    simp [extractMtu4, h, satAdd16, mtuTcpTerm, TcpConst.mtu4IhlMul, TcpConst.mtu4TcpGuard, TcpConst.mtu4TcpSub,
      TcpConst.mtu4DoffMul, hd]
    omega
  · rw [if_neg hd] at hc
    simp [extractMtu4, h, satAdd16, mtuTcpTerm, TcpConst.mtu4IhlMul, TcpConst.mtu4TcpGuard, TcpConst.mtu4TcpSub,
      TcpConst.mtu4DoffMul, hd]
    omega

theorem extractMtu6_eq (fl doff m : Nat) (h : ((fl &&& SYN) == SYN) = true)
    (hc : 40 + (if doff * 4 > 20 then doff * 4 - 20 else doff * 4) = 60) (hfit : m + 60 ≤ 65535) :
    extractMtu6 fl TcpConst.ipv6HdrLen doff m = some (m + 60) := by
  by_cases hd : doff * 4 > 20
  · rw [if_pos hd] at hc
    simp [extractMtu6, h, satAdd16, mtuTcpTerm, TcpConst.ipv6HdrLen, TcpConst.mtu6TcpGuard, TcpConst.mtu6TcpSub,
      TcpConst.mtu6DoffMul, hd]
    omega
  · rw [if_neg hd] at hc
    simp [extractMtu6, h, satAdd16, mtuTcpTerm, TcpConst.ipv6HdrLen, TcpConst.mtu6TcpGuard, TcpConst.mtu6TcpSub,
      TcpConst.mtu6DoffMul, hd]
    omega

end Huginn.Lemmas.TcpMain
