import Huginn.Lemmas.Http1Lang
/-
Helper lemmas for C05: `get_highest_quality_language` on a rendered Accept-Language list, part 2:
elements, the comma split, and the choice of the best candidate against `Spec.preferredLang`.
-/
namespace Huginn.Http1
open Huginn.Http1.Spec Huginn.Gen
set_option linter.unusedSimpArgs false

def itemHead (i : LangItem) : Bytes := i.pre ++ i.tag ++ i.post

/-- "q" or "Q" -/
def qc (w : Weight) : UInt8 := if w.upperQ then 81 else 113

/-- `q=<qvalue>` as written -/
def qParam (w : Weight) : Bytes := qc w :: 61 :: qText w

theorem renderItem_eq (i : LangItem) :
    renderItem i = itemHead i ++ (match i.weight with
      | none => []
      | some w => 59 :: (w.ows ++ qParam w ++ w.trail)) := by
  unfold renderItem itemHead qParam qc
  cases i.weight with
  | none => rfl
  | some w => simp

theorem itemHead_bytes (i : LangItem) (h : LangItemWF i) : (44 : UInt8) ∉ itemHead i ∧ (59 : UInt8) ∉ itemHead i := by
  obtain ⟨h1, h2, ht, _⟩ := h
  obtain ⟨hb, _⟩ := langRange_bytes _ ht
  have key : ∀ b ∈ itemHead i, b ≠ 44 ∧ b ≠ 59 := by
    intro b hb'
    unfold itemHead at hb'
    simp only [List.mem_append] at hb'
    rcases hb' with (hb' | hb') | hb'
    · have := ows_facts b; simp [List.all_eq_true.mp h1 b hb'] at this; exact ⟨this.1.1, this.1.2⟩
    · have := tagByte_facts b; simp [List.all_eq_true.mp hb b hb'] at this; exact ⟨this.1.2, this.2⟩
    · have := ows_facts b; simp [List.all_eq_true.mp h2 b hb'] at this; exact ⟨this.1.1, this.1.2⟩
  exact ⟨fun hm => (key _ hm).1 rfl, fun hm => (key _ hm).2 rfl⟩

theorem qText_bytes (w : Weight) (h : WeightWF w) : (44 : UInt8) ∉ qText w ∧ (59 : UInt8) ∉ qText w := by
  obtain ⟨_, _, hw, _, hfd, _, _⟩ := h
  obtain ⟨d1, _⟩ := wholeByte_facts w hw
  have hf := digit_lower_facts (wholeByte w)
  have key : ∀ b ∈ qText w, b ≠ 44 ∧ b ≠ 59 := by
    intro b hb
    rw [qText_eq] at hb
    simp only [List.mem_cons] at hb
    rcases hb with rfl | hb
    · have h1 : isDigit (wholeByte w) = true := d1
      unfold isDigit at h1; simp at h1
      constructor <;> (intro e; rw [e] at h1; exact absurd h1 (by decide))
    · split at hb
      · simp only [List.mem_cons] at hb
        rcases hb with rfl | hb
        · exact ⟨by decide, by decide⟩
        · have := digitB_facts b; simp [List.all_eq_true.mp hfd b hb] at this
          exact ⟨this.1.1.1.1.1.2, this.1.1.1.1.2⟩
      · simp at hb
  exact ⟨fun hm => (key _ hm).1 rfl, fun hm => (key _ hm).2 rfl⟩

theorem weight_bytes (w : Weight) (h : WeightWF w) :
    (44 : UInt8) ∉ (w.ows ++ qParam w ++ w.trail) ∧ (59 : UInt8) ∉ (w.ows ++ qParam w ++ w.trail) := by
  have hq := qText_bytes w h
  obtain ⟨h1, h2, _⟩ := h
  have key : ∀ b ∈ w.ows ++ qParam w ++ w.trail, b ≠ 44 ∧ b ≠ 59 := by
    intro b hb
    simp only [List.mem_append, qParam, List.mem_cons] at hb
    rcases hb with (hb | hb | hb | hb) | hb
    · have := ows_facts b; simp [List.all_eq_true.mp h1 b hb] at this; exact ⟨this.1.1, this.1.2⟩
    · subst hb; unfold qc; split <;> exact ⟨by decide, by decide⟩
    · subst hb; exact ⟨by decide, by decide⟩
    · exact ⟨fun e => hq.1 (e ▸ hb), fun e => hq.2 (e ▸ hb)⟩
    · have := ows_facts b; simp [List.all_eq_true.mp h2 b hb] at this; exact ⟨this.1.1, this.1.2⟩
  exact ⟨fun hm => (key _ hm).1 rfl, fun hm => (key _ hm).2 rfl⟩

theorem renderItem_no_comma (i : LangItem) (hwf : LangItemWF i) : (44 : UInt8) ∉ renderItem i := by
  rw [renderItem_eq]
  have h1 := (itemHead_bytes i hwf).1
  intro hm
  simp only [List.mem_append] at hm
  rcases hm with hm | hm
  · exact h1 hm
  · cases hw : i.weight with
    | none => simp [hw] at hm
    | some w =>
      have hww : WeightWF w := by have := hwf.2.2.2; rw [hw] at this; exact this
      simp only [hw, List.mem_cons] at hm
      rcases hm with hm | hm
      · exact absurd hm (by decide)
      · exact (weight_bytes w hww).1 hm

theorem trim_itemHead (i : LangItem) (h : LangItemWF i) : trim (itemHead i) = i.tag := by
  obtain ⟨h1, h2, ht, _⟩ := h
  obtain ⟨hb, hne⟩ := langRange_bytes _ ht
  have hv : ∀ b ∈ i.tag, isVchar b = true := by
    intro b hb'
    have := tagByte_facts b; simp [List.all_eq_true.mp hb b hb'] at this; exact this.1.1
  unfold itemHead
  exact trim_ows_value _ _ _ h1 h2
    (fun b hb' => vchar_not_ws1 (hv b (List.mem_of_mem_head? hb')))
    (fun b hb' => vchar_not_ws1 (hv b (List.mem_of_getLast? hb')))
    (startsWithUSpace_ascii _ (fun b hb' => vchar_lt (hv b (List.mem_of_mem_head? hb'))))
    (endsWithUSpace_ascii _ (fun b hb' => vchar_lt (hv b (List.mem_of_getLast? hb'))))

theorem langName_eq_knownLang (i : LangItem) : langName (primaryLower i) = knownLang i := by
  unfold langName knownLang
  cases HttpLists.languages.find? (fun p => ascii p.1 == primaryLower i) <;> rfl

theorem qText_last (w : Weight) (h : WeightWF w) :
    ∀ b, (qParam w).getLast? = some b → isVchar b = true := by
  obtain ⟨_, _, hw, _, hfd, _, _⟩ := h
  obtain ⟨d1, _⟩ := wholeByte_facts w hw
  intro b hb
  have hmem : b ∈ qText w := by
    have : b ∈ qParam w := List.mem_of_getLast? hb
    unfold qParam at this hb
    -- the last byte of `q = qText` lies in the non-empty qText
    rw [qText_eq] at hb ⊢
    simp only [List.getLast?_cons_cons] at hb
    exact List.mem_of_getLast? hb
  rw [qText_eq] at hmem
  simp only [List.mem_cons] at hmem
  have dv : ∀ x, isDigit x = true → isVchar x = true := by
    intro x hx; unfold isDigit at hx; unfold isVchar; simp at hx ⊢; constructor <;> grind
  rcases hmem with rfl | hmem
  · exact dv _ d1
  · split at hmem
    · simp only [List.mem_cons] at hmem
      rcases hmem with rfl | hmem
      · decide
      · have := digitB_facts b; simp [List.all_eq_true.mp hfd b hmem] at this
        exact dv _ this.1.1.1.1.1.1
    · simp at hmem

theorem trim_weight (w : Weight) (h : WeightWF w) : trim (w.ows ++ qParam w ++ w.trail) = qParam w := by
  have hlast := qText_last w h
  obtain ⟨h1, h2, _⟩ := h
  have hhead : ∀ b, (qParam w).head? = some b → isVchar b = true := by
    intro b hb; unfold qParam at hb; simp at hb; subst hb; unfold qc; split <;> decide
  exact trim_ows_value _ _ _ h1 h2
    (fun b hb => vchar_not_ws1 (hhead b hb)) (fun b hb => vchar_not_ws1 (hlast b hb))
    (startsWithUSpace_ascii _ (fun b hb => vchar_lt (hhead b hb)))
    (endsWithUSpace_ascii _ (fun b hb => vchar_lt (hlast b hb)))

theorem stripQPrefix_qParam (w : Weight) : stripQPrefix (qParam w) = qText w := by
  unfold qParam qc
  split
  · exact stripQPrefix_upper _
  · exact stripQPrefix_lower _

/-- the candidate the code derives from one well-formed element -/
theorem langPart_wf (i : LangItem) (hwf : LangItemWF i) :
    langPart (renderItem i) = some ((knownLang i).map (fun n => (qOf i, n))) := by
  obtain ⟨_, h59⟩ := itemHead_bytes i hwf
  have htag : i.tag ≠ [] := (langRange_bytes _ hwf.2.2.1).2
  have hprim : lower ((splitByte 45 i.tag).headD []) = primaryLower i := rfl
  unfold langPart
  rw [renderItem_eq]
  cases hw : i.weight with
  | none =>
    simp only [List.append_nil]
    rw [splitByte_last 59 _ h59]
    simp only [List.headD_cons, List.drop_succ_cons, List.drop_nil, trim_itemHead i hwf]
    have : i.tag.isEmpty = false := by simp [List.isEmpty_iff, htag]
    simp only [this, Bool.false_eq_true, if_false, hprim, langName_eq_knownLang, qOf, hw]
  | some w =>
    have hww : WeightWF w := by have := hwf.2.2.2; rw [hw] at this; exact this
    simp only []
    rw [splitByte_line 59 _ _ h59, splitByte_last 59 _ (weight_bytes w hww).2]
    simp only [List.headD_cons, List.drop_succ_cons, List.drop_zero, trim_itemHead i hwf]
    have : i.tag.isEmpty = false := by simp [List.isEmpty_iff, htag]
    simp only [this, Bool.false_eq_true, if_false, trim_weight w hww, stripQPrefix_qParam, parseQ_qText w hww,
      hprim, langName_eq_knownLang, qOf, hw]

theorem splitByte_renderLangs : ∀ (ls : List LangItem), ls ≠ [] → (∀ i ∈ ls, LangItemWF i) →
    splitByte 44 (renderLangs ls) = ls.map renderItem
  | [], h, _ => absurd rfl h
  | [i], _, h => by
    simp only [renderLangs, List.map_cons, List.map_nil]
    exact splitByte_last 44 _ (renderItem_no_comma i (h i (by simp)))
  | i :: j :: r, _, h => by
    simp only [renderLangs, List.map_cons]
    have e : renderItem i ++ [44] ++ renderLangs (j :: r) = renderItem i ++ 44 :: renderLangs (j :: r) := by simp
    rw [e, splitByte_line 44 _ _ (renderItem_no_comma i (h i (by simp))),
      splitByte_renderLangs (j :: r) (by simp) (fun x hx => h x (by simp at hx ⊢; right; exact hx))]
    simp

def cand (i : LangItem) : Option (Q × Bytes) := (knownLang i).map (fun n => (qOf i, n))

theorem langCandidates_wf : ∀ (ls : List LangItem), (∀ i ∈ ls, LangItemWF i) →
    langCandidates (ls.map renderItem) = some (ls.filterMap cand)
  | [], _ => rfl
  | i :: ls, h => by
    simp only [List.map_cons, langCandidates, langPart_wf i (h i (by simp)),
      langCandidates_wf ls (fun x hx => h x (by simp [hx])), List.filterMap_cons]
    unfold cand
    cases knownLang i <;> simp

/-! ### quality comparison -/

def scaled (q : Q) : Nat := q.num * 10 ^ (3 - q.scale)

theorem Q_lt_scaled (a b : Q) (ha : a.neg = false) (hb : b.neg = false) (sa : a.scale ≤ 3) (sb : b.scale ≤ 3) :
    Q.lt a b = decide (scaled a < scaled b) := by
  obtain ⟨na, n1, s1⟩ := a
  obtain ⟨nb, n2, s2⟩ := b
  simp only at ha hb sa sb
  subst ha hb
  have key : n1 * 10 ^ s2 < n2 * 10 ^ s1 ↔ n1 * 10 ^ (3 - s1) < n2 * 10 ^ (3 - s2) := by
    have h1 : s1 = 0 ∨ s1 = 1 ∨ s1 = 2 ∨ s1 = 3 := by omega
    have h2 : s2 = 0 ∨ s2 = 1 ∨ s2 = 2 ∨ s2 = 3 := by omega
    rcases h1 with rfl | rfl | rfl | rfl <;> rcases h2 with rfl | rfl | rfl | rfl <;>
      simp <;> omega
  unfold Q.lt scaled
  simp only []
  exact decide_eq_decide.mpr key

theorem digitsVal_acc : ∀ (xs : Bytes) (acc : Nat), digitsVal xs acc = acc * 10 ^ xs.length + digitsVal xs 0
  | [], acc => by simp [digitsVal]
  | x :: xs, acc => by
    simp only [digitsVal, List.length_cons]
    rw [digitsVal_acc xs (acc * 10 + (x.toNat - 48)), digitsVal_acc xs (0 * 10 + (x.toNat - 48))]
    rw [Nat.pow_succ]
    simp [Nat.add_mul, Nat.mul_assoc, Nat.mul_comm 10]
    omega

theorem digitsVal_zeros : ∀ (k : Nat) (acc : Nat), digitsVal (List.replicate k 48) acc = acc * 10 ^ k
  | 0, acc => by simp [digitsVal]
  | k + 1, acc => by
    simp only [List.replicate_succ, digitsVal]
    rw [digitsVal_zeros k]
    have : (48 : UInt8).toNat - 48 = 0 := by decide
    rw [this, Nat.pow_succ]; simp [Nat.mul_assoc, Nat.mul_comm 10]

theorem digitsVal_append (xs ys : Bytes) (acc : Nat) : digitsVal (xs ++ ys) acc = digitsVal ys (digitsVal xs acc) := by
  induction xs generalizing acc with
  | nil => rfl
  | cons x xs ih => simp [digitsVal, ih]

theorem qOf_facts (i : LangItem) (h : LangItemWF i) :
    (qOf i).neg = false ∧ (qOf i).scale ≤ 3 ∧ scaled (qOf i) = itemQ i := by
  unfold qOf itemQ
  cases hw : i.weight with
  | none => exact ⟨rfl, by decide, by decide⟩
  | some w =>
    have hww : WeightWF w := by have := h.2.2.2; rw [hw] at this; exact this
    obtain ⟨_, _, hwh, hfl, _, hdot, _⟩ := hww
    obtain ⟨_, d5⟩ := wholeByte_facts w hwh
    simp only []
    unfold qOfWeight qMilli scaled
    cases hd : w.dot with
    | false =>
      have := hdot hd
      simp [this, digitsVal]
    | true =>
      simp only [if_true]
      refine ⟨trivial, hfl, ?_⟩
      show digitsVal (wholeByte w :: w.frac) 0 * 10 ^ (3 - w.frac.length) = _
      simp only [digitsVal, Nat.zero_mul, Nat.zero_add, d5]
      rw [digitsVal_append, digitsVal_zeros, digitsVal_acc w.frac w.whole]
      rw [Nat.add_mul, Nat.mul_assoc, ← Nat.pow_add]
      have : w.frac.length + (3 - w.frac.length) = 3 := by omega
      rw [this]

/-- a known element together with its language name -/
def knownPairs (ls : List LangItem) : List (LangItem × Bytes) :=
  ls.filterMap (fun i => (knownLang i).map (fun n => (i, n)))

theorem filterMap_cand (ls : List LangItem) :
    ls.filterMap cand = (knownPairs ls).map (fun p => (qOf p.1, p.2)) := by
  unfold knownPairs cand
  induction ls with
  | nil => rfl
  | cons i r ih =>
    simp only [List.filterMap_cons]
    cases knownLang i <;> simp [ih]

theorem filterMap_spec (ls : List LangItem) :
    ls.filterMap (fun i => (knownLang i).map (fun n => (itemQ i, n))) = (knownPairs ls).map (fun p => (itemQ p.1, p.2)) := by
  unfold knownPairs
  induction ls with
  | nil => rfl
  | cons i r ih =>
    simp only [List.filterMap_cons]
    cases knownLang i <;> simp [ih]

theorem mem_knownPairs {ls : List LangItem} {p : LangItem × Bytes} (h : p ∈ knownPairs ls) : p.1 ∈ ls := by
  unfold knownPairs at h
  rw [List.mem_filterMap] at h
  obtain ⟨i, hi, he⟩ := h
  cases hk : knownLang i with
  | none => simp [hk] at he
  | some n => simp [hk] at he; rw [← he]; exact hi

def better (best x : LangItem × Bytes) : LangItem × Bytes := if itemQ best.1 < itemQ x.1 then x else best

theorem pickBest_fold : ∀ (K : List (LangItem × Bytes)) (b : LangItem × Bytes),
    (∀ p ∈ K, LangItemWF p.1) → LangItemWF b.1 →
    pickBest (K.map (fun p => (qOf p.1, p.2))) (some (qOf b.1, b.2)) =
      some (qOf (K.foldl better b).1, (K.foldl better b).2)
  | [], _, _, _ => rfl
  | x :: K, b, h, hb => by
    have hx := h x (by simp)
    obtain ⟨a1, a2, a3⟩ := qOf_facts b.1 hb
    obtain ⟨b1, b2, b3⟩ := qOf_facts x.1 hx
    simp only [List.map_cons, pickBest, List.foldl_cons]
    rw [Q_lt_scaled _ _ a1 b1 a2 b2, a3, b3]
    unfold better
    by_cases hlt : itemQ b.1 < itemQ x.1
    · simp only [hlt, decide_true, if_true]
      exact pickBest_fold K x (fun p hp => h p (by simp [hp])) hx
    · simp only [hlt, decide_false, Bool.false_eq_true, if_false]
      exact pickBest_fold K b (fun p hp => h p (by simp [hp])) hb

theorem spec_fold : ∀ (K : List (LangItem × Bytes)) (b : LangItem × Bytes),
    (K.map (fun p => (itemQ p.1, p.2))).foldl (fun best x => if best.1 < x.1 then x else best) (itemQ b.1, b.2) =
      (itemQ (K.foldl better b).1, (K.foldl better b).2)
  | [], _ => rfl
  | x :: K, b => by
    simp only [List.map_cons, List.foldl_cons]
    unfold better
    by_cases hlt : itemQ b.1 < itemQ x.1
    · simp only [hlt, if_true]; exact spec_fold K x
    · simp only [hlt, if_false]; exact spec_fold K b

/-- **the language the code selects is the specified one** for every rendered RFC 7231 list -/
theorem highestQualityLanguage_wf (ls : List LangItem) (hne : ls ≠ []) (h : ∀ i ∈ ls, LangItemWF i) :
    highestQualityLanguage (renderLangs ls) = some (preferredLang ls) := by
  unfold highestQualityLanguage preferredLang
  rw [splitByte_renderLangs ls hne h, langCandidates_wf ls h, filterMap_cand, filterMap_spec]
  simp only []
  have hK : ∀ p ∈ knownPairs ls, LangItemWF p.1 := fun p hp => h _ (mem_knownPairs hp)
  cases hk : knownPairs ls with
  | nil => rfl
  | cons b K =>
    rw [hk] at hK
    simp only [List.map_cons, pickBest]
    rw [pickBest_fold K b (fun p hp => hK p (by simp [hp])) (hK b (by simp)), spec_fold K b]
    rfl

end Huginn.Http1
