import Huginn.Spec.Uptime
set_option linter.unusedSimpArgs false
set_option linter.unusedVariables false
/-! Helper lemmas for C19: `guess_frequency` against the declarative snap relation. -/
namespace Huginn.Lemmas.UptimeGrid
open Huginn.Uptime Huginn.Uptime.Spec

/-- `round(raw / base)` -/
def multOf (n d b : Nat) : Nat := (2 * n + d * b) / (2 * d * b)

theorem mult_bounds (n d b : Nat) (hd : 0 < d) (hb : 0 < b) :
    2 * (b * d * multOf n d b) ≤ 2 * n + d * b ∧ 2 * n + d * b < 2 * (b * d * multOf n d b) + 2 * (d * b) := by
  have hD : 0 < 2 * d * b := Nat.mul_pos (Nat.mul_pos (by omega) hd) hb
  have h1 : multOf n d b * (2 * d * b) ≤ 2 * n + d * b := Nat.div_mul_le_self _ _
  have h2 : 2 * n + d * b < 2 * d * b * (multOf n d b + 1) := Nat.lt_mul_div_succ _ hD
  have e1 : multOf n d b * (2 * d * b) = 2 * (b * d * multOf n d b) := by ac_rfl
  have e2 : 2 * d * b * (multOf n d b + 1) = 2 * (b * d * multOf n d b) + 2 * (d * b) := by
    rw [Nat.mul_add, Nat.mul_one]
    have : 2 * d * b * multOf n d b = 2 * (b * d * multOf n d b) := by ac_rfl
    rw [this]; congr 1; ac_rfl
  rw [e1] at h1; rw [e2] at h2
  exact ⟨h1, h2⟩

theorem ite_some_none (c : Prop) [Decidable c] (b : Nat) :
    (if c then some b else none) = none ∨ (if c then some b else none) = some b := by
  by_cases h : c <;> simp [h]

theorem guess_cases (r : Freq) (b : Nat) (tol : Nat × Nat) :
    guessFrequency r b tol = none ∨ guessFrequency r b tol = some (b * multOf r.num r.den b) := by
  unfold guessFrequency
  by_cases h1 : r.num = 0 ∨ b = 0
  · simp [h1]
  · simp only [h1, if_false]
    by_cases h2 : (2 * r.num + r.den * b) / (2 * r.den * b) = 0
    · simp [h2]
    · simp only [h2, if_false]
      exact ite_some_none _ _

theorem guess_iff (n d b : Nat) (hd : 0 < d) (hb : 0 < b) :
    guessFrequency ⟨n, d⟩ b (1, 10) = some (b * multOf n d b) ↔ Snap b n d (b * multOf n d b) := by
  obtain ⟨h1, h2⟩ := mult_bounds n d b hd hb
  have hE : 0 < d * b := Nat.mul_pos hd hb
  have eM : b * multOf n d b * d = b * d * multOf n d b := by ac_rfl
  have eM2 : 2 * (b * multOf n d b) * d = 2 * (b * d * multOf n d b) := by ac_rfl
  have eb : b * d = d * b := Nat.mul_comm _ _
  unfold guessFrequency Snap
  simp only [Nat.mul_one]
  have hk : (2 * n + d * b) / (2 * d * b) = multOf n d b := rfl
  rw [hk, eM2, eM, eb]
  have hmod : b * multOf n d b % b = 0 := Nat.mul_mod_right _ _
  rw [eb] at h1 h2
  generalize hQ : d * b * multOf n d b = Q at *
  generalize hEE : d * b = E at *
  by_cases hk0 : multOf n d b = 0
  · -- multiplier 0: nothing snaps
    have : b * multOf n d b = 0 := by rw [hk0]; rfl
    simp only [hk0, this, Nat.lt_irrefl, false_and, iff_false]
    split <;> simp
  · have hkpos : 0 < b * multOf n d b := Nat.mul_pos hb (Nat.pos_of_ne_zero hk0)
    have hQpos : 0 < Q := by
      rw [← hQ, ← hEE]; exact Nat.mul_pos (Nat.mul_pos hd hb) (Nat.pos_of_ne_zero hk0)
    have hQE : E ≤ Q := by
      rw [← hQ, ← hEE]; exact Nat.le_mul_of_pos_right _ (Nat.pos_of_ne_zero hk0)
    have hn : n ≠ 0 := by omega
    have hb0 : b ≠ 0 := by omega
    simp only [hn, hb0, or_self, if_false, hk0, hkpos, hmod, true_and]
    by_cases hge : n ≥ Q
    · simp only [hge, if_true]
      constructor
      · intro h
        split at h
        · rename_i hc; omega
        · cases h
      · intro h
        rw [if_pos (by omega)]
    · simp only [hge, if_false]
      constructor
      · intro h
        split at h
        · rename_i hc; omega
        · cases h
      · intro h
        rw [if_pos (by omega)]

/-- the snapped multiple is unique -/
theorem snap_unique (n d b M : Nat) (hd : 0 < d) (hb : 0 < b) (h : Snap b n d M) : M = b * multOf n d b := by
  obtain ⟨hpos, hmod, hlo, hhi, _, _⟩ := h
  obtain ⟨k, rfl⟩ : ∃ k, M = b * k := ⟨M / b, (Nat.mul_div_cancel' (Nat.dvd_of_mod_eq_zero hmod)).symm⟩
  congr 1
  unfold multOf
  symm
  apply Nat.div_eq_of_lt_le
  · have : k * (2 * d * b) = 2 * (b * k) * d := by ac_rfl
    rw [this]; have : b * d = d * b := Nat.mul_comm _ _
    omega
  · have : (k + 1) * (2 * d * b) = 2 * (b * k) * d + 2 * (d * b) := by
      rw [Nat.add_mul, Nat.one_mul]
      have : k * (2 * d * b) = 2 * (b * k) * d := by ac_rfl
      rw [this]; congr 1; ac_rfl
    rw [this]; have : b * d = d * b := Nat.mul_comm _ _
    omega

theorem snap_le (n d b M : Nat) (hd : 0 < d) (h : Snap b n d M) : M ≤ n / d + b := by
  obtain ⟨_, _, hlo, _⟩ := h
  have : M * d ≤ n + b * d := by
    have : 2 * M * d = 2 * (M * d) := by ac_rfl
    omega
  calc M ≤ (n + b * d) / d := (Nat.le_div_iff_mul_le hd).2 this
    _ = n / d + b := Nat.add_mul_div_right _ _ hd

end Huginn.Lemmas.UptimeGrid
