import Huginn.Spec.SigText
/-
Helper lemmas for C06 (print → parse direction): the combinator kit, decimal numerals,
tag tables, `separated_list`, and each TCP field.
-/
namespace Huginn.SigText
open Huginn.Sig

/-! ### tags -/

theorem stripPrefix_append (t r : Str) : stripPrefix t (t ++ r) = some r := by
  induction t with
  | nil => cases r <;> rfl
  | cons a t ih => simp [stripPrefix, ih]

theorem stripPrefix_eq_some {t s r : Str} : stripPrefix t s = some r ↔ s = t ++ r := by
  induction t generalizing s with
  | nil => cases s <;> simp [stripPrefix, eq_comm]
  | cons a t ih =>
    cases s with
    | nil => simp [stripPrefix]
    | cons b s =>
      by_cases h : a = b
      · subst h; simp [stripPrefix, ih]
      · simp [stripPrefix, h]; intro h'; exact absurd h'.symm h

theorem stripPrefix_eq_none {t s : Str} : stripPrefix t s = none ↔ ¬ t <+: s := by
  constructor
  · intro h ⟨r, hr⟩
    rw [← hr, stripPrefix_append] at h; cases h
  · intro h
    cases hs : stripPrefix t s with
    | none => rfl
    | some r => exact absurd ⟨r, (stripPrefix_eq_some.mp hs).symm⟩ h

@[simp] theorem tag_append (t r : Str) : tag t (t ++ r) = some ((), r) := by
  simp [tag, stripPrefix_append]

@[simp] theorem tag_cons_self (c : Char) (r : Str) : tag [c] (c :: r) = some ((), r) := by
  simp [tag, stripPrefix]

theorem tag_cons_ne {a c : Char} (t r : Str) (h : a ≠ c) : tag (a :: t) (c :: r) = none := by
  simp [tag, stripPrefix, h]

@[simp] theorem tag_nil_input (a : Char) (t : Str) : tag (a :: t) [] = none := by
  simp [tag, stripPrefix]

/-- rest of the input after a printed field: end of text, or the next delimiter -/
def Delim (r : Str) : Prop := r = [] ∨ (∃ r', r = ':' :: r') ∨ ∃ r', r = ',' :: r'

theorem Delim.colon (r : Str) : Delim (':' :: r) := Or.inr (Or.inl ⟨r, rfl⟩)
theorem Delim.comma (r : Str) : Delim (',' :: r) := Or.inr (Or.inr ⟨r, rfl⟩)
theorem Delim.nil : Delim [] := Or.inl rfl

/-! ### tag tables -/

/-- no token of the table is a prefix of another one -/
def Incomparable {α} (T : List (Str × α)) : Prop :=
  T.Pairwise fun x y => ¬ x.1 <+: y.1 ∧ ¬ y.1 <+: x.1

instance {α} (T : List (Str × α)) : Decidable (Incomparable T) := by
  unfold Incomparable; exact inferInstance

theorem altTags_of_mem {α} {T : List (Str × α)} (hT : Incomparable T) {t : Str} {a : α}
    (h : (t, a) ∈ T) (r : Str) : altTags T (t ++ r) = some (a, r) := by
  induction T with
  | nil => cases h
  | cons e T ih =>
    obtain ⟨t', a'⟩ := e
    rw [Incomparable, List.pairwise_cons] at hT
    rcases List.mem_cons.mp h with h | h
    · cases h; simp [altTags, stripPrefix_append]
    · have hne : stripPrefix t' (t ++ r) = none := by
        rw [stripPrefix_eq_none]
        intro hp
        have := hT.1 _ h
        rcases List.prefix_or_prefix_of_prefix hp (List.prefix_append t r) with h1 | h1
        · exact this.1 h1
        · exact this.2 h1
      simp [altTags, hne, ih hT.2 h]

/-- decidable: every token is non-empty and does not start with `c` -/
def NoneStartsWith {α} (T : List (Str × α)) (c : Char) : Prop :=
  ∀ e ∈ T, e.1.head?.isSome = true ∧ e.1.head? ≠ some c
instance {α} (T : List (Str × α)) (c : Char) : Decidable (NoneStartsWith T c) := by
  unfold NoneStartsWith; exact inferInstance

theorem altTags_none_of_head {α} {T : List (Str × α)} {c : Char}
    (hT : NoneStartsWith T c) (r : Str) : altTags T (c :: r) = none := by
  induction T with
  | nil => rfl
  | cons e T ih =>
    obtain ⟨t', a'⟩ := e
    have h := hT _ (List.mem_cons_self)
    cases t' with
    | nil => simp at h
    | cons a t =>
      have h2 : a ≠ c := by intro e; subst e; simp at h
      simp [altTags, stripPrefix, h2, ih (fun e he => hT e (List.mem_cons_of_mem _ he))]

theorem altTags_nil_input {α} {T : List (Str × α)} (hT : ∀ e ∈ T, e.1 ≠ []) : altTags T [] = none := by
  induction T with
  | nil => rfl
  | cons e T ih =>
    obtain ⟨t', a'⟩ := e
    have : t' ≠ [] := hT _ (List.mem_cons_self)
    cases t' with
    | nil => exact absurd rfl this
    | cons a t => simp [altTags, stripPrefix, ih (fun e he => hT e (List.mem_cons_of_mem _ he))]

/-! ### decimal numerals -/

theorem natDigits_ne_nil (n : Nat) : natDigits n ≠ [] := Nat.toDigits_ne_nil

theorem isDigit_of_mem_natDigits {n : Nat} {c : Char} (h : c ∈ natDigits n) : c.isDigit = true :=
  Nat.isDigit_of_mem_toDigits (by decide) (by decide) h

@[simp] theorem decVal_natDigits (n : Nat) : decVal (natDigits n) = n := Nat.ofDigitChars_ten_toDigits

/-- the next character does not continue a numeral -/
def NoDigit (r : Str) : Prop := ∀ c r', r = c :: r' → c.isDigit = false

theorem NoDigit.nil : NoDigit [] := fun _ _ h => by cases h
theorem NoDigit.cons {c : Char} (h : c.isDigit = false) (r : Str) : NoDigit (c :: r) :=
  fun _ _ e => by cases e; exact h
theorem Delim.noDigit {r : Str} (h : Delim r) : NoDigit r := by
  rcases h with rfl | ⟨r', rfl⟩ | ⟨r', rfl⟩
  · exact NoDigit.nil
  · exact NoDigit.cons (by decide) _
  · exact NoDigit.cons (by decide) _

theorem takeWhile_digits_append {l r : Str} (hl : ∀ c ∈ l, c.isDigit = true) (hr : NoDigit r) :
    (l ++ r).takeWhile Char.isDigit = l := by
  rw [List.takeWhile_append_of_pos hl]
  cases r with
  | nil => simp
  | cons c r' => simp [hr c r' rfl]

theorem dropWhile_digits_append {l r : Str} (hl : ∀ c ∈ l, c.isDigit = true) (hr : NoDigit r) :
    (l ++ r).dropWhile Char.isDigit = r := by
  rw [List.dropWhile_append_of_pos hl]
  cases r with
  | nil => simp
  | cons c r' => simp [hr c r' rfl]

theorem digit1_append {l r : Str} (hne : l ≠ []) (hl : ∀ c ∈ l, c.isDigit = true) (hr : NoDigit r) :
    digit1 (l ++ r) = some (l, r) := by
  cases l with
  | nil => exact absurd rfl hne
  | cons c l =>
    have hc : c.isDigit = true := hl c (List.mem_cons_self)
    have hl' : ∀ x ∈ l, x.isDigit = true := fun x hx => hl x (List.mem_cons_of_mem _ hx)
    simp [digit1, many1, hc, takeWhile_digits_append hl' hr, dropWhile_digits_append hl' hr]

theorem digit1_natDigits (n : Nat) {r : Str} (hr : NoDigit r) :
    digit1 (natDigits n ++ r) = some (natDigits n, r) :=
  digit1_append (natDigits_ne_nil n) (fun _ h => isDigit_of_mem_natDigits h) hr

theorem digit1_none_of_head {c : Char} (h : c.isDigit = false) (r : Str) : digit1 (c :: r) = none := by
  simp [digit1, many1, h]

@[simp] theorem digit1_nil : digit1 [] = none := rfl

theorem parseMax_natDigits {n max : Nat} (h : n ≤ max) : parseMax max (natDigits n) = some n := by
  simp [parseMax, h]

theorem number_natDigits {n max : Nat} (h : n ≤ max) {r : Str} (hr : NoDigit r) :
    number max (natDigits n ++ r) = some (n, r) := by
  simp [number, digit1_natDigits n hr, parseMax_natDigits h]

theorem number_none_of_head {c : Char} (h : c.isDigit = false) (max : Nat) (r : Str) :
    number max (c :: r) = none := by
  simp [number, digit1_none_of_head h]

/-- the first character of a printed numeral is a digit -/
theorem natDigits_head (n : Nat) : ∃ c l, natDigits n = c :: l ∧ c.isDigit = true := by
  cases h : natDigits n with
  | nil => exact absurd h (natDigits_ne_nil n)
  | cons c l => exact ⟨c, l, rfl, isDigit_of_mem_natDigits (by rw [h]; exact List.mem_cons_self)⟩

theorem tag_natDigits_none {a : Char} (t : Str) (ha : a.isDigit = false) (n : Nat) (r : Str) :
    tag (a :: t) (natDigits n ++ r) = none := by
  obtain ⟨c, l, h, hc⟩ := natDigits_head n
  rw [h]
  exact tag_cons_ne _ _ (fun e => by subst e; rw [ha] at hc; cases hc)

end Huginn.SigText

namespace Huginn.SigText
open Huginn.Sig Huginn.SigText.Spec
set_option linter.unusedSimpArgs false

/-! ### regenerated tag tables: decidable facts, re-checked whenever `Gen/Tokens.lean` changes -/

theorem ipVersionTable_incomparable : Incomparable ipVersionTable := by decide +kernel
theorem quirkTable_incomparable : Incomparable quirkTable := by decide +kernel
theorem payloadTable_incomparable : Incomparable payloadTable := by decide +kernel
theorem httpVersionTable_incomparable : Incomparable httpVersionTable := by decide +kernel
theorem plainOptTable_incomparable : Incomparable plainOptTable := by decide +kernel

theorem ipVersion_mem (v : IpVersion) : (printIpVersion v, v) ∈ ipVersionTable := by
  cases v <;> decide +kernel
theorem quirk_mem (q : Quirk) : (printQuirk q, q) ∈ quirkTable := by
  cases q <;> decide +kernel
theorem payload_mem (p : PayloadSize) : (printPayload p, p) ∈ payloadTable := by
  cases p <;> decide +kernel
theorem httpVersion_mem (v : HttpVersion) (h : versionInGrammar v = true) :
    (printHttpVersion v, v) ∈ httpVersionTable := by
  cases v <;> first | decide +kernel | cases h

theorem parseIpVersion_print (v : IpVersion) (r : Str) :
    parseIpVersion (printIpVersion v ++ r) = some (v, r) :=
  altTags_of_mem ipVersionTable_incomparable (ipVersion_mem v) r
theorem parseQuirk_print (q : Quirk) (r : Str) : parseQuirk (printQuirk q ++ r) = some (q, r) :=
  altTags_of_mem quirkTable_incomparable (quirk_mem q) r
theorem parsePayload_print (p : PayloadSize) (r : Str) : parsePayload (printPayload p ++ r) = some (p, r) :=
  altTags_of_mem payloadTable_incomparable (payload_mem p) r
theorem parseHttpVersion_print (v : HttpVersion) (h : versionInGrammar v = true) (r : Str) :
    parseHttpVersion (printHttpVersion v ++ r) = some (v, r) :=
  altTags_of_mem httpVersionTable_incomparable (httpVersion_mem v h) r

end Huginn.SigText

namespace Huginn.SigText
open Huginn.Sig Huginn.SigText.Spec
set_option linter.unusedSimpArgs false

/-! ### TTL -/

theorem tag_delim_none {a : Char} (t : Str) (h1 : a ≠ ':') (h2 : a ≠ ',') {r : Str} (hr : Delim r) :
    tag (a :: t) r = none := by
  rcases hr with rfl | ⟨r', rfl⟩ | ⟨r', rfl⟩
  · simp
  · exact tag_cons_ne _ _ h1
  · exact tag_cons_ne _ _ h2

@[simp] theorem tag_nil (s : Str) : tag [] s = some ((), s) := by
  cases s <;> simp [tag, stripPrefix]

theorem tag_cons_cons_self (a : Char) (t s : Str) : tag (a :: t) (a :: s) = tag t s := by
  simp [tag, stripPrefix]

theorem parseTtl_print (t : Ttl) (h : WFTtl t) {r : Str} (hr : Delim r) :
    parseTtl (printTtl t ++ r) = some (t, r) := by
  have hnd := hr.noDigit
  have b1 : tag ['-'] r = none := tag_delim_none [] (by decide) (by decide) hr
  have b2 : tag ['+', '?'] r = none := tag_delim_none ['?'] (by decide) (by decide) hr
  have b3 : tag ['+'] r = none := tag_delim_none [] (by decide) (by decide) hr
  cases t with
  | value n =>
    have h' : n ≤ u8Max := h
    simp [parseTtl, alt, ttlBad, ttlGuess, ttlDistance, ttlValue, printTtl, digit1_natDigits n hnd,
      number_natDigits h' hnd, b1, b2, b3]
  | distance n d =>
    have h1 : n ≤ u8Max := h.1
    have h2 : d ≤ u8Max := h.2
    have e : printTtl (.distance n d) ++ r = natDigits n ++ '+' :: (natDigits d ++ r) := by
      simp [printTtl]
    have hp : NoDigit ('+' :: (natDigits d ++ r)) := NoDigit.cons (by decide) _
    have q : tag ['?'] (natDigits d ++ r) = none := tag_natDigits_none [] (by decide) d r
    rw [e]
    simp [parseTtl, alt, ttlBad, ttlGuess, ttlDistance, digit1_natDigits n hp, digit1_natDigits d hnd,
      tag_cons_ne, parseMax_natDigits h1, parseMax_natDigits h2, tag_cons_cons_self, q]
  | guess n =>
    have h' : n ≤ u8Max := h
    have e : printTtl (.guess n) ++ r = natDigits n ++ '+' :: '?' :: r := by simp [printTtl]
    have hp : NoDigit ('+' :: '?' :: r) := NoDigit.cons (by decide) _
    rw [e]
    simp [parseTtl, alt, ttlBad, ttlGuess, digit1_natDigits n hp, tag_cons_ne, parseMax_natDigits h',
      tag_cons_cons_self]
  | bad n =>
    have h' : n ≤ u8Max := h
    have e : printTtl (.bad n) ++ r = natDigits n ++ '-' :: r := by simp [printTtl]
    have hp : NoDigit ('-' :: r) := NoDigit.cons (by decide) _
    rw [e]
    simp [parseTtl, alt, ttlBad, digit1_natDigits n hp, parseMax_natDigits h']

end Huginn.SigText

namespace Huginn.SigText
open Huginn.Sig Huginn.SigText.Spec
set_option linter.unusedSimpArgs false

theorem tag_none_of_incomparable {t tok : Str} (h1 : ¬ t <+: tok) (h2 : ¬ tok <+: t) (r : Str) :
    tag t (tok ++ r) = none := by
  have : stripPrefix t (tok ++ r) = none := by
    rw [stripPrefix_eq_none]
    intro hp
    rcases List.prefix_or_prefix_of_prefix hp (List.prefix_append tok r) with h | h
    · exact h1 h
    · exact h2 h
  simp [tag, this]

/-! ### window size, optional numbers -/

theorem parseWSize_print (w : WindowSize) (h : WFWSize w) {r : Str} (hr : Delim r) :
    parseWSize (printWSize w ++ r) = some (w, r) := by
  have hnd := hr.noDigit
  cases w with
  | any => simp [parseWSize, alt, printWSize]
  | mss n =>
    have h' : n ≤ u8Max := h
    simp [parseWSize, alt, printWSize, prefixNum, tag_cons_ne, tag_cons_cons_self, number_natDigits h' hnd]
  | mtu n =>
    have h' : n ≤ u8Max := h
    simp [parseWSize, alt, printWSize, prefixNum, tag_cons_ne, tag_cons_cons_self, number_natDigits h' hnd]
  | mod n =>
    have h' : n ≤ u16Max := h
    simp [parseWSize, alt, printWSize, prefixNum, tag_cons_ne, tag_cons_cons_self, number_natDigits h' hnd]
  | value n =>
    have h' : n ≤ u16Max := h
    simp [parseWSize, alt, printWSize, prefixNum, number_natDigits h' hnd,
      tag_natDigits_none _ (by decide : '*'.isDigit = false), tag_natDigits_none _ (by decide : 'm'.isDigit = false),
      tag_natDigits_none _ (by decide : '%'.isDigit = false)]

theorem optNum_print (max : Nat) (v : Option Nat) (h : WFOptNat max v) {r : Str} (hr : Delim r) :
    optNum max (printOptNat v ++ r) = some (v, r) := by
  cases v with
  | none => simp [optNum, alt, printOptNat]
  | some n =>
    have h' : n ≤ max := h
    simp [optNum, alt, printOptNat, number_natDigits h' hr.noDigit,
      tag_natDigits_none _ (by decide : '*'.isDigit = false)]

/-! ### TCP options -/

theorem plainOptTable_noColon : NoneStartsWith plainOptTable ':' := by decide +kernel
theorem plainOptTable_noQuestion : NoneStartsWith plainOptTable '?' := by decide +kernel
theorem quirkTable_noColon : NoneStartsWith quirkTable ':' := by decide +kernel

def eolPrefix : Str := ['e', 'o', 'l', '+']

/-- the six plain options: in the regenerated table, and their token is incomparable with `eol+` -/
theorem plainOpt_facts (o : TcpOption) (h : ∀ n, o ≠ .eol n ∧ o ≠ .unknown n) :
    (printOpt o, o) ∈ plainOptTable ∧ ¬ eolPrefix <+: printOpt o ∧ ¬ printOpt o <+: eolPrefix := by
  cases o with
  | eol n => exact absurd rfl (h n).1
  | unknown n => exact absurd rfl (h n).2
  | nop => decide +kernel
  | mss => decide +kernel
  | ws => decide +kernel
  | sok => decide +kernel
  | sack => decide +kernel
  | ts => decide +kernel

theorem parseOpt_print_plain (o : TcpOption) (hp : ∀ n, o ≠ .eol n ∧ o ≠ .unknown n) (r : Str) :
    parseOpt (printOpt o ++ r) = some (o, r) := by
  obtain ⟨h1, h2, h3⟩ := plainOpt_facts o hp
  have e := tag_none_of_incomparable h2 h3 r
  simp only [eolPrefix] at e
  simp [parseOpt, alt, prefixNum, e, altTags_of_mem plainOptTable_incomparable h1]

theorem parseOpt_print (o : TcpOption) (h : WFOpt o) {r : Str} (hr : Delim r) :
    parseOpt (printOpt o ++ r) = some (o, r) := by
  have hnd := hr.noDigit
  cases o with
  | eol n =>
    have h' : n ≤ u8Max := h
    simp [parseOpt, alt, printOpt, prefixNum, tag_cons_cons_self, number_natDigits h' hnd]
  | unknown n =>
    have h' : n ≤ u8Max := h
    simp [parseOpt, alt, printOpt, prefixNum, tag_cons_ne, altTags_none_of_head plainOptTable_noQuestion,
      number_natDigits h' hnd]
  | nop | mss | ws | sok | sack | ts =>
    exact parseOpt_print_plain _ (fun n => ⟨by simp, by simp⟩) r

theorem parseOpt_colon (r : Str) : parseOpt (':' :: r) = none := by
  simp [parseOpt, alt, prefixNum, tag_cons_ne, altTags_none_of_head plainOptTable_noColon]

theorem parseQuirk_colon (r : Str) : parseQuirk (':' :: r) = none :=
  altTags_none_of_head quirkTable_noColon r

end Huginn.SigText

namespace Huginn.SigText
open Huginn.Sig Huginn.SigText.Spec
set_option linter.unusedSimpArgs false

/-! ### comma-separated lists -/

/-- `,x₁,x₂…` — what follows the first element of a printed list -/
def tailJoin {α} (pr : α → Str) : List α → Str
  | [] => []
  | x :: xs => ',' :: pr x ++ tailJoin pr xs

theorem joinComma_cons {α} (pr : α → Str) (x : α) (xs : List α) :
    joinComma pr (x :: xs) = pr x ++ tailJoin pr xs := by
  induction xs generalizing x with
  | nil => simp [joinComma, tailJoin]
  | cons y ys ih => simp [joinComma, tailJoin, ih y]

/-- what may follow a printed list: end of text or `:` -/
def ListEnd (r : Str) : Prop := r = [] ∨ ∃ r', r = ':' :: r'

theorem ListEnd.delim {r : Str} (h : ListEnd r) : Delim r := by
  rcases h with rfl | ⟨r', rfl⟩
  · exact Delim.nil
  · exact Delim.colon r'

theorem delim_tailJoin {α} (pr : α → Str) (xs : List α) {r : Str} (hr : ListEnd r) :
    Delim (tailJoin pr xs ++ r) := by
  cases xs with
  | nil => simpa [tailJoin] using hr.delim
  | cons x xs => exact Delim.comma _

theorem length_tailJoin {α} (pr : α → Str) (xs : List α) : xs.length ≤ (tailJoin pr xs).length := by
  induction xs with
  | nil => simp [tailJoin]
  | cons x xs ih => simp [tailJoin]; omega

theorem comma_listEnd {r : Str} (hr : ListEnd r) : comma r = none := by
  rcases hr with rfl | ⟨r', rfl⟩
  · simp [comma]
  · exact tag_cons_ne _ _ (by decide)

@[simp] theorem comma_cons (r : Str) : comma (',' :: r) = some ((), r) := tag_cons_self _ _
@[simp] theorem colon_cons (r : Str) : colon (':' :: r) = some ((), r) := tag_cons_self _ _

theorem sepLoop_tailJoin {α} (p : Parser α) (pr : α → Str) (xs : List α) {r : Str} (hr : ListEnd r)
    (hp : ∀ x ∈ xs, ∀ r', Delim r' → p (pr x ++ r') = some (x, r'))
    (fuel : Nat) (hf : xs.length ≤ fuel) :
    sepLoop comma p fuel (tailJoin pr xs ++ r) = some (xs, r) := by
  induction xs generalizing fuel with
  | nil =>
    cases fuel with
    | zero => simp [sepLoop, tailJoin]
    | succ f => simp [sepLoop, tailJoin, comma_listEnd hr]
  | cons x xs ih =>
    cases fuel with
    | zero => simp at hf
    | succ f =>
      have hx := hp x (List.mem_cons_self) _ (delim_tailJoin pr xs hr)
      have ih' := ih (fun y hy => hp y (List.mem_cons_of_mem _ hy)) f (by simpa using hf)
      have hlen : (tailJoin pr xs ++ r).length ≠ (',' :: (pr x ++ (tailJoin pr xs ++ r))).length := by
        simp; omega
      simp only [tailJoin, List.cons_append, List.append_assoc, sepLoop, comma_cons, hx]
      rw [if_neg hlen, ih']

theorem sepList0_joinComma {α} (p : Parser α) (pr : α → Str) (xs : List α) {r : Str} (hr : ListEnd r)
    (hp : ∀ x ∈ xs, ∀ r', Delim r' → p (pr x ++ r') = some (x, r'))
    (hnil : xs = [] → p r = none) :
    sepList0 comma p (joinComma pr xs ++ r) = some (xs, r) := by
  cases xs with
  | nil => simp [sepList0, joinComma, hnil rfl]
  | cons x xs =>
    have hx := hp x (List.mem_cons_self) _ (delim_tailJoin pr xs hr)
    have hl := sepLoop_tailJoin p pr xs hr (fun y hy => hp y (List.mem_cons_of_mem _ hy))
      ((tailJoin pr xs ++ r).length + 1) (by have := length_tailJoin pr xs; simp; omega)
    simp only [joinComma_cons, List.append_assoc, sepList0, hx, hl]

theorem sepList1_joinComma {α} (p : Parser α) (pr : α → Str) (x : α) (xs : List α) {r : Str} (hr : ListEnd r)
    (hp : ∀ y ∈ x :: xs, ∀ r', Delim r' → p (pr y ++ r') = some (y, r')) :
    sepList1 comma p (joinComma pr (x :: xs) ++ r) = some (x :: xs, r) := by
  have hx := hp x (List.mem_cons_self) _ (delim_tailJoin pr xs hr)
  have hl := sepLoop_tailJoin p pr xs hr (fun y hy => hp y (List.mem_cons_of_mem _ hy))
    ((tailJoin pr xs ++ r).length + 1) (by have := length_tailJoin pr xs; simp; omega)
  simp only [joinComma_cons, List.append_assoc, sepList1, hx, hl]

end Huginn.SigText

namespace Huginn.SigText
open Huginn.Sig Huginn.SigText.Spec
set_option linter.unusedSimpArgs false

/-- print → parse for TCP signatures (stated as `tcp_print_parse` in `Props/C06.lean`) -/
theorem parseTcpSigFull_print (s : TcpSig) (h : WFTcp s) : parseTcpSigFull (printTcpSig s) = some s := by
  obtain ⟨ver, ittl, olen, mss, wsize, wscale, olayout, quirks, pclass⟩ := s
  have e : printTcpSig ⟨ver, ittl, olen, mss, wsize, wscale, olayout, quirks, pclass⟩ =
      printIpVersion ver ++ (':' :: (printTtl ittl ++ (':' :: (natDigits olen ++ (':' :: (printOptNat mss ++
      (':' :: (printWSize wsize ++ (',' :: (printOptNat wscale ++ (':' :: (joinComma printOpt olayout ++
      (':' :: (joinComma printQuirk quirks ++ (':' :: (printPayload pclass ++ [])))))))))))))))) := by
    simp [printTcpSig]
  have hol : ∀ r, sepList0 comma parseOpt (joinComma printOpt olayout ++ ':' :: r) = some (olayout, ':' :: r) :=
    fun r => sepList0_joinComma parseOpt printOpt olayout (Or.inr ⟨r, rfl⟩)
      (fun o ho r' hr' => parseOpt_print o (h.olayout o ho) hr') (fun _ => parseOpt_colon r)
  have hq : ∀ r, sepList0 comma parseQuirk (joinComma printQuirk quirks ++ ':' :: r) = some (quirks, ':' :: r) :=
    fun r => sepList0_joinComma parseQuirk printQuirk quirks (Or.inr ⟨r, rfl⟩)
      (fun q _ r' _ => parseQuirk_print q r') (fun _ => parseQuirk_colon r)
  unfold parseTcpSigFull full parseTcpSig
  rw [e]
  simp only [parseIpVersion_print, colon_cons, comma_cons, Option.bind_eq_bind, Option.bind_some,
    fun r => parseTtl_print ittl h.ittl (Delim.colon r),
    fun r => number_natDigits (show olen ≤ u8Max from h.olen) (NoDigit.cons (by decide : ':'.isDigit = false) r),
    fun r => optNum_print u16Max mss h.mss (Delim.colon r),
    fun r => parseWSize_print wsize h.wsize (Delim.comma r),
    fun r => optNum_print u8Max wscale h.wscale (Delim.colon r),
    hol, hq, parsePayload_print, Option.pure_def]


end Huginn.SigText

namespace Huginn.SigText
open Huginn.Sig Huginn.SigText.Spec

theorem joinComma_eq_joinWith_map {α} (f : α → Str) (xs : List α) :
    joinComma f xs = joinWith ',' (xs.map f) := by
  induction xs with
  | nil => rfl
  | cons a t ih =>
    cases t with
    | nil => rfl
    | cons b t' => simp only [joinComma, joinWith, List.map_cons] at ih ⊢; rw [ih]


theorem mem_takeWhile {p : Char → Bool} {l : Str} {x : Char} (h : x ∈ l.takeWhile p) : p x = true := by
  induction l with
  | nil => simp at h
  | cons c l ih =>
    by_cases hc : p c = true
    · simp [hc] at h
      rcases h with rfl | h
      · exact hc
      · exact ih h
    · simp [hc] at h

theorem dropWhile_head_false {p : Char → Bool} {l r : Str} {x : Char} (h : l.dropWhile p = x :: r) :
    p x = false := by
  induction l with
  | nil => simp at h
  | cons c l ih =>
    by_cases hc : p c = true
    · simp [hc] at h; exact ih h
    · simp [hc] at h
      obtain ⟨rfl, _⟩ := h
      simpa using hc

end Huginn.SigText
