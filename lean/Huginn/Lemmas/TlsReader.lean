import Huginn.Spec.TlsReader
/-
Helper lemmas for Props/C08.lean: one `add_bytes` step in each of the situations the invariant
distinguishes, and association-list facts about the flow map.
-/
namespace Huginn.Lemmas.TlsReader
open Huginn.Tls Huginn.Gen.Tls

variable {σ : Type}

theorem getD_append_left {α} (p t : List α) (d : α) (i : Nat) (h : i < p.length) :
    (p ++ t).getD i d = p.getD i d := by
  simp [List.getD_eq_getElem?_getD, List.getElem?_append_left h]

/-- two streams with a common continuation agree on every index both have -/
theorem getD_eq_of_append_eq {α} {p q t u : List α} (h : p ++ t = q ++ u) (d : α) (i : Nat)
    (hp : i < p.length) (hq : i < q.length) : p.getD i d = q.getD i d := by
  rw [← getD_append_left p t d i hp, h, getD_append_left q u d i hq]

/-- A complete TLSPlaintext handshake record: header, handshake content type, and as long as its
length field says. -/
structure IsFrame (r : Bytes) : Prop where
  hdr : 5 ≤ r.length
  ty : r.getD 0 0 = 0x16
  len : Spec.recordLen r = r.length

/-- … within the reader's bound. -/
structure IsRecord (r : Bytes) : Prop extends IsFrame r where
  bound : r.length ≤ 65536

theorem neededOf_eq_recordLen (p : Bytes) : neededOf p = Spec.recordLen p := by
  simp [neededOf, Spec.recordLen, be16, readerLenHi, readerLenLo, readerLenAdd]

/-- a buffer that shares its first five bytes with the record has the record's `needed`. -/
theorem needed_of_common {r p t u : Bytes} (hr : IsFrame r) (h : p ++ t = r ++ u) (hp : 5 ≤ p.length) :
    neededOf p = r.length ∧ p.getD 0 0 = 0x16 := by
  have h5 := hr.hdr
  have e3 := getD_eq_of_append_eq h (0 : UInt8) 3 (by omega) (by omega)
  have e4 := getD_eq_of_append_eq h (0 : UInt8) 4 (by omega) (by omega)
  have e0 := getD_eq_of_append_eq h (0 : UInt8) 0 (by omega) (by omega)
  constructor
  · rw [neededOf_eq_recordLen, ← hr.len]
    unfold Spec.recordLen
    rw [e3, e4]
  · rw [e0, hr.ty]

/-- before completion: the bytes are buffered, nothing is reported -/
theorem step_before (parse : Bytes → PR σ) {r b seg rest tail : Bytes} (hr : IsFrame r)
    (h : b ++ seg ++ rest = r ++ tail) (hlt : (b ++ seg).length < r.length) :
    ({ buffer := b, signature := none } : Reader σ).addBytes parse seg =
      ({ buffer := b ++ seg, signature := none }, Out.none) := by
  unfold Reader.addBytes Reader.addBytesT
  simp only [Option.isSome_none, Bool.false_eq_true, if_false]
  by_cases h5 : (b ++ seg).length < readerHdrLen
  · simp only [h5, ↓reduceIte]
  · have h5' : 5 ≤ (b ++ seg).length := by
      have : readerHdrLen = 5 := rfl
      omega
    obtain ⟨hn, ht⟩ := needed_of_common hr h h5'
    have h16 : ¬ ((0x16 : UInt8).toNat ≠ readerHandshake) := by decide
    simp only [h5, ↓reduceIte, hn, ht, h16, hlt]

/-- the completing segment: the record (exactly the prefix) goes to the parser -/
theorem step_complete (parse : Bytes → PR σ) {r b seg rest tail : Bytes} (hr : IsRecord r)
    (h : b ++ seg ++ rest = r ++ tail) (hge : r.length ≤ (b ++ seg).length) :
    ({ buffer := b, signature := none } : Reader σ).addBytes parse seg =
      match parse r with
      | .sig s => ({ buffer := (b ++ seg).drop r.length, signature := some s }, Out.sig s)
      | .notHello => (Reader.init, Out.none)
      | .err => ({ buffer := b ++ seg, signature := none }, Out.errParse) := by
  have h5' : 5 ≤ (b ++ seg).length := by have := hr.hdr; omega
  obtain ⟨hn, ht⟩ := needed_of_common hr.toIsFrame h h5'
  have htake : (b ++ seg).take r.length = r := by
    have := congrArg (List.take r.length) h
    rw [List.take_append_of_le_length hge, List.take_left' rfl] at this
    exact this
  unfold Reader.addBytes Reader.addBytesT
  have h5 : ¬ (b ++ seg).length < readerHdrLen := by
    have : readerHdrLen = 5 := rfl
    omega
  have hb : ¬ r.length > readerMaxNeeded := by
    have := hr.bound
    have : readerMaxNeeded = 65536 := rfl
    omega
  have h16 : ¬ ((0x16 : UInt8).toNat ≠ readerHandshake) := by decide
  have hlt : ¬ (b ++ seg).length < r.length := by omega
  simp only [Option.isSome_none, Bool.false_eq_true, ↓reduceIte, h5, hn, ht, h16, hlt, hb, htake]
  cases parse r <;> rfl

/-- once a signature is stored every further call returns `Ok(None)` and changes nothing -/
theorem step_done (parse : Bytes → PR σ) (b seg : Bytes) (s : σ) :
    ({ buffer := b, signature := some s } : Reader σ).addBytes parse seg =
      ({ buffer := b, signature := some s }, Out.none) := by
  simp [Reader.addBytes, Reader.addBytesT]

theorem run_done (parse : Bytes → PR σ) (s : σ) :
    ∀ (segs : List Bytes) (b : Bytes),
      Reader.run parse ({ buffer := b, signature := some s } : Reader σ) segs =
        List.replicate segs.length Out.none := by
  intro segs
  induction segs with
  | nil => intro b; rfl
  | cons seg rest ih =>
    intro b
    simp only [Reader.run, step_done, ih, List.length_cons, List.replicate_succ]

/-- after a parse error the buffer still starts with the record: every later call fails the same way -/
theorem run_err (parse : Bytes → PR σ) {r : Bytes} (hr : IsRecord r) (he : parse r = .err) :
    ∀ (segs : List Bytes) (t : Bytes),
      Reader.run parse ({ buffer := r ++ t, signature := none } : Reader σ) segs =
        List.replicate segs.length Out.errParse := by
  intro segs
  induction segs with
  | nil => intro t; rfl
  | cons seg rest ih =>
    intro t
    have hstep := step_complete parse (r := r) (b := r ++ t) (seg := seg) (rest := []) (tail := t ++ seg) hr
      (by simp) (by simp)
    rw [he] at hstep
    simp only [Reader.run, hstep, List.length_cons, List.replicate_succ]
    rw [List.append_assoc]
    exact congrArg _ (ih (t ++ seg))

/-- a stream whose first byte is not the handshake type: nothing is reported while the header is
incomplete, and as soon as five bytes are there the buffer is discarded — the reader starts over on
the remaining segments. -/
theorem run_not_handshake (parse : Bytes → PR σ) (c : UInt8) (hc : c ≠ 0x16) :
    ∀ (segs : List Bytes) (b : Bytes), b.length < 5 → (∀ x ∈ (b ++ segs.flatten).head?, x = c) →
      Reader.run parse ({ buffer := b, signature := none } : Reader σ) segs =
        List.replicate (min (Spec.completionIdx (5 - b.length) segs + 1) segs.length) Out.none
          ++ Reader.run parse Reader.init (segs.drop (Spec.completionIdx (5 - b.length) segs + 1)) := by
  intro segs
  induction segs with
  | nil => intro b _ _; rfl
  | cons seg rest ih =>
    intro b hb hhead
    by_cases h5 : (b ++ seg).length < 5
    · have hstep : ({ buffer := b, signature := none } : Reader σ).addBytes parse seg =
          ({ buffer := b ++ seg, signature := none }, Out.none) := by
        unfold Reader.addBytes Reader.addBytesT
        have : (b ++ seg).length < readerHdrLen := h5
        simp only [Option.isSome_none, Bool.false_eq_true, if_false, this, ↓reduceIte]
      have hk : Spec.completionIdx (5 - b.length) (seg :: rest)
          = Spec.completionIdx (5 - (b ++ seg).length) rest + 1 := by
        simp only [Spec.completionIdx]
        have : ¬ (5 - b.length ≤ seg.length) := by simp at h5; omega
        rw [if_neg this]
        congr 2
        simp; omega
      rw [hk]
      simp only [Reader.run, hstep, List.length_cons, List.drop_succ_cons]
      rw [ih (b ++ seg) h5 (by simpa [List.flatten_cons, List.append_assoc] using hhead)]
      have : min (Spec.completionIdx (5 - (b ++ seg).length) rest + 1 + 1) (rest.length + 1)
          = min (Spec.completionIdx (5 - (b ++ seg).length) rest + 1) rest.length + 1 := by omega
      rw [this, List.replicate_succ, List.cons_append]
    · have hstep : ({ buffer := b, signature := none } : Reader σ).addBytes parse seg =
          (Reader.init, Out.none) := by
        unfold Reader.addBytes Reader.addBytesT
        have h5' : ¬ (b ++ seg).length < readerHdrLen := h5
        simp only [Option.isSome_none, Bool.false_eq_true, if_false, h5', ↓reduceIte]
        have hne : b ++ seg ≠ [] := by
          intro e; rw [e] at h5; exact h5 (by decide)
        have h0 : (b ++ seg).getD 0 0 = c := by
          have hx := hhead
          rw [List.flatten_cons, ← List.append_assoc] at hx
          cases hbs : b ++ seg with
          | nil => exact absurd hbs hne
          | cons x xs =>
            rw [hbs] at hx
            simp at hx
            simp [hx]
        have : (c.toNat ≠ readerHandshake) := by
          intro e
          apply hc
          have : c.toNat = (0x16 : UInt8).toNat := e
          exact UInt8.toNat_inj.mp this
        rw [h0, if_pos this]
        rfl
      have hk : Spec.completionIdx (5 - b.length) (seg :: rest) = 0 := by
        simp only [Spec.completionIdx]
        have : 5 - b.length ≤ seg.length := by simp at h5; omega
        rw [if_pos this]
      rw [hk]
      simp only [Reader.run, hstep, List.length_cons, List.drop_succ_cons, List.drop_zero, Nat.zero_add]
      have : min 1 (rest.length + 1) = 1 := by omega
      rw [this]
      rfl

end Huginn.Lemmas.TlsReader

/-! ### the flow map -/
namespace Huginn.Lemmas.TlsReader
open Huginn.Tls Huginn.Gen.Tls

variable {κ : Type} [DecidableEq κ] {σ : Type}

theorem lookup_filter_ne (es : List (κ × Reader σ)) (k : κ) :
    (es.filter (fun e => e.1 ≠ k)).lookup k = none := by
  induction es with
  | nil => rfl
  | cons e t ih =>
    obtain ⟨a, b⟩ := e
    simp only [List.filter_cons]
    by_cases h : a = k
    · have : decide ((a, b).1 ≠ k) = false := by simp [h]
      simp only [this, Bool.false_eq_true, if_false]
      exact ih
    · have : decide ((a, b).1 ≠ k) = true := by simp [h]
      have hk : (k == a) = false := by simp; exact fun e => h e.symm
      simp only [this, if_true, List.lookup_cons, hk]
      exact ih

theorem get?_remove (f : Flows κ σ) (k : κ) : (f.remove k).get? k = none := by
  simp only [Flows.get?, Flows.remove]
  exact lookup_filter_ne _ _

theorem get?_insert (f : Flows κ σ) (k : κ) (r : Reader σ) (hcap : 1 ≤ f.cap) :
    (f.insert k r).get? k = some r := by
  simp only [Flows.get?, Flows.insert]
  have hl := lookup_filter_ne f.entries k
  generalize f.entries.filter (fun e => e.1 ≠ k) = fl at hl
  split
  · rename_i hlen
    cases fl with
    | nil => simp at hlen; omega
    | cons e t =>
      obtain ⟨a, b⟩ := e
      simp only [List.cons_append, List.drop_succ_cons, List.drop_zero]
      have hka : (k == a) = false := by
        cases hka : (k == a) with
        | false => rfl
        | true => simp [List.lookup_cons, hka] at hl
      have ht : t.lookup k = none := by simpa [List.lookup_cons, hka] using hl
      simp [List.lookup_append, ht]
  · simp [List.lookup_append, hl]

theorem lookup_map_set (es : List (κ × Reader σ)) (k : κ) (r : Reader σ) (h : (es.lookup k).isSome) :
    (es.map (fun e => if e.1 = k then (k, r) else e)).lookup k = some r := by
  induction es with
  | nil => simp at h
  | cons e t ih =>
    obtain ⟨a, b⟩ := e
    by_cases hak : a = k
    · subst hak; simp [List.lookup_cons]
    · have hka : (k == a) = false := by simp; exact fun e => hak e.symm
      simp only [List.lookup_cons, hka] at h
      simp only [List.map_cons, hak, if_false, List.lookup_cons, hka]
      exact ih h

theorem get?_set (f : Flows κ σ) (k : κ) (r : Reader σ) (h : (f.get? k).isSome) :
    (f.set k r).get? k = some r := by
  simp only [Flows.get?, Flows.set]
  exact lookup_map_set _ _ _ h

/-- What one packet of flow `k` does to that flow's entry: it depends on the entry only. -/
def flowStep (parse : Bytes → PR σ) (st : Option (Reader σ)) (p : Bytes) : Option (Reader σ) × POut σ :=
  if p.isEmpty then (st, .none)
  else
    let act (rd : Reader σ) : Option (Reader σ) × POut σ :=
      match rd.addBytes parse p with
      | (rd', .none) => (some rd', .none)
      | (_, .sig s) => (none, .sig s)
      | (_, _) => (none, .none)
    match st with
    | some rd => act rd
    | none => if isTlsTraffic p then act {} else (none, .none)

theorem processTcp_entry (parse : Bytes → PR σ) (f : Flows κ σ) (k : κ) (p : Bytes) (hcap : 1 ≤ f.cap) :
    ((processTcp parse f k p).1.get? k, (processTcp parse f k p).2) = flowStep parse (f.get? k) p
    ∧ (processTcp parse f k p).1.cap = f.cap := by
  unfold processTcp processTcpT flowStep
  by_cases he : p.isEmpty
  · simp [he]
  · simp only [he, Bool.false_eq_true, if_false]
    cases hst : f.get? k with
    | some rd =>
      have hc : f.contains k = true := by simp [Flows.contains, hst]
      simp only [hc, if_true, Bool.not_true, Bool.false_eq_true, if_false, hst]
      unfold Reader.addBytes
      cases hx : (rd.addBytesT parse p).2.1 with
      | none =>
        simp only [hx]
        refine ⟨?_, rfl⟩
        rw [get?_set f k _ (by simp [hst])]
      | sig s => simp only [hx]; exact ⟨by rw [get?_remove], rfl⟩
      | errTooLarge => simp only [hx]; exact ⟨by rw [get?_remove], rfl⟩
      | errParse => simp only [hx]; exact ⟨by rw [get?_remove], rfl⟩
    | none =>
      have hc : f.contains k = false := by simp [Flows.contains, hst]
      simp only [hc, Bool.false_eq_true, if_false]
      by_cases ht : isTlsTraffic p
      · simp only [ht, Bool.not_true, Bool.false_eq_true, if_false, if_true]
        have hins := get?_insert f k ({} : Reader σ) hcap
        simp only [hins]
        unfold Reader.addBytes
        have hcapi : (f.insert k ({} : Reader σ)).cap = f.cap := rfl
        cases hx : (({} : Reader σ).addBytesT parse p).2.1 with
        | none =>
          simp only [hx]
          refine ⟨?_, rfl⟩
          rw [get?_set _ k _ (by simp [hins])]
        | sig s => simp only [hx]; exact ⟨by rw [get?_remove], rfl⟩
        | errTooLarge => simp only [hx]; exact ⟨by rw [get?_remove], rfl⟩
        | errParse => simp only [hx]; exact ⟨by rw [get?_remove], rfl⟩
      · simp [ht, hst]

/-- the outputs of a single-flow history, as a function of the flow's entry alone -/
def flowRun (parse : Bytes → PR σ) : Option (Reader σ) → List Bytes → List (POut σ)
  | _, [] => []
  | st, p :: rest => (flowStep parse st p).2 :: flowRun parse (flowStep parse st p).1 rest

theorem runPackets_single (parse : Bytes → PR σ) (k : κ) :
    ∀ (segs : List Bytes) (f : Flows κ σ), 1 ≤ f.cap →
      runPackets parse f (segs.map (fun p => (k, p))) = flowRun parse (f.get? k) segs := by
  intro segs
  induction segs with
  | nil => intro f _; rfl
  | cons p rest ih =>
    intro f hcap
    obtain ⟨h1, h2⟩ := processTcp_entry parse f k p hcap
    have ha := congrArg Prod.fst h1
    have hb := congrArg Prod.snd h1
    simp only at ha hb
    simp only [List.map_cons, runPackets, flowRun]
    rw [hb, ih _ (by rw [h2]; exact hcap), ha]

/-- `is_tls_traffic` (with the regenerated literals) is the specification's "starts a handshake record
of SSL3.0..TLS1.3". -/
theorem isTlsTraffic_eq_startsRecord (p : Bytes) : isTlsTraffic p = Spec.startsRecord p := by
  unfold isTlsTraffic Spec.startsRecord
  have e1 : trafficMinLen = 5 := rfl
  have e2 : trafficHandshake = 22 := rfl
  have e3 : recVersionLo = 768 := rfl
  have e4 : recVersionHi = 772 := rfl
  rw [e1, e2, e3, e4]
  generalize p.getD 0 0 = c
  generalize p.getD 1 0 = a
  generalize p.getD 2 0 = b
  by_cases h5 : p.length < 5
  · have : ¬ 5 ≤ p.length := by omega
    simp [h5, this]
  · have h5' : 5 ≤ p.length := by omega
    simp only [h5, if_false, h5', decide_true, Bool.true_and]
    by_cases h0 : c = 0x16
    · subst h0
      have : (0x16 : UInt8).toNat = 22 := rfl
      simp only [this, if_true, beq_self_eq_true, Bool.true_and]
      have ha := a.toNat_lt
      have hb := b.toNat_lt
      unfold be16
      by_cases ha3 : a = 3
      · subst ha3
        have : (3 : UInt8).toNat = 3 := rfl
        simp only [this, beq_self_eq_true, Bool.true_and]
        by_cases hb4 : b.toNat ≤ 4
        · simp [hb4]; omega
        · simp [hb4]; omega
      · have hne : a.toNat ≠ 3 := fun e => ha3 (UInt8.toNat_inj.mp e)
        have : (a == 3) = false := by simp [ha3]
        simp only [this, Bool.false_and]
        by_cases hlo : 768 ≤ a.toNat * 256 + b.toNat
        · have : ¬ a.toNat * 256 + b.toNat ≤ 772 := by omega
          simp [this]
        · simp [hlo]
    · have : c.toNat ≠ 22 := by
        intro e
        exact h0 (UInt8.toNat_inj.mp e)
      have hc : (c == 22) = false := by simp [h0]
      simp only [this, if_false, hc, Bool.false_and]

end Huginn.Lemmas.TlsReader
