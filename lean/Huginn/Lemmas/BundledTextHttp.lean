import Huginn.Lemmas.BundledTextTcp
/- HTTP part of the cross-check (see `BundledTextTcp.lean`), at the level of character lists. -/
namespace Huginn.Reach.Text
open Huginn.Gen Huginn.SigText

set_option maxRecDepth 100000 in
theorem http_values_are_parsed_text :
    BundledChars.httpSigs.map parseHttpSigFullL =
      (flat BundledSig.httpRequest ++ flat BundledSig.httpResponse).map
        (fun s => some (HttpSigL.ofSig s)) := by decide +kernel

end Huginn.Reach.Text
