import Huginn.Lemmas.Http1Parse
/-
Helper lemmas for C05: `parse_cookies` (Unicode `trim`) against the OWS-based `Spec.cookiesOf` on
values without non-ASCII White_Space.
-/
namespace Huginn.Http1
open Huginn.Http1.Spec Huginn.Gen
set_option linter.unusedSimpArgs false

def FB (x : Bytes) : Prop := x.all isFieldByte = true

theorem FB.infix {x y : Bytes} (h : FB x) (hy : y <:+: x) : FB y := by
  unfold FB at *
  rw [List.all_eq_true] at h ⊢
  intro b hb
  exact h b (hy.subset hb)

theorem trimOws_infix (x : Bytes) : trimOws x <:+: x := by
  unfold trimOws
  have h1 : x.dropWhile isOws <:+: x := (List.dropWhile_suffix _).isInfix
  have h2 : ((x.dropWhile isOws).reverse.dropWhile isOws).reverse <+: x.dropWhile isOws := by
    have h3 := (List.dropWhile_suffix (l := (x.dropWhile isOws).reverse) isOws)
    have h4 := List.reverse_prefix.mpr h3
    simpa using h4
  exact h2.isInfix.trans h1

theorem splitFirst_eq (c : UInt8) : ∀ (y n v : Bytes), splitFirst c y = some (n, v) → y = n ++ c :: v
  | [], _, _, h => by simp [splitFirst] at h
  | a :: r, n, v, h => by
    unfold splitFirst at h
    split at h
    · rename_i hac
      simp at h; obtain ⟨rfl, rfl⟩ := h
      simp [hac]
    · split at h
      · rename_i l r' hs
        simp at h; obtain ⟨rfl, rfl⟩ := h
        rw [splitFirst_eq c r l _ hs]; simp
      · simp at h

theorem splitFirst_infix (c : UInt8) (y n v : Bytes) (h : splitFirst c y = some (n, v)) : n <:+: y ∧ v <:+: y := by
  have := splitFirst_eq c y n v h
  subst this
  exact ⟨(List.prefix_append _ _).isInfix, ((List.suffix_cons c v).trans (List.suffix_append _ _)).isInfix⟩

theorem splitByte_head_prefix (c : UInt8) : ∀ (r l : Bytes) (ls : List Bytes), splitByte c r = l :: ls → l <+: r
  | [], l, ls, h => by simp [splitByte] at h; rw [h.1]; exact List.nil_prefix
  | x :: r, l, ls, h => by
    unfold splitByte at h
    split at h
    · simp at h; rw [h.1]; exact List.nil_prefix
    · cases hs' : splitByte c r with
      | nil => simp [hs', consHead] at h; rw [← h.1]; exact List.prefix_append [x] r
      | cons l' ls' =>
        simp [hs', consHead] at h
        rw [← h.1]
        exact List.cons_prefix_cons.mpr ⟨rfl, splitByte_head_prefix c r l' ls' hs'⟩

theorem splitByte_infix (c : UInt8) : ∀ (x : Bytes) (p : Bytes), p ∈ splitByte c x → p <:+: x
  | [], p, h => by simp [splitByte] at h; subst h; exact List.nil_infix
  | a :: r, p, h => by
    have ih := splitByte_infix c r
    unfold splitByte at h
    split at h
    · simp at h
      rcases h with rfl | h
      · exact List.nil_infix
      · exact (ih p h).trans (List.suffix_cons a r).isInfix
    · cases hs : splitByte c r with
      | nil => simp [hs, consHead] at h; subst h; exact (List.prefix_append [a] r).isInfix
      | cons l ls =>
        simp [hs, consHead] at h
        rcases h with rfl | h
        · exact (List.cons_prefix_cons.mpr ⟨rfl, splitByte_head_prefix c r l ls hs⟩).isInfix
        · exact (ih p (by rw [hs]; simp [h])).trans (List.suffix_cons a r).isInfix

theorem parseCookiePiece_eq (p : Bytes) (pos : Nat) (hf : FB p) :
    parseCookiePiece p pos =
      if (trimOws p).isEmpty then none else some (cookieOf (trimOws p, pos)) := by
  unfold parseCookiePiece
  rw [trimAscii_eq_trimOws p hf]
  simp only []
  cases he : (trimOws p).isEmpty with
  | true => simp
  | false =>
    simp only [Bool.false_eq_true, if_false]
    unfold cookieOf
    have hq := trimOws_infix p
    cases hs : splitFirst 61 (trimOws p) with
    | none => simp
    | some nv =>
      obtain ⟨n, v⟩ := nv
      obtain ⟨h1, h2⟩ := splitFirst_infix 61 _ n v hs
      simp only []
      rw [trimAscii_eq_trimOws n (hf.infix (h1.trans hq)), trimAscii_eq_trimOws v (hf.infix (h2.trans hq))]

theorem parseCookiePieces_eq : ∀ (ps : List Bytes) (n : Nat), (∀ p ∈ ps, FB p) →
    parseCookiePieces ps n = (((ps.map trimOws).filter (fun p => !p.isEmpty)).zipIdx n).map cookieOf
  | [], _, _ => rfl
  | p :: ps, n, h => by
    have hf := h p (by simp)
    have ih := fun k => parseCookiePieces_eq ps k (fun q hq => h q (by simp [hq]))
    simp only [parseCookiePieces, parseCookiePiece_eq p n hf, List.map_cons, List.filter_cons]
    cases he : (trimOws p).isEmpty with
    | true => simp [ih]
    | false => simp [ih, List.zipIdx_cons]

/-- `parse_cookies` on a field value is the OWS-based split -/
theorem parseCookies_eq (v : Bytes) (hf : v.all isFieldByte = true) : parseCookies v = cookiesOf v := by
  unfold parseCookies cookiesOf cookiePieces
  exact parseCookiePieces_eq _ 0 (fun p hp => FB.infix hf (splitByte_infix 59 v p hp))

/-! ### several Cookie lines, joined with "; " -/

theorem splitByte_nonempty (c : UInt8) (d : Bytes) : ∃ p ps, splitByte c d = p :: ps := by
  cases h : splitByte c d with
  | nil =>
    exfalso
    cases d with
    | nil => simp [splitByte] at h
    | cons a r =>
      unfold splitByte at h
      split at h
      · simp at h
      · cases h2 : splitByte c r <;> simp [h2, consHead] at h
  | cons p ps => exact ⟨p, ps, rfl⟩

theorem splitByte_cons (c x : UInt8) (r : Bytes) :
    splitByte c (x :: r) = if x = c then [] :: splitByte c r else consHead x (splitByte c r) := by
  simp [splitByte]

theorem splitByte_append_sep (c : UInt8) : ∀ (a b : Bytes),
    splitByte c (a ++ c :: b) = splitByte c a ++ splitByte c b
  | [], b => by simp [splitByte_cons, splitByte]
  | x :: a, b => by
    have ih := splitByte_append_sep c a b
    simp only [List.cons_append]
    rw [splitByte_cons, splitByte_cons c x a, ih]
    by_cases hx : x = c
    · simp only [hx, if_true]; rfl
    · simp only [hx, if_false]
      obtain ⟨p, ps, hp⟩ := splitByte_nonempty c a
      rw [hp]; simp [consHead]

theorem trimOws_cons_sp (p : Bytes) : trimOws (32 :: p) = trimOws p := by
  unfold trimOws
  have : isOws 32 = true := by decide
  simp [List.dropWhile_cons, this]

theorem cookiePieces_join (a x : Bytes) : cookiePieces (a ++ [59, 32] ++ x) = cookiePieces a ++ cookiePieces x := by
  unfold cookiePieces
  have e : a ++ [59, 32] ++ x = a ++ 59 :: (32 :: x) := by simp
  rw [e, splitByte_append_sep]
  have hsp : (splitByte 59 (32 :: x)).map trimOws = (splitByte 59 x).map trimOws := by
    rw [splitByte_cons]
    have : ¬ (32 : UInt8) = 59 := by decide
    simp only [this, if_false]
    obtain ⟨p, ps, hp⟩ := splitByte_nonempty 59 x
    rw [hp]
    simp [consHead, trimOws_cons_sp]
  rw [List.map_append, List.filter_append, hsp]

theorem cookiePieces_foldl : ∀ (vs : List Bytes) (v : Bytes),
    cookiePieces (vs.foldl (fun a x => a ++ [59, 32] ++ x) v) = cookiePieces v ++ vs.flatMap cookiePieces
  | [], v => by simp
  | x :: vs, v => by
    simp only [List.foldl_cons, List.flatMap_cons]
    rw [cookiePieces_foldl vs, cookiePieces_join, List.append_assoc]

theorem fb_foldl : ∀ (vs : List Bytes) (v : Bytes), v.all isFieldByte = true → (∀ x ∈ vs, x.all isFieldByte = true) →
    (vs.foldl (fun a x => a ++ [59, 32] ++ x) v).all isFieldByte = true
  | [], v, hv, _ => hv
  | x :: vs, v, hv, h => by
    simp only [List.foldl_cons]
    apply fb_foldl vs _ _ (fun y hy => h y (by simp [hy]))
    simp only [List.all_append, hv, h x (by simp), Bool.and_true, Bool.true_and]
    decide

/-- the cookies parsed from the joined Cookie lines are the pairs of every line, in wire order -/
theorem cookiesOfHeader_join (vs : List Bytes) (h : ∀ x ∈ vs, x.all isFieldByte = true) :
    cookiesOfHeader (joinSemi vs) = cookiesOfLines vs := by
  cases vs with
  | nil => rfl
  | cons v vs =>
    unfold joinSemi cookiesOfHeader cookiesOfLines
    simp only []
    rw [parseCookies_eq _ (fb_foldl vs v (h v (by simp)) (fun x hx => h x (by simp [hx])))]
    unfold cookiesOf
    rw [cookiePieces_foldl, List.flatMap_cons]

end Huginn.Http1
