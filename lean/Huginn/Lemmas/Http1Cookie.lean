import Huginn.Lemmas.Http1Parse
/-
Helper lemmas for C05: `parse_cookies` (Unicode `trim`) against the OWS-based `Spec.cookiesOf` on
values without non-ASCII White_Space.
-/
namespace Huginn.Http1
open Huginn.Http1.Spec Huginn.Gen
set_option linter.unusedSimpArgs false

/-- no non-ASCII White_Space character anywhere -/
def NoUS (x : Bytes) : Prop := ∀ p ∈ unicodeSpaces, ¬ p <:+: x

theorem noUS_of_contains : ∀ (x : Bytes), containsUSpace x = false → NoUS x
  | [], _ => by
    intro p hp hi
    obtain ⟨b, t, rfl, _⟩ := uspace_head p hp
    simp at hi
  | b :: r, h => by
    unfold containsUSpace at h
    simp only [Bool.or_eq_false_iff] at h
    intro p hp hi
    rcases List.infix_cons_iff.mp hi with hpre | hin
    · have := h.1
      unfold startsWithUSpace at this
      rw [List.any_eq_false] at this
      exact this p hp (List.isPrefixOf_iff_prefix.mpr hpre)
    · exact noUS_of_contains r h.2 p hp hin

theorem NoUS.infix {x y : Bytes} (h : NoUS x) (hy : y <:+: x) : NoUS y :=
  fun p hp hi => h p hp (hi.trans hy)

theorem NoUS.starts {x : Bytes} (h : NoUS x) : startsWithUSpace x = false := by
  unfold startsWithUSpace
  rw [List.any_eq_false]
  intro p hp hpre
  exact h p hp (List.isPrefixOf_iff_prefix.mp hpre).isInfix

theorem NoUS.ends {x : Bytes} (h : NoUS x) : endsWithUSpace x = false := by
  unfold endsWithUSpace
  rw [List.any_eq_false]
  intro p hp hpre
  have := List.isPrefixOf_iff_prefix.mp hpre
  rw [List.reverse_prefix] at this
  exact h p hp this.isInfix

def FB (x : Bytes) : Prop := x.all isFieldByte = true

theorem FB.infix {x y : Bytes} (h : FB x) (hy : y <:+: x) : FB y := by
  unfold FB at *
  rw [List.all_eq_true] at h ⊢
  intro b hb
  exact h b (hy.subset hb)

theorem trimStart_eq_dropWhile : ∀ (x : Bytes), FB x → NoUS x → trimStart x = x.dropWhile isOws
  | [], _, _ => by simp [trimStart]
  | b :: r, hf, hn => by
    have hfb : isFieldByte b = true := (List.all_eq_true.mp hf) b (by simp)
    cases ho : isOws b with
    | true =>
      have e : b :: r = [b] ++ r := rfl
      rw [e, trimStart_ows [b] r (by simp [ho])]
      simp only [List.singleton_append, List.dropWhile_cons, ho, if_true]
      exact trimStart_eq_dropWhile r (hf.infix (List.suffix_cons b r).isInfix) (hn.infix (List.suffix_cons b r).isInfix)
    | false =>
      have := wsPrefix_append_ows (b :: r) [] (by simp)
        (by intro c hc; simp at hc; subst hc; exact fieldByte_not_ws1 hfb ho) hn.starts (by simp)
      simp only [List.append_nil] at this
      rw [trimStart_of_not_wsPrefix _ this]
      simp [List.dropWhile_cons, ho]

theorem trimStartRev_eq_dropWhile : ∀ (z : Bytes), FB z.reverse → NoUS z.reverse →
    trimStartRev z = z.dropWhile isOws
  | [], _, _ => by simp [trimStartRev]
  | b :: r, hf, hn => by
    have hfb : isFieldByte b = true := (List.all_eq_true.mp hf) b (by simp)
    have hsub : r.reverse <:+: (b :: r).reverse := by
      rw [List.reverse_cons]; exact (List.prefix_append _ _).isInfix
    cases ho : isOws b with
    | true =>
      have e : b :: r = [b] ++ r := rfl
      rw [e, trimStartRev_ows [b] r (by simp [ho])]
      simp only [List.singleton_append, List.dropWhile_cons, ho, if_true]
      exact trimStartRev_eq_dropWhile r (hf.infix hsub) (hn.infix hsub)
    | false =>
      have := wsPrefixRev_reverse (b :: r).reverse
        (by intro c hc; simp at hc; subst hc; exact fieldByte_not_ws1 hfb ho) hn.ends
      rw [List.reverse_reverse] at this
      rw [trimStartRev_of_not_wsPrefixRev _ this]
      simp [List.dropWhile_cons, ho]

/-- on field bytes without non-ASCII White_Space, `str::trim` is OWS trimming -/
theorem trim_eq_trimOws (x : Bytes) (hf : FB x) (hn : NoUS x) : trim x = trimOws x := by
  unfold trim trimOws trimEnd
  rw [trimStart_eq_dropWhile x hf hn]
  have hs : x.dropWhile isOws <:+: x := (List.dropWhile_suffix _).isInfix
  rw [trimStartRev_eq_dropWhile _ (by rw [List.reverse_reverse]; exact hf.infix hs)
    (by rw [List.reverse_reverse]; exact hn.infix hs)]

theorem trimOws_infix (x : Bytes) : trimOws x <:+: x := by
  unfold trimOws
  have h1 : x.dropWhile isOws <:+: x := (List.dropWhile_suffix _).isInfix
  have h2 : ((x.dropWhile isOws).reverse.dropWhile isOws).reverse <+: x.dropWhile isOws := by
    have h3 := (List.dropWhile_suffix (l := (x.dropWhile isOws).reverse) isOws)
    have h4 := List.reverse_prefix.mpr h3
    simpa using h4
  exact h2.isInfix.trans h1

theorem splitFirst_eq (c : UInt8) : ∀ (y n v : Bytes), splitFirst c y = some (n, v) → y = n ++ c :: v
  | [], _, _, h => by simp [splitFirst] at h
  | a :: r, n, v, h => by
    unfold splitFirst at h
    split at h
    · rename_i hac
      simp at h; obtain ⟨rfl, rfl⟩ := h
      simp [hac]
    · split at h
      · rename_i l r' hs
        simp at h; obtain ⟨rfl, rfl⟩ := h
        rw [splitFirst_eq c r l _ hs]; simp
      · simp at h

theorem splitFirst_infix (c : UInt8) (y n v : Bytes) (h : splitFirst c y = some (n, v)) : n <:+: y ∧ v <:+: y := by
  have := splitFirst_eq c y n v h
  subst this
  exact ⟨(List.prefix_append _ _).isInfix, ((List.suffix_cons c v).trans (List.suffix_append _ _)).isInfix⟩

theorem splitByte_head_prefix (c : UInt8) : ∀ (r l : Bytes) (ls : List Bytes), splitByte c r = l :: ls → l <+: r
  | [], l, ls, h => by simp [splitByte] at h; rw [h.1]; exact List.nil_prefix
  | x :: r, l, ls, h => by
    unfold splitByte at h
    split at h
    · simp at h; rw [h.1]; exact List.nil_prefix
    · cases hs' : splitByte c r with
      | nil => simp [hs', consHead] at h; rw [← h.1]; exact List.prefix_append [x] r
      | cons l' ls' =>
        simp [hs', consHead] at h
        rw [← h.1]
        exact List.cons_prefix_cons.mpr ⟨rfl, splitByte_head_prefix c r l' ls' hs'⟩

theorem splitByte_infix (c : UInt8) : ∀ (x : Bytes) (p : Bytes), p ∈ splitByte c x → p <:+: x
  | [], p, h => by simp [splitByte] at h; subst h; exact List.nil_infix
  | a :: r, p, h => by
    have ih := splitByte_infix c r
    unfold splitByte at h
    split at h
    · simp at h
      rcases h with rfl | h
      · exact List.nil_infix
      · exact (ih p h).trans (List.suffix_cons a r).isInfix
    · cases hs : splitByte c r with
      | nil => simp [hs, consHead] at h; subst h; exact (List.prefix_append [a] r).isInfix
      | cons l ls =>
        simp [hs, consHead] at h
        rcases h with rfl | h
        · exact (List.cons_prefix_cons.mpr ⟨rfl, splitByte_head_prefix c r l ls hs⟩).isInfix
        · exact (ih p (by rw [hs]; simp [h])).trans (List.suffix_cons a r).isInfix

theorem parseCookiePiece_eq (p : Bytes) (pos : Nat) (hf : FB p) (hn : NoUS p) :
    parseCookiePiece p pos =
      if (trimOws p).isEmpty then none else some (cookieOf (trimOws p, pos)) := by
  unfold parseCookiePiece
  rw [trim_eq_trimOws p hf hn]
  simp only []
  cases he : (trimOws p).isEmpty with
  | true => simp
  | false =>
    simp only [Bool.false_eq_true, if_false]
    unfold cookieOf
    have hq := trimOws_infix p
    cases hs : splitFirst 61 (trimOws p) with
    | none => simp
    | some nv =>
      obtain ⟨n, v⟩ := nv
      obtain ⟨h1, h2⟩ := splitFirst_infix 61 _ n v hs
      simp only []
      rw [trim_eq_trimOws n (hf.infix (h1.trans hq)) (hn.infix (h1.trans hq)),
        trim_eq_trimOws v (hf.infix (h2.trans hq)) (hn.infix (h2.trans hq))]

theorem parseCookiePieces_eq : ∀ (ps : List Bytes) (n : Nat), (∀ p ∈ ps, FB p ∧ NoUS p) →
    parseCookiePieces ps n = (((ps.map trimOws).filter (fun p => !p.isEmpty)).zipIdx n).map cookieOf
  | [], _, _ => rfl
  | p :: ps, n, h => by
    obtain ⟨hf, hn⟩ := h p (by simp)
    have ih := fun k => parseCookiePieces_eq ps k (fun q hq => h q (by simp [hq]))
    simp only [parseCookiePieces, parseCookiePiece_eq p n hf hn, List.map_cons, List.filter_cons]
    cases he : (trimOws p).isEmpty with
    | true => simp [ih]
    | false => simp [ih, List.zipIdx_cons]

/-- `parse_cookies` on a field value without non-ASCII White_Space is the OWS-based split -/
theorem parseCookies_eq (v : Bytes) (hf : v.all isFieldByte = true) (hn : containsUSpace v = false) :
    parseCookies v = cookiesOf v := by
  unfold parseCookies cookiesOf cookiePieces
  have hN := noUS_of_contains v hn
  exact parseCookiePieces_eq _ 0 (fun p hp =>
    ⟨FB.infix hf (splitByte_infix 59 v p hp), hN.infix (splitByte_infix 59 v p hp)⟩)

end Huginn.Http1
