import Huginn.Lemmas.Http1Trim
import Huginn.Lemmas.Http1Lines
import Huginn.Lemmas.Http1Consts
/-
Helper lemmas for C05: start lines and field lines of a well-formed head go through
`parse_request_line` / `parse_status_line` / `parse_headers` unchanged.
-/
namespace Huginn.Http1
open Huginn.Http1.Spec Huginn.Gen
set_option linter.unusedSimpArgs false

/-- a Boolean fact about every byte, checked by evaluation over the 256 values -/
theorem forall_uint8 (P : UInt8 → Bool) (h : (List.range 256).all (fun n => P (UInt8.ofNat n)) = true) :
    ∀ b, P b = true := by
  intro b
  have := List.all_eq_true.mp h b.toNat (List.mem_range.mpr b.toNat_lt)
  simpa [UInt8.ofNat_toNat] using this

theorem tchar_facts : ∀ b, (!isTchar b || (isVchar b && b != 58)) = true :=
  forall_uint8 _ (by decide +kernel)

theorem fieldByte_facts : ∀ b, (!isFieldByte b || (b != 13 && b != 10 && (isOws b || !ws1 b))) = true :=
  forall_uint8 _ (by decide +kernel)

theorem fieldByte_utf8_ascii : ∀ b, (!(isVchar b || isOws b) || decide (b < 0x80)) = true :=
  forall_uint8 _ (by decide +kernel)

theorem vchar_facts : ∀ b, (!isVchar b || (b != 13 && b != 10 && b != 32 && b != 9 && decide (b < 0x80))) = true :=
  forall_uint8 _ (by decide +kernel)

theorem digit_facts : ∀ b, (!isDigitB b || (isVchar b && isDigit b && b != 43)) = true :=
  forall_uint8 _ (by decide +kernel)

theorem tchar_vchar {b : UInt8} (h : isTchar b = true) : isVchar b = true := by
  have := tchar_facts b; simp [h] at this; exact this.1
theorem tchar_ne_colon {b : UInt8} (h : isTchar b = true) : b ≠ 58 := by
  have := tchar_facts b; simp [h] at this; exact this.2
theorem vchar_ne {b : UInt8} (h : isVchar b = true) : b ≠ CR ∧ b ≠ LF ∧ b ≠ SP ∧ b < 0x80 := by
  have := vchar_facts b; simp [h] at this
  exact ⟨this.1.1.1.1, this.1.1.1.2, this.1.1.2, this.2⟩
theorem fieldByte_ne {b : UInt8} (h : isFieldByte b = true) : b ≠ CR ∧ b ≠ LF := by
  have := fieldByte_facts b; simp [h] at this; exact ⟨this.1.1, this.1.2⟩
theorem fieldByte_not_ws1 {b : UInt8} (h : isFieldByte b = true) (ho : isOws b = false) : ws1 b = false := by
  have := fieldByte_facts b; simp [h, ho] at this; exact this.2
theorem ows_fieldByte {b : UInt8} (h : isOws b = true) : isFieldByte b = true := by
  unfold isFieldByte; simp [h]

theorem not_mem_of_all {p : UInt8 → Bool} {c : UInt8} {l : Bytes} (h : l.all p = true) (hc : p c = false) : c ∉ l := by
  intro hm; have := List.all_eq_true.mp h c hm; rw [hc] at this; exact absurd this (by simp)

/-! ### `trim_ascii_ws` on field bytes is OWS trimming -/

theorem asciiWs_facts : ∀ b, (!isFieldByte b || (isAsciiWs b == isOws b)) = true :=
  forall_uint8 _ (by decide +kernel)

theorem asciiWs_eq_ows {b : UInt8} (h : isFieldByte b = true) : isAsciiWs b = isOws b := by
  have := asciiWs_facts b; simp [h] at this; exact this

theorem dropWhile_congr_mem {α} (p q : α → Bool) : ∀ (l : List α), (∀ x ∈ l, p x = q x) → l.dropWhile p = l.dropWhile q
  | [], _ => rfl
  | a :: r, h => by
    simp only [List.dropWhile_cons, h a (by simp)]
    cases q a with
    | true => simp only [if_true]; exact dropWhile_congr_mem p q r (fun x hx => h x (by simp [hx]))
    | false => rfl

theorem trimAscii_eq_trimOws (x : Bytes) (h : x.all isFieldByte = true) : trimAscii x = trimOws x := by
  unfold trimAscii trimOws
  have hmem : ∀ b ∈ x, isAsciiWs b = isOws b := fun b hb => asciiWs_eq_ows (List.all_eq_true.mp h b hb)
  rw [dropWhile_congr_mem _ _ x hmem]
  congr 1
  apply dropWhile_congr_mem
  intro b hb
  have : b ∈ x.dropWhile isOws := List.mem_reverse.mp hb
  exact hmem b ((List.dropWhile_suffix _).subset this)

theorem dropWhile_ows_append (o v : Bytes) (ho : o.all isOws = true)
    (hv : ∀ b, v.head? = some b → isOws b = false) : (o ++ v).dropWhile isOws = v := by
  induction o with
  | nil =>
    cases v with
    | nil => rfl
    | cons b r => simp [List.dropWhile_cons, hv b rfl]
  | cons a o ih =>
    simp at ho
    simp only [List.cons_append, List.dropWhile_cons, ho.1, if_true]
    exact ih (by simpa using ho.2)

/-- OWS trimming of `OWS value OWS` is the value when its ends are not OWS -/
theorem trimOws_ows_value (o1 v o2 : Bytes) (h1 : o1.all isOws = true) (h2 : o2.all isOws = true)
    (hh : ∀ b, v.head? = some b → isOws b = false) (hl : ∀ b, v.getLast? = some b → isOws b = false) :
    trimOws (o1 ++ v ++ o2) = v := by
  unfold trimOws
  by_cases hv : v = []
  · subst hv
    have : ((o1 ++ [] ++ o2).dropWhile isOws) = [] := by
      have := dropWhile_ows_append (o1 ++ o2) [] (by simp [h1, h2]) (by simp)
      simpa using this
    rw [this]; rfl
  · have e1 : (o1 ++ v ++ o2).dropWhile isOws = v ++ o2 := by
      rw [List.append_assoc]
      apply dropWhile_ows_append _ _ h1
      intro b hb
      cases v with
      | nil => exact absurd rfl hv
      | cons x r => simp at hb; subst hb; exact hh x rfl
    rw [e1, List.reverse_append]
    have e2 := dropWhile_ows_append o2.reverse v.reverse (by simpa using h2)
      (by intro b hb; apply hl; simpa [List.head?_reverse] using hb)
    rw [e2]; simp

/-! ### field lines -/

theorem token_vchars {n : Bytes} (h : Token n) : n.all isVchar = true := by
  rw [List.all_eq_true]; intro b hb; exact tchar_vchar (List.all_eq_true.mp h.2 b hb)

theorem token_no_colon {n : Bytes} (h : Token n) : (58 : UInt8) ∉ n := by
  intro hm; exact tchar_ne_colon (List.all_eq_true.mp h.2 _ hm) rfl

theorem fieldLine_bytes (f : Field) (h : FieldWF f) : (fieldLine f).all isFieldByte = true := by
  obtain ⟨ht, h1, h2, hv, _⟩ := h
  unfold fieldLine
  simp only [List.all_append, Bool.and_eq_true]
  refine ⟨⟨⟨⟨?_, by decide⟩, ?_⟩, hv.1⟩, ?_⟩
  · rw [List.all_eq_true]; intro b hb
    have := tchar_vchar (List.all_eq_true.mp ht.2 b hb); unfold isFieldByte; simp [this]
  · rw [List.all_eq_true]; intro b hb; exact ows_fieldByte (List.all_eq_true.mp h1 b hb)
  · rw [List.all_eq_true]; intro b hb; exact ows_fieldByte (List.all_eq_true.mp h2 b hb)

theorem fieldLine_ok (f : Field) (h : FieldWF f) : LineOk (fieldLine f) := by
  have hb := fieldLine_bytes f h
  refine ⟨by unfold fieldLine; simp, ?_, ?_⟩
  · intro hm; exact (fieldByte_ne (List.all_eq_true.mp hb _ hm)).1 rfl
  · intro hm; exact (fieldByte_ne (List.all_eq_true.mp hb _ hm)).2 rfl

theorem ascii_utf8 (l : Bytes) (h : l.all (fun b => isVchar b || isOws b) = true) : utf8Valid l = true := by
  apply utf8Valid_ascii
  intro x hx
  have := List.all_eq_true.mp h x hx
  have k := fieldByte_utf8_ascii x
  simp only [this, Bool.not_true, Bool.false_or, decide_eq_true_eq] at k
  exact k

theorem fieldLine_utf8 (f : Field) (h : FieldWF f) : utf8Valid (fieldLine f) = true := by
  obtain ⟨ht, h1, h2, hv, _⟩ := h
  unfold fieldLine
  have hn : utf8Valid (f.name ++ [58]) = true := by
    apply ascii_utf8
    simp only [List.all_append, Bool.and_eq_true]
    refine ⟨?_, by decide⟩
    rw [List.all_eq_true]; intro b hb; simp [tchar_vchar (List.all_eq_true.mp ht.2 b hb)]
  have ho1 : utf8Valid f.ows1 = true := by
    apply ascii_utf8; rw [List.all_eq_true]; intro b hb; simp [List.all_eq_true.mp h1 b hb]
  have ho2 : utf8Valid f.ows2 = true := by
    apply ascii_utf8; rw [List.all_eq_true]; intro b hb; simp [List.all_eq_true.mp h2 b hb]
  have hval : utf8Valid f.value = true := utf8Valid_of_Utf8 hv.2.2.2
  rw [List.append_assoc, List.append_assoc, utf8Valid_append _ _ hn, utf8Valid_append _ _ ho1,
    utf8Valid_append _ _ hval, ho2]

/-- what the parser keeps of one field line -/
def hdrOf (p : Field × Nat) : Hdr := { name := p.1.name, value := some p.1.value, pos := p.2 }

theorem fieldValue_ends (v : Bytes) (h : FieldValue v) :
    (∀ b, v.head? = some b → ws1 b = false) ∧ (∀ b, v.getLast? = some b → ws1 b = false) := by
  obtain ⟨hb, hh, hl, _⟩ := h
  constructor
  · intro b hb'
    have hf := List.all_eq_true.mp hb b (List.mem_of_mem_head? hb')
    simp [hb'] at hh
    exact fieldByte_not_ws1 hf hh
  · intro b hb'
    have hf := List.all_eq_true.mp hb b (List.mem_of_getLast? hb')
    simp [hb'] at hl
    exact fieldByte_not_ws1 hf hl

theorem fieldValue_ends_ows (v : Bytes) (h : FieldValue v) :
    (∀ b, v.head? = some b → isOws b = false) ∧ (∀ b, v.getLast? = some b → isOws b = false) := by
  obtain ⟨_, hh, hl, _⟩ := h
  constructor
  · intro b hb; simp [hb] at hh; exact hh
  · intro b hb; simp [hb] at hl; exact hl

theorem parseHeaderLine_field (f : Field) (pos : Nat) (h : FieldWF f) :
    parseHeaderLine (fieldLine f) pos = some (hdrOf (f, pos)) := by
  obtain ⟨ht, h1, h2, hv, _⟩ := h
  unfold parseHeaderLine fieldLine
  have e : f.name ++ [58] ++ f.ows1 ++ f.value ++ f.ows2 = f.name ++ 58 :: (f.ows1 ++ f.value ++ f.ows2) := by simp
  rw [e, splitFirst_line 58 _ _ (token_no_colon ht)]
  simp only []
  rw [trim_vchars _ (token_vchars ht)]
  have hne : f.name.isEmpty = false := by simp [List.isEmpty_iff, ht.1]
  simp only [hne, Bool.false_eq_true, if_false]
  have hfb : (f.ows1 ++ f.value ++ f.ows2).all isFieldByte = true := by
    simp only [List.all_append, Bool.and_eq_true]
    refine ⟨⟨?_, hv.1⟩, ?_⟩
    · rw [List.all_eq_true]; intro b hb; exact ows_fieldByte (List.all_eq_true.mp h1 b hb)
    · rw [List.all_eq_true]; intro b hb; exact ows_fieldByte (List.all_eq_true.mp h2 b hb)
  obtain ⟨hh, hl⟩ := fieldValue_ends_ows _ hv
  rw [trimAscii_eq_trimOws _ hfb, trimOws_ows_value _ _ _ h1 h2 hh hl]
  rfl

theorem parseHeaderLines_fields : ∀ (fs : List Field) (n : Nat), (∀ f ∈ fs, FieldWF f) →
    parseHeaderLines (fs.map fieldLine) n = (fs.zipIdx n).map hdrOf
  | [], _, _ => by simp [parseHeaderLines]
  | f :: fs, n, h => by
    simp only [List.map_cons, parseHeaderLines, List.zipIdx_cons]
    rw [parseHeaderLine_field f n (h f (by simp)),
      parseHeaderLines_fields fs (n + 1) (fun x hx => h x (by simp [hx]))]

theorem takeWhile_all {α} (p : α → Bool) (l : List α) (h : ∀ x ∈ l, p x = true) : l.takeWhile p = l := by
  induction l with
  | nil => rfl
  | cons a r ih => simp [List.takeWhile_cons, h a (by simp), ih (fun x hx => h x (by simp [hx]))]

theorem parseHeaders_fields (fs : List Field) (hn : fs.length ≤ maxFields)
    (h : ∀ f ∈ fs, FieldWF f) :
    ∃ info, parseHeaders (fs.map fieldLine) = .ok ((fs.zipIdx 0).map hdrOf, info) := by
  unfold parseHeaders
  have h1 : ¬ (fs.map fieldLine).length > HttpLists.maxHeaders := by
    have := maxFields_le; simp; omega
  rw [if_neg h1]
  have h2 : (fs.map fieldLine).takeWhile (fun l => !l.isEmpty) = fs.map fieldLine := by
    apply takeWhile_all
    intro x hx
    obtain ⟨f, hf, rfl⟩ := List.mem_map.mp hx
    simp [List.isEmpty_iff, (fieldLine_ok f (h f hf)).1]
  simp only [h2]
  have h3 : (fs.map fieldLine).any (fun l => decide (l.length > HttpLists.maxHeaderLength)) = false := by
    rw [List.any_eq_false]
    intro x hx
    obtain ⟨f, hf, rfl⟩ := List.mem_map.mp hx
    have := (h f hf).2.2.2.2
    have := maxLine_le_header
    simp; omega
  have h4 : HttpLists.strictParsing = false := rfl
  simp only [h3, h4, Bool.false_eq_true, if_false, Bool.false_and]
  rw [parseHeaderLines_fields fs 0 h]
  exact ⟨_, rfl⟩

end Huginn.Http1
