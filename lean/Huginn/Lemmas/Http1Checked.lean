import Huginn.Model.Http1Checked
import Huginn.Lemmas.WireChecked
import Huginn.Lemmas.Http1Kit
/-
Helper lemmas for C01 (HTTP/1): the checked accessors succeed behind the guards as written.
-/
namespace Huginn.Http1Checked
open Huginn.Http1 Huginn.WireChecked Huginn.Gen
set_option linter.unusedSimpArgs false

theorem nth_ok {α} (l : List α) (i : Nat) (h : i < l.length) : nth l i = .ok l[i] := by
  unfold nth; simp [h]

theorem upTo_ok (b : Bytes) (i : Nat) (h : i ≤ b.length) : upTo b i = .ok (b.take i) := by
  unfold upTo; simp [h]

theorem sliceL_ok {α} (l : List α) (i j : Nat) (h1 : i ≤ j) (h2 : j ≤ l.length) :
    sliceL l i j = .ok ((l.take j).drop i) := by
  unfold sliceL; simp [h1, h2]

/-- `find(c)` and the two slices around it are the model's `splitFirst` -/
theorem splitFirst_findByte (c : UInt8) : ∀ (l : Bytes),
    (match findByte c l with
     | none => splitFirst c l = none
     | some i => i < l.length ∧ splitFirst c l = some (l.take i, l.drop (i + 1)))
  | [] => by simp [findByte, splitFirst]
  | a :: r => by
    have ih := splitFirst_findByte c r
    unfold findByte splitFirst
    by_cases hac : a = c
    · simp [hac]
    · simp only [hac, if_false]
      cases hf : findByte c r with
      | none => simp only [hf] at ih; simp [ih]
      | some i =>
        simp only [hf] at ih
        simp only [Option.map_some, ih.2]
        exact ⟨by simp; omega, by simp⟩

/-! ### lines -/

theorem splitCRLF_ne_nil : ∀ (d : Bytes), splitCRLF d ≠ []
  | [] => by simp [splitCRLF]
  | [a] => by simp [splitCRLF]
  | a :: b :: r => by
    unfold splitCRLF
    split
    · simp
    · cases h : splitCRLF (b :: r) with
      | nil => exact absurd h (splitCRLF_ne_nil (b :: r))
      | cons x xs => simp [consHead]

theorem splitByte_ne_nil (c : UInt8) : ∀ (d : Bytes), splitByte c d ≠ []
  | [] => by simp [splitByte]
  | a :: r => by
    unfold splitByte
    split
    · simp
    · cases h : splitByte c r with
      | nil => exact absurd h (splitByte_ne_nil c r)
      | cons x xs => simp [consHead]

theorem headLines_ne_nil (hd : Bytes) : headLines hd ≠ [] := by
  unfold headLines; split
  · exact splitCRLF_ne_nil hd
  · exact splitByte_ne_nil LF hd

theorem headerEnd_le : ∀ (ls : List Bytes), headerEnd ls ≤ ls.length
  | [] => by simp [headerEnd]
  | l :: ls => by
    unfold headerEnd; split
    · simp
    · have := headerEnd_le ls; simp; omega

theorem take_headerEnd : ∀ (ls : List Bytes), ls.take (headerEnd ls) = ls.takeWhile (fun l => !l.isEmpty)
  | [] => by simp [headerEnd]
  | l :: ls => by
    unfold headerEnd
    cases h : l.isEmpty with
    | true => simp [h, List.takeWhile_cons]
    | false => simp [h, List.takeWhile_cons, take_headerEnd ls]

/-- `&lines[1..header_end]` when the first line is not empty -/
theorem header_slice (l0 : Bytes) (rest : List Bytes) (h0 : l0.isEmpty = false) :
    sliceL (l0 :: rest) 1 (headerEnd (l0 :: rest)) = .ok (headerLinesOf (l0 :: rest)) := by
  have hle := headerEnd_le (l0 :: rest)
  have h1 : 1 ≤ headerEnd (l0 :: rest) := by unfold headerEnd; simp [h0]
  rw [sliceL_ok _ _ _ h1 hle, take_headerEnd]
  unfold headerLinesOf
  simp [List.takeWhile_cons, h0]

/-! ### split_whitespace yields non-empty tokens -/

theorem flushTok_ne (cur : Bytes) (rest : List Bytes) (h : ∀ t ∈ rest, t ≠ []) : ∀ t ∈ flushTok cur rest, t ≠ [] := by
  unfold flushTok
  intro t ht
  cases hc : cur.isEmpty with
  | true => simp [hc] at ht; exact h t ht
  | false =>
    simp only [hc, Bool.false_eq_true, if_false, List.mem_cons] at ht
    rcases ht with rfl | ht
    · intro e; simp [List.isEmpty_iff] at hc; simp at e; exact hc e
    · exact h t ht

theorem splitWsAux_ne : ∀ (d cur : Bytes), ∀ t ∈ splitWsAux d cur, t ≠ [] := by
  intro d cur
  fun_induction splitWsAux d cur with
  | case1 cur => exact flushTok_ne cur [] (by simp)
  | case2 b cur hb => exact flushTok_ne cur [] (by simp)
  | case3 b cur hb => exact flushTok_ne (b :: cur) [] (by simp)
  | case4 b c cur hb ih => exact flushTok_ne cur _ ih
  | case5 b c cur hb hc => exact flushTok_ne cur [] (by simp)
  | case6 b c cur hb hc ih => exact ih
  | case7 b c d r cur hb ih => exact flushTok_ne cur _ ih
  | case8 b c d r cur hb hc ih => exact flushTok_ne cur _ ih
  | case9 b c d r cur hb hc hd ih => exact flushTok_ne cur _ ih
  | case10 b c d r cur hb hc hd ih => exact ih

theorem splitWs_ne (d : Bytes) : ∀ t ∈ splitWs d, t ≠ [] := splitWsAux_ne d []

end Huginn.Http1Checked
