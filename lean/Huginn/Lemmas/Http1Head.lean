import Huginn.Lemmas.Http1Start
/-
Helper lemmas for C05: the parser on a rendered well-formed head followed by any body.
-/
namespace Huginn.Http1
open Huginn.Http1.Spec Huginn.Gen
set_option linter.unusedSimpArgs false

theorem renderReq_eq (h : ReqHead) : renderReq h = rendered (requestLine h :: h.fields.map fieldLine) := rfl
theorem renderRes_eq (h : ResHead) : renderRes h = rendered (statusLine h :: h.fields.map fieldLine) := rfl

/-- the parsed header list of a well-formed field list -/
def hdrsAll (fs : List Field) : List Hdr := (fs.zipIdx 0).map hdrOf

theorem lines_ok (l0 : Bytes) (fs : List Field) (h0 : LineOk l0) (hf : ∀ f ∈ fs, FieldWF f) :
    ∀ l ∈ l0 :: fs.map fieldLine, LineOk l := by
  intro l hl
  simp at hl
  rcases hl with rfl | ⟨f, hf', rfl⟩
  · exact h0
  · exact fieldLine_ok f (hf f hf')

theorem parseRequest_wf (h : ReqHead) (body : Bytes) (wf : WFReq h) :
    ∃ info, parseRequest (renderReq h ++ body) =
      .ok (assembleReq h.method h.target h.ver (hdrsAll h.fields) (requestLine h) info) := by
  have h0 := requestLine_ok h wf
  have hf := wf.2.2.2.2.2.2.1
  have hn := wf.2.2.2.2.2.1
  have hlines := lines_ok _ _ h0 hf
  have hend := rendered_endsAtFirstBlank _ (by simp) hlines
  obtain ⟨info, hinfo⟩ := parseHeaders_fields h.fields hn hf
  refine ⟨info, ?_⟩
  unfold parseRequest
  rw [renderReq_eq, headBytes_append _ body hend]
  unfold parseRequestHead
  have hutf : utf8Valid (rendered (requestLine h :: h.fields.map fieldLine)) = true := by
    apply utf8Valid_rendered
    intro l hl
    simp at hl
    rcases hl with rfl | ⟨f, hf', rfl⟩
    · exact requestLine_utf8 h wf
    · exact fieldLine_utf8 f (hf f hf')
  rw [hutf, hend.1, headLines_rendered _ (by simp) hlines]
  simp only [Bool.not_true, Bool.false_eq_true, if_false, List.cons_append, List.headD_cons]
  rw [parseRequestLine_ok h wf]
  simp only []
  have := headerLinesOf_lines (requestLine h) (h.fields.map fieldLine)
    (by intro l hl; obtain ⟨f, hf', rfl⟩ := List.mem_map.mp hl; exact (fieldLine_ok f (hf f hf')).1)
  simp only [List.cons_append] at this
  rw [this, hinfo]
  rfl

theorem parseResponse_wf (h : ResHead) (body : Bytes) (wf : WFRes h) :
    ∃ info, parseResponse (renderRes h ++ body) =
      .ok (assembleRes h.ver (statusValue h.status) h.reason (hdrsAll h.fields) (statusLine h) info) := by
  have h0 := statusLine_ok h wf
  have hf := wf.2.2.2.2.2.2
  have hn := wf.2.2.2.2.2.1
  have hlines := lines_ok _ _ h0 hf
  have hend := rendered_endsAtFirstBlank _ (by simp) hlines
  obtain ⟨info, hinfo⟩ := parseHeaders_fields h.fields hn hf
  refine ⟨info, ?_⟩
  unfold parseResponse
  rw [renderRes_eq, headBytes_append _ body hend]
  unfold parseResponseHead
  have hutf : utf8Valid (rendered (statusLine h :: h.fields.map fieldLine)) = true := by
    apply utf8Valid_rendered
    intro l hl
    simp at hl
    rcases hl with rfl | ⟨f, hf', rfl⟩
    · exact statusLine_utf8 h wf
    · exact fieldLine_utf8 f (hf f hf')
  rw [hutf, hend.1, headLines_rendered _ (by simp) hlines]
  simp only [Bool.not_true, Bool.false_eq_true, if_false, List.cons_append, List.headD_cons]
  rw [parseStatusLine_ok h wf]
  simp only []
  have := headerLinesOf_lines (statusLine h) (h.fields.map fieldLine)
    (by intro l hl; obtain ⟨f, hf', rfl⟩ := List.mem_map.mp hl; exact (fieldLine_ok f (hf f hf')).1)
  simp only [List.cons_append] at this
  rw [this, hinfo]
  rfl

end Huginn.Http1
