import Huginn.Model.Match
/-
The `olayout_key` string of `TcpIndexKey` determines the option layout:
`olayoutKey a = olayoutKey b → a = b` (decimal rendering is injective, the eight option tokens are
pairwise different, non-empty and comma-free, and a comma-joined list of such tokens splits
uniquely).
-/
namespace Huginn.Match
open Huginn.Sig

theorem digitChar_inj : ∀ a, a < 10 → ∀ b, b < 10 → digitChar a = digitChar b → a = b := by decide

theorem digitChar_ne_comma : ∀ a, a < 10 → digitChar a ≠ ',' := by decide

theorem decChars_ne_nil (n : Nat) : decChars n ≠ [] := by
  unfold decChars
  split <;> simp

theorem decChars_no_comma (n : Nat) : ∀ c ∈ decChars n, c ≠ ',' := by
  induction n using Nat.strongRecOn with
  | _ n ih =>
    unfold decChars
    split
    · intro c hc
      simp only [List.mem_singleton] at hc
      rw [hc]; exact digitChar_ne_comma n ‹n < 10›
    · intro c hc
      rcases List.mem_append.mp hc with h | h
      · exact ih (n / 10) (by omega) c h
      · simp only [List.mem_singleton] at h
        rw [h]; exact digitChar_ne_comma (n % 10) (by omega)

theorem decChars_inj (n m : Nat) (h : decChars n = decChars m) : n = m := by
  induction n using Nat.strongRecOn generalizing m with
  | _ n ih =>
    rw [decChars.eq_1 n, decChars.eq_1 m] at h
    by_cases hn : n < 10 <;> by_cases hm : m < 10
    · simp only [hn, hm, dite_true, List.cons.injEq, and_true] at h
      exact digitChar_inj n hn m hm h
    · simp only [hn, hm, dite_true, dite_false] at h
      have := decChars_ne_nil (m / 10)
      cases hd : decChars (m / 10) with
      | nil => exact absurd hd this
      | cons a r => rw [hd] at h; simp at h
    · simp only [hn, hm, dite_true, dite_false] at h
      have := decChars_ne_nil (n / 10)
      cases hd : decChars (n / 10) with
      | nil => exact absurd hd this
      | cons a r => rw [hd] at h; simp at h
    · simp only [hn, hm, dite_false] at h
      have := List.append_inj' h rfl
      have h1 := ih (n / 10) (by omega) (m / 10) this.1
      have h2 := digitChar_inj (n % 10) (by omega) (m % 10) (by omega) (by simpa using this.2)
      omega

theorem optChars_ne_nil (o : TcpOption) : optChars o ≠ [] := by
  cases o <;> simp [optChars]

theorem optChars_no_comma (o : TcpOption) : ∀ c ∈ optChars o, c ≠ ',' := by
  cases o <;> simp only [optChars]
  case eol n =>
    intro c hc
    rcases List.mem_append.mp hc with h | h
    · simp only [List.mem_cons, List.not_mem_nil, or_false] at h
      rcases h with rfl | rfl | rfl | rfl <;> decide
    · exact decChars_no_comma n c h
  case unknown n =>
    intro c hc
    rcases List.mem_cons.mp hc with h | h
    · rw [h]; decide
    · exact decChars_no_comma n c h
  all_goals decide

theorem optChars_inj (a b : TcpOption) (h : optChars a = optChars b) : a = b := by
  cases a <;> cases b <;> simp only [optChars, List.cons_append, List.nil_append, List.cons.injEq,
    reduceCtorEq] at h
  case eol.eol n m => rw [decChars_inj n m (by simpa using h)]
  case unknown.unknown n m => rw [decChars_inj n m (by simpa using h)]
  all_goals first | rfl | (exfalso; simp at h; done) | (exfalso; revert h; decide)

/-- A token: non-empty and comma-free. -/
def Tok (t : List Char) : Prop := t ≠ [] ∧ ∀ c ∈ t, c ≠ ','

/-- Nothing, or something that starts with a comma. -/
def CommaTail (r : List Char) : Prop := r = [] ∨ ∃ r', r = ',' :: r'

theorem head_split (t u ra rb : List Char) (ht : ∀ c ∈ t, c ≠ ',') (hu : ∀ c ∈ u, c ≠ ',')
    (ha : CommaTail ra) (hb : CommaTail rb) (h : t ++ ra = u ++ rb) : t = u ∧ ra = rb := by
  induction t generalizing u with
  | nil =>
    cases u with
    | nil => exact ⟨rfl, by simpa using h⟩
    | cons c u' =>
      exfalso
      simp only [List.nil_append, List.cons_append] at h
      rcases ha with rfl | ⟨r', rfl⟩
      · cases h
      · simp only [List.cons.injEq] at h
        exact hu c (by simp) h.1.symm
  | cons a t' ih =>
    cases u with
    | nil =>
      exfalso
      simp only [List.nil_append, List.cons_append] at h
      rcases hb with rfl | ⟨r', rfl⟩
      · cases h
      · simp only [List.cons.injEq] at h
        exact ht a (by simp) h.1
    | cons c u' =>
      simp only [List.cons_append, List.cons.injEq] at h
      obtain ⟨h1, h2⟩ := ih u' (fun x hx => ht x (by simp [hx])) (fun x hx => hu x (by simp [hx])) h.2
      exact ⟨by rw [h.1, h1], h2⟩

def commaTail (r : List (List Char)) : List Char := r.flatMap (fun x => ',' :: x)

theorem commaTail_is (r : List (List Char)) : CommaTail (commaTail r) := by
  cases r with
  | nil => exact .inl rfl
  | cons x r => exact .inr ⟨x ++ commaTail r, by simp [commaTail]⟩

theorem commaTail_inj (r r' : List (List Char)) (hr : ∀ t ∈ r, Tok t) (hr' : ∀ t ∈ r', Tok t)
    (h : commaTail r = commaTail r') : r = r' := by
  induction r generalizing r' with
  | nil =>
    cases r' with
    | nil => rfl
    | cons y r1 => simp [commaTail] at h
  | cons x r1 ih =>
    cases r' with
    | nil => simp [commaTail] at h
    | cons y r1' =>
      simp only [commaTail, List.flatMap_cons, List.cons_append, List.cons.injEq, true_and] at h
      obtain ⟨h1, h2⟩ := head_split x y _ _ (hr x (by simp)).2 (hr' y (by simp)).2
        (commaTail_is r1) (commaTail_is r1') h
      rw [h1, ih r1' (fun t ht => hr t (by simp [ht])) (fun t ht => hr' t (by simp [ht])) h2]

theorem joinComma_inj (a b : List (List Char)) (ha : ∀ t ∈ a, Tok t) (hb : ∀ t ∈ b, Tok t)
    (h : joinComma a = joinComma b) : a = b := by
  cases a with
  | nil =>
    cases b with
    | nil => rfl
    | cons u r' =>
      exfalso
      simp only [joinComma] at h
      have : u = [] := by
        cases u with
        | nil => rfl
        | cons c u' => simp at h
      exact (hb u (by simp)).1 this
  | cons t r =>
    cases b with
    | nil =>
      exfalso
      simp only [joinComma] at h
      have : t = [] := by
        cases t with
        | nil => rfl
        | cons c t' => simp at h
      exact (ha t (by simp)).1 this
    | cons u r' =>
      simp only [joinComma] at h
      obtain ⟨h1, h2⟩ := head_split t u _ _ (ha t (by simp)).2 (hb u (by simp)).2
        (commaTail_is r) (commaTail_is r') h
      rw [h1, commaTail_inj r r' (fun x hx => ha x (by simp [hx])) (fun x hx => hb x (by simp [hx])) h2]

theorem map_optChars_inj (a b : List TcpOption) (h : a.map optChars = b.map optChars) : a = b := by
  induction a generalizing b with
  | nil => cases b with | nil => rfl | cons y r => simp at h
  | cons x r ih =>
    cases b with
    | nil => simp at h
    | cons y r' =>
      simp only [List.map_cons, List.cons.injEq] at h
      rw [optChars_inj x y h.1, ih r' h.2]

theorem olayoutChars_inj (a b : List TcpOption) (h : olayoutChars a = olayoutChars b) : a = b := by
  apply map_optChars_inj
  apply joinComma_inj _ _ _ _ h
  · intro t ht
    obtain ⟨o, _, rfl⟩ := List.mem_map.mp ht
    exact ⟨optChars_ne_nil o, optChars_no_comma o⟩
  · intro t ht
    obtain ⟨o, _, rfl⟩ := List.mem_map.mp ht
    exact ⟨optChars_ne_nil o, optChars_no_comma o⟩

/-- Equal `olayout_key` strings mean equal option layouts. -/
theorem olayoutKey_inj (a b : List TcpOption) (h : olayoutKey a = olayoutKey b) : a = b := by
  apply olayoutChars_inj
  have := congrArg String.toList h
  simpa [olayoutKey, String.toList_ofList] using this

end Huginn.Match
