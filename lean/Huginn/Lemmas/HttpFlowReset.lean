import Huginn.Lemmas.HttpFlowKey
import Huginn.Spec.HttpFlow
/-
The SYN reset of the HTTP flow table (`HttpFlow.reset`, `stepS`, `runS`): invariants, and the histories on
which it never fires — in particular one connection from an empty table, the object of C09's theorems.
-/
namespace Huginn.HttpFlow

theorem FlowMap.erase_of_get_none (m : FlowMap) (k : FlowKey) (h : m.get k = none) : m.erase k = m := by
  induction m with
  | nil => rfl
  | cons e m ih =>
    obtain ⟨k', v⟩ := e
    by_cases hk : k' = k
    · simp [FlowMap.get, hk] at h
    · simp only [FlowMap.get, hk, if_false] at h
      have hb : (!(k' == k)) = true := by simp [hk]
      simp only [FlowMap.erase, List.filter_cons, hb, if_true]
      exact congrArg _ (ih h)

theorem erase_keyInv (m : FlowMap) (k : FlowKey) (hi : KeyInv m) : KeyInv (m.erase k) := by
  intro k' f hf
  by_cases hk : k' = k
  · subst hk; rw [FlowMap.get_erase_eq] at hf; cases hf
  · rw [FlowMap.get_erase_ne _ _ _ hk] at hf; exact hi k' f hf

theorem reset_keyInv (m : FlowMap) (p : Pkt) (hi : KeyInv m) : KeyInv (reset m p) := by
  unfold reset
  split
  · split
    · exact hi
    · exact erase_keyInv _ _ (erase_keyInv _ _ hi)
  · exact hi

theorem stepS_keyInv {ρ σ} (P : Parsers ρ σ) (m : FlowMap) (p : Pkt) (hi : KeyInv m) : KeyInv (stepS P m p).map :=
  step_keyInv P _ p (reset_keyInv m p hi)

/-- not a connection-opening SYN: nothing is reset -/
theorem reset_of_not_pureSyn (m : FlowMap) (p : Pkt) (h : (hasFlag p.flags SYN && !hasFlag p.flags ACK) = false) :
    reset m p = m := by
  unfold reset; rw [h]; rfl

/-- no flow stored for the 4-tuple: nothing is reset -/
theorem reset_of_absent (m : FlowMap) (p : Pkt) (h1 : m.get p.key = none) (h2 : m.get p.key.rev = none) :
    reset m p = m := by
  unfold reset
  split
  · split
    · rfl
    · rw [FlowMap.erase_of_get_none m _ h1, FlowMap.erase_of_get_none m _ h2]
  · rfl

/-- a retransmitted SYN: nothing is reset -/
theorem reset_of_retransmission (m : FlowMap) (p : Pkt) (f : TcpFlow) (h : m.get p.key = some f)
    (hs : f.clientIsn = p.seq) : reset m p = m := by
  unfold reset
  split
  · rw [h]; simp [hs]
  · rfl

/-- Histories without a connection-opening SYN run as without the reset. -/
theorem runS_eq_run {ρ σ} (P : Parsers ρ σ) (m : FlowMap) (ps : List Pkt)
    (h : ∀ p ∈ ps, (hasFlag p.flags SYN && !hasFlag p.flags ACK) = false) : runS P m ps = run P m ps := by
  induction ps generalizing m with
  | nil => rfl
  | cons p ps ih =>
    simp only [runS, run, stepS, reset_of_not_pureSyn m p (h p (by simp))]
    rw [ih _ (fun q hq => h q (by simp [hq]))]

/-- **One connection from an empty table**: SYN, SYN-ACK, then data packets none of which is a SYN — the reset
never fires, so every theorem about `run P [] (c.packets ds)` is a theorem about `runS`. -/
theorem runS_conn {ρ σ} (P : Parsers ρ σ) (c : Spec.Conn) (ds : List Spec.DataPkt)
    (hns : ∀ d ∈ ds, hasFlag d.flags SYN = false) :
    runS P [] (c.packets ds) = run P [] (c.packets ds) := by
  unfold Spec.Conn.packets
  simp only [runS, run, stepS]
  rw [reset_of_absent [] _ rfl rfl]
  rw [reset_of_not_pureSyn _ ⟨c.client.dstIp, c.client.srcIp, c.client.dstPort, c.client.srcPort, c.isnS, 18, []⟩
    (by show (hasFlag 18 SYN && !hasFlag 18 ACK) = false; decide)]
  rw [runS_eq_run]
  intro p hp
  obtain ⟨d, hd, rfl⟩ := List.mem_map.1 hp
  have := hns d hd
  split <;> simp [this]

end Huginn.HttpFlow
