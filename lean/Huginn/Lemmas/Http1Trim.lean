import Huginn.Spec.Http1
/-
Helper lemmas for C05: `str::trim` / `split_whitespace` (Unicode White_Space on UTF-8 bytes) on
RFC 7230 tokens, OWS and field values.
-/
namespace Huginn.Http1
open Huginn.Http1.Spec
set_option linter.unusedSimpArgs false

theorem ws2_ascii {b : UInt8} (c : UInt8) (h : b < 0x80) : ws2 b c = false := by
  unfold ws2; have : b ≠ 0xC2 := by intro e; subst e; exact absurd h (by decide)
  simp [this]

theorem ws3_ascii {b : UInt8} (c d : UInt8) (h : b < 0x80) : ws3 b c d = false := by
  unfold ws3
  have h1 : b ≠ 0xE1 := by intro e; subst e; exact absurd h (by decide)
  have h2 : b ≠ 0xE2 := by intro e; subst e; exact absurd h (by decide)
  have h3 : b ≠ 0xE3 := by intro e; subst e; exact absurd h (by decide)
  simp [h1, h2, h3]

theorem ws2_snd_ascii (b : UInt8) {c : UInt8} (h : c < 0x80) : ws2 b c = false := by
  unfold ws2
  have h1 : c ≠ 0x85 := by intro e; subst e; exact absurd h (by decide)
  have h2 : c ≠ 0xA0 := by intro e; subst e; exact absurd h (by decide)
  simp [h1, h2]

theorem ws3_snd_ascii (b : UInt8) {c : UInt8} (d : UInt8) (h : c < 0x80) : ws3 b c d = false := by
  unfold ws3
  have h1 : c ≠ 0x9A := by intro e; subst e; exact absurd h (by decide)
  have h2 : c ≠ 0x80 := by intro e; subst e; exact absurd h (by decide)
  have h3 : c ≠ 0x81 := by intro e; subst e; exact absurd h (by decide)
  simp [h1, h2, h3]

theorem ws3_thd_ascii (b c : UInt8) {d : UInt8} (h : d < 0x80) : ws3 b c d = false := by
  unfold ws3
  have e : ∀ x : UInt8, 0x80 ≤ x → d ≠ x := by
    intro x hx e; subst e; exact absurd h (by grind)
  simp [e 0x80 (by decide), e 0x81 (by decide), e 0x82 (by decide), e 0x83 (by decide), e 0x84 (by decide),
    e 0x85 (by decide), e 0x86 (by decide), e 0x87 (by decide), e 0x88 (by decide), e 0x89 (by decide),
    e 0x8A (by decide), e 0xA8 (by decide), e 0xA9 (by decide), e 0xAF (by decide), e 0x9F (by decide)]

theorem vchar_lt {b : UInt8} (h : isVchar b = true) : b < 0x80 := by
  unfold isVchar at h; simp at h; grind

theorem vchar_not_ws1 {b : UInt8} (h : isVchar b = true) : ws1 b = false := by
  unfold isVchar at h; unfold ws1; simp at h ⊢; grind

theorem ows_ws1 {b : UInt8} (h : isOws b = true) : ws1 b = true := by
  unfold isOws at h; unfold ws1; simp [SP, HT] at h ⊢; rcases h with rfl | rfl <;> decide

theorem ows_lt {b : UInt8} (h : isOws b = true) : b < 0x80 := by
  unfold isOws at h; simp [SP, HT] at h; rcases h with rfl | rfl <;> decide

theorem ws2_mem {b c : UInt8} (h : ws2 b c = true) : [b, c] ∈ unicodeSpaces := by
  unfold ws2 at h; simp at h
  obtain ⟨rfl, h | h⟩ := h <;> subst h <;> decide

theorem ws3_mem {b c d : UInt8} (h : ws3 b c d = true) : [b, c, d] ∈ unicodeSpaces := by
  unfold ws3 at h
  simp only [Bool.or_eq_true, Bool.and_eq_true, beq_iff_eq] at h
  rcases h with ((⟨⟨rfl, rfl⟩, rfl⟩ | ⟨⟨rfl, rfl⟩, h⟩) | ⟨⟨rfl, rfl⟩, rfl⟩) | ⟨⟨rfl, rfl⟩, rfl⟩
  · decide
  · rcases h with ((((((((((((rfl | rfl) | rfl) | rfl) | rfl) | rfl) | rfl) | rfl) | rfl) | rfl) | rfl) | rfl) | rfl) | rfl <;> decide
  · decide
  · decide

/-- the input starts with a White_Space character -/
def wsPrefix : Bytes → Bool
  | [] => false
  | [b] => ws1 b
  | [b, c] => ws1 b || ws2 b c
  | b :: c :: d :: _ => ws1 b || ws2 b c || ws3 b c d

/-- the reversed input starts with a (reversed) White_Space character -/
def wsPrefixRev : Bytes → Bool
  | [] => false
  | [b] => ws1 b
  | [b, c] => ws1 b || ws2 c b
  | b :: c :: d :: _ => ws1 b || ws2 c b || ws3 d c b

theorem trimStart_of_not_wsPrefix : ∀ (v : Bytes), wsPrefix v = false → trimStart v = v
  | [], _ => by simp [trimStart]
  | [b], h => by simp [wsPrefix] at h; simp [trimStart, h]
  | [b, c], h => by simp [wsPrefix] at h; simp [trimStart, h.1, h.2]
  | b :: c :: d :: r, h => by simp [wsPrefix] at h; simp [trimStart, h.1.1, h.1.2, h.2]

theorem trimStartRev_of_not_wsPrefixRev : ∀ (v : Bytes), wsPrefixRev v = false → trimStartRev v = v
  | [], _ => by simp [trimStartRev]
  | [b], h => by simp [wsPrefixRev] at h; simp [trimStartRev, h]
  | [b, c], h => by simp [wsPrefixRev] at h; simp [trimStartRev, h.1, h.2]
  | b :: c :: d :: r, h => by simp [wsPrefixRev] at h; simp [trimStartRev, h.1.1, h.1.2, h.2]

theorem trimStart_ows : ∀ (w v : Bytes), w.all isOws = true → trimStart (w ++ v) = trimStart v
  | [], v, _ => by simp
  | a :: w, v, h => by
    simp at h
    simp only [List.cons_append]
    conv => lhs; unfold trimStart
    simp [ows_ws1 h.1]
    exact trimStart_ows w v (by simpa using h.2)

theorem trimStartRev_ows : ∀ (w v : Bytes), w.all isOws = true → trimStartRev (w ++ v) = trimStartRev v
  | [], v, _ => by simp
  | a :: w, v, h => by
    simp at h
    simp only [List.cons_append]
    conv => lhs; unfold trimStartRev
    simp [ows_ws1 h.1]
    exact trimStartRev_ows w v (by simpa using h.2)

theorem trimStart_all_ows (w : Bytes) (h : w.all isOws = true) : trimStart w = [] := by
  have := trimStart_ows w [] h; simpa [trimStart] using this

/-- a value that does not start with white space, followed by OWS, does not start with white space -/
theorem wsPrefix_append_ows (v o : Bytes) (hne : v ≠ [])
    (h1 : ∀ b, v.head? = some b → ws1 b = false) (hu : startsWithUSpace v = false)
    (ho : o.all isOws = true) : wsPrefix (v ++ o) = false := by
  have hpat : ∀ p, p ∈ unicodeSpaces → p.isPrefixOf v = false := by
    intro p hp
    unfold startsWithUSpace at hu
    simp only [List.any_eq_false] at hu
    exact Bool.eq_false_iff.mpr (hu p hp)
  match v, hne, h1, hpat with
  | [b], _, h1, hpat =>
    have hb := h1 b rfl
    match o, ho with
    | [], _ => simp [wsPrefix, hb]
    | [x], ho =>
      simp at ho; simp [wsPrefix, hb, ws2_snd_ascii b (ows_lt ho)]
    | x :: y :: _, ho =>
      simp at ho; simp [wsPrefix, hb, ws2_snd_ascii b (ows_lt ho.1), ws3_snd_ascii b y (ows_lt ho.1)]
  | [b, c], _, h1, hpat =>
    have hb := h1 b rfl
    have h2 : ws2 b c = false := by
      cases hq : ws2 b c with
      | false => rfl
      | true => have := hpat _ (ws2_mem hq); simp [List.isPrefixOf] at this
    match o, ho with
    | [], _ => simp [wsPrefix, hb, h2]
    | x :: _, ho =>
      simp at ho; simp [wsPrefix, hb, h2, ws3_thd_ascii b c (ows_lt ho.1)]
  | b :: c :: d :: r, _, h1, hpat =>
    have hb := h1 b rfl
    have h2 : ws2 b c = false := by
      cases hq : ws2 b c with
      | false => rfl
      | true => have := hpat _ (ws2_mem hq); simp [List.isPrefixOf] at this
    have h3 : ws3 b c d = false := by
      cases hq : ws3 b c d with
      | false => rfl
      | true => have := hpat _ (ws3_mem hq); simp [List.isPrefixOf] at this
    simp [wsPrefix, hb, h2, h3]

/-- a value that does not end with white space: its reversal does not start with reversed white space -/
theorem wsPrefixRev_reverse (v : Bytes)
    (h1 : ∀ b, v.getLast? = some b → ws1 b = false) (hu : endsWithUSpace v = false) :
    wsPrefixRev v.reverse = false := by
  have hpat : ∀ p, p ∈ unicodeSpaces → p.reverse.isPrefixOf v.reverse = false := by
    intro p hp
    unfold endsWithUSpace at hu
    simp only [List.any_eq_false] at hu
    exact Bool.eq_false_iff.mpr (hu p hp)
  generalize hr : v.reverse = w at hpat
  have hl : ∀ b, w.head? = some b → ws1 b = false := by
    intro b hb; apply h1; rw [← hr] at hb; simpa [List.head?_reverse] using hb
  match w, hl, hpat with
  | [], _, _ => simp [wsPrefixRev]
  | [b], hl, _ => simp [wsPrefixRev, hl b rfl]
  | [b, c], hl, hpat =>
    have h2 : ws2 c b = false := by
      cases hq : ws2 c b with
      | false => rfl
      | true => have := hpat _ (ws2_mem hq); simp [List.isPrefixOf] at this
    simp [wsPrefixRev, hl b rfl, h2]
  | b :: c :: d :: r, hl, hpat =>
    have h2 : ws2 c b = false := by
      cases hq : ws2 c b with
      | false => rfl
      | true => have := hpat _ (ws2_mem hq); simp [List.isPrefixOf] at this
    have h3 : ws3 d c b = false := by
      cases hq : ws3 d c b with
      | false => rfl
      | true => have := hpat _ (ws3_mem hq); simp [List.isPrefixOf] at this
    simp [wsPrefixRev, hl b rfl, h2, h3]

/-- `trim` of `OWS value OWS` is the value, when the value's ends are not White_Space. -/
theorem trim_ows_value (o1 v o2 : Bytes) (h1 : o1.all isOws = true) (h2 : o2.all isOws = true)
    (hh : ∀ b, v.head? = some b → ws1 b = false) (hl : ∀ b, v.getLast? = some b → ws1 b = false)
    (hs : startsWithUSpace v = false) (he : endsWithUSpace v = false) :
    trim (o1 ++ v ++ o2) = v := by
  unfold trim
  rw [List.append_assoc, trimStart_ows o1 _ h1]
  by_cases hv : v = []
  · subst hv
    simp [trimStart_all_ows o2 h2, trimEnd, trimStartRev]
  · rw [trimStart_of_not_wsPrefix _ (wsPrefix_append_ows v o2 hv hh hs h2)]
    unfold trimEnd
    rw [List.reverse_append, trimStartRev_ows _ _ (by simpa using h2),
      trimStartRev_of_not_wsPrefixRev _ (wsPrefixRev_reverse v hl he)]
    simp

theorem uspace_head : ∀ q ∈ unicodeSpaces, ∃ x t, q = x :: t ∧ 0x80 ≤ x := by
  intro q hq
  have key : unicodeSpaces.all (fun q => match q with | x :: _ => decide (0x80 ≤ x) | [] => false) = true := by
    decide
  have := List.all_eq_true.mp key q hq
  match q, this with
  | x :: t, h => exact ⟨x, t, rfl, of_decide_eq_true h⟩

theorem uspace_last : ∀ q ∈ unicodeSpaces, ∃ x t, q.reverse = x :: t ∧ 0x80 ≤ x := by
  intro q hq
  have key : unicodeSpaces.all (fun q => match q.reverse with | x :: _ => decide (0x80 ≤ x) | [] => false) = true := by
    decide
  have := List.all_eq_true.mp key q hq
  generalize q.reverse = w at this
  match w, this with
  | x :: t, h => exact ⟨x, t, rfl, of_decide_eq_true h⟩

/-- no Unicode space at either end when the end bytes are ASCII -/
theorem startsWithUSpace_ascii (v : Bytes) (h : ∀ b, v.head? = some b → b < 0x80) : startsWithUSpace v = false := by
  unfold startsWithUSpace
  match v, h with
  | [], _ => decide
  | b :: r, h =>
    have hb := h b rfl
    simp only [List.any_eq_false]
    intro p hp
    obtain ⟨x, t, rfl, hx⟩ := uspace_head p hp
    have : x ≠ b := by intro e; subst e; exact absurd hb (by grind)
    simp [List.isPrefixOf, this]

theorem endsWithUSpace_ascii (v : Bytes) (h : ∀ b, v.getLast? = some b → b < 0x80) : endsWithUSpace v = false := by
  unfold endsWithUSpace
  generalize hr : v.reverse = w
  have hw : ∀ b, w.head? = some b → b < 0x80 := by
    intro b hb; apply h; rw [← hr] at hb; simpa [List.head?_reverse] using hb
  match w, hw with
  | [], _ => decide
  | b :: r, hw =>
    have hb := hw b rfl
    simp only [List.any_eq_false]
    intro p hp
    obtain ⟨x, t, he, hx⟩ := uspace_last p hp
    have : x ≠ b := by intro e; subst e; exact absurd hb (by grind)
    simp [he, List.isPrefixOf, this]

/-- `trim` leaves a non-empty string of visible ASCII alone -/
theorem trim_vchars (n : Bytes) (h : n.all isVchar = true) : trim n = n := by
  have hh : ∀ b, n.head? = some b → isVchar b = true := by
    intro b hb; exact (List.all_eq_true.mp h) b (List.mem_of_mem_head? hb)
  have hl : ∀ b, n.getLast? = some b → isVchar b = true := by
    intro b hb; exact (List.all_eq_true.mp h) b (List.mem_of_getLast? hb)
  have := trim_ows_value [] n [] (by simp) (by simp)
    (fun b hb => vchar_not_ws1 (hh b hb)) (fun b hb => vchar_not_ws1 (hl b hb))
    (startsWithUSpace_ascii n (fun b hb => vchar_lt (hh b hb)))
    (endsWithUSpace_ascii n (fun b hb => vchar_lt (hl b hb)))
  simpa using this

/-! ### split_whitespace on visible-ASCII tokens -/

theorem splitWsAux_vchar (b : UInt8) (r cur : Bytes) (h : isVchar b = true) :
    splitWsAux (b :: r) cur = splitWsAux r (b :: cur) := by
  have h1 := vchar_not_ws1 h
  have hl := vchar_lt h
  match r with
  | [] => simp [splitWsAux, h1]
  | [c] => simp [splitWsAux, h1, ws2_ascii c hl]
  | c :: d :: r => simp [splitWsAux, h1, ws2_ascii c hl, ws3_ascii c d hl]

theorem splitWsAux_sp (r cur : Bytes) : splitWsAux (SP :: r) cur = flushTok cur (splitWsAux r []) := by
  have h1 : ws1 SP = true := by decide
  match r with
  | [] => simp [splitWsAux, h1, flushTok]
  | [c] => simp [splitWsAux, h1]
  | c :: d :: r => simp [splitWsAux, h1]

theorem splitWsAux_vchars : ∀ (t r cur : Bytes), t.all isVchar = true →
    splitWsAux (t ++ r) cur = splitWsAux r (t.reverse ++ cur)
  | [], r, cur, _ => by simp
  | b :: t, r, cur, h => by
    simp at h
    simp only [List.cons_append]
    rw [splitWsAux_vchar b _ cur h.1, splitWsAux_vchars t r (b :: cur) (by simpa using h.2)]
    simp

/-- `"m t v".split_whitespace()` for three non-empty visible-ASCII tokens -/
theorem splitWs_three (m t v : Bytes) (hm : m.all isVchar = true) (ht : t.all isVchar = true)
    (hv : v.all isVchar = true) (m0 : m ≠ []) (t0 : t ≠ []) (v0 : v ≠ []) :
    splitWs (m ++ [SP] ++ t ++ [SP] ++ v) = [m, t, v] := by
  unfold splitWs
  have e : m ++ [SP] ++ t ++ [SP] ++ v = m ++ (SP :: (t ++ (SP :: (v ++ [])))) := by simp
  rw [e, splitWsAux_vchars m _ [] hm, splitWsAux_sp, splitWsAux_vchars t _ [] ht, splitWsAux_sp,
    splitWsAux_vchars v _ [] hv]
  simp [splitWsAux, flushTok, m0, t0, v0]

end Huginn.Http1
