import Huginn.Lemmas.Http1Lang2
/-
Helper lemmas for C05: the executable `Spec.preferredLang` satisfies the declarative `Spec.Preferred`.
-/
namespace Huginn.Http1
open Huginn.Http1.Spec
set_option linter.unusedSimpArgs false

theorem foldl_better_split : ∀ (K : List (LangItem × Bytes)) (b : LangItem × Bytes),
    ∃ A x B, b :: K = A ++ x :: B ∧ K.foldl better b = x ∧
      (∀ y ∈ A, itemQ y.1 < itemQ x.1) ∧ (∀ y ∈ B, itemQ y.1 ≤ itemQ x.1)
  | [], b => ⟨[], b, [], rfl, rfl, by simp, by simp⟩
  | c :: K, b => by
    simp only [List.foldl_cons]
    unfold better
    by_cases hlt : itemQ b.1 < itemQ c.1
    · simp only [hlt, if_true]
      obtain ⟨A, x, B, hs, hf, hA, hB⟩ := foldl_better_split K c
      have hcx : itemQ c.1 ≤ itemQ x.1 := by
        have : c ∈ A ++ x :: B := by rw [← hs]; simp
        simp only [List.mem_append, List.mem_cons] at this
        rcases this with h | rfl | h
        · exact Nat.le_of_lt (hA c h)
        · exact Nat.le_refl _
        · exact hB c h
      refine ⟨b :: A, x, B, by rw [hs]; simp, hf, ?_, hB⟩
      intro y hy
      simp only [List.mem_cons] at hy
      rcases hy with rfl | hy
      · omega
      · exact hA y hy
    · simp only [hlt, if_false]
      obtain ⟨A, x, B, hs, hf, hA, hB⟩ := foldl_better_split K b
      cases A with
      | nil =>
        simp only [List.nil_append, List.cons.injEq] at hs
        obtain ⟨rfl, rfl⟩ := hs
        refine ⟨[], b, c :: K, rfl, hf, by simp, ?_⟩
        intro y hy
        simp only [List.mem_cons] at hy
        rcases hy with rfl | hy
        · omega
        · exact hB y hy
      | cons a A' =>
        simp only [List.cons_append, List.cons.injEq] at hs
        obtain ⟨rfl, hs⟩ := hs
        have hbx := hA b (by simp)
        refine ⟨b :: c :: A', x, B, by rw [hs]; simp, hf, ?_, hB⟩
        intro y hy
        simp only [List.mem_cons] at hy
        rcases hy with rfl | rfl | hy
        · exact hbx
        · omega
        · exact hA y (by simp [hy])

theorem knownPairs_split : ∀ (ls : List LangItem) (A : List (LangItem × Bytes)) (x : LangItem × Bytes)
    (B : List (LangItem × Bytes)), knownPairs ls = A ++ x :: B →
    ∃ pre post, ls = pre ++ x.1 :: post ∧ knownLang x.1 = some x.2 ∧ knownPairs pre = A ∧ knownPairs post = B
  | [], A, x, B, h => by simp [knownPairs] at h
  | i :: ls, A, x, B, h => by
    unfold knownPairs at h
    simp only [List.filterMap_cons] at h
    cases hk : knownLang i with
    | none =>
      simp only [hk, Option.map_none] at h
      obtain ⟨pre, post, h1, h2, h3, h4⟩ := knownPairs_split ls A x B h
      refine ⟨i :: pre, post, by rw [h1]; simp, h2, ?_, h4⟩
      unfold knownPairs at h3 ⊢
      simp [List.filterMap_cons, hk, h3]
    | some n =>
      simp only [hk, Option.map_some] at h
      cases A with
      | nil =>
        simp only [List.nil_append, List.cons.injEq] at h
        obtain ⟨rfl, h⟩ := h
        exact ⟨[], ls, rfl, hk, rfl, h⟩
      | cons a A' =>
        simp only [List.cons_append, List.cons.injEq] at h
        obtain ⟨rfl, h⟩ := h
        obtain ⟨pre, post, h1, h2, h3, h4⟩ := knownPairs_split ls A' x B h
        refine ⟨i :: pre, post, by rw [h1]; simp, h2, ?_, h4⟩
        unfold knownPairs at h3 ⊢
        simp [List.filterMap_cons, hk, h3]

theorem mem_knownPairs_of (ls : List LangItem) (j : LangItem) (hj : j ∈ ls) (hk : (knownLang j).isSome) :
    ∃ n, (j, n) ∈ knownPairs ls := by
  cases hn : knownLang j with
  | none => simp [hn] at hk
  | some n =>
    refine ⟨n, ?_⟩
    unfold knownPairs
    rw [List.mem_filterMap]
    exact ⟨j, hj, by simp [hn]⟩

/-- the executable selection satisfies the declarative specification -/
theorem preferredLang_spec (ls : List LangItem) :
    (∀ name, preferredLang ls = some name → Preferred ls name) ∧
    (preferredLang ls = none → NoPreferred ls) := by
  have e : preferredLang ls = match knownPairs ls with
      | [] => none
      | b :: K => some (K.foldl better b).2 := by
    unfold preferredLang
    rw [filterMap_spec]
    cases hk : knownPairs ls with
    | nil => rfl
    | cons b K => simp only [List.map_cons]; rw [spec_fold K b]
  constructor
  · intro name hn
    rw [e] at hn
    cases hk : knownPairs ls with
    | nil => rw [hk] at hn; simp at hn
    | cons b K =>
      rw [hk] at hn
      simp only [Option.some.injEq] at hn
      obtain ⟨A, x, B, hs, hf, hA, hB⟩ := foldl_better_split K b
      rw [hf] at hn
      obtain ⟨pre, post, h1, h2, h3, h4⟩ := knownPairs_split ls A x B (by rw [hk, hs])
      refine ⟨pre, x.1, post, h1, by rw [h2, hn], ?_, ?_⟩
      · intro j hj hkj
        obtain ⟨n, hm⟩ := mem_knownPairs_of pre j hj hkj
        rw [h3] at hm
        exact hA _ hm
      · intro j hj hkj
        obtain ⟨n, hm⟩ := mem_knownPairs_of post j hj hkj
        rw [h4] at hm
        exact hB _ hm
  · intro hn
    rw [e] at hn
    cases hk : knownPairs ls with
    | cons b K => rw [hk] at hn; simp at hn
    | nil =>
      intro i hi
      cases hki : knownLang i with
      | none => rfl
      | some n =>
        obtain ⟨n', hm⟩ := mem_knownPairs_of ls i hi (by simp [hki])
        rw [hk] at hm; simp at hm

end Huginn.Http1
