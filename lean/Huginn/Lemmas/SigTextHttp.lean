import Huginn.Lemmas.SigText
/-
Helper lemmas for C06, HTTP side: `take_until`, the header parser, the two header lists.
-/
namespace Huginn.SigText
open Huginn.Sig Huginn.SigText.Spec
set_option linter.unusedSimpArgs false

theorem takeUntil_append {c : Char} {v : Str} (h : c ∉ v) (r : Str) :
    takeUntil c (v ++ c :: r) = some (v, c :: r) := by
  induction v with
  | nil => simp [takeUntil]
  | cons x v ih =>
    have hx : x ≠ c := fun e => h (by simp [e])
    have hv : c ∉ v := fun e => h (List.mem_cons_of_mem _ e)
    simp [takeUntil, hx, ih hv]

theorem nameChar_ne {c : Char} (h : nameChar c = true) : c ≠ ':' ∧ c ≠ '=' ∧ c ≠ '?' ∧ c ≠ ',' := by
  refine ⟨?_, ?_, ?_, ?_⟩ <;> (intro e; subst e; revert h; decide)

theorem isNameChar_of_nameChar {c : Char} (h : nameChar c = true) : isNameChar c = true := by
  have := nameChar_ne h
  simp only [nameChar] at h
  simp [isNameChar, h, this.1, this.2.1]

/-- the character after a printed header name ends the name -/
def NameEnd (r : Str) : Prop := ∀ c r', r = c :: r' → isNameChar c = false

theorem Delim.nameEnd {r : Str} (h : Delim r) : NameEnd r := by
  rcases h with rfl | ⟨r', rfl⟩ | ⟨r', rfl⟩
  · intro _ _ e; cases e
  · intro _ _ e; cases e; decide
  · intro _ _ e; cases e; decide

theorem many1_name_append {n r : Str} (hne : n ≠ []) (hn : ∀ c ∈ n, nameChar c = true) (hr : NameEnd r) :
    many1 isNameChar (n ++ r) = some (n, r) := by
  have hn' : ∀ c ∈ n, isNameChar c = true := fun c hc => isNameChar_of_nameChar (hn c hc)
  cases n with
  | nil => exact absurd rfl hne
  | cons c n' =>
    have hc := hn' c List.mem_cons_self
    have ht : ∀ x ∈ n', isNameChar x = true := fun x hx => hn' x (List.mem_cons_of_mem _ hx)
    simp only [many1, List.cons_append, hc, if_true, List.takeWhile_append_of_pos ht,
      List.dropWhile_append_of_pos ht]
    cases r with
    | nil => simp
    | cons x r' => simp [hr x r' rfl]

theorem bracketValue_delim {r : Str} (hr : Delim r) : bracketValue r = none := by
  simp [bracketValue, tag_delim_none (a := '=') ['['] (by decide) (by decide) hr]

/-- `=[v]` or nothing -/
def valuePart : Option Str → Str
  | some v => '=' :: '[' :: v ++ [']']
  | none => []

theorem printHeaderL_eq (h : HeaderL) :
    printHeaderL h = (if h.optional then ['?'] else []) ++ (h.name ++ valuePart h.value) := by
  obtain ⟨o, n, v⟩ := h
  cases v <;> simp [printHeaderL, valuePart]

theorem opt_bracketValue_valuePart (v : Option Str) (hv : ∀ x ∈ v, ']' ∉ x) {r : Str} (hr : Delim r) :
    opt bracketValue (valuePart v ++ r) = some (v, r) := by
  cases v with
  | none => simp [opt, valuePart, bracketValue_delim hr]
  | some x =>
    have := takeUntil_append (hv x rfl) r
    simp [opt, valuePart, bracketValue, tag_cons_cons_self, this]

theorem nameEnd_valuePart (v : Option Str) {r : Str} (hr : Delim r) : NameEnd (valuePart v ++ r) := by
  cases v with
  | none => simpa [valuePart] using hr.nameEnd
  | some x => intro c r' e; simp [valuePart] at e; rw [← e.1]; decide

theorem tag_question_none (n : Str) (hn : ∀ c ∈ n, nameChar c = true) (v : Option Str) {r : Str} (hr : Delim r) :
    tag ['?'] (n ++ (valuePart v ++ r)) = none := by
  cases n with
  | cons c n' =>
    exact tag_cons_ne _ _ (fun e => (nameChar_ne (hn c (List.mem_cons_self))).2.2.1 e.symm)
  | nil =>
    cases v with
    | some x => exact tag_cons_ne _ _ (by decide)
    | none => simpa [valuePart] using tag_delim_none (a := '?') [] (by decide) (by decide) hr

theorem parseHeaderL_print (h : HeaderL) (wf : WFHdrL h) (hne : h.name ≠ []) {r : Str} (hr : Delim r) :
    parseHeaderL (printHeaderL h ++ r) = some (h, r) := by
  rw [printHeaderL_eq]
  obtain ⟨o, n, v⟩ := h
  obtain ⟨hn, hv⟩ := wf
  simp only at hn hv
  have hname := many1_name_append hne hn (nameEnd_valuePart v hr)
  have hval := opt_bracketValue_valuePart v hv hr
  cases o with
  | true =>
    have h1 : opt (tag ['?']) ('?' :: (n ++ (valuePart v ++ r))) = some (some (), n ++ (valuePart v ++ r)) := by
      simp [opt]
    simp only [if_true, List.cons_append, List.nil_append, List.append_assoc, parseHeaderL]
    rw [h1]
    simp only [hname, hval]
    simp
  | false =>
    have h1 : opt (tag ['?']) (n ++ (valuePart v ++ r)) = some (none, n ++ (valuePart v ++ r)) := by
      simp [opt, tag_question_none n hn v hr]
    simp only [Bool.false_eq_true, if_false, List.nil_append, List.append_assoc, parseHeaderL]
    rw [h1]
    simp only [hname, hval]
    simp

/-- a header needs a name: on `:…` / `,…` / the empty text the header parser fails -/
theorem parseHeaderL_delim {r : Str} (hr : Delim r) : parseHeaderL r = none := by
  have h1 : opt (tag ['?']) r = some (none, r) := by
    simp [opt, tag_delim_none (a := '?') [] (by decide) (by decide) hr]
  have h2 : many1 isNameChar r = none := by
    rcases hr with rfl | ⟨r', rfl⟩ | ⟨r', rfl⟩
    · rfl
    · simp [many1, isNameChar]
    · simp [many1, isNameChar]
  simp [parseHeaderL, h1, h2]

end Huginn.SigText

namespace Huginn.SigText
open Huginn.Sig Huginn.SigText.Spec
set_option linter.unusedSimpArgs false

theorem headers_parse (hs : List HeaderL) (wf : ∀ h ∈ hs, WFHdrL h ∧ h.name ≠ []) (r : Str) :
    sepList0 comma parseHeaderL (joinComma printHeaderL hs ++ ':' :: r) = some (hs, ':' :: r) :=
  sepList0_joinComma parseHeaderL printHeaderL hs (Or.inr ⟨r, rfl⟩)
    (fun h hh r' hr' => parseHeaderL_print h (wf h hh).1 (wf h hh).2 hr')
    (fun _ => parseHeaderL_delim (Delim.colon r))

/-- print → parse for HTTP signatures: every value over the vocabulary, both lists possibly empty -/
theorem parseHttpSigFullL_print (s : HttpSigL) (wf : WFHttpL s) :
    parseHttpSigFullL (printHttpSigL s) = some s := by
  obtain ⟨ver, horder, habsent, expsw⟩ := s
  obtain ⟨hv, hh, ha⟩ := wf
  simp only at hv hh ha
  have e : printHttpSigL ⟨ver, horder, habsent, expsw⟩ =
      printHttpVersion ver ++ (':' :: (joinComma printHeaderL horder ++
        (':' :: (joinComma printHeaderL habsent ++ (':' :: expsw))))) := by
    simp [printHttpSigL]
  have h2 : ∀ r, opt (sepList0 comma parseHeaderL) (joinComma printHeaderL habsent ++ ':' :: r) =
      some (some habsent, ':' :: r) := fun r => by simp [opt, headers_parse habsent ha r]
  have h3 : habsent.filter (fun h => !h.name.isEmpty) = habsent := by
    rw [List.filter_eq_self]
    intro h hm
    have := (ha h hm).2
    cases hn : h.name with
    | nil => exact absurd hn this
    | cons c n => simp
  unfold parseHttpSigFullL full parseHttpSigL parseHttpSigRawL
  rw [e]
  simp only [parseHttpVersion_print ver hv, colon_cons, Option.bind_eq_bind, Option.bind_some,
    headers_parse horder hh, h2, rest, Option.pure_def, Option.getD_some, filterHabsent, h3]

end Huginn.SigText
