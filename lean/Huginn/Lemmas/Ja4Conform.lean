import Huginn.Lemmas.Ja4Extract
/-
Component lemmas for `ja4_conforms_partial`: each reported component of the model, on the
signature extracted from a well-formed hello, equals the specification's component — outside
the known-finding classes and where the specification is defined.
-/
namespace Huginn.Lemmas.Ja4Conform
open Huginn.Tls Huginn.Tls.Spec Huginn.Gen.Tls
open Huginn.Lemmas.TlsWire Huginn.Lemmas.Ja4Text Huginn.Lemmas.Ja4Extract

/-! ### membership from `findSome?` -/

theorem mem_of_findSome {β} (p : Ext → Option β) (l : List Ext) (b : β) (h : l.findSome? p = some b) :
    ∃ x ∈ l, p x = some b := by
  induction l with
  | nil => simp at h
  | cons x t ih =>
    rw [List.findSome?_cons] at h
    cases hp : p x with
    | some c =>
      rw [hp] at h
      simp only [Option.some.injEq] at h
      exact ⟨x, by simp, by rw [hp, h]⟩
    | none =>
      rw [hp] at h
      obtain ⟨y, hy, hpy⟩ := ih h
      exact ⟨y, by simp [hy], hpy⟩

theorem pSni_some (x : Ext) (ns) (h : pSni x = some ns) : x = .serverName ns := by
  cases x <;> simp_all [pSni]
theorem pAlpn_some (x : Ext) (ps) (h : pAlpn x = some ps) : x = .alpn ps := by
  cases x <;> simp_all [pAlpn]
theorem pSv_some (x : Ext) (vs) (h : pSv x = some vs) : x = .supportedVersions vs := by
  cases x <;> simp_all [pSv]
theorem pSig_some (x : Ext) (vs) (h : pSig x = some vs) : x = .signatureAlgorithms vs := by
  cases x <;> simp_all [pSig]

/-! ### lists -/

theorem ciphers_eq (ch : ClientHello) : filterGrease ch.ciphers = cipherList ch :=
  filterGrease_eq_noGrease _

/-- the extraction keeps exactly the non-GREASE types (RFC 8701's sixteen values), in wire order -/
theorem extensions_eq (ch : ClientHello) : (accSpec ch.exts).extensions = extList ch := by
  unfold accSpec extList noGrease
  simp only
  congr 1
  funext t
  rw [isGrease_eq]

theorem sigAlgs_eq (ch : ClientHello) : (accSpec ch.exts).sigAlgs = sigAlgsOf ch.exts := by
  simp [accSpec, sigAlgsOf_eq]
theorem groups_eq (ch : ClientHello) : (accSpec ch.exts).curves = groupsOf ch.exts := by
  simp [accSpec, groupsOf_eq]

/-! ### SNI -/

theorem sni_eq (bodyOk : Nat → Bytes → Bool) (ch : ClientHello) (hwf : ∀ x ∈ ch.exts, x.WF bodyOk) :
    (accSpec ch.exts).sni = sniField ch := by
  unfold accSpec sniField
  simp only [serverNameOf_eq]
  cases h : ch.exts.findSome? pSni with
  | none => rfl
  | some ns =>
    obtain ⟨x, hx, hp⟩ := mem_of_findSome pSni _ _ h
    have := pSni_some x ns hp
    subst this
    have hw := hwf _ hx
    cases ns with
    | nil => exact absurd hw.2.2 (by simp)
    | cons n t =>
      obtain ⟨a, hst⟩ := n
      have hv : validUtf8 hst = true := hw.2.2
      simp [utf8?, hv]

theorem type0_iff (bodyOk : Nat → Bytes → Bool) (x : Ext) (hw : x.WF bodyOk) :
    x.type = 0 ↔ ∃ ns, x = .serverName ns := by
  cases x with
  | serverName ns => simp [Ext.type]
  | other t b =>
    have : t ∉ decodedTypes := hw.2.1
    simp [decodedTypes] at this
    simp [Ext.type]; omega
  | _ => simp [Ext.type]

theorem sniFlag_eq (bodyOk : Nat → Bytes → Bool) (ch : ClientHello) (hwf : ∀ x ∈ ch.exts, x.WF bodyOk) :
    (if (accSpec ch.exts).sni.isSome then ['d'] else ['i']) = sniFlag ch := by
  rw [sni_eq bodyOk ch hwf]
  unfold sniFlag sniField
  simp only [serverNameOf_eq]
  cases h : ch.exts.findSome? pSni with
  | none =>
    have hnone := List.findSome?_eq_none_iff.mp h
    have : ch.exts.any (fun x => decide (x.type = 0)) = false := by
      rw [List.any_eq_false]
      intro x hx
      have := hnone x hx
      simp only [decide_eq_true_eq]
      intro h0
      obtain ⟨ns, rfl⟩ := (type0_iff bodyOk x (hwf x hx)).mp h0
      simp [pSni] at this
    simp [this]
  | some ns =>
    obtain ⟨x, hx, hp⟩ := mem_of_findSome pSni _ _ h
    have := pSni_some x ns hp
    subst this
    have hw := hwf _ hx
    have hany : ch.exts.any (fun x => decide (x.type = 0)) = true := by
      rw [List.any_eq_true]
      exact ⟨_, hx, by simp [Ext.type]⟩
    cases ns with
    | nil => exact absurd hw.2.2 (by simp)
    | cons n t => simp [hany]

/-! ### ALPN -/

theorem isAlnum_lt (b : UInt8) (h : isAlnum b = true) : b.toNat < 0x80 := by
  simp only [isAlnum, Bool.or_eq_true, Bool.and_eq_true, decide_eq_true_eq] at h
  omega

theorem not_isCont_of_lt (b : UInt8) (h : b.toNat < 0x80) : isCont b = false := by
  simp only [isCont, Bool.and_eq_false_iff, decide_eq_false_iff_not]
  left; omega

theorem asciiOr9_of_lt (b : UInt8) (h : b.toNat < 0x80) : asciiOr9 b = Char.ofNat b.toNat := by
  simp [asciiOr9, h]

theorem alpn_eq (ch : ClientHello) (hkf : ¬ KF.C04.alpnNotUtf8 ch) (hdef : alpnChars ch ≠ none) :
    (accSpec ch.exts).alpn = alpnField ch := by
  have hkf' : ∀ p, alpnField ch = some p → validUtf8 p = true := by
    intro p hp
    cases hv : validUtf8 p with
    | true => rfl
    | false => exact absurd ⟨p, hp, hdef, hv⟩ hkf
  unfold accSpec
  simp only
  unfold alpnField at hkf' ⊢
  simp only [alpnOf_eq] at hkf' ⊢
  cases h : ch.exts.findSome? pAlpn with
  | none => rfl
  | some ps =>
    cases ps with
    | nil => rfl
    | cons p t =>
      have := hkf' p (by simp [h])
      simp [utf8?, this]

theorem alpnChars_eq (ch : ClientHello) (hkf : ¬ KF.C04.alpnNotUtf8 ch) (f l : Char)
    (hdef : alpnChars ch = some (f, l)) :
    alpnPair (accSpec ch.exts).alpn = (f, l) := by
  rw [alpn_eq ch hkf (by rw [hdef]; simp)]
  unfold alpnPair
  unfold alpnChars at hdef
  unfold alpnField
  cases h : alpnOf ch.exts with
  | none =>
    rw [h] at hdef
    simp only [Option.some.injEq] at hdef
    simp [hdef]
  | some ps =>
    rw [h] at hdef
    cases ps with
    | nil => simp at hdef
    | cons p t =>
      simp only at hdef ⊢
      cases p with
      | nil => simp at hdef
      | cons b0 rest =>
        simp only [List.head?_cons] at hdef
        cases hl : (b0 :: rest).getLast? with
        | none => simp at hl
        | some lb =>
          rw [hl] at hdef
          simp only at hdef
          split at hdef
          · rename_i hc
            obtain ⟨hlen, hf, hlst⟩ := hc
            simp only [Option.some.injEq, Prod.mk.injEq] at hdef
            obtain ⟨rfl, rfl⟩ := hdef
            have hb0 := isAlnum_lt b0 hf
            have hlb := isAlnum_lt lb hlst
            have hrest : rest ≠ [] := by
              intro e; subst e; simp at hlen
            have hlast : rest.getLast? = some lb := by
              cases rest with
              | nil => exact absurd rfl hrest
              | cons r1 rs => rw [List.getLast?_cons_cons] at hl; exact hl
            have hmem : lb ∈ rest := List.mem_of_getLast? hlast
            have hcnt : 2 ≤ ((b0 :: rest).filter (fun b => !isCont b)).length := by
              rw [List.filter_cons]
              simp only [not_isCont_of_lt b0 hb0, Bool.not_false, if_true, List.length_cons]
              have : 0 < (rest.filter (fun b => !isCont b)).length := by
                apply List.length_pos_of_mem (a := lb)
                rw [List.mem_filter]
                exact ⟨hmem, by simp [not_isCont_of_lt lb hlb]⟩
              omega
            have hgl : (b0 :: rest).getLastD 0 = lb := by
              rw [List.getLastD_eq_getLast?, hl]; rfl
            unfold firstLastAlpn
            simp only [hgl]
            have : ¬ ((b0 :: rest).filter (fun b => !isCont b)).length ≤ 1 := by omega
            simp only [this, if_false, asciiOr9_of_lt b0 hb0, asciiOr9_of_lt lb hlb]
          · simp at hdef

/-! ### version -/

theorem sv_eq (ch : ClientHello) : (accSpec ch.exts).supportedVersions = supportedVersionsOf ch.exts := by
  simp [accSpec, supportedVersionsOf_eq]

theorem sv_not_mem (bodyOk : Nat → Bytes → Bool) (ch : ClientHello) (hwf : ∀ x ∈ ch.exts, x.WF bodyOk)
    (h : supportedVersionsOf ch.exts = none) : (accSpec ch.exts).extensions.contains 43 = false := by
  rw [supportedVersionsOf_eq] at h
  have hnone := List.findSome?_eq_none_iff.mp h
  cases hc : (accSpec ch.exts).extensions.contains 43 with
  | false => rfl
  | true =>
    simp only [accSpec, List.contains_eq_mem, List.mem_filter, List.mem_map, decide_eq_true_eq] at hc
    obtain ⟨⟨x, hx, hxt⟩, _⟩ := hc
    have hw := hwf x hx
    have hn := hnone x hx
    cases x with
    | supportedVersions vs => simp [pSv] at hn
    | other t b =>
      have : t ∉ decodedTypes := hw.2.1
      simp [decodedTypes] at this
      simp [Ext.type] at hxt
      omega
    | _ => simp [Ext.type] at hxt

/-- name of the `TlsVersion` variant the specification demands for a version number -/
def fieldName (v : Nat) : String :=
  if v = 0x0304 then "V1_3" else if v = 0x0303 then "V1_2" else if v = 0x0302 then "V1_1"
  else if v = 0x0301 then "V1_0" else if v = 0x0300 then "Ssl3_0" else if v = 0x0002 then "Ssl2_0"
  else "Unknown"

/-- `determine_tls_version` without the supported_versions shortcut is the specification's table, for
every version number: SSL3.0..TLS1.3, SSL2.0, and `Unknown` (rendered `00`) for everything else. -/
theorem legacy_table (exts : List Nat) (hc : exts.contains 43 = false) (v : Nat) :
    (determineVersion v exts).render = versionCode v ∧ (determineVersion v exts).name = fieldName v := by
  have e : extIdOfName svExtName = 43 := by decide
  unfold determineVersion
  rw [e, hc]
  simp only [Bool.false_eq_true, if_false]
  by_cases h0 : v = 0x0300; · subst h0; decide
  by_cases h1 : v = 0x0301; · subst h1; decide
  by_cases h2 : v = 0x0302; · subst h2; decide
  by_cases h3 : v = 0x0303; · subst h3; decide
  by_cases h4 : v = 0x0304; · subst h4; decide
  by_cases h5 : v = 0x0002; · subst h5; decide
  have hl : legacyArms.lookup (legacyName v) = none := by
    unfold legacyName
    simp only [h0, h1, h2, h3, h4, if_false]
    repeat' split
    all_goals decide
  have hcode : legacyCodeArms.lookup v = none := by
    have : legacyCodeArms = [(2, "Ssl2_0")] := rfl
    rw [this]
    have hb : (v == 2) = false := by simp [h5]
    simp only [List.lookup, hb]
  have hd : legacyDefaultCarriesCode = true := rfl
  rw [hl, hcode]
  simp only [hd, if_true]
  constructor
  · simp only [versionCode, h0, h1, h2, h3, h4, h5, if_false]
    show ((versionDisplay.lookup "Unknown").getD "??").toList = ['0', '0']
    decide
  · simp only [fieldName, h0, h1, h2, h3, h4, h5, if_false]; rfl

theorem maxList_eq (l : List Nat) (h : l ≠ []) : maxList l = some (maxOf l) := by
  cases l with
  | nil => exact absurd rfl h
  | cons x r => simp [maxList, maxOf, List.foldl_cons]

theorem version_eq (bodyOk : Nat → Bytes → Bool) (ch : ClientHello) (hwf : ∀ x ∈ ch.exts, x.WF bodyOk)
    (vn : Nat) (hv : versionNumber ch = some vn) :
    (versionOf ch.legacyVersion (accSpec ch.exts)).render = versionCode vn ∧
    some (versionOf ch.legacyVersion (accSpec ch.exts)).name = versionField ch := by
  have hvf : versionField ch = some (fieldName vn) := by
    unfold versionField; rw [hv]; rfl
  rw [hvf]
  unfold versionOf
  rw [sv_eq]
  unfold versionNumber at hv
  cases hsv : supportedVersionsOf ch.exts with
  | some vs =>
    rw [hsv] at hv
    simp only at hv
    split at hv
    · cases hv
    · rename_i hne
      split at hv
      · cases hv
      · simp only [Option.some.injEq] at hv
        have hng : noGrease vs ≠ [] := by
          intro e; rw [e] at hne; simp at hne
        simp only [Option.bind_some, filterGrease_eq_noGrease, maxList_eq _ hng, hv]
        obtain ⟨a, b⟩ := legacy_table [] (by decide) vn
        exact ⟨a, by rw [b]⟩
  | none =>
    rw [hsv] at hv
    simp only at hv
    split at hv
    · cases hv
    · simp only [Option.some.injEq] at hv
      subst hv
      simp only [Option.bind_none]
      obtain ⟨a, b⟩ := legacy_table _ (sv_not_mem bodyOk ch hwf hsv) ch.legacyVersion
      exact ⟨a, by rw [b]⟩

/-! ### parts b and c, hashes -/

theorem dropIds_eq : (fun e : Nat => !sortedDropIds.contains e) = (fun t => decide (t ≠ 0 ∧ t ≠ 16)) := by
  funext e
  have : sortedDropIds = [0, 16] := rfl
  rw [this]
  by_cases h0 : e = 0
  · subst h0; decide
  · by_cases h16 : e = 16
    · subst h16; decide
    · simp [h0, h16]

theorem partB_eq (l : List Nat) (original : Bool) (ch : ClientHello) (hl : l = cipherList ch) :
    hexList (if original then l else sortNat l) = partB (!original) ch := by
  subst hl
  unfold partB ciphersFor
  rw [hexList_eq_commaHex]
  cases original <;> simp [sortNat_eq_sortAsc]

theorem extsFor_eq (l : List Nat) (original : Bool) (ch : ClientHello) (hl : l = extList ch) :
    (if original then l else sortNat (l.filter (fun e => !sortedDropIds.contains e))) = extsFor (!original) ch := by
  subst hl
  unfold extsFor
  cases original
  · simp only [Bool.false_eq_true, if_false, Bool.not_false, if_true, sortNat_eq_sortAsc, dropIds_eq]
  · simp

/-- signature algorithms come in an extension of their own, so the extension part is not empty when
they are there -/
theorem exts_ne_of_sig (ch : ClientHello) (sorted : Bool) (h : sigList ch ≠ []) : extsFor sorted ch ≠ [] := by
  have hs : sigAlgsOf ch.exts ≠ [] := by
    intro e; apply h; unfold sigList; rw [e]; rfl
  rw [sigAlgsOf_eq] at hs
  cases hf : ch.exts.findSome? pSig with
  | none => rw [hf] at hs; simp at hs
  | some xs =>
    obtain ⟨x, hx, hp⟩ := mem_of_findSome pSig _ _ hf
    have := pSig_some x xs hp
    subst this
    have h13 : 13 ∈ extList ch := by
      unfold extList noGrease
      rw [List.mem_filter]
      exact ⟨List.mem_map.mpr ⟨_, hx, rfl⟩, by decide⟩
    unfold extsFor
    cases sorted
    · simp only [Bool.false_eq_true, if_false]
      intro e; rw [e] at h13; simp at h13
    · simp only [if_true]
      have hm : 13 ∈ (extList ch).filter (fun t => decide (t ≠ 0 ∧ t ≠ 16)) := by
        rw [List.mem_filter]; exact ⟨h13, by decide⟩
      have := (sortAsc_perm _).symm.subset hm
      intro e; rw [e] at this; simp at this

theorem partC_eq (es : List Nat) (fs : List Nat) (sorted : Bool) (ch : ClientHello)
    (he : es = extsFor sorted ch) (hs : fs = sigList ch) :
    (if (hexList fs).isEmpty then hexList es else if (hexList es).isEmpty then hexList fs
     else hexList es ++ ['_'] ++ hexList fs) = partC sorted ch := by
  subst he hs
  unfold partC
  simp only [hexList_eq_commaHex, commaHex_isEmpty]
  cases hsg : (sigList ch).isEmpty with
  | true => simp
  | false =>
    have hne : sigList ch ≠ [] := by intro e; rw [e] at hsg; simp at hsg
    have := exts_ne_of_sig ch sorted hne
    have : (extsFor sorted ch).isEmpty = false := by
      cases h : extsFor sorted ch with
      | nil => exact absurd h this
      | cons _ _ => rfl
    simp only [this, Bool.false_eq_true, if_false]

theorem emptyListHash_eq : emptyListHash.toList = zeros12 := by decide

theorem hashB_eq (sha : Bytes → Bytes) (sorted : Bool) (ch : ClientHello) :
    (if (ciphersFor sorted ch).isEmpty then emptyListHash.toList else hash12 sha (partB sorted ch))
      = hashB sha sorted ch := by
  unfold hashB
  rw [emptyListHash_eq, hash12_eq_trunc12]

theorem hashC_eq (sha : Bytes → Bytes) (sorted : Bool) (ch : ClientHello) :
    (if (extsFor sorted ch).isEmpty then emptyListHash.toList else hash12 sha (partC sorted ch))
      = hashC sha sorted ch := by
  unfold hashC
  rw [emptyListHash_eq, hash12_eq_trunc12]

end Huginn.Lemmas.Ja4Conform
