import Huginn.Lemmas.Ja4Extract
/-
Component lemmas for `ja4_conforms_partial`: each reported component of the model, on the
signature extracted from a well-formed hello, equals the specification's component — outside
the known-finding classes and where the specification is defined.
-/
namespace Huginn.Lemmas.Ja4Conform
open Huginn.Tls Huginn.Tls.Spec Huginn.Gen.Tls
open Huginn.Lemmas.TlsWire Huginn.Lemmas.Ja4Text Huginn.Lemmas.Ja4Extract

/-! ### membership from `findSome?` -/

theorem mem_of_findSome {β} (p : Ext → Option β) (l : List Ext) (b : β) (h : l.findSome? p = some b) :
    ∃ x ∈ l, p x = some b := by
  induction l with
  | nil => simp at h
  | cons x t ih =>
    rw [List.findSome?_cons] at h
    cases hp : p x with
    | some c =>
      rw [hp] at h
      simp only [Option.some.injEq] at h
      exact ⟨x, by simp, by rw [hp, h]⟩
    | none =>
      rw [hp] at h
      obtain ⟨y, hy, hpy⟩ := ih h
      exact ⟨y, by simp [hy], hpy⟩

theorem pSni_some (x : Ext) (ns) (h : pSni x = some ns) : x = .serverName ns := by
  cases x <;> simp_all [pSni]
theorem pAlpn_some (x : Ext) (ps) (h : pAlpn x = some ps) : x = .alpn ps := by
  cases x <;> simp_all [pAlpn]
theorem pSv_some (x : Ext) (vs) (h : pSv x = some vs) : x = .supportedVersions vs := by
  cases x <;> simp_all [pSv]
theorem pSig_some (x : Ext) (vs) (h : pSig x = some vs) : x = .signatureAlgorithms vs := by
  cases x <;> simp_all [pSig]

/-! ### lists -/

theorem ciphers_eq (ch : ClientHello) : filterGrease ch.ciphers = cipherList ch :=
  filterGrease_eq_noGrease _

/-- outside `KF.C04.greaseLikeExtension`, tls-parser's mask test and RFC 8701 agree on the hello's types -/
theorem extensions_eq (ch : ClientHello) (hkf : ¬ KF.C04.greaseLikeExtension ch) :
    (accSpec ch.exts).extensions = extList ch := by
  unfold accSpec extList noGrease
  simp only
  apply List.filter_congr
  intro t ht
  obtain ⟨x, hx, rfl⟩ := List.mem_map.mp ht
  by_cases hg : greaseLike x.type = true
  · have : IsGrease x.type := by
      apply Classical.byContradiction
      intro hn
      exact hkf ⟨x, hx, hg, hn⟩
    simp [hg, this]
  · have hg' : greaseLike x.type = false := by simpa using hg
    have : ¬ IsGrease x.type := fun h => by
      rw [greaseLike_of_isGrease _ h] at hg'; cases hg'
    simp [hg', this]

theorem sigAlgs_eq (ch : ClientHello) : (accSpec ch.exts).sigAlgs = sigAlgsOf ch.exts := by
  simp [accSpec, sigAlgsOf_eq]
theorem groups_eq (ch : ClientHello) : (accSpec ch.exts).curves = groupsOf ch.exts := by
  simp [accSpec, groupsOf_eq]

/-! ### SNI -/

theorem sni_eq (bodyOk : Nat → Bytes → Bool) (ch : ClientHello) (hwf : ∀ x ∈ ch.exts, x.WF bodyOk) :
    (accSpec ch.exts).sni = sniField ch := by
  unfold accSpec sniField
  simp only [serverNameOf_eq]
  cases h : ch.exts.findSome? pSni with
  | none => rfl
  | some ns =>
    obtain ⟨x, hx, hp⟩ := mem_of_findSome pSni _ _ h
    have := pSni_some x ns hp
    subst this
    have hw := hwf _ hx
    cases ns with
    | nil => exact absurd hw.2.2 (by simp)
    | cons n t =>
      obtain ⟨a, hst⟩ := n
      have hv : validUtf8 hst = true := hw.2.2
      simp [utf8?, hv]

theorem type0_iff (bodyOk : Nat → Bytes → Bool) (x : Ext) (hw : x.WF bodyOk) :
    x.type = 0 ↔ ∃ ns, x = .serverName ns := by
  cases x with
  | serverName ns => simp [Ext.type]
  | other t b =>
    have : t ∉ decodedTypes := hw.2.1
    simp [decodedTypes] at this
    simp [Ext.type]; omega
  | _ => simp [Ext.type]

theorem sniFlag_eq (bodyOk : Nat → Bytes → Bool) (ch : ClientHello) (hwf : ∀ x ∈ ch.exts, x.WF bodyOk) :
    (if (accSpec ch.exts).sni.isSome then ['d'] else ['i']) = sniFlag ch := by
  rw [sni_eq bodyOk ch hwf]
  unfold sniFlag sniField
  simp only [serverNameOf_eq]
  cases h : ch.exts.findSome? pSni with
  | none =>
    have hnone := List.findSome?_eq_none_iff.mp h
    have : ch.exts.any (fun x => decide (x.type = 0)) = false := by
      rw [List.any_eq_false]
      intro x hx
      have := hnone x hx
      simp only [decide_eq_true_eq]
      intro h0
      obtain ⟨ns, rfl⟩ := (type0_iff bodyOk x (hwf x hx)).mp h0
      simp [pSni] at this
    simp [this]
  | some ns =>
    obtain ⟨x, hx, hp⟩ := mem_of_findSome pSni _ _ h
    have := pSni_some x ns hp
    subst this
    have hw := hwf _ hx
    have hany : ch.exts.any (fun x => decide (x.type = 0)) = true := by
      rw [List.any_eq_true]
      exact ⟨_, hx, by simp [Ext.type]⟩
    cases ns with
    | nil => exact absurd hw.2.2 (by simp)
    | cons n t => simp [hany]

/-! ### ALPN -/

theorem isAlnum_lt (b : UInt8) (h : isAlnum b = true) : b.toNat < 0x80 := by
  simp only [isAlnum, Bool.or_eq_true, Bool.and_eq_true, decide_eq_true_eq] at h
  omega

theorem not_isCont_of_lt (b : UInt8) (h : b.toNat < 0x80) : isCont b = false := by
  simp only [isCont, Bool.and_eq_false_iff, decide_eq_false_iff_not]
  left; omega

theorem asciiOr9_of_lt (b : UInt8) (h : b.toNat < 0x80) : asciiOr9 b = Char.ofNat b.toNat := by
  simp [asciiOr9, h]

theorem alpn_eq (ch : ClientHello) (hkf : ¬ KF.C04.alpnNotUtf8 ch) (hdef : alpnChars ch ≠ none) :
    (accSpec ch.exts).alpn = alpnField ch := by
  have hkf' : ∀ p, alpnField ch = some p → validUtf8 p = true := by
    intro p hp
    cases hv : validUtf8 p with
    | true => rfl
    | false => exact absurd ⟨p, hp, hdef, hv⟩ hkf
  unfold accSpec
  simp only
  unfold alpnField at hkf' ⊢
  simp only [alpnOf_eq] at hkf' ⊢
  cases h : ch.exts.findSome? pAlpn with
  | none => rfl
  | some ps =>
    cases ps with
    | nil => rfl
    | cons p t =>
      have := hkf' p (by simp [h])
      simp [utf8?, this]

theorem alpnChars_eq (ch : ClientHello) (hkf : ¬ KF.C04.alpnNotUtf8 ch) (f l : Char)
    (hdef : alpnChars ch = some (f, l)) :
    alpnPair (accSpec ch.exts).alpn = (f, l) := by
  rw [alpn_eq ch hkf (by rw [hdef]; simp)]
  unfold alpnPair
  unfold alpnChars at hdef
  unfold alpnField
  cases h : alpnOf ch.exts with
  | none =>
    rw [h] at hdef
    simp only [Option.some.injEq] at hdef
    simp [hdef]
  | some ps =>
    rw [h] at hdef
    cases ps with
    | nil => simp at hdef
    | cons p t =>
      simp only at hdef ⊢
      cases p with
      | nil => simp at hdef
      | cons b0 rest =>
        simp only [List.head?_cons] at hdef
        cases hl : (b0 :: rest).getLast? with
        | none => simp at hl
        | some lb =>
          rw [hl] at hdef
          simp only at hdef
          split at hdef
          · rename_i hc
            obtain ⟨hlen, hf, hlst⟩ := hc
            simp only [Option.some.injEq, Prod.mk.injEq] at hdef
            obtain ⟨rfl, rfl⟩ := hdef
            have hb0 := isAlnum_lt b0 hf
            have hlb := isAlnum_lt lb hlst
            have hrest : rest ≠ [] := by
              intro e; subst e; simp at hlen
            have hlast : rest.getLast? = some lb := by
              cases rest with
              | nil => exact absurd rfl hrest
              | cons r1 rs => rw [List.getLast?_cons_cons] at hl; exact hl
            have hmem : lb ∈ rest := List.mem_of_getLast? hlast
            have hcnt : 2 ≤ ((b0 :: rest).filter (fun b => !isCont b)).length := by
              rw [List.filter_cons]
              simp only [not_isCont_of_lt b0 hb0, Bool.not_false, if_true, List.length_cons]
              have : 0 < (rest.filter (fun b => !isCont b)).length := by
                apply List.length_pos_of_mem (a := lb)
                rw [List.mem_filter]
                exact ⟨hmem, by simp [not_isCont_of_lt lb hlb]⟩
              omega
            have hgl : (b0 :: rest).getLastD 0 = lb := by
              rw [List.getLastD_eq_getLast?, hl]; rfl
            unfold firstLastAlpn
            simp only [hgl]
            have : ¬ ((b0 :: rest).filter (fun b => !isCont b)).length ≤ 1 := by omega
            simp only [this, if_false, asciiOr9_of_lt b0 hb0, asciiOr9_of_lt lb hlb]
          · simp at hdef

/-! ### version -/

theorem sv_mem (ch : ClientHello) (vs : List Nat) (h : supportedVersionsOf ch.exts = some vs) :
    (accSpec ch.exts).extensions.contains 43 = true := by
  rw [supportedVersionsOf_eq] at h
  obtain ⟨x, hx, hp⟩ := mem_of_findSome pSv _ _ h
  have := pSv_some x vs hp
  subst this
  simp only [accSpec, List.contains_eq_mem, List.mem_filter, List.mem_map, decide_eq_true_eq]
  exact ⟨⟨_, hx, rfl⟩, by decide⟩

theorem sv_not_mem (bodyOk : Nat → Bytes → Bool) (ch : ClientHello) (hwf : ∀ x ∈ ch.exts, x.WF bodyOk)
    (h : supportedVersionsOf ch.exts = none) : (accSpec ch.exts).extensions.contains 43 = false := by
  rw [supportedVersionsOf_eq] at h
  have hnone := List.findSome?_eq_none_iff.mp h
  cases hc : (accSpec ch.exts).extensions.contains 43 with
  | false => rfl
  | true =>
    simp only [accSpec, List.contains_eq_mem, List.mem_filter, List.mem_map, decide_eq_true_eq] at hc
    obtain ⟨⟨x, hx, hxt⟩, _⟩ := hc
    have hw := hwf x hx
    have hn := hnone x hx
    cases x with
    | supportedVersions vs => simp [pSv] at hn
    | other t b =>
      have : t ∉ decodedTypes := hw.2.1
      simp [decodedTypes] at this
      simp [Ext.type] at hxt
      omega
    | _ => simp [Ext.type] at hxt

theorem legacy_cases (exts : List Nat) (hc : exts.contains 43 = false) :
    ∀ v, 0x0300 ≤ v → v ≤ 0x0304 →
      (determineVersion v exts).render = versionCode v ∧
      (determineVersion v exts).name =
        (if v = 0x0304 then "V1_3" else if v = 0x0303 then "V1_2" else if v = 0x0302 then "V1_1"
         else if v = 0x0301 then "V1_0" else if v = 0x0300 then "Ssl3_0" else if v = 0x0002 then "Ssl2_0"
         else "Unknown") := by
  intro v h1 h2
  have e : extIdOfName svExtName = 43 := by decide
  unfold determineVersion
  rw [e, hc]
  simp only [Bool.false_eq_true, if_false]
  have : v = 0x0300 ∨ v = 0x0301 ∨ v = 0x0302 ∨ v = 0x0303 ∨ v = 0x0304 := by omega
  rcases this with rfl | rfl | rfl | rfl | rfl <;> decide

theorem version_eq (bodyOk : Nat → Bytes → Bool) (ch : ClientHello) (hwf : ∀ x ∈ ch.exts, x.WF bodyOk)
    (hk1 : ¬ KF.C04.supportedVersionsNot13 ch) (hk2 : ¬ KF.C04.unknownLegacyVersion ch)
    (vn : Nat) (hv : versionNumber ch = some vn) :
    (determineVersion ch.legacyVersion (accSpec ch.exts).extensions).render = versionCode vn ∧
    some (determineVersion ch.legacyVersion (accSpec ch.exts).extensions).name = versionField ch := by
  unfold versionField
  rw [hv]
  cases hsv : supportedVersionsOf ch.exts with
  | some vs =>
    have hc := sv_mem ch vs hsv
    have hvn : vn = 0x0304 := by
      apply Classical.byContradiction
      intro hne
      exact hk1 ⟨vs, hsv, by rw [hv]; simp, by rw [hv]; simpa using hne⟩
    subst hvn
    have e : extIdOfName svExtName = 43 := by decide
    unfold determineVersion
    rw [e, hc]
    simp only [if_true]
    exact ⟨by decide, by decide⟩
  | none =>
    have hc := sv_not_mem bodyOk ch hwf hsv
    have hvn : vn = ch.legacyVersion := by
      unfold versionNumber at hv
      rw [hsv] at hv
      simp only at hv
      split at hv
      · cases hv
      · simpa using hv.symm
    have hrange : 0x0300 ≤ ch.legacyVersion ∧ ch.legacyVersion ≤ 0x0304 := by
      apply Classical.byContradiction
      intro hne
      exact hk2 ⟨hsv, hne, by rw [hv]; simp⟩
    subst hvn
    obtain ⟨a, b⟩ := legacy_cases _ hc ch.legacyVersion hrange.1 hrange.2
    exact ⟨a, by rw [b]; rfl⟩

/-! ### parts b and c, hashes -/

theorem dropIds_eq : (fun e : Nat => !sortedDropIds.contains e) = (fun t => decide (t ≠ 0 ∧ t ≠ 16)) := by
  funext e
  have : sortedDropIds = [0, 16] := rfl
  rw [this]
  by_cases h0 : e = 0
  · subst h0; decide
  · by_cases h16 : e = 16
    · subst h16; decide
    · simp [h0, h16]

theorem partB_eq (l : List Nat) (original : Bool) (ch : ClientHello) (hl : l = cipherList ch) :
    hexList (if original then l else sortNat l) = partB (!original) ch := by
  subst hl
  unfold partB ciphersFor
  rw [hexList_eq_commaHex]
  cases original <;> simp [sortNat_eq_sortAsc]

theorem extsFor_eq (l : List Nat) (original : Bool) (ch : ClientHello) (hl : l = extList ch) :
    (if original then l else sortNat (l.filter (fun e => !sortedDropIds.contains e))) = extsFor (!original) ch := by
  subst hl
  unfold extsFor
  cases original
  · simp only [Bool.false_eq_true, if_false, Bool.not_false, if_true, sortNat_eq_sortAsc, dropIds_eq]
  · simp

theorem partC_eq (es : List Nat) (fs : List Nat) (sorted : Bool) (ch : ClientHello)
    (he : es = extsFor sorted ch) (hne : extsFor sorted ch ≠ []) (hs : fs = sigList ch) :
    (if (hexList fs).isEmpty then hexList es else if (hexList es).isEmpty then hexList fs
     else hexList es ++ ['_'] ++ hexList fs) = partC sorted ch := by
  subst he hs
  unfold partC
  simp only [hexList_eq_commaHex, commaHex_isEmpty]
  have : (extsFor sorted ch).isEmpty = false := by
    cases h : extsFor sorted ch with
    | nil => exact absurd h hne
    | cons _ _ => rfl
  simp only [this, Bool.false_eq_true, if_false]

theorem hashB_eq (sha : Bytes → Bytes) (sorted : Bool) (ch : ClientHello) (hne : cipherList ch ≠ []) :
    hash12 sha (partB sorted ch) = hashB sha sorted ch := by
  unfold hashB
  have : (ciphersFor sorted ch).isEmpty = false := by
    unfold ciphersFor
    cases sorted
    · cases h : cipherList ch with
      | nil => exact absurd h hne
      | cons _ _ => simp
    · have hp := (sortAsc_perm (cipherList ch)).length_eq
      cases h : sortAsc (cipherList ch) with
      | nil =>
        rw [h] at hp
        cases h2 : cipherList ch with
        | nil => exact absurd h2 hne
        | cons _ _ => rw [h2] at hp; simp at hp
      | cons _ _ => simp
  simp only [this, Bool.false_eq_true, if_false, hash12_eq_trunc12]

theorem hashC_eq (sha : Bytes → Bytes) (sorted : Bool) (ch : ClientHello) (hne : extsFor sorted ch ≠ []) :
    hash12 sha (partC sorted ch) = hashC sha sorted ch := by
  unfold hashC
  have : (extsFor sorted ch).isEmpty = false := by
    cases h : extsFor sorted ch with
    | nil => exact absurd h hne
    | cons _ _ => rfl
  simp only [this, Bool.false_eq_true, if_false, hash12_eq_trunc12]

end Huginn.Lemmas.Ja4Conform
