import Huginn.Model.Http1
/-
Helper lemmas for C05: the byte-string kit on inputs whose pieces avoid the separator.
-/
namespace Huginn.Http1
set_option linter.unusedSimpArgs false

/-! ### findSub -/

theorem isPrefixOf_cons_ne {c a : UInt8} {pat as : Bytes} (h : a ≠ c) :
    (c :: pat).isPrefixOf (a :: as) = false := by
  simp [List.isPrefixOf, h, Ne.symm h]

theorem findSub_skip (c : UInt8) (pat : Bytes) :
    ∀ (pre d : Bytes), c ∉ pre →
      findSub (c :: pat) (pre ++ d) = (findSub (c :: pat) d).map (· + pre.length)
  | [], d, _ => by simp
  | a :: pre, d, h => by
    have ha : a ≠ c := fun e => h (by simp [e])
    have hp : c ∉ pre := fun e => h (by simp [e])
    simp only [List.cons_append]
    rw [findSub, isPrefixOf_cons_ne ha, findSub_skip c pat pre d hp]
    cases findSub (c :: pat) d <;> simp <;> omega

theorem findSub_none_of_not_mem (c : UInt8) (pat : Bytes) : ∀ (d : Bytes), c ∉ d → findSub (c :: pat) d = none
  | [], _ => by simp [findSub]
  | a :: d, h => by
    have ha : a ≠ c := fun e => h (by simp [e])
    have hp : c ∉ d := fun e => h (by simp [e])
    rw [findSub, isPrefixOf_cons_ne ha, findSub_none_of_not_mem c pat d hp]
    simp

/-! ### splitting -/

theorem splitCRLF_line : ∀ (l rest : Bytes), CR ∉ l → splitCRLF (l ++ CR :: LF :: rest) = l :: splitCRLF rest
  | [], rest, _ => by simp [splitCRLF]
  | [a], rest, h => by
    have ha : a ≠ CR := fun e => h (by simp [e])
    simp [splitCRLF, ha, consHead]
  | a :: b :: l, rest, h => by
    have ha : a ≠ CR := fun e => h (by simp [e])
    have hp : CR ∉ b :: l := fun e => h (by simp at e ⊢; right; exact e)
    have ih := splitCRLF_line (b :: l) rest hp
    simp only [List.cons_append] at ih ⊢
    rw [splitCRLF]
    simp [ha, ih, consHead]

theorem splitCRLF_end : splitCRLF [CR, LF] = [[], []] := by simp [splitCRLF]

theorem splitFirst_line (c : UInt8) : ∀ (l rest : Bytes), c ∉ l → splitFirst c (l ++ c :: rest) = some (l, rest)
  | [], rest, _ => by simp [splitFirst]
  | a :: l, rest, h => by
    have ha : a ≠ c := fun e => h (by simp [e])
    have hp : c ∉ l := fun e => h (by simp [e])
    simp [splitFirst, ha, splitFirst_line c l rest hp]

theorem splitFirst_none (c : UInt8) : ∀ (l : Bytes), c ∉ l → splitFirst c l = none
  | [], _ => by simp [splitFirst]
  | a :: l, h => by
    have ha : a ≠ c := fun e => h (by simp [e])
    have hp : c ∉ l := fun e => h (by simp [e])
    simp [splitFirst, ha, splitFirst_none c l hp]

theorem splitByte_line (c : UInt8) : ∀ (l rest : Bytes), c ∉ l → splitByte c (l ++ c :: rest) = l :: splitByte c rest
  | [], rest, _ => by simp [splitByte]
  | a :: l, rest, h => by
    have ha : a ≠ c := fun e => h (by simp [e])
    have hp : c ∉ l := fun e => h (by simp [e])
    simp [splitByte, ha, splitByte_line c l rest hp, consHead]

theorem splitByte_last (c : UInt8) : ∀ (l : Bytes), c ∉ l → splitByte c l = [l]
  | [], _ => by simp [splitByte]
  | a :: l, h => by
    have ha : a ≠ c := fun e => h (by simp [e])
    have hp : c ∉ l := fun e => h (by simp [e])
    simp [splitByte, ha, splitByte_last c l hp, consHead]

/-! ### UTF-8 -/

theorem utf8Valid_append : ∀ (a b : Bytes), utf8Valid a = true → utf8Valid (a ++ b) = utf8Valid b := by
  intro a
  fun_induction utf8Valid a <;> intro b h
  · simp
  · rename_i b0 r hb ih
    simp only [List.cons_append]; conv => lhs; unfold utf8Valid
    simp [hb, ih b h]
  · simp at h
  · rename_i b0 hb b1 r1 hc ih
    simp only [Bool.and_eq_true] at h
    simp only [List.cons_append]; conv => lhs; unfold utf8Valid
    simp [hb, hc, h.1, ih b h.2]
  · simp at h
  · rename_i b0 hb b1 hc b2 r2 hl ih
    simp only [Bool.and_eq_true] at h
    simp only [List.cons_append]; conv => lhs; unfold utf8Valid
    simp [hb, hc, hl, h.1, ih b h.2]
  · simp at h
  · rename_i b0 hb b1 hc b2 hl b3 r3 ih
    simp only [Bool.and_eq_true] at h
    simp only [List.cons_append]; conv => lhs; unfold utf8Valid
    simp [hb, hc, hl, h.1.1.1, h.1.1.2, h.1.2, ih b h.2]

theorem utf8Valid_ascii : ∀ (a : Bytes), (∀ x ∈ a, x < 0x80) → utf8Valid a = true
  | [], _ => by simp [utf8Valid]
  | x :: a, h => by
    unfold utf8Valid; simp [h x (by simp), utf8Valid_ascii a (fun y hy => h y (by simp [hy]))]

end Huginn.Http1
