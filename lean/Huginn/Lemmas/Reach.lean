import Huginn.Spec.Reach
import Huginn.Lemmas.TcpMain
import Huginn.Lemmas.Dist
import Huginn.Lemmas.Index
import Huginn.Props.C03
/-
Lemmas for C13 (TCP): a segment that conforms to a signature of reachable shape is turned by the
extractor model into an observation that instantiates the signature.
-/
set_option linter.unusedVariables false
namespace Huginn.Reach.Lemmas
open Huginn.Sig Huginn.TcpExtract Huginn.TcpSig.Spec Huginn.Match Huginn.Match.Spec Huginn.Reach.Spec
open Huginn.Gen Huginn.Lemmas.TcpMain Huginn.Lemmas.TcpWalk Huginn.Lemmas.TcpQuirks

/-! ### TTL: every hop count 0..30 below each of the four initial TTLs (finite, by evaluation) -/

theorem ttl_reach : ∀ T ∈ initialTtls, ∀ ttl, ttl < 256 → 1 ≤ ttl → ttl ≤ T → T - ttl ≤ 30 →
    calculateTtl ttl = .distance ttl (T - ttl) := by decide +kernel

/-! ### window -/

theorem detectWin_mss_multiple (n m hdr : Nat) (ts : Bool) (ver : IpVersion) (hm : 1 ≤ m) (hn : n ≤ 255) :
    WinInst (detectWin (n * m) m hdr ts ver) (.mss n) (some m) := by
  unfold detectWin detectWinT
  by_cases hg : n * m = 0 ∨ m < TcpConst.minMss
  · simp only [hg, if_true, WinInst]
    constructor <;> first | omega | trivial | rfl
  · simp only [hg, if_false]
    have hm0 : m > 0 := by omega
    have hcd : checkDiv (n * m) m = some n := by
      unfold checkDiv
      have h1 : n * m % m = 0 := Nat.mul_mod_left n m
      have h2 : n * m / m = n := Nat.mul_div_cancel n hm0
      simp [h1, h2, TcpConst.maxMultiplier, hn]
      omega
    have : firstDiv (n * m) (mssDivs m ts) = some n := by
      unfold mssDivs
      simp only [hm0, if_true, List.cons_append, List.nil_append, firstDiv, hcd]
    simp only [this, WinInst]

/-! ### the option area -/

theorem pad_ok (s : TcpSig) (a : Area) (he : eolShape s = true) (hl : a.layout = s.olayout) :
    a.pad = none ∨ a.pad = some [] := by
  cases hp : a.pad with
  | none => exact .inl rfl
  | some p =>
    right
    have hmem : TcpOption.eol p.length ∈ s.olayout := by
      rw [← hl]; simp [Area.layout, hp]
    unfold eolShape at he
    have := List.all_eq_true.mp he _ hmem
    simp at this
    rw [this]

theorem mssVal_tok (i : Item) (v : Nat) (h : i.mssVal = some v) : i.tok = .mss := by
  unfold Item.mssVal at h
  split at h
  · rfl
  · cases h

theorem mssValues_nil (a : Area) (h : TcpOption.mss ∉ a.layout) : mssValues a = [] := by
  unfold mssValues
  rw [List.filterMap_eq_nil_iff]
  intro i hi
  cases hv : i.mssVal with
  | none => rfl
  | some v =>
    exfalso
    apply h
    have := mssVal_tok i v hv
    simp only [Area.layout, List.mem_append, List.mem_map]
    exact .inl ⟨i, hi, this⟩

theorem ws_item (i : Item) (hwf : i.WF) (h : i.tok = .ws) : ∃ x, i.wsVal = some x := by
  cases i with
  | nop => simp [Item.tok] at h
  | opt k d =>
    have hk : k = 3 := by
      unfold Item.tok at h
      split at h <;> simp_all
    subst hk
    obtain ⟨_, hf⟩ := hwf
    simp only [fixedLenOk, beq_iff_eq] at hf
    match d, hf with
    | [x], _ => exact ⟨x, rfl⟩

theorem wsValues_head (a : Area) (hwf : a.WF) (h : TcpOption.ws ∈ a.layout) :
    ∃ x, (wsValues a).head? = some x := by
  simp only [Area.layout, List.mem_append, List.mem_map] at h
  rcases h with ⟨i, hi, ht⟩ | h
  · obtain ⟨x, hx⟩ := ws_item i (hwf i hi) ht
    have hmem : x ∈ wsValues a := by
      unfold wsValues
      exact List.mem_filterMap.mpr ⟨i, hi, hx⟩
    cases hw : wsValues a with
    | nil => rw [hw] at hmem; cases hmem
    | cons y r => exact ⟨y, rfl⟩
  · cases hp : a.pad <;> simp [hp] at h

/-! ### quirks: same members, both in canonical order -/

/-- position in p0f's canonical quirk order (`allQuirks`) -/
def qrank : Quirk → Nat
  | .df => 0 | .nonZeroID => 1 | .zeroID => 2 | .ecn => 3 | .mustBeZero => 4 | .flowID => 5
  | .seqNumZero => 6 | .ackNumNonZero => 7 | .ackNumZero => 8 | .nonZeroURG => 9 | .urg => 10
  | .push => 11 | .ownTimestampZero => 12 | .peerTimestampNonZero => 13 | .trailingNonZero => 14
  | .excessiveWindowScaling => 15 | .optBad => 16

def QLt (x y : Quirk) : Prop := qrank x < qrank y
instance (x y) : Decidable (QLt x y) := by unfold QLt; exact inferInstance

theorem allQuirks_sorted : allQuirks.Pairwise QLt := by decide

/-- Without `ecn` / `0+` (v4) the header quirks come out in canonical order, all before `ts1-`. -/
theorem hdrB4_sorted : ∀ c d f g h i j k l : Bool,
    (ipQ4B false false c d ++ tcpQB false f g h i j k l ++ [Quirk.ownTimestampZero]).Pairwise QLt := by
  decide +kernel
theorem hdrB6_sorted : ∀ f g h i j k l : Bool,
    (ipQ6B false false ++ tcpQB false f g h i j k l ++ [Quirk.ownTimestampZero]).Pairwise QLt := by
  decide +kernel

theorem ipQ4B_ecn (a b c d : Bool) (h : Quirk.ecn ∉ ipQ4B a b c d) (h' : Quirk.mustBeZero ∉ ipQ4B a b c d) :
    a = false ∧ b = false := by
  revert h h'; revert a b c d; decide
theorem ipQ6B_flow (a b : Bool) (h : Quirk.flowID ∉ ipQ6B a b) (h' : Quirk.ecn ∉ ipQ6B a b) :
    a = false ∧ b = false := by
  revert h h'; revert a b; decide
theorem tcpQB_ecn (e f g h i j k l : Bool) (hh : Quirk.ecn ∉ tcpQB e f g h i j k l) : e = false := by
  revert hh; revert e f g h i j k l; decide +kernel

theorem hdr_sorted (f : Fields) (h1 : Quirk.ecn ∉ hdrQuirks f) (h2 : Quirk.mustBeZero ∉ hdrQuirks f)
    (h3 : Quirk.flowID ∉ hdrQuirks f) : (hdrQuirks f ++ [Quirk.ownTimestampZero]).Pairwise QLt := by
  unfold hdrQuirks at *
  rw [tcpQuirks_eq] at *
  simp only [List.mem_append, not_or] at h1 h2 h3
  have he := tcpQB_ecn _ _ _ _ _ _ _ _ h1.2
  rw [he]
  unfold ipQuirks at *
  cases hv : f.ip.v6
  · simp only [hv, Bool.false_eq_true, if_false] at h1 h2 h3 ⊢
    rw [ipQuirksV4_eq] at *
    obtain ⟨ha, hb⟩ := ipQ4B_ecn _ _ _ _ h1.1 h2.1
    rw [ha, hb]
    exact hdrB4_sorted _ _ _ _ _ _ _ _ _
  · simp only [hv, if_true] at h1 h2 h3 ⊢
    rw [ipQuirksV6_eq] at *
    obtain ⟨ha, hb⟩ := ipQ6B_flow _ _ h3.1 h1.1
    rw [ha, hb]
    exact hdrB6_sorted _ _ _ _ _ _ _

theorem nodup_all_eq {α : Type} [DecidableEq α] (l : List α) (x : α) (hn : l.Nodup) (h : ∀ y ∈ l, y = x) :
    l = [] ∨ l = [x] := by
  match l, hn, h with
  | [], _, _ => exact .inl rfl
  | [y], _, h => right; rw [h y (by simp)]
  | y :: z :: r, hn, h =>
    exfalso
    have hy := h y (by simp)
    have hz := h z (by simp)
    rw [List.nodup_cons] at hn
    exact hn.1 (by rw [hy, hz]; simp)

theorem qlt_ne {x y : Quirk} (h : QLt x y) : x ≠ y := by
  intro e; subst e; unfold QLt at h; omega

theorem mem_allQuirks (q : Quirk) : q ∈ allQuirks := by cases q <;> simp [allQuirks]

/-- The quirk list the extractor builds is the signature's, when that only holds order-safe quirks. -/
theorem quirks_reach (f : Fields) (a : Area) (hwf : f.WF) (hpad : a.pad = none ∨ a.pad = some [])
    (hamb : ¬ a.Ambiguous) (hsyn : Syn f) (hnrst : ¬ Rst f) (hnfin : ¬ FinF f)
    (qs : List Quirk) (hq : qs = allQuirks.filter (fun q => decide (QuirkCond f (some a) q)))
    (hsafe : ∀ q ∈ qs, q ∈ orderSafeQuirks) :
    hdrQuirks f ++ a.items.flatMap (itemQuirks (tcpType f.tcp.flags)) = qs := by
  have hwf' := hwf
  unfold Fields.WF at hwf'
  obtain ⟨_, _, _, _, _, _, _, _, _, _, _, _, _, htf, _⟩ := hwf'
  obtain ⟨_, _, _, _, hbty⟩ := role_bits f.tcp.flags htf
  unfold Area.Ambiguous at hamb
  have hl2 : ¬ 1 < (wsValues a).length := fun h => hamb (Or.inr (Or.inl h))
  have hl3 : ¬ 1 < (tsValues a).length := fun h => hamb (Or.inr (Or.inr h))
  have hoptmem : ∀ q, q ∈ a.items.flatMap (itemQuirks (tcpType f.tcp.flags)) → q ∈ optionQuirks := by
    intro q hq
    rw [optQ_mem] at hq
    rcases hq with ⟨rfl, _⟩ | ⟨rfl, _⟩ | ⟨rfl, _⟩ <;> simp [optionQuirks]
  -- membership on the model side
  have hmem : ∀ q, q ∈ hdrQuirks f ++ a.items.flatMap (itemQuirks (tcpType f.tcp.flags)) ↔
      QuirkCond f (some a) q := by
    intro q
    simp only [List.mem_append]
    by_cases hqo : q ∈ optionQuirks
    · have hnh : q ∉ hdrQuirks f := hdr_not_opt f q (Or.inl hqo)
      simp only [hnh, false_or, optQ_mem]
      simp only [optionQuirks, List.mem_cons, List.not_mem_nil, or_false] at hqo
      rcases hqo with rfl | rfl | rfl | rfl
      · simp [QuirkCond, onOpt, tsValues]
      · simp only [QuirkCond, onOpt, tsValues, hbty]
        unfold Syn Ack FinF Rst at *
        simp [hsyn, hnrst, hnfin]
      · simp only [QuirkCond, onOpt]
        rcases hpad with h | h <;> simp [h]
      · simp [QuirkCond, onOpt, wsValues]
    · by_cases hqb : q = .optBad
      · subst hqb
        have hnh : Quirk.optBad ∉ hdrQuirks f := hdr_not_opt f _ (Or.inr rfl)
        have : Quirk.optBad ∉ a.items.flatMap (itemQuirks (tcpType f.tcp.flags)) := by
          intro h; have := hoptmem _ h; simp [optionQuirks] at this
        simp [hnh, this, QuirkCond]
      · have : q ∉ a.items.flatMap (itemQuirks (tcpType f.tcp.flags)) := fun h => hqo (hoptmem q h)
        simp only [this, or_false]
        exact hdr_mem f hwf (some a) hnrst q hqo hqb
  have hqsmem : ∀ q, q ∈ qs ↔ QuirkCond f (some a) q := by
    intro q; rw [hq]; simp [List.mem_filter, mem_allQuirks]
  have hLsafe : ∀ q, q ∈ hdrQuirks f ++ a.items.flatMap (itemQuirks (tcpType f.tcp.flags)) →
      q ∈ orderSafeQuirks := fun q h => hsafe q ((hqsmem q).mpr ((hmem q).mp h))
  have hne : ∀ q, q ∉ orderSafeQuirks → q ∉ hdrQuirks f := fun q hq h =>
    hq (hLsafe q (List.mem_append_left _ h))
  -- the option quirks are nothing or `ts1-`
  have hO : a.items.flatMap (itemQuirks (tcpType f.tcp.flags)) = [] ∨
      a.items.flatMap (itemQuirks (tcpType f.tcp.flags)) = [.ownTimestampZero] := by
    apply nodup_all_eq
    · exact optQ_nodup _ _ (by unfold wsValues at hl2; omega) (by unfold tsValues at hl3; omega)
    · intro y hy
      have h1 := hoptmem y hy
      have h2 := hLsafe y (List.mem_append_right _ hy)
      revert h1 h2; cases y <;> simp [optionQuirks, orderSafeQuirks]
  have hsorted := hdr_sorted f (hne _ (by decide)) (hne _ (by decide)) (hne _ (by decide))
  have hL : (hdrQuirks f ++ a.items.flatMap (itemQuirks (tcpType f.tcp.flags))).Pairwise QLt := by
    rcases hO with h | h <;> rw [h]
    · simpa using (List.pairwise_append.mp hsorted).1
    · exact hsorted
  have hQ : qs.Pairwise QLt := by rw [hq]; exact allQuirks_sorted.filter _
  apply List.Perm.eq_of_pairwise (le := QLt) _ hL hQ
  · rw [List.perm_ext_iff_of_nodup (hL.imp qlt_ne) (hQ.imp qlt_ne)]
    intro q; rw [hmem, hqsmem]
  · intro x y _ _ h1 h2; unfold QLt at h1 h2; omega

/-! ### the window field -/

theorem window_reach (resp : Bool) (f : Fields) (a : Area) (s : TcpSig) (hwf : f.WF)
    (hw : WindowReach f.ip.v6 s) (hc : ConformsTcp resp f a s)
    (hmss : (walked f).mss = (mssValues a).head?) (hlay : (walked f).olayout = s.olayout) :
    WinInst (detectWin f.tcp.window ((walked f).mss.getD 0) 0 ((walked f).olayout.contains .ts) (ver f))
      s.wsize (walked f).mss := by
  have hwin := hc.window
  have hverf : ver f = (if f.ip.v6 then IpVersion.v6 else .v4) := rfl
  unfold WindowReach at hw
  rw [hmss, hlay]
  cases hws : s.wsize with
  | any => simp [WinInst]
  | mod n => rw [hws] at hw; exact absurd hw id
  | mss n =>
    rw [hws] at hw hwin
    simp only [WinConf] at hwin
    obtain ⟨m, hm, hwn⟩ : ∃ m, (mssValues a).head? = some m ∧ f.tcp.window = n * m := by
      cases hh : (mssValues a).head? with
      | none => rw [hh] at hwin; exact absurd hwin id
      | some m => rw [hh] at hwin; exact ⟨m, rfl, hwin⟩
    have hm1 : 1 ≤ m := hc.mss.2 m (by
      cases hv : mssValues a with
      | nil => rw [hv] at hm; cases hm
      | cons x r => rw [hv] at hm; simp at hm; rw [← hm]; simp)
    have hn : n ≤ 255 := hw.2
    rw [hm, hwn]
    exact detectWin_mss_multiple n m _ _ _ hm1 hn
  | value w =>
    rw [hws] at hw hwin
    simp only [WinConf] at hwin
    rw [hwin]
    rcases hw with h0 | hno | hall
    · subst h0
      simp [detectWin, detectWinT, WinInst]
    · have : mssValues a = [] := mssValues_nil a (by rw [hc.layout]; exact hno)
      simp [this, detectWin, detectWinT, TcpConst.minMss, WinInst]
    · cases hsm : s.mss with
      | none => rw [hsm] at hall; exact absurd hall id
      | some m =>
        rw [hsm] at hall
        simp only [onOpt] at hall
        have hm : (mssValues a).head? = some m := by have := hc.mss.1; rw [hsm] at this; exact this
        rw [hm, Option.getD_some, hverf, hall]
        simp [WinInst]
  | mtu n =>
    rw [hws] at hw hwin
    simp only [WinConf] at hwin
    obtain ⟨m', hm', hwn⟩ : ∃ m, (mssValues a).head? = some m ∧ f.tcp.window = n * (m + minHdr f) := by
      cases hh : (mssValues a).head? with
      | none => rw [hh] at hwin; exact absurd hwin id
      | some m => rw [hh] at hwin; exact ⟨m, rfl, hwin⟩
    obtain ⟨m, hsm, hall⟩ : ∃ m, s.mss = some m ∧
        (n * (m + (if f.ip.v6 then 60 else 40)) ≤ 65535 →
          detectWin (n * (m + (if f.ip.v6 then 60 else 40))) m 0
            (s.olayout.contains .ts) (if f.ip.v6 then .v6 else .v4) = .mtu n) := by
      cases hsm : s.mss with
      | none => rw [hsm] at hw; exact absurd hw id
      | some m => rw [hsm] at hw; exact ⟨m, rfl, hw.2⟩
    have hm : (mssValues a).head? = some m := by have := hc.mss.1; rw [hsm] at this; exact this
    rw [hm] at hm'
    have hmm : m = m' := Option.some.inj hm'
    subst hmm
    have hmin : minHdr f = (if f.ip.v6 then 60 else 40) := rfl
    rw [hm, Option.getD_some, hverf, hwn, hmin]
    have hle : n * (m + (if f.ip.v6 then 60 else 40)) ≤ 65535 := by
      have := hwf
      unfold Fields.WF at this
      obtain ⟨_, _, _, _, _, _, _, _, _, _, _, _, _, _, hwl, _⟩ := this
      rw [hwn, hmin] at hwl; omega
    rw [hall hle]
    simp [WinInst]

/-! ### a conforming segment is extracted into an instance of the signature -/

theorem ipv4OptLen_eq : ∀ ihl, ihl < 16 → 5 ≤ ihl → ipv4OptLen ihl = (ihl - 5) * 4 := by decide

theorem conforms_inst (resp : Bool) (f : Fields) (a : Area) (s : TcpSig) (hwf : f.WF)
    (hr : ReachTcp f.ip.v6 s) (hc : ConformsTcp resp f a s) :
    process f = .ok { syn := if fromClient f.tcp.flags then some (modelSig f) else none,
                      synAck := if !fromClient f.tcp.flags then some (modelSig f) else none,
                      mtu := if fromClient f.tcp.flags then modelMtu f else none,
                      tsCalls := (walked f).tsCalls.map
                        (fun v => (isPacketFromClient f.tcp.flags f.tcp.sport f.tcp.dport, v)) } ∧
    (fromClient f.tcp.flags = !resp) ∧
    TcpInst (modelSig f) s ∧ TtlWF (modelSig f).ittl ∧ TtlWF s.ittl ∧
    (modelSig f).version ≠ .any ∧ (modelSig f).pclass ≠ .any ∧
    (∀ t d, (modelSig f).ittl = .distance t d → d ≤ 30) := by
  obtain ⟨httl, heol, hqs, hscale, hvq, hwr⟩ := hr
  have hmask : maskedQuirks s f.ip.v6 = s.quirks := by unfold versionQuirkShape at hvq; simpa using hvq
  have hsafe : ∀ q ∈ s.quirks, q ∈ orderSafeQuirks := by
    intro q hq
    unfold quirkShape at hqs
    simpa using List.all_eq_true.mp hqs q hq
  have hwsr : s.wscale.isSome = true → TcpOption.ws ∈ s.olayout := by
    intro hw
    unfold scaleShape at hscale
    simpa [hw] using hscale
  have hwf' := hwf
  unfold Fields.WF at hwf'
  obtain ⟨httlw, hihl, _, hipfl, _, _, _, _, _, _, _, _, _, htf, _⟩ := hwf'
  obtain ⟨hbv, hbc, _, _, _⟩ := role_bits f.tcp.flags htf
  obtain ⟨hsyn, hack, hnfin, hnrst⟩ := hc.role
  have hpa : parseArea f.tcp.opts = some a := by
    rw [hc.opts.1]; exact Huginn.Props.C03.parseArea_complete a hc.opts.2.1
  have hpad := pad_ok s a heol hc.layout
  obtain ⟨hlay, hmss, hws, _⟩ := walked_eq f a hpa hpad
  have hamb := hc.opts.2.2
  have hq := walked_quirks_unamb f a hpa hpad (fun h => hamb (Or.inr (Or.inl h))) (fun h => hamb (Or.inr (Or.inr h)))
  have hl1 : ¬ 1 < (mssValues a).length := fun h => hamb (Or.inl h)
  have hl2 : ¬ 1 < (wsValues a).length := fun h => hamb (Or.inr (Or.inl h))
  rw [getLast?_eq_head? _ hl1] at hmss
  rw [getLast?_eq_head? _ hl2] at hws
  have hvalid : isValid f.tcp.flags (tcpType f.tcp.flags) = true := by
    rw [hbv]
    unfold Syn Ack FinF Rst at *
    exact ⟨fun h => h.2.elim hnfin hnrst, fun h => hnfin h.1, Or.inl hsyn⟩
  have hfrag : f.ip.v6 = true ∨ (f.ip.fragOff = 0 ∧ ¬ (f.ip.flags &&& IP_MF = IP_MF)) := by
    rcases hc.nofrag with h | ⟨h1, h2⟩
    · exact .inl h
    · right
      refine ⟨h1, ?_⟩
      rw [(ipflag_bits f.ip.flags hipfl).2.2]; exact h2
  have hfc : fromClient f.tcp.flags = !resp := by
    cases resp
    · simp only [Bool.not_false]
      rw [hbc]; unfold Syn Ack at *; exact ⟨hsyn, fun h => by simpa using hack.mp h⟩
    · simp only [Bool.not_true]
      cases hfc : fromClient f.tcp.flags with
      | false => rfl
      | true => rw [hbc] at hfc; unfold Ack at hack; exact absurd (hack.mpr rfl) hfc.2
  refine ⟨process_ok f hc.proto hfrag hvalid, hfc, ?_, ?_, ?_, ?_, ?_, ?_⟩
  · -- TcpInst
    obtain ⟨T, hT⟩ : ∃ T, s.ittl = .value T ∧ T ∈ initialTtls := by
      unfold ttlShape at httl
      cases hi : s.ittl <;> rw [hi] at httl <;> simp at httl
      exact ⟨_, rfl, by simpa using httl⟩
    have htc := hc.ttl
    rw [hT.1] at htc
    simp only [TtlConf] at htc
    have hcalc := ttl_reach T hT.2 f.ip.ttl httlw htc.1 htc.2.1 htc.2.2
    refine ⟨⟨?_, ?_, ?_, ?_⟩, ?_, ?_, ?_, ?_, ?_⟩
    · -- version
      unfold VersionOk
      rcases hc.version with h | h
      · exact .inl h
      · right; simp only [modelSig, ver]; exact h.symm
    · simp only [modelSig]; rw [hlay, hc.layout]
    · simp only [modelSig]; rw [hq, badQ_parsed f a hpa, List.append_nil]
      exact quirks_reach f a hwf hpad hamb hsyn hnrst hnfin s.quirks (hmask ▸ hc.quirks) hsafe
    · unfold PclassOk
      have hp := hc.pclass
      cases hpc : s.pclass <;> rw [hpc] at hp <;> simp only [PclassConf] at hp
      · right; simp [modelSig, hp]
      · right; simp only [modelSig]; rw [if_neg (by omega)]
      · exact .inl rfl
    · simp only [modelSig, hcalc, hT.1, TtlInst, maxHops]
      omega
    · have ho := hc.olen
      simp only [modelSig]
      cases hv : f.ip.v6
      · simp only [hv, Bool.false_eq_true, if_false] at ho ⊢
        rw [ho.2, ipv4OptLen_eq _ hihl ho.1]
      · simp only [hv, if_true] at ho ⊢; rw [ho]; rfl
    · unfold OptInst
      simp only [modelSig, hmss]
      cases hm : s.mss with
      | none => exact .inl rfl
      | some m => right; have := hc.mss.1; rw [hm] at this; exact this
    · simp only [modelSig]
      exact window_reach resp f a s hwf hwr hc hmss (by rw [hlay, hc.layout])
    · unfold OptInst
      simp only [modelSig, hws]
      cases hk : s.wscale with
      | none => exact .inl rfl
      | some k =>
        right
        have hin : TcpOption.ws ∈ a.layout := by rw [hc.layout]; exact hwsr (by simp [hk])
        obtain ⟨x, hx⟩ := wsValues_head a hc.opts.2.1 hin
        have := hc.wscale
        rw [hk] at this
        simp only [onOpt] at this
        rw [hx] at this ⊢
        simpa using this
  · -- TtlWF of the observation
    have := calculateTtl f.ip.ttl
    simp only [modelSig]
    unfold calculateTtl
    split
    · simp [TtlWF]; omega
    · simp only []
      split
      · rename_i hd
        simp only [TtlWF]
        have : guessDistance f.ip.ttl + f.ip.ttl ≤ 255 := by
          have h := Huginn.Props.C03.calculateTtl_spec f.ip.ttl httlw
          revert h hd
          revert httlw
          generalize f.ip.ttl = t
          revert t
          decide +kernel
        omega
      · simp [TtlWF]; omega
  · unfold ttlShape at httl
    cases hi : s.ittl <;> rw [hi] at httl <;> simp at httl
    simp only [TtlWF]
    have : ∀ x ∈ initialTtls, x ≤ 255 := by decide
    exact this _ (by simpa using httl)
  · simp only [modelSig, ver]; cases f.ip.v6 <;> simp
  · simp only [modelSig]; split <;> simp
  · intro t d h
    simp only [modelSig] at h
    unfold calculateTtl at h
    split at h
    · cases h
    · simp only [] at h
      split at h
      · rename_i hd; cases h; simpa [TcpConst.maxHops] using hd
      · cases h

end Huginn.Reach.Lemmas
