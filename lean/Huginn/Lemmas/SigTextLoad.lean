import Huginn.Lemmas.SigText
import Huginn.Lemmas.SigTextHttp
/-
Helper lemmas for the loader theorems of C06: `str::lines`, `str::trim`, the line classifier,
`parse_named_value`, labels, and the effect of each kind of line.
-/
namespace Huginn.SigText
open Huginn.Sig Huginn.SigText.Spec
set_option linter.unusedSimpArgs false

/-! ### lines -/

theorem splitNl_append {l : Str} (h : '\n' ∉ l) (r : Str) : splitNl (l ++ '\n' :: r) = l :: splitNl r := by
  induction l with
  | nil => simp [splitNl]
  | cons c l ih =>
    have hc : c ≠ '\n' := fun e => h (by simp [e])
    have hl : '\n' ∉ l := fun e => h (List.mem_cons_of_mem _ e)
    simp [splitNl, hc, ih hl]

theorem splitNl_renderLines {ls : List Str} (h : ∀ l ∈ ls, '\n' ∉ l) : splitNl (renderLines ls) = ls := by
  induction ls with
  | nil => rfl
  | cons l ls ih =>
    have : renderLines (l :: ls) = l ++ '\n' :: renderLines ls := by simp [renderLines]
    rw [this, splitNl_append (h l List.mem_cons_self), ih (fun x hx => h x (List.mem_cons_of_mem _ hx))]

/-- `str::lines` drops one `\r` before the line break -/
def stripCr (l : Str) : Str := match l.reverse with | '\r' :: r => r.reverse | _ => l

theorem lines_renderLines {ls : List Str} (h : ∀ l ∈ ls, '\n' ∉ l) :
    lines (renderLines ls) = ls.map stripCr := by
  simp only [lines, splitNl_renderLines h]
  rfl

/-! ### trim -/

def trimEnd (l : Str) : Str := (l.reverse.dropWhile isWs).reverse

theorem trim_eq (l : Str) : trim l = trimEnd (l.dropWhile isWs) := rfl

theorem trimEnd_concat_ws (m : Str) {c : Char} (h : isWs c = true) : trimEnd (m ++ [c]) = trimEnd m := by
  simp [trimEnd, List.reverse_append, List.dropWhile_cons, h]

theorem trimEnd_nil : trimEnd [] = [] := rfl

/-- the `\r` that `lines` removes would have been trimmed anyway -/
theorem trim_stripCr (l : Str) : trim (stripCr l) = trim l := by
  unfold stripCr
  split
  · rename_i r hr
    have hl : l = r.reverse ++ ['\r'] := by
      have := congrArg List.reverse hr
      simpa using this
    rw [hl, trim_eq, trim_eq, List.dropWhile_append]
    split
    · rename_i he
      have : r.reverse.dropWhile isWs = [] := by simpa [List.isEmpty_iff] using he
      rw [this]
      simp [trimEnd, List.dropWhile_cons, show isWs '\r' = true by decide]
    · rw [trimEnd_concat_ws _ (by decide)]
  · rfl

theorem dropWhile_ws_append {lead r : Str} (h : allWs lead) : (lead ++ r).dropWhile isWs = r.dropWhile isWs :=
  List.dropWhile_append_of_pos (fun c hc => (h c hc).1)

/-- a line core: not empty, first and last character are not whitespace -/
structure Solid (core : Str) : Prop where
  ne : core ≠ []
  head : ∀ c ∈ core.head?, isWs c = false
  last : ∀ c ∈ core.getLast?, isWs c = false

theorem trim_pad {lead core trail : Str} (hl : allWs lead) (ht : allWs trail) (hc : Solid core) :
    trim (lead ++ (core ++ trail)) = core := by
  obtain ⟨hne, hh, hlast⟩ := hc
  rw [trim_eq, dropWhile_ws_append hl]
  cases core with
  | nil => exact absurd rfl hne
  | cons c cs =>
    have hc : isWs c = false := hh c rfl
    simp only [List.cons_append, List.dropWhile_cons, hc]
    simp only [trimEnd, Bool.false_eq_true, if_false]
    have e : (c :: (cs ++ trail)).reverse = trail.reverse ++ (c :: cs).reverse := by simp
    rw [e, List.dropWhile_append_of_pos (fun x hx => (ht x (List.mem_reverse.mp hx)).1)]
    have : ∃ z zs, (c :: cs).reverse = z :: zs ∧ isWs z = false := by
      cases hr : (c :: cs).reverse with
      | nil => simp at hr
      | cons z zs =>
        refine ⟨z, zs, rfl, hlast z ?_⟩
        rw [List.getLast?_eq_head?_reverse, hr]; rfl
    obtain ⟨z, zs, hz, hzw⟩ := this
    rw [hz, List.dropWhile_cons, hzw]
    simp only [Bool.false_eq_true, if_false]
    rw [← hz]; simp

theorem trim_allWs {w : Str} (h : allWs w) : trim w = [] := by
  have : w.dropWhile isWs = [] := by
    have := dropWhile_ws_append (r := []) h
    simpa using this
  simp [trim, this]

/-! ### `parse_named_value` -/

theorem many1_append {p : Char → Bool} {n r : Str} (hne : n ≠ []) (hn : ∀ c ∈ n, p c = true)
    (hr : ∀ c r', r = c :: r' → p c = false) : many1 p (n ++ r) = some (n, r) := by
  cases n with
  | nil => exact absurd rfl hne
  | cons c n =>
    have hc := hn c List.mem_cons_self
    have hn' : ∀ x ∈ n, p x = true := fun x hx => hn x (List.mem_cons_of_mem _ hx)
    simp only [many1, List.cons_append, hc, if_true, List.takeWhile_append_of_pos hn',
      List.dropWhile_append_of_pos hn']
    cases r with
    | nil => simp
    | cons x r' => simp [hr x r' rfl]

theorem space0_append {g r : Str} (hg : allSpaceTab g) (hr : ∀ c r', r = c :: r' → isSpaceTab c = false) :
    space0 (g ++ r) = some ((), r) := by
  simp only [space0, List.dropWhile_append_of_pos hg]
  cases r with
  | nil => simp
  | cons x r' => simp [hr x r' rfl]

theorem parseNamedValue_named {n pre post v : Str} (hn : alnum1 n) (hpre : allSpaceTab pre)
    (hpost : allSpaceTab post) (hv : ∀ c ∈ v.head?, isSpaceTab c = false) :
    parseNamedValue (n ++ (pre ++ '=' :: (post ++ v))) = some ((n, v), []) := by
  have h1 : alphanumeric1 (n ++ (pre ++ '=' :: (post ++ v))) = some (n, pre ++ '=' :: (post ++ v)) := by
    apply many1_append hn.1 hn.2
    intro c r' e
    cases pre with
    | nil => simp at e; rw [← e.1]; decide
    | cons x pre' =>
      simp at e
      have := hpre x List.mem_cons_self
      rw [← e.1]
      revert this; simp only [isSpaceTab]
      intro h
      rcases Bool.or_eq_true _ _ |>.mp h with h | h <;> (have := eq_of_beq h; subst this; decide)
  have h2 : space0 (pre ++ '=' :: (post ++ v)) = some ((), '=' :: (post ++ v)) :=
    space0_append hpre (fun c r' e => by cases e; decide)
  have h3 : space0 (post ++ v) = some ((), v) :=
    space0_append hpost (fun c r' e => hv c (by rw [e]; rfl))
  simp [parseNamedValue, h1, h2, h3, rest]

end Huginn.SigText

namespace Huginn.SigText
open Huginn.Sig Huginn.SigText.Spec
set_option linter.unusedSimpArgs false

/-! ### labels -/

theorem labelTypeTable_incomparable : Incomparable labelTypeTable := by decide +kernel

def tyChar : LabelType → Char | .specified => 's' | .generic => 'g'
def clsText : Option Str → Str | none => ['!'] | some c => c

theorem labelType_mem (t : LabelType) : ([tyChar t], t) ∈ labelTypeTable := by
  cases t <;> decide +kernel

theorem parseLabelType_render (t : LabelType) (r : Str) : parseLabelType (tyChar t :: r) = some (t, r) := by
  have := altTags_of_mem labelTypeTable_incomparable (labelType_mem t) r
  simpa [parseLabelType] using this

theorem renderLabel_eq (l : LabelL) :
    renderLabel l = tyChar l.ty :: ':' :: (clsText l.cls ++ ':' :: (l.name ++ ':' :: l.flavor.getD [])) := by
  obtain ⟨ty, cls, name, flavor⟩ := l
  cases ty <;> cases cls <;> simp [renderLabel, tyChar, clsText]

theorem parseLabelClass_render (cls : Option Str) (hc : ∀ c ∈ cls, ':' ∉ c ∧ '\n' ∉ c ∧ c.head? ≠ some '!')
    (r : Str) : parseLabelClass (clsText cls ++ ':' :: r) = some (cls, ':' :: r) := by
  cases cls with
  | none => simp [parseLabelClass, alt, clsText]
  | some c =>
    obtain ⟨h1, _, h3⟩ := hc c rfl
    have t1 : tag ['!'] (c ++ ':' :: r) = none := by
      cases c with
      | nil => exact tag_cons_ne _ _ (by decide)
      | cons x c' => exact tag_cons_ne _ _ (fun e => h3 (by simp [← e]))
    simp [parseLabelClass, alt, clsText, t1, takeUntil_append h1 r]

/-- **labels in file syntax parse back** (`t:class:name:flavor`, `!` for no class) -/
theorem parseLabelL_render (l : LabelL) (h : WFLabel l) : parseLabelL (renderLabel l) = some (l, []) := by
  rw [renderLabel_eq]
  obtain ⟨ty, cls, name, flavor⟩ := l
  obtain ⟨hc, ⟨hn, _⟩, hf⟩ := h
  simp only at hc hn hf
  have hname : ∀ r, takeUntil ':' (name ++ ':' :: r) = some (name, ':' :: r) := fun r => takeUntil_append hn r
  have hfl : ∀ fl : Str, parseLabelFlavor (':' :: fl) = some (some fl, []) := by
    intro fl; simp [parseLabelFlavor, opt, rest]
  simp only [parseLabelL, parseLabelType_render, Option.bind_eq_bind, Option.bind_some,
    colon_cons, parseLabelClass_render cls hc, hname, hfl, Option.pure_def]
  cases flavor with
  | none => simp
  | some f =>
    have := (hf f rfl).1
    cases f with
    | nil => exact absurd rfl this
    | cons x f' => simp

end Huginn.SigText

namespace Huginn.SigText
open Huginn.Sig Huginn.SigText.Spec
set_option linter.unusedSimpArgs false

/-! ### one line -/

theorem loadLine_stripCr (st : LoadState) (l : Str) : loadLine st (stripCr l) = loadLine st l := by
  unfold loadLine; rw [trim_stripCr]

theorem label_toList : "label".toList = ['l', 'a', 'b', 'e', 'l'] := by decide
theorem sig_toList : "sig".toList = ['s', 'i', 'g'] := by decide
theorem sys_toList : "sys".toList = ['s', 'y', 's'] := by decide
theorem classesKw_eq : classesKw = ['c', 'l', 'a', 's', 's', 'e', 's'] := by decide
theorem uaOsKw_eq : uaOsKw = ['u', 'a', '_', 'o', 's'] := by decide
theorem mtuKw_eq : mtuKw = ['m', 't', 'u'] := by decide

/-- the trimmed text of a `name = value` line -/
def coreOf (pad : Pad) (n v : Str) : Str := n ++ (pad.pre ++ '=' :: (pad.post ++ v))

theorem named_eq (pad : Pad) (n : String) (v : Str) :
    named pad n v = pad.lead ++ (coreOf pad n.toList v ++ pad.trail) := by
  simp [named, coreOf, List.append_assoc]

theorem isWs_of_spaceTab {c : Char} (h : isSpaceTab c = true) : isWs c = true := by
  simp only [isSpaceTab] at h
  rcases Bool.or_eq_true _ _ |>.mp h with h | h <;> (have := eq_of_beq h; subst this; decide)

theorem alnum_not_ws {c : Char} (h : c.isAlphanum = true) : isWs c = false := by
  cases hw : isWs c with
  | false => rfl
  | true =>
    exfalso
    revert h hw
    simp only [isWs, Char.isAlphanum, Char.isAlpha, Char.isUpper, Char.isLower, Char.isDigit]
    intro h1 h2
    simp only [Bool.or_eq_true, Bool.and_eq_true, decide_eq_true_eq, beq_iff_eq, UInt32.le_iff_toNat_le,
      Char.toNat_val, ge_iff_le] at h1 h2
    have e1 : 'A'.toNat = 65 := rfl
    have e2 : 'Z'.toNat = 90 := rfl
    have e3 : 'a'.toNat = 97 := rfl
    have e4 : 'z'.toNat = 122 := rfl
    have e5 : '0'.toNat = 48 := rfl
    have e6 : '9'.toNat = 57 := rfl
    rw [e1, e2, e3, e4, e5, e6] at h1
    omega

/-- a line name: not empty, does not start with whitespace -/
def HeadSolid (n : Str) : Prop := n ≠ [] ∧ ∀ c ∈ n.head?, isWs c = false

instance (n : Str) : Decidable (HeadSolid n) := by unfold HeadSolid; exact inferInstance

theorem headSolid_of_alnum1 {n : Str} (h : alnum1 n) : HeadSolid n :=
  ⟨h.1, fun c hc => alnum_not_ws (h.2 c (by
    cases n with
    | nil => cases hc
    | cons a t => simp at hc; simp [hc]))⟩

theorem solid_coreOf (pad : Pad) {n v : Str} (hn : HeadSolid n) (hv : LineSafe v) : Solid (coreOf pad n v) := by
  obtain ⟨hne, hal⟩ := hn
  obtain ⟨hvne, _, _, hvl⟩ := hv
  refine ⟨?_, ?_, ?_⟩
  · cases n with
    | nil => exact absurd rfl hne
    | cons c n' => simp [coreOf]
  · cases n with
    | nil => exact absurd rfl hne
    | cons c n' =>
      intro x hx
      simp [coreOf] at hx
      subst hx
      exact hal c rfl
  · intro x hx
    apply hvl x
    have : coreOf pad n v = (n ++ (pad.pre ++ '=' :: pad.post)) ++ v := by simp [coreOf]
    rw [this, List.getLast?_append] at hx
    cases hl : v.getLast? with
    | none => exact absurd (List.getLast?_eq_none_iff.mp hl) hvne
    | some y => rw [hl] at hx; simpa using hx

theorem trim_named {pad : Pad} (hp : WFPad pad) {n : String} (hn : HeadSolid n.toList) {v : Str}
    (hv : LineSafe v) : trim (named pad n v) = coreOf pad n.toList v := by
  rw [named_eq]
  exact trim_pad hp.lead hp.trail (solid_coreOf pad hn hv)

theorem parseNamedValue_coreOf {pad : Pad} (hp : WFPad pad) {n v : Str} (hn : alnum1 n) (hv : LineSafe v) :
    parseNamedValue (coreOf pad n v) = some ((n, v), []) :=
  parseNamedValue_named hn hp.pre hp.post hv.2.2.1

/-- the three names the loader acts on -/
def ItemName (n : String) : Prop := n = "label" ∨ n = "sig" ∨ n = "sys"

theorem ItemName.alnum1 {n : String} (h : ItemName n) : alnum1 n.toList := by
  rcases h with rfl | rfl | rfl <;> decide

/-- a `label`/`sig`/`sys` line inside a module goes to `loadNamed` with its trimmed text -/
theorem loadLine_named (st : LoadState) {m : Str} {d : Option Str} (hm : st.curMod = some (m, d))
    {pad : Pad} (hp : WFPad pad) {n : String} (hn : ItemName n) {v : Str} (hv : LineSafe v) :
    loadLine st (named pad n v) =
      (loadNamed st.db m d (coreOf pad n.toList v)).map fun db => { st with db := db } := by
  unfold loadLine
  rw [trim_named hp (headSolid_of_alnum1 hn.alnum1) hv]
  rcases hn with rfl | rfl | rfl <;>
    simp [coreOf, label_toList, sig_toList, sys_toList, classesKw_eq, uaOsKw_eq, stripPrefix, hm]

end Huginn.SigText

namespace Huginn.SigText
open Huginn.Sig Huginn.SigText.Spec
set_option linter.unusedSimpArgs false

/-! ### `loadNamed` on each kind of line -/

theorem alnum1_label : alnum1 "label".toList := by decide
theorem alnum1_sig : alnum1 "sig".toList := by decide
theorem alnum1_sys : alnum1 "sys".toList := by decide

theorem loadNamed_sys (db : Db) (m : Str) (d : Option Str) {pad : Pad} (hp : WFPad pad) {v : Str}
    (hv : LineSafe v) : loadNamed db m d (coreOf pad "sys".toList v) = .ok db := by
  have hparse := parseNamedValue_coreOf hp alnum1_sys hv
  simp only [sys_toList] at hparse ⊢
  simp [loadNamed, hparse, label_toList, sig_toList]

theorem loadNamed_label (db : Db) {m : Str} (d : Option Str) (hm : m ≠ mtuKw) {pad : Pad} (hp : WFPad pad)
    (l : LabelL) (hl : WFLabel l) (hv : LineSafe (renderLabel l)) :
    loadNamed db m d (coreOf pad "label".toList (renderLabel l)) = .ok
      (match tableOf m d with
        | some .tcpReq => { db with tcpReq := db.tcpReq ++ [(l.toSig, [])] }
        | some .tcpResp => { db with tcpResp := db.tcpResp ++ [(l.toSig, [])] }
        | some .httpReq => { db with httpReq := db.httpReq ++ [(l.toSig, [])] }
        | some .httpResp => { db with httpResp := db.httpResp ++ [(l.toSig, [])] }
        | none => db) := by
  have hparse := parseNamedValue_coreOf hp alnum1_label hv
  simp only [label_toList] at hparse ⊢
  simp only [loadNamed, hparse, hm, and_false, if_false, label_toList, sig_toList, parseLabelL_render l hl]
  simp
  cases tableOf m d with
  | none => rfl
  | some t => cases t <;> rfl

theorem loadNamed_label_mtu (db : Db) (d : Option Str) {pad : Pad} (hp : WFPad pad) {v : Str} (hv : LineSafe v) :
    loadNamed db mtuKw d (coreOf pad "label".toList v) = .ok { db with mtu := db.mtu ++ [(v, [])] } := by
  have hparse := parseNamedValue_coreOf hp alnum1_label hv
  simp only [label_toList] at hparse ⊢
  simp [loadNamed, hparse, label_toList]

theorem pushLast_isSome {κ σ} (t : List (κ × List σ)) (x : σ) (h : t ≠ []) : (pushLast t x).isSome = true := by
  induction t with
  | nil => exact absurd rfl h
  | cons e t ih =>
    cases t with
    | nil => obtain ⟨l, v⟩ := e; simp [pushLast]
    | cons f r =>
      have := ih (by simp)
      simp only [pushLast, Option.isSome_map]
      exact this

theorem stripPlus_natDigits (n : Nat) : stripPlus (natDigits n) = natDigits n := by
  obtain ⟨c, l, h, hc⟩ := natDigits_head n
  rw [h]
  unfold stripPlus
  split
  · rename_i r heq
    cases heq
    exact absurd hc (by decide)
  · rfl

theorem loadNamed_sig_mtu (db : Db) (d : Option Str) {pad : Pad} (hp : WFPad pad) {n : Nat} (hn : n ≤ 65535)
    (hv : LineSafe (natDigits n)) (hne : db.mtu ≠ []) :
    loadNamed db mtuKw d (coreOf pad "sig".toList (natDigits n)) =
      .ok { db with mtu := (pushLast db.mtu n).getD db.mtu } := by
  have hall : (natDigits n).all Char.isDigit = true := by
    simp only [List.all_eq_true]; exact fun c hc => isDigit_of_mem_natDigits hc
  have hsome := pushLast_isSome db.mtu n hne
  cases hdb : db.mtu with
  | nil => exact absurd hdb hne
  | cons e t =>
    rw [hdb] at hsome
    have hparse := parseNamedValue_coreOf hp alnum1_sig hv
    simp only [sig_toList] at hparse ⊢
    simp only [loadNamed, hparse, label_toList, sig_toList, mtuKw_eq]
    simp only [hdb, stripPlus_natDigits, hall, decVal_natDigits, u16Max]
    simp [natDigits_ne_nil, hn]
    cases hp : pushLast (e :: t) n with
    | none => rw [hp] at hsome; cases hsome
    | some t' => simp

theorem loadNamed_sig_tcpReq (db : Db) {m : Str} {d : Option Str} (ht : tableOf m d = some .tcpReq)
    (hm : m ≠ mtuKw) {pad : Pad} (hp : WFPad pad) {v : Str} (hv : LineSafe v) {sg : TcpSig}
    (hs : parseTcpSigFull v = some sg) (hne : db.tcpReq ≠ []) :
    loadNamed db m d (coreOf pad "sig".toList v) =
      .ok { db with tcpReq := (pushLast db.tcpReq sg).getD db.tcpReq } := by
  have hsome := pushLast_isSome db.tcpReq sg hne
  have hparse := parseNamedValue_coreOf hp alnum1_sig hv
  simp only [sig_toList] at hparse ⊢
  simp only [loadNamed, hparse, hm, and_false, if_false, label_toList, sig_toList, ht, hs]
  simp [hne]
  cases hp : pushLast db.tcpReq sg with
  | none => rw [hp] at hsome; cases hsome
  | some t' => simp

theorem loadNamed_sig_tcpResp (db : Db) {m : Str} {d : Option Str} (ht : tableOf m d = some .tcpResp)
    (hm : m ≠ mtuKw) {pad : Pad} (hp : WFPad pad) {v : Str} (hv : LineSafe v) {sg : TcpSig}
    (hs : parseTcpSigFull v = some sg) (hne : db.tcpResp ≠ []) :
    loadNamed db m d (coreOf pad "sig".toList v) =
      .ok { db with tcpResp := (pushLast db.tcpResp sg).getD db.tcpResp } := by
  have hsome := pushLast_isSome db.tcpResp sg hne
  have hparse := parseNamedValue_coreOf hp alnum1_sig hv
  simp only [sig_toList] at hparse ⊢
  simp only [loadNamed, hparse, hm, and_false, if_false, label_toList, sig_toList, ht, hs]
  simp [hne]
  cases hp : pushLast db.tcpResp sg with
  | none => rw [hp] at hsome; cases hsome
  | some t' => simp

theorem loadNamed_sig_httpReq (db : Db) {m : Str} {d : Option Str} (ht : tableOf m d = some .httpReq)
    (hm : m ≠ mtuKw) {pad : Pad} (hp : WFPad pad) {v : Str} (hv : LineSafe v) {sg : HttpSig}
    (hs : parseHttpSigFull v = some sg) (hne : db.httpReq ≠ []) :
    loadNamed db m d (coreOf pad "sig".toList v) =
      .ok { db with httpReq := (pushLast db.httpReq sg).getD db.httpReq } := by
  have hsome := pushLast_isSome db.httpReq sg hne
  have hparse := parseNamedValue_coreOf hp alnum1_sig hv
  simp only [sig_toList] at hparse ⊢
  simp only [loadNamed, hparse, hm, and_false, if_false, label_toList, sig_toList, ht, hs]
  simp [hne]
  cases hp : pushLast db.httpReq sg with
  | none => rw [hp] at hsome; cases hsome
  | some t' => simp

theorem loadNamed_sig_httpResp (db : Db) {m : Str} {d : Option Str} (ht : tableOf m d = some .httpResp)
    (hm : m ≠ mtuKw) {pad : Pad} (hp : WFPad pad) {v : Str} (hv : LineSafe v) {sg : HttpSig}
    (hs : parseHttpSigFull v = some sg) (hne : db.httpResp ≠ []) :
    loadNamed db m d (coreOf pad "sig".toList v) =
      .ok { db with httpResp := (pushLast db.httpResp sg).getD db.httpResp } := by
  have hsome := pushLast_isSome db.httpResp sg hne
  have hparse := parseNamedValue_coreOf hp alnum1_sig hv
  simp only [sig_toList] at hparse ⊢
  simp only [loadNamed, hparse, hm, and_false, if_false, label_toList, sig_toList, ht, hs]
  simp [hne]
  cases hp : pushLast db.httpResp sg with
  | none => rw [hp] at hsome; cases hsome
  | some t' => simp

/-- `sig` in a module the loader does not know: skipped without being parsed -/
theorem loadNamed_sig_other (db : Db) {m : Str} {d : Option Str} (ht : tableOf m d = none)
    (hm : m ≠ mtuKw) {pad : Pad} (hp : WFPad pad) {v : Str} (hv : LineSafe v) :
    loadNamed db m d (coreOf pad "sig".toList v) = .ok db := by
  have hparse := parseNamedValue_coreOf hp alnum1_sig hv
  simp only [sig_toList] at hparse ⊢
  simp only [loadNamed, hparse, hm, and_false, if_false, label_toList, sig_toList, ht]
  simp

end Huginn.SigText

namespace Huginn.SigText
open Huginn.Sig Huginn.SigText.Spec
set_option linter.unusedSimpArgs false

/-! ### comment, blank, `classes`, `ua_os`, section headers -/

theorem trimEnd_cons {c : Char} (h : isWs c = false) (t : Str) : trimEnd (c :: t) = c :: trimEnd t := by
  simp only [trimEnd, List.reverse_cons, List.dropWhile_append]
  split
  · rename_i he
    have : List.dropWhile isWs t.reverse = [] := by simpa [List.isEmpty_iff] using he
    simp [this, List.dropWhile_cons, h]
  · simp

theorem loadLine_comment (st : LoadState) {lead : Str} (hl : allWs lead) (text : Str) :
    loadLine st (lead ++ ';' :: text) = .ok st := by
  have : trim (lead ++ ';' :: text) = ';' :: trimEnd text := by
    rw [trim_eq, dropWhile_ws_append hl]
    simp only [List.dropWhile_cons, show isWs ';' = false by decide, Bool.false_eq_true, if_false]
    exact trimEnd_cons (by decide) _
  simp [loadLine, this]

theorem loadLine_blank (st : LoadState) {ws : Str} (h : allWs ws) : loadLine st ws = .ok st := by
  simp [loadLine, trim_allWs h]

theorem joinWith_eq_joinComma (xs : List Str) : joinWith ',' xs = joinComma id xs := by
  induction xs with
  | nil => rfl
  | cons x xs ih =>
    cases xs with
    | nil => rfl
    | cons y ys => simp only [joinWith, joinComma, id, ih]

theorem alphanumeric1_append {c r : Str} (hc : alnum1 c) (hr : Delim r) : alphanumeric1 (c ++ r) = some (c, r) := by
  apply many1_append hc.1 hc.2
  intro x r' e
  rcases hr with rfl | ⟨r'', rfl⟩ | ⟨r'', rfl⟩
  · cases e
  · cases e; decide
  · cases e; decide

theorem alnum1_not_spaceTab {c : Str} (hc : alnum1 c) : ∀ x ∈ c.head?, isSpaceTab x = false := by
  intro x hx
  have hx' : x ∈ c := by
    cases c with
    | nil => cases hx
    | cons a t => simp at hx; simp [hx]
  have := alnum_not_ws (hc.2 x hx')
  cases h : isSpaceTab x with
  | false => rfl
  | true => rw [isWs_of_spaceTab h] at this; cases this

/-- comma-joined line-safe pieces are line-safe -/
theorem lineSafe_joinWith_of {cs : List Str} (hne : cs ≠ []) (h : ∀ c ∈ cs, LineSafe c) :
    LineSafe (joinWith ',' cs) := by
  induction cs with
  | nil => exact absurd rfl hne
  | cons c cs ih =>
    have hc := h c List.mem_cons_self
    cases cs with
    | nil => exact hc
    | cons y ys =>
      obtain ⟨i1, i2, _, i4⟩ := ih (by simp) (fun x hx => h x (List.mem_cons_of_mem _ hx))
      obtain ⟨c1, c2, c3, _⟩ := hc
      refine ⟨by cases c <;> simp [joinWith] at *, ?_, ?_, ?_⟩
      · simp only [joinWith, List.mem_append, List.mem_cons]
        rintro (hm | hm | hm)
        · exact c2 hm
        · revert hm; decide
        · exact i2 hm
      · intro x hx
        apply c3 x
        cases c with
        | nil => exact absurd rfl c1
        | cons a t => simpa [joinWith] using hx
      · intro x hx
        apply i4 x
        simp only [joinWith] at hx ⊢
        rw [List.getLast?_append, List.getLast?_cons] at hx
        cases hl : (joinWith ',' (y :: ys)).getLast? with
        | none => exact absurd (List.getLast?_eq_none_iff.mp hl) i1
        | some z => rw [hl] at hx; simpa using hx

theorem lineSafe_alnum1 {c : Str} (hc : alnum1 c) : LineSafe c :=
  ⟨hc.1, fun hm => by have := hc.2 _ hm; revert this; decide, alnum1_not_spaceTab hc,
   fun x hx => alnum_not_ws (hc.2 x (List.mem_of_getLast? hx))⟩

/-- comma-joined alphanumeric words are a value that survives on a line -/
theorem lineSafe_joinWith {cs : List Str} (hne : cs ≠ []) (h : ∀ c ∈ cs, alnum1 c) : LineSafe (joinWith ',' cs) :=
  lineSafe_joinWith_of hne (fun c hc => lineSafe_alnum1 (h c hc))

end Huginn.SigText

namespace Huginn.SigText
open Huginn.Sig Huginn.SigText.Spec
set_option linter.unusedSimpArgs false

theorem alnum1_classes : alnum1 classesKw := by decide
theorem classes_toList : "classes".toList = classesKw := rfl
theorem uaOs_toList : "ua_os".toList = uaOsKw := rfl

theorem space0_pre {pre r : Str} (hpre : allSpaceTab pre) : space0 (pre ++ '=' :: r) = some ((), '=' :: r) :=
  space0_append hpre (fun c r' e => by cases e; decide)

theorem loadLine_classes (st : LoadState) {pad : Pad} (hp : WFPad pad) {cs : List Str} (hne : cs ≠ [])
    (h : ∀ c ∈ cs, alnum1 c) :
    loadLine st (named pad "classes" (joinWith ',' cs)) =
      .ok { st with db := { st.db with classes := st.db.classes ++ cs } } := by
  have hv := lineSafe_joinWith hne h
  have htrim := trim_named hp (n := "classes") (headSolid_of_alnum1 alnum1_classes) hv
  have hlist : sepList0 comma alphanumeric1 (joinWith ',' cs) = some (cs, []) := by
    have := sepList0_joinComma alphanumeric1 id cs (r := []) (Or.inl rfl)
      (fun c hc r' hr' => alphanumeric1_append (h c hc) hr') (fun e => absurd e hne)
    simpa [joinWith_eq_joinComma] using this
  have hpost : space0 (pad.post ++ joinWith ',' cs) = some ((), joinWith ',' cs) :=
    space0_append hp.post (fun c r' e => hv.2.2.1 c (by rw [e]; rfl))
  have hparse : parseClasses (coreOf pad classesKw (joinWith ',' cs)) = some (cs, []) := by
    simp [parseClasses, coreOf, space0_pre hp.pre, hpost, hlist]
  have hpre : stripPrefix classesKw (coreOf pad classesKw (joinWith ',' cs)) =
      some (pad.pre ++ '=' :: (pad.post ++ joinWith ',' cs)) := by
    simp [coreOf, stripPrefix_append]
  have hhead : (coreOf pad classesKw (joinWith ',' cs)).head? = some 'c' := by simp [coreOf, classesKw_eq]
  have hnil : coreOf pad classesKw (joinWith ',' cs) ≠ [] := by simp [coreOf, classesKw_eq]
  unfold loadLine
  rw [htrim, classes_toList]
  simp [hpre, hparse, hhead, hnil]

/-- what may follow a `ua_os` rule: the end of the line or the next `,` -/
def RuleEnd (r : Str) : Prop := r = [] ∨ ∃ r', r = ',' :: r'

theorem lineSafe_renderRule {r : Str × Option Str} (h : WFRule r) : LineSafe (renderRule r) := by
  obtain ⟨n, v⟩ := r
  obtain ⟨hne, hch, hhead, hlast, hv⟩ := h
  simp only at hne hch hhead hlast hv
  have hnl : '\n' ∉ n := fun hm => (hch _ hm).2.2 rfl
  have hst : ∀ c ∈ n.head?, isSpaceTab c = false := by
    intro c hc
    have := hhead c hc
    cases hs : isSpaceTab c with
    | false => rfl
    | true => rw [isWs_of_spaceTab hs] at this; cases this
  cases v with
  | none => exact ⟨hne, hnl, hst, hlast⟩
  | some v =>
    have hvn : '\n' ∉ v := fun hm => (hv v rfl _ hm).2.2 rfl
    refine ⟨by cases n <;> simp [renderRule] at *, by simp [renderRule, hnl, hvn], ?_, ?_⟩
    · intro c hc
      apply hst c
      cases n with
      | nil => exact absurd rfl hne
      | cons a t => simpa [renderRule] using hc
    · intro c hc
      have : (renderRule (n, some v)).getLast? = some ']' := by
        have : renderRule (n, some v) = (n ++ '=' :: '[' :: v) ++ [']'] := by simp [renderRule]
        rw [this, List.getLast?_concat]
      rw [this] at hc; cases hc; decide

theorem parseKeyValue_rule {r : Str × Option Str} (h : WFRule r) {rest : Str} (hr : RuleEnd rest) :
    parseKeyValue (renderRule r ++ rest) = some (r, rest) := by
  obtain ⟨n, v⟩ := r
  obtain ⟨hne, hch, _, _, hv⟩ := h
  simp only at hne hch hv
  have hn : ∀ c ∈ n, isRuleNameChar c = true := by
    intro c hc
    have := hch c hc
    simp [isRuleNameChar, this.1, this.2.1]
  have hdelim : Delim rest := by
    rcases hr with rfl | ⟨r', rfl⟩
    · exact Delim.nil
    · exact Delim.comma r'
  have e : renderRule (n, v) ++ rest = n ++ (valuePart v ++ rest) := by
    cases v <;> simp [renderRule, valuePart]
  have hend : ∀ c r', valuePart v ++ rest = c :: r' → isRuleNameChar c = false := by
    intro c r' ec
    cases v with
    | some x => simp [valuePart] at ec; rw [← ec.1]; decide
    | none =>
      rcases hr with rfl | ⟨r'', rfl⟩
      · simp [valuePart] at ec
      · simp [valuePart] at ec; rw [← ec.1]; decide
  have hval := opt_bracketValue_valuePart v (fun x hx hc => (hv x hx ']' hc).1 rfl) hdelim
  rw [e]
  simp [parseKeyValue, many1_append hne hn hend, hval]

theorem sepLoop_rules {α} (p : Parser α) (pr : α → Str) (xs : List α)
    (hp : ∀ x ∈ xs, ∀ r', RuleEnd r' → p (pr x ++ r') = some (x, r'))
    (fuel : Nat) (hf : xs.length ≤ fuel) :
    sepLoop comma p fuel (tailJoin pr xs) = some (xs, []) := by
  induction xs generalizing fuel with
  | nil =>
    cases fuel with
    | zero => simp [sepLoop, tailJoin]
    | succ f => simp [sepLoop, tailJoin, comma]
  | cons x xs ih =>
    cases fuel with
    | zero => simp at hf
    | succ f =>
      have hre : RuleEnd (tailJoin pr xs) := by
        cases xs with
        | nil => exact Or.inl rfl
        | cons y ys => exact Or.inr ⟨_, rfl⟩
      have hx := hp x List.mem_cons_self _ hre
      have ih' := ih (fun y hy => hp y (List.mem_cons_of_mem _ hy)) f (by simpa using hf)
      have hlen : (tailJoin pr xs).length ≠ (',' :: (pr x ++ tailJoin pr xs)).length := by
        simp; omega
      simp only [tailJoin, List.cons_append, sepLoop, comma_cons, hx]
      simp only [hlen, if_false, ih']

theorem sepList0_rules {α} (p : Parser α) (pr : α → Str) (x : α) (xs : List α)
    (hp : ∀ y ∈ x :: xs, ∀ r', RuleEnd r' → p (pr y ++ r') = some (y, r')) :
    sepList0 comma p (joinComma pr (x :: xs)) = some (x :: xs, []) := by
  have hre : RuleEnd (tailJoin pr xs) := by
    cases xs with
    | nil => exact Or.inl rfl
    | cons y ys => exact Or.inr ⟨_, rfl⟩
  have hx := hp x List.mem_cons_self _ hre
  have hl := sepLoop_rules p pr xs (fun y hy => hp y (List.mem_cons_of_mem _ hy))
    ((tailJoin pr xs).length + 1) (by have := length_tailJoin pr xs; omega)
  simp only [joinComma_cons, sepList0, hx, hl]

theorem loadLine_uaOs (st : LoadState) {pad : Pad} (hp : WFPad pad) {rs : List (Str × Option Str)}
    (hne : rs ≠ []) (h : ∀ r ∈ rs, WFRule r) :
    loadLine st (named pad "ua_os" (joinWith ',' (rs.map renderRule))) =
      .ok { st with db := { st.db with uaOs := st.db.uaOs ++ rs } } := by
  have hne' : rs.map renderRule ≠ [] := by simpa using hne
  have hv : LineSafe (joinWith ',' (rs.map renderRule)) := lineSafe_joinWith_of hne' (by
    intro c hc
    obtain ⟨r, hm, rfl⟩ := List.mem_map.mp hc
    exact lineSafe_renderRule (h r hm))
  have htrim := trim_named hp (n := "ua_os") (v := joinWith ',' (rs.map renderRule)) (by decide) hv
  have hlist : sepList0 comma parseKeyValue (joinWith ',' (rs.map renderRule)) = some (rs, []) := by
    rw [← joinComma_eq_joinWith_map]
    cases rs with
    | nil => exact absurd rfl hne
    | cons x xs =>
      exact sepList0_rules parseKeyValue renderRule x xs (fun y hy r' hr' => parseKeyValue_rule (h y hy) hr')
  have hpost : space0 (pad.post ++ joinWith ',' (rs.map renderRule)) = some ((), joinWith ',' (rs.map renderRule)) :=
    space0_append hp.post (fun c r' e => hv.2.2.1 c (by rw [e]; rfl))
  have hparse : parseUaOs (coreOf pad uaOsKw (joinWith ',' (rs.map renderRule))) = some (rs, []) := by
    simp [parseUaOs, coreOf, space0_pre hp.pre, hpost, hlist]
  have hpre : stripPrefix uaOsKw (coreOf pad uaOsKw (joinWith ',' (rs.map renderRule))) =
      some (pad.pre ++ '=' :: (pad.post ++ joinWith ',' (rs.map renderRule))) := by
    simp [coreOf, stripPrefix_append]
  have hcl : stripPrefix classesKw (coreOf pad uaOsKw (joinWith ',' (rs.map renderRule))) = none := by
    simp [coreOf, classesKw_eq, uaOsKw_eq, stripPrefix]
  have hhead : (coreOf pad uaOsKw (joinWith ',' (rs.map renderRule))).head? = some 'u' := by
    simp [coreOf, uaOsKw_eq]
  have hnil : coreOf pad uaOsKw (joinWith ',' (rs.map renderRule)) ≠ [] := by simp [coreOf, uaOsKw_eq]
  unfold loadLine
  rw [htrim, uaOs_toList]
  simp [hpre, hcl, hparse, hhead, hnil]

theorem parseModule_header {m : Str} {d : Option Str} (hm : alpha1P m) (hd : ∀ x ∈ d, alpha1P x) :
    parseModule ('[' :: (modName m d ++ [']'])) = some ((m, d), []) := by
  cases d with
  | none =>
    have h1 : alpha1 (m ++ [']']) = some (m, [']']) :=
      many1_append hm.1 hm.2 (fun c r' e => by cases e; decide)
    simp [parseModule, modName, h1, opt, colon, tag_cons_ne]
  | some x =>
    have hx := hd x rfl
    have h1 : alpha1 (m ++ ':' :: (x ++ [']'])) = some (m, ':' :: (x ++ [']'])) :=
      many1_append hm.1 hm.2 (fun c r' e => by cases e; decide)
    have h2 : alpha1 (x ++ [']']) = some (x, [']']) :=
      many1_append hx.1 hx.2 (fun c r' e => by cases e; decide)
    simp [parseModule, modName, h1, h2, opt]

theorem alpha_not_ws {c : Char} (h : c.isAlpha = true) : isWs c = false :=
  alnum_not_ws (by simp [Char.isAlphanum, h])

theorem loadLine_header (st : LoadState) {lead trail : Str} (hl : allWs lead) (ht : allWs trail)
    {m : Str} {d : Option Str} (hm : alpha1P m) (hd : ∀ x ∈ d, alpha1P x) :
    loadLine st (header lead trail (modName m d)) = .ok { st with curMod := some (m, d) } := by
  have hsolid : Solid ('[' :: (modName m d ++ [']'])) :=
    ⟨by simp, fun c hc => by simp at hc; subst hc; decide,
     fun c hc => by
       rw [show '[' :: (modName m d ++ [']']) = ('[' :: modName m d) ++ [']'] by simp,
         List.getLast?_concat] at hc
       simp at hc; subst hc; decide⟩
  have htrim : trim (header lead trail (modName m d)) = '[' :: (modName m d ++ [']']) := by
    have := trim_pad hl ht hsolid
    simpa [header, List.append_assoc] using this
  have hlast : ('[' :: (modName m d ++ [']'])).getLast? = some ']' := by
    rw [show '[' :: (modName m d ++ [']']) = ('[' :: modName m d) ++ [']'] by simp, List.getLast?_concat]
  unfold loadLine
  rw [htrim]
  simp only [List.isEmpty_cons, List.head?_cons, hlast, parseModule_header hm hd]
  simp [classesKw_eq, uaOsKw_eq, stripPrefix]

end Huginn.SigText
