import Huginn.Model.SigText
/-
Decidable statement evaluated on every bundled signature line: parse, print, compare.
-/
namespace Huginn.SigText

def tcpLineOk (t : Str) : Bool := (parseTcpSigFull t).map printTcpSig == some t
def httpLineOk (t : Str) : Bool := (parseHttpSigFullL t).map printHttpSigL == some t

theorem tcpLineOk_iff {t : Str} : tcpLineOk t = true ↔ ∃ s, parseTcpSigFull t = some s ∧ printTcpSig s = t := by
  unfold tcpLineOk
  cases parseTcpSigFull t <;> simp

theorem httpLineOk_iff {t : Str} :
    httpLineOk t = true ↔ ∃ s, parseHttpSigFullL t = some s ∧ printHttpSigL s = t := by
  unfold httpLineOk
  cases parseHttpSigFullL t <;> simp

end Huginn.SigText
