import Huginn.Model.H2Frames
import Huginn.Spec.H2
/-
Helper lemmas about the frame splitter (used by Props/C16 and Props/C17).
-/
namespace Huginn.Lemmas.H2Frames
open Huginn.H2 Huginn.Spec.H2

theorem and7f (a : UInt8) : (a &&& 0x7f).toNat = a.toNat % 128 := by
  rw [UInt8.toNat_and]
  exact Nat.and_two_pow_sub_one_eq_mod a.toNat 7

theorem u8_toNat (n : Nat) : (u8 n).toNat = n % 256 := by
  unfold u8; simp

theorem u8_of_byte (b : UInt8) (n : Nat) (h : n % 256 = b.toNat) : u8 n = b := by
  unfold u8
  rw [h]; exact UInt8.ofNat_toNat

theorem wire_length (r : Bool) (f : Frame) : (wire r f).length = f.totalSize := by
  simp [wire, Frame.totalSize]; omega

/-- (C) what one loop iteration accepts is the wire form of an acceptable frame -/
theorem parseOne_some {max : Nat} {data : Bytes} {f : Frame} {rest : Bytes}
    (h : parseOne max data = some (f, rest)) :
    ∃ r, data = wire r f ++ rest ∧ f.payload.length ≤ max ∧ f.sid < 2 ^ 31 := by
  unfold parseOne at h
  split at h
  · rename_i l0 l1 l2 ty fl s0 s1 s2 s3 rest0
    simp only at h
    split at h
    · cases h
    · split at h
      · cases h
      · rename_i h1 h2
        simp only [Option.some.injEq, Prod.mk.injEq] at h
        obtain ⟨hf, hr⟩ := h
        subst hf; subst hr
        have hl0 := UInt8.toNat_lt l0; have hl1 := UInt8.toNat_lt l1; have hl2 := UInt8.toNat_lt l2
        have hs0 := UInt8.toNat_lt s0; have hs1 := UInt8.toNat_lt s1
        have hs2 := UInt8.toNat_lt s2; have hs3 := UInt8.toNat_lt s3
        have hlen : (List.take (be24 l0 l1 l2) rest0).length = be24 l0 l1 l2 := by
          rw [List.length_take]; omega
        refine ⟨decide (s0.toNat ≥ 128), ?_, ?_, ?_⟩
        · simp only [wire, hlen]
          have e0 : u8 (be24 l0 l1 l2 / 65536) = l0 := u8_of_byte _ _ (by unfold be24; omega)
          have e1 : u8 (be24 l0 l1 l2 / 256) = l1 := u8_of_byte _ _ (by unfold be24; omega)
          have e2 : u8 (be24 l0 l1 l2) = l2 := u8_of_byte _ _ (by unfold be24; omega)
          have a7 := and7f s0
          have e3 : u8 ((be32 (s0 &&& 0x7f) s1 s2 s3 + if decide (s0.toNat ≥ 128) = true then 2 ^ 31 else 0) / 16777216) = s0 :=
            u8_of_byte _ _ (by unfold be32; split <;> simp_all <;> omega)
          have e4 : u8 ((be32 (s0 &&& 0x7f) s1 s2 s3 + if decide (s0.toNat ≥ 128) = true then 2 ^ 31 else 0) / 65536) = s1 :=
            u8_of_byte _ _ (by unfold be32; split <;> simp_all <;> omega)
          have e5 : u8 ((be32 (s0 &&& 0x7f) s1 s2 s3 + if decide (s0.toNat ≥ 128) = true then 2 ^ 31 else 0) / 256) = s2 :=
            u8_of_byte _ _ (by unfold be32; split <;> simp_all <;> omega)
          have e6 : u8 (be32 (s0 &&& 0x7f) s1 s2 s3 + if decide (s0.toNat ≥ 128) = true then 2 ^ 31 else 0) = s3 :=
            u8_of_byte _ _ (by unfold be32; split <;> simp_all <;> omega)
          rw [e0, e1, e2, e3, e4, e5, e6]
          simp [List.take_append_drop]
        · simp only [hlen]; omega
        · have a7 := and7f s0
          simp only [be32, a7]; omega
  · cases h

/-- (A) the wire form of an acceptable frame is accepted, whatever follows -/
theorem parseOne_wire {max : Nat} (hmax : max < 2 ^ 24) (r : Bool) (f : Frame) (x : Bytes)
    (hp : f.payload.length ≤ max) (hs : f.sid < 2 ^ 31) :
    parseOne max (wire r f ++ x) = some (f, x) := by
  obtain ⟨ty, fl, sid, payload⟩ := f
  simp only at hp hs
  have hn : payload.length < 2 ^ 24 := by omega
  simp only [wire, List.cons_append, List.nil_append, parseOne]
  have hlen : be24 (u8 (payload.length / 65536)) (u8 (payload.length / 256)) (u8 payload.length) = payload.length := by
    simp only [be24, u8_toNat]; omega
  rw [hlen]
  have h1 : ¬ (payload ++ x).length < payload.length := by simp
  have h2 : ¬ payload.length > max := by omega
  simp only [h1, h2, if_false, List.take_left', List.drop_left', Option.some.injEq, Prod.mk.injEq,
    Frame.mk.injEq, true_and, and_true]
  simp only [be32, and7f, u8_toNat]
  cases r <;> simp <;> omega

theorem parseOne_length {max : Nat} {data : Bytes} {f : Frame} {rest : Bytes}
    (h : parseOne max data = some (f, rest)) : data.length = f.totalSize + rest.length := by
  obtain ⟨r, hd, _, _⟩ := parseOne_some h
  rw [hd, List.length_append, wire_length]

theorem aux_fuel (max : Nat) : ∀ (f1 f2 : Nat) (d : Bytes), d.length ≤ f1 → d.length ≤ f2 →
    parseFramesAux max f1 d = parseFramesAux max f2 d := by
  intro f1
  induction f1 with
  | zero =>
    intro f2 d h1 _
    have : d = [] := List.eq_nil_of_length_eq_zero (by omega)
    subst this
    cases f2 <;> simp [parseFramesAux, parseOne]
  | succ n ih =>
    intro f2 d h1 h2
    cases f2 with
    | zero =>
      have : d = [] := List.eq_nil_of_length_eq_zero (by omega)
      subst this
      simp [parseFramesAux, parseOne]
    | succ m =>
      simp only [parseFramesAux]
      cases hp : parseOne max d with
      | none => rfl
      | some p =>
        obtain ⟨f, x⟩ := p
        have hl := parseOne_length hp
        simp only [Frame.totalSize] at hl
        simp only
        rw [ih m x (by omega) (by omega)]

/-- the loop, as an equation -/
theorem parseFramesWith_unfold (max : Nat) (d : Bytes) :
    parseFramesWith max d =
      match parseOne max d with
      | none => []
      | some (f, rest) => f :: parseFramesWith max rest := by
  unfold parseFramesWith
  cases hd : d.length with
  | zero =>
    have : d = [] := List.eq_nil_of_length_eq_zero hd
    subst this
    simp [parseFramesAux, parseOne]
  | succ n =>
    simp only [parseFramesAux]
    cases hp : parseOne max d with
    | none => rfl
    | some p =>
      obtain ⟨f, x⟩ := p
      have hl := parseOne_length hp
      simp only [Frame.totalSize] at hl
      simp only
      rw [aux_fuel max n x.length x (by omega) (by omega)]

/-- strong induction along the loop -/
theorem parseFrames_induction {max : Nat} {P : Bytes → Prop}
    (stop : ∀ d, parseOne max d = none → P d)
    (step : ∀ d f x, parseOne max d = some (f, x) → P x → P d) : ∀ d, P d := by
  intro d
  generalize hn : d.length = n
  induction n using Nat.strongRecOn generalizing d with
  | _ n ih =>
    cases hp : parseOne max d with
    | none => exact stop d hp
    | some p =>
      obtain ⟨f, x⟩ := p
      have hl := parseOne_length hp
      simp only [Frame.totalSize] at hl
      exact step d f x hp (ih x.length (by omega) x rfl)

/-- (E) more bytes do not change a frame that is already complete -/
theorem parseOne_append {max : Nat} (hmax : max < 2 ^ 24) {d : Bytes} {f : Frame} {x : Bytes}
    (h : parseOne max d = some (f, x)) (e : Bytes) : parseOne max (d ++ e) = some (f, x ++ e) := by
  obtain ⟨r, hd, hp, hs⟩ := parseOne_some h
  rw [hd, List.append_assoc]
  exact parseOne_wire hmax r f (x ++ e) hp hs

theorem consumed_append (a b : List Frame) : consumed (a ++ b) = consumed a + consumed b := by
  induction a with
  | nil => simp [consumed]
  | cons f fs ih => simp [consumed, ih]; omega

/-- bytes consumed never exceed the input -/
theorem consumed_le (max : Nat) (d : Bytes) : consumed (parseFramesWith max d) ≤ d.length := by
  refine parseFrames_induction (max := max) (P := fun d => consumed (parseFramesWith max d) ≤ d.length) ?_ ?_ d
  · intro d hp; rw [parseFramesWith_unfold, hp]; simp [consumed]
  · intro d f x hp ih
    rw [parseFramesWith_unfold, hp]
    have := parseOne_length hp
    simp only [consumed]; omega

/-- (F) parsing `d ++ e` = the frames of `d`, then parsing what `d` left over followed by `e` -/
theorem parseFrames_append {max : Nat} (hmax : max < 2 ^ 24) (d e : Bytes) :
    parseFramesWith max (d ++ e) =
      parseFramesWith max d ++ parseFramesWith max (d.drop (consumed (parseFramesWith max d)) ++ e) := by
  refine parseFrames_induction (max := max)
    (P := fun d => parseFramesWith max (d ++ e) =
      parseFramesWith max d ++ parseFramesWith max (d.drop (consumed (parseFramesWith max d)) ++ e)) ?_ ?_ d
  · intro d hp
    rw [parseFramesWith_unfold max d, hp]; simp [consumed]
  · intro d f x hp ih
    have hp' := parseOne_append hmax hp e
    rw [parseFramesWith_unfold max (d ++ e), hp', parseFramesWith_unfold max d, hp]
    simp only [List.cons_append, consumed]
    rw [ih]
    obtain ⟨r, hd, _, _⟩ := parseOne_some hp
    have : List.drop (f.totalSize + consumed (parseFramesWith max x)) d
        = List.drop (consumed (parseFramesWith max x)) x := by
      rw [hd, ← wire_length r f, ← List.drop_drop, List.drop_left' rfl]
    rw [this]

end Huginn.Lemmas.H2Frames
