import Huginn.Model.Flow
set_option linter.unusedSimpArgs false
set_option linter.unusedSectionVars false
/-
Helper lemmas for C07/C15/C01: restriction of a `TtlMap` to the keys of one connection and
how the four cache operations commute with it when nothing is evicted.
-/
namespace Huginn.Flow
variable {κ σ C : Type} [DecidableEq κ] [DecidableEq C]

/-- The part of the flow table that belongs to connection `c`. -/
def TtlMap.restrict (owner : κ → C) (c : C) (m : TtlMap κ σ) : TtlMap κ σ :=
  { m with es := m.es.filter (fun e => owner e.key = c) }

@[simp] theorem restrict_cap (owner : κ → C) (c : C) (m : TtlMap κ σ) :
    (m.restrict owner c).cap = m.cap := rfl

theorem find?_restrict_own (owner : κ → C) (c : C) (m : TtlMap κ σ) (k : κ) (hk : owner k = c) :
    (m.restrict owner c).find? k = m.find? k := by
  unfold TtlMap.find? TtlMap.restrict
  simp only
  induction m.es with
  | nil => rfl
  | cons e es ih =>
    by_cases he : e.key = k
    · have : owner e.key = c := by rw [he]; exact hk
      simp [List.filter_cons, this, List.find?_cons, he, hk]
    · by_cases ho : owner e.key = c
      · simp [List.filter_cons, ho, List.find?_cons, he, ih]
      · simp [List.filter_cons, ho, List.find?_cons, he, ih]

theorem get_restrict_own (owner : κ → C) (c : C) (m : TtlMap κ σ) (now : Nat) (k : κ)
    (hk : owner k = c) : (m.restrict owner c).get now k = m.get now k := by
  unfold TtlMap.get
  rw [find?_restrict_own owner c m k hk]

/-- No eviction at an insert. -/
def TtlMap.Fits (m : TtlMap κ σ) (k : κ) : Prop :=
  (m.es.filter (fun e => e.key ≠ k)).length < m.cap

theorem insert_of_fits (m : TtlMap κ σ) (now : Nat) (k : κ) (v : σ) (ttl : Nat) (h : m.Fits k) :
    m.insert now k v ttl =
      { m with es := m.es.filter (fun e => e.key ≠ k) ++ [⟨k, v, now + ttl⟩] } := by
  unfold TtlMap.insert TtlMap.Fits at *
  have : ¬ (m.es.filter (fun e : Entry κ σ => decide (e.key ≠ k)) ++ [(⟨k, v, now + ttl⟩ : Entry κ σ)]).length > m.cap := by
    simp only [List.length_append, List.length_singleton]; omega
  simp only [this, if_false]

private theorem filter_filter_comm (es : List (Entry κ σ)) (p q : Entry κ σ → Bool) :
    (es.filter p).filter q = (es.filter q).filter p := by
  simp only [List.filter_filter]
  congr 1; funext e; exact Bool.and_comm _ _

theorem fits_restrict (owner : κ → C) (c : C) (m : TtlMap κ σ) (k : κ) (h : m.Fits k) :
    (m.restrict owner c).Fits k := by
  unfold TtlMap.Fits TtlMap.restrict at *
  simp only
  rw [filter_filter_comm]
  exact Nat.lt_of_le_of_lt (List.length_filter_le _ _) h

theorem insert_restrict_own (owner : κ → C) (c : C) (m : TtlMap κ σ) (now : Nat) (k : κ) (v : σ)
    (ttl : Nat) (hk : owner k = c) (h : m.Fits k) :
    (m.insert now k v ttl).restrict owner c = (m.restrict owner c).insert now k v ttl := by
  rw [insert_of_fits m now k v ttl h, insert_of_fits _ now k v ttl (fits_restrict owner c m k h)]
  unfold TtlMap.restrict
  simp only [List.filter_append, TtlMap.mk.injEq, true_and]
  rw [filter_filter_comm]
  simp [List.filter_cons, hk]

theorem insert_restrict_other (owner : κ → C) (c : C) (m : TtlMap κ σ) (now : Nat) (k : κ) (v : σ)
    (ttl : Nat) (hk : owner k ≠ c) (h : m.Fits k) :
    (m.insert now k v ttl).restrict owner c = m.restrict owner c := by
  rw [insert_of_fits m now k v ttl h]
  unfold TtlMap.restrict
  simp only [List.filter_append, TtlMap.mk.injEq, true_and]
  simp only [List.filter_cons, hk, List.filter_nil, List.append_nil, List.filter_filter]
  simp only [decide_false, Bool.false_eq_true, if_false, List.append_nil]
  apply List.filter_congr
  intro e _
  by_cases ho : owner e.key = c
  · have : e.key ≠ k := fun hek => hk (hek ▸ ho)
    simp [ho, this]
  · simp [ho]

/-- The entry update performed by `set`. -/
def setF (now : Nat) (k : κ) (v : σ) (e : Entry κ σ) : Entry κ σ :=
  if e.key = k ∧ ¬ now > e.exp then { e with val := v } else e

theorem setF_key (now : Nat) (k : κ) (v : σ) (e : Entry κ σ) : (setF now k v e).key = e.key := by
  unfold setF; split <;> rfl

theorem set_eq_map (m : TtlMap κ σ) (now : Nat) (k : κ) (v : σ) :
    m.set now k v = { m with es := m.es.map (setF now k v) } := rfl

theorem set_restrict_own (owner : κ → C) (c : C) (m : TtlMap κ σ) (now : Nat) (k : κ) (v : σ) :
    (m.set now k v).restrict owner c = (m.restrict owner c).set now k v := by
  rw [set_eq_map, set_eq_map]
  unfold TtlMap.restrict
  simp only [TtlMap.mk.injEq, true_and, List.filter_map]
  congr 1
  apply List.filter_congr
  intro e _
  simp [Function.comp, setF_key]

theorem set_restrict_other (owner : κ → C) (c : C) (m : TtlMap κ σ) (now : Nat) (k : κ) (v : σ)
    (hk : owner k ≠ c) : (m.set now k v).restrict owner c = m.restrict owner c := by
  rw [set_eq_map]
  unfold TtlMap.restrict
  simp only [TtlMap.mk.injEq, true_and, List.filter_map]
  have h1 : (m.es.filter ((fun e => decide (owner e.key = c)) ∘ setF now k v)) =
      m.es.filter (fun e => decide (owner e.key = c)) := by
    apply List.filter_congr
    intro e _
    simp [Function.comp, setF_key]
  rw [h1]
  conv => rhs; rw [← List.map_id (m.es.filter (fun e => decide (owner e.key = c)))]
  apply List.map_congr_left
  intro e he
  have ho : owner e.key = c := by simpa using (List.mem_filter.1 he).2
  have : e.key ≠ k := fun hek => hk (hek ▸ ho)
  simp [setF, this]

theorem remove_restrict_own (owner : κ → C) (c : C) (m : TtlMap κ σ) (k : κ) :
    (m.remove k).restrict owner c = (m.restrict owner c).remove k := by
  unfold TtlMap.restrict TtlMap.remove
  simp only [TtlMap.mk.injEq, true_and]
  exact filter_filter_comm _ _ _

theorem remove_restrict_other (owner : κ → C) (c : C) (m : TtlMap κ σ) (k : κ) (hk : owner k ≠ c) :
    (m.remove k).restrict owner c = m.restrict owner c := by
  unfold TtlMap.restrict TtlMap.remove
  simp only [TtlMap.mk.injEq, true_and, List.filter_filter]
  apply List.filter_congr
  intro e _
  by_cases ho : owner e.key = c
  · have : e.key ≠ k := fun hek => hk (hek ▸ ho)
    simp [ho, this]
  · simp [ho]

end Huginn.Flow
