import Huginn.Lemmas.SigTextBundled
import Huginn.Gen.BundledChars
/- `decide +kernel` over the bundled p0f.fp signature lines, chunk by chunk (re-run whenever
   `Gen/BundledChars.lean` or the token tables change). -/
namespace Huginn.SigText
open Huginn.Gen.BundledChars
set_option maxRecDepth 1000000

theorem http3_ok : http3.all httpLineOk = true := by decide +kernel
theorem http4_ok : http4.all httpLineOk = true := by decide +kernel
theorem http5_ok : http5.all httpLineOk = true := by decide +kernel

end Huginn.SigText
