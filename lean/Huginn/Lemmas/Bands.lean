import Huginn.Model.Match
/-
Band tables (`match d { a..=b => v, … }` as first-match rows): a first-match lookup is constant
between consecutive *breakpoints* (the `lo`s and `hi+1`s of the rows), so a statement about all
`d` reduces to a finite check on the breakpoints — whatever the rows are. Used for the two
regenerated score tables and the error bands of `distance_header`.
-/
namespace Huginn.Match
variable {α : Type}

def breaks (t : List (Nat × Nat × α)) : List Nat := 0 :: t.flatMap (fun r => [r.1, r.2.1 + 1])

/-- Largest breakpoint `≤ d` (0 if there is none). -/
def floorBreak (bs : List Nat) (d : Nat) : Nat := (bs.filter (· ≤ d)).foldl max 0

private theorem foldl_max_ge (l : List Nat) (a : Nat) : a ≤ l.foldl max a := by
  induction l generalizing a with
  | nil => simp
  | cons x l ih => simp only [List.foldl_cons]; exact Nat.le_trans (Nat.le_max_left a x) (ih _)

private theorem foldl_max_mem_le (l : List Nat) (a x : Nat) (h : x ∈ l) : x ≤ l.foldl max a := by
  induction l generalizing a with
  | nil => cases h
  | cons y l ih =>
    simp only [List.foldl_cons]
    rcases List.mem_cons.mp h with rfl | h
    · exact Nat.le_trans (Nat.le_max_right a x) (foldl_max_ge l _)
    · exact ih _ h

private theorem foldl_max_le (l : List Nat) (a d : Nat) (ha : a ≤ d) (h : ∀ x ∈ l, x ≤ d) :
    l.foldl max a ≤ d := by
  induction l generalizing a with
  | nil => simpa
  | cons y l ih =>
    simp only [List.foldl_cons]
    exact ih _ (Nat.max_le.mpr ⟨ha, h y (by simp)⟩) (fun x hx => h x (by simp [hx]))

private theorem foldl_max_mem (l : List Nat) (a : Nat) : l.foldl max a = a ∨ l.foldl max a ∈ l := by
  induction l generalizing a with
  | nil => simp
  | cons y l ih =>
    simp only [List.foldl_cons]
    rcases ih (max a y) with h | h
    · rw [h]
      rcases Nat.le_total a y with hay | hay
      · right; simp [Nat.max_eq_right hay]
      · left; exact Nat.max_eq_left hay
    · right; exact List.mem_cons_of_mem _ h

theorem floorBreak_le (bs : List Nat) (d : Nat) : floorBreak bs d ≤ d :=
  foldl_max_le _ 0 d (Nat.zero_le _) (fun x hx => by simpa using (List.mem_filter.mp hx).2)

theorem le_floorBreak (bs : List Nat) (d b : Nat) (hb : b ∈ bs) (h : b ≤ d) : b ≤ floorBreak bs d :=
  foldl_max_mem_le _ 0 b (List.mem_filter.mpr ⟨hb, by simpa using h⟩)

theorem floorBreak_mem (bs : List Nat) (d : Nat) (h0 : 0 ∈ bs) : floorBreak bs d ∈ bs := by
  rcases foldl_max_mem (bs.filter (· ≤ d)) 0 with h | h
  · unfold floorBreak; rw [h]; exact h0
  · exact (List.mem_filter.mp h).1

theorem floorBreak_mono (bs : List Nat) (h0 : 0 ∈ bs) {d₁ d₂ : Nat} (h : d₁ ≤ d₂) :
    floorBreak bs d₁ ≤ floorBreak bs d₂ :=
  le_floorBreak bs d₂ _ (floorBreak_mem bs d₁ h0) (Nat.le_trans (floorBreak_le bs d₁) h)

private theorem find_congr {β : Type} (l : List β) (p q : β → Bool) (h : ∀ x ∈ l, p x = q x) :
    l.find? p = l.find? q := by
  induction l with
  | nil => rfl
  | cons x l ih =>
    simp only [List.find?_cons, h x (by simp)]
    rw [ih (fun y hy => h y (by simp [hy]))]

theorem zero_mem_breaks (t : List (Nat × Nat × α)) : 0 ∈ breaks t := by simp [breaks]

/-- A first-match lookup only depends on the largest breakpoint below its argument. -/
theorem bandFind_floor (t : List (Nat × Nat × α)) (d : Nat) :
    bandFind t d = bandFind t (floorBreak (breaks t) d) := by
  unfold bandFind
  congr 1
  apply find_congr
  intro r hr
  have hlo : r.1 ∈ breaks t := by
    simp only [breaks, List.mem_cons, List.mem_flatMap]
    exact .inr ⟨r, hr, by simp⟩
  have hhi : r.2.1 + 1 ∈ breaks t := by
    simp only [breaks, List.mem_cons, List.mem_flatMap]
    exact .inr ⟨r, hr, by simp⟩
  have h1 := floorBreak_le (breaks t) d
  have h2 := le_floorBreak (breaks t) d r.1 hlo
  have h3 := le_floorBreak (breaks t) d (r.2.1 + 1) hhi
  rw [decide_eq_decide]
  constructor
  · rintro ⟨a, b⟩; exact ⟨h2 a, Nat.le_trans h1 b⟩
  · rintro ⟨a, b⟩
    refine ⟨Nat.le_trans a h1, ?_⟩
    apply Nat.le_of_not_lt
    intro hlt
    have := h3 hlt
    omega

theorem scoreOf_floor (t : List (Nat × Nat × Nat)) (d : Nat) :
    scoreOf t d = scoreOf t (floorBreak (breaks t) d) := by
  unfold scoreOf; rw [bandFind_floor]

/-- Finite check on the breakpoints of a score table. -/
def scoreTableCheck (t : List (Nat × Nat × Nat)) : Bool :=
  let bs := breaks t
  bs.all (fun b₁ => bs.all (fun b₂ => !(decide (b₁ ≤ b₂)) || decide (scoreOf t b₂ ≤ scoreOf t b₁))) &&
  bs.all (fun b => !(decide (b ≤ u32Max)) || decide (5 ≤ scoreOf t b ∧ scoreOf t b ≤ 100)) &&
  bs.all (fun b => decide (scoreOf t b = 100 ↔ b = 0)) &&
  bs.contains 1

/-- The check lifts from the breakpoints to every distance. -/
theorem score_ok_of_check (t : List (Nat × Nat × Nat)) (h : scoreTableCheck t = true) :
    (∀ d₁ d₂, d₁ ≤ d₂ → scoreOf t d₂ ≤ scoreOf t d₁) ∧
    (∀ d, d ≤ u32Max → 5 ≤ scoreOf t d ∧ scoreOf t d ≤ 100) ∧
    (∀ d, scoreOf t d = 100 ↔ d = 0) := by
  simp only [scoreTableCheck, Bool.and_eq_true, List.all_eq_true, Bool.or_eq_true,
    Bool.not_eq_true', decide_eq_false_iff_not, decide_eq_true_eq, List.contains_iff_mem] at h
  obtain ⟨⟨⟨hanti, hrange⟩, hone⟩, h1⟩ := h
  have h0 := zero_mem_breaks t
  refine ⟨?_, ?_, ?_⟩
  · intro d₁ d₂ hd
    rw [scoreOf_floor t d₁, scoreOf_floor t d₂]
    rcases hanti _ (floorBreak_mem _ d₁ h0) _ (floorBreak_mem _ d₂ h0) with hh | hh
    · exact absurd (floorBreak_mono _ h0 hd) hh
    · exact hh
  · intro d hd
    rw [scoreOf_floor t d]
    rcases hrange _ (floorBreak_mem _ d h0) with hh | hh
    · exact absurd (Nat.le_trans (floorBreak_le _ d) hd) hh
    · exact hh
  · intro d
    rw [scoreOf_floor t d, hone _ (floorBreak_mem _ d h0)]
    constructor
    · intro hz
      apply Nat.eq_zero_of_not_pos
      intro hpos
      have := le_floorBreak (breaks t) d 1 h1 hpos
      omega
    · rintro rfl
      have := floorBreak_le (breaks t) 0
      omega

/-- Finite check on the breakpoints of an optional-valued band table: as the argument grows the
value grows, and once the table answers `none` it stays `none`. -/
def bandMonoCheck (f : Nat → Option Nat) (bs : List Nat) : Bool :=
  bs.all (fun b₁ => bs.all (fun b₂ => !(decide (b₁ ≤ b₂)) ||
    (match f b₁, f b₂ with
     | some x, some y => decide (x ≤ y)
     | some _, none => true
     | none, none => true
     | none, some _ => false)))

end Huginn.Match
