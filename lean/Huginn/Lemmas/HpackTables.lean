import Huginn.Gen.HpackTables
import Huginn.Spec.Hpack
/-
Kernel-evaluated facts about the HPACK tables (slow `decide`s, kept out of Props/C16.lean).
-/
namespace Huginn.Lemmas.HpackTables

/-- code and length the RFC assigns to symbol `s` (canonical code of the Appendix B lengths) -/
def rfcCode (s : Nat) : Nat × Nat :=
  match Spec.Hpack.huffCode.find? (fun e => e.1 == s) with
  | some e => (e.2.1, e.2.2)
  | none => (0, 0)

theorem crate_huffman_is_rfc : Gen.Hpack.huffman = (List.range 257).map rfcCode := by decide +kernel

theorem rfc_huffman_kraft : (Spec.Hpack.huffLengths.map (fun l => 2 ^ (30 - l))).sum = 2 ^ 30 := by decide +kernel

/-- dyadic interval of `[0, 2^30)` covered by the 30-bit strings that start with the code word -/
def interval (e : Nat × Nat × Nat) : Nat × Nat := (e.2.1 * 2 ^ (30 - e.2.2), (e.2.1 + 1) * 2 ^ (30 - e.2.2))

theorem rfc_huffman_partition :
    let iv := Spec.Hpack.huffCode.map interval
    iv.length = 257 ∧ iv.head?.map (·.1) = some 0 ∧ iv.getLast?.map (·.2) = some (2 ^ 30) ∧
    (iv.zip iv.tail).all (fun p => p.1.2 == p.2.1) = true := by decide +kernel

end Huginn.Lemmas.HpackTables
