import Huginn.Lemmas.SigTextBundled
import Huginn.Gen.BundledChars
/- `decide +kernel` over the bundled p0f.fp signature lines, chunk by chunk (re-run whenever
   `Gen/BundledChars.lean` or the token tables change). -/
namespace Huginn.SigText
open Huginn.Gen.BundledChars
set_option maxRecDepth 1000000

theorem http0_ok : http0.all httpLineOk = true := by decide +kernel
theorem http1_ok : http1.all httpLineOk = true := by decide +kernel
theorem http2_ok : http2.all httpLineOk = true := by decide +kernel

end Huginn.SigText
