import Huginn.Lemmas.Http1Head
/-
Helper lemmas for C05: the second half of `parse_request` / `parse_response` and the conversion to
the observable signature, against `Spec.reportReq` / `Spec.reportRes`.
-/
namespace Huginn.Http1
open Huginn.Http1.Spec Huginn.Gen
set_option linter.unusedSimpArgs false

theorem hdrsAll_eq (fs : List Field) : hdrsAll fs = hdrsOf fs.zipIdx := rfl

/-- `lower name == ascii key` is `ciEq name key` for a lower-case key -/
theorem lower_eq_ciEq (n : Bytes) (s : String) (hs : lower (ascii s) = ascii s) :
    (lower n == ascii s) = ciEq n s := by
  unfold ciEq; rw [hs]

theorem firstValue_cons (a : Hdr) (r : List Hdr) (key : Bytes) :
    firstValue (a :: r) key = if (lower a.name == key && a.value.isSome) then a.value else firstValue r key := by
  unfold firstValue
  simp only [List.find?_cons]
  cases (lower a.name == key && a.value.isSome) <;> simp

/-- first-wins lookup among parsed headers = the first field of that name -/
theorem firstValue_hdrs (s : String) (hs : lower (ascii s) = ascii s) : ∀ (fs : List Field) (n : Nat),
    firstValue ((fs.zipIdx n).map hdrOf) (ascii s) = (fs.find? (fun f => ciEq f.name s)).map (·.value)
  | [], _ => rfl
  | f :: fs, n => by
    simp only [List.zipIdx_cons, List.map_cons, firstValue_cons, List.find?_cons]
    have e : (lower (hdrOf (f, n)).name == ascii s && (hdrOf (f, n)).value.isSome) = ciEq f.name s := by
      simp [hdrOf, lower_eq_ciEq _ _ hs]
    rw [e, firstValue_hdrs s hs fs (n + 1)]
    cases ciEq f.name s <;> simp [hdrOf]

theorem lastValue_none (s : String) (hs : lower (ascii s) = ascii s) : ∀ (fs : List Field) (n : Nat),
    fs.filter (fun f => ciEq f.name s) = [] → lastValue ((fs.zipIdx n).map hdrOf) (ascii s) = none
  | [], _, _ => rfl
  | f :: fs, n, h => by
    simp only [List.filter_cons] at h
    cases hq : ciEq f.name s with
    | true => simp [hq] at h
    | false =>
      simp only [hq, Bool.false_eq_true, if_false] at h
      simp only [List.zipIdx_cons, List.map_cons, lastValue, lastValue_none s hs fs (n + 1) h]
      simp [hdrOf, lower_eq_ciEq _ _ hs, hq]

/-- the last matching value is the first field's when at most one field matches -/
theorem lastValue_hdrs (s : String) (hs : lower (ascii s) = ascii s) : ∀ (fs : List Field) (n : Nat),
    (fs.filter (fun f => ciEq f.name s)).length ≤ 1 →
    lastValue ((fs.zipIdx n).map hdrOf) (ascii s) = (fs.find? (fun f => ciEq f.name s)).map (·.value)
  | [], _, _ => rfl
  | f :: fs, n, hc => by
    simp only [List.filter_cons] at hc
    simp only [List.zipIdx_cons, List.map_cons, lastValue, List.find?_cons]
    cases hq : ciEq f.name s with
    | true =>
      simp only [hq, if_true, List.length_cons] at hc
      have : fs.filter (fun f => ciEq f.name s) = [] := by
        apply List.eq_nil_of_length_eq_zero; omega
      rw [lastValue_none s hs fs (n + 1) this]
      simp [hdrOf, lower_eq_ciEq _ _ hs, hq]
    | false =>
      simp only [hq, Bool.false_eq_true, if_false] at hc
      rw [lastValue_hdrs s hs fs (n + 1) hc]
      cases hfind : fs.find? (fun f => ciEq f.name s) <;> simp [hdrOf, lower_eq_ciEq _ _ hs, hq]

/-- the last matching value is the value of the last field of that name -/
theorem lastValue_hdrs_last (s : String) (hs : lower (ascii s) = ascii s) : ∀ (fs : List Field) (n : Nat),
    lastValue ((fs.zipIdx n).map hdrOf) (ascii s) = ((fs.filter (fun f => ciEq f.name s)).getLast?).map (·.value)
  | [], _ => rfl
  | f :: fs, n => by
    simp only [List.zipIdx_cons, List.map_cons, lastValue, lastValue_hdrs_last s hs fs (n + 1), List.filter_cons]
    cases hq : ciEq f.name s with
    | true =>
      simp only [if_true]
      cases hr : fs.filter (fun f => ciEq f.name s) with
      | nil => simp [hdrOf, lower_eq_ciEq _ _ hs, hq]
      | cons a r =>
        have : ((f :: a :: r).getLast?) = (a :: r).getLast? := List.getLast?_cons_cons
        rw [this]
        cases hg : (a :: r).getLast? with
        | none => simp at hg
        | some g => simp
    | false =>
      simp only [Bool.false_eq_true, if_false]
      cases hr : (fs.filter (fun f => ciEq f.name s)).getLast? <;> simp [hdrOf, lower_eq_ciEq _ _ hs, hq]

/-- the Cookie lines of the parsed header list are the Cookie fields, in wire order -/
theorem cookieHeader_hdrs (fs : List Field) :
    cookieHeader (hdrsAll fs) = joinSemi ((fs.filter (fun f => ciEq f.name "cookie")).map (·.value)) := by
  unfold cookieHeader hdrsAll
  congr 1
  generalize 0 = n
  induction fs generalizing n with
  | nil => rfl
  | cons f fs ih =>
    simp only [List.zipIdx_cons, List.map_cons, List.filter_cons]
    have e : (lower (hdrOf (f, n)).name == ascii "cookie") = ciEq f.name "cookie" := by
      simp [hdrOf, lower_eq_ciEq _ "cookie" (by decide)]
    rw [e]
    cases ciEq f.name "cookie" <;> simp [ih, hdrOf]

theorem find?_filter_of_imp {α} (p q : α → Bool) (l : List α) (h : ∀ x, p x = true → q x = true) :
    (l.filter q).find? p = l.find? p := by
  induction l with
  | nil => rfl
  | cons a r ih =>
    simp only [List.filter_cons]
    cases hq : q a with
    | true => simp only [if_true, List.find?_cons, ih]
    | false =>
      have : p a = false := by
        cases hp : p a with
        | false => rfl
        | true => have := h a hp; rw [hq] at this; simp at this
      simp [List.find?_cons, this, ih]

/-! ### p0f signature -/

theorem inList_eq_ciMem (l : List String) (n : Bytes) : inList l n = ciMem n l := by
  unfold inList ciMem ciEq
  congr 1
  funext s
  exact BEq.comm

theorem convertHeader_eq_sigEntry (isReq : Bool) (h : Hdr) : convertHeader isReq h = sigEntry isReq h := by
  unfold convertHeader sigEntry
  rw [inList_eq_ciMem, inList_eq_ciMem, optionalList_eq, skipValueList_eq]

theorem absentHeaders_eq (isReq : Bool) (hs : List Hdr) : absentHeaders isReq hs = absentOf isReq hs := by
  unfold absentHeaders absentOf
  rw [← commonList_eq]
  simp only []
  have : ∀ c : String, (!(hs.map (fun h => lower h.name)).contains (lower (ascii c))) =
      (!hs.any (fun h => ciEq h.name c)) := by
    intro c
    congr 1
    induction hs with
    | nil => rfl
    | cons a r ih =>
      simp only [List.map_cons, List.contains_cons, List.any_cons, ih]
      unfold ciEq
      congr 1
      exact BEq.comm
  simp only [this]

end Huginn.Http1
