import Huginn.Model.TcpExtract
set_option linter.unusedSimpArgs false
set_option linter.unusedVariables false
/-! Helper lemmas for C03: the pnet accessors return values of the field widths. -/
namespace Huginn.Lemmas.TcpDecode
open Huginn.TcpExtract

def BytesOk (b : Bytes) : Prop := ∀ x ∈ b, x < 256

theorem getD_lt (b : Bytes) (h : BytesOk b) (i : Nat) : b.getD i 0 < 256 := by
  rw [List.getD_eq_getElem?_getD]
  cases hg : b[i]? with
  | none => simp
  | some x => simp only [Option.getD_some]; exact h x (List.mem_of_getElem? hg)

theorem u16At_lt (b : Bytes) (h : BytesOk b) (i : Nat) : u16At b i < 65536 := by
  unfold u16At be16
  have := getD_lt b h i; have := getD_lt b h (i + 1); omega

theorem u32At_lt (b : Bytes) (h : BytesOk b) (i : Nat) : u32At b i < 4294967296 := by
  unfold u32At be32
  have := getD_lt b h i; have := getD_lt b h (i + 1); have := getD_lt b h (i + 2); have := getD_lt b h (i + 3)
  omega

theorem bytesOk_take_drop (b : Bytes) (h : BytesOk b) (i n : Nat) : BytesOk ((b.drop i).take n) :=
  fun x hx => h x (List.mem_of_mem_drop (List.mem_of_mem_take hx))

theorem decodeTcp_wf (p : Bytes) (h : BytesOk p) (t : TcpHdr) (hd : decodeTcp p = some t) :
    t.sport < 65536 ∧ t.dport < 65536 ∧ t.seq < 4294967296 ∧ t.ack < 4294967296 ∧ t.doff < 16 ∧
    t.flags < 256 ∧ t.window < 65536 ∧ t.urg < 65536 ∧ t.opts.length ≤ 40 ∧ BytesOk t.opts := by
  unfold decodeTcp at hd
  split at hd
  · cases hd
  · simp only [Option.some.injEq] at hd
    subst hd
    simp only
    have h12 := getD_lt p h 12
    refine ⟨u16At_lt p h 0, u16At_lt p h 2, u32At_lt p h 4, u32At_lt p h 8, by omega, getD_lt p h 13,
      u16At_lt p h 14, u16At_lt p h 18, ?_, bytesOk_take_drop p h 20 _⟩
    simp only [List.length_take, List.length_drop]
    split <;> omega

theorem decodeIp4_wf (b : Bytes) (hb : BytesOk b) (ip : IpHdr) (pl : Bytes) (h : decodeIp4 b = some (ip, pl)) :
    ip.v6 = false ∧ ip.ttl < 256 ∧ ip.ihl < 16 ∧ ip.ecn < 4 ∧ ip.flags < 8 ∧ ip.ipid < 65536 ∧
    ip.fragOff < 8192 ∧ ip.flow < 1048576 ∧ ip.proto < 256 ∧ BytesOk pl := by
  unfold decodeIp4 at h
  split at h
  · cases h
  · simp only [Option.some.injEq, Prod.mk.injEq] at h
    obtain ⟨rfl, rfl⟩ := h
    have g0 := getD_lt b hb 0; have g1 := getD_lt b hb 1; have g8 := getD_lt b hb 8
    have g9 := getD_lt b hb 9; have u4 := u16At_lt b hb 4; have u6 := u16At_lt b hb 6
    exact ⟨rfl, g8, by simp only; omega, by simp only; omega, by simp only; omega, u4, by simp only; omega,
      by simp only; omega, g9, bytesOk_take_drop b hb _ _⟩

theorem decodeIp6_wf (b : Bytes) (hb : BytesOk b) (ip : IpHdr) (pl : Bytes) (h : decodeIp6 b = some (ip, pl)) :
    ip.v6 = true ∧ ip.ttl < 256 ∧ ip.ihl < 16 ∧ ip.ecn < 256 ∧ ip.flags < 8 ∧ ip.ipid < 65536 ∧
    ip.fragOff < 8192 ∧ ip.flow < 1048576 ∧ ip.proto < 256 ∧ BytesOk pl := by
  unfold decodeIp6 at h
  split at h
  · cases h
  · simp only [Option.some.injEq, Prod.mk.injEq] at h
    obtain ⟨rfl, rfl⟩ := h
    have g6 := getD_lt b hb 6; have g7 := getD_lt b hb 7
    exact ⟨rfl, g7, by simp only; omega, by simp only; omega, by simp only; omega, by simp only; omega,
      by simp only; omega, by simp only; omega, g6, bytesOk_take_drop b hb _ _⟩

end Huginn.Lemmas.TcpDecode
