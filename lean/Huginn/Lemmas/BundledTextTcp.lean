import Huginn.Model.SigText
import Huginn.Gen.BundledChars
import Huginn.Gen.BundledSig
/-
Cross-check of the two transcriptions of the bundled p0f.fp: the signature *values* of
`Gen/BundledSig.lean` (extract/ex_bundledsig.py) are exactly what C06's model of the Rust parser
(`Model/SigText.lean`) returns on the signature *texts* of `Gen/BundledChars.lean`
(extract/ex_bundled.py), line by line and in file order. TCP part.
-/
namespace Huginn.Reach.Text
open Huginn.Gen Huginn.SigText

def flat {σ : Type} (c : List (Nat × String × List (Nat × σ))) : List σ := c.flatMap (fun e => e.2.2.map (·.2))

set_option maxRecDepth 100000 in
theorem tcp_values_are_parsed_text :
    BundledChars.tcpSigs.map parseTcpSigFull =
      (flat BundledSig.tcpRequest ++ flat BundledSig.tcpResponse).map some := by decide +kernel

end Huginn.Reach.Text
