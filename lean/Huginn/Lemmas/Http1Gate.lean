import Huginn.Lemmas.Http1Obs
/-
Helper lemmas for C05: the response report and the processors' gates on a rendered head.
-/
namespace Huginn.Http1
open Huginn.Http1.Spec Huginn.Gen
set_option linter.unusedSimpArgs false

theorem firstValue_all (fs : List Field) (s : String) (hs : lower (ascii s) = ascii s) :
    firstValue (hdrsAll fs) (ascii s) = (firstField fs s).map (·.value) := by
  unfold hdrsAll firstField
  exact firstValue_hdrs s hs fs 0

theorem toObsRes_assemble (h : ResHead) (info : Meta) :
    toObsRes (assembleRes h.ver (statusValue h.status) h.reason (hdrsAll h.fields) (statusLine h) info) =
      reportRes h := by
  unfold toObsRes assembleRes reportRes
  simp only [firstValue_all _ "server" (by decide)]
  simp only [hdrsAll_eq, absentHeaders_eq]
  have hhord : convertHeaders false (hdrsOf h.fields.zipIdx) = (hdrsOf h.fields.zipIdx).map (sigEntry false) := by
    unfold convertHeaders
    apply List.map_congr_left
    intro x hx
    exact convertHeader_eq_sigEntry false x
  rw [hhord]
  rfl

/-! ### gates -/

theorem take_of_isPrefixOf {p d : Bytes} (h : p.isPrefixOf d = true) (n : Nat) (hn : n ≤ p.length) :
    d.take n = p.take n := by
  obtain ⟨t, rfl⟩ := List.isPrefixOf_iff_prefix.mp h
  exact List.take_append_of_le_length hn

theorem rendered_length_ge (l0 : Bytes) (ls : List Bytes) : l0.length + 4 ≤ (rendered (l0 :: ls)).length := by
  rw [rendered_length_cons]
  have : 2 ≤ (rendered ls).length := by
    cases ls with
    | nil => simp [rendered_nil]
    | cons a r => rw [rendered_length_cons]; omega
  omega

theorem gate_covers : ∀ m ∈ supportedMethods.map ascii, m ∈ HttpLists.gateMethods.map ascii := by decide +kernel

theorem h1CanRequest_wf (h : ReqHead) (body : Bytes) (wf : WFReq h) :
    h1CanRequest (renderReq h ++ body) = true := by
  have hl0 := requestLine_ok h wf
  have hs := splitWs_requestLine h wf
  obtain ⟨hm, _, _, hv, _⟩ := wf
  obtain ⟨_, _, m3, _, m5⟩ := method_facts _ hm
  obtain ⟨_, _, _, v4, v5, _⟩ := verText_facts _ hv
  have hgate : h.method ∈ HttpLists.gateMethods.map ascii := gate_covers _ hm
  unfold h1CanRequest
  rw [renderReq_eq]
  have hlen : ¬ (rendered (requestLine h :: h.fields.map fieldLine) ++ body).length < HttpLists.gateRequestMinLen := by
    have := rendered_length_ge (requestLine h) (h.fields.map fieldLine)
    have e : (requestLine h).length = h.method.length + 1 + h.target.length + 1 + (verText h.ver).length := by
      unfold requestLine; simp; omega
    have : HttpLists.gateRequestMinLen = 16 := rfl
    simp only [List.length_append]; omega
  rw [if_neg hlen]
  have hpre : isHttp2Traffic (rendered (requestLine h :: h.fields.map fieldLine) ++ body) = false := by
    unfold isHttp2Traffic
    cases hq : HttpLists.h2Preface.isPrefixOf (rendered (requestLine h :: h.fields.map fieldLine) ++ body) with
    | false => rfl
    | true =>
      exfalso
      have h1 := take_of_isPrefixOf hq 3 (by decide)
      apply m5
      rw [← h1, rendered_cons]
      unfold requestLine
      simp only [List.append_assoc]
      rw [List.take_append_of_le_length m3]
  rw [hpre]
  simp only [Bool.false_eq_true, if_false]
  rw [firstLine_rendered _ _ _ hl0, hs]
  simp only [v4, Bool.and_true]
  rw [List.any_eq_true]
  obtain ⟨s, hs', he⟩ := List.mem_map.mp hgate
  exact ⟨s, hs', by simp [he]⟩

theorem statusLine_head (h : ResHead) (wf : WFRes h) :
    ∃ t, statusLine h = 72 :: 84 :: 84 :: 80 :: t := by
  obtain ⟨hv, _⟩ := wf
  unfold statusLine
  rcases hv with e | e <;> rw [e] <;> exact ⟨_, rfl⟩

theorem h1CanResponse_wf (h : ResHead) (body : Bytes) (wf : WFRes h) :
    h1CanResponse (renderRes h ++ body) = true := by
  have hl0 := statusLine_ok h wf
  have hs := statusLine_split h wf
  obtain ⟨t, ht⟩ := statusLine_head h wf
  obtain ⟨hv, hl, hd, _⟩ := wf
  obtain ⟨_, _, _, v4, v5, _⟩ := verText_facts _ hv
  obtain ⟨_, d2, _, _⟩ := digits_facts _ hd
  unfold h1CanResponse
  rw [renderRes_eq]
  have hlen : ¬ (rendered (statusLine h :: h.fields.map fieldLine) ++ body).length < HttpLists.gateResponseMinLen := by
    have := rendered_length_ge (statusLine h) (h.fields.map fieldLine)
    have e : (statusLine h).length = (verText h.ver).length + 1 + h.status.length + 1 + h.reason.length := by
      unfold statusLine; simp; omega
    have : HttpLists.gateResponseMinLen = 12 := rfl
    simp only [List.length_append]; omega
  rw [if_neg hlen]
  have hh2 : looksLikeHttp2Response (rendered (statusLine h :: h.fields.map fieldLine) ++ body) = false := by
    rw [rendered_cons, ht]
    unfold looksLikeHttp2Response
    simp only [List.cons_append]
    simp
    intro _ h2
    exact absurd h2 (by decide)
  rw [hh2]
  simp only [Bool.and_false, Bool.false_eq_true, if_false]
  rw [firstLine_rendered _ _ _ hl0, hs]
  simp only [v4, Bool.true_and, hl]
  have hd' : h.status.all isDigit = true := d2
  have : HttpLists.gateStatusDigits = 3 := rfl
  simp [this, hd']

end Huginn.Http1
