import Huginn.Lemmas.HttpFlowMap
/-
Helper lemmas for C09: one step of `process_tcp_packet`, per key.
-/
namespace Huginn.HttpFlow
set_option linter.unusedSimpArgs false
variable {ρ σ : Type}

/-! ### the two direction branches -/

theorem clientBranch_fst_server (P : Parsers ρ σ) (flow : TcpFlow) (seg : Seg) :
    (clientBranch P flow seg).1.serverParsed = flow.serverParsed ∧
    (clientBranch P flow seg).1.serverData = flow.serverData ∧
    (clientBranch P flow seg).1.clientIp = flow.clientIp ∧ (clientBranch P flow seg).1.serverIp = flow.serverIp ∧
    (clientBranch P flow seg).1.clientPort = flow.clientPort ∧ (clientBranch P flow seg).1.serverPort = flow.serverPort := by
  unfold clientBranch
  split <;> try simp
  split <;> try simp
  split <;> try simp
  split <;> simp

theorem serverBranch_fst_client (P : Parsers ρ σ) (flow : TcpFlow) (seg : Seg) :
    (serverBranch P flow seg).1.clientParsed = flow.clientParsed ∧
    (serverBranch P flow seg).1.clientData = flow.clientData ∧
    (serverBranch P flow seg).1.clientIp = flow.clientIp ∧ (serverBranch P flow seg).1.serverIp = flow.serverIp ∧
    (serverBranch P flow seg).1.clientPort = flow.clientPort ∧ (serverBranch P flow seg).1.serverPort = flow.serverPort := by
  unfold serverBranch
  split <;> try simp
  split <;> try simp
  split <;> try simp
  split <;> simp

theorem clientBranch_done (P : Parsers ρ σ) (flow : TcpFlow) (seg : Seg) (h : flow.clientParsed = true) :
    clientBranch P flow seg = (flow, none) := by
  unfold clientBranch; simp [h]

theorem serverBranch_done (P : Parsers ρ σ) (flow : TcpFlow) (seg : Seg) (h : flow.serverParsed = true) :
    serverBranch P flow seg = (flow, none) := by
  unfold serverBranch; simp [h]

theorem clientBranch_report (P : Parsers ρ σ) (flow : TcpFlow) (seg : Seg) (r : ρ)
    (h : (clientBranch P flow seg).2 = some r) :
    flow.clientParsed = false ∧ (clientBranch P flow seg).1.clientParsed = true ∧
    P.request (fullData (some flow.clientIsn) (flow.clientData ++ [seg])) = some r := by
  have h0 := h
  unfold clientBranch at h0
  split at h0
  · simp at h0
  · rename_i hp
    simp only [] at h0
    split at h0
    · simp at h0
    · rename_i hmax
      split at h0
      · rename_i hc
        split at h0
        · rename_i r' hr
          simp at h0; subst h0
          have hp' : flow.clientParsed = false := by simpa using hp
          refine ⟨hp', ?_, hr⟩
          unfold clientBranch; simp [hp', hmax, hc, hr]
        · simp at h0
      · simp at h0

theorem serverBranch_report (P : Parsers ρ σ) (flow : TcpFlow) (seg : Seg) (r : σ)
    (h : (serverBranch P flow seg).2 = some r) :
    flow.serverParsed = false ∧ (serverBranch P flow seg).1.serverParsed = true ∧
    P.response (fullData flow.serverIsn (flow.serverData ++ [seg])) = some r := by
  have h0 := h
  unfold serverBranch at h0
  split at h0
  · simp at h0
  · rename_i hp
    simp only [] at h0
    split at h0
    · simp at h0
    · rename_i hmax
      split at h0
      · rename_i hc
        split at h0
        · rename_i r' hr
          simp at h0; subst h0
          have hp' : flow.serverParsed = false := by simpa using hp
          refine ⟨hp', ?_, hr⟩
          unfold serverBranch; simp [hp', hmax, hc, hr]
        · simp at h0
      · simp at h0

/-! ### dispatch -/

theorem dispatch_request (P : Parsers ρ σ) (flow : TcpFlow) (ic : Bool) (p : Pkt) (r : ρ)
    (h : (dispatch P flow ic p).2.1 = some r) :
    ic = true ∧ flow.clientParsed = false ∧ (dispatch P flow ic p).1.clientParsed = true ∧
    (dispatch P flow ic p).2.2 = none ∧
    P.request (fullData (some flow.clientIsn) (flow.clientData ++ [⟨p.seq, p.payload⟩])) = some r := by
  unfold dispatch at h ⊢
  split at h
  · rename_i hc
    simp only [] at h ⊢
    have h3 := clientBranch_report P flow _ r h
    have hic : ic = true := by
      simp only [Bool.and_eq_true] at hc; exact hc.1.1
    rw [if_pos hc]
    exact ⟨hic, h3.1, h3.2.1, rfl, h3.2.2⟩
  · split at h <;> simp at h

theorem dispatch_response (P : Parsers ρ σ) (flow : TcpFlow) (ic : Bool) (p : Pkt) (r : σ)
    (h : (dispatch P flow ic p).2.2 = some r) :
    flow.serverParsed = false ∧ (dispatch P flow ic p).1.serverParsed = true ∧
    (dispatch P flow ic p).2.1 = none ∧
    ¬ (ic = true ∧ p.srcIp = flow.clientIp ∧ p.srcPort = flow.clientPort) ∧
    P.response (fullData flow.serverIsn (flow.serverData ++ [⟨p.seq, p.payload⟩])) = some r := by
  unfold dispatch at h ⊢
  split at h
  · simp at h
  · rename_i hc
    split at h
    · rename_i hs
      simp only [] at h ⊢
      have h3 := serverBranch_report P flow _ r h
      rw [if_neg hc, if_pos hs]
      refine ⟨h3.1, h3.2.1, rfl, ?_, h3.2.2⟩
      intro ⟨a, b, c⟩; apply hc; simp [a, b, c]
    · simp at h

theorem dispatch_client_mono (P : Parsers ρ σ) (flow : TcpFlow) (ic : Bool) (p : Pkt)
    (h : flow.clientParsed = true) :
    (dispatch P flow ic p).1.clientParsed = true ∧ (dispatch P flow ic p).2.1 = none := by
  unfold dispatch
  split
  · simp [clientBranch_done P flow _ h, h]
  · split
    · simp [(serverBranch_fst_client P flow _).1, h]
    · simp [h]

theorem dispatch_server_mono (P : Parsers ρ σ) (flow : TcpFlow) (ic : Bool) (p : Pkt)
    (h : flow.serverParsed = true) :
    (dispatch P flow ic p).1.serverParsed = true ∧ (dispatch P flow ic p).2.2 = none := by
  unfold dispatch
  split
  · simp [(clientBranch_fst_server P flow _).1, h]
  · split
    · simp [serverBranch_done P flow _ h, h]
    · simp [h]

theorem dispatch_endpoints (P : Parsers ρ σ) (flow : TcpFlow) (ic : Bool) (p : Pkt) :
    (dispatch P flow ic p).1.clientIp = flow.clientIp ∧ (dispatch P flow ic p).1.serverIp = flow.serverIp ∧
    (dispatch P flow ic p).1.clientPort = flow.clientPort ∧ (dispatch P flow ic p).1.serverPort = flow.serverPort := by
  unfold dispatch
  have a := clientBranch_fst_server P flow ⟨p.seq, p.payload⟩
  have b := serverBranch_fst_client P flow ⟨p.seq, p.payload⟩
  split
  · simp [a]
  · split
    · simp [b]
    · simp

/-! ### the SYN-ACK note -/

theorem noteSynAck_client (f : TcpFlow) (p : Pkt) : noteSynAck f true p = f := by
  unfold noteSynAck; simp

theorem noteSynAck_fields (f : TcpFlow) (ic : Bool) (p : Pkt) :
    (noteSynAck f ic p).clientParsed = f.clientParsed ∧ (noteSynAck f ic p).serverParsed = f.serverParsed ∧
    (noteSynAck f ic p).clientData = f.clientData ∧ (noteSynAck f ic p).serverData = f.serverData ∧
    (noteSynAck f ic p).clientIp = f.clientIp ∧ (noteSynAck f ic p).serverIp = f.serverIp ∧
    (noteSynAck f ic p).clientPort = f.clientPort ∧ (noteSynAck f ic p).serverPort = f.serverPort ∧
    (noteSynAck f ic p).clientIsn = f.clientIsn := by
  unfold noteSynAck; split <;> simp

end Huginn.HttpFlow
