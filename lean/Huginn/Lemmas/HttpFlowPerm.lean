import Huginn.Lemmas.HttpFlowData
/-
Helper lemmas for C09: arrival order does not matter at a moment when the received segments of a
direction are gap-free (a permutation of a tiling): the stable sort restores stream order and the
specification's stream is order-independent.
-/
namespace Huginn.HttpFlow
open Huginn.HttpFlow.Spec
set_option linter.unusedSimpArgs false

theorem insertSeg_perm (a : Seg) : ∀ (l : List Seg), (insertSeg a l).Perm (a :: l)
  | [] => by simp [insertSeg]
  | b :: r => by
    unfold insertSeg
    split
    · exact List.Perm.refl _
    · exact ((List.perm_cons b).mpr (insertSeg_perm a r)).trans (List.Perm.swap a b r)

theorem sortSegs_perm : ∀ (l : List Seg), (sortSegs l).Perm l
  | [] => List.Perm.refl _
  | a :: r => by
    unfold sortSegs
    exact (insertSeg_perm a (sortSegs r)).trans ((List.perm_cons a).mpr (sortSegs_perm r))

def SeqLe (a b : Seg) : Prop := a.seq ≤ b.seq

theorem insertSeg_sorted (a : Seg) : ∀ (l : List Seg), l.Pairwise SeqLe → (insertSeg a l).Pairwise SeqLe
  | [], _ => by simp [insertSeg]
  | b :: r, h => by
    rw [List.pairwise_cons] at h
    unfold insertSeg
    split
    · rename_i hab
      rw [List.pairwise_cons]
      refine ⟨?_, List.pairwise_cons.mpr h⟩
      intro x hx
      simp only [List.mem_cons] at hx
      rcases hx with rfl | hx
      · exact hab
      · exact Nat.le_trans hab (h.1 x hx)
    · rename_i hab
      rw [List.pairwise_cons]
      refine ⟨?_, insertSeg_sorted a r h.2⟩
      intro x hx
      have := (insertSeg_perm a r).subset hx
      simp only [List.mem_cons] at this
      rcases this with rfl | hx'
      · unfold SeqLe; omega
      · exact h.1 x hx'

theorem sortSegs_sorted : ∀ (l : List Seg), (sortSegs l).Pairwise SeqLe
  | [] => List.Pairwise.nil
  | a :: r => by unfold sortSegs; exact insertSeg_sorted a _ (sortSegs_sorted r)

theorem increasing_pairwise : ∀ (T : List Seg), SeqIncreasing T → T.Pairwise (fun a b => a.seq < b.seq)
  | [], _ => List.Pairwise.nil
  | [a], _ => by simp
  | a :: b :: r, h => by
    obtain ⟨hab, hr⟩ := h
    have ih := increasing_pairwise (b :: r) hr
    rw [List.pairwise_cons]
    refine ⟨?_, ih⟩
    intro x hx
    simp only [List.mem_cons] at hx
    rcases hx with rfl | hx
    · exact hab
    · rw [List.pairwise_cons] at ih
      exact Nat.lt_trans hab (ih.1 x hx)

theorem eq_of_seq_eq : ∀ (T : List Seg), T.Pairwise (fun a b => a.seq < b.seq) →
    ∀ a b, a ∈ T → b ∈ T → a.seq = b.seq → a = b
  | [], _, a, _, ha, _, _ => by simp at ha
  | x :: r, hlt, a, b, ha, hb, heq => by
    rw [List.pairwise_cons] at hlt
    simp only [List.mem_cons] at ha hb
    rcases ha with rfl | ha
    · rcases hb with rfl | hb
      · rfl
      · have := hlt.1 b hb; omega
    · rcases hb with rfl | hb
      · have := hlt.1 a ha; omega
      · exact eq_of_seq_eq r hlt.2 a b ha hb heq

/-- sorting any arrival order of strictly increasing segments yields them in order -/
theorem sortSegs_of_perm (l T : List Seg) (hp : l.Perm T) (hT : SeqIncreasing T) : sortSegs l = T := by
  have hlt := increasing_pairwise T hT
  have hle : T.Pairwise SeqLe := hlt.imp (fun h => Nat.le_of_lt h)
  apply List.Perm.eq_of_pairwise _ (sortSegs_sorted l) hle ((sortSegs_perm l).trans hp)
  intro a b ha hb h1 h2
  have ha' : a ∈ T := hp.subset ((sortSegs_perm l).subset ha)
  exact eq_of_seq_eq T hlt a b ha' hb (Nat.le_antisymm h1 h2)

theorem totalLen_perm {l T : List Seg} (hp : l.Perm T) : totalLen l = totalLen T := by
  induction hp with
  | nil => rfl
  | cons x _ ih => simp [totalLen, ih]
  | swap x y l => simp [totalLen]; omega
  | trans _ _ ih1 ih2 => exact ih1.trans ih2

theorem findSome?_perm_unique {α β} (f : α → Option β) {l l' : List α} (hp : l.Perm l')
    (hu : ∀ a b, a ∈ l → b ∈ l → (f a).isSome → (f b).isSome → a = b) :
    l.findSome? f = l'.findSome? f := by
  induction hp with
  | nil => rfl
  | cons x _ ih =>
    simp only [List.findSome?_cons]
    cases hx : f x with
    | some v => rfl
    | none => exact ih (fun a b ha hb => hu a b (by simp [ha]) (by simp [hb]))
  | swap x y l =>
    simp only [List.findSome?_cons]
    cases hx : f x with
    | none => cases hy : f y <;> rfl
    | some v =>
      cases hy : f y with
      | none => rfl
      | some w =>
        have := hu x y (by simp) (by simp) (by simp [hx]) (by simp [hy])
        subst this
        rw [hx] at hy; simp at hy; simp [hy]
  | trans h1 _ ih1 ih2 =>
    exact (ih1 hu).trans (ih2 (fun a b ha hb => hu a b (h1.symm.subset ha) (h1.symm.subset hb)))

theorem tilesFrom_lower (isn : Nat) : ∀ (T : List Seg) (o : Nat), tilesFrom isn o T = true → ∀ s ∈ T, o ≤ rel isn s.seq
  | [], _, _, s, hs => by simp at hs
  | a :: T, o, h, s, hs => by
    simp only [tilesFrom, Bool.and_eq_true, beq_iff_eq] at h
    simp only [List.mem_cons] at hs
    rcases hs with rfl | hs
    · omega
    · have := tilesFrom_lower isn T _ h.2 s hs; omega

theorem cover_unique (isn off : Nat) : ∀ (T : List Seg) (o : Nat), tilesFrom isn o T = true →
    ∀ a b, a ∈ T → b ∈ T → (coverFrom isn off a).isSome → (coverFrom isn off b).isSome → a = b
  | [], _, _, a, _, ha, _, _, _ => by simp at ha
  | x :: T, o, h, a, b, ha, hb, ca, cb => by
    simp only [tilesFrom, Bool.and_eq_true, beq_iff_eq] at h
    have hlow := tilesFrom_lower isn T _ h.2
    have covers : ∀ s, (coverFrom isn off s).isSome → rel isn s.seq ≤ off ∧ off < rel isn s.seq + s.data.length := by
      intro s hs
      unfold coverFrom at hs
      by_cases hc : rel isn s.seq ≤ off ∧ off < rel isn s.seq + s.data.length
      · exact hc
      · simp only [hc, if_false] at hs; simp at hs
    simp only [List.mem_cons] at ha hb
    rcases ha with rfl | ha
    · rcases hb with rfl | hb
      · rfl
      · have h1 := covers a ca; have h2 := covers b cb; have := hlow b hb; omega
    · rcases hb with rfl | hb
      · have h1 := covers a ca; have h2 := covers b cb; have := hlow a ha; omega
      · exact cover_unique isn off T _ h.2 a b ha hb ca cb

theorem firstCover_perm (isn off : Nat) {l T : List Seg} (hp : l.Perm T) (hT : tilesFrom isn 0 T = true) :
    firstCover isn off l = firstCover isn off T := by
  unfold firstCover
  apply findSome?_perm_unique _ hp
  intro a b ha hb
  exact cover_unique isn off T 0 hT a b (hp.subset ha) (hp.subset hb)

theorem streamAux_perm (isn : Nat) {l T : List Seg} (hp : l.Perm T) (hT : tilesFrom isn 0 T = true) :
    ∀ (fuel off : Nat), streamAux isn l fuel off = streamAux isn T fuel off
  | 0, _ => rfl
  | fuel + 1, off => by
    simp only [streamAux, firstCover_perm isn off hp hT]
    cases firstCover isn off T with
    | none => rfl
    | some b => simp only [streamAux_perm isn hp hT fuel]

/-- **order does not matter at a gap-free moment**: the received segments of a direction, in any
arrival order, are a permutation of a tiling without wrap — the assembled bytes are the stream -/
theorem fullData_eq_stream_of_perm (isn : Nat) (l T : List Seg) (hp : l.Perm T)
    (ht : tilesFrom isn 0 T = true) (hw : NoWrap isn T) (hne : ∀ s ∈ T, s.data ≠ []) :
    fullData l = stream isn l := by
  have h1 : fullData l = concatSegs T := by
    unfold fullData
    rw [sortSegs_of_perm l T hp (increasing_of_tiles isn T 0 ht hw hne)]
  have h2 : stream isn l = stream isn T := by
    unfold stream
    rw [totalLen_perm hp]
    exact streamAux_perm isn hp ht _ _
  rw [h1, h2, stream_tiles isn T ht hne]

end Huginn.HttpFlow
