import Huginn.Spec.Ja4
/-
Wire round trip for C04: the model of tls-parser's ClientHello / extension parsers applied to
`Spec.encode ch` returns the fields of `ch` (for well-formed `ch`).
-/
namespace Huginn.Lemmas.TlsWire
open Huginn.Tls Huginn.Tls.Spec

/-! ### integers and vectors -/

theorem be16_e16 (n : Nat) (h : n < 65536) : be16 (UInt8.ofNat (n / 256)) (UInt8.ofNat (n % 256)) = n := by
  simp only [be16, UInt8.toNat_ofNat']; omega

theorem u8_e8 (n : Nat) (h : n < 256) (r : Bytes) : u8? (e8 n ++ r) = some (n, r) := by
  simp only [e8, List.cons_append, List.nil_append, u8?, UInt8.toNat_ofNat']
  have : n % 2 ^ 8 = n := by omega
  rw [this]

theorem u16_e16 (n : Nat) (h : n < 65536) (r : Bytes) : u16? (e16 n ++ r) = some (n, r) := by
  simp only [e16, List.cons_append, List.nil_append, u16?, be16_e16 n h]

theorem u24_e24 (n : Nat) (h : n < 16777216) (r : Bytes) : u24? (e24 n ++ r) = some (n, r) := by
  simp only [e24, List.cons_append, List.nil_append, u24?, be16, UInt8.toNat_ofNat']
  have : n / 65536 % 2 ^ 8 * 65536 + (n / 256 % 256 % 2 ^ 8 * 256 + n % 256 % 2 ^ 8) = n := by omega
  rw [this]

theorem take_append (b r : Bytes) : take? b.length (b ++ r) = some (b, r) := by
  simp [take?]

theorem ld8 (b r : Bytes) (h : b.length < 256) : lengthData8? (vec8 b ++ r) = some (b, r) := by
  simp only [lengthData8?, vec8, List.append_assoc, u8_e8 _ h, take_append]

theorem ld16 (b r : Bytes) (h : b.length < 65536) : lengthData16? (vec16 b ++ r) = some (b, r) := by
  simp only [lengthData16?, vec16, List.append_assoc, u16_e16 _ h, take_append]

theorem ld24 (b r : Bytes) (h : b.length < 16777216) : lengthData24? (vec24 b ++ r) = some (b, r) := by
  simp only [lengthData24?, vec24, List.append_assoc, u24_e24 _ h, take_append]

theorem length_e16 (n : Nat) : (e16 n).length = 2 := rfl
theorem length_vec8 (b : Bytes) : (vec8 b).length = b.length + 1 := by simp [vec8, e8]
theorem length_vec16 (b : Bytes) : (vec16 b).length = b.length + 2 := by simp [vec16, e16]
theorem length_vec24 (b : Bytes) : (vec24 b).length = b.length + 3 := by simp [vec24, e24]

theorem length_flatMap_e16 (l : List Nat) : (l.flatMap e16).length = 2 * l.length := by
  induction l with
  | nil => rfl
  | cons x t ih => simp only [List.flatMap_cons, List.length_append, length_e16, ih, List.length_cons]; omega

theorem pairs16_flatMap (l : List Nat) (h : fits 65536 l) : pairs16 (l.flatMap e16) = l := by
  induction l with
  | nil => rfl
  | cons x t ih =>
    have hx : x < 65536 := h x (by simp)
    have ht : fits 65536 t := fun y hy => h y (by simp [hy])
    simp only [List.flatMap_cons, e16, List.cons_append, List.nil_append, pairs16, be16_e16 x hx, ih ht]

theorem chunks16_flatMap (l : List Nat) (h : fits 65536 l) : chunks16? (l.flatMap e16) = some l := by
  unfold chunks16?
  rw [length_flatMap_e16, pairs16_flatMap l h]
  have : ¬ (2 * l.length % 2 = 1) := by omega
  simp [this]

/-! ### lists inside extension bodies -/

theorem length_encName (n : Nat × Bytes) : (encName n).length = n.2.length + 3 := by
  simp [encName, e8, length_vec16]

theorem sniNames_flatMap (names : List (Nat × Bytes)) (h : ∀ n ∈ names, n.1 < 256 ∧ n.2.length < 65536) :
    ∀ fuel, names.length ≤ fuel → sniNames fuel (names.flatMap encName) = names := by
  induction names with
  | nil => intro fuel _; cases fuel <;> rfl
  | cons n t ih =>
    intro fuel hf
    cases fuel with
    | zero => simp at hf
    | succ f =>
      obtain ⟨h1, h2⟩ := h n (by simp)
      simp only [List.flatMap_cons, encName, List.append_assoc, sniNames, u8_e8 _ h1, ld16 _ _ h2]
      rw [ih (fun m hm => h m (by simp [hm])) f (by simpa using hf)]

theorem length_le_flatMap_encName (names : List (Nat × Bytes)) : names.length ≤ (names.flatMap encName).length := by
  induction names with
  | nil => simp
  | cons n t ih => simp only [List.flatMap_cons, List.length_append, length_encName, List.length_cons]; omega

theorem protoNames_flatMap (ps : List Bytes) (h : ∀ p ∈ ps, p.length < 256) :
    ∀ fuel, ps.length ≤ fuel → protoNames fuel (ps.flatMap vec8) = ps := by
  induction ps with
  | nil => intro fuel _; cases fuel <;> rfl
  | cons p t ih =>
    intro fuel hf
    cases fuel with
    | zero => simp at hf
    | succ f =>
      simp only [List.flatMap_cons, protoNames, ld8 _ _ (h p (by simp))]
      rw [ih (fun m hm => h m (by simp [hm])) f (by simpa using hf)]

theorem length_le_flatMap_vec8 (ps : List Bytes) : ps.length ≤ (ps.flatMap vec8).length := by
  induction ps with
  | nil => simp
  | cons n t ih => simp only [List.flatMap_cons, List.length_append, length_vec8, List.length_cons]; omega

/-! ### one extension -/

/-- what tls-parser's `TlsExtension` (as far as the model keeps it) is for an abstract extension -/
def toExtV : Ext → ExtV
  | .serverName names => .sni names
  | .alpn ps => .alpn ps
  | .supportedVersions vs => .supportedVersions vs
  | .signatureAlgorithms xs => .sigAlgs xs
  | .supportedGroups xs => .curves xs
  | .ecPointFormats f => .pointFormats f
  | .other t _ => if greaseLike t then .grease t else .other t

theorem body_length_lt (bodyOk : Nat → Bytes → Bool) (x : Ext) (h : x.WF bodyOk) :
    x.type < 65536 ∧ x.body.length < 65536 := by
  cases x with
  | serverName names =>
    obtain ⟨_, h2, _⟩ := h
    exact ⟨by simp [Ext.type], by simp only [Ext.body, length_vec16]; omega⟩
  | alpn ps =>
    obtain ⟨_, _, h3⟩ := h
    exact ⟨by simp [Ext.type], by simp only [Ext.body, length_vec16]; omega⟩
  | supportedVersions vs =>
    obtain ⟨_, _, h3⟩ := h
    exact ⟨by simp [Ext.type], by simp only [Ext.body, length_vec8, length_flatMap_e16]; omega⟩
  | signatureAlgorithms xs =>
    obtain ⟨_, h2⟩ := h
    exact ⟨by simp [Ext.type], by simp only [Ext.body, length_vec16, length_flatMap_e16]; omega⟩
  | supportedGroups xs =>
    obtain ⟨_, h2⟩ := h
    exact ⟨by simp [Ext.type], by simp only [Ext.body, length_vec16, length_flatMap_e16]; omega⟩
  | ecPointFormats f =>
    have h' : f.length < 256 := h
    exact ⟨by simp [Ext.type], by simp only [Ext.body, length_vec8]; omega⟩
  | other t b =>
    obtain ⟨h1, _, h3, _⟩ := h
    exact ⟨h1, h3⟩

theorem parseExt_encode (bodyOk : Nat → Bytes → Bool) (x : Ext) (h : x.WF bodyOk) (rest : Bytes) :
    parseExt bodyOk (x.encode ++ rest) = some (toExtV x, rest) := by
  obtain ⟨ht, hb⟩ := body_length_lt bodyOk x h
  unfold parseExt Ext.encode
  simp only [List.append_assoc, u16_e16 _ ht, ld16 _ _ hb]
  cases x with
  | serverName names =>
    obtain ⟨h1, h2, h3⟩ := h
    have hg : greaseLike 0 = false := by decide
    simp only [Ext.type, hg, Bool.false_eq_true, if_false, if_true, Ext.body, toExtV]
    have hne : (vec16 (names.flatMap encName)).isEmpty = false := by simp [vec16, e16]
    have := ld16 (names.flatMap encName) [] (by omega)
    simp only [List.append_nil] at this
    simp only [parseSni, hne, Bool.false_eq_true, if_false, this,
      sniNames_flatMap names h1 _ (length_le_flatMap_encName names), Option.map_some]
  | alpn ps =>
    obtain ⟨h1, h2, h3⟩ := h
    have hg : greaseLike 16 = false := by decide
    have := ld16 (ps.flatMap vec8) [] (by omega)
    simp only [List.append_nil] at this
    simp only [Ext.type, hg, Bool.false_eq_true, if_false, Ext.body, toExtV, parseAlpn, this,
      protoNames_flatMap ps h2 _ (length_le_flatMap_vec8 ps), Option.map_some]
    simp
  | supportedVersions vs =>
    obtain ⟨h1, h2, h3⟩ := h
    have hg : greaseLike 43 = false := by decide
    have hsv : parseSupportedVersions (vec8 (vs.flatMap e16)) = some (.supportedVersions vs) := by
      cases vs with
      | nil => exact absurd rfl h1
      | cons v t =>
        have hc := chunks16_flatMap (v :: t) h2
        cases t with
        | nil =>
          -- one version: body = [2, hi, lo] (three bytes, not the two-byte ServerHello form)
          simp only [vec8, e8, List.cons_append, List.nil_append, parseSupportedVersions, hc, Option.map_some] 
          simp [List.flatMap_cons, e16, parseSupportedVersions, chunks16?, pairs16] at hc ⊢
          exact hc
        | cons w u =>
          have hl : ∃ a b c d r, (v :: w :: u).flatMap e16 = a :: b :: c :: d :: r := by
            simp [List.flatMap_cons, e16]
          obtain ⟨a, b, c, d, r, hr⟩ := hl
          rw [hr] at hc
          simp only [vec8, e8, List.cons_append, List.nil_append, hr, parseSupportedVersions, hc, Option.map_some]
    simp only [Ext.type, hg, Bool.false_eq_true, if_false, Ext.body, toExtV, hsv]
    simp
  | signatureAlgorithms xs =>
    obtain ⟨h1, h2⟩ := h
    have hg : greaseLike 13 = false := by decide
    have := ld16 (xs.flatMap e16) [] (by rw [length_flatMap_e16]; omega)
    simp only [List.append_nil] at this
    simp only [Ext.type, hg, Bool.false_eq_true, if_false, Ext.body, toExtV, parseSigAlgs, this,
      pairs16_flatMap xs h1]
    simp
  | supportedGroups xs =>
    obtain ⟨h1, h2⟩ := h
    have hg : greaseLike 10 = false := by decide
    have := ld16 (xs.flatMap e16) [] (by rw [length_flatMap_e16]; omega)
    simp only [List.append_nil] at this
    simp only [Ext.type, hg, Bool.false_eq_true, if_false, Ext.body, toExtV, parseCurves, this,
      chunks16_flatMap xs h1]
    simp
  | ecPointFormats f =>
    have h' : f.length < 256 := h
    have hg : greaseLike 11 = false := by decide
    have := ld8 f [] h'
    simp only [List.append_nil] at this
    simp only [Ext.type, hg, Bool.false_eq_true, if_false, Ext.body, toExtV, parsePointFormats, this]
    simp
  | other t b =>
    obtain ⟨h1, h2, h3, h4⟩ := h
    simp only [Ext.type, Ext.body, toExtV]
    by_cases hg : greaseLike t = true
    · simp [hg]
    · have hg' : greaseLike t = false := by simpa using hg
      have hn : t ≠ 0 ∧ t ≠ 10 ∧ t ≠ 11 ∧ t ≠ 13 ∧ t ≠ 16 ∧ t ≠ 43 := by
        simp [decodedTypes] at h2
        omega
      simp [hg', hn.1, hn.2.1, hn.2.2.1, hn.2.2.2.1, hn.2.2.2.2.1, hn.2.2.2.2.2, h4]

theorem length_encode_pos (x : Ext) : 4 ≤ x.encode.length := by
  simp [Ext.encode, e16, length_vec16]

theorem length_le_flatMap_encode (es : List Ext) : es.length ≤ (es.flatMap Ext.encode).length := by
  induction es with
  | nil => simp
  | cons x t ih =>
    have := length_encode_pos x
    simp only [List.flatMap_cons, List.length_append, List.length_cons]; omega

theorem parseExts_encode (bodyOk : Nat → Bytes → Bool) (es : List Ext) (h : ∀ x ∈ es, x.WF bodyOk) :
    ∀ fuel, es.length ≤ fuel → parseExts bodyOk fuel (es.flatMap Ext.encode) = es.map toExtV := by
  induction es with
  | nil =>
    intro fuel _
    cases fuel with
    | zero => rfl
    | succ f => simp [parseExts, parseExt, u16?]
  | cons x t ih =>
    intro fuel hf
    cases fuel with
    | zero => simp at hf
    | succ f =>
      simp only [List.flatMap_cons, parseExts, parseExt_encode bodyOk x (h x (by simp)), List.map_cons]
      rw [ih (fun y hy => h y (by simp [hy])) f (by simpa using hf)]

/-! ### the ClientHello body, the handshake message, the record -/

/-- the `TlsClientHelloContents` tls-parser produces for a well-formed abstract hello -/
def helloOf (ch : ClientHello) : Hello :=
  { version := ch.legacyVersion, random := ch.random, sid := ch.sessionId, ciphers := ch.ciphers,
    comp := ch.compression, ext := ch.extensions.map (fun es => es.flatMap Ext.encode) }

theorem parseHelloBody_encode (bodyOk : Nat → Bytes → Bool) (ch : ClientHello) (h : ch.WF bodyOk) :
    parseHelloBody ch.body = some (helloOf ch) := by
  obtain ⟨_, hv, hr, hs, hc, hcl, hcomp, _, _, hel, _⟩ := h
  unfold parseHelloBody ClientHello.body
  generalize hE : extBlock ch.extensions = E
  simp only [List.append_assoc, u16_e16 _ hv]
  have htake : ∀ X : Bytes, take? 32 (ch.random ++ X) = some (ch.random, X) := by
    intro X; rw [← hr]; exact take_append _ _
  simp only [htake]
  have hsid : ch.sessionId.length < 256 := by omega
  have h32 : ¬ ch.sessionId.length > 32 := by omega
  have hcl2 : (ch.ciphers.flatMap e16).length < 65536 := by rw [length_flatMap_e16]; omega
  have heven : ¬ ((ch.ciphers.flatMap e16).length % 2 = 1) := by rw [length_flatMap_e16]; omega
  simp only [vec8, vec16, List.append_assoc, u8_e8 _ hsid, h32, if_false, take_append, u16_e16 _ hcl2, heven,
    pairs16_flatMap _ hc]
  have hld := ld8 ch.compression E hcomp
  simp only [vec8, List.append_assoc] at hld
  simp only [hld]
  unfold helloOf
  congr 2
  subst hE
  cases hx : ch.extensions with
  | none => simp [extBlock, lengthData16?, u16?]
  | some es =>
    have : (es.flatMap Ext.encode).length < 65536 := by simpa [ClientHello.exts, hx] using hel
    have := ld16 (es.flatMap Ext.encode) [] this
    simp only [List.append_nil] at this
    simp [extBlock, this]

theorem firstHello_single (h : Hello) : firstHello [Msg.hello h] = some h := rfl

/-- **Wire round trip**: the record parser finds exactly the encoded hello. -/
theorem parsePlaintext_encode (bodyOk : Nat → Bytes → Bool) (ch : ClientHello) (h : ch.WF bodyOk) :
    parsePlaintext (encode ch) = some [Msg.hello (helloOf ch)] := by
  have hb := parseHelloBody_encode bodyOk ch h
  obtain ⟨hrv, _, _, _, _, _, _, _, _, _, hlen⟩ := h
  have hhl : ch.handshake.length < 65536 := by omega
  have hbl : ch.body.length < 16777216 := by
    have : ch.handshake.length = ch.body.length + 4 := by simp [ClientHello.handshake, e8, length_vec24]
    omega
  unfold encode parsePlaintext
  simp only [e8, e16, vec16, List.cons_append, List.nil_append, be16_e16 _ hhl]
  have hmax : ¬ ch.handshake.length > maxRecordLen := by simp [maxRecordLen]; omega
  have htk := take_append ch.handshake []
  simp only [List.append_nil] at htk
  simp only [hmax, if_false, htk]
  have h22 : (UInt8.ofNat 22).toNat = 0x16 := by decide
  simp only [h22, if_true]
  -- the message loop
  have hmsg : parseMsg ch.handshake = some (Msg.hello (helloOf ch), []) := by
    unfold parseMsg ClientHello.handshake
    have h1 : (1 : Nat) < 256 := by decide
    have := ld24 ch.body [] hbl
    simp only [List.append_nil] at this
    simp only [u8_e8 _ h1, this, if_true, hb, Option.map_some]
  have hpos : 0 < ch.handshake.length := by simp [ClientHello.handshake, e8]
  obtain ⟨f, hf⟩ : ∃ f, ch.handshake.length = f + 1 := ⟨ch.handshake.length - 1, by omega⟩
  rw [hf]
  simp only [parseMsgs, hmsg]
  have hnil : ∀ f, parseMsgs f [] = [] := by
    intro f; cases f <;> simp [parseMsgs, parseMsg, u8?]
  simp [hnil]

theorem length_encode (ch : ClientHello) : (encode ch).length = ch.handshake.length + 5 := by
  simp [encode, e8, e16, length_vec16]

/-- `parse_tls_client_hello` on the encoding of a well-formed hello -/
theorem parseClientHello_encode (bodyOk : Nat → Bytes → Bool) (ch : ClientHello) (h : ch.WF bodyOk) :
    parseClientHello bodyOk (encode ch) = .sig (extractSig bodyOk (helloOf ch)) := by
  have hp := parsePlaintext_encode bodyOk ch h
  obtain ⟨hrv, _, _, _, _, _, _, _, _, _, hlen⟩ := h
  have hhl : ch.handshake.length < 65536 := by omega
  unfold parseClientHello
  have hl := length_encode ch
  have h5 : ¬ (encode ch).length < 5 := by omega
  have hneed : be16 ((encode ch).getD 3 0) ((encode ch).getD 4 0) + 5 = (encode ch).length := by
    rw [hl]
    simp only [encode, e8, e16, vec16, List.cons_append, List.nil_append, List.getD_cons_succ, List.getD_cons_zero,
      be16_e16 _ hhl]
  simp only [h5, if_false, hneed, Nat.le_refl, if_true, List.take_length, hp, firstHello_single]

end Huginn.Lemmas.TlsWire
