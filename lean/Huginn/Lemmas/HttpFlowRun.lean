import Huginn.Lemmas.HttpFlowData
import Huginn.Lemmas.HttpFlowKey
/-
Helper lemmas for C09: the analyzer's run on one connection refines the sequence-space
specification whenever the assembled bytes and the stream are judged alike by the parsers.
-/
namespace Huginn.HttpFlow
open Huginn.HttpFlow.Spec Huginn.Gen
set_option linter.unusedSimpArgs false
variable {ρ σ : Type}

def toPkt (c : Conn) (d : DataPkt) : Pkt :=
  if d.fromClient then ⟨c.client.srcIp, c.client.dstIp, c.client.srcPort, c.client.dstPort, d.seq, d.flags, d.payload⟩
  else ⟨c.client.dstIp, c.client.srcIp, c.client.dstPort, c.client.srcPort, d.seq, d.flags, d.payload⟩

def synPkt (c : Conn) : Pkt := ⟨c.client.srcIp, c.client.dstIp, c.client.srcPort, c.client.dstPort, c.isnC, 2, []⟩
def synAckPkt (c : Conn) : Pkt := ⟨c.client.dstIp, c.client.srcIp, c.client.dstPort, c.client.srcPort, c.isnS, 18, []⟩

theorem packets_eq (c : Conn) (ds : List DataPkt) :
    c.packets ds = synPkt c :: synAckPkt c :: ds.map (toPkt c) := by
  unfold Conn.packets synPkt synAckPkt
  simp only [List.cons.injEq, true_and]
  apply List.map_congr_left
  intro d _
  unfold toPkt
  rfl

/-- the parsers accept nothing shorter than the analyzer's minimum -/
def MinLen (P : Parsers ρ σ) : Prop :=
  (∀ d r, P.request d = some r → HttpLists.flowMinLen ≤ d.length) ∧
  (∀ d r, P.response d = some r → HttpLists.flowMinLen ≤ d.length)

/-- at every arrival the parsers judge the assembled bytes and the stream alike -/
def Agrees (P : Parsers ρ σ) (c : Conn) : List Seg → List Seg → List DataPkt → Prop
  | _, _, [] => True
  | accC, accS, d :: ds =>
    if d.payload.isEmpty then Agrees P c accC accS ds
    else if d.fromClient then
      P.request (fullData (some c.isnC) (accC ++ [⟨d.seq, d.payload⟩])) = P.request (stream c.isnC (accC ++ [⟨d.seq, d.payload⟩])) ∧
      Agrees P c (accC ++ [⟨d.seq, d.payload⟩]) accS ds
    else
      P.response (fullData (some c.isnS) (accS ++ [⟨d.seq, d.payload⟩])) = P.response (stream c.isnS (accS ++ [⟨d.seq, d.payload⟩])) ∧
      Agrees P c accC (accS ++ [⟨d.seq, d.payload⟩]) ds

def PlainFlags (ds : List DataPkt) : Prop :=
  ∀ d ∈ ds, hasFlag d.flags FIN = false ∧ hasFlag d.flags RST = false ∧ hasFlag d.flags SYN = false

structure Rel (c : Conn) (m : FlowMap) (st : St) : Prop where
  norev : m.get c.client.rev = none
  done : st.doneC = true → st.doneS = true → m.get c.client = none
  active : ¬ (st.doneC = true ∧ st.doneS = true) → ∃ f, m.get c.client = some f ∧
    f.clientIp = c.client.srcIp ∧ f.clientPort = c.client.srcPort ∧
    f.serverIp = c.client.dstIp ∧ f.serverPort = c.client.dstPort ∧
    f.clientIsn = c.isnC ∧ f.serverIsn = some c.isnS ∧
    f.clientParsed = st.doneC ∧ f.serverParsed = st.doneS ∧
    (st.doneC = false → f.clientData = ⟨wadd c.isnC 1, []⟩ :: st.segsC) ∧
    (st.doneS = false → f.serverData = st.segsS)

theorem hasComplete_of_request (P : Parsers ρ σ) (hm : MinLen P) (d : Bytes) (r : ρ) (h : P.request d = some r) :
    hasCompleteHttpData P d = true := by
  unfold hasCompleteHttpData
  have := hm.1 d r h
  have : ¬ d.length < HttpLists.flowMinLen := by omega
  simp [this, h]

theorem hasComplete_of_response (P : Parsers ρ σ) (hm : MinLen P) (d : Bytes) (r : σ) (h : P.response d = some r) :
    hasCompleteHttpData P d = true := by
  unfold hasCompleteHttpData
  have := hm.2 d r h
  have : ¬ d.length < HttpLists.flowMinLen := by omega
  simp [this, h]

/-- the client branch, evaluated -/
theorem clientBranch_eval (P : Parsers ρ σ) (hm : MinLen P) (f : TcpFlow) (seg : Seg)
    (hp : f.clientParsed = false) (hcap : totalLen (f.clientData ++ [seg]) ≤ maxBufferedHeadBytes) :
    clientBranch P f seg =
      match P.request (fullData (some f.clientIsn) (f.clientData ++ [seg])) with
      | some r => ({ f with clientData := f.clientData ++ [seg], clientParsed := true }, some r)
      | none => ({ f with clientData := f.clientData ++ [seg] }, none) := by
  unfold clientBranch
  have h1 : ¬ bufferedLen (f.clientData ++ [seg]) > maxBufferedHeadBytes := by
    rw [bufferedLen_eq_totalLen]; omega
  simp only [hp, Bool.false_eq_true, if_false, h1]
  cases hr : P.request (fullData (some f.clientIsn) (f.clientData ++ [seg])) with
  | some r => simp [hasComplete_of_request P hm _ r hr]
  | none => simp

theorem serverBranch_eval (P : Parsers ρ σ) (hm : MinLen P) (f : TcpFlow) (seg : Seg)
    (hp : f.serverParsed = false) (hcap : totalLen (f.serverData ++ [seg]) ≤ maxBufferedHeadBytes) :
    serverBranch P f seg =
      match P.response (fullData f.serverIsn (f.serverData ++ [seg])) with
      | some r => ({ f with serverData := f.serverData ++ [seg], serverParsed := true }, some r)
      | none => ({ f with serverData := f.serverData ++ [seg] }, none) := by
  unfold serverBranch
  have h1 : ¬ bufferedLen (f.serverData ++ [seg]) > maxBufferedHeadBytes := by
    rw [bufferedLen_eq_totalLen]; omega
  simp only [hp, Bool.false_eq_true, if_false, h1]
  cases hr : P.response (fullData f.serverIsn (f.serverData ++ [seg])) with
  | some r => simp [hasComplete_of_response P hm _ r hr]
  | none => simp

end Huginn.HttpFlow

namespace Huginn.HttpFlow
open Huginn.HttpFlow.Spec Huginn.Gen
set_option linter.unusedSimpArgs false
variable {ρ σ : Type}

/-- one step of `specRun` -/
def specStep (P : Parsers ρ σ) (c : Conn) (st : St) (p : DataPkt) : (Option ρ × Option σ) × St :=
  if p.payload.isEmpty then ((none, none), st)
  else if p.fromClient then
    let segs := st.segsC ++ [⟨p.seq, p.payload⟩]
    if st.doneC then ((none, none), { st with segsC := segs }) else
    match P.request (stream c.isnC segs) with
    | some r => ((some r, none), { st with segsC := segs, doneC := true })
    | none => ((none, none), { st with segsC := segs })
  else
    let segs := st.segsS ++ [⟨p.seq, p.payload⟩]
    if st.doneS then ((none, none), { st with segsS := segs }) else
    match P.response (stream c.isnS segs) with
    | some r => ((none, some r), { st with segsS := segs, doneS := true })
    | none => ((none, none), { st with segsS := segs })

theorem specRun_cons (P : Parsers ρ σ) (c : Conn) (st : St) (p : DataPkt) (ps : List DataPkt) :
    specRun P c st (p :: ps) = (specStep P c st p).1 :: specRun P c (specStep P c st p).2 ps := by
  unfold specStep
  rw [specRun]
  cases h1 : p.payload.isEmpty with
  | true => simp only [if_true]
  | false =>
    simp only [Bool.false_eq_true, if_false]
    cases h2 : p.fromClient with
    | true =>
      simp only [if_true]
      cases h3 : st.doneC with
      | true => simp only [if_true]
      | false =>
        simp only [Bool.false_eq_true, if_false]
        cases P.request (stream c.isnC (st.segsC ++ [⟨p.seq, p.payload⟩])) <;> rfl
    | false =>
      simp only [Bool.false_eq_true, if_false]
      cases h3 : st.doneS with
      | true => simp only [if_true]
      | false =>
        simp only [Bool.false_eq_true, if_false]
        cases P.response (stream c.isnS (st.segsS ++ [⟨p.seq, p.payload⟩])) <;> rfl

theorem key_toPkt_client (c : Conn) (d : DataPkt) (h : d.fromClient = true) : (toPkt c d).key = c.client := by
  unfold toPkt Pkt.key; simp [h]
theorem key_toPkt_server (c : Conn) (d : DataPkt) (h : d.fromClient = false) : (toPkt c d).key = c.client.rev := by
  unfold toPkt Pkt.key FlowKey.rev; simp [h]

theorem rel_set (c : Conn) (m : FlowMap) (st : St) (f : TcpFlow) (hne : c.client ≠ c.client.rev)
    (hnorev : m.get c.client.rev = none)
    (hnd : ¬ (st.doneC = true ∧ st.doneS = true))
    (e1 : f.clientIp = c.client.srcIp) (e2 : f.clientPort = c.client.srcPort)
    (e3 : f.serverIp = c.client.dstIp) (e4 : f.serverPort = c.client.dstPort)
    (i1 : f.clientIsn = c.isnC) (i2 : f.serverIsn = some c.isnS)
    (p1 : f.clientParsed = st.doneC) (p2 : f.serverParsed = st.doneS)
    (d1 : st.doneC = false → f.clientData = ⟨wadd c.isnC 1, []⟩ :: st.segsC) (d2 : st.doneS = false → f.serverData = st.segsS) :
    Rel c (m.set c.client f) st :=
  { norev := by rw [FlowMap.get_set_ne _ _ _ _ (fun e => hne e.symm)]; exact hnorev
    done := fun a b => absurd ⟨a, b⟩ hnd
    active := fun _ => ⟨f, FlowMap.get_set_eq _ _ _, e1, e2, e3, e4, i1, i2, p1, p2, d1, d2⟩ }

theorem rel_erase (c : Conn) (m : FlowMap) (st : St) (f : TcpFlow) (hne : c.client ≠ c.client.rev)
    (hnorev : m.get c.client.rev = none) (hd : st.doneC = true ∧ st.doneS = true) :
    Rel c ((m.set c.client f).erase c.client) st :=
  { norev := by
      rw [FlowMap.get_erase_ne _ _ _ (fun e => hne e.symm), FlowMap.get_set_ne _ _ _ _ (fun e => hne e.symm)]
      exact hnorev
    done := fun _ _ => FlowMap.get_erase_eq _ _
    active := fun h => absurd hd h }

end Huginn.HttpFlow

namespace Huginn.HttpFlow
open Huginn.HttpFlow.Spec Huginn.Gen
set_option linter.unusedSimpArgs false
variable {ρ σ : Type}

theorem stepFound_plain (P : Parsers ρ σ) (m : FlowMap) (p : Pkt) (f : TcpFlow) (ic : Bool)
    (hp : p.payload.isEmpty = false) (h1 : hasFlag p.flags FIN = false) (h2 : hasFlag p.flags RST = false)
    (h3 : hasFlag p.flags SYN = false) :
    let k := if ic then p.key else p.key.rev
    let x := dispatch P f ic p
    (stepFound P m p f ic).request = x.2.1 ∧ (stepFound P m p f ic).response = x.2.2 ∧
    (stepFound P m p f ic).map =
      if x.1.clientParsed && x.1.serverParsed then (m.set k x.1).erase k else m.set k x.1 := by
  intro k x
  unfold stepFound noteSynAck
  simp only [hp, Bool.false_eq_true, if_false, h1, h2, h3, Bool.or_self, Bool.false_and]
  split <;> exact ⟨rfl, rfl, rfl⟩

theorem toPkt_fields (c : Conn) (d : DataPkt) :
    (toPkt c d).payload = d.payload ∧ (toPkt c d).flags = d.flags ∧ (toPkt c d).seq = d.seq ∧
    (d.fromClient = true → (toPkt c d).srcIp = c.client.srcIp ∧ (toPkt c d).srcPort = c.client.srcPort) ∧
    (d.fromClient = false → (toPkt c d).srcIp = c.client.dstIp ∧ (toPkt c d).srcPort = c.client.dstPort) := by
  unfold toPkt
  cases d.fromClient <;> simp

/-- one data packet: the analyzer's step matches the specification's step -/
theorem step_sim (P : Parsers ρ σ) (hm : MinLen P) (c : Conn) (hne : c.client ≠ c.client.rev)
    (m : FlowMap) (st : St) (d : DataPkt) (hrel : Rel c m st)
    (hfl : hasFlag d.flags FIN = false ∧ hasFlag d.flags RST = false ∧ hasFlag d.flags SYN = false)
    (hcapC : d.fromClient = true → totalLen st.segsC + d.payload.length ≤ maxBufferedHeadBytes)
    (hcapS : d.fromClient = false → totalLen st.segsS + d.payload.length ≤ maxBufferedHeadBytes)
    (hagC : d.payload.isEmpty = false → d.fromClient = true →
      P.request (fullData (some c.isnC) (st.segsC ++ [⟨d.seq, d.payload⟩])) = P.request (stream c.isnC (st.segsC ++ [⟨d.seq, d.payload⟩])))
    (hagS : d.payload.isEmpty = false → d.fromClient = false →
      P.response (fullData (some c.isnS) (st.segsS ++ [⟨d.seq, d.payload⟩])) = P.response (stream c.isnS (st.segsS ++ [⟨d.seq, d.payload⟩]))) :
    ((step P m (toPkt c d)).request, (step P m (toPkt c d)).response) = (specStep P c st d).1 ∧
    Rel c (step P m (toPkt c d)).map (specStep P c st d).2 := by
  obtain ⟨tp, tf, ts, tc, tsv⟩ := toPkt_fields c d
  by_cases hdone : st.doneC = true ∧ st.doneS = true
  · -- the flow is gone: nothing is found, no SYN, nothing happens
    have hk := hrel.done hdone.1 hdone.2
    have hl : lookup m (toPkt c d) = none := by
      unfold lookup
      cases hd : d.fromClient with
      | true => rw [key_toPkt_client c d hd, hk, hrel.norev]
      | false => rw [key_toPkt_server c d hd, hrel.norev, FlowKey.rev_rev, hk]
    have hs : step P m (toPkt c d) = { map := m } := by
      unfold step; rw [hl]; unfold stepNew; simp [tf, hfl.2.2]
    rw [hs]
    unfold specStep
    cases h1 : d.payload.isEmpty with
    | true => exact ⟨rfl, hrel⟩
    | false =>
      simp only [Bool.false_eq_true, if_false]
      cases h2 : d.fromClient with
      | true =>
        simp only [if_true, hdone.1]
        exact ⟨by first | trivial | rfl, ⟨hrel.norev, fun _ _ => hk, fun h => absurd (by simp [hdone.1, hdone.2]) h⟩⟩
      | false =>
        simp only [Bool.false_eq_true, if_false, hdone.2, if_true]
        exact ⟨by first | trivial | rfl, ⟨hrel.norev, fun _ _ => hk, fun h => absurd (by simp [hdone.1, hdone.2]) h⟩⟩
  · obtain ⟨f, hf, e1, e2, e3, e4, i1, i2, p1, p2, d1, d2⟩ := hrel.active hdone
    have hS : hasFlag (toPkt c d).flags SYN = false := by rw [tf]; exact hfl.2.2
    cases h1 : d.payload.isEmpty with
    | true =>
      -- no payload: the flow is found and left alone (no SYN, so no SYN-ACK note either)
      have hns : ∀ ic, noteSynAck f ic (toPkt c d) = f := by
        intro ic; unfold noteSynAck; simp [hS]
      have hs : (step P m (toPkt c d)).request = none ∧ (step P m (toPkt c d)).response = none ∧
          (step P m (toPkt c d)).map = m.set c.client f := by
        unfold step lookup
        cases hd : d.fromClient with
        | true =>
          rw [key_toPkt_client c d hd, hf]
          simp only []
          obtain ⟨a, b, _, _, e⟩ := stepFound_empty P m (toPkt c d) f true (by rw [tp]; exact h1)
          rw [hns, key_toPkt_client c d hd] at e
          exact ⟨a, b, by simpa using e⟩
        | false =>
          rw [key_toPkt_server c d hd, hrel.norev, FlowKey.rev_rev, hf]
          simp only []
          obtain ⟨a, b, _, _, e⟩ := stepFound_empty P m (toPkt c d) f false (by rw [tp]; exact h1)
          rw [hns, key_toPkt_server c d hd, FlowKey.rev_rev] at e
          exact ⟨a, b, by simpa using e⟩
      rw [hs.1, hs.2.1, hs.2.2]
      unfold specStep
      simp only [h1, if_true]
      exact ⟨trivial, rel_set c m st f hne hrel.norev hdone e1 e2 e3 e4 i1 (by first | exact i2 | rfl) p1 p2 d1 d2⟩
    | false =>
      have hpe : (toPkt c d).payload.isEmpty = false := by rw [tp]; exact h1
      have hF : hasFlag (toPkt c d).flags FIN = false := by rw [tf]; exact hfl.1
      have hR : hasFlag (toPkt c d).flags RST = false := by rw [tf]; exact hfl.2.1
      cases hd : d.fromClient with
      | true =>
        obtain ⟨sa, sb⟩ := tc hd
        have hkey := key_toPkt_client c d hd
        have hstep : step P m (toPkt c d) = stepFound P m (toPkt c d) f true := by
          unfold step lookup; rw [hkey, hf]
        obtain ⟨r1, r2, r3⟩ := stepFound_plain P m (toPkt c d) f true hpe hF hR hS
        simp only [if_true, hkey] at r3
        have hdisp : dispatch P f true (toPkt c d) =
            ((clientBranch P f ⟨d.seq, d.payload⟩).1, (clientBranch P f ⟨d.seq, d.payload⟩).2, none) := by
          unfold dispatch
          simp [sa, sb, e1, e2, ts, tp]
        rw [hstep, r1, r2, r3, hdisp]
        unfold specStep
        simp only [h1, Bool.false_eq_true, if_false, hd, if_true]
        cases hdc : st.doneC with
        | true =>
          have hds : st.doneS = false := by
            cases h : st.doneS with
            | false => rfl
            | true => exact absurd ⟨hdc, h⟩ hdone
          rw [clientBranch_done P f _ (by rw [p1]; exact hdc)]
          simp only [if_true, p1, p2, hdc, hds, Bool.and_false, Bool.false_eq_true, if_false]
          refine ⟨by first | trivial | rfl, rel_set c m _ f hne hrel.norev (by simp [hds]) e1 e2 e3 e4 i1 (by first | exact i2 | rfl) (by rw [p1, hdc]) (by rw [p2, hds])
            (by simp [hdc]) (fun _ => d2 hds)⟩
        | false =>
          have hcd := d1 hdc
          have hcap : totalLen (f.clientData ++ [⟨d.seq, d.payload⟩]) ≤ maxBufferedHeadBytes := by
            rw [hcd, totalLen_append]; simp only [totalLen]; have := hcapC hd; simp; omega
          rw [clientBranch_eval P hm f _ (by rw [p1]; exact hdc) hcap]
          have hfd : fullData (some f.clientIsn) (f.clientData ++ [⟨d.seq, d.payload⟩]) =
              fullData (some c.isnC) (st.segsC ++ [⟨d.seq, d.payload⟩]) := by
            rw [hcd, i1, List.cons_append]
            unfold fullData baseOf
            simp [List.filter_cons]
          rw [hfd, hagC h1 hd]
          simp only [Bool.false_eq_true, if_false]
          cases hr : P.request (stream c.isnC (st.segsC ++ [⟨d.seq, d.payload⟩])) with
          | none =>
            simp only [p1, hdc, Bool.false_and, Bool.false_eq_true, if_false]
            refine ⟨by first | trivial | rfl, rel_set c m _ _ hne hrel.norev (by simp [hdc]) e1 e2 e3 e4 i1 (by first | exact i2 | rfl) (by simp [p1, hdc]) (by simp [p2])
              (fun _ => by simp [hcd]) (fun h => by simpa using d2 h)⟩
          | some r =>
            simp only [Bool.true_and, p2]
            cases hds : st.doneS with
            | true =>
              simp only [if_true]
              exact ⟨by first | trivial | rfl, rel_erase c m _ _ hne hrel.norev (by simp [hds])⟩
            | false =>
              simp only [Bool.false_eq_true, if_false]
              refine ⟨by first | trivial | rfl, rel_set c m _ _ hne hrel.norev (by simp [hds]) e1 e2 e3 e4 i1 (by first | exact i2 | rfl) rfl (by simp [p2, hds])
                (by simp) (fun _ => by simpa using d2 hds)⟩
      | false =>
        obtain ⟨sa, sb⟩ := tsv hd
        have hkey := key_toPkt_server c d hd
        have hstep : step P m (toPkt c d) = stepFound P m (toPkt c d) f false := by
          unfold step lookup; rw [hkey, hrel.norev, FlowKey.rev_rev, hf]
        obtain ⟨r1, r2, r3⟩ := stepFound_plain P m (toPkt c d) f false hpe hF hR hS
        simp only [Bool.false_eq_true, if_false, hkey, FlowKey.rev_rev] at r3
        have hdisp : dispatch P f false (toPkt c d) =
            ((serverBranch P f ⟨d.seq, d.payload⟩).1, none, (serverBranch P f ⟨d.seq, d.payload⟩).2) := by
          unfold dispatch
          simp [sa, sb, e3, e4, ts, tp]
        rw [hstep, r1, r2, r3, hdisp]
        unfold specStep
        simp only [h1, Bool.false_eq_true, if_false, hd]
        cases hds : st.doneS with
        | true =>
          have hdc : st.doneC = false := by
            cases h : st.doneC with
            | false => rfl
            | true => exact absurd ⟨h, hds⟩ hdone
          rw [serverBranch_done P f _ (by rw [p2]; exact hds)]
          simp only [if_true, p1, p2, hdc, hds, Bool.false_and, Bool.false_eq_true, if_false]
          refine ⟨by first | trivial | rfl, rel_set c m _ f hne hrel.norev (by simp [hdc]) e1 e2 e3 e4 i1 (by first | exact i2 | rfl) (by rw [p1, hdc]) (by rw [p2, hds])
            (fun _ => d1 hdc) (by simp [hds])⟩
        | false =>
          have hsd := d2 hds
          have hcap : totalLen (f.serverData ++ [⟨d.seq, d.payload⟩]) ≤ maxBufferedHeadBytes := by
            rw [hsd, totalLen_append]; simp only [totalLen]; have := hcapS hd; omega
          rw [serverBranch_eval P hm f _ (by rw [p2]; exact hds) hcap, hsd, i2, hagS h1 hd]
          simp only [Bool.false_eq_true, if_false]
          cases hr : P.response (stream c.isnS (st.segsS ++ [⟨d.seq, d.payload⟩])) with
          | none =>
            simp only [p2, hds, Bool.and_false, Bool.false_eq_true, if_false]
            refine ⟨by first | trivial | rfl, rel_set c m _ _ hne hrel.norev (by simp [hds]) e1 e2 e3 e4 i1 (by first | exact i2 | rfl) (by simp [p1]) (by simp [p2, hds])
              (fun h => by simpa using d1 h) (fun _ => by simp [hsd])⟩
          | some r =>
            simp only [Bool.and_true, p1]
            cases hdc : st.doneC with
            | true =>
              simp only [if_true]
              exact ⟨by first | trivial | rfl, rel_erase c m _ _ hne hrel.norev (by simp [hdc])⟩
            | false =>
              simp only [Bool.false_eq_true, if_false]
              refine ⟨by first | trivial | rfl, rel_set c m _ _ hne hrel.norev (by simp [hdc]) e1 e2 e3 e4 i1 (by first | exact i2 | rfl) (by simp [p1, hdc]) rfl
                (fun _ => by simpa using d1 hdc) (by simp)⟩

end Huginn.HttpFlow

namespace Huginn.HttpFlow
open Huginn.HttpFlow.Spec Huginn.Gen
set_option linter.unusedSimpArgs false
variable {ρ σ : Type}

def segOf (d : DataPkt) : Seg := ⟨d.seq, d.payload⟩

theorem segsOf_cons (b : Bool) (d : DataPkt) (ds : List DataPkt) :
    segsOf b (d :: ds) = if (d.fromClient == b && !d.payload.isEmpty) then segOf d :: segsOf b ds else segsOf b ds := by
  unfold segsOf segOf
  simp only [List.filter_cons]
  split <;> simp

theorem specStep_segs (P : Parsers ρ σ) (c : Conn) (st : St) (d : DataPkt) :
    (specStep P c st d).2.segsC = (if d.payload.isEmpty then st.segsC else if d.fromClient then st.segsC ++ [segOf d] else st.segsC) ∧
    (specStep P c st d).2.segsS = (if d.payload.isEmpty then st.segsS else if d.fromClient then st.segsS else st.segsS ++ [segOf d]) := by
  unfold specStep segOf
  cases d.payload.isEmpty with
  | true => simp
  | false =>
    simp only [Bool.false_eq_true, if_false]
    cases d.fromClient with
    | true =>
      simp only [if_true]
      cases st.doneC with
      | true => simp
      | false =>
        simp only [Bool.false_eq_true, if_false]
        cases P.request (stream c.isnC (st.segsC ++ [⟨d.seq, d.payload⟩])) <;> simp
    | false =>
      simp only [Bool.false_eq_true, if_false]
      cases st.doneS with
      | true => simp
      | false =>
        simp only [Bool.false_eq_true, if_false]
        cases P.response (stream c.isnS (st.segsS ++ [⟨d.seq, d.payload⟩])) <;> simp

/-- the whole data phase -/
theorem run_sim (P : Parsers ρ σ) (hm : MinLen P) (c : Conn) (hne : c.client ≠ c.client.rev) :
    ∀ (ds : List DataPkt) (m : FlowMap) (st : St), Rel c m st → PlainFlags ds →
      Agrees P c st.segsC st.segsS ds →
      totalLen st.segsC + totalLen (segsOf true ds) ≤ maxBufferedHeadBytes →
      totalLen st.segsS + totalLen (segsOf false ds) ≤ maxBufferedHeadBytes →
      run P m (ds.map (toPkt c)) = specRun P c st ds
  | [], _, _, _, _, _, _, _ => by simp [run, specRun]
  | d :: ds, m, st, hrel, hpl, hag, hcC, hcS => by
    have hfl := hpl d (by simp)
    rw [segsOf_cons] at hcC hcS
    unfold Agrees at hag
    have hstep := step_sim P hm c hne m st d hrel hfl
      (by
        intro hd
        cases he : d.payload.isEmpty with
        | true => have : d.payload = [] := List.isEmpty_iff.mp he
                  rw [this]; simp; have := hcC; omega
        | false => simp [hd, he, totalLen, segOf] at hcC; omega)
      (by
        intro hd
        cases he : d.payload.isEmpty with
        | true => have : d.payload = [] := List.isEmpty_iff.mp he
                  rw [this]; simp; have := hcS; omega
        | false => simp [hd, he, totalLen, segOf] at hcS; omega)
      (by intro he hd; simp [he, hd] at hag; exact hag.1)
      (by intro he hd; simp [he, hd] at hag; exact hag.1)
    obtain ⟨hout, hrel'⟩ := hstep
    obtain ⟨sc, ss⟩ := specStep_segs P c st d
    simp only [List.map_cons, run]
    rw [specRun_cons, hout]
    congr 1
    apply run_sim P hm c hne ds _ _ hrel' (fun x hx => hpl x (by simp [hx]))
    · rw [sc, ss]
      cases he : d.payload.isEmpty with
      | true => simp [he] at hag ⊢; exact hag
      | false =>
        cases hd : d.fromClient with
        | true => simp [he, hd] at hag ⊢; exact hag.2
        | false => simp [he, hd] at hag ⊢; exact hag.2
    · rw [sc]
      cases he : d.payload.isEmpty with
      | true => simp [he] at hcC ⊢; exact hcC
      | false =>
        cases hd : d.fromClient with
        | true => simp [he, hd, totalLen, totalLen_append, segOf] at hcC ⊢; omega
        | false => simp [he, hd] at hcC ⊢; exact hcC
    · rw [ss]
      cases he : d.payload.isEmpty with
      | true => simp [he] at hcS ⊢; exact hcS
      | false =>
        cases hd : d.fromClient with
        | true => simp [he, hd] at hcS ⊢; exact hcS
        | false => simp [he, hd, totalLen, totalLen_append, segOf] at hcS ⊢; omega

/-- SYN and SYN-ACK on an empty table -/
theorem handshake (P : Parsers ρ σ) (c : Conn) (hne : c.client ≠ c.client.rev) :
    ∃ m, Rel c m {} ∧ ∀ rest, run P [] (synPkt c :: synAckPkt c :: rest) = (none, none) :: (none, none) :: run P m rest := by
  let flow0 : TcpFlow :=
    { clientIp := c.client.srcIp, serverIp := c.client.dstIp, clientPort := c.client.srcPort,
      serverPort := c.client.dstPort, clientData := [⟨wadd c.isnC 1, []⟩], serverData := [],
      clientParsed := false, serverParsed := false, clientIsn := c.isnC, serverIsn := none }
  let flow1 : TcpFlow := { flow0 with serverIsn := some c.isnS }
  have hk1 : (synPkt c).key = c.client := by unfold synPkt Pkt.key; rfl
  have hk2 : (synAckPkt c).key = c.client.rev := by unfold synAckPkt Pkt.key FlowKey.rev; rfl
  have s1 : step P [] (synPkt c) = { map := FlowMap.set [] c.client flow0, stored := some c.client, opened := true } := by
    unfold step lookup
    simp only [FlowMap.get_nil]
    unfold stepNew
    have : hasFlag (synPkt c).flags SYN = true := by
      show hasFlag 2 SYN = true; decide
    simp only [this, if_true, hk1]
    rfl
  have s2 : (step P (FlowMap.set [] c.client flow0) (synAckPkt c)).request = none ∧
      (step P (FlowMap.set [] c.client flow0) (synAckPkt c)).response = none ∧
      (step P (FlowMap.set [] c.client flow0) (synAckPkt c)).map = (FlowMap.set [] c.client flow0).set c.client flow1 := by
    unfold step lookup
    rw [hk2, FlowMap.get_set_ne _ _ _ _ (fun e => hne e.symm), FlowKey.rev_rev, FlowMap.get_set_eq]
    simp only [FlowMap.get_nil]
    obtain ⟨a, b, _, _, e⟩ := stepFound_empty P (FlowMap.set [] c.client flow0) (synAckPkt c) flow0 false rfl
    refine ⟨a, b, ?_⟩
    rw [e, hk2, FlowKey.rev_rev]
    have : noteSynAck flow0 false (synAckPkt c) = flow1 := by
      unfold noteSynAck
      have h : hasFlag (synAckPkt c).flags SYN = true := by show hasFlag 18 SYN = true; decide
      have hn : flow0.serverIsn.isNone = true := rfl
      simp only [h, hn, Bool.not_false, Bool.and_self, if_true]
      rfl
    simp [this]
  refine ⟨(FlowMap.set [] c.client flow0).set c.client flow1, ?_, ?_⟩
  · exact rel_set c _ {} flow1 hne (by rw [FlowMap.get_set_ne _ _ _ _ (fun e => hne e.symm)]; rfl) (by simp)
      rfl rfl rfl rfl rfl rfl rfl rfl (fun _ => rfl) (fun _ => rfl)
  · intro rest
    simp only [run, s1, s2.1, s2.2.1, s2.2.2]

end Huginn.HttpFlow
