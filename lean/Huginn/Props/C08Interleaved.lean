import Huginn.Props.C08
import Huginn.Props.C08FlowBridge
import Huginn.Props.C07Cap
/-
C08 ∘ C07: the exactly-once / segmentation-invariance theorem of C08, inside arbitrary other traffic.

Take ANY interleaved capture `tr` (any number of connections, any content) that opens at most `cap ≥ 1`
distinct TLS flows. If the segments of flow `c` in it, in arrival order and within one TTL window, carry
payloads `s0 :: rest` that concatenate to a ClientHello record followed by anything, the first one
starting a handshake record and none after the completing one starting a new record, then in the
interleaved run the analyzer reports for `c`: nothing before the completing segment, the parser's
result on it, nothing afterwards — for every division into segments and every interleaving. Only the
flow's first segment may carry SYN (TCP Fast Open): a later SYN on the 4-tuple starts a NEW connection,
whose bytes are deliberately not appended (`tlsProg`'s reset).
-/
namespace Huginn.Props.C08
open Huginn.Tls Huginn.Gen.Tls Huginn.Lemmas.TlsReader Huginn.FlowProgs Huginn.Flow Huginn.Props.C08Bridge Huginn.Props.C07

theorem tls_exactly_once_interleaved {σ : Type} (parse : Huginn.Tls.Bytes → PR σ) {r tail : Huginn.Tls.Bytes} {s : σ}
    (s0 : Huginn.Tls.Bytes) (rest : List Huginn.Tls.Bytes)
    (hr : IsRecord r) (hp : parse r = .sig s) (hcat : (s0 :: rest).flatten = r ++ tail)
    (hhead : Spec.startsRecord s0 = true)
    (hlater : ∀ x ∈ (s0 :: rest).drop (Spec.completionIdx r.length (s0 :: rest) + 1), Spec.startsRecord x = false)
    -- the whole capture and flow `c`'s part of it
    (tr : List Seg) (c : FlowKey) (mine : List Seg)
    (hsel : tr.filter (fun p => decide (flowKeyOf p = c)) = mine)
    (hpay : mine.map (·.payload) = s0 :: rest)
    (hsyn : ∀ x ∈ mine.drop 1, x.syn = false)
    (a : Nat) (hwin : ∀ x ∈ mine, a ≤ x.time ∧ x.time ≤ a + (tlsP parse).ttlMs)
    (cap : Nat) (hcap : 1 ≤ cap) (K : List FlowKey) (hK : ∀ x ∈ tr, flowKeyOf x ∈ K) (hlen : K.length ≤ cap) :
    (((tlsAnalyzer (tlsP parse)).runOuts ({ cap := cap }, ()) tr).filter
        (fun po => decide (flowKeyOf po.1 = c))).map (·.2) =
      List.replicate (Spec.completionIdx r.length (s0 :: rest)) none ++ [some s]
        ++ List.replicate ((s0 :: rest).length - Spec.completionIdx r.length (s0 :: rest) - 1) none := by
  rw [tls_isolation_cap (tlsP parse) c tr cap K hK hlen, hsel,
    tls_trace_bridge_fresh parse a cap mine hwin]
  have hS : runPacketsS parse ({ cap := cap } : Flows FlowKey σ)
        (mine.map (fun x => ((⟨x.src, x.dst⟩ : FlowKey), x.syn, x.payload))) =
      runPackets parse ({ cap := cap } : Flows FlowKey σ)
        (mine.map (fun x => ((⟨x.src, x.dst⟩ : FlowKey), x.payload))) := by
    cases mine with
    | nil => rfl
    | cons x xs =>
      rw [List.map_cons, runPacketsS_headSyn parse _ _ x.syn x.payload _ (by intro e he; cases he)
        (by
          intro y hy
          obtain ⟨z, hz, rfl⟩ := List.mem_map.1 hy
          exact hsyn z (by simpa using hz))]
      simp [List.map_map, Function.comp_def]
  rw [hS]
  have hkeys : mine.map (fun x => ((⟨x.src, x.dst⟩ : FlowKey), x.payload)) = (s0 :: rest).map (fun p => (c, p)) := by
    rw [← hpay, List.map_map]
    apply List.map_congr_left
    intro x hx
    have : flowKeyOf x = c := by
      rw [← hsel] at hx
      simpa using (List.mem_filter.1 hx).2
    simp only [Function.comp]
    rw [← this]; rfl
  rw [hkeys, flow_exactly_once parse ({ cap := cap } : Flows FlowKey σ) c s0 rest hcap (by rfl) hr hp hcat hhead hlater]
  simp [toPOut, List.map_append, List.map_replicate]

/-- Segments without payload (the handshake's SYN, bare ACKs) of a flow the table does not hold: nothing is
stored, nothing is reported. -/
theorem runPacketsS_emptyPrefix {κ σ : Type} [DecidableEq κ] (parse : Huginn.Tls.Bytes → PR σ) (f : Flows κ σ) (k : κ)
    (hk : ∀ e ∈ f.entries, e.1 ≠ k) (pre ps : List (κ × Bool × Huginn.Tls.Bytes))
    (hpre : ∀ x ∈ pre, x.1 = k ∧ x.2.2 = []) :
    runPacketsS parse f (pre ++ ps) = List.replicate pre.length POut.none ++ runPacketsS parse f ps := by
  have hrm : f.remove k = f := by
    unfold Flows.remove
    have : f.entries.filter (fun e => e.1 ≠ k) = f.entries := by
      apply List.filter_eq_self.2
      intro e he; simpa using hk e he
    rw [this]
  induction pre with
  | nil => rfl
  | cons x pre ih =>
    obtain ⟨k', syn, p⟩ := x
    obtain ⟨h1, h2⟩ := hpre (k', syn, p) (by simp)
    simp only at h1 h2; subst h1; subst h2
    have hf : (if syn = true then f.remove k' else f) = f := by split <;> simp [hrm]
    simp only [List.cons_append, runPacketsS, processTcpS, hf, processTcp, processTcpT, List.isEmpty_nil, if_true,
      List.length_cons, List.replicate_succ, List.cons.injEq, true_and]
    exact ih (fun y hy => hpre y (by simp [hy]))

/-- **The connection as it appears on the wire**: the flow's segments in the capture are first any number of
segments without payload (the SYN of the handshake, bare ACKs — whatever their flags), then the data segments of
`tls_exactly_once_interleaved`. The segments without payload are answered with nothing, the rest as before. -/
theorem tls_exactly_once_interleaved_handshake {σ : Type} (parse : Huginn.Tls.Bytes → PR σ) {r tail : Huginn.Tls.Bytes} {s : σ}
    (s0 : Huginn.Tls.Bytes) (rest : List Huginn.Tls.Bytes)
    (hr : IsRecord r) (hp : parse r = .sig s) (hcat : (s0 :: rest).flatten = r ++ tail)
    (hhead : Spec.startsRecord s0 = true)
    (hlater : ∀ x ∈ (s0 :: rest).drop (Spec.completionIdx r.length (s0 :: rest) + 1), Spec.startsRecord x = false)
    (tr : List Seg) (c : FlowKey) (pre body : List Seg)
    (hsel : tr.filter (fun p => decide (flowKeyOf p = c)) = pre ++ body)
    (hpre : ∀ x ∈ pre, x.payload = [])
    (hpay : body.map (·.payload) = s0 :: rest)
    (hsyn : ∀ x ∈ body.drop 1, x.syn = false)
    (a : Nat) (hwin : ∀ x ∈ pre ++ body, a ≤ x.time ∧ x.time ≤ a + (tlsP parse).ttlMs)
    (cap : Nat) (hcap : 1 ≤ cap) (K : List FlowKey) (hK : ∀ x ∈ tr, flowKeyOf x ∈ K) (hlen : K.length ≤ cap) :
    (((tlsAnalyzer (tlsP parse)).runOuts ({ cap := cap }, ()) tr).filter
        (fun po => decide (flowKeyOf po.1 = c))).map (·.2) =
      List.replicate pre.length none ++
      (List.replicate (Spec.completionIdx r.length (s0 :: rest)) none ++ [some s]
        ++ List.replicate ((s0 :: rest).length - Spec.completionIdx r.length (s0 :: rest) - 1) none) := by
  have hkey : ∀ x ∈ pre ++ body, (⟨x.src, x.dst⟩ : FlowKey) = c := by
    intro x hx
    rw [← hsel] at hx
    have := (List.mem_filter.1 hx).2
    exact of_decide_eq_true this
  rw [tls_isolation_cap (tlsP parse) c tr cap K hK hlen, hsel,
    tls_trace_bridge_fresh parse a cap (pre ++ body) hwin, List.map_append]
  rw [runPacketsS_emptyPrefix parse ({ cap := cap } : Flows FlowKey σ) c (by intro e he; cases he)
    (pre.map (fun x => ((⟨x.src, x.dst⟩ : FlowKey), x.syn, x.payload))) _
    (by
      intro y hy
      obtain ⟨z, hz, rfl⟩ := List.mem_map.1 hy
      exact ⟨hkey z (by simp [hz]), hpre z hz⟩)]
  have hS : runPacketsS parse ({ cap := cap } : Flows FlowKey σ)
        (body.map (fun x => ((⟨x.src, x.dst⟩ : FlowKey), x.syn, x.payload))) =
      runPackets parse ({ cap := cap } : Flows FlowKey σ)
        (body.map (fun x => ((⟨x.src, x.dst⟩ : FlowKey), x.payload))) := by
    cases body with
    | nil => rfl
    | cons x xs =>
      rw [List.map_cons, runPacketsS_headSyn parse _ _ x.syn x.payload _ (by intro e he; cases he)
        (by
          intro y hy
          obtain ⟨z, hz, rfl⟩ := List.mem_map.1 hy
          exact hsyn z (by simpa using hz))]
      simp [List.map_map, Function.comp_def]
  rw [hS]
  have hkeys : body.map (fun x => ((⟨x.src, x.dst⟩ : FlowKey), x.payload)) = (s0 :: rest).map (fun p => (c, p)) := by
    rw [← hpay, List.map_map]
    apply List.map_congr_left
    intro x hx
    simp only [Function.comp]
    rw [hkey x (by simp [hx])]
  rw [hkeys, flow_exactly_once parse ({ cap := cap } : Flows FlowKey σ) c s0 rest hcap (by rfl) hr hp hcat hhead hlater]
  simp [toPOut, List.map_append, List.map_replicate]

end Huginn.Props.C08
