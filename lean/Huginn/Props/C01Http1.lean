import Huginn.Lemmas.Http1Checked
import Huginn.Lemmas.Http1Find
import Huginn.Model.HttpFlow
set_option linter.unusedSimpArgs false
/-
C01 (HTTP/1.x byte level) — the HTTP/1 parser, the HTTP/1 processor gates and the header-completeness
loop never fault.

`Model/Http1Checked.lean` mirrors every indexing and slicing expression of http1_parser.rs and
http1_process.rs with checked accessors that fail exactly where Rust panics, behind the guards as
written. The theorems say: for every input whatsoever the run is `.ok`, and its value is the one the
total model (Model/Http1.lean, the model C05 reasons about) computes — so the `headD` / pattern
defaults of the total model are never observed. The only loop, in `has_complete_headers`, is a `for`
over `0..len-3`: structurally recursive in the number of iterations left (termination), and proved
equal to the first-occurrence search.
http_process.rs (`process_tcp_packet`, `get_full_data`) and http_languages.rs have no panic-capable
expression (checked `get`, `wrapping_*`, `unwrap_or`, iterator adaptors; `64 * 1024` is a constant):
their models are total functions, stated below for completeness.
Third-party code (pnet, ttl_cache) and `std` string functions are outside these theorems.
-/
namespace Huginn.Props.C01Http1
open Huginn.Http1 Huginn.Http1Checked Huginn.WireChecked Huginn.Gen

/-- **`parse_request_line`** — `parts[0]`, `parts[1]`, `parts[2]` behind `parts.len() != 3`. -/
theorem parse_request_line_no_fault (line : Bytes) :
    parseRequestLineC line = .ok (parseRequestLine line) := by
  unfold parseRequestLineC parseRequestLine
  by_cases hl : line.length > HttpLists.maxRequestLineLength
  · simp only [hl, if_true]; rfl
  · simp only [hl, if_false]
    match hs : splitWs line with
    | [] => simp
    | [_] => simp
    | [_, _] => simp
    | [m, u, v] =>
      simp only [List.length_cons, List.length_nil, ne_eq, not_true_eq_false, if_false,
        nth_ok [m, u, v] 0 (by simp), nth_ok [m, u, v] 1 (by simp), nth_ok [m, u, v] 2 (by simp), ok_bind]
      simp only [List.getElem_cons_zero, List.getElem_cons_succ]
      cases parseVersion v with
      | none => rfl
      | some ver => simp only []; split <;> (try rfl); split <;> rfl
    | _ :: _ :: _ :: _ :: _ => simp

/-- **`parse_status_line`** — `parts[0]`, `parts[1]` behind `parts.len() < 2`. -/
theorem parse_status_line_no_fault (line : Bytes) :
    parseStatusLineC line = .ok (parseStatusLine line) := by
  unfold parseStatusLineC parseStatusLine
  match hs : splitn3 SP line with
  | [] => simp
  | [_] => simp
  | v :: c :: rest =>
    have h2 : ¬ (v :: c :: rest).length < 2 := by simp
    simp only [h2, if_false, nth_ok (v :: c :: rest) 0 (by simp), nth_ok (v :: c :: rest) 1 (by simp), ok_bind,
      List.getElem_cons_zero, List.getElem_cons_succ]
    cases parseVersion v with
    | none => rfl
    | some ver =>
      simp only []
      split
      · rfl
      · cases parseUnsigned 65535 c with
        | none => rfl
        | some code =>
          simp only []
          cases rest <;> rfl

/-- **`parse_headers`**, per line — `line[..colon_pos]` at the index `find(':')` returned. -/
theorem parse_header_line_no_fault (line : Bytes) (pos : Nat) :
    parseHeaderLineC line pos = .ok (parseHeaderLine line pos) := by
  unfold parseHeaderLineC parseHeaderLine
  have h := splitFirst_findByte 58 line
  cases hf : findByte 58 line with
  | none => simp only [hf] at h; simp [h]
  | some i =>
    simp only [hf] at h
    obtain ⟨hi, hsp⟩ := h
    have h1 : i + 1 ≤ line.length := hi
    simp only [upTo_ok line i (Nat.le_of_lt hi), ok_bind, hsp, h1, if_true]
    split <;> rfl

theorem parse_header_lines_no_fault : ∀ (ls : List Bytes) (pos : Nat),
    parseHeaderLinesC ls pos = .ok (parseHeaderLines ls pos)
  | [], _ => rfl
  | l :: ls, pos => by
    simp only [parseHeaderLinesC, parse_header_line_no_fault, ok_bind, parse_header_lines_no_fault ls (pos + 1),
      parseHeaderLines, pure_eq]
    cases parseHeaderLine l pos <;> rfl

/-- **`parse_cookies`** — `cookie_str[..eq_pos]` at the index `find('=')` returned. -/
theorem parse_cookie_piece_no_fault (piece : Bytes) (pos : Nat) :
    parseCookiePieceC piece pos = .ok (parseCookiePiece piece pos) := by
  unfold parseCookiePieceC parseCookiePiece
  simp only []
  split
  · rfl
  · have h := splitFirst_findByte 61 (trimAscii piece)
    cases hf : findByte 61 (trimAscii piece) with
    | none => simp only [hf] at h; simp [h]
    | some i =>
      simp only [hf] at h
      obtain ⟨hi, hsp⟩ := h
      have h1 : i + 1 ≤ (trimAscii piece).length := hi
      simp only [upTo_ok _ i (Nat.le_of_lt hi), ok_bind, hsp, h1, if_true, pure_eq]

theorem parse_cookie_pieces_no_fault : ∀ (ps : List Bytes) (pos : Nat),
    parseCookiePiecesC ps pos = .ok (parseCookiePieces ps pos)
  | [], _ => rfl
  | p :: ps, pos => by
    simp only [parseCookiePiecesC, parse_cookie_piece_no_fault, ok_bind, parseCookiePieces]
    cases parseCookiePiece p pos with
    | none => simp only [parse_cookie_pieces_no_fault ps pos]
    | some c => simp only [parse_cookie_pieces_no_fault ps (pos + 1), ok_bind, pure_eq]

theorem parse_cookies_no_fault (v : Bytes) : parseCookiesC v = .ok (parseCookies v) :=
  parse_cookie_pieces_no_fault _ 0

private theorem requestLine_ok_ne (l0 : Bytes) (x : Bytes × Bytes × Ver) (h : parseRequestLine l0 = .ok x) :
    l0.isEmpty = false := by
  cases l0 with
  | nil => have : parseRequestLine [] = .error .invalidRequestLine := by decide
           rw [this] at h; exact absurd h (by simp)
  | cons a r => rfl

private theorem statusLine_ok_ne (l0 : Bytes) (x : Ver × Nat × Bytes) (h : parseStatusLine l0 = .ok x) :
    l0.isEmpty = false := by
  cases l0 with
  | nil => have : parseStatusLine [] = .error .invalidStatusLine := by decide
           rw [this] at h; exact absurd h (by simp)
  | cons a r => rfl

/-- **`parse_request`** — `lines[0]` (three uses) behind `lines.is_empty()`, and `&lines[1..header_end]`:
the start index 1 is within `header_end` because an empty first line was rejected by
`parse_request_line` before. No fault for every byte string. -/
theorem parse_request_no_fault (hd : Bytes) : parseRequestHeadC hd = .ok (parseRequestHead hd) := by
  unfold parseRequestHeadC parseRequestHead
  split
  · rfl
  · split
    · rfl
    · have hne := headLines_ne_nil hd
      match hl : headLines hd, hne with
      | l0 :: rest, _ =>
        simp only [List.isEmpty_cons, Bool.false_eq_true, if_false, nth_ok (l0 :: rest) 0 (by simp), ok_bind,
          List.getElem_cons_zero, parse_request_line_no_fault, List.headD_cons]
        cases hr : parseRequestLine l0 with
        | error e => rfl
        | ok x =>
          obtain ⟨m, u, ver⟩ := x
          simp only [header_slice l0 rest (requestLine_ok_ne l0 _ hr), ok_bind]
          cases parseHeaders (headerLinesOf (l0 :: rest)) with
          | error e => rfl
          | ok y => rfl

/-- **`parse_response`** — likewise with `parse_status_line`. -/
theorem parse_response_no_fault (hd : Bytes) : parseResponseHeadC hd = .ok (parseResponseHead hd) := by
  unfold parseResponseHeadC parseResponseHead
  split
  · rfl
  · split
    · rfl
    · have hne := headLines_ne_nil hd
      match hl : headLines hd, hne with
      | l0 :: rest, _ =>
        simp only [List.isEmpty_cons, Bool.false_eq_true, if_false, nth_ok (l0 :: rest) 0 (by simp), ok_bind,
          List.getElem_cons_zero, parse_status_line_no_fault, List.headD_cons]
        cases hr : parseStatusLine l0 with
        | error e => rfl
        | ok x =>
          obtain ⟨ver, code, reason⟩ := x
          simp only [header_slice l0 rest (statusLine_ok_ne l0 _ hr), ok_bind]
          cases parseHeaders (headerLinesOf (l0 :: rest)) with
          | error e => rfl
          | ok y => rfl

/-- **`can_process_request`** — `parts[0]`, `parts[2]`, `parts[1]` behind `parts.len() != 3`; the last
conjunct `!parts[1].is_empty()` is always true (`split_whitespace` yields non-empty tokens). -/
theorem can_process_request_no_fault (data : Bytes) : h1CanRequestC data = .ok (h1CanRequest data) := by
  unfold h1CanRequestC h1CanRequest
  split
  · rfl
  · split
    · rfl
    · have hne := splitWs_ne (firstLine data)
      match hs : splitWs (firstLine data) with
      | [] => simp
      | [_] => simp
      | [_, _] => simp
      | [m, u, v] =>
        rw [hs] at hne
        have hu : u.isEmpty = false := by
          have := hne u (by simp); simp [List.isEmpty_iff, this]
        simp only [List.length_cons, List.length_nil, ne_eq, not_true_eq_false, if_false,
          nth_ok [m, u, v] 0 (by simp), nth_ok [m, u, v] 1 (by simp), nth_ok [m, u, v] 2 (by simp), ok_bind,
          List.getElem_cons_zero, List.getElem_cons_succ, hu, Bool.not_false, pure_eq]
        cases HttpLists.gateMethods.any (fun s => ascii s == m) <;> cases isHttp1VersionTok v <;> rfl
      | _ :: _ :: _ :: _ :: _ => simp

/-- **`can_process_response`** — `parts[0]`, `parts[1]` behind `parts.len() < 2`. -/
theorem can_process_response_no_fault (data : Bytes) : h1CanResponseC data = .ok (h1CanResponse data) := by
  unfold h1CanResponseC h1CanResponse
  split
  · rfl
  · split
    · rfl
    · match hs : splitn3 SP (firstLine data) with
      | [] => simp
      | [_] => simp
      | v :: c :: rest =>
        have h2 : ¬ (v :: c :: rest).length < 2 := by simp
        simp only [h2, if_false, nth_ok (v :: c :: rest) 0 (by simp), nth_ok (v :: c :: rest) 1 (by simp), ok_bind,
          List.getElem_cons_zero, List.getElem_cons_succ, pure_eq]
        cases isHttp1VersionTok v <;> rfl

/-- **`looks_like_http1_response`** — `parts[0]`, `parts[1]` behind `parts.len() < 2`. -/
theorem looks_like_http1_response_no_fault (data : Bytes) :
    looksLikeHttp1ResponseC data = .ok (looksLikeHttp1Response data) := by
  unfold looksLikeHttp1ResponseC looksLikeHttp1Response
  split
  · rfl
  · split
    · rfl
    · match hs : splitWs (firstLine data) with
      | [] => simp
      | [_] => simp
      | v :: c :: rest =>
        have h2 : ¬ (v :: c :: rest).length < 2 := by simp
        simp only [h2, if_false, nth_ok (v :: c :: rest) 0 (by simp), nth_ok (v :: c :: rest) 1 (by simp), ok_bind,
          List.getElem_cons_zero, List.getElem_cons_succ, pure_eq]
        cases isHttp1VersionTok v <;> rfl

/-! ### the loop of `has_complete_headers` -/

private theorem drop_four (data : Bytes) (i : Nat) (h : i + 4 ≤ data.length) :
    data.drop i = data[i] :: data[i + 1] :: data[i + 2] :: data[i + 3] :: data.drop (i + 4) := by
  rw [List.drop_eq_getElem_cons (by omega), List.drop_eq_getElem_cons (by omega),
    List.drop_eq_getElem_cons (by omega), List.drop_eq_getElem_cons (by omega)]

private theorem loop_eq (data : Bytes) : ∀ (k i : Nat), i + k + 3 = data.length →
    completeLoopC data i k = .ok (containsSub crlfcrlf (data.drop i))
  | 0, i, h => by
    unfold completeLoopC containsSub
    cases hf : findSub crlfcrlf (data.drop i) with
    | none => rfl
    | some n =>
      have := findSub_bound _ _ _ hf
      simp [crlfcrlf] at this; omega
  | k + 1, i, h => by
    unfold completeLoopC
    have hi : i < data.length := by omega
    have h4 : i + 4 ≤ data.length := by omega
    have hd := drop_four data i h4
    rw [idx8_ok data i hi, ok_bind]
    have hget : data.getD i 0 = data[i] := by simp [List.getD_eq_getElem?_getD, hi]
    rw [hget, List.getElem?_eq_getElem (by omega : i + 1 < data.length),
      List.getElem?_eq_getElem (by omega : i + 2 < data.length),
      List.getElem?_eq_getElem (by omega : i + 3 < data.length)]
    have ih := loop_eq data k (i + 1) (by omega)
    have hd1 : data.drop i = data[i] :: data.drop (i + 1) := List.drop_eq_getElem_cons hi
    by_cases hc : data[i] = CR ∧ some data[i + 1] = some LF ∧ some data[i + 2] = some CR ∧ some data[i + 3] = some LF
    · simp only [hc, and_self, if_true]
      obtain ⟨c0, c1, c2, c3⟩ := hc
      simp only [Option.some.injEq] at c1 c2 c3
      unfold containsSub
      rw [hd, c0, c1, c2, c3]
      unfold findSub
      simp [crlfcrlf, List.isPrefixOf]
    · simp only [hc, if_false, ih]
      unfold containsSub
      congr 1
      rw [hd1]
      conv => rhs; unfold findSub
      have hnp : crlfcrlf.isPrefixOf (data[i] :: data.drop (i + 1)) = false := by
        rw [← hd1, hd]
        simp only [crlfcrlf, List.isPrefixOf, Bool.and_true]
        cases hq : (CR == data[i] && (LF == data[i + 1] && (CR == data[i + 2] && LF == data[i + 3]))) with
        | false => rfl
        | true =>
          exfalso; apply hc
          simp only [Bool.and_eq_true, beq_iff_eq] at hq
          exact ⟨hq.1.symm, by rw [← hq.2.1], by rw [← hq.2.2.1], by rw [← hq.2.2.2]⟩
      rw [hnp]
      cases findSub crlfcrlf (data.drop (i + 1)) <;> simp

/-- **`has_complete_headers`** — `data[i]` inside `for i in 0..data.len().saturating_sub(3)` behind
`data.len() < 4`: no fault for every byte string; the loop runs at most `len − 3` times (it is
structurally recursive in the iterations left) and computes the search for CR LF CR LF. -/
theorem has_complete_headers_no_fault (data : Bytes) :
    hasCompleteHeadersC data = .ok (hasCompleteHeaders data) := by
  unfold hasCompleteHeadersC hasCompleteHeaders
  by_cases h4 : data.length < 4
  · simp only [h4, if_true]
    unfold containsSub
    cases hf : findSub crlfcrlf data with
    | none => rfl
    | some n =>
      have := findSub_bound _ _ _ hf
      simp [crlfcrlf] at this; omega
  · simp only [h4, if_false]
    have := loop_eq data (data.length - 3) 0 (by omega)
    simpa using this

/-! ### files without a panic-capable expression -/

/-- `process_tcp_packet` / `get_full_data` (http_process.rs): no indexing, no slicing (`Vec::get`),
`wrapping_sub` / `wrapping_add` only — the model step is a total function of table and packet. -/
theorem process_tcp_packet_total {ρ σ : Type} (P : Huginn.HttpFlow.Parsers ρ σ) (m : Huginn.HttpFlow.FlowMap)
    (p : Huginn.HttpFlow.Pkt) : ∃ o, Huginn.HttpFlow.step P m p = o := ⟨_, rfl⟩

/-- `get_highest_quality_language` (http_languages.rs): iterator adaptors and `unwrap_or` only. -/
theorem highest_quality_language_total (al : Bytes) : ∃ r, highestQualityLanguage al = r := ⟨_, rfl⟩

/-- In the form "the run is never an error", all entry points together. -/
theorem http1_never_faults (d : Bytes) (e : Fault) :
    parseRequestHeadC d ≠ .error e ∧ parseResponseHeadC d ≠ .error e ∧ parseCookiesC d ≠ .error e ∧
    h1CanRequestC d ≠ .error e ∧ h1CanResponseC d ≠ .error e ∧ hasCompleteHeadersC d ≠ .error e := by
  refine ⟨?_, ?_, ?_, ?_, ?_, ?_⟩
  · rw [parse_request_no_fault]; exact fun h => nomatch h
  · rw [parse_response_no_fault]; exact fun h => nomatch h
  · rw [parse_cookies_no_fault]; exact fun h => nomatch h
  · rw [can_process_request_no_fault]; exact fun h => nomatch h
  · rw [can_process_response_no_fault]; exact fun h => nomatch h
  · rw [has_complete_headers_no_fault]; exact fun h => nomatch h

/-! ### the checked accessors do fault when a guard is missing (non-vacuity) -/

/-- without the `parts.len() != 3` guard `parts[2]` faults on a two-token line -/
example : nth (splitWs (ascii "GET /")) 2 = .error (.index 2 2) := by decide +kernel
/-- `&lines[1..header_end]` with an empty first line (`header_end = 0`) is a fault of the checked
model — the code never gets there because `parse_request_line("")` is an error -/
example : sliceL ([[], [1]] : List Bytes) 1 (headerEnd [[], [1]]) = .error (.slice 1 0 2) := by decide
/-- the loop without the `len < 4` guard and with a bound that is too large faults -/
example : completeLoopC ([13, 10] : Bytes) 0 3 = .error (.index 2 2) := by decide +kernel
/-- a run through every branch -/
example : parseRequestHeadC (ascii "GET / HTTP/1.1\r\nHost: a\r\nCookie: k=v; x\r\n\r\n") =
    .ok (parseRequestHead (ascii "GET / HTTP/1.1\r\nHost: a\r\nCookie: k=v; x\r\n\r\n")) := by decide +kernel

end Huginn.Props.C01Http1
