import Huginn.Model.Akamai
import Huginn.Spec.Akamai
namespace Huginn.Props.C17
end Huginn.Props.C17
