import Huginn.Model.Akamai
import Huginn.Spec.Akamai
import Huginn.Lemmas.H2Frames
import Huginn.Lemmas.Akamai
set_option linter.unusedSimpArgs false
set_option linter.unusedVariables false
/-
C17 — Akamai HTTP/2 fingerprints follow the published format, incrementally too.

Contents (state of the code after fixes/C16-1, C17-1, C17-2, C17-3)
  1. frame layer: the splitter of `parse_frames` yields exactly the frames RFC 7540 §4.1 puts on the
     wire (`parseFrames_splits`, `splits_unique`), for every byte string;
  2. `oneshot_conforms_partial`: outside the three remaining one-shot known-finding classes the
     one-shot fingerprint is the specified string `S|WU|P|PS`, for every byte string, every framing of
     the request header block (PADDED, PRIORITY, CONTINUATION) and every HPACK; `FullOneshot` (the
     statement without exclusions) and kernel-checked witnesses that it fails in each class;
  3. `incremental_eq_oneshot` (full strength, no exclusion): for every chunking the extractor reports
     once, on the first chunk for which the one-shot function is defined on the bytes received so far,
     and reports that value; `incremental_conforms_partial` combines 2 and 3.
HPACK is a parameter (`H : Hpack`) everywhere; the SHA-256 of the string is a function of the string
and is not part of the statements.
-/
namespace Huginn.Props.C17
open Huginn.H2 Huginn.Spec.H2 Huginn.Spec.Akamai Huginn.Lemmas.H2Frames Huginn.Lemmas.Akamai

/-! ## 1. frame layer -/

theorem maxFrame_default : Gen.H2.maxFrameSize = defaultMaxFrameSize := by decide
theorem preface_is_rfc : H2.preface = clientPreface := by decide

private theorem max_lt : defaultMaxFrameSize < 2 ^ 24 := by decide

private theorem parseOne_none_tail {d : Bytes} (h : parseOne defaultMaxFrameSize d = none) : Tail d := by
  rintro ⟨r, f, more, ⟨hp, hs⟩, hd⟩
  rw [hd, parseOne_wire max_lt r f more hp hs] at h
  cases h

private theorem wireAll_nil (rs : List Bool) : wireAll rs [] = [] := by
  cases rs <;> rfl

/-- The frames `parse_frames` returns are frames that are on the wire (RFC 7540 §4.1), each
acceptable to a default receiver, and parsing stops only where no further complete acceptable frame
begins. Every byte string. -/
theorem parseFrames_splits (d : Bytes) : Splits d (parseFrames d) := by
  unfold parseFrames
  rw [maxFrame_default]
  refine parseFrames_induction (max := defaultMaxFrameSize)
    (P := fun d => Splits d (parseFramesWith defaultMaxFrameSize d)) ?_ ?_ d
  · intro d hp
    rw [parseFramesWith_unfold, hp]
    exact ⟨[], d, rfl, by simp [wireAll], by simp, parseOne_none_tail hp⟩
  · intro d f x hp ⟨rs, rest, hlen, hx, hacc, htail⟩
    obtain ⟨r, hd, hpl, hs⟩ := parseOne_some hp
    rw [parseFramesWith_unfold, hp]
    refine ⟨r :: rs, rest, by simp [hlen], ?_, ?_, htail⟩
    · rw [hd]; simp only [wireAll, List.append_assoc]; rw [← hx]
    · intro g hg
      cases hg with
      | head => exact ⟨hpl, hs⟩
      | tail _ h => exact hacc g h

private theorem splits_eq_parse : ∀ (fs : List Frame) (d : Bytes), Splits d fs →
    fs = parseFramesWith defaultMaxFrameSize d := by
  intro fs
  induction fs with
  | nil =>
    rintro d ⟨rs, rest, _, hd, _, htail⟩
    rw [wireAll_nil, List.nil_append] at hd
    subst hd
    rw [parseFramesWith_unfold]
    cases hp : parseOne defaultMaxFrameSize d with
    | none => rfl
    | some p =>
      obtain ⟨f, x⟩ := p
      obtain ⟨r, hd, hpl, hs⟩ := parseOne_some hp
      exact absurd ⟨r, f, x, ⟨hpl, hs⟩, hd⟩ htail
  | cons f fs ih =>
    rintro d ⟨rs, rest, hlen, hd, hacc, htail⟩
    cases rs with
    | nil => simp at hlen
    | cons r rs =>
      simp only [wireAll, List.append_assoc] at hd
      have ⟨hpl, hs⟩ := hacc f (by simp)
      have hp := parseOne_wire max_lt r f (wireAll rs fs ++ rest) hpl hs
      rw [← hd] at hp
      rw [parseFramesWith_unfold, hp]
      simp only
      congr 1
      exact ih _ ⟨rs, rest, by simpa using hlen, rfl, fun g hg => hacc g (List.mem_cons_of_mem _ hg), htail⟩

/-- … and they are the only such frames: the wire determines the frame sequence. -/
theorem splits_unique {d : Bytes} {f1 f2 : List Frame} (h1 : Splits d f1) (h2 : Splits d f2) : f1 = f2 := by
  rw [splits_eq_parse f1 d h1, splits_eq_parse f2 d h2]

example : Splits [0, 0, 1, 6, 0, 0x80, 0, 0, 3, 0xaa, 0, 0] [{ ty := 6, flags := 0, sid := 3, payload := [0xaa] }] :=
  ⟨[true], [0, 0], rfl, by decide, by
    intro f hf
    simp only [List.mem_singleton] at hf
    subst hf
    exact ⟨by decide, by decide⟩, by
    rintro ⟨r, f, more, ⟨_, _⟩, h⟩
    have := congrArg List.length h
    simp [wire] at this⟩

/-- the frames the one-shot entry point looks at are the frames after the client preface -/
theorem oneShot_frames (H : Hpack) (data : Bytes) :
    oneShot H data = extractAkamai H (parseFrames (afterPreface data)) := by
  unfold oneShot parseFramesSkipPreface prefaceLen afterPreface hasPreface
  rw [preface_is_rfc]
  by_cases h : clientPreface.isPrefixOf data <;> simp [h]

/-! ## 2. one-shot conformance -/

private theorem legal_sizes {H : Hpack} {frames : List Frame} (hl : Legal H frames) :
    ∀ f ∈ frames, sizesLegal f = true := by
  have := hl.1
  rwa [List.all_eq_true] at this

private theorem render_S (p : Bytes) :
    sepJoin 59 ((parseSettingsPayload p).map fun q => dec (settingIdRoundTrip q.1) ++ colon :: dec q.2)
      = renderS (settingsOf p) := by
  rw [sepJoin_eq_joinWith, settingsOf_eq]
  unfold renderS
  congr 1
  apply List.map_congr_left
  intro q _
  simp [settingId_roundtrip, colon]

private theorem wu_value (a b c d : UInt8) : be32 (a &&& 0x7f) b c d = incrementOf [a, b, c, d] := by
  have := and7f a
  have ha := UInt8.toNat_lt a; have hb := UInt8.toNat_lt b
  have hc := UInt8.toNat_lt c; have hd := UInt8.toNat_lt d
  simp only [incrementOf, List.getD_cons_zero, List.getD_cons_succ, val32, be32, this]
  omega

private theorem render_WU {H : Hpack} {frames : List Frame} (hl : Legal H frames)
    (k2 : KF.C17.zeroWindowIncrement frames = false) :
    (if extractWindowUpdate frames = 0 then Gen.H2.windowAbsent else dec (extractWindowUpdate frames))
      = renderWU (((frames.filter isConnWindowUpdate).head?).map (fun f => incrementOf f.payload)) := by
  unfold extractWindowUpdate KF.C17.zeroWindowIncrement at *
  rw [pred_wu]
  rw [List.head?_filter] at k2 ⊢
  cases hf : frames.find? isConnWindowUpdate with
  | none => simp [renderWU]; rfl
  | some f =>
    rw [hf] at k2
    simp only at k2 ⊢
    have hmem := List.mem_of_find?_eq_some hf
    have hp := List.find?_some hf
    have hs := legal_sizes hl f hmem
    simp only [sizesLegal, hp, Bool.not_true, Bool.false_or, Bool.and_eq_true, beq_iff_eq] at hs
    have h4 : f.payload.length = 4 := hs.1.2
    rcases hpl : f.payload with _ | ⟨a, _ | ⟨b, _ | ⟨c, _ | ⟨d, _ | ⟨e, r⟩⟩⟩⟩⟩ <;> rw [hpl] at h4 <;> simp at h4
    rw [hpl] at k2
    simp only [parseWindowUpdate, Option.getD_some, Option.map_some, renderWU, wu_value]
    try rw [hpl]
    have : incrementOf [a, b, c, d] ≠ 0 := by simpa using k2
    simp [this]

/-- the `Http2Priority` the code builds from a 5-octet payload -/
private def mkPrio (f : Frame) : Priority :=
  { sid := f.sid, excl := (f.payload.getD 0 0) &&& 0x80 != 0,
    dep := be32 ((f.payload.getD 0 0) &&& 0x7f) (f.payload.getD 1 0) (f.payload.getD 2 0) (f.payload.getD 3 0),
    weight := (f.payload.getD 4 0).toNat }

private def renderPrioModel (p : Priority) : Bytes :=
  dec p.sid ++ colon :: dec (if p.excl then 1 else 0) ++ colon :: dec p.dep ++ colon :: dec (p.weight + 1)

private def renderPrioSpec (p : Prio) : Bytes :=
  dec p.stream ++ [58] ++ (if p.exclusive then [49] else [48]) ++ [58] ++ dec p.dependency ++ [58] ++ dec p.weight

private theorem prio_bytes (sid : Nat) (a b c d w : UInt8) :
    renderPrioModel { sid := sid, excl := a &&& 0x80 != 0, dep := be32 (a &&& 0x7f) b c d, weight := w.toNat }
      = renderPrioSpec { stream := sid, exclusive := decide (val32 a b c d ≥ 2 ^ 31),
                         dependency := val32 a b c d % 2 ^ 31, weight := w.toNat + 1 } := by
  have a7 := and7f a
  have a8 := and80 a
  have h0 := UInt8.toNat_lt a; have h1 := UInt8.toNat_lt b
  have h2 := UInt8.toNat_lt c; have h3 := UInt8.toNat_lt d
  have hdep : be32 (a &&& 0x7f) b c d = val32 a b c d % 2 ^ 31 := by
    simp only [be32, val32, a7]; omega
  have d1 : dec 1 = [49] := by decide
  have d0 : dec 0 = [48] := by decide
  by_cases h : 128 ≤ a.toNat
  · have hv : 2 ^ 31 ≤ val32 a b c d := by unfold val32; omega
    have hx : (a &&& 0x80 != 0) = true := by rw [a8]; exact decide_eq_true h
    have hy : decide (val32 a b c d ≥ 2 ^ 31) = true := decide_eq_true hv
    simp only [renderPrioModel, renderPrioSpec, hdep, hx, hy, if_true, d1, colon]
    simp
  · have hv : ¬ 2 ^ 31 ≤ val32 a b c d := by unfold val32; omega
    have hx : (a &&& 0x80 != 0) = false := by rw [a8]; exact decide_eq_false h
    have hy : decide (val32 a b c d ≥ 2 ^ 31) = false := decide_eq_false hv
    simp only [renderPrioModel, renderPrioSpec, hdep, hx, hy, Bool.false_eq_true, if_false, d0, colon]
    simp

private theorem prio_elem (f : Frame) : renderPrioModel (mkPrio f) = renderPrioSpec (prioOf f) :=
  prio_bytes f.sid (f.payload.getD 0 0) (f.payload.getD 1 0) (f.payload.getD 2 0) (f.payload.getD 3 0)
    (f.payload.getD 4 0)

private theorem parsePriority_five (f : Frame) (h : f.payload.length = 5) :
    parsePriority f.sid f.payload = some (mkPrio f) := by
  rcases hpl : f.payload with _ | ⟨a, _ | ⟨b, _ | ⟨c, _ | ⟨d, _ | ⟨w, _ | ⟨x, r⟩⟩⟩⟩⟩⟩ <;> rw [hpl] at h <;> simp at h
  simp [parsePriority, mkPrio, hpl]

private theorem filterMap_eq_map {α β} (g : α → Option β) (g' : α → β) :
    ∀ l : List α, (∀ x ∈ l, g x = some (g' x)) → l.filterMap g = l.map g' := by
  intro l
  induction l with
  | nil => intro _; rfl
  | cons x l ih =>
    intro h
    simp only [List.filterMap_cons, h x (by simp), List.map_cons]
    rw [ih (fun y hy => h y (List.mem_cons_of_mem _ hy))]

private theorem render_P {H : Hpack} {frames : List Frame} (hl : Legal H frames) :
    (if (extractPriorities frames).isEmpty then Gen.H2.priorityAbsent
     else sepJoin 44 ((extractPriorities frames).map fun p =>
       dec p.sid ++ colon :: dec (if p.excl then 1 else 0) ++ colon :: dec p.dep ++ colon :: dec (p.weight + 1)))
      = renderP ((frames.filter isPriority).map prioOf) := by
  have hx : extractPriorities frames = (frames.filter isPriority).map mkPrio := by
    unfold extractPriorities
    rw [pred_prio]
    apply filterMap_eq_map
    intro f hf
    rw [List.mem_filter] at hf
    have hs := legal_sizes hl f hf.1
    simp only [sizesLegal, hf.2, Bool.not_true, Bool.false_or, Bool.and_eq_true, beq_iff_eq] at hs
    exact parsePriority_five f hs.2
  rw [hx]
  unfold renderP
  cases hfl : frames.filter isPriority with
  | nil => simp; rfl
  | cons f fs =>
    simp only [List.map_cons, List.isEmpty_cons, Bool.false_eq_true, if_false, reduceCtorEq]
    rw [sepJoin_eq_joinWith]
    congr 1
    simp only [List.map_cons, List.map_map]
    have e := prio_elem
    simp only [renderPrioModel, renderPrioSpec] at e
    congr 1
    · exact e f
    · apply List.map_congr_left
      intro g _
      exact e g

private theorem letter_token (n : Bytes) (l : UInt8) (h : letter n = some l) :
    pseudoToken n = [l] ∧ utf8Valid n = true := by
  unfold letter at h
  split at h
  · rename_i e; subst e; cases h; exact ⟨by decide, by decide⟩
  · split at h
    · rename_i e; subst e; cases h; exact ⟨by decide, by decide⟩
    · split at h
      · rename_i e; subst e; cases h; exact ⟨by decide, by decide⟩
      · split at h
        · rename_i e; subst e; cases h; exact ⟨by decide, by decide⟩
        · cases h

private theorem tokens_letters : ∀ ps : List Field,
    (∀ h ∈ ps, ∃ l, letter h.1 = some l ∧ pseudoToken h.1 = [l]) →
    ps.map (fun h => pseudoToken h.1) = (ps.filterMap (fun h => letter h.1)).map (fun l => [l]) := by
  intro ps
  induction ps with
  | nil => intro _; rfl
  | cons h ps ih =>
    intro hall
    obtain ⟨l, hl, ht⟩ := hall h (by simp)
    simp only [List.map_cons, List.filterMap_cons, hl, ht]
    rw [ih (fun x hx => hall x (List.mem_cons_of_mem _ hx))]

private theorem pseudo_list (hs : List Field)
    (hlet : (hs.filter isPseudo).all (fun h => (letter h.1).isSome) = true) :
    ((hs.filter (fun h => utf8Valid h.1)).filter (fun h => h.1.head? == some colon)).map
        (fun h => pseudoToken h.1)
      = ((hs.filter isPseudo).filterMap (fun h => letter h.1)).map (fun l => [l]) := by
  change ((hs.filter (fun h => utf8Valid h.1)).filter isPseudo).map (fun h => pseudoToken h.1) = _
  rw [List.all_eq_true] at hlet
  have hall : ∀ h ∈ hs.filter isPseudo,
      utf8Valid h.1 = true ∧ ∃ l, letter h.1 = some l ∧ pseudoToken h.1 = [l] := by
    intro h hh
    obtain ⟨l, hl⟩ := Option.isSome_iff_exists.mp (hlet h hh)
    obtain ⟨ht, hv⟩ := letter_token h.1 l hl
    exact ⟨hv, l, hl, ht⟩
  have hf : (hs.filter (fun h => utf8Valid h.1)).filter isPseudo = hs.filter isPseudo := by
    rw [List.filter_filter]
    apply List.filter_congr
    intro h hh
    by_cases hp : isPseudo h = true
    · have := (hall h (List.mem_filter.mpr ⟨hh, hp⟩)).1
      simp [hp, this]
    · have hp' : isPseudo h = false := by simpa using hp
      simp [hp']
  rw [hf]
  exact tokens_letters _ (fun h hh => (hall h hh).2)

private theorem render_PS {H : Hpack} {frames : List Frame} (hl : Legal H frames)
    (k4 : KF.C17.headersContinued frames = false) :
    sepJoin 44 (extractPseudo H frames) = renderPS (pseudoOrder H frames) := by
  have hleg := hl.2.2
  unfold extractPseudo
  have hpred : (fun f : Frame => !(f.ty == tyHeaders && decide (f.sid > 0))) = (fun f => !isRequestHeaders f) := by
    rw [← pred_headers]
  rw [hpred, dropWhile_firstWithRest]
  unfold KF.C17.headersContinued at k4
  unfold requestBlockLegal at hleg
  unfold pseudoOrder renderPS
  unfold requestBlock at *
  cases hf : firstWithRest isRequestHeaders frames with
  | none => simp [headerBlockOf, sepJoin, joinWith]
  | some p =>
    obtain ⟨f, rest⟩ := p
    rw [hf] at k4 hleg
    simp only [Option.map_some] at k4 hleg ⊢
    cases hb : headerBlock f rest with
    | incomplete => rw [hb] at k4; simp at k4
    | malformed => rw [hb] at hleg; simp at hleg
    | complete b =>
      rw [hb] at hleg
      simp only at hleg ⊢
      rw [headerBlockOf_complete f rest b hb]
      simp only
      unfold pseudoOfBlock
      cases hd : (H.dec H.init b).1 with
      | none => rw [hd] at hleg; simp at hleg
      | some hs =>
        rw [hd] at hleg
        simp only at hleg ⊢
        rw [sepJoin_eq_joinWith, pseudo_list hs hleg]

/-- the full-strength statement: for every HPACK and every byte string whose frames are `Legal`,
the one-shot result is the specified fingerprint string (and absent exactly when the specification
says there is none) -/
def FullOneshot : Prop :=
  ∀ (H : Hpack) (data : Bytes) (frames : List Frame), Splits (afterPreface data) frames → Legal H frames →
    (oneShot H data).map Fingerprint.render = fingerprint H frames

/-- frame-level core of `oneshot_conforms_partial` -/
theorem extract_conforms_partial (H : Hpack) (frames : List Frame) (hl : Legal H frames)
    (k1 : KF.C17.emptyFirstSettings frames = false)
    (k2 : KF.C17.zeroWindowIncrement frames = false)
    (k4 : KF.C17.headersContinued frames = false) :
    (extractAkamai H frames).map Fingerprint.render = fingerprint H frames := by
  have hS := render_S
  have hW := render_WU hl k2
  have hP := render_P hl
  have hPS := render_PS hl k4
  unfold extractAkamai fingerprint extractSettings
  unfold KF.C17.emptyFirstSettings at k1
  rw [pred_settings]
  rw [List.head?_filter] at k1 ⊢
  cases hf : frames.find? isSettings with
  | none => simp [parseSettingsPayload]
  | some s =>
    rw [hf] at k1
    simp only [decide_eq_false_iff_not, Nat.not_lt] at k1
    have hne := parseSettings_nonempty s.payload k1
    simp only [hne, Bool.false_eq_true, if_false, Option.map_some, Option.some.injEq]
    unfold Fingerprint.render
    simp only
    rw [hS, hW, hP, hPS]
    have : Gen.H2.fieldSep = 124 := rfl
    simp [this, List.append_assoc]

/-- **C17, one-shot.** For every HPACK `H`, every byte string `data` and the frames `frames` it
carries after the client preface (RFC 7540 wire format), if the frames are `Legal` and the input is in
none of the three remaining known-finding classes (first SETTINGS frame without parameters,
WINDOW_UPDATE increment 0, request header block whose END_HEADERS has not arrived),
`extract_akamai_fingerprint_from_bytes` returns exactly the specified string `S|WU|P|PS` — for any
padding, PRIORITY fields and CONTINUATION framing of the request block — or nothing, exactly when
there is no SETTINGS frame yet. -/
theorem oneshot_conforms_partial (H : Hpack) (data : Bytes) (frames : List Frame)
    (hs : Splits (afterPreface data) frames) (hl : Legal H frames)
    (k1 : KF.C17.emptyFirstSettings frames = false)
    (k2 : KF.C17.zeroWindowIncrement frames = false)
    (k4 : KF.C17.headersContinued frames = false) :
    (oneShot H data).map Fingerprint.render = fingerprint H frames := by
  have : frames = parseFrames (afterPreface data) := splits_unique hs (parseFrames_splits _)
  subst this
  rw [oneShot_frames]
  exact extract_conforms_partial H _ hl k1 k2 k4

/-- the specification's fingerprint of a byte string: by `parseFrames_splits` / `splits_unique` the
frames it carries are `parseFrames (afterPreface data)` -/
def specFingerprint (H : Hpack) (data : Bytes) : Option Bytes :=
  fingerprint H (parseFrames (afterPreface data))

theorem specFingerprint_spec (H : Hpack) (data : Bytes) (frames : List Frame)
    (hs : Splits (afterPreface data) frames) : specFingerprint H data = fingerprint H frames := by
  rw [splits_unique hs (parseFrames_splits _)]; rfl

/-- the three one-shot classes at once, on a byte string -/
def oneShotKF (data : Bytes) : Bool :=
  let fr := parseFrames (afterPreface data)
  KF.C17.emptyFirstSettings fr || KF.C17.zeroWindowIncrement fr || KF.C17.headersContinued fr

theorem oneshot_conforms_bytes (H : Hpack) (data : Bytes)
    (hl : Legal H (parseFrames (afterPreface data))) (hk : oneShotKF data = false) :
    (oneShot H data).map Fingerprint.render = specFingerprint H data := by
  simp only [oneShotKF, Bool.or_eq_false_iff] at hk
  obtain ⟨⟨k1, k2⟩, k4⟩ := hk
  exact oneshot_conforms_partial H data _ (parseFrames_splits _) hl k1 k2 k4

/-! non-vacuity: canonical client starts (preface, SETTINGS 1:65536;4:131072, WINDOW_UPDATE,
PRIORITY, HEADERS m,p,s,a) satisfy every hypothesis and have the expected fingerprint — with a plain
HEADERS frame, and with the same block behind PADDED + PRIORITY fields and split over two
CONTINUATION frames -/
private def stdSettings : Bytes := [0, 0, 12, 4, 0, 0, 0, 0, 0, 0, 1, 0, 1, 0, 0, 0, 4, 0, 2, 0, 0]
private def stdHeaders : Bytes :=
  [0, 0, 16, 1, 5, 0, 0, 0, 1, 0x82, 0x84, 0x87, 0x01, 0x0b, 101, 120, 97, 109, 112, 108, 101, 46, 99, 111, 109]
private def ctrl : Bytes :=
  clientPreface ++ stdSettings ++ [0, 0, 4, 8, 0, 0, 0, 0, 0, 0, 0xef, 0, 1] ++
    [0, 0, 5, 2, 0, 0, 0, 0, 3, 0, 0, 0, 0, 200]
private def wGood : Bytes := ctrl ++ stdHeaders
-- HEADERS flags END_STREAM|PADDED|PRIORITY (no END_HEADERS): pad length 2, priority fields, 82 84, 2 pad octets;
-- CONTINUATION (no flags): 87 01; CONTINUATION (END_HEADERS): 0b "example.com"
private def wFramed : Bytes :=
  ctrl ++ [0, 0, 10, 1, 0x29, 0, 0, 0, 1, 2, 0x80, 0, 0, 0, 15, 0x82, 0x84, 0, 0] ++
    [0, 0, 2, 9, 0, 0, 0, 0, 1, 0x87, 0x01] ++
    [0, 0, 12, 9, 4, 0, 0, 0, 1, 0x0b, 101, 120, 97, 109, 112, 108, 101, 46, 99, 111, 109]

example : Legal Hpack.crate (parseFrames (afterPreface wGood)) ∧ oneShotKF wGood = false ∧
    specFingerprint Hpack.crate wGood = some (ascii "1:65536;4:131072|15663105|3:0:0:201|m,p,s,a") := by decide

example : Legal Hpack.crate (parseFrames (afterPreface wFramed)) ∧ oneShotKF wFramed = false ∧
    (oneShot Hpack.crate wFramed).map Fingerprint.render =
      some (ascii "1:65536;4:131072|15663105|3:0:0:201|m,p,s,a") := by decide

/-! witnesses: the full statement fails inside each remaining class (replayed on the crates by the harness) -/
private def wEmptySettings : Bytes := clientPreface ++ [0, 0, 0, 4, 0, 0, 0, 0, 0]
private def wZeroWU : Bytes := clientPreface ++ stdSettings ++ [0, 0, 4, 8, 0, 0, 0, 0, 0, 0, 0, 0, 0]
-- HEADERS without END_HEADERS carrying :method GET, :path /; nothing after it yet
private def wUnterminated : Bytes := clientPreface ++ stdSettings ++ [0, 0, 2, 1, 1, 0, 0, 0, 1, 0x82, 0x84]

private abbrev Fails (w : Bytes) : Prop :=
  Legal Hpack.crate (parseFrames (afterPreface w)) ∧
    (oneShot Hpack.crate w).map Fingerprint.render ≠ specFingerprint Hpack.crate w

theorem kf_emptyFirstSettings_witness :
    KF.C17.emptyFirstSettings (parseFrames (afterPreface wEmptySettings)) = true ∧ Fails wEmptySettings := by decide
theorem kf_zeroWindowIncrement_witness :
    KF.C17.zeroWindowIncrement (parseFrames (afterPreface wZeroWU)) = true ∧ Fails wZeroWU := by decide
theorem kf_headersContinued_witness :
    KF.C17.headersContinued (parseFrames (afterPreface wUnterminated)) = true ∧ Fails wUnterminated := by decide

/-- the statement without exclusions is false for the current code -/
theorem fullOneshot_fails : ¬ FullOneshot := by
  intro h
  have := h Hpack.crate wEmptySettings _ (parseFrames_splits _) kf_emptyFirstSettings_witness.2.1
  exact kf_emptyFirstSettings_witness.2.2 this

/-! ## 3. incremental = one-shot on the bytes received so far -/

private theorem parseOne_short {max : Nat} {d : Bytes} (h : d.length < 9) : parseOne max d = none := by
  cases hp : parseOne max d with
  | none => rfl
  | some p =>
    obtain ⟨f, x⟩ := p
    have := parseOne_length hp
    simp only [Frame.totalSize] at this
    omega

private theorem parseFrames_short {d : Bytes} (h : d.length < 9) : parseFrames d = [] := by
  unfold parseFrames
  rw [parseFramesWith_unfold, parseOne_short h]

private theorem reportOnce_done {α} (f : Bytes → Option α) : ∀ (chunks : List Bytes) (seen : Bytes),
    reportOnce f seen true chunks = chunks.map (fun _ => none) := by
  intro chunks
  induction chunks with
  | nil => intro _; rfl
  | cons c cs ih => intro seen; simp [reportOnce, ih]

private theorem run_done_eq (H : Hpack) : ∀ (chunks : List Bytes) (s : Extractor),
    s.fingerprint.isSome = true → Extractor.run H s chunks = chunks.map (fun _ => none) := by
  intro chunks
  induction chunks with
  | nil => intro _ _; rfl
  | cons c cs ih =>
    intro s hs
    have hstep : s.addBytes H c = (s, none) := by simp [Extractor.addBytes, hs]
    simp [Extractor.run, hstep, ih s hs]


private theorem incremental_aux (H : Hpack) : ∀ (chunks : List Bytes) (s : Extractor) (seen : Bytes),
    s.fingerprint = none → s.buffer = seen →
    Extractor.run H s chunks = reportOnce (oneShot H) seen false chunks := by
  intro chunks
  induction chunks with
  | nil => intro _ _ _ _; rfl
  | cons c cs ih =>
    intro s seen hfp hbuf
    have hfpnone : s.fingerprint.isSome = false := by rw [hfp]; rfl
    have hone : oneShot H (seen ++ c) = extractAkamai H
        (parseFrames ((seen ++ c).drop (if hasPreface (seen ++ c) = true then preface.length else 0))) := rfl
    simp only [Extractor.run, reportOnce, Bool.false_eq_true, if_false]
    unfold Extractor.addBytes
    simp only [hfpnone, Bool.false_eq_true, if_false, hbuf]
    rw [hone]
    generalize hst : (if hasPreface (seen ++ c) = true then preface.length else 0) = start at *
    generalize hNd : parseFrames ((seen ++ c).drop start) = N at *
    have hx : extractAkamai H ([] : List Frame) = none := by simp [extractAkamai, extractSettings]
    by_cases hlen : ((seen ++ c).drop start).length ≥ 9
    · simp only [hlen, if_true]
      cases hNe : N with
      | nil =>
        simp only [List.isEmpty_nil, if_true, hx]
        congr 1
        exact ih _ _ hfp rfl
      | cons n ns =>
        simp only [List.isEmpty_cons, Bool.false_eq_true, if_false]
        cases hex : extractAkamai H (n :: ns) with
        | some fp =>
          simp only
          congr 1
          rw [reportOnce_done, run_done_eq H cs _ (by simp)]
        | none =>
          simp only
          congr 1
          exact ih _ _ rfl rfl
    · have hNnil : N = [] := by rw [← hNd]; exact parseFrames_short (by omega)
      simp only [hlen, if_false, hNnil, hx]
      congr 1
      exact ih _ _ hfp rfl

/-- **C17, incremental.** For every HPACK and *every* partition of *every* byte stream into chunks,
`Http2FingerprintExtractor::add_bytes` returns `None` on every call except the first one after which
the one-shot function yields a fingerprint for the bytes received so far, and on that call it returns
exactly that fingerprint. No exclusion. -/
theorem incremental_eq_oneshot (H : Hpack) (chunks : List Bytes) :
    incremental H chunks = reportOnce (oneShot H) [] false chunks := by
  unfold incremental
  exact incremental_aux H chunks {} [] rfl rfl

/-- byte prefixes after each chunk -/
def prefixesFrom : Bytes → List Bytes → List Bytes
  | _, [] => []
  | seen, c :: cs => (seen ++ c) :: prefixesFrom (seen ++ c) cs

private theorem reportOnce_congr {α} (f g : Bytes → Option α) : ∀ (chunks : List Bytes) (seen : Bytes) (done : Bool),
    (∀ p ∈ prefixesFrom seen chunks, f p = g p) → reportOnce f seen done chunks = reportOnce g seen done chunks := by
  intro chunks
  induction chunks with
  | nil => intro _ _ _; rfl
  | cons c cs ih =>
    intro seen done h
    have h0 := h (seen ++ c) (by simp [prefixesFrom])
    have hr : ∀ d, reportOnce f (seen ++ c) d cs = reportOnce g (seen ++ c) d cs :=
      fun d => ih _ d (fun p hp => h p (by simp [prefixesFrom, hp]))
    simp only [reportOnce, h0, hr]

private theorem reportOnce_map {α β} (f : Bytes → Option α) (g : α → β) : ∀ (chunks : List Bytes) (seen : Bytes) (done : Bool),
    (reportOnce f seen done chunks).map (Option.map g) = reportOnce (fun d => (f d).map g) seen done chunks := by
  intro chunks
  induction chunks with
  | nil => intro _ _; rfl
  | cons c cs ih =>
    intro seen done
    cases done with
    | true => simp [reportOnce, ih]
    | false =>
      simp only [reportOnce, Bool.false_eq_true, if_false]
      cases f (seen ++ c) <;> simp [ih]

/-- **C17, incremental, against the specification.** If every prefix of the stream (at a chunk
boundary) is `Legal` and outside the three one-shot classes, the strings reported are exactly the
specified ones: nothing until the chunk that completes the first SETTINGS frame, then the
fingerprint `S|WU|P|PS` of the bytes received so far, then nothing. -/
theorem incremental_conforms_partial (H : Hpack) (chunks : List Bytes)
    (hp : ∀ p ∈ prefixesFrom [] chunks, Legal H (parseFrames (afterPreface p)) ∧ oneShotKF p = false) :
    (incremental H chunks).map (Option.map Fingerprint.render) = reportOnce (specFingerprint H) [] false chunks := by
  rw [incremental_eq_oneshot H chunks, reportOnce_map]
  apply reportOnce_congr
  intro p hpm
  exact oneshot_conforms_bytes H p (hp p hpm).1 (hp p hpm).2

/-! non-vacuity: the canonical start, cut inside the preface, inside the SETTINGS frame and inside
the HEADERS frame: reported once, on the chunk that completes SETTINGS; and DESIGN §8 #27
(chunk 1 = preface + PRIORITY(3,0,0,200), chunk 2 = SETTINGS): the PRIORITY frame of the first chunk
is part of the fingerprint reported on the second -/
example :
    let chunks := [wGood.take 10, (wGood.drop 10).take 30, (wGood.drop 40).take 40, wGood.drop 80]
    (∀ p ∈ prefixesFrom [] chunks, Legal Hpack.crate (parseFrames (afterPreface p)) ∧ oneShotKF p = false) ∧
    reportOnce (specFingerprint Hpack.crate) [] false chunks =
      [none, none, some (ascii "1:65536;4:131072|15663105|3:0:0:201|"), none] := by decide

private def wEarly : List Bytes := [clientPreface ++ [0, 0, 5, 2, 0, 0, 0, 0, 3, 0, 0, 0, 0, 200], stdSettings]

example : (incremental Hpack.crate wEarly).map (Option.map Fingerprint.render) =
    [none, some (ascii "1:65536;4:131072|00|3:0:0:201|")] := by decide

/-! ## 4. the hash is a function of the string -/

/-- `hash_fingerprint` applied to equal strings gives equal hashes, whatever the digest is: the
"truncated SHA-256" part of the statement follows from the string part. -/
theorem hash_determined (digest : Bytes → Bytes) (a b : Option Bytes) (h : a = b) :
    a.map (fun s => (s, (digest s).take Gen.H2.hashTake)) = b.map (fun s => (s, (digest s).take Gen.H2.hashTake)) := by
  rw [h]

end Huginn.Props.C17
