import Huginn.Props.C08
/-
C08, the excluded point of `flow_exactly_once`: its hypothesis `hlater` (no segment after the completing
one starts a handshake record) is not in the property statement ("exactly one TLS result for the
connection … bytes after the record … produce no result"). At that point the current code does report a
second result: `process_tcp_packet` drops the flow on success, so a later segment that starts a handshake
record is admitted as a NEW flow. Kept as the open finding `KF.C08.laterRecordReported`
(known_findings.json): the full statement, the witness that it fails, and the partial theorem
(`flow_exactly_once`, Props/C08.lean) side by side. The reader API does not have the defect
(`reader_exactly_once`: a finished reader ignores everything).
-/
namespace Huginn.Props.C08
open Huginn.Tls Huginn.Gen.Tls Huginn.Lemmas.TlsReader

/-- The statement without the side condition. -/
def FullFlowExactlyOnce : Prop :=
  ∀ (parse : Bytes → PR Nat) (f : Flows Nat Nat) (k : Nat) (r tail : Bytes) (s : Nat) (s0 : Bytes) (rest : List Bytes),
    1 ≤ f.cap → f.get? k = none → IsRecord r → parse r = .sig s → (s0 :: rest).flatten = r ++ tail →
    Spec.startsRecord s0 = true →
    runPackets parse f ((s0 :: rest).map (fun p => (k, p))) =
      List.replicate (Spec.completionIdx r.length (s0 :: rest)) POut.none ++ [POut.sig s]
        ++ List.replicate ((s0 :: rest).length - Spec.completionIdx r.length (s0 :: rest) - 1) POut.none

private def rec0 : Bytes := [0x16, 3, 1, 0, 1, 0xaa]
private def parseRec0 (b : Bytes) : PR Nat := if b = rec0 then .sig 7 else .err
private theorem rec0_record : IsRecord rec0 := ⟨⟨by decide, by decide, by decide⟩, by decide⟩

/-- Witness: the same ClientHello record twice on one connection, one record per segment — two results. -/
theorem kf_laterRecord_witness :
    runPackets parseRec0 ({ cap := 1 } : Flows Nat Nat) [(0, rec0), (0, rec0)] = [POut.sig 7, POut.sig 7] ∧
    Spec.laterRecord [rec0, rec0] = true := by
  decide

theorem full_statement_fails : ¬ FullFlowExactlyOnce := by
  intro h
  have := h parseRec0 ({ cap := 1 } : Flows Nat Nat) 0 rec0 rec0 7 rec0 [rec0] (by decide) (by decide)
    rec0_record (by decide) (by decide) (by decide)
  revert this
  decide

end Huginn.Props.C08
