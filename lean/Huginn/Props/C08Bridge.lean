import Huginn.Model.TlsReader
import Huginn.Model.FlowProgs
/-
Bridge between the two models of `TlsClientHelloReader::add_bytes`: the one C08's theorems are about
(Model/TlsReader.lean, literals regenerated from the source) and the one inside the cache programs
that C07 (isolation), C10 (pool ≡ sequential), C11 (bounds) and C01 (no poisoning) reason about
(Model/FlowProgs.lean `readerAdd`). They are the same function up to the obvious renaming, for every
parser, reader state and chunk — so the segmentation theorems of C08 and the bound / isolation
theorems apply to one and the same reader.
-/
namespace Huginn.Props.C08Bridge
open Huginn.Tls Huginn.FlowProgs

def toRes {σ} : PR σ → AddRes σ
  | .sig s => .sig s
  | .notHello => .pending
  | .err => .err

def toOut {σ} : Out σ → AddRes σ
  | .none => .pending
  | .sig s => .sig s
  | .errTooLarge => .err
  | .errParse => .err

def toReader {σ} (r : Huginn.Tls.Reader σ) : Huginn.FlowProgs.Reader := ⟨r.buffer, r.signature.isSome⟩

set_option maxRecDepth 8000 in
/-- The two reader models agree step by step. -/
theorem reader_models_agree {σ} (parse : Huginn.Tls.Bytes → PR σ) (r : Huginn.Tls.Reader σ)
    (data : Huginn.Tls.Bytes) :
    readerAdd (fun b => toRes (parse b)) (toReader r) data =
      (toReader (r.addBytes parse data).1, toOut (r.addBytes parse data).2) := by
  have hct : ∀ b : UInt8, (b != 0x16) = true ↔ b.toNat ≠ 22 := by
    intro b
    simp only [bne_iff_ne, ne_eq]
    constructor
    · intro h h'; apply h; apply UInt8.toNat_inj.1; simpa using h'
    · intro h h'; apply h; rw [h']; rfl
  unfold readerAdd Reader.addBytes Reader.addBytesT toReader neededOf be16
  simp only [Huginn.Gen.Tls.readerHdrLen, Huginn.Gen.Tls.readerLenHi, Huginn.Gen.Tls.readerLenLo,
    Huginn.Gen.Tls.readerLenAdd, Huginn.Gen.Tls.readerHandshake, Huginn.Gen.Tls.readerMaxNeeded]
  cases hs : r.signature with
  | some s => simp [hs, toOut]
  | none =>
    simp only [Option.isSome_none, Bool.false_eq_true, if_false]
    generalize r.buffer ++ data = buf
    have h64 : 64 * 1024 = 65536 := by decide
    rw [h64]
    by_cases h5 : buf.length < 5
    · simp only [h5, ↓reduceIte]; rfl
    · simp only [h5, ↓reduceIte]
      by_cases h16 : (buf.getD 0 0).toNat = 22
      · have : ¬ ((buf.getD 0 0 != 0x16) = true) := by rw [hct]; simpa using h16
        have h16' : ¬ ((buf.getD 0 0).toNat ≠ 22) := by simpa using h16
        simp only [this, h16', ↓reduceIte]
        by_cases hn : buf.length < (buf.getD 3 0).toNat * 256 + (buf.getD 4 0).toNat + 5
        · simp only [hn, ↓reduceIte]; rfl
        · simp only [hn, ↓reduceIte]
          by_cases hb : (buf.getD 3 0).toNat * 256 + (buf.getD 4 0).toNat + 5 > 65536
          · simp only [hb, ↓reduceIte]; rfl
          · simp only [hb, ↓reduceIte]
            cases hp : parse (buf.take ((buf.getD 3 0).toNat * 256 + (buf.getD 4 0).toNat + 5)) <;> rfl
      · have : (buf.getD 0 0 != 0x16) = true := by rw [hct]; exact h16
        simp only [this, h16, ne_eq, not_false_eq_true, ↓reduceIte]; rfl

/-- Lifted to whole segment sequences: the outputs of the cache-program reader are the images of
the outputs `Reader.run` (the object of C08's segmentation theorems) produces. -/
theorem reader_runs_agree {σ} (parse : Huginn.Tls.Bytes → PR σ) (segs : List Huginn.Tls.Bytes) :
    ∀ r : Huginn.Tls.Reader σ,
      (segs.foldl (fun (acc : Huginn.FlowProgs.Reader × List (AddRes σ)) d =>
          let x := readerAdd (fun b => toRes (parse b)) acc.1 d
          (x.1, acc.2 ++ [x.2])) (toReader r, [])).2 =
        (Reader.run parse r segs).map toOut := by
  suffices h : ∀ (segs : List Huginn.Tls.Bytes) (r : Huginn.Tls.Reader σ) (pre : List (AddRes σ)),
      (segs.foldl (fun (acc : Huginn.FlowProgs.Reader × List (AddRes σ)) d =>
          let x := readerAdd (fun b => toRes (parse b)) acc.1 d
          (x.1, acc.2 ++ [x.2])) (toReader r, pre)).2 =
        pre ++ (Reader.run parse r segs).map toOut by
    intro r; simpa using h segs r []
  intro segs
  induction segs with
  | nil => intro r pre; simp [Reader.run]
  | cons d rest ih =>
    intro r pre
    simp only [List.foldl_cons, Reader.run, List.map_cons]
    rw [reader_models_agree, ih]
    simp

end Huginn.Props.C08Bridge
