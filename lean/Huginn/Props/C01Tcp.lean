import Huginn.Lemmas.TcpChecked
import Huginn.Lemmas.TcpWalk
set_option linter.unusedSimpArgs false
/-
C01 (TCP level) — the signature extractor never faults and its loop terminates.

`Model/TcpChecked.lean` mirrors every indexing / slicing expression, every `%` and `/` by a
non-literal, every unguarded subtraction and every `try_into()` of tcp_process.rs, window_size.rs and
ip_options.rs (mtu.rs has saturating arithmetic only) with accessors that fail exactly where Rust
panics, behind the guards as written; the pnet views the code is built on are mirrored the same way.
The theorems say: for every input — every option area of any length and content, every window, MSS
and header value, every packet buffer — the run is `.ok`, and its value is the one the total model
`Model/TcpExtract.lean` computes (the model C03 and C19 reason about). Termination of
`while let Some(opt) = TcpOptionPacket::new(buf)`: the checked loop run with `buf.len()` units of
fuel is the fuel-free walk (`option_walk_no_fault` + `Props.C03.walk_terminates`): every iteration
consumes at least one byte because `packet_size() >= 1`.
-/
namespace Huginn.Props.C01Tcp
open Huginn.Sig Huginn.TcpExtract Huginn.TcpChecked Huginn.Lemmas.TcpChecked

/-- **pnet option view** (`packet_size`, `payload`, `get_number` behind `TcpOptionPacket::new`):
no slice is out of range, for any non-empty buffer. -/
theorem option_view_no_fault (k : Nat) (tl : Bytes) :
    optSizeC (k :: tl) = .ok (optSize (k :: tl)) ∧ optPayloadC (k :: tl) = .ok (optPayload (k :: tl)) ∧
    1 ≤ optSize (k :: tl) :=
  ⟨optSizeC_cons k tl, optPayloadC_cons k tl, Huginn.Lemmas.TcpWalk.optSize_pos k tl⟩

/-- **the arms of the option `match`** (tcp_process.rs: `data[0]`, `data[1]` in the MSS arm;
`data[..4]`, `data[4..8]`, `data[..4]` and the three `try_into()` in the TIMESTAMPS arm; `data.first()`
in the WSCALE arm): no index or slice is out of range and no conversion fails, for any option kind,
payload and remaining buffer. -/
theorem option_arms_no_fault (ty kind : Nat) (data rest : Bytes) (st : WalkSt) :
    walkStepC ty kind data rest st = .ok (walkStep ty kind data rest st) := walkStepC_eq ty kind data rest st

/-- **the option walk** (`while let Some(opt) = TcpOptionPacket::new(buf)` with the advance
`buf = &buf[opt.packet_size().min(buf.len())..]`): for every option area the loop never faults and
terminates within `buf.len()` iterations with the result of the total model. -/
theorem option_walk_no_fault (ty : Nat) (buf : Bytes) (st : WalkSt) :
    walkC ty buf.length buf st = .ok (walk ty buf st) := walkC_eq ty buf.length buf st

/-- … and more fuel changes nothing: the loop has stopped. -/
theorem option_walk_terminates (ty n : Nat) (buf : Bytes) (st : WalkSt) (h : buf.length ≤ n) :
    walkC ty n buf st = .ok (walk ty buf st) := by
  rw [walkC_eq, Huginn.Lemmas.TcpWalk.walkAux_eq_walk ty n buf st h]

/-- **window_size.rs** `detect_win_multiplicator`: `window_size % $div` and `window_size / $div` are
never evaluated with a zero divisor, the constant subtractions do not underflow, `multiplier as u8`
never truncates — for every window, MSS, header size, flag and version. -/
theorem detect_win_no_fault (w mss hdr : Nat) (ts : Bool) (ver : IpVersion) :
    detectWinC w mss hdr ts ver = .ok (detectWin w mss hdr ts ver) := detectWinC_eq w mss hdr ts ver

/-- the multiplier handed to `as u8` fits a byte -/
theorem multiplier_fits (w d n : Nat) (h : checkDiv w d = some n) : n ≤ 255 := by
  unfold checkDiv at h
  split at h
  · split at h
    · simp only [Option.some.injEq] at h; subst h; assumption
    · cases h
  · cases h

/-- **ip_options.rs** `calculate_ipv6_length`: `payload[1]` is in range and the result fits `u8`. -/
theorem ipv6_ext_len_no_fault (next : Nat) (payload : Bytes) :
    ∃ r, calcIpv6LenC next payload = .ok r ∧ r < 256 := calcIpv6LenC_total next payload

/-- **tcp_process.rs** `visit_tcp` (and through it mtu.rs, window_size.rs): total. -/
theorem visit_tcp_no_fault (t : TcpHdr) (ver : IpVersion) (ittl : Ttl) (ipHdrLen olen : Nat) (q0 : List Quirk) :
    visitTcpC t ver ittl ipHdrLen olen q0 = .ok (visitTcp t ver ittl ipHdrLen olen q0) :=
  visitTcpC_eq t ver ittl ipHdrLen olen q0

/-- **tcp_process.rs** `process_tcp_ipv4` / `process_tcp_ipv6`: an error value or a result, never a
fault, for every header-field record. -/
theorem process_tcp_no_fault (f : Fields) : processC f = .ok (process f) := processC_eq f

/-- **pnet packet views** (`TcpPacket::new` + `get_options_raw`, `Ipv4Packet/Ipv6Packet::payload`):
no slice is out of range, for any buffer. -/
theorem packet_views_no_fault (b p : Bytes) :
    decodeTcpC p = .ok (decodeTcp p) ∧
    (∀ ip pl, decodeIp4 b = some (ip, pl) → ip4PayloadC b = .ok pl) ∧
    (∀ ip pl, decodeIp6 b = some (ip, pl) → ip6PayloadC b = .ok pl) :=
  ⟨decodeTcpC_eq p, ip4PayloadC_eq b, ip6PayloadC_eq b⟩

/-- In the form "the run is never an error". -/
theorem tcp_never_faults (f : Fields) (ty : Nat) (buf : Bytes) (st : WalkSt) (w mss hdr : Nat) (ts : Bool)
    (ver : IpVersion) (next : Nat) (payload p : Bytes) (e : Fault) :
    processC f ≠ .error e ∧ walkC ty buf.length buf st ≠ .error e ∧ detectWinC w mss hdr ts ver ≠ .error e ∧
    calcIpv6LenC next payload ≠ .error e ∧ decodeTcpC p ≠ .error e := by
  refine ⟨?_, ?_, ?_, ?_, ?_⟩
  · rw [process_tcp_no_fault]; exact fun h => nomatch h
  · rw [option_walk_no_fault]; exact fun h => nomatch h
  · rw [detect_win_no_fault]; exact fun h => nomatch h
  · obtain ⟨r, hr, _⟩ := ipv6_ext_len_no_fault next payload; rw [hr]; exact fun h => nomatch h
  · rw [(packet_views_no_fault [] p).1]; exact fun h => nomatch h

/-! ### non-vacuity: the checked accessors do fail where a guard is missing -/

example : idx ([] : Bytes) 0 = .error (.index 0 0) ∧ from_ [1, 2] 3 = .error (.slice 3 2 2) ∧
    range [1, 2, 3] 2 1 = .error (.slice 2 1 3) ∧ cmod 5 0 = .error .divZero ∧ csub 3 5 = .error .overflow ∧
    be32Of [1, 2, 3] = .error (.tryInto 3) := by decide

/-- the WSCALE arm as it was before fix 1e026f8 (`wscale = Some(data[0])`, DESIGN §8 #1) -/
def wsArmUnguarded (data : Bytes) (st : WalkSt) : M WalkSt := do
  let shift ← idx data 0
  pure { st with olayout := st.olayout ++ [.ws], wscale := some shift }

-- option `03 02`: the unguarded arm faults, the arm as written does not
example : (do let d ← optPayloadC [3, 2, 1, 1]; wsArmUnguarded d {}) = .error (.index 0 0) ∧
    (walkC 2 4 [3, 2, 1, 1] {}).toOption.map (·.olayout) = some [.ws, .nop, .nop] := by decide
-- an advance without `.min(buf.len())` would fault on a length byte that runs past the area
example : (do let s ← optSizeC [2, 40, 5]; from_ [2, 40, 5] s) = .error (.slice 40 3 3) ∧
    (walkC 2 3 [2, 40, 5] {}).toOption.map (·.olayout) = some [.mss] := by decide
-- an unguarded remainder faults on divisor 0; `check_mss_div!` guards it (MSS 12 with timestamps)
example : cmod 1200 (12 - 12) = .error .divZero ∧ detectWinC 1200 12 0 true .v4 = .ok (.value 1200) := by decide

end Huginn.Props.C01Tcp
