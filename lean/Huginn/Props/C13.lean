import Huginn.Lemmas.Reach
import Huginn.Props.C02
import Huginn.Props.C12
import Huginn.Lemmas.BundledTextHttp
/-
C13 — Every bundled signature is reachable by the traffic it describes.
Property theorems only; lemmas in `Huginn/Lemmas/Reach.lean` (and those of C02, C03, C12).

Composition: header fields → observation (`Model/TcpExtract.lean`, C03) → table by role → index →
distance (`Model/Match.lean`, C02 / C12), over the bundled database regenerated into
`Gen/BundledSig.lean`. Specification: `Spec/Reach.lean` (`ConformsTcp`, `ConformsHttp`, `Good`,
the shape predicates `ReachTcp` / `ReachHttp`, the dead classes).
-/
namespace Huginn.Props.C13
open Huginn.Sig Huginn.TcpExtract Huginn.TcpSig.Spec Huginn.Match Huginn.Match.Spec
open Huginn.Reach Huginn.Reach.Spec Huginn.Reach.Lemmas Huginn.Lemmas.TcpMain

/-! ## 1. Distance 0 means "instantiates" (converse of C12's instance law, repaired code) -/

theorem distTtl_zero_inst (o s : Ttl) (ho : TtlWF o) (hs : TtlWF s) (hh : ∀ t d, o = .distance t d → d ≤ 30)
    (h : distTtl o s = some 0) : TtlInst o s := by
  cases o <;> cases s <;>
    simp only [distTtl, eqLow, satAdd8, beq_iff_eq, Bool.and_eq_true, tcpHigh_eq, tcpLow_eq, ite_some] at h <;>
    simp only [TtlInst, TtlWF, maxHops] at ho hs ⊢
  all_goals first
    | (cases h; done)
    | (have h30 := hh _ _ rfl
       simp only [Option.some.injEq] at h
       split at h <;> omega)
    | (simp only [Option.some.injEq] at h
       split at h <;> omega)

theorem distWindow_zero_inst (o s : WindowSize) (m : Option Nat) (h : distWindow o s m = some 0) :
    WinInst o s m := by
  cases o <;> cases s <;>
    simp only [distWindow, eqLow, beq_iff_eq, bne_iff_ne, Bool.and_eq_true, Bool.or_eq_true,
      tcpHigh_eq, tcpLow_eq, ite_some] at h <;>
    simp only [WinInst]
  case value.mss a b =>
    cases m with
    | none => simp only [Option.some.injEq] at h; omega
    | some m =>
      simp only [] at h ⊢
      split at h
      · simp only [Option.some.injEq] at h; omega
      · rename_i hm
        simp only [ite_some, Option.some.injEq] at h
        split at h
        · rename_i hb
          refine ⟨by omega, ?_⟩
          have := Nat.div_add_mod a m
          rw [hb.2, ← hb.1] at this
          rw [Nat.mul_comm]; omega
        · omega
  all_goals first
    | (cases h; done)
    | (simp only [Option.some.injEq] at h
       split at h <;> omega)

theorem zero_dist_inst (s : TcpSig) (o : TcpObs) (ho : TtlWF o.ittl) (hs : TtlWF s.ittl)
    (hh : ∀ t d, o.ittl = .distance t d → d ≤ 30) (hd : tcpDistance s o = some 0) : TcpInst o s := by
  obtain ⟨d0, d1, d2, d3, d4, d5, d6, d7, d8, h0, h1, h2, h3, h4, h5, h6, h7, h8, hsum⟩ :=
    tcpDistance_some hd
  have b0 := distIpVersion_le h0; have b1 := distTtl_le h1; have b2 := distOlen_le h2
  have b3 := distMss_le h3; have b4 := distWindow_le h4; have b5 := distWscale_le h5
  have b6 := distOlayout_le h6; have b7 := distQuirks_le h7; have b8 := distPayload_le h8
  have b5' : d5 ≤ 2 := by omega
  rw [sat9_eq (by omega) b1 b2 b3 b4 b5' (by omega) (by omega) (by omega)] at hsum
  have e1 : d1 = 0 := by omega
  have e2 : d2 = 0 := by omega
  have e3 : d3 = 0 := by omega
  have e4 : d4 = 0 := by omega
  have e5 : d5 = 0 := by omega
  subst e1 e2 e3 e4 e5
  refine ⟨⟨?_, ?_, ?_, ?_⟩, distTtl_zero_inst _ _ ho hs hh h1, ?_, ?_, distWindow_zero_inst _ _ _ h4, ?_⟩
  · apply Classical.byContradiction; intro hv; rw [distIpVersion_bad hv] at h0; cases h0
  · unfold distOlayout at h6; split at h6
    · assumption
    · cases h6
  · unfold distQuirks at h7; split at h7
    · assumption
    · cases h7
  · apply Classical.byContradiction; intro hv; rw [distPayload_bad hv] at h8; cases h8
  · rw [distOlen_eq] at h2
    have e : penOlen = 2 := by decide
    rw [e] at h2
    simp only [Option.some.injEq] at h2
    split at h2 <;> first | assumption | omega
  · rw [distMss_eq] at h3
    have e : penMss = 2 := by decide
    rw [e] at h3
    simp only [Option.some.injEq] at h3
    split at h3 <;> first | assumption | omega
  · rw [distWscale_eq] at h5
    have e : penWscale = 1 := by decide
    rw [e] at h5
    simp only [Option.some.injEq] at h5
    split at h5 <;> first | assumption | omega

/-! ## 2. TCP: conforming traffic of a signature of reachable shape is matched at distance 0 by that
signature or an earlier entry it instantiates too — any database, any such signature -/

theorem reach_tcp_general (db : TcpDb) (own : Nat × Nat × TcpSig) (hown : own ∈ entries db)
    (hdbwf : ∀ e ∈ entries db, TtlWF e.2.2.ittl)
    (resp : Bool) (f : Fields) (a : Area) (hwf : f.WF) (hr : ReachTcp f.ip.v6 own.2.2)
    (hc : ConformsTcp resp f a own.2.2) :
    Good TcpInst db own (modelSig f) (tcpFind db (modelSig f)) := by
  obtain ⟨_, _, hinst, hoWF, hsWF, hv, hp, hh⟩ := conforms_inst resp f a own.2.2 hwf hr hc
  have hd0 := (Huginn.Props.C12.tcp_instance own.2.2 (modelSig f) hoWF hsWF hv hinst).1
  rw [Huginn.Props.C02.find_eq_scan_tcp db (modelSig f) hv hp]
  have hbest := Huginn.Props.C02.scan_is_best_tcp db (modelSig f)
  cases hsb : scanBest tcpDistance db (modelSig f) with
  | none =>
    rw [hsb] at hbest
    have := hbest own hown
    rw [hd0] at this; cases this
  | some r =>
    obtain ⟨i, j, d⟩ := r
    rw [hsb] at hbest
    obtain ⟨pre, s', post, hl, hs, hpre, hpost⟩ := hbest
    have hmem := hown
    rw [hl] at hmem
    have hd : d = 0 ∧ (own = (i, j, s') ∨ own ∈ post) := by
      rcases List.mem_append.mp hmem with h | h
      · have := hpre own h 0 hd0; omega
      · rcases List.mem_cons.mp h with h | h
        · rw [h] at hd0; simp only [] at hd0; rw [hs] at hd0
          exact ⟨by cases hd0; rfl, .inl h⟩
        · have := hpost own h 0 hd0
          exact ⟨by omega, .inr h⟩
    obtain ⟨hd, hpos⟩ := hd
    subst hd
    refine ⟨i, j, s', pre, post, rfl, hl, hpos, ?_⟩
    exact zero_dist_inst s' (modelSig f) hoWF (hdbwf (i, j, s') (by rw [hl]; simp)) hh hs

/-! ## 3. The bundled database -/

theorem bundled_request_wf : ∀ e ∈ entries bundledTcpRequest, TtlWF e.2.2.ittl := by decide +kernel
theorem bundled_response_wf : ∀ e ∈ entries bundledTcpResponse, TtlWF e.2.2.ittl := by decide +kernel

/-- **SYN signatures.** For every entry of the bundled `[tcp:request]` section whose signature has
the reachable shape, every SYN conforming to it — IPv4 or IPv6, any hop count 0..30, any admissible
MSS / window / scale / timestamps / ports — is analysed into a match at distance 0 (quality 1.0)
on that entry or an earlier one the observation instantiates as well. -/
theorem reach_tcp_request (own : Nat × Nat × TcpSig) (hown : own ∈ entries bundledTcpRequest)
    (f : Fields) (a : Area) (hwf : f.WF) (hr : ReachTcp f.ip.v6 own.2.2)
    (hc : ConformsTcp false f a own.2.2) :
    ∃ r, tcpAnalyze bundledTcpRequest bundledTcpResponse f = some (true, modelSig f, r) ∧
      Good TcpInst bundledTcpRequest own (modelSig f) r ∧ tcpScore 0 = 100 := by
  obtain ⟨hproc, hfc, _⟩ := conforms_inst false f a own.2.2 hwf hr hc
  refine ⟨tcpFind bundledTcpRequest (modelSig f), ?_,
    reach_tcp_general _ own hown bundled_request_wf false f a hwf hr hc, by decide⟩
  unfold tcpAnalyze
  rw [hproc]
  simp [hfc]

/-- **SYN+ACK signatures**, against the `[tcp:response]` section. -/
theorem reach_tcp_response (own : Nat × Nat × TcpSig) (hown : own ∈ entries bundledTcpResponse)
    (f : Fields) (a : Area) (hwf : f.WF) (hr : ReachTcp f.ip.v6 own.2.2)
    (hc : ConformsTcp true f a own.2.2) :
    ∃ r, tcpAnalyze bundledTcpRequest bundledTcpResponse f = some (false, modelSig f, r) ∧
      Good TcpInst bundledTcpResponse own (modelSig f) r ∧ tcpScore 0 = 100 := by
  obtain ⟨hproc, hfc, _⟩ := conforms_inst true f a own.2.2 hwf hr hc
  refine ⟨tcpFind bundledTcpResponse (modelSig f), ?_,
    reach_tcp_general _ own hown bundled_response_wf true f a hwf hr hc, by decide⟩
  unfold tcpAnalyze
  rw [hproc]
  simp [hfc]

/-- A signature has the reachable shape exactly when no dead-class reason applies. -/
theorem reach_iff_no_reason (v6 : Bool) (s : TcpSig) : ReachTcp v6 s ↔ deadReasons v6 s = [] := by
  unfold ReachTcp deadReasons
  by_cases hw : WindowReach v6 s <;>
    cases ttlShape s <;> cases eolShape s <;> cases quirkShape s <;> cases scaleShape s <;>
    cases versionQuirkShape v6 s <;> simp [hw]

/-! ### non-vacuity and the dead classes (kernel-checked witnesses on the bundled database) -/

/-- A SYN built for signature `s`: the listed options with the given MSS / shift, header bits
according to the signature's quirks. -/
def synthSyn (s : TcpSig) (v6 : Bool) (ttl mss win shift : Nat) : Fields × Area :=
  let q := s.quirks
  let items : List Item := s.olayout.filterMap (fun o => match o with
    | .nop => some .nop
    | .mss => some (.opt 2 [mss / 256, mss % 256])
    | .ws => some (.opt 3 [shift])
    | .sok => some (.opt 4 [])
    | .ts => some (.opt 8 [0, 0, 0, if q.contains .ownTimestampZero then 0 else 1, 0, 0, 0, 0])
    | _ => none)
  let pad : Option Bytes := s.olayout.findSome? (fun o => match o with
    | .eol n => some (List.replicate n 0) | _ => none)
  let a : Area := ⟨items, pad⟩
  let df := q.contains .df
  ({ ip := { v6 := v6, ttl := ttl, ihl := 5, flags := if df then 2 else 0,
             ipid := if q.contains .nonZeroID then 1 else if df then 0 else if q.contains .zeroID then 0 else 1,
             ecn := if q.contains .ecn then 2 else 0, proto := 6 },
     tcp := { sport := 40000, dport := 80, seq := 1, ack := if q.contains .ackNumNonZero then 1 else 0,
              doff := 5 + a.encode.length / 4, flags := 2, window := win,
              urg := if q.contains .nonZeroURG then 1 else 0, opts := a.encode, payLen := 0 } }, a)

def sigAtLine96 : Nat × Nat × TcpSig := (0, 0,
  { version := .any, ittl := .value 64, olen := 0, mss := none, wsize := .mss 20, wscale := some 10,
    olayout := [.mss, .sok, .ts, .nop, .ws], quirks := [.df, .nonZeroID], pclass := .zero })

-- non-vacuity: p0f.fp line 96 (Linux 3.11+) has the reachable shape for IPv4, and a SYN 7 hops
-- away with MSS 1460, window 20 × 1460, scale 10 conforms to it
example : sigAtLine96 ∈ entries bundledTcpRequest ∧ ReachTcp false sigAtLine96.2.2 ∧
    (synthSyn sigAtLine96.2.2 false 57 1460 29200 10).1.WF ∧
    ConformsTcp false (synthSyn sigAtLine96.2.2 false 57 1460 29200 10).1
      (synthSyn sigAtLine96.2.2 false 57 1460 29200 10).2 sigAtLine96.2.2 := by decide +kernel

/-- Full statement (no shape restriction): what `reach_tcp_request` would say for every entry. -/
def FullReachTcpRequest : Prop :=
  ∀ own ∈ entries bundledTcpRequest, ∀ f a, f.WF → ConformsTcp false f a own.2.2 →
    Good TcpInst bundledTcpRequest own (modelSig f) (tcpFind bundledTcpRequest (modelSig f))

/-- How a witness refutes the full statement: the scan (= the lookup, C02) does not end at
distance 0. -/
theorem not_full_of (own : Nat × Nat × TcpSig) (f : Fields) (a : Area)
    (hown : own ∈ entries bundledTcpRequest) (hwf : f.WF) (hc : ConformsTcp false f a own.2.2)
    (hv : (modelSig f).version ≠ .any) (hp : (modelSig f).pclass ≠ .any)
    (hscan : (scanBest tcpDistance bundledTcpRequest (modelSig f)).map (fun r => r.2.2) ≠ some 0) :
    ¬ FullReachTcpRequest := by
  intro h
  obtain ⟨i, j, _, _, _, hr, _⟩ := h own hown f a hwf hc
  rw [Huginn.Props.C02.find_eq_scan_tcp _ _ hv hp] at hr
  rw [Option.some.inj hr] at hscan
  exact hscan rfl

def sigAtLine127 : Nat × Nat × TcpSig := (5, 0,
  { version := .any, ittl := .value 64, olen := 0, mss := none, wsize := .mss 12, wscale := some 0,
    olayout := [.mss], quirks := [], pclass := .zero })

/-- `scaleWithoutOption` — p0f.fp line 127 (`…:mss*12,0:mss::0`): a SYN with only an MSS option
has no window scale; the observation says "absent", the signature `0`: distance 1, quality 0.95. -/
theorem kf_scaleWithoutOption_witness : ¬ FullReachTcpRequest :=
  not_full_of sigAtLine127 (synthSyn sigAtLine127.2.2 false 60 1460 17520 0).1
    (synthSyn sigAtLine127.2.2 false 60 1460 17520 0).2 (by decide +kernel) (by decide +kernel)
    (by decide +kernel) (by decide +kernel) (by decide +kernel) (by decide +kernel)
example : KF.C13.scaleWithoutOption false sigAtLine127.2.2 := by decide +kernel

def sigAtLine154 : Nat × Nat × TcpSig := (11, 2,
  { version := .any, ittl := .value 64, olen := 0, mss := none, wsize := .value 65535, wscale := some 6,
    olayout := [.mss, .sok, .ts, .nop, .ws], quirks := [.df, .nonZeroID], pclass := .zero })

def sigAtLine260 : Nat × Nat × TcpSig := (31, 0,
  { version := .any, ittl := .value 64, olen := 0, mss := none, wsize := .value 16384, wscale := some 0,
    olayout := [.mss, .nop, .nop, .sok, .nop, .ws, .nop, .nop, .ts], quirks := [.df, .nonZeroID],
    pclass := .zero })

/-- `windowReclassified` — p0f.fp line 260 (OpenBSD 3.x, fixed window 16384): the extractor
reports 16384 as `%4096`, which `(Mod, Value)` rejects; nothing in the database accepts the SYN. -/
theorem kf_windowReclassified_witness : ¬ FullReachTcpRequest :=
  not_full_of sigAtLine260 (synthSyn sigAtLine260.2.2 false 60 1460 16384 0).1
    (synthSyn sigAtLine260.2.2 false 60 1460 16384 0).2 (by decide +kernel) (by decide +kernel)
    (by decide +kernel) (by decide +kernel) (by decide +kernel) (by decide +kernel)
example : KF.C13.windowReclassified false sigAtLine260.2.2 := by decide +kernel

def sigAtLine223 : Nat × Nat × TcpSig := (24, 0,
  { version := .any, ittl := .value 64, olen := 0, mss := none, wsize := .value 65535, wscale := some 1,
    olayout := [.mss, .nop, .ws, .nop, .nop, .ts, .sok, .eol 1], quirks := [.df, .nonZeroID], pclass := .zero })

/-- `eolPadding` — p0f.fp line 223 (`…,sok,eol+1`): the padding byte after EOL is walked as a
further option (`eol+1,eol+0`), no layout in the database equals that. -/
theorem kf_eolPadding_witness : ¬ FullReachTcpRequest :=
  not_full_of sigAtLine223 (synthSyn sigAtLine223.2.2 false 60 1461 65535 1).1
    (synthSyn sigAtLine223.2.2 false 60 1461 65535 1).2 (by decide +kernel) (by decide +kernel)
    (by decide +kernel) (by decide +kernel) (by decide +kernel) (by decide +kernel)
example : KF.C13.eolPadding false sigAtLine223.2.2 := by decide +kernel

/-- `versionQuirks` — p0f.fp line 96 over IPv6: `df,id+` cannot occur in an IPv6 header (p0f
ignores them there), the code compares the quirk lists verbatim. -/
theorem kf_versionQuirks_witness : ¬ FullReachTcpRequest :=
  not_full_of sigAtLine96 (synthSyn sigAtLine96.2.2 true 57 1440 28800 10).1
    (synthSyn sigAtLine96.2.2 true 57 1440 28800 10).2 (by decide +kernel) (by decide +kernel)
    (by decide +kernel) (by decide +kernel) (by decide +kernel) (by decide +kernel)
example : KF.C13.versionQuirks true sigAtLine96.2.2 := by decide +kernel

def sigAtLine313 : Nat × Nat × TcpSig := (40, 1,
  { version := .any, ittl := .bad 64, olen := 0, mss := some 0, wsize := .value 4, wscale := some 10,
    olayout := [.sok, .ts, .ws, .eol 0], quirks := [.ackNumNonZero], pclass := .zero })
example : sigAtLine313 ∈ entries bundledTcpRequest ∧ KF.C13.badTtl false sigAtLine313.2.2 := by
  decide +kernel

def sigAtLine319 : Nat × Nat × TcpSig := (40, 7,
  { version := .any, ittl := .bad 64, olen := 0, mss := some 1460, wsize := .value 3, wscale := some 10,
    olayout := [.ws, .nop, .mss, .sok, .nop, .nop], quirks := [.ecn, .nonZeroURG], pclass := .zero })
example : sigAtLine319 ∈ entries bundledTcpRequest ∧ KF.C13.quirkOrder false sigAtLine319.2.2 := by
  decide +kernel

def sigAtLine332 : Nat × Nat × TcpSig := (41, 2,
  { version := .any, ittl := .value 192, olen := 0, mss := some 1331, wsize := .value 1337, wscale := some 5,
    olayout := [.mss, .ws, .nop, .eol 15], quirks := [], pclass := .zero })
example : sigAtLine332 ∈ entries bundledTcpRequest ∧ KF.C13.oddTtl false sigAtLine332.2.2 := by
  decide +kernel

/-! ## 4. HTTP -/

/-- The header list of a conforming message is converted into an instance of the signature's list
(demanded values are kept because their headers are in neither the optional nor the skip-value
list — `ReachHttp`). -/
theorem convert_inst (isReq : Bool) (hs : List (String × Option String)) (ss : List Header)
    (hc : HdrConf hs ss)
    (hkeep : ∀ h ∈ ss, h.value.isSome →
      inListCI (if isReq then Gen.BundledSig.requestOptionalHeaders else Gen.BundledSig.responseOptionalHeaders) h.name = false ∧
      inListCI (if isReq then Gen.BundledSig.requestSkipValueHeaders else Gen.BundledSig.responseSkipValueHeaders) h.name = false) :
    HdrInst (convertHeaders isReq hs) ss := by
  induction hc with
  | nil => exact .nil
  | @keep h s hs ss hn hv _ ih =>
    have ih := ih (fun x hx => hkeep x (by simp [hx]))
    unfold convertHeaders at ih ⊢
    simp only [List.map_cons]
    have hname : (convertHeader isReq h).name = h.1 := by
      unfold convertHeader
      cases isReq <;> simp only [] <;> (repeat' split) <;> rfl
    refine .keep (hname.trans hn) ?_ ih
    unfold ValueOk
    cases hsv : s.value with
    | none => exact .inl rfl
    | some v =>
      right
      obtain ⟨h1, h2⟩ := hkeep s (by simp) (by simp [hsv])
      rw [← hn] at h1 h2
      unfold convertHeader
      simp only [h1, h2, Bool.false_eq_true, if_false]
      exact hv v hsv
  | @skip s hs ss ho _ ih =>
    exact .skip ho (ih (fun x hx => hkeep x (by simp [hx])))

/-- Dropping the headers the request parser takes out keeps the list conforming (they are optional
in the signature). -/
theorem parsed_conf (isReq : Bool) (hs : List (String × Option String)) (ss : List Header)
    (hc : HdrConf hs ss)
    (hopt : ∀ h ∈ ss, keptHeader isReq (h.name, none) = false → h.optional = true) :
    HdrConf (parsedHeaders isReq hs) ss := by
  induction hc with
  | nil => exact .nil
  | @keep h s hs ss hn hv _ ih =>
    have ih := ih (fun x hx => hopt x (by simp [hx]))
    unfold parsedHeaders at ih ⊢
    simp only [List.filter_cons]
    have hk : keptHeader isReq h = keptHeader isReq (s.name, none) := by
      unfold keptHeader; simp only [hn]
    by_cases hkept : keptHeader isReq h = true
    · simp only [hkept, if_true]
      exact .keep hn hv ih
    · have hf : keptHeader isReq h = false := by simpa using hkept
      simp only [hf, Bool.false_eq_true, if_false]
      exact .skip (hopt s (by simp) (hk ▸ hf)) ih
  | @skip s hs ss ho _ ih =>
    exact .skip ho (ih (fun x hx => hopt x (by simp [hx])))

/-- A conforming message of a signature of reachable shape is observed as an instance of it —
provided the list of missing common headers it produces instantiates the signature's absent list. -/
theorem http_conforms_inst (isReq : Bool) (v : HttpVersion) (hs : List (String × Option String))
    (sw : Option String) (s : HttpSig) (hr : ReachHttp isReq s) (hc : ConformsHttp isReq v hs sw s)
    (hab : ¬ KF.C13.httpAbsentList (absentHeaders isReq (parsedHeaders isReq hs)) s.habsent) :
    HttpInst (httpObsOf isReq v hs sw) s := by
  refine ⟨?_, convert_inst isReq _ s.horder (parsed_conf isReq hs s.horder hc.headers hr.2.2.2) hr.2.2.1,
    Classical.not_not.mp hab, hc.software⟩
  unfold HttpVersionOk httpObsOf
  rcases hc.version.2 with h | h
  · exact .inl h
  · exact .inr h.symm

/-- Observation-level conformance for HTTP: accepted at distance 0. -/
def HttpAccepts (o : HttpObs) (s : HttpSig) : Prop := httpDistance s o = some 0

theorem reach_http_general (db : HttpDb) (own : Nat × Nat × HttpSig) (hown : own ∈ entries db)
    (isReq : Bool) (v : HttpVersion) (hs : List (String × Option String)) (sw : Option String)
    (hr : ReachHttp isReq own.2.2) (hc : ConformsHttp isReq v hs sw own.2.2)
    (hab : ¬ KF.C13.httpAbsentList (absentHeaders isReq (parsedHeaders isReq hs)) own.2.2.habsent)
    (hsw : ¬ KF.C12.expswReversed (trafficClass sw) own.2.2.expsw) :
    Good HttpAccepts db own (httpObsOf isReq v hs sw) (httpFind db (httpObsOf isReq v hs sw)) := by
  have hinst := http_conforms_inst isReq v hs sw own.2.2 hr hc hab
  have hkf : ¬ Huginn.Props.C12.HttpKF own.2.2 (httpObsOf isReq v hs sw) := by
    rintro ((h | h) | h)
    · exact h hr.1
    · exact h hr.2.1
    · exact hsw h
  have hd0 := (Huginn.Props.C12.http_instance_partial own.2.2 _ hkf hinst).1
  have hv : (httpObsOf isReq v hs sw).version ≠ .any := hc.version.1
  rw [Huginn.Props.C02.find_eq_scan_http_request db _ hv]
  have hbest := Huginn.Props.C02.scan_is_best_http db (httpObsOf isReq v hs sw)
  cases hsb : scanBest httpDistance db (httpObsOf isReq v hs sw) with
  | none =>
    rw [hsb] at hbest
    have := hbest own hown
    rw [hd0] at this; cases this
  | some r =>
    obtain ⟨i, j, d⟩ := r
    rw [hsb] at hbest
    obtain ⟨pre, s', post, hl, hs', hpre, hpost⟩ := hbest
    have hmem := hown
    rw [hl] at hmem
    have hd : d = 0 ∧ (own = (i, j, s') ∨ own ∈ post) := by
      rcases List.mem_append.mp hmem with h | h
      · have := hpre own h 0 hd0; omega
      · rcases List.mem_cons.mp h with h | h
        · rw [h] at hd0; simp only [] at hd0; rw [hs'] at hd0
          exact ⟨by cases hd0; rfl, .inl h⟩
        · have := hpost own h 0 hd0
          exact ⟨by omega, .inr h⟩
    obtain ⟨hd, hpos⟩ := hd
    subst hd
    exact ⟨i, j, s', pre, post, rfl, hl, hpos, hs'⟩

/-- **HTTP request signatures** of the bundled database: a conforming request is matched at
distance 0 (quality 1.0) by the signature or an earlier entry that accepts it at distance 0 —
outside the two classes `KF.C13.httpAbsentList` and C12's `expswReversed` (which, with the
observed software string being the whole User-Agent, leaves only messages whose User-Agent is
exactly the token). -/
theorem reach_http_request (own : Nat × Nat × HttpSig) (hown : own ∈ entries bundledHttpRequest)
    (hr : ReachHttp true own.2.2) (v : HttpVersion) (hs : List (String × Option String))
    (sw : Option String) (hc : ConformsHttp true v hs sw own.2.2)
    (hab : ¬ KF.C13.httpAbsentList (absentHeaders true (parsedHeaders true hs)) own.2.2.habsent)
    (hsw : ¬ KF.C12.expswReversed (trafficClass sw) own.2.2.expsw) :
    Good HttpAccepts bundledHttpRequest own (httpObsOf true v hs sw)
      (httpAnalyze bundledHttpRequest bundledHttpResponse true (httpObsOf true v hs sw)) ∧
    httpScore 0 = 100 :=
  ⟨reach_http_general _ own hown true v hs sw hr hc hab hsw, by decide⟩

theorem reach_http_response (own : Nat × Nat × HttpSig) (hown : own ∈ entries bundledHttpResponse)
    (hr : ReachHttp false own.2.2) (v : HttpVersion) (hs : List (String × Option String))
    (sw : Option String) (hc : ConformsHttp false v hs sw own.2.2)
    (hab : ¬ KF.C13.httpAbsentList (absentHeaders false (parsedHeaders false hs)) own.2.2.habsent)
    (hsw : ¬ KF.C12.expswReversed (trafficClass sw) own.2.2.expsw) :
    Good HttpAccepts bundledHttpResponse own (httpObsOf false v hs sw)
      (httpAnalyze bundledHttpRequest bundledHttpResponse false (httpObsOf false v hs sw)) ∧
    httpScore 0 = 100 :=
  ⟨reach_http_general _ own hown false v hs sw hr hc hab hsw, by decide⟩

/-! ## 5. The tables the theorems are about are the bundled file, as the Rust parser reads it -/

/-- Every TCP signature value of `Gen/BundledSig.lean` is what C06's model of `parse_tcp_signature`
returns on the corresponding `sig =` text of the bundled p0f.fp (`Gen/BundledChars.lean`), in file
order (`[tcp:request]` then `[tcp:response]`). -/
theorem bundled_tcp_values_are_parsed_text :
    Gen.BundledChars.tcpSigs.map Huginn.SigText.parseTcpSigFull =
      (Huginn.Reach.Text.flat Gen.BundledSig.tcpRequest ++ Huginn.Reach.Text.flat Gen.BundledSig.tcpResponse).map some :=
  Huginn.Reach.Text.tcp_values_are_parsed_text

/-- … and every HTTP signature value, against C06's model of `parse_http_signature`. -/
theorem bundled_http_values_are_parsed_text :
    Gen.BundledChars.httpSigs.map Huginn.SigText.parseHttpSigFullL =
      (Huginn.Reach.Text.flat Gen.BundledSig.httpRequest ++ Huginn.Reach.Text.flat Gen.BundledSig.httpResponse).map
        (fun s => some (Huginn.SigText.HttpSigL.ofSig s)) :=
  Huginn.Reach.Text.http_values_are_parsed_text

end Huginn.Props.C13
