import Huginn.Lemmas.Reach
import Huginn.Props.C02
import Huginn.Props.C12
/-
C13 — Every bundled signature is reachable by the traffic it describes.
Property theorems only; lemmas in `Huginn/Lemmas/Reach.lean` (and those of C02, C03, C12).

Composition: header fields → observation (`Model/TcpExtract.lean`, C03) → table by role → index →
distance (`Model/Match.lean`, C02 / C12), over the bundled database regenerated into
`Gen/BundledSig.lean`. Specification: `Spec/Reach.lean` (`ConformsTcp`, `ConformsHttp`, `Good`,
the shape predicates `ReachTcp` / `ReachHttp`, the dead classes).
-/
namespace Huginn.Props.C13
open Huginn.Sig Huginn.TcpExtract Huginn.TcpSig.Spec Huginn.Match Huginn.Match.Spec
open Huginn.Reach Huginn.Reach.Spec Huginn.Reach.Lemmas Huginn.Lemmas.TcpMain

/-! ## 1. Distance 0 means "instantiates" (converse of C12's instance law, repaired code) -/

theorem distTtl_zero_inst (o s : Ttl) (ho : TtlWF o) (hs : TtlWF s) (hh : ∀ t d, o = .distance t d → d ≤ 30)
    (h : distTtl o s = some 0) : TtlInst o s := by
  cases o <;> cases s <;>
    simp only [distTtl, eqLow, satAdd8, beq_iff_eq, Bool.and_eq_true, tcpHigh_eq, tcpLow_eq, ite_some] at h <;>
    simp only [TtlInst, TtlWF, maxHops] at ho hs ⊢
  all_goals first
    | (cases h; done)
    | (have h30 := hh _ _ rfl
       simp only [Option.some.injEq] at h
       split at h <;> omega)
    | (simp only [Option.some.injEq] at h
       split at h <;> omega)

theorem distWindow_zero_inst (o s : WindowSize) (m : Option Nat) (h : distWindow o s m = some 0) :
    WinInst o s m := by
  cases o <;> cases s <;>
    simp only [distWindow, eqLow, beq_iff_eq, bne_iff_ne, Bool.and_eq_true, Bool.or_eq_true,
      tcpHigh_eq, tcpLow_eq, ite_some] at h <;>
    simp only [WinInst]
  case value.mss a b =>
    cases m with
    | none => simp only [Option.some.injEq] at h; omega
    | some m =>
      simp only [] at h ⊢
      split at h
      · simp only [Option.some.injEq] at h; omega
      · rename_i hm
        simp only [ite_some, Option.some.injEq] at h
        split at h
        · rename_i hb
          refine ⟨by omega, ?_⟩
          have := Nat.div_add_mod a m
          rw [hb.2, ← hb.1] at this
          rw [Nat.mul_comm]; omega
        · omega
  all_goals first
    | (cases h; done)
    | (simp only [Option.some.injEq] at h
       split at h <;> omega)

theorem zero_dist_inst (s : TcpSig) (o : TcpObs) (ho : TtlWF o.ittl) (hs : TtlWF s.ittl)
    (hh : ∀ t d, o.ittl = .distance t d → d ≤ 30) (hd : tcpDistance s o = some 0) : TcpInst o s := by
  obtain ⟨d0, d1, d2, d3, d4, d5, d6, d7, d8, h0, h1, h2, h3, h4, h5, h6, h7, h8, hsum⟩ :=
    tcpDistance_some hd
  have b0 := distIpVersion_le h0; have b1 := distTtl_le h1; have b2 := distOlen_le h2
  have b3 := distMss_le h3; have b4 := distWindow_le h4; have b5 := distWscale_le h5
  have b6 := distOlayout_le h6; have b7 := distQuirks_le h7; have b8 := distPayload_le h8
  have b5' : d5 ≤ 2 := by omega
  rw [sat9_eq (by omega) b1 b2 b3 b4 b5' (by omega) (by omega) (by omega)] at hsum
  have e1 : d1 = 0 := by omega
  have e2 : d2 = 0 := by omega
  have e3 : d3 = 0 := by omega
  have e4 : d4 = 0 := by omega
  have e5 : d5 = 0 := by omega
  subst e1 e2 e3 e4 e5
  refine ⟨⟨?_, ?_, ?_, ?_⟩, distTtl_zero_inst _ _ ho hs hh h1, ?_, ?_, distWindow_zero_inst _ _ _ h4, ?_⟩
  · apply Classical.byContradiction; intro hv; rw [distIpVersion_bad hv] at h0; cases h0
  · unfold distOlayout at h6; split at h6
    · assumption
    · cases h6
  · unfold distQuirks at h7; split at h7
    · assumption
    · cases h7
  · apply Classical.byContradiction; intro hv; rw [distPayload_bad hv] at h8; cases h8
  · rw [distOlen_eq] at h2
    have e : penOlen = 2 := by decide
    rw [e] at h2
    simp only [Option.some.injEq] at h2
    split at h2 <;> first | assumption | omega
  · rw [distMss_eq] at h3
    have e : penMss = 2 := by decide
    rw [e] at h3
    simp only [Option.some.injEq] at h3
    split at h3 <;> first | assumption | omega
  · rw [distWscale_eq] at h5
    have e : penWscale = 1 := by decide
    rw [e] at h5
    simp only [Option.some.injEq] at h5
    split at h5 <;> first | assumption | omega

/-! ## 2. TCP: conforming traffic of a signature of reachable shape is matched at distance 0 by that
signature or an earlier entry it instantiates too — any database, any such signature -/

theorem reach_tcp_general (db : TcpDb) (own : Nat × Nat × TcpSig) (hown : own ∈ entries db)
    (hdbwf : ∀ e ∈ entries db, TtlWF e.2.2.ittl)
    (resp : Bool) (f : Fields) (a : Area) (hwf : f.WF) (hr : ReachTcp own.2.2)
    (hc : ConformsTcp resp f a own.2.2) :
    Good TcpInst db own (modelSig f) (tcpFind db (modelSig f)) := by
  obtain ⟨_, _, hinst, hoWF, hsWF, hv, hp, hh⟩ := conforms_inst resp f a own.2.2 hwf hr hc
  have hd0 := (Huginn.Props.C12.tcp_instance own.2.2 (modelSig f) hoWF hsWF hv hinst).1
  rw [Huginn.Props.C02.find_eq_scan_tcp db (modelSig f) hv hp]
  have hbest := Huginn.Props.C02.scan_is_best_tcp db (modelSig f)
  cases hsb : scanBest tcpDistance db (modelSig f) with
  | none =>
    rw [hsb] at hbest
    have := hbest own hown
    rw [hd0] at this; cases this
  | some r =>
    obtain ⟨i, j, d⟩ := r
    rw [hsb] at hbest
    obtain ⟨pre, s', post, hl, hs, hpre, hpost⟩ := hbest
    have hmem := hown
    rw [hl] at hmem
    have hd : d = 0 ∧ (own = (i, j, s') ∨ own ∈ post) := by
      rcases List.mem_append.mp hmem with h | h
      · have := hpre own h 0 hd0; omega
      · rcases List.mem_cons.mp h with h | h
        · rw [h] at hd0; simp only [] at hd0; rw [hs] at hd0
          exact ⟨by cases hd0; rfl, .inl h⟩
        · have := hpost own h 0 hd0
          exact ⟨by omega, .inr h⟩
    obtain ⟨hd, hpos⟩ := hd
    subst hd
    refine ⟨i, j, s', pre, post, rfl, hl, hpos, ?_⟩
    exact zero_dist_inst s' (modelSig f) hoWF (hdbwf (i, j, s') (by rw [hl]; simp)) hh hs

/-! ## 3. The bundled database -/

theorem bundled_request_wf : ∀ e ∈ entries bundledTcpRequest, TtlWF e.2.2.ittl := by decide +kernel
theorem bundled_response_wf : ∀ e ∈ entries bundledTcpResponse, TtlWF e.2.2.ittl := by decide +kernel

/-- **SYN signatures.** For every entry of the bundled `[tcp:request]` section whose signature has
the reachable shape, every SYN conforming to it — IPv4 or IPv6, any hop count 0..30, any admissible
MSS / window / scale / timestamps / ports — is analysed into a match at distance 0 (quality 1.0)
on that entry or an earlier one the observation instantiates as well. -/
theorem reach_tcp_request (own : Nat × Nat × TcpSig) (hown : own ∈ entries bundledTcpRequest)
    (hr : ReachTcp own.2.2) (f : Fields) (a : Area) (hwf : f.WF)
    (hc : ConformsTcp false f a own.2.2) :
    ∃ r, tcpAnalyze bundledTcpRequest bundledTcpResponse f = some (true, modelSig f, r) ∧
      Good TcpInst bundledTcpRequest own (modelSig f) r ∧ tcpScore 0 = 100 := by
  obtain ⟨hproc, hfc, _⟩ := conforms_inst false f a own.2.2 hwf hr hc
  refine ⟨tcpFind bundledTcpRequest (modelSig f), ?_,
    reach_tcp_general _ own hown bundled_request_wf false f a hwf hr hc, by decide⟩
  unfold tcpAnalyze
  rw [hproc]
  simp [hfc]

/-- **SYN+ACK signatures**, against the `[tcp:response]` section. -/
theorem reach_tcp_response (own : Nat × Nat × TcpSig) (hown : own ∈ entries bundledTcpResponse)
    (hr : ReachTcp own.2.2) (f : Fields) (a : Area) (hwf : f.WF)
    (hc : ConformsTcp true f a own.2.2) :
    ∃ r, tcpAnalyze bundledTcpRequest bundledTcpResponse f = some (false, modelSig f, r) ∧
      Good TcpInst bundledTcpResponse own (modelSig f) r ∧ tcpScore 0 = 100 := by
  obtain ⟨hproc, hfc, _⟩ := conforms_inst true f a own.2.2 hwf hr hc
  refine ⟨tcpFind bundledTcpResponse (modelSig f), ?_,
    reach_tcp_general _ own hown bundled_response_wf true f a hwf hr hc, by decide⟩
  unfold tcpAnalyze
  rw [hproc]
  simp [hfc]

/-- A signature has the reachable shape exactly when no dead-class reason applies. -/
theorem reach_iff_no_reason (s : TcpSig) : ReachTcp s ↔ deadReasons s = [] := by
  unfold ReachTcp deadReasons
  by_cases hw : WindowReach s <;>
    cases ttlShape s <;> cases eolShape s <;> cases quirkShape s <;> cases scaleShape s <;> simp [hw]

end Huginn.Props.C13
